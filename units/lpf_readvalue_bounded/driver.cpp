/* Bounded stand-in (NOT a proof) for LPFreadValue<double> of src/soplex/spxlpbase_real.hpp, which CBMC cannot discharge
 * (see props/C13.json "not_covered").  The REAL function of the current tree is executed natively, under AddressSanitizer,
 * on every string of length <= L over the alphabet  + - . e E 0 5 9 blank tab x  that starts like a number (LPFisValue),
 * each in a heap buffer of exactly strlen+1 bytes, with `atof` replaced by a recording function, and compared with an
 * independent scanner of the token grammar  sign? D* (. D*)? ([eE] sign? D*)? :
 *   - pos ends behind the token and one optional white-space character, inside the buffer;
 *   - if the mantissa has a digit, atof is called exactly once with exactly the token bytes and its result is returned;
 *   - otherwise atof is not called and the value is -1 for a leading '-', else +1.
 * Thorough tier additionally: all-digit tokens of length MAXLEN-2 .. MAXLEN+1 and 9000 (MAXLEN = SOPLEX_LPF_MAX_LINE_LEN of the
 * tree), each in a child process so that a sanitizer abort is recorded as a failure of that input.
 * Mode "rat" (argv[3]): the same enumeration drives the RATIONAL twin LPFreadValue(char*&, SPxOut*, int) of spxlpbase_rational.hpp
 * (property C12: every numeric literal becomes exactly the rational it denotes).  pos must advance exactly past the token and one
 * optional white-space character; a digit-free mantissa must give +-1; for every WELL-FORMED token (mantissa has a digit, an
 * exponent marker is followed by at least one digit) the returned Rational is compared EXACTLY with an independent evaluation
 * sign * mantissa / 10^(fraction digits) * 10^exponent built by integer multiply-add (no string conversion shared with ratFromString).
 * Tokens with an empty exponent ("5e", "5e+") denote no number; for them only pos and memory safety are checked.
 * Failure ids: LPFreadValue_rat:<token>.
 * Prints one JSON line. */
#include <cstdio>
#include <cstdlib>
#include <cstring>
#include <string>
#include <vector>
#include <sstream>
#include <algorithm>
#include <iostream>
#include <sys/wait.h>
#include <unistd.h>

static int g_atof_calls = 0;
static std::string g_atof_arg;
static double verif_atof(const char* s)
{
   g_atof_calls++;
   g_atof_arg = s;
   return 1234.5 + (double)std::strlen(s);      /* a value the function cannot produce by itself */
}
namespace std { using ::verif_atof; }           /* the headers also contain std::atof calls */
#define atof verif_atof
#include "soplex/spxlpbase.h"
#undef atof

using namespace soplex;

static bool isdig(char c) { return c >= '0' && c <= '9'; }

/* independent scanner: token length and whether the mantissa has a digit */
static size_t refToken(const char* s, bool& mantissaDigit)
{
   size_t i = 0;
   mantissaDigit = false;

   if(s[i] == '+' || s[i] == '-') i++;

   while(isdig(s[i])) { mantissaDigit = true; i++; }

   if(s[i] == '.')
   {
      i++;

      while(isdig(s[i])) { mantissaDigit = true; i++; }
   }

   if(s[i] == 'e' || s[i] == 'E')
   {
      i++;

      if(s[i] == '+' || s[i] == '-') i++;

      while(isdig(s[i])) i++;
   }

   return i;
}

static std::string show(const std::string& s)
{
   std::string o;

   for(char c : s)
      o += (c == '\t') ? std::string("\\\\t") : (c == ' ' ? std::string("_") : std::string(1, c));

   return s.size() > 40 ? o.substr(0, 12) + "...(" + std::to_string(s.size()) + " chars)" : o;
}

/* runs the real function on one input; returns "" or a description of the discrepancy */
static std::string checkOne(const std::string& text)
{
   char* buf = (char*)std::malloc(text.size() + 1);       /* exactly strlen+1 bytes */
   std::memcpy(buf, text.c_str(), text.size() + 1);
   char* pos = buf;
   g_atof_calls = 0;
   g_atof_arg.clear();
   double v = LPFreadValue<double>(pos, nullptr);
   bool md;
   size_t T = refToken(text.c_str(), md);
   char behind = text.c_str()[T];
   size_t expect = T + ((behind == ' ' || behind == '\t' || behind == '\n' || behind == '\r') ? 1 : 0);
   std::ostringstream err;

   if(pos < buf || pos > buf + text.size())
      err << "pos outside the line; ";
   else if((size_t)(pos - buf) != expect)
      err << "pos advanced by " << (pos - buf) << ", expected " << expect << "; ";

   if(md)
   {
      if(g_atof_calls != 1)
         err << "atof called " << g_atof_calls << " times; ";
      else if(g_atof_arg != text.substr(0, T))
         err << "atof was handed a different string; ";
      else if(v != 1234.5 + (double)T)
         err << "result of atof not returned; ";
   }
   else
   {
      if(g_atof_calls != 0)
         err << "atof called although the mantissa has no digit; ";

      if(v != (text[0] == '-' ? -1.0 : 1.0))
         err << "value " << v << " for a digit-free token; ";
   }

   std::free(buf);
   return err.str();
}

/* independent exact value of a well-formed token s[0..T) */
static bool refRational(const char* s, size_t T, Rational& out)
{
   size_t i = 0;
   bool neg = false, anyDigit = false;
   Integer mant = 0;
   long fracDigits = 0, ex = 0;

   if(s[i] == '+' || s[i] == '-') { neg = (s[i] == '-'); i++; }

   while(i < T && isdig(s[i])) { mant = mant * 10 + (s[i] - '0'); anyDigit = true; i++; }

   if(i < T && s[i] == '.')
   {
      i++;

      while(i < T && isdig(s[i])) { mant = mant * 10 + (s[i] - '0'); fracDigits++; anyDigit = true; i++; }
   }

   if(!anyDigit)
      return false;

   if(i < T && (s[i] == 'e' || s[i] == 'E'))
   {
      i++;
      bool eneg = false;

      if(i < T && (s[i] == '+' || s[i] == '-')) { eneg = (s[i] == '-'); i++; }

      if(i >= T)
         return false;                   /* empty exponent: not a number */

      while(i < T && isdig(s[i])) { ex = ex * 10 + (s[i] - '0'); i++; }

      if(eneg) ex = -ex;
   }

   long e10 = ex - fracDigits;
   Integer p = 1;

   for(long k = 0; k < (e10 < 0 ? -e10 : e10); k++) p *= 10;

   Rational v = (e10 >= 0) ? Rational(Integer(mant * p)) : Rational(mant, p);
   out = neg ? Rational(-v) : v;
   return true;
}

static SPxOut* g_out = nullptr;

/* rational twin on one input; returns "" or a description of the discrepancy */
static std::string checkOneRat(const std::string& text)
{
   char* buf = (char*)std::malloc(text.size() + 1);       /* exactly strlen+1 bytes */
   std::memcpy(buf, text.c_str(), text.size() + 1);
   char* pos = buf;
   Rational v = LPFreadValue(pos, g_out, 1);
   bool md;
   size_t T = refToken(text.c_str(), md);
   char behind = text.c_str()[T];
   size_t expect = T + ((behind == ' ' || behind == '\t' || behind == '\n' || behind == '\r') ? 1 : 0);
   std::ostringstream err;

   if(pos < buf || pos > buf + text.size())
      err << "pos outside the line; ";
   else if((size_t)(pos - buf) != expect)
      err << "pos advanced by " << (pos - buf) << ", expected " << expect << "; ";

   Rational want;

   if(!md)
   {
      if(v != Rational(text[0] == '-' ? -1 : 1))
         err << "value " << v << " for a token without mantissa digit; ";
   }
   else if(refRational(text.c_str(), T, want))
   {
      if(v != want)
         err << "read as " << v << ", denotes " << want << "; ";
   }

   std::free(buf);
   return err.str();
}

int main(int argc, char** argv)
{
   int L = argc > 1 ? std::atoi(argv[1]) : 5;
   bool longTokens = argc > 2 && std::atoi(argv[2]) != 0;
   bool rat = argc > 3 && std::string(argv[3]) == "rat";
   SPxOut spxout;
   spxout.setVerbosity(SPxOut::ERROR);
   g_out = &spxout;
   std::vector<std::string> seenIds;
   const char alpha[] = "+-.eE059 \tx";
   const int A = (int)(sizeof(alpha) - 1);
   long long cases = 0;
   std::vector<std::string> failures;

   for(int len = 1; len <= L; len++)
   {
      std::vector<int> idx(len, 0);

      for(;;)
      {
         std::string s(len, ' ');

         for(int i = 0; i < len; i++) s[i] = alpha[idx[i]];

         if(LPFisValue(s.c_str()))
         {
            cases++;
            std::string e = rat ? checkOneRat(s) : checkOne(s);

            if(!e.empty() && rat)
            {
               bool md;
               std::string id = "LPFreadValue_rat:" + show(s.substr(0, refToken(s.c_str(), md)));

               if(std::find(seenIds.begin(), seenIds.end(), id) == seenIds.end() && failures.size() < 200)
               {
                  seenIds.push_back(id);
                  failures.push_back("{\"id\":\"" + id + "\",\"input\":\"" + show(s) + "\",\"what\":\"" + e + "\"}");
               }
            }
            else if(!e.empty() && failures.size() < 20)
               failures.push_back("{\"id\":\"readvalue-contract\",\"input\":\"" + show(s) + "\",\"what\":\"" + e + "\"}");
         }

         int p = len - 1;

         while(p >= 0 && ++idx[p] == A) idx[p--] = 0;

         if(p < 0) break;
      }
   }

   if(longTokens)
   {
      const long M = SOPLEX_LPF_MAX_LINE_LEN;
      const long lens[] = { M - 2, M - 1, M, M + 1, 9000 };

      for(long n : lens)
      {
         cases++;
         std::fflush(stdout);
         pid_t pid = fork();

         if(pid == 0)
         {
            std::fclose(stderr);
            std::string e = rat ? checkOneRat(std::string((size_t)n, '7') + " x") : checkOne(std::string((size_t)n, '7') + " x");
            _exit(e.empty() ? 0 : 3);
         }

         int st = 0;
         waitpid(pid, &st, 0);

         if(!(WIFEXITED(st) && WEXITSTATUS(st) == 0))
            failures.push_back(std::string("{\"id\":\"") + (rat ? "LPFreadValue_rat:" + std::to_string(n) + "digits" : std::string("readvalue-long-token")) + "\",\"input\":\"" + std::to_string(n) + " digits\",\"what\":\"" +
                               std::string(WIFEXITED(st) && WEXITSTATUS(st) == 3 ? "contract violated" : "sanitizer abort / crash (scratch buffer overflown)") + "\"}");
      }
   }

   std::printf("{\"status\":\"%s\",\"cases\":%lld,\"bound\":\"%sall strings up to length %d over + - . e E 0 5 9 blank tab x that start a number%s\",\"failures\":[",
               failures.empty() ? "pass" : "fail", cases, rat ? "rational LPFreadValue, exact value: " : "", L, longTokens ? "; plus all-digit tokens of MAXLEN-2..MAXLEN+1 and 9000 characters" : "");

   for(size_t i = 0; i < failures.size(); i++)
      std::printf("%s%s", i ? "," : "", failures[i].c_str());

   std::printf("]}\n");
   return 0;
}
