#!/bin/bash
# C13/C12 bounded stand-in (NOT a proof): the real LPFreadValue<double> of the CURRENT tree under AddressSanitizer on every
# number-like string up to length L (quick 5, thorough 6) against an independent token scanner; thorough also runs tokens
# around and above SOPLEX_LPF_MAX_LINE_LEN characters.  See driver.cpp.
# usage: bounded.sh --tier quick|thorough --scratch <dir>      prints ONE JSON line on stdout.
tier=quick; scratch=/var/tmp; mode="${LPF_READVALUE_MODE:-real}"
while [ $# -gt 0 ]; do
   case "$1" in
      --tier) tier="$2"; shift 2;;
      --scratch) scratch="$2"; shift 2;;
      --rational) mode=rat; shift;;
      *) shift;;
   esac
done
here="$(cd "$(dirname "$0")" && pwd)"
repo="${VERIF_REPO:-/repo}"
L=5; long=0; [ "$tier" = thorough ] && { L=6; long=1; }
work="$scratch/lpf_readvalue.$$"
machinery() { printf '{"status":"machinery","cases":0,"bound":"number-like strings up to length %s","failures":[],"reason":"bounded stand-in lpf_readvalue: %s"}\n' "$L" "$1"; rm -rf "$work"; exit 0; }
mkdir -p "$work/inc/soplex" || machinery "cannot create scratch"
hpp="$repo/src/soplex/spxlpbase_real.hpp"
[ -f "$hpp" ] || machinery "spxlpbase_real.hpp not found under $repo"
if [ "$mode" = rat ]; then
   grep -q 'static Rational LPFreadValue(char\*& pos, SPxOut\* spxout, const int lineno = -1)' "$repo/src/soplex/spxlpbase_rational.hpp" || machinery "signature of the rational LPFreadValue changed"
fi
grep -q 'static R LPFreadValue(char\*& pos, SPxOut\* spxout)' "$hpp" || machinery "signature of LPFreadValue changed"
[ "$mode" = rat ] || grep -q 'value = atof(tmp.data());' "$hpp" || machinery "LPFreadValue no longer converts through atof(tmp.data()): the recording hook of the driver does not apply"
ver() { sed -n "s/.*set *( *SOPLEX_VERSION_$1 *\([0-9][0-9]*\).*/\1/p" "$repo/CMakeLists.txt" 2>/dev/null | head -1; }
{
   echo '#ifndef __SPXCONFIG_H__'; echo '#define __SPXCONFIG_H__'; echo '#define SOPLEX_BUILD_TYPE "verif-bounded"'
   for k in MAJOR MINOR PATCH; do v="$(ver $k)"; echo "#define SOPLEX_VERSION_$k ${v:-0}"; done
   echo '#define SOPLEX_WITH_BOOST'; echo '#define SOPLEX_WITH_GMP'; echo '#define SOPLEX_WITH_MPFR'; echo '#define SOPLEX_WITH_ZLIB'; echo '#endif'
} > "$work/inc/soplex/config.h"
echo '#define SPX_GITHASH "verif-bounded"' > "$work/inc/soplex/git_hash.cpp"
lib=""
for n in didxset idxset mpsinput nameset spxdefines spxgithash spxid spxout usertimer wallclocktimer; do lib="$lib $repo/src/soplex/$n.cpp"; done
if ! timeout 900 g++ -std=c++14 -O1 -g -DNDEBUG -fsanitize=address -I"$work/inc" -I"$repo/src" "$here/driver.cpp" $lib -o "$work/driver" -lgmp -lmpfr -lz > "$work/cc.log" 2>&1; then
   machinery "driver does not compile against the current headers: $(tail -3 "$work/cc.log" | tr '\n"\\' "  /" | cut -c1-300)"
fi
out="$(ASAN_OPTIONS=detect_leaks=0 timeout 1500 "$work/driver" "$L" "$long" "$mode" 2> "$work/run.log" | tail -1)"
case "$out" in
   '{"status":'*) printf '%s\n' "$out";;
   *) machinery "driver gave no result (rc/timeout/sanitizer abort in the enumeration): $(grep -m1 -E 'ERROR: AddressSanitizer|runtime error' "$work/run.log" | tr '\n"\\' "  /" | cut -c1-200) $(tail -1 "$work/run.log" | tr '\n"\\' "  /" | cut -c1-100)";;
esac
rm -rf "$work"
exit 0
