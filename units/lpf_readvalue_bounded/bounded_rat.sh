#!/bin/bash
# C12 bounded stand-in (NOT a proof): the RATIONAL LPFreadValue of spxlpbase_rational.hpp, exact value against an independent
# parser, on the token set of bounded.sh (see driver.cpp, mode "rat").  Prints ONE JSON line.
exec "$(cd "$(dirname "$0")" && pwd)/bounded.sh" --rational "$@"
