/* Contracts for SVectorBase<int> (C19).  elem[k]: low 32 bits = value, high 32 bits = index of the k-th nonzero.
 * "For all k" = ghost position g_k.  Where a body walks the array with pointers (dim, remove(n,m), operator*) or sits
 * behind a call (operator[] -> pos) the loop is unwound completely (bounded by size() <= CAP). */
#include "verif_c.h"
#ifndef CAP
#define CAP 8
#endif
#include "rep.h"
long long* gp_elem; int g_size0, g_i;
int g_k, g_src, g_c0; long long v_g, v_s;
#define LO32(x)  ((int)(unsigned int)((unsigned long long)(x) & 0xffffffffULL))
#define HI32(x)  ((int)(unsigned int)((unsigned long long)(x) >> 32))
#define VAL(k)   LO32(elem[k])
#define IDX(k)   HI32(elem[k])
#ifdef CONST_ALLOC
#define WF (memsize == CAP && __CPROVER_is_fresh(elem, CAP * sizeof(long long)) && __CPROVER_is_fresh(memused, sizeof(int)) \
            && 0 <= *memused && *memused <= memsize && g_size0 == *memused)
#else
#define WF (1 <= memsize && memsize <= CAP && __CPROVER_is_fresh(elem, memsize * sizeof(long long)) && __CPROVER_is_fresh(memused, sizeof(int)) \
            && 0 <= *memused && *memused <= memsize && g_size0 == *memused)
#endif
#define RET __CPROVER_return_value
#define GHOST_ELEM (0 <= g_k && g_k < *memused && v_g == elem[g_k])

#ifdef INST_dot
/* operator*(w) = sum over the nonzeros of value * w[index] "in dense arithmetic": with MUL an uninterpreted binary function
 * (the ring multiplication; the proof holds for every interpretation) and exact int addition, the result is ps[size()],
 * where the ghost prefix sums are defined cell by cell: ps[0] = 0, ps[k+1] = ps[k] + MUL(val[k], w[idx[k]]).
 * Stored indices are < w.dim() (SVSet/LP type invariant, here a precondition); products bounded so that sums cannot overflow. */
int __CPROVER_uninterpreted_mul(int, int);
#define PBND (1 << 20)
#define P_PS(k) (!((k) < *memused) || (0 <= IDX(k) && IDX(k) < wdim \
                  && -PBND <= __CPROVER_uninterpreted_mul(VAL(k), w[IDX(k)]) && __CPROVER_uninterpreted_mul(VAL(k), w[IDX(k)]) <= PBND \
                  && ps[(k) + 1] == ps[k] + __CPROVER_uninterpreted_mul(VAL(k), w[IDX(k)])))
int w_dot(long long* elem, int memsize, int* memused, const int* w, int wdim, const int* ps)
__CPROVER_requires(memsize == CAP && __CPROVER_is_fresh(elem, CAP * sizeof(long long)) && __CPROVER_is_fresh(memused, sizeof(int))
   && 0 <= *memused && *memused <= memsize && g_size0 == *memused)
__CPROVER_requires(1 <= wdim && wdim <= CAP && __CPROVER_is_fresh(w, CAP * sizeof(int)))
__CPROVER_requires(__CPROVER_is_fresh(ps, (CAP + 1) * sizeof(int)) && ps[0] == 0 && REP_ALL(P_PS))
__CPROVER_assigns(*memused)
__CPROVER_ensures(*memused == g_size0 && __CPROVER_return_value == ps[g_size0])
;
void h_dot(void)
{
   long long* elem; int memsize; int* memused; const int* w; int wdim; const int* ps;
   g_size0 = nondet_int();
   w_dot(elem, memsize, memused, w, wdim, ps);
   CANARY();
}
#else
int w_sv(long long* elem, int memsize, int* memused, int op, int a, int b, const int* w, int wdim, int* out2, const int* ps)
#if defined(INST_add)
/* add(i, v): v != 0: appended as the last nonzero (i, v), size()+1; v == 0: nothing changes.  Requires size() < max(). */
__CPROVER_requires(WF && *memused < memsize && GHOST_ELEM)
__CPROVER_assigns(gp_elem, *memused, __CPROVER_object_whole(elem))
__CPROVER_ensures(*memused == g_size0 + (b != 0 ? 1 : 0) && elem[g_k] == v_g)
__CPROVER_ensures(b == 0 || (IDX(g_size0) == a && VAL(g_size0) == b))
#elif defined(INST_remove1)
/* remove(n): the last nonzero moves into position n, size()-1, nothing else changes */
__CPROVER_requires(WF && 0 <= a && a < *memused && 0 <= g_k && g_k < *memused - 1 && v_g == elem[g_k] && v_s == elem[*memused - 1])
__CPROVER_assigns(gp_elem, *memused, __CPROVER_object_whole(elem))
__CPROVER_ensures(*memused == g_size0 - 1 && elem[g_k] == (g_k == a ? v_s : v_g))
#elif defined(INST_remove2)
/* remove(n, m): positions n..m are deleted, the hole is filled from the tail: the last c = min(m-n+1, size-m-1) nonzeros
 * move (in reverse order) to n..n+c-1, everything else stays, size() shrinks by m-n+1.
 * Instance remove2_longtail: at least m-n+1 nonzeros follow the range.  Instance remove2: any range; EXPECTED TO FAIL on
 * the unchanged tree, see unit.json note. */
#ifdef LONGTAIL
__CPROVER_requires(WF && 0 <= a && a <= b && b < *memused && *memused - b - 1 >= b - a + 1)
#else
__CPROVER_requires(WF && 0 <= a && a <= b && b < *memused)
#endif
__CPROVER_requires(g_c0 == ((b - a + 1 <= *memused - b - 1) ? b - a + 1 : *memused - b - 1))
__CPROVER_requires(0 <= g_k && g_k < *memused - (b - a + 1))
__CPROVER_requires(g_src == ((a <= g_k && g_k < a + g_c0) ? g_size0 - 1 - (g_k - a) : g_k))
__CPROVER_requires(v_s == elem[g_src])
__CPROVER_assigns(gp_elem, *memused, __CPROVER_object_whole(elem))
__CPROVER_ensures(*memused == g_size0 - (b - a + 1))
__CPROVER_ensures(elem[g_k] == v_s)
#elif defined(INST_pos)
/* pos(i): position of the FIRST nonzero with index i, or -1 */
__CPROVER_requires(WF && GHOST_ELEM && g_i == a)
__CPROVER_assigns(gp_elem, *memused)
__CPROVER_ensures(RET >= -1 && RET < *memused && *memused == g_size0 && elem[g_k] == v_g)
__CPROVER_ensures(RET < 0 || IDX(RET) == a)
__CPROVER_ensures(!(RET == -1 || g_k < RET) || IDX(g_k) != a)
#elif defined(INST_dim)
/* dim(): 0 for the empty vector, otherwise (largest stored index) + 1: above every stored index and attained by one.
 * Stored indices are 0 <= idx < INT_MAX (type invariant; idx + 1 must not overflow). */
#define P_IDXOK(k)  (!((k) < *memused) || (0 <= IDX(k) && IDX(k) < 2147483647))
#define P_NOTMAX(k) (!((k) < g_size0) || IDX(k) != RET - 1)
__CPROVER_requires(WF && (*memused == 0 || GHOST_ELEM) && REP_ALL(P_IDXOK))
__CPROVER_assigns(gp_elem, *memused)
__CPROVER_ensures(*memused == g_size0 && (g_size0 != 0 || RET == 0))
__CPROVER_ensures(g_size0 == 0 || (RET > IDX(g_k) && elem[g_k] == v_g))
__CPROVER_ensures(g_size0 == 0 || !(REP_ALL(P_NOTMAX)))
#elif defined(INST_at)
/* operator[](i): the value of the FIRST nonzero with index i, 0 if there is none (= the i-th entry of the dense vector) */
#define P_NOIDX(k)        (!((k) < g_size0) || IDX(k) != a)
#define P_BEFORE_NOIDX(k) (!((k) < g_k) || IDX(k) != a)
__CPROVER_requires(WF && (*memused == 0 || GHOST_ELEM))
__CPROVER_assigns(gp_elem, *memused)
__CPROVER_ensures(*memused == g_size0 && (g_size0 == 0 || elem[g_k] == v_g))
__CPROVER_ensures(g_size0 == 0 || !(IDX(g_k) == a && REP_ALL(P_BEFORE_NOIDX)) || RET == VAL(g_k))
__CPROVER_ensures(!(REP_ALL(P_NOIDX)) || RET == 0)
#elif defined(INST_access)
/* index(n), value(n): the n-th nonzero */
__CPROVER_requires(WF && 0 <= a && a < *memused && __CPROVER_is_fresh(out2, sizeof(int)) && g_k == a && v_g == elem[g_k])
__CPROVER_assigns(gp_elem, *memused, *out2)
__CPROVER_ensures(RET == HI32(v_g) && *out2 == LO32(v_g) && *memused == g_size0 && elem[g_k] == v_g)
#endif
;

void h_sv(void)
{
   long long* elem; int memsize; int* memused; int op, a, b; const int* w; int wdim; int* out2; const int* ps;
   g_k = nondet_int(); g_src = nondet_int(); g_c0 = nondet_int(); g_size0 = nondet_int(); g_i = nondet_int();
   v_g = nondet_ll(); v_s = nondet_ll();
   w_sv(elem, memsize, memused, op, a, b, w, wdim, out2, ps);
   CANARY();
}
#endif
