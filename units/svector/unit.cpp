/* C19: SVectorBase<R> (src/soplex/svectorbase.h, basevectors.h), R = int (ordered ring; no arithmetic abstraction).
 * Real bodies of size, max, dim, pos, operator[], index, value, add(i,v), remove(n), remove(n,m), set_size and the
 * dense-sparse product operator*(const VectorBase<R>&); the generic class StableSum<T> is the real class text
 * (extracted verbatim); Nonzero<R> is a two-member replica.  SVecHost replicates the three data members (conformance-checked).
 * C view of the nonzero array: one 64-bit cell per Nonzero<int> {val, idx}: low half = val, high half = idx. */
#include "verif.h"
namespace std { template <class X> struct remove_const { typedef X type; }; }
/* Nonzero<R>: the two data members of the real class (conformance-checked).  The real class also declares a converting
 * constructor / assignment TEMPLATE (Nonzero<S> -> Nonzero<R>), which CBMC's front end rejects; for same-type copies
 * (the only ones in the bodies under contract) C++ uses the implicit member-wise copy, which is what this struct has. */
template <class RR> class Nonzero
{
public:
   RR val;
   int idx;
};
#include "StableSum.inc"

#ifdef INST_dot
/* operator*: R = Ring, an abstract ring element whose multiplication is an UNINTERPRETED function (the proof then holds
 * for every interpretation of `*`, in particular the real one) and whose addition is exact int addition (products bounded) */
extern "C" int __CPROVER_uninterpreted_mul(int, int);
struct Ring
{
   int v;
   Ring() : v(0) {}
   Ring(int x) : v(x) {}
   Ring& operator+=(const Ring& o) { v += o.v; return *this; }
   Ring operator*(const Ring& b) const { Ring r; r.v = __CPROVER_uninterpreted_mul(v, b.v); return r; }
};
inline bool operator!=(const Ring& a, double d) { return a.v != 0; }
typedef Ring R;
#else
typedef int R;
#endif
extern "C" { extern long long* gp_elem; extern int g_size0, g_i; }

template <class X> struct VectorBase
{
   X* val; int dimen;
   int dim() const { return dimen; }
   const X& operator[](int n) const { __CPROVER_assert(0 <= n && n < dimen, "VectorBase index in bounds"); return val[n]; }
};

struct SVecHost
{
   Nonzero<R>* m_elem;
   int memsize;
   int memused;

   int size() const
   {
#include "SV_size.inc"
   }
   int max() const
   {
#include "SV_max.inc"
   }
   void set_size(int s)
   {
#include "SV_set_size.inc"
   }
   int index(int n) const
   {
#include "SV_index.inc"
   }
   const R& value(int n) const
   {
#include "SV_value.inc"
   }
   void add(int i, const R& v)
   {
#include "SV_add.inc"
   }
   void remove(int n)
   {
#include "SV_remove1.inc"
   }
#if defined(INST_at)
   int pos(int i) const
   {
#include "SV_pos.inc"
   }
   R operator[](int i) const
   {
#include "SV_at.inc"
   }
#endif
#if defined(INST_dim)
   int dim() const
   {
#include "SV_dim.inc"
   }
#endif
#if defined(INST_remove2)
   void remove(int n, int m)
   {
#include "SV_remove2.inc"
   }
#endif
#if defined(INST_dot)
   R operator*(const VectorBase<R>& w) const
   {
#include "SV_dot.inc"
   }
#endif
};

#ifdef INST_pos
struct H : SVecHost
{
   int i;
   int body() const
   {
#include "SV_pos.inc"
   }
};
#endif

#ifdef INST_dot
/* Nonzero<Ring> = {int, int}: the same 64-bit cell view as for R = int */
extern "C" int w_dot(long long* elem, int memsize, int* memused, const int* w, int wdim, const int* ps)
{
   SVecHost s;
   s.m_elem = (Nonzero<R>*)elem; s.memsize = memsize; s.memused = *memused;
   VectorBase<R> wv; wv.val = (R*)w; wv.dimen = wdim;
   R r = s * wv;
   *memused = s.memused;
   return r.v;
}
#else
/* op: 0 add(a, b)   1 remove(a)   2 remove(a, b)   3 pos(a)   4 dim()   5 operator[](a)   6 operator*(w)   7 index(a)/value(a) */
extern "C" int w_sv(long long* elem, int memsize, int* memused, int op, int a, int b, const int* w, int wdim, int* out2, const int* ps)
{
   VIN("memsize", memsize); VIN("memused", *memused); VIN("a", a); VIN("b", b);
   int ret = 0;
#ifdef INST_pos
   H s;
#else
   SVecHost s;
#endif
   s.m_elem = (Nonzero<R>*)elem; s.memsize = memsize; s.memused = *memused;
   gp_elem = elem;
#if defined(INST_add)
   { const R v = b; s.add(a, v); }
#elif defined(INST_remove1)
   s.remove(a);
#elif defined(INST_remove2)
   s.remove(a, b);
#elif defined(INST_pos)
   s.i = a; ret = s.body();
#elif defined(INST_dim)
   ret = s.dim();
#elif defined(INST_at)
   ret = s[a];
#elif defined(INST_access)
   ret = s.index(a); *out2 = s.value(a);
#endif
   *memused = s.memused;
   return ret;
}
#endif
