/* Native replay for unit svector: runs the REAL soplex::SVectorBase<double> (storage of a DSVector) on the counterexample. */
#include "replay_util.h"
#include "soplex/spxdefines.h"
#include "soplex/dsvector.h"

using namespace soplex;

int main(int argc, char** argv)
{
   if(argc < 3) return 2;
   ReplayIn in(argv[1]);
   std::string inst = argv[2];
   int size = (int)in.geti("memused", 5), n = (int)in.geti("a", 1), m = (int)in.geti("b", 3);
   if(size < 0 || size > 64) return 2;
   DSVector v(size > 0 ? size : 1);
   for(int k = 0; k < size; k++) v.add(100 + k, Real(1 + k));        /* nonzero k = (index 100+k, value 1+k) */
   if(inst == "remove2")
   {
      if(!(0 <= n && n <= m && m < size)) return 2;
      std::cout << "SVectorBase::remove(" << n << "," << m << ") on " << size << " nonzeros" << std::endl;
      v.SVectorBase<Real>::remove(n, m);
      int c = std::min(m - n + 1, size - m - 1);
      if(v.size() != size - (m - n + 1)) REPLAY_FAIL("size() = " << v.size() << ", expected " << size - (m - n + 1));
      for(int g = 0; g < v.size(); g++)
      {
         int src = (n <= g && g < n + c) ? size - 1 - (g - n) : g;
         if(v.index(g) != 100 + src || v.value(g) != Real(1 + src)) REPLAY_FAIL("nonzero " << g << " is (" << v.index(g) << "," << v.value(g) << "), expected old nonzero " << src);
      }
   }
   else if(inst == "remove1")
   {
      if(!(0 <= n && n < size)) return 2;
      v.SVectorBase<Real>::remove(n);
      if(v.size() != size - 1) REPLAY_FAIL("size");
      for(int g = 0; g < v.size(); g++)
      {
         int src = (g == n) ? size - 1 : g;
         if(v.index(g) != 100 + src) REPLAY_FAIL("nonzero " << g);
      }
   }
   else
   {
      std::cout << "no native replay for instance " << inst << std::endl;
      return 0;
   }
   REPLAY_OK();
}
