/* C19 / C06: DataSet<DATA> (src/soplex/dataset.h), DATA = int.
 * Every member-function body below is #included verbatim from a slice cut out of the current tree; class DataKey
 * is the real class text (extracted verbatim from datakey.h).  DataSetHost replicates the six data members of
 * DataSet (conformance-checked against dataset.h).  The C side sees the two arrays as raw int arrays:
 *    item[i] = 64-bit cell {low half: theitem[i].data, high half: theitem[i].info};  key[g] = {low: thekey[g].info, high: thekey[g].idx}
 * (both structs are two ints, no padding; an 8-byte cell per struct keeps CBMC's encoding of the cast small). */
#include "verif.h"

/* `throw SPxException("Invalid index");`  ->  verif_throw(); unreachable.  verif_throw() carries the obligation
 * "no exception": every contract in this unit has a precondition under which DataSet must not throw. */
extern "C" void verif_throw(void) { __CPROVER_assert(0, "DataSet does not throw on a valid key"); }
#define SPxException(msg) 0
#define throw VERIF_THROW(); (void)

#include "DataKey.inc"

typedef int DATA;

struct DataSetHost
{
   struct Item
   {
      DATA data;
      int  info;
   }* theitem;
   DataKey* thekey;
   int themax;
   int thesize;
   int thenum;
   int firstfree;

   int max() const
   {
#include "DataSet_max.inc"
   }
   int num() const
   {
#include "DataSet_num.inc"
   }
   int size() const
   {
#include "DataSet_size.inc"
   }
   DataKey key(int n) const
   {
#include "DataSet_key.inc"
   }
   int number(const DataKey& k) const
   {
#include "DataSet_number.inc"
   }
   bool has(const DataKey& k) const
   {
#include "DataSet_hasKey.inc"
   }
   bool has(int n) const
   {
#include "DataSet_hasNum.inc"
   }
   DATA& operator[](int n)
   {
#include "DataSet_atNum.inc"
   }
   DATA& operator[](const DataKey& k)
   {
#include "DataSet_atKey.inc"
   }
   DATA* create(DataKey& newkey)
   {
#include "DataSet_create.inc"
   }
   DATA* create()
   {
#include "DataSet_create0.inc"
   }
   void add(DataKey& newkey, const DATA& item)
   {
#include "DataSet_add.inc"
   }
   void add(const DATA& item)
   {
#include "DataSet_add0.inc"
   }
#if defined(INST_remove1)   /* functions with loops are compiled only into the instances that unwind them */
   void remove(int removenum)
   {
#include "DataSet_remove1.inc"
   }
   void remove(const DataKey& removekey)
   {
#include "DataSet_removeKey.inc"
   }
#endif
#if defined(INST_removePerm) || defined(INST_removeNums)
   void remove(int perm[])
   {
#include "DataSet_removePerm.inc"
   }
#endif
#if defined(INST_removeNums)
   void remove(const int* nums, int n, int* perm)
   {
#include "DataSet_removeNums.inc"
   }
#endif
   void clear()
   {
#include "DataSet_clear.inc"
   }
};

#define MKSET(s) DataSetHost s; s.theitem = (DataSetHost::Item*)item; s.thekey = (DataKey*)key; s.themax = themax; \
   s.thesize = *thesize; s.thenum = *thenum; s.firstfree = *firstfree
#define PUTSET(s) *thesize = s.thesize; *thenum = s.thenum; *firstfree = s.firstfree

#ifdef INST_create
/* returns 1 iff the pointer handed out is the data field of the cell named by the new key */
extern "C" int w_create(long long* item, long long* key, int themax, int* thesize, int* thenum, int* firstfree, int* newidx, int usekey, const int* rank)
{
   MKSET(s);
   DataKey k;
   DATA* p;
   if(usekey)
      p = s.create(k);
   else
   {
      p = s.create();
      k = s.key(s.num() - 1);
   }
   *newidx = k.idx;
   PUTSET(s);
   return p == &s.theitem[k.idx].data;
}
#endif

#ifdef INST_add
extern "C" void w_add(long long* item, long long* key, int themax, int* thesize, int* thenum, int* firstfree, int* newidx, int usekey, int val, const int* rank)
{
   MKSET(s);
   DataKey k;
   if(usekey)
      s.add(k, val);
   else
   {
      s.add(val);
      k = s.key(s.num() - 1);
   }
   *newidx = k.idx;
   PUTSET(s);
}
#endif

#ifdef INST_lookup
/* number(key(n)), key(number(k)), has(k), has(n), operator[] */
extern "C" void w_lookup(long long* item, long long* key, int themax, int* thesize, int* thenum, int* firstfree, int n, int kidx,
                         int* out_keyidx, int* out_num_of_key_n, int* out_num_of_k, int* out_has_k, int* out_has_n,
                         int* out_same_elem, int* out_val_k, const int* rank)
{
   MKSET(s);
   DataKey kn = s.key(n);
   *out_keyidx = kn.idx;
   *out_num_of_key_n = s.number(kn);
   DataKey k(0, kidx);
   *out_num_of_k = s.number(k);
   *out_has_k = s.has(k);
   *out_has_n = s.has(n);
   *out_same_elem = (&s[n] == &s[kn]);
   *out_val_k = s[k];
   PUTSET(s);
}
#endif

#ifdef INST_remove1
extern "C" void w_remove1(long long* item, long long* key, int themax, int* thesize, int* thenum, int* firstfree, int removenum, int bykey, const int* rank)
{
   MKSET(s);
   if(bykey)
   {
      DataKey k = s.key(removenum);
      s.remove(k);
   }
   else
      s.remove(removenum);
   PUTSET(s);
}
#endif

#ifdef INST_removePerm
extern "C" void w_removePerm(long long* item, long long* key, int themax, int* thesize, int* thenum, int* firstfree, int* perm,
                             const int* rank, const int* cnt, const int* rank2)
{
   MKSET(s);
   s.remove(perm);
   PUTSET(s);
}
#endif

#ifdef INST_removeNums
extern "C" void w_removeNums(long long* item, long long* key, int themax, int* thesize, int* thenum, int* firstfree,
                             const int* nums, int n, int* perm, const int* rank, const int* cnt, const int* rank2,
                             const int* isrem, const int* wit)
{
   MKSET(s);
   s.remove(nums, n, perm);
   PUTSET(s);
}
#endif

#ifdef INST_clear
extern "C" void w_clear(long long* item, long long* key, int themax, int* thesize, int* thenum, int* firstfree, const int* rank)
{
   MKSET(s);
   s.clear();
   PUTSET(s);
}
#endif
