/* Contracts for DataSet<int> (C19, C06 renumbering clause).
 *
 * C view of the representation (see unit.cpp): one 64-bit cell per struct:  item[i] = {low half: data, high half: info} of
 * cell i;  key[g] = {low: info, high: idx} of the key of element number g;  scalars themax, *thesize, *thenum, *firstfree.
 *
 * REPRESENTATION INVARIANT  INV = S & K & U & R0..R5, each conjunct stated at a cell/number:
 *   S     0 <= thenum <= thesize <= themax
 *   K(g)  g < thenum           =>  0 <= thekey[g].idx < thesize  and  theitem[thekey[g].idx].info == g
 *   U(i)  i < thesize, info>=0 =>  info < thenum and thekey[info].idx == i            (K,U: key <-> number bijection)
 *   free cells (i < thesize, info < 0) form ONE acyclic list that starts at firstfree and ends with info == -themax-1.
 *   Acyclicity/completeness is expressed with a ghost rank array (distance to the end of the list):
 *   R0    firstfree == END  <=>  thesize == thenum                                     (isConsistent() of dataset.h)
 *   R1(i) free i  => 0 <= rank[i] < thesize - thenum
 *   R2(i) free i  => (info == END <=> rank[i] == 0)
 *   R3(i) free i, info != END => cell -info-1 is free and has rank[i]-1
 *   R4(a,b) free a != b => rank[a] != rank[b]
 *   R5    firstfree != END => cell -firstfree-1 is free and has rank thesize-thenum-1
 * Each contract REQUIRES instances of INV and ENSURES INV at havoc'd ghost cells g_g, g_i, g_j (= for all cells),
 * with the rank array of the post state given explicitly as a function of the pre state.
 * Where a body reads a loop-dependent cell (free-list walk in remove(int), thekey[k]/perm[k] in remove(perm)) the
 * precondition supplies INV at every cell < CAP by explicit conjunction (rep.h, no quantifier) and the loops are
 * unwound completely (they are bounded by thenum <= CAP). */
#include "verif_c.h"
#ifndef CAP
#define CAP 8
#endif
#include "rep.h"
/* EXACT_ALLOC: the arrays have exactly themax cells (symbolic size: every out-of-bounds access is caught, but the SAT
 * encoding is ~8x larger) and only the memory-safety/frame/no-throw obligations are kept (ENSURES -> true).
 * Otherwise the arrays have CAP >= themax cells (constant size, small encoding) and the full postcondition is proved. */
#if defined(EXACT_ALLOC)
#define ALLOC_N themax
#define CAP_OK (1 <= themax && themax <= CAP)
#define ENSURES(e) __CPROVER_ensures(1)
#elif defined(EXACT_CONST)
/* EXACT_CONST (twin of the instances that unwind loops, where symbolic array sizes exhaust memory): max() == CAP exactly */
#define ALLOC_N CAP
#define CAP_OK (themax == CAP)
#define ENSURES(e) __CPROVER_ensures(1)
#else
#define CAP_OK (1 <= themax && themax <= CAP)
#define ALLOC_N CAP
#define ENSURES(e) __CPROVER_ensures(e)
#endif
/* The postcondition of the multi-removal instances is proved in three parts (separate solver runs of the same
 * contract): PART 1 = what the caller sees (num(), perm, keys, DATA), PART 2 = INV: key<->number bijection,
 * PART 3 = INV: free list.  PART undefined = everything at once. */
#if !defined(PART) || PART == 1
#define ENSURES_1(e) ENSURES(e)
#else
#define ENSURES_1(e) __CPROVER_ensures(1)
#endif
#if !defined(PART) || PART == 2
#define ENSURES_2(e) ENSURES(e)
#else
#define ENSURES_2(e) __CPROVER_ensures(1)
#endif
#if !defined(PART) || PART == 3
#define ENSURES_3(e) ENSURES(e)
#else
#define ENSURES_3(e) __CPROVER_ensures(1)
#endif

int g_g, g_h, g_i, g_j, g_x, g_c0, g_n0, g_s0, g_last, v_kidx, v_dat, v_a, v_b;

static void havoc_ghosts(void)
{
   g_g = nondet_int(); g_h = nondet_int(); g_i = nondet_int(); g_j = nondet_int(); g_x = nondet_int(); g_c0 = nondet_int();
   g_n0 = nondet_int(); g_s0 = nondet_int(); g_last = nondet_int(); v_kidx = nondet_int(); v_dat = nondet_int();
   v_a = nondet_int(); v_b = nondet_int();
}

#define LO32(x)  ((int)(unsigned int)((unsigned long long)(x) & 0xffffffffULL))
#define HI32(x)  ((int)(unsigned int)((unsigned long long)(x) >> 32))
#define INFO(i)  HI32(item[i])
#define DAT(i)   LO32(item[i])
#define KIDX(g)  HI32(key[g])
#define END      (-themax - 1)
#define SZ       (*thesize)
#define NM       (*thenum)
#define FF       (*firstfree)
#define HEADC    (-(FF + 1))

#define FRESH_SET (CAP_OK \
   && __CPROVER_is_fresh(item, ALLOC_N * sizeof(long long)) && __CPROVER_is_fresh(key, ALLOC_N * sizeof(long long)) \
   && __CPROVER_is_fresh(rank, ALLOC_N * sizeof(int)) \
   && __CPROVER_is_fresh(thesize, sizeof(int)) && __CPROVER_is_fresh(thenum, sizeof(int)) && __CPROVER_is_fresh(firstfree, sizeof(int)))
#define S_OK       (0 <= NM && NM <= SZ && SZ <= themax)
#define INCELL(i)  (0 <= (i) && (i) < SZ)
#define ISNUM(g)   (0 <= (g) && (g) < NM)

/* The conjuncts of INV as side-effect-free C functions (used in requires/ensures; no loops).  A function instead of
 * a macro evaluates every array cell once (nested macro text made symbolic execution explode). */
typedef const int* cip;
typedef const long long* clp;
static int is_free(clp item, int sz, int i) { return 0 <= i && i < sz && HI32(item[i]) < 0; }
static int k_at(clp item, clp key, int sz, int nm, int g)
{
   if(!(0 <= g && g < nm)) return 1;
   int c = HI32(key[g]);
   return 0 <= c && c < sz && HI32(item[c]) == g;
}
static int u_at(clp item, clp key, int sz, int nm, int i)
{
   if(!(0 <= i && i < sz)) return 1;
   int f = HI32(item[i]);
   if(f < 0) return 1;
   return f < nm && HI32(key[f]) == i;
}
/* rank function: rank[c], except that cell x has rank c0 (x == -1: no exception) */
static int rk(cip rank, int c, int x, int c0) { return c == x ? c0 : rank[c]; }
static int r123_at(clp item, cip rank, int themax, int sz, int nm, int i, int x, int c0)
{
   if(!is_free(item, sz, i)) return 1;
   int f = HI32(item[i]);
   int r = rk(rank, i, x, c0);
   if(!(0 <= r && r < sz - nm)) return 0;                 /* R1 */
   if((f == -themax - 1) != (r == 0)) return 0;           /* R2 */
   if(f == -themax - 1) return 1;
   int nx = -(f + 1);                                     /* R3 */
   return is_free(item, sz, nx) && rk(rank, nx, x, c0) == r - 1;
}
static int r4_at(clp item, cip rank, int sz, int a, int b, int x, int c0)
{
   if(a == b || !is_free(item, sz, a) || !is_free(item, sz, b)) return 1;
   return rk(rank, a, x, c0) != rk(rank, b, x, c0);
}
static int r05(clp item, cip rank, int themax, int sz, int nm, int ff, int x, int c0)
{
   if((ff == -themax - 1) != (sz == nm)) return 0;        /* R0 */
   if(ff == -themax - 1) return 1;
   if(ff >= 0) return 0;                                  /* R5 */
   int h = -(ff + 1);
   return is_free(item, sz, h) && rk(rank, h, x, c0) == sz - nm - 1;
}
#define K_AT(g)            k_at(item, key, SZ, NM, g)
#define U_AT(i)            u_at(item, key, SZ, NM, i)
#define R123_AT(i, X, C0)  r123_at(item, rank, themax, SZ, NM, i, X, C0)
#define R4_AT(a, b, X, C0) r4_at(item, rank, SZ, a, b, X, C0)
#define R05_OK(X, C0)      r05(item, rank, themax, SZ, NM, FF, X, C0)

/* INV at the ghost cells; (X, C0) selects the rank function, (-1, 0) = the ghost array rank itself */
#define INV_GHOSTS(X, C0) (K_AT(g_g) && U_AT(g_i) && U_AT(g_j) && R05_OK(X, C0) \
   && R123_AT(g_i, X, C0) && R123_AT(g_j, X, C0) && R4_AT(g_i, g_j, X, C0))
/* INV of the pre state at EVERY cell below CAP (explicit conjunction) */
#define P_K(g)     K_AT(g)
#define P_U(i)     U_AT(i)
#define P_R123(i)  R123_AT(i, -1, 0)
#define P_R4(a, b) R4_AT(a, b, -1, 0)
#define P_R4ROW(a) REP_ALLB(P_R4, a)
#define INV_ALL (REP_ALL(P_K) && REP_ALL(P_U) && R05_OK(-1, 0) && REP_ALL(P_R123) && REP_ALL(P_R4ROW))

/* ---------------------------------------------------------------------------------------------------------------- */
#if defined(INST_create) || defined(INST_add)
/* create(newkey) / create() / add(newkey,item) / add(item): precondition num() < max() (documented).
 * The new element gets number old num(); its key names a cell no live key names; the pointer returned is that cell's
 * data; every existing element keeps key, number and data; INV is preserved. */
#define CREATE_REQUIRES \
__CPROVER_requires(FRESH_SET && __CPROVER_is_fresh(newidx, sizeof(int)) && S_OK && NM < themax) \
__CPROVER_requires(INV_GHOSTS(-1, 0)) \
__CPROVER_requires(FF == END || (R123_AT(HEADC, -1, 0) && R4_AT(HEADC, g_i, -1, 0) && R4_AT(HEADC, g_j, -1, 0))) \
__CPROVER_requires(g_n0 == NM && g_s0 == SZ) \
__CPROVER_requires(!(0 <= g_h && g_h < NM) || (K_AT(g_h) && v_kidx == KIDX(g_h) && v_dat == DAT(KIDX(g_h))))
#define CREATE_ENSURES \
ENSURES(NM == g_n0 + 1 && (SZ == g_s0 || SZ == g_s0 + 1) && S_OK) \
ENSURES(0 <= *newidx && *newidx < SZ && INFO(*newidx) == g_n0 && KIDX(g_n0) == *newidx) \
ENSURES(!(0 <= g_h && g_h < g_n0) || (KIDX(g_h) == v_kidx && v_kidx != *newidx && INFO(v_kidx) == g_h && DAT(v_kidx) == v_dat)) \
ENSURES(INV_GHOSTS(-1, 0))
#endif

#ifdef INST_create
int w_create(long long* item, long long* key, int themax, int* thesize, int* thenum, int* firstfree, int* newidx, int usekey, const int* rank)
CREATE_REQUIRES
__CPROVER_assigns(__CPROVER_object_whole(item), __CPROVER_object_whole(key), *thesize, *thenum, *firstfree, *newidx)
CREATE_ENSURES
ENSURES(__CPROVER_return_value == 1)
;
void h_create(void)
{
   long long* item; long long* key; int themax; int* thesize; int* thenum; int* firstfree; int* newidx; int usekey; const int* rank;
   havoc_ghosts();
   w_create(item, key, themax, thesize, thenum, firstfree, newidx, usekey, rank);
   CANARY();
}
#endif

#ifdef INST_add
void w_add(long long* item, long long* key, int themax, int* thesize, int* thenum, int* firstfree, int* newidx, int usekey, int val, const int* rank)
CREATE_REQUIRES
__CPROVER_assigns(__CPROVER_object_whole(item), __CPROVER_object_whole(key), *thesize, *thenum, *firstfree, *newidx)
CREATE_ENSURES
ENSURES(DAT(*newidx) == val)
;
void h_add(void)
{
   long long* item; long long* key; int themax; int* thesize; int* thenum; int* firstfree; int* newidx; int usekey; int val; const int* rank;
   havoc_ghosts();
   w_add(item, key, themax, thesize, thenum, firstfree, newidx, usekey, val, rank);
   CANARY();
}
#endif

/* ---------------------------------------------------------------------------------------------------------------- */
#ifdef INST_lookup
/* key(n), number(k), has(k), has(n), operator[](n), operator[](k) on a set satisfying K(n), U(kidx):
 * number(key(n)) == n; for a cell kidx < size(): has(k) <=> the cell is live, and then key(number(k)) == k;
 * number(k) < 0 for a key that has been removed; [n] and [key(n)] are the same element; nothing is modified;
 * no exception for 0 <= k.idx < size(). */
void w_lookup(long long* item, long long* key, int themax, int* thesize, int* thenum, int* firstfree, int n, int kidx,
              int* out_keyidx, int* out_num_of_key_n, int* out_num_of_k, int* out_has_k, int* out_has_n,
              int* out_same_elem, int* out_val_k, const int* rank)
__CPROVER_requires(FRESH_SET && S_OK && ISNUM(n) && INCELL(kidx) && K_AT(n) && U_AT(kidx))
__CPROVER_requires(__CPROVER_is_fresh(out_keyidx, sizeof(int)) && __CPROVER_is_fresh(out_num_of_key_n, sizeof(int))
   && __CPROVER_is_fresh(out_num_of_k, sizeof(int)) && __CPROVER_is_fresh(out_has_k, sizeof(int)) && __CPROVER_is_fresh(out_has_n, sizeof(int))
   && __CPROVER_is_fresh(out_same_elem, sizeof(int)) && __CPROVER_is_fresh(out_val_k, sizeof(int)))
__CPROVER_requires(v_a == INFO(kidx) && v_b == DAT(kidx) && v_kidx == KIDX(n))
__CPROVER_assigns(*out_keyidx, *out_num_of_key_n, *out_num_of_k, *out_has_k, *out_has_n, *out_same_elem, *out_val_k, *thesize, *thenum, *firstfree)
ENSURES(*out_keyidx == v_kidx && *out_num_of_key_n == n && *out_has_n == 1 && *out_same_elem == 1)
ENSURES(*out_num_of_k == v_a && *out_has_k == (v_a >= 0) && *out_val_k == v_b)
ENSURES(!(*out_has_k) || (ISNUM(*out_num_of_k) && KIDX(*out_num_of_k) == kidx))
ENSURES(INFO(kidx) == v_a && DAT(kidx) == v_b && KIDX(n) == v_kidx)
ENSURES(SZ == __CPROVER_old(*thesize) && NM == __CPROVER_old(*thenum) && FF == __CPROVER_old(*firstfree))
;
void h_lookup(void)
{
   long long* item; long long* key; int themax; int* thesize; int* thenum; int* firstfree; int n, kidx; const int* rank;
   int* o1; int* o2; int* o3; int* o4; int* o5; int* o6; int* o7;
   havoc_ghosts();
   w_lookup(item, key, themax, thesize, thenum, firstfree, n, kidx, o1, o2, o3, o4, o5, o6, o7, rank);
   CANARY();
}
#endif

/* ---------------------------------------------------------------------------------------------------------------- */
#ifdef INST_remove1
/* remove(int removenum) and remove(const DataKey&) [bykey: the key of element removenum].
 * !has(removenum): nothing changes.  Otherwise: num() drops by one; the removed key is dead (its cell is free or beyond
 * size()); the element that had the LAST number gets number removenum, every other element keeps its number (documented
 * renumbering); every survivor keeps key and data; INV is preserved.  Post-state rank: the freed cell g_x gets rank g_c0. */
#define HASNUM (0 <= removenum && removenum < g_n0)
void w_remove1(long long* item, long long* key, int themax, int* thesize, int* thenum, int* firstfree, int removenum, int bykey, const int* rank)
__CPROVER_requires(FRESH_SET && S_OK)
__CPROVER_requires(INV_ALL)
__CPROVER_requires(g_n0 == NM && g_s0 == SZ && g_c0 == SZ - NM && bykey == BYKEY && (!bykey || ISNUM(removenum)))
__CPROVER_requires(!ISNUM(removenum) || g_x == KIDX(removenum))
/* g_h: an element (old number) with its key and data;  g_i: a cell with its old info */
__CPROVER_requires(!ISNUM(g_h) || (v_kidx == KIDX(g_h) && v_dat == DAT(KIDX(g_h))))
__CPROVER_requires(!INCELL(g_i) || v_a == INFO(g_i))
__CPROVER_requires(0 <= g_g && g_g < themax && v_b == KIDX(g_g))
__CPROVER_assigns(__CPROVER_object_whole(item), __CPROVER_object_whole(key), *thesize, *thenum, *firstfree)
ENSURES(HASNUM || (NM == g_n0 && SZ == g_s0 && FF == __CPROVER_old(*firstfree) && KIDX(g_g) == v_b
                             && (!(0 <= g_i && g_i < g_s0) || INFO(g_i) == v_a)
                             && (!(0 <= g_h && g_h < g_n0) || DAT(v_kidx) == v_dat)))
ENSURES(!HASNUM || (NM == g_n0 - 1 && SZ <= g_s0 && S_OK && (g_x >= SZ || INFO(g_x) < 0)))
ENSURES(!(HASNUM && 0 <= g_h && g_h < g_n0 && g_h != removenum)
                  || (INCELL(v_kidx) && DAT(v_kidx) == v_dat && INFO(v_kidx) == (g_h == g_n0 - 1 ? removenum : g_h)
                      && KIDX(INFO(v_kidx)) == v_kidx))
ENSURES(!HASNUM || INV_GHOSTS(g_x, g_c0))
;
void h_remove1(void)
{
   long long* item; long long* key; int themax; int* thesize; int* thenum; int* firstfree; int removenum, bykey; const int* rank;
   havoc_ghosts();
   w_remove1(item, key, themax, thesize, thenum, firstfree, removenum, bykey, rank);
   CANARY();
}
#endif

/* ---------------------------------------------------------------------------------------------------------------- */
#if defined(INST_removePerm) || defined(INST_removeNums)
/* remove(int perm[]) and remove(const int* nums, int n, int* perm).
 * Specification ghosts (defined by the precondition, cell by cell, from the pre state; they restrict no real input):
 *   REMOVED(k)  element number k is to be removed  (perm: perm[k] < 0 on entry;  nums: isrem[k], with isrem[k] <=> k in nums[0..n))
 *   cnt[k]      number of survivors among the elements 0..k-1        (cnt[0] = 0, cnt[k+1] = cnt[k] + !REMOVED(k))
 *   rank2[c]    rank of cell c in the free list of the post state: the cell of removed element k is pushed as number
 *               (k - cnt[k]) after the old free cells; other cells keep rank[c]
 * Postcondition (C19 "removal by permutation reports where each survivor moved", C06 "documented renumbering"):
 *   num() == cnt[old num()];  removed g: perm[g] < 0 (nums: == -1), its key is dead;
 *   survivor g: perm[g] == cnt[g] (so 0 <= perm[g] <= g, < num(), and survivors keep their relative order: g < g' =>
 *   perm[g] < perm[g'], stated explicitly), element perm[g] of the new set has g's old key and g's old DATA;
 *   INV holds again (K at every new number = dense numbering 0..num()-1). */
static int cnt_def(cip remflag, cip cnt, int nm, int k, int byperm)
{
   if(!(0 <= k && k < nm)) return 1;
   int removed = byperm ? (remflag[k] < 0) : (remflag[k] != 0);
   return cnt[k + 1] == cnt[k] + (removed ? 0 : 1);
}
static int rank2_def(clp item, cip remflag, cip cnt, cip rank, cip rank2, int sz, int nm, int c, int byperm)
{
   if(!(0 <= c && c < sz)) return 1;
   int f = HI32(item[c]);
   if(0 <= f && f < nm && (byperm ? (remflag[f] < 0) : (remflag[f] != 0)))
      return rank2[c] == (sz - nm) + (f - cnt[f]);
   return rank2[c] == rank[c];
}
#define R123_AT2(i)   r123_at(item, rank2, themax, SZ, NM, i, -1, 0)
#define R4_AT2(a, b)  r4_at(item, rank2, SZ, a, b, -1, 0)
#define R05_OK2       r05(item, rank2, themax, SZ, NM, FF, -1, 0)
#define INV_GHOSTS2 (K_AT(g_g) && U_AT(g_i) && U_AT(g_j) && R05_OK2 && R123_AT2(g_i) && R123_AT2(g_j) && R4_AT2(g_i, g_j))
#define FRESH_PERM (__CPROVER_is_fresh(perm, ALLOC_N * sizeof(int)) && __CPROVER_is_fresh(cnt, (ALLOC_N + 1) * sizeof(int)) \
   && __CPROVER_is_fresh(rank2, ALLOC_N * sizeof(int)))
#endif

#ifdef INST_removePerm
#define P_CNT(k)   cnt_def(perm, cnt, NM, k, 1)
#define P_RANK2(c) rank2_def(item, perm, cnt, rank, rank2, SZ, NM, c, 1)
void w_removePerm(long long* item, long long* key, int themax, int* thesize, int* thenum, int* firstfree, int* perm,
                  const int* rank, const int* cnt, const int* rank2)
__CPROVER_requires(FRESH_SET && FRESH_PERM && S_OK)
__CPROVER_requires(INV_ALL)
__CPROVER_requires(cnt[0] == 0 && REP_ALL(P_CNT) && REP_ALL(P_RANK2))
__CPROVER_requires(g_n0 == NM && g_s0 == SZ)
__CPROVER_requires(!ISNUM(g_h) || (v_kidx == KIDX(g_h) && v_dat == DAT(KIDX(g_h)) && v_a == perm[g_h]))
__CPROVER_requires(!ISNUM(g_x) || v_b == perm[g_x])
__CPROVER_assigns(__CPROVER_object_whole(item), __CPROVER_object_whole(key), __CPROVER_object_whole(perm), *thesize, *thenum, *firstfree)
ENSURES_1(NM == cnt[g_n0] && SZ == g_s0 && S_OK)
ENSURES_1(!(0 <= g_h && g_h < g_n0 && v_a < 0) || (perm[g_h] == v_a && INFO(v_kidx) < 0))
ENSURES_1(!(0 <= g_h && g_h < g_n0 && v_a >= 0)
        || (perm[g_h] == cnt[g_h] && 0 <= perm[g_h] && perm[g_h] < NM && perm[g_h] <= g_h
            && KIDX(perm[g_h]) == v_kidx && INFO(v_kidx) == perm[g_h] && DAT(v_kidx) == v_dat))
ENSURES_1(!(0 <= g_h && g_h < g_x && g_x < g_n0 && v_a >= 0 && v_b >= 0) || perm[g_h] < perm[g_x])
ENSURES_2(K_AT(g_g) && U_AT(g_i))
ENSURES_3(R05_OK2 && R123_AT2(g_i) && R123_AT2(g_j) && R4_AT2(g_i, g_j))
;
void h_removePerm(void)
{
   long long* item; long long* key; int themax; int* thesize; int* thenum; int* firstfree; int* perm;
   const int* rank; const int* cnt; const int* rank2;
   havoc_ghosts();
   w_removePerm(item, key, themax, thesize, thenum, firstfree, perm, rank, cnt, rank2);
   CANARY();
}
#endif

#ifdef INST_removeNums
#if defined(EXACT_ALLOC)
#define NUMS_N (n > 0 ? n : 1)
#else
#define NUMS_N CAP
#endif
#define P_CNT(k)   cnt_def(isrem, cnt, NM, k, 0)
#define P_RANK2(c) rank2_def(item, isrem, cnt, rank, rank2, SZ, NM, c, 0)
/* isrem[g] <=> g occurs in nums[0..n): every listed number is flagged, every flag has a witness position */
#define P_LISTED(k) (!((k) < n) || (0 <= nums[k] && nums[k] < NM && isrem[nums[k]] == 1))
#define P_WIT(g)    (!((g) < NM) || isrem[g] == 0 || (isrem[g] == 1 && 0 <= wit[g] && wit[g] < n && nums[wit[g]] == (g)))
void w_removeNums(long long* item, long long* key, int themax, int* thesize, int* thenum, int* firstfree,
                  const int* nums, int n, int* perm, const int* rank, const int* cnt, const int* rank2, const int* isrem, const int* wit)
__CPROVER_requires(FRESH_SET && FRESH_PERM && S_OK && 0 <= n && n <= CAP)
__CPROVER_requires(__CPROVER_is_fresh(nums, NUMS_N * sizeof(int)) && __CPROVER_is_fresh(isrem, ALLOC_N * sizeof(int)) && __CPROVER_is_fresh(wit, ALLOC_N * sizeof(int)))
__CPROVER_requires(INV_ALL)
__CPROVER_requires(REP_ALL(P_LISTED) && REP_ALL(P_WIT))
__CPROVER_requires(cnt[0] == 0 && REP_ALL(P_CNT) && REP_ALL(P_RANK2))
__CPROVER_requires(g_n0 == NM && g_s0 == SZ)
__CPROVER_requires(!ISNUM(g_h) || (v_kidx == KIDX(g_h) && v_dat == DAT(KIDX(g_h)) && v_a == isrem[g_h]))
__CPROVER_requires(!ISNUM(g_x) || v_b == isrem[g_x])
__CPROVER_assigns(__CPROVER_object_whole(item), __CPROVER_object_whole(key), __CPROVER_object_whole(perm), *thesize, *thenum, *firstfree)
ENSURES_1(NM == cnt[g_n0] && SZ == g_s0 && S_OK)
ENSURES_1(!(0 <= g_h && g_h < g_n0 && v_a != 0) || (perm[g_h] == -1 && INFO(v_kidx) < 0))
ENSURES_1(!(0 <= g_h && g_h < g_n0 && v_a == 0)
        || (perm[g_h] == cnt[g_h] && 0 <= perm[g_h] && perm[g_h] < NM && perm[g_h] <= g_h
            && KIDX(perm[g_h]) == v_kidx && INFO(v_kidx) == perm[g_h] && DAT(v_kidx) == v_dat))
ENSURES_1(!(0 <= g_h && g_h < g_x && g_x < g_n0 && v_a == 0 && v_b == 0) || perm[g_h] < perm[g_x])
ENSURES_2(K_AT(g_g) && U_AT(g_i))
ENSURES_3(R05_OK2 && R123_AT2(g_i) && R123_AT2(g_j) && R4_AT2(g_i, g_j))
;
void h_removeNums(void)
{
   long long* item; long long* key; int themax; int* thesize; int* thenum; int* firstfree; const int* nums; int n; int* perm;
   const int* rank; const int* cnt; const int* rank2; const int* isrem; const int* wit;
   havoc_ghosts();
   w_removeNums(item, key, themax, thesize, thenum, firstfree, nums, n, perm, rank, cnt, rank2, isrem, wit);
   CANARY();
}
#endif

/* ---------------------------------------------------------------------------------------------------------------- */
#ifdef INST_clear
/* clear(): the empty set; INV holds (no cell is in use, the free list is empty) */
void w_clear(long long* item, long long* key, int themax, int* thesize, int* thenum, int* firstfree, const int* rank)
__CPROVER_requires(FRESH_SET)
__CPROVER_assigns(*thesize, *thenum, *firstfree)
ENSURES(SZ == 0 && NM == 0 && FF == END && S_OK && INV_GHOSTS(-1, 0))
;
void h_clear(void)
{
   long long* item; long long* key; int themax; int* thesize; int* thenum; int* firstfree; const int* rank;
   havoc_ghosts();
   w_clear(item, key, themax, thesize, thenum, firstfree, rank);
   CANARY();
}
#endif
