# Generator of units/dataset/unit.json (the slices list and the instance variants are repetitive). Run: python3 gen_unit.py
import json
F="src/soplex/dataset.h"
def sl(as_, sig, **kw):
    d={"as":as_,"file":F,"sig":sig}; d.update(kw); return d
slices=[
 sl("DataSet_max.inc", r"int\s+max\s*\(\s*\)\s*const"),
 sl("DataSet_num.inc", r"int\s+num\s*\(\s*\)\s*const"),
 sl("DataSet_size.inc", r"int\s+size\s*\(\s*\)\s*const"),
 sl("DataSet_key.inc", r"DataKey\s+key\s*\(\s*int\s+n\s*\)\s*const"),
 sl("DataSet_number.inc", r"int\s+number\s*\(\s*const\s+DataKey&\s*k\s*\)\s*const", must_contain=[r"theitem\[k\.idx\]\.info"]),
 sl("DataSet_hasKey.inc", r"bool\s+has\s*\(\s*const\s+DataKey&\s*k\s*\)\s*const"),
 sl("DataSet_hasNum.inc", r"bool\s+has\s*\(\s*int\s+n\s*\)\s*const"),
 sl("DataSet_atNum.inc", r"\n\s*DATA&\s+operator\[\]\s*\(\s*int\s+n\s*\)"),
 sl("DataSet_atKey.inc", r"\n\s*DATA&\s+operator\[\]\s*\(\s*const\s+DataKey&\s*k\s*\)"),
 sl("DataSet_create.inc", r"DATA\*\s+create\s*\(\s*DataKey&\s*newkey\s*\)", must_contain=[r"firstfree"]),
 sl("DataSet_create0.inc", r"DATA\*\s+create\s*\(\s*\)"),
 sl("DataSet_add.inc", r"void\s+add\s*\(\s*DataKey&\s*newkey\s*,\s*const\s+DATA&\s*item\s*\)"),
 sl("DataSet_add0.inc", r"void\s+add\s*\(\s*const\s+DATA&\s*item\s*\)"),
 sl("DataSet_remove1.inc", r"void\s+remove\s*\(\s*int\s+removenum\s*\)"),
 sl("DataSet_removeKey.inc", r"void\s+remove\s*\(\s*const\s+DataKey&\s*removekey\s*\)"),
 sl("DataSet_removePerm.inc", r"void\s+remove\s*\(\s*int\s+perm\s*\[\s*\]\s*\)"),
 sl("DataSet_removeNums.inc", r"void\s+remove\s*\(\s*const\s+int\*\s*nums\s*,\s*int\s+n\s*,\s*int\*\s*perm\s*\)"),
 sl("DataSet_clear.inc", r"void\s+clear\s*\(\s*\)"),
]
u={
 "property":["C19","C06"],
 "desc":"DataSet<int>: create/add, key/number/has/operator[], remove(int), remove(DataKey), remove(perm[]), remove(nums,n,perm), clear - real bodies from dataset.h, real class DataKey from datakey.h",
 "rmode":"int (DATA = int, no arithmetic abstraction)",
 "defines":{"CAP":"8"}, "defines_thorough":{"CAP":"8"}, "defines_small":{"CAP":"4"},
 "flags":["--bounds-check","--pointer-check","--signed-overflow-check","--sat-solver","cadical"],
 "timeout_s":300,
 "slices":slices,
 "extracts":[{"as":"DataKey.inc","file":"src/soplex/datakey.h","regex":r"class DataKey\s*\{.*?\n\};"}],
 "conformance":[
  {"file":F,"regex":r"struct Item\s*\{\s*DATA\s+data;[^;]*?\n\s*int\s+info;[^;]*?\n\s*\}\s*\*\s*theitem;.*?\n\s*DataKey\*\s+thekey;[^;]*?\n\s*int\s+themax;[^;]*?\n\s*int\s+thesize;[^;]*?\n\s*int\s+thenum;[^;]*?\n\s*int\s+firstfree;",
   "why":"DataSetHost replicates exactly these data members of DataSet (Item{data,info}* theitem, thekey, themax, thesize, thenum, firstfree)"},
  {"file":"src/soplex/datakey.h","regex":r"int\s+info;[^;]*?\n\s*int\s+idx;","why":"the C view key[2g]=info, key[2g+1]=idx relies on this member order of DataKey"},
 ],
 "trusted":[
  "DataSetHost replicates DataSet's data members (conformance-checked); every member-function body is the real one; DataKey is the real class text",
  "DATA instantiated at int; the C contract views Item[] and DataKey[] as int pairs (two-int structs, no padding)",
  "capacity max() capped: create/add/lookup/clear/remove(int)/remove(DataKey) at max() <= 8; remove(perm[]) and remove(nums,n,perm) at max() <= 4 (quick) and max() <= 6 (thorough, postcondition proved in three parts). create/add/lookup are ghost-index proofs independent of the cap; the remove instances take the representation invariant at every cell below the cap as an explicit conjunction (stubs/rep.h, no quantifier) and unwind their loops completely (bounded by num() <= cap, --unwinding-assertions): they are exhaustive proofs for every set of at most that capacity, not inductive ones",
  "each functional instance allocates its arrays with CAP >= max() cells (constant size keeps the SAT encoding small); its `_mem` twin allocates exactly max() cells and proves only memory safety, frame and no-throw under the same precondition, so no access outside [0,max()) is possible in the functional run either",
  "SAT back end for this unit is CaDiCaL (cbmc --sat-solver cadical)",
  "ghost arrays (rank = distance to the end of the free list; cnt = number of survivors before g) are specification-only and defined by the precondition; they restrict no real input",
  "`throw SPxException` compiled as verif_throw() which carries the obligation `no exception`; assert() compiled out (NDEBUG semantics)",
 ],
 "instances":[]
}
def inst(name, fn, **kw):
    d={"name":name,"function":fn,"defines":{"INST_"+name:""},"harness":"h_"+name,"enforce":"w_"+name}
    d.update(kw); u["instances"].append(d)
    # twin instance: arrays of exactly themax cells, memory safety / frame / no-throw only (see contract.c EXACT_ALLOC)
    m=dict(d); m["name"]=name+"_mem"; m["defines"]={"INST_"+name:"","EXACT_ALLOC":""}
    m["function"]=fn+"  [memory safety with arrays of exactly max() cells]"
    m["min_obligations"]=max(20,d.get("min_obligations",20)//2)
    m["mutants"]=kw.get("mem_mutants",[])
    m.pop("mem_mutants",None); d.pop("mem_mutants",None)
    u["instances"].append(m)
inst("create","DataSet<DATA>::create(DataKey& newkey) / create()",min_obligations=40,
  mutants=[{"name":"no_pop","slice":"DataSet_create.inc","find":"firstfree = theitem[newkey.idx].info;","replace":"firstfree = firstfree;"},
           {"name":"wrong_number","slice":"DataSet_create.inc","find":"theitem[newkey.idx].info = thenum;","replace":"theitem[newkey.idx].info = thenum + 1;"},
           {"name":"reuse_top","slice":"DataSet_create.inc","find":"newkey.idx = thesize++;","replace":"newkey.idx = thesize - 1;"}])
inst("add","DataSet<DATA>::add(DataKey& newkey, const DATA& item) / add(const DATA& item)",min_obligations=40,
  mutants=[{"name":"no_store","slice":"DataSet_add.inc","find":"*data = item;","replace":"*data = item + 1;"},
           {"name":"no_store0","slice":"DataSet_add0.inc","find":"*data = item;","replace":"*data = item + 1;"}])
inst("lookup","DataSet<DATA>::key(int) / number(const DataKey&) / has(const DataKey&) / has(int) / operator[](int) / operator[](const DataKey&)",min_obligations=30,
  mutants=[{"name":"has_strict","slice":"DataSet_hasKey.inc","find":"info >= 0","replace":"info > 0"},
           {"name":"number_range","slice":"DataSet_number.inc","find":"k.idx >= size()","replace":"k.idx >= size() - 1"},
           {"name":"has_num","slice":"DataSet_hasNum.inc","find":"n < num()","replace":"n < num() - 1"}])
RM=r"DataSetHost::remove\(.*\)"
m_remove1=[{"name":"no_renumber","slice":"DataSet_remove1.inc","find":"theitem[thekey[removenum].idx].info = removenum;","replace":"theitem[thekey[removenum].idx].info = thenum;"},
           {"name":"no_free","slice":"DataSet_remove1.inc","find":"firstfree = -idx - 1;","replace":"firstfree = -idx;"},
           {"name":"shrink_cond","slice":"DataSet_remove1.inc","find":"while(-firstfree == thesize)","replace":"while(-firstfree == thesize - 1)"},
           {"name":"no_move","slice":"DataSet_remove1.inc","find":"if(removenum != thenum)","replace":"if(removenum == thenum)"}]
inst("remove1","DataSet<DATA>::remove(int removenum)",min_obligations=60,
  unwind=9, unwind_loops=[{"function":RM,"loop":0}], mutants=m_remove1,
  mem_mutants=[{"name":"shrink_cond","slice":"DataSet_remove1.inc","find":"while(-firstfree == thesize)","replace":"while(-firstfree >= thesize)"}])
u["instances"][-2]["defines"]["BYKEY"]="0"; u["instances"][-1]["defines"]["BYKEY"]="0"
inst("removeKey","DataSet<DATA>::remove(const DataKey& removekey)",min_obligations=60,
  unwind=9, unwind_loops=[{"function":RM,"loop":0}],
  mutants=[{"name":"wrong_elem","slice":"DataSet_removeKey.inc","find":"remove(number(removekey));","replace":"remove(number(removekey) - 1);"}])
for k in (-2,-1):
    u["instances"][k]["defines"]={"INST_remove1":"","BYKEY":"1"}; u["instances"][k]["harness"]="h_remove1"; u["instances"][k]["enforce"]="w_remove1"
u["instances"][-1]["defines"]["EXACT_ALLOC"]=""
m_perm=[{"name":"no_count","slice":"DataSet_removePerm.inc","find":"perm[k] = j++;","replace":"perm[k] = j;"},
        {"name":"no_renumber","slice":"DataSet_removePerm.inc","find":"theitem[thekey[k].idx].info = perm[k];","replace":"theitem[thekey[k].idx].info = k;"},
        {"name":"no_dec","slice":"DataSet_removePerm.inc","find":"--thenum;","replace":";"},
        {"name":"first_late","slice":"DataSet_removePerm.inc","find":"for(k = first, j = num(); k < j; ++k)","replace":"for(k = first + 2, j = num(); k < j; ++k)"},
        {"name":"free_link","slice":"DataSet_removePerm.inc","find":"theitem[idx].info = firstfree;","replace":"theitem[idx].info = -themax - 1;"}]
LOOPS2=[{"function":RM,"loop":0},{"function":RM,"loop":1}]
m_nums=[{"name":"mark","slice":"DataSet_removeNums.inc","find":"perm[nums[n]] = -1;","replace":"perm[nums[n]] = 0;"},
        {"name":"init","slice":"DataSet_removeNums.inc","find":"perm[i] = i;","replace":"perm[i] = -1;"},
        {"name":"skip_last","slice":"DataSet_removeNums.inc","find":"while(--n >= 0)","replace":"while(--n > 0)"}]
for nm, fn, muts, memmut in (
   ("removePerm","DataSet<DATA>::remove(int perm[])",m_perm,
    [{"name":"loop_bound","slice":"DataSet_removePerm.inc","find":"for(k = j = 0; k < num(); ++k)","replace":"for(k = j = 0; k <= num(); ++k)"}]),
   ("removeNums","DataSet<DATA>::remove(const int* nums, int n, int* perm)",m_nums,
    [{"name":"init_bound","slice":"DataSet_removeNums.inc","find":"for(int i = num() - 1; i >= 0; --i)","replace":"for(int i = num(); i >= 0; --i)"}])):
    # quick: capacity <= 4, whole postcondition in one run
    inst(nm, fn, min_obligations=60, unwind=5, unwind_loops=LOOPS2, mutants=muts, mem_mutants=memmut, expected_s=40)
    for k in (-2,-1):
        u["instances"][k]["defines"]["CAP"]="4"; u["instances"][k]["defines_thorough"]={"CAP":"4"}
    # thorough: capacity <= 6, postcondition in three parts
    for part in ("1","2","3"):
        d={"name":nm+"6_p"+part,"function":fn+"  [capacity <= 6, postcondition part "+part+" of 3]","defines":{"INST_"+nm:"","CAP":"6","PART":part},
           "defines_thorough":{"CAP":"6"},"defines_small":{"CAP":"4"},"harness":"h_"+nm,"enforce":"w_"+nm,"min_obligations":60,"unwind":7,"unwind_loops":LOOPS2,
           "tier":"thorough","mutants":[],"expected_s":200}
        u["instances"].append(d)
inst("clear","DataSet<DATA>::clear()",min_obligations=10,
  mutants=[{"name":"ff","slice":"DataSet_clear.inc","find":"firstfree = -themax - 1;","replace":"firstfree = -themax;"}])
u["instances"]=[i for i in u["instances"] if i["name"]!="clear_mem"]
EXP={"add_mem":140,"create_mem":120,"removeKey":90,"remove1":65,"removeNums":65,"removePerm":62,"remove1_mem":47,"add":41,"create":35,"removeKey_mem":35,"removeNums_mem":35}
for i in u["instances"]:
    if i["name"] in EXP: i["expected_s"]=EXP[i["name"]]
for i in u["instances"]:
    if i["name"].endswith("_mem") and i["name"][:-4] in ("remove1","removeKey","removePerm","removeNums"):
        i["defines"].pop("EXACT_ALLOC",None); i["defines"]["EXACT_CONST"]=""
        i["function"]=i["function"].replace("arrays of exactly max() cells","max() == CAP and arrays of exactly CAP cells")
import os
json.dump(u, open(os.path.join(os.path.dirname(os.path.abspath(__file__)), "unit.json"), "w"), indent=1)
