/* C01 solution extraction: contracts.  "For every column/row" is stated at the ghost index g_k; g_j is the basis
 * position holding that column/row (-1: not in the basis).  Enumerations are extracted verbatim from the tree. */
#include "verif_c.h"
#ifndef CAP
#define CAP 16
#endif
typedef double R;
#define NOTNAN(x) ((x) == (x))
/* "the same value" for non-NaN doubles, bit for bit: equal AND the same sign (+0 / -0); needed where the value is
   fed to an uninterpreted operation afterwards */
#define SAME(a, b) ((a) == (b) && __CPROVER_signd(a) == __CPROVER_signd(b))

#ifdef R_IS_UF
/* stubs/real_uf.h: binary +,-,* of R are uninterpreted functions (a generalisation of the IEEE operations) */
double __CPROVER_uninterpreted_fsub(double, double);
double __CPROVER_uninterpreted_fmul(double, double);
#define FSUB(a, b) __CPROVER_uninterpreted_fsub(a, b)
#define FMUL(a, b) __CPROVER_uninterpreted_fmul(a, b)
#else
#define FSUB(a, b) ((a) - (b))
#define FMUL(a, b) ((a) * (b))
#endif

/* SPxBasisBase<R>::Desc::Status */
#define Status DescStatus_c
#include "DescStatus.inc"
#undef Status
/* SPxSolverBase<R>::Status */
#define Status SolverStatus_c
#include "SolverStatus.inc"
#undef Status
/* SPxBasisBase<R>::SPxStatus: six enumerator names coincide with SPxSolverBase<R>::Status; prefixed B_ here (names
   only; the values are the tree's) */
#define NO_PROBLEM B_NO_PROBLEM
#define SINGULAR B_SINGULAR
#define REGULAR B_REGULAR
#define DUAL B_DUAL
#define PRIMAL B_PRIMAL
#define OPTIMAL B_OPTIMAL
#define UNBOUNDED B_UNBOUNDED
#define INFEASIBLE B_INFEASIBLE
#include "SPxStatus.inc"
#undef NO_PROBLEM
#undef SINGULAR
#undef REGULAR
#undef DUAL
#undef PRIMAL
#undef OPTIMAL
#undef UNBOUNDED
#undef INFEASIBLE
#include "SPxSense.inc"
#include "Representation.inc"

int g_k, g_j, g_n, g_dim, g_last_stat, g_throw_status_ok;
int g_basis_status; const double* gp_low; const double* gp_up; int g_ncols;
double* gp_out; double v_old, v_new;
double* gp_vs; double vs_old, vs_new;
/* enumerator values for loop invariants (the loop-contract side file cannot name C enumerators) */
int K_P_ON_LOWER, K_P_ON_UPPER, K_P_FIXED, K_P_FREE, K_D_FREE, K_D_ON_UPPER, K_D_ON_LOWER, K_D_ON_BOTH, K_D_UNDEFINED;
int v_st; double v_a, v_b, v_f;   /* ghost copies (set by the harness-side requires through ==; operands are not NaN) */

/* status(): the table of SPxSolverBase<R>::status(), derived from the code */
#define PASSTHROUGH(m) ((m) == SINGULAR || (m) == OPTIMAL || (m) == ABORT_CYCLING || (m) == ABORT_TIME || (m) == ABORT_ITER || \
   (m) == ABORT_VALUE || (m) == RUNNING || (m) == REGULAR || (m) == NOT_INIT || (m) == NO_SOLVER || (m) == NO_PRICER || \
   (m) == NO_RATIOTESTER || (m) == ERROR)
#define STATUS_OF(m, b) ( \
   (m) == UNKNOWN ? ((b) == B_NO_PROBLEM ? NO_PROBLEM : (b) == B_SINGULAR ? SINGULAR : \
                     ((b) == B_REGULAR || (b) == B_DUAL || (b) == B_PRIMAL) ? UNKNOWN : (b) == B_OPTIMAL ? OPTIMAL : \
                     (b) == B_UNBOUNDED ? UNBOUNDED : (b) == B_INFEASIBLE ? INFEASIBLE : ERROR) : \
   PASSTHROUGH(m) ? (m) : ERROR)

/* VectorBase<R>::operator*=(const S& x) on raw storage.  Proved (instance vec_scale) with * uninterpreted, i.e. for
 * every binary function in place of *; read with IEEE * where it is used as the callee contract of getDualSol. */
void w_vec_scale(double* val, int n, double s)
__CPROVER_requires(0 < n && n <= CAP && g_n == n && __CPROVER_is_fresh(val, n * sizeof(double)))
__CPROVER_requires(0 <= g_k && g_k < n && NOTNAN(val[g_k]) && NOTNAN(FMUL(val[g_k], s)))
__CPROVER_assigns(gp_vs, vs_old, vs_new, __CPROVER_object_whole(val))
__CPROVER_ensures(SAME(val[g_k], FMUL(__CPROVER_old(val[g_k]), s)))
;

/* ASSUMED contracts of two std::vector-based VectorBase members (ROW-representation instances only) */
void c_vec_copy(double* dst, const double* src, int n)
__CPROVER_requires(n == g_n && __CPROVER_w_ok(dst, n * sizeof(double)) && __CPROVER_r_ok(src, n * sizeof(double)))
__CPROVER_assigns(__CPROVER_object_whole(dst))
__CPROVER_ensures(NOTNAN(src[g_k]) ==> dst[g_k] == src[g_k])
;
void c_vec_clear(double* v, int n)
__CPROVER_requires(n == g_n && __CPROVER_w_ok(v, n * sizeof(double)))
__CPROVER_assigns(__CPROVER_object_whole(v))
__CPROVER_ensures(SAME(v[g_k], 0.0))
;

#ifdef INST_VECSCALE
void h_vec_scale(void)
{
   double* val; int n; double s;
   g_k = nondet_int(); g_n = nondet_int();
   w_vec_scale(val, n, s);
   CANARY();
}
#endif

#ifdef INST_STATUS
/* PROPERTY LINK: OPTIMAL is reported only if the solve loop set OPTIMAL, or nothing is known about the loop status
 * and the basis is flagged optimal.  Second clause: the complete table. */
int w_status(int m_status, int basis_status)
__CPROVER_assigns(g_basis_status)
__CPROVER_ensures(__CPROVER_return_value == OPTIMAL ==> (m_status == OPTIMAL || (m_status == UNKNOWN && basis_status == B_OPTIMAL)))
__CPROVER_ensures(__CPROVER_return_value == STATUS_OF(m_status, basis_status))
;
void h_status(void)
{
   int m_status, basis_status;
   w_status(m_status, basis_status);
   CANARY();
}
#endif

#ifdef INST_EXTRACT
#define IS_DUAL_STATUS(s) ((s) == D_FREE || (s) == D_ON_UPPER || (s) == D_ON_LOWER || (s) == D_ON_BOTH || (s) == D_UNDEFINED)

int w_extract(const int* stat, int n, double* a, double* b, double* fvec, const int* bid_info, const int* bid_idx, int dim,
              double* out, int initialized, int rep, int m_status, int basis_status, int sense)
__CPROVER_requires(0 < n && n <= CAP && 0 < dim && dim <= CAP && g_n == n && g_dim == dim)
__CPROVER_requires(__CPROVER_is_fresh(stat, n * sizeof(int)) && __CPROVER_is_fresh(a, n * sizeof(double)) && __CPROVER_is_fresh(b, n * sizeof(double)))
__CPROVER_requires(__CPROVER_is_fresh(fvec, dim * sizeof(double)) && __CPROVER_is_fresh(bid_info, dim * sizeof(int)) && __CPROVER_is_fresh(bid_idx, dim * sizeof(int)))
__CPROVER_requires(__CPROVER_is_fresh(out, n * sizeof(double)))
#ifdef REP_ROW
__CPROVER_requires(rep == ROW)
#if !(defined(KIND_DUAL))
__CPROVER_requires(dim == n)                                         /* ROW representation: dim() == nCols() */
#endif
#else
__CPROVER_requires(rep == COLUMN)
#endif
__CPROVER_requires(sense == MINIMIZE || sense == MAXIMIZE)
__CPROVER_requires(0 <= g_k && g_k < n && -1 <= g_j && g_j < dim)
#if defined(KIND_PRIMAL) || defined(KIND_DUAL)     /* these two return NO_PROBLEM instead of throwing */
__CPROVER_requires(g_throw_status_ok == (!initialized && STATUS_OF(m_status, basis_status) != NO_PROBLEM))
#else
__CPROVER_requires(g_throw_status_ok == !initialized)
#endif
/* values at the ghost index are not NaN (== is used to say "the same value") */
__CPROVER_requires(NOTNAN(a[g_k]) && NOTNAN(b[g_k]) && NOTNAN(out[g_k]) && (g_j >= 0 ==> NOTNAN(fvec[g_j])))
__CPROVER_requires(v_a == a[g_k] && v_b == b[g_k] && (g_j >= 0 ==> v_f == fvec[g_j]) && v_st == stat[g_k])
#if defined(KIND_REDCOST) && !defined(REP_ROW)
__CPROVER_requires(NOTNAN(FSUB(a[g_k], b[g_k])) && NOTNAN(FMUL(FSUB(a[g_k], b[g_k]), -1.0)) && NOTNAN(FMUL(0.0, -1.0)))
#endif
__CPROVER_assigns(gp_out, v_old, v_new, g_last_stat, gp_vs, vs_old, vs_new, g_basis_status, gp_low, gp_up, g_ncols)
__CPROVER_assigns(__CPROVER_object_whole(out))                       /* frame: the output vector only */
/* return value: status(); if not initialised, getPrimalSol and getDualSol return NO_PROBLEM if that is the status and
   leave the vector alone; every other uninitialised call throws */
__CPROVER_ensures(__CPROVER_return_value == STATUS_OF(m_status, basis_status))
#if defined(REP_ROW)
#include "row_post.h"
#elif defined(KIND_PRIMAL)
__CPROVER_ensures(initialized || (STATUS_OF(m_status, basis_status) == NO_PROBLEM && out[g_k] == __CPROVER_old(out[g_k])))
/* basic at position g_j: the basic solution value; nonbasic: the bound its status names */
__CPROVER_ensures((initialized && g_j >= 0) ==> out[g_k] == v_f)
__CPROVER_ensures((initialized && g_j < 0) ==> out[g_k] == (stat[g_k] == P_ON_LOWER ? v_a : (stat[g_k] == P_ON_UPPER || stat[g_k] == P_FIXED) ? v_b :
                                                           stat[g_k] == P_FREE ? 0.0 : __CPROVER_old(out[g_k])))
#elif defined(KIND_SLACKS)
__CPROVER_ensures(initialized)
/* a basic row's slack is MINUS the basic solution value (the basis holds -s_i) */
__CPROVER_ensures(g_j >= 0 ==> out[g_k] == -v_f)
__CPROVER_ensures(g_j < 0 ==> out[g_k] == (stat[g_k] == P_ON_LOWER ? v_a : (stat[g_k] == P_ON_UPPER || stat[g_k] == P_FIXED) ? v_b :
                                          stat[g_k] == P_FREE ? 0.0 : __CPROVER_old(out[g_k])))
#elif defined(KIND_DUAL)
__CPROVER_ensures(initialized || (STATUS_OF(m_status, basis_status) == NO_PROBLEM && out[g_k] == __CPROVER_old(out[g_k])))
/* basic rows (dual statuses) have multiplier 0; otherwise coPvec with the sign of the objective sense:
   the solver maximises internally, so y = spxSense() * coPvec, i.e. -coPvec for a minimisation problem */
__CPROVER_ensures((initialized && IS_DUAL_STATUS(stat[g_k])) ==> out[g_k] == 0.0)
__CPROVER_ensures((initialized && !IS_DUAL_STATUS(stat[g_k])) ==> out[g_k] == (sense == MINIMIZE ? -v_a : v_a))
#elif defined(KIND_REDCOST)
__CPROVER_ensures(initialized)
/* basic columns (dual statuses) have reduced cost 0; otherwise maxObj - pVec, multiplied by -1.0 for a minimisation
   problem (r = c - A'y with c = -maxObj, y = -coPvec).  At this R the operations are uninterpreted: the clause
   pins down WHICH operations are applied to which operands. */
__CPROVER_ensures(IS_DUAL_STATUS(stat[g_k]) ==> out[g_k] == (sense == MINIMIZE ? FMUL(0.0, -1.0) : 0.0))
__CPROVER_ensures(!IS_DUAL_STATUS(stat[g_k]) ==> out[g_k] == (sense == MINIMIZE ? FMUL(FSUB(a[g_k], b[g_k]), -1.0) : FSUB(a[g_k], b[g_k])))
#endif
;
void h_extract(void)
{
   const int* stat; int n; double* a; double* b; double* fvec; const int* bid_info; const int* bid_idx; int dim;
   double* out; int initialized, rep, m_status, basis_status, sense;
   g_k = nondet_int(); g_j = nondet_int(); g_n = nondet_int(); g_dim = nondet_int(); g_throw_status_ok = nondet_int();
   v_a = nondet_double(); v_b = nondet_double(); v_f = nondet_double(); v_st = nondet_int();
   K_P_ON_LOWER = P_ON_LOWER; K_P_ON_UPPER = P_ON_UPPER; K_P_FIXED = P_FIXED; K_P_FREE = P_FREE;
   K_D_FREE = D_FREE; K_D_ON_UPPER = D_ON_UPPER; K_D_ON_LOWER = D_ON_LOWER; K_D_ON_BOTH = D_ON_BOTH; K_D_UNDEFINED = D_UNDEFINED;
   w_extract(stat, n, a, b, fvec, bid_info, bid_idx, dim, out, initialized, rep, m_status, basis_status, sense);
   CANARY();
}
#endif
