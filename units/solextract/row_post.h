/* ROW representation: postconditions of the four extractors (included by contract.c inside the contract of w_extract).
 * primal = coPvec, slacks = pVec (vector copies); duals: maxRowObj overwritten by fVec at the basic rows, times the
 * objective sense; reduced costs: 0, at the basic columns -fVec (minimisation) resp. fVec (maximisation). */
#if defined(KIND_PRIMAL)
__CPROVER_ensures(initialized || (STATUS_OF(m_status, basis_status) == NO_PROBLEM && out[g_k] == __CPROVER_old(out[g_k])))
__CPROVER_ensures(initialized ==> out[g_k] == v_a)
#elif defined(KIND_SLACKS)
__CPROVER_ensures(initialized)
__CPROVER_ensures(out[g_k] == v_b)
#elif defined(KIND_DUAL)
__CPROVER_ensures(initialized || (STATUS_OF(m_status, basis_status) == NO_PROBLEM && out[g_k] == __CPROVER_old(out[g_k])))
__CPROVER_ensures((initialized && g_j >= 0) ==> out[g_k] == (sense == MINIMIZE ? -v_f : v_f))
__CPROVER_ensures((initialized && g_j < 0) ==> out[g_k] == (sense == MINIMIZE ? -v_a : v_a))
#elif defined(KIND_REDCOST)
__CPROVER_ensures(initialized)
__CPROVER_ensures(g_j >= 0 ==> out[g_k] == (sense == MINIMIZE ? -v_f : v_f))
__CPROVER_ensures(g_j < 0 ==> out[g_k] == 0.0)
#endif
