/* C01: solution extraction of SPxSolverBase<R> (src/soplex/spxsolve.hpp): getPrimalSol, getSlacks, getDualSol,
 * getRedCostSol, status(); and VectorBase<R>::operator*= (src/soplex/vectorbase.h) which two of them call.
 * Bodies are #included verbatim from slices of the current tree.  Enumerations are extracted from the tree. */
#include "verif.h"
#ifdef R_IS_UF
#include "real_uf.h"      /* double with uninterpreted binary +,-,* (see header) */
typedef RealUF R;
static inline double dval(const R& r) { return r.v; }
#else
typedef double R;          /* CBMC's bit-precise IEEE double */
static inline double dval(const R& r) { return r; }
#endif
typedef double Real;

extern "C" {
   extern int g_k, g_j, g_n, g_dim, g_last_stat, g_throw_status_ok;
   extern double* gp_out; extern double v_old, v_new;
   extern double* gp_vs; extern double vs_old, vs_new;
   /* storage behind the base-class members the bodies call with a qualified name (see SPxLPBase / SPxBasisBase) */
   extern int g_basis_status; extern const double* gp_low; extern const double* gp_up; extern int g_ncols;
   /* VectorBase<R>::operator*= as a function on raw storage: proved on the real body in instance vec_scale,
      replaced by its contract in getDualSol / getRedCostSol */
   void w_vec_scale(double* val, int n, double s);
   /* VectorBase<R>::operator=(const VectorBase<S>&) and clear(): std::vector code, not sliceable; stubs with an
      ASSUMED contract (contract.c), used only by the ROW-representation instances */
   void c_vec_copy(double* dst, const double* src, int n);
   void c_vec_clear(double* v, int n);
}

#ifdef REP_ROW
#define ROW_ONLY()
#else
#define ROW_ONLY() __CPROVER_assert(0, "ROW representation branch unreachable")
#endif
#define VectorBase VectorBaseRaw
#include "containers.h"
#undef VectorBase
template <class T> struct VectorBase : VectorBaseRaw<T>
{
   VectorBase() {}
   VectorBase& operator*=(const double& x) { w_vec_scale((double*)this->val, this->dimen, x); return *this; }
#ifdef REP_ROW
   VectorBase& operator=(const VectorBase& v)
   {
      __CPROVER_assert(this->dimen == v.dimen, "vector assignment: the stub has fixed storage, dimensions must agree");
      c_vec_copy((double*)this->val, (const double*)v.val, v.dimen); return *this;
   }
   void clear() { c_vec_clear((double*)this->val, this->dimen); }
#else
   /* only used by the ROW-representation branches, which the COLUMN instances exclude by precondition */
   void clear() { __CPROVER_assert(0, "ROW representation branch unreachable"); }
#endif
};

/* ---- throw: compiled as a checked call.  A status exception is allowed exactly when the wrapper says so
 * (solver not initialised); an internal-code exception only right after reading a basis status value that is not an
 * enumerator of SPxBasisBase::Desc::Status. */
struct SPxStatusException { SPxStatusException(const char*) {} };
struct SPxInternalCodeException { SPxInternalCodeException(const char*) {} };
#define DS_(x) SPxBasisBase<R>::Desc::x
#define IS_DESC_STATUS(s) ((s) == DS_(P_ON_LOWER) || (s) == DS_(P_ON_UPPER) || (s) == DS_(P_FREE) || (s) == DS_(P_FIXED) || \
   (s) == DS_(D_FREE) || (s) == DS_(D_ON_UPPER) || (s) == DS_(D_ON_LOWER) || (s) == DS_(D_ON_BOTH) || (s) == DS_(D_UNDEFINED))

struct SPxId
{
   int info; int idx;
   bool isSPxRowId() const
   {
#include "isSPxRowId.inc"
   }
   bool isSPxColId() const
   {
#include "isSPxColId.inc"
   }
};
struct SPxColId { int idx; explicit SPxColId(const SPxId& k) { idx = k.idx; } };
struct SPxRowId { int idx; explicit SPxRowId(const SPxId& k) { idx = k.idx; } };

/* `SPxLPBase<R>::lower(i)`, `SPxBasisBase<R>::status()`, `SPxBasisBase<R>::Desc::P_ON_LOWER`: the bodies use these
 * qualified names.  They are served by templates WITHOUT data members (the front end does not generate constructors
 * of class templates with class-type data members reliably); their member functions read the single solver object's
 * data through ghost globals set by the wrapper.  All other LP / basis members live in SolverHost itself. */
template <class T> struct SPxLPBase
{
#include "SPxSense.inc"
   const T& lower(int i) const { __CPROVER_assert(0 <= i && i < g_ncols, "VectorBase index in bounds"); return ((const T*)gp_low)[i]; }
   const T& upper(int i) const { __CPROVER_assert(0 <= i && i < g_ncols, "VectorBase index in bounds"); return ((const T*)gp_up)[i]; }
};

template <class T> struct SPxBasisBase
{
#include "SPxStatus.inc"
   /* the descriptor: array reads (conformance-checked), recording the last status read for the throw check */
   struct Desc
   {
#include "DescStatus.inc"
      const int* colstat; const int* rowstat; int ncs, nrs;
      Status colStatus(int i) const { __CPROVER_assert(0 <= i && i < ncs, "Desc::colStatus index in bounds"); g_last_stat = colstat[i]; return (Status)colstat[i]; }
      Status rowStatus(int i) const { __CPROVER_assert(0 <= i && i < nrs, "Desc::rowStatus index in bounds"); g_last_stat = rowstat[i]; return (Status)rowstat[i]; }
   };
   SPxStatus status() const { return (SPxStatus)g_basis_status; }
};

/* the unwinding itself is not modelled: a throw ends the path (after the check of whether it was allowed) */
extern "C" void verif_throw(void) {}
struct ThrowCheck
{
   void operator=(const SPxStatusException&)
   {
      __CPROVER_assert(g_throw_status_ok, "SPxStatusException only if the solver is not initialised");
      verif_throw(); __CPROVER_assume(0);
   }
   void operator=(const SPxInternalCodeException&)
   {
      __CPROVER_assert(!IS_DESC_STATUS(g_last_stat), "SPxInternalCodeException only for a basis status outside the enumeration");
      verif_throw(); __CPROVER_assume(0);
   }
};
#define throw ThrowCheck() =

/* One host class: CBMC does not adjust `this` for member functions of a second base (README point 16).  The two
 * bases have no data members and their member functions never touch `this`, so they are immune. */
struct SolverHost : SPxLPBase<R>, SPxBasisBase<R>
{
   /* ---- SPxLPBase<R> part ---- */
   typedef R T;
   VectorBase<T> left, right, object;
   int nc, nr; SPxLPBase<R>::SPxSense thesense;
   int nCols() const { return nc; }
   int nRows() const { return nr; }
   const T& lhs(int i) const { return left[i]; }
   const T& rhs(int i) const { return right[i]; }
   const VectorBase<T>& maxObj() const { return *(VectorBase<T>*)&object; }
   const VectorBase<T>& maxRowObj() const { ROW_ONLY(); return *(VectorBase<T>*)&object; }
   /* real return type: SPxSense; CBMC cannot convert an enumeration to double (`Real(this->spxSense())`), so the stub
      returns the enumerator's value as int (comparisons with SPxLPBase<R>::MINIMIZE are unaffected) */
   int spxSense() const { return (int)thesense; }
   /* DataKey -> index lookup of LPColSetBase/LPRowSetBase: the stub id carries the index itself; assumed type
      invariant of the basis: every id stored in it names an existing column/row */
   int number(const SPxColId& id) const { __CPROVER_assume(0 <= id.idx && id.idx < nc); return id.idx; }
   int number(const SPxRowId& id) const { __CPROVER_assume(0 <= id.idx && id.idx < nr); return id.idx; }
   /* ---- SPxBasisBase<R> part ---- */
   SPxBasisBase<R>::Desc thedesc;
   const int* bid_info; const int* bid_idx; int nbase; int ghost_kind;
   const SPxBasisBase<R>::Desc& desc() const { return *(SPxBasisBase<R>::Desc*)&thedesc; }
   /* theBaseId[i].  Assumed type invariant of the basis (injectivity of baseId): the ghost column (ghost_kind>0) resp.
      ghost row (ghost_kind<0) g_k sits at basis position g_j and nowhere else (g_j == -1: it is not in the basis) */
   SPxId baseId(int i) const
   {
      __CPROVER_assert(0 <= i && i < nbase, "theBaseId index in bounds");
      SPxId id; id.info = bid_info[i]; id.idx = bid_idx[i];
      __CPROVER_assume(-1 <= id.info && id.info <= 1);
      __CPROVER_assume((((ghost_kind > 0) ? id.info > 0 : id.info < 0) && id.idx == g_k) == (i == g_j));
      return id;
   }
   /* ---- SPxSolverBase<R> part ---- */
#include "SolverStatus.inc"
#include "Representation.inc"
   Status m_status; Representation theRep; bool initialized; int thedim;
   VectorBase<R>* theFvec; VectorBase<R>* thePvec; VectorBase<R>* theCoPvec;   /* real: UpdateVector<R>* (a VectorBase<R>) */
   bool isInitialized() const
   {
#include "isInitialized.inc"
   }
   Representation rep() const
   {
#include "rep.inc"
   }
   int dim() const { return thedim; }                /* real: thecovectors->num() */
   VectorBase<R>& fVec() const
   {
#include "fVec.inc"
   }
   VectorBase<R>& pVec() const { ROW_ONLY(); return *thePvec; }
   VectorBase<R>& coPvec() const { ROW_ONLY(); return *theCoPvec; }
   Status status() const
   {
#include "status.inc"
   }
#ifdef INST_EXTRACT
   VectorBase<R>* p_vector_;
   Status body() const
   {
      VectorBase<R>& p_vector = *p_vector_;
#include SLICE
   }
#endif
};

#ifdef INST_EXTRACT
typedef SolverHost H;
/*  stat      : column statuses (getPrimalSol, getRedCostSol) / row statuses (getSlacks, getDualSol), n of them
 *  a, b      : lower,upper | lhs,rhs | coPvec,- | maxObj,pVec
 *  fvec, bid_info, bid_idx : the basic solution vector and theBaseId, dim entries */
extern "C" int w_extract(const int* stat, int n, double* a, double* b, double* fvec, const int* bid_info, const int* bid_idx, int dim,
                         double* out, int initialized, int rep, int m_status, int basis_status, int sense)
{
   VIN("n", n); VIN("dim", dim); VIN("sense", sense); VIN("m_status", m_status); VIN("basis_status", basis_status);
   H h; VectorBase<R> F, P, C, O;
#if defined(REP_ROW) && defined(KIND_DUAL)
   h.nc = dim; h.nr = n;          /* ROW representation: the basis has nCols() entries, the duals are indexed by rows */
#else
   h.nc = n; h.nr = n;
#endif
   h.left.val = (R*)a; h.left.dimen = n; h.right.val = (R*)b; h.right.dimen = n;
   h.object.val = (R*)a; h.object.dimen = n;
   h.thesense = (SPxLPBase<R>::SPxSense)sense;
   h.thedesc.colstat = stat; h.thedesc.rowstat = stat; h.thedesc.ncs = n; h.thedesc.nrs = n;
   g_basis_status = basis_status; gp_low = a; gp_up = b; g_ncols = n;
   h.bid_info = bid_info; h.bid_idx = bid_idx; h.nbase = dim; h.ghost_kind = GHOST_KIND;
   h.m_status = (SolverHost::Status)m_status; h.theRep = (SolverHost::Representation)rep; h.initialized = initialized != 0; h.thedim = dim;
   F.val = (R*)fvec; F.dimen = dim; P.val = (R*)b; P.dimen = n; C.val = (R*)a; C.dimen = n; O.val = (R*)out; O.dimen = n;
   h.theFvec = &F; h.thePvec = &P; h.theCoPvec = &C; h.p_vector_ = &O;
   gp_out = out; g_last_stat = 0;
   if(0 <= g_k && g_k < n)
   {
      v_old = out[g_k];
#if defined(KIND_REDCOST) && !defined(REP_ROW)
      v_new = dval(((R*)a)[g_k] - ((R*)b)[g_k]);       /* ghost copy of maxObj[g] - pVec[g] (see contract.c) */
#endif
   }
   return (int)h.body();
}
#endif

#ifdef INST_STATUS
extern "C" int w_status(int m_status, int basis_status)
{
   VIN("m_status", m_status); VIN("basis_status", basis_status);
   SolverHost h;
   h.m_status = (SolverHost::Status)m_status; g_basis_status = basis_status;
   return (int)h.status();
}
#endif

#ifdef INST_VECSCALE
/* VectorBase<R>::operator*=(const S& x), S = double: real body over raw storage (real member: std::vector<R> val) */
struct VecHost
{
   R* val; int dimen; const double* x_;
   int dim() const { return dimen; }
   VecHost& body()
   {
      const double& x = *x_;
#include "VectorBase_scale.inc"
   }
};
extern "C" void w_vec_scale(double* val, int n, double s)
{
   VecHost h; h.val = (R*)val; h.dimen = n; h.x_ = &s;
   gp_vs = val;
   if(0 <= g_k && g_k < n)
   {
      vs_old = val[g_k];
      R t = ((R*)val)[g_k]; t *= s; vs_new = dval(t);  /* ghost copy of the product at the ghost index */
   }
   h.body();
}
#endif
