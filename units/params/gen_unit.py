#!/usr/bin/env python3
"""Writes unit.json of the C15 unit `params` (run after editing; the json is what the tools read)."""
import json
import os

HPP = "src/soplex.hpp"
H = "src/soplex.h"

def sl(name, file, sig, must=None):
    d = {"as": name + ".inc", "file": file, "sig": sig}
    if must:
        d["must_contain"] = must
    return d

GETTERS = [
    sl("boolParam", HPP, r"bool\s+SoPlexBase<R>::boolParam\s*\(\s*const\s+BoolParam\s+param\s*\)\s*const", [r"_currentSettings->_boolParamValues\[param\]"]),
    sl("intParam", HPP, r"int\s+SoPlexBase<R>::intParam\s*\(\s*const\s+IntParam\s+param\s*\)\s*const", [r"_currentSettings->_intParamValues\[param\]"]),
    sl("realParam", HPP, r"Real\s+SoPlexBase<R>::realParam\s*\(\s*const\s+RealParam\s+param\s*\)\s*const", [r"_currentSettings->_realParamValues\[param\]"]),
]
S_BOOL = sl("setBoolParam", HPP, r"bool\s+SoPlexBase<R>::setBoolParam\s*\(\s*const\s+BoolParam\s+param\s*,\s*const\s+bool\s+value\s*,\s*const\s+bool\s+init\s*\)",
            [r"_currentSettings->_boolParamValues\[param\] = value;\s*return true;", r"case ROWBOUNDFLIPS:", r"case FULLPERTURBATION:"])
S_INT = sl("setIntParam", HPP, r"bool\s+SoPlexBase<R>::setIntParam\s*\(\s*const\s+IntParam\s+param\s*,\s*const\s+int\s+value\s*,\s*const\s+bool\s+init\s*\)",
           [r"_currentSettings->_intParamValues\[param\] = value;\s*return true;", r"value < _currentSettings->intParam\.lower\[param\]",
            r"case SoPlexBase<R>::STORE_BASIS_SIMPLEX_FREQ:"])
S_REAL = sl("setRealParam", HPP, r"bool\s+SoPlexBase<R>::setRealParam\s*\(\s*const\s+RealParam\s+param\s*,\s*const\s+Real\s+value\s*,\s*const\s+bool\s+init\s*\)",
            [r"_currentSettings->_realParamValues\[param\] = tmp_value;\s*return true;", r"_currentSettings->realParam\.lower\[param\]", r"case SoPlexBase<R>::OBJ_OFFSET:"])

def conf(file, regex, why):
    return {"file": file, "regex": regex, "why": why}

CONFORMANCE = [
    conf(H, r"bool\s+_boolParamValues\[SoPlexBase<R>::BOOLPARAM_COUNT\];", "SettingsStub: value array"),
    conf(H, r"int\s+_intParamValues\[SoPlexBase<R>::INTPARAM_COUNT\];", "SettingsStub: value array"),
    conf(H, r"Real\s+_realParamValues\[SoPlexBase<R>::REALPARAM_COUNT\];", "SettingsStub: value array"),
    conf(H, r"static\s+struct\s+IntParam\s*\{.*?int\s+lower\[SoPlexBase<R>::INTPARAM_COUNT\];.*?int\s+upper\[SoPlexBase<R>::INTPARAM_COUNT\];\s*\}\s*intParam;", "SettingsStub::intParam.lower/upper"),
    conf(H, r"static\s+struct\s+RealParam\s*\{.*?Real\s+lower\[SoPlexBase<R>::REALPARAM_COUNT\];.*?Real\s+upper\[SoPlexBase<R>::REALPARAM_COUNT\];\s*\}\s*realParam;", "SettingsStub::realParam.lower/upper"),
    conf(H, r"Settings\*\s+_currentSettings;", "host member"),
    conf(H, r"std::shared_ptr<Tolerances>\s+_tolerances;", "host member (stub: plain pointer)"),
    conf(H, r"Rational\s+_rationalPosInfty;\s*Rational\s+_rationalNegInfty;\s*Rational\s+_rationalFeastol;\s*Rational\s+_rationalOpttol;\s*Rational\s+_rationalMaxscaleincr;", "host members of type Rational"),
    conf(H, r"SPxSolverBase<R>\s+_solver;\s*SLUFactor<R>\s+_slufactor;\s*SPxMainSM<R>\s+_simplifierMainSM;", "host members"),
    conf(H, r"SPxLPBase<R>\*\s+_realLP;\s*SPxSimplifier<R>\*\s+_simplifier;\s*SPxScaler<R>\*\s+_scaler;\s*SPxStarter<R>\*\s+_starter;", "switchable pointers"),
    conf(H, r"SPxScaler<BP>\*\s+_boostedScaler;\s*SPxSimplifier<BP>\*\s+_boostedSimplifier;", "switchable pointers (boosted)"),
    conf(H, r"SPxLPRational\*\s+_rationalLP;", "rational LP pointer"),
    conf(H, r"mutable\s+SPxOut\s+spxout;", "host member"),
    conf(H, r"void\s+setTimings\(const\s+Timer::TYPE\s+ttype\);", "host stub"),
    conf(H, r"void\s+_invalidateSolution\(\);", "host stub"),
    conf(H, r"void\s+_ensureRationalLP\(\);", "host stub"),
    conf(H, r"void\s+_recomputeRangeTypesRational\(\);", "host stub"),
    conf(H, r"void\s+_syncLPRational\(bool\s+time\s*=\s*true\);", "host stub"),
    conf(HPP, r"void SoPlexBase<R>::_ensureRationalLP\(\)\s*\{\s*if\(_rationalLP == nullptr\)\s*\{\s*spx_alloc\(_rationalLP\);\s*_rationalLP = new\(_rationalLP\) SPxLPRational\(\);",
         "_ensureRationalLP stub: makes _rationalLP non-null, keeps an existing one"),
    conf("src/soplex/spxlp.h", r"typedef\s+SPxLPBase<\s*Rational\s*>\s+SPxLPRational;", "SPxLPRational stands for SPxLPBase<Rational>"),
    conf("src/soplex/spxalloc.h", r"inline void spx_free\(T& p\)\s*\{\s*assert\(p != nullptr\);\s*free\(p\);\s*p = nullptr;\s*\}", "spx_free stub nulls the pointer"),
    conf("src/soplex/spxlpbase.h", r"virtual\s+void\s+changeSense\(SPxSense\s+sns\)", "LP stub"),
    conf("src/soplex/spxlpbase.h", r"void\s+changeObjOffset\(const\s+T&\s+o\)", "LP stub"),
    conf("src/soplex/spxlpbase.h", r"SPxSense\s+spxSense\(\)\s*const", "LP stub"),
    conf("src/soplex/spxdefines.h", r"void setEpsilon\(Real eps\);.*?void setEpsilonFactorization\(Real eps\);.*?void setEpsilonUpdate\(Real eps\);.*?void setEpsilonPivot\(Real eps\);.*?void setFeastol\(Real ftol\);.*?void setOpttol\(Real otol\);.*?void setFloatingPointFeastol\(Real ftol\);.*?void setFloatingPointOpttol\(Real otol\);", "TolStub"),
    conf("src/soplex/slufactor.h", r"void\s+setUtype\(UpdateType\s+tp\)", "SLUFactor stub"),
    conf("src/soplex/slufactor.h", r"void\s+setMarkowitz\(R\s+m\)", "SLUFactor stub"),
    conf("src/soplex/spxbasis.h", r"void\s+setMaxUpdates\(int\s+maxUp\)", "BasisStub"),
    conf("src/soplex/spxsolver.h", r"virtual\s+void\s+setPricer\(SPxPricer<R>\*\s+pricer,\s*const\s+bool\s+destroy\s*=\s*false\);", "SolverStub"),
    conf("src/soplex/spxsolver.h", r"virtual\s+void\s+setTester\(SPxRatioTester<R>\*\s+tester,\s*const\s+bool\s+destroy\s*=\s*false\);", "SolverStub"),
    conf("src/soplex/spxsolver.h", r"virtual\s+void\s+setStarter\(SPxStarter<R>\*\s+starter,\s*const\s+bool\s+destroy\s*=\s*false\);", "SolverStub"),
    conf("src/soplex/spxsolver.h", r"void\s+setSolutionPolishing\(SolutionPolish\s+_polishObj\)", "SolverStub"),
    conf("src/soplex/spxsolver.h", r"void\s+toggleTerminationValue\(bool\s+enable\)", "SolverStub"),
    conf("src/soplex/spxsolver.h", r"void\s+setTiming\(Timer::TYPE\s+ttype\)", "SolverStub"),
    conf("src/soplex/spxsolver.h", r"void\s+setDisplayFreq\(int\s+freq\)", "SolverStub"),
    conf("src/soplex/spxsolver.h", r"void\s+setMetricInformation\(int\s+type\)", "SolverStub"),
    conf("src/soplex/spxsolver.h", r"void\s+setStoreBasisFreqForBoosting\(int\s+freq\)", "SolverStub"),
    conf("src/soplex/spxsolver.h", r"void\s+useFullPerturbation\(bool\s+full\)", "SolverStub"),
    conf("src/soplex/spxsolver.h", r"SPxBasisBase<R>&\s+basis\(\)", "SolverStub::basis()"),
    conf("src/soplex/spxout.h", r"setVerbosity\(const\s+Verbosity&\s+v\)", "SPxOut stub"),
    conf("src/soplex/spxscaler.h", r"virtual\s+void\s+setRealParam\(R\s+param,", "ScalerStub"),
    conf("src/soplex/spxscaler.h", r"virtual\s+void\s+setIntParam\(int\s+param,", "ScalerStub"),
    conf("src/soplex/spxscaler.h", r"virtual\s+void\s+setTolerances\(std::shared_ptr<Tolerances>&\s+tolerances\)", "ScalerStub"),
    conf("src/soplex/spxsimplifier.h", r"virtual\s+void\s+setTolerances\(std::shared_ptr<Tolerances>\s+newTolerances\)", "SimplifierStub"),
    conf("src/soplex/spxstarter.h", r"virtual\s+void\s+setTolerances\(const\s+std::shared_ptr<Tolerances>&\s+tolerances\)", "StarterStub"),
    conf("src/soplex/spxboundflippingrt.h", r"void\s+useBoundFlipsRow\(bool\s+bf\)", "TesterStub"),
    # the documented ranges of the integer parameters that the switch does not validate by enumerator
    conf(HPP, r"lower\[SoPlexBase<R>::ALGORITHM\] = 0;\s*upper\[SoPlexBase<R>::ALGORITHM\] = 1;", "ALGORITHM is validated by its range table only"),
    conf(HPP, r"lower\[SoPlexBase<R>::VERBOSITY\] = 0;\s*upper\[SoPlexBase<R>::VERBOSITY\] = 5;", "VERBOSITY is validated by its range table only"),
    conf(HPP, r"lower\[SoPlexBase<R>::STATTIMER\] = 0;\s*upper\[SoPlexBase<R>::STATTIMER\] = 2;", "STATTIMER is validated by its range table only"),
]

EXTRACTS = [
    {"as": "ParamEnums.inc", "file": H, "regex": r"typedef enum\s*\{\s*///[^\n]*\n\s*LIFTING = 0,.*?\}\s*RealParam;"},
    {"as": "TimerType.inc", "file": "src/soplex/timer.h", "regex": r"typedef enum\s*\{\s*OFF = 0,[^{}]*?\}\s*TYPE;"},
    {"as": "Verbosity.inc", "file": "src/soplex/spxout.h", "regex": r"typedef enum\s*\{[^{}]*?ERROR\s*= 0,[^{}]*?\}\s*Verbosity;"},
    {"as": "UpdateType.inc", "file": "src/soplex/slufactor.h", "regex": r"enum UpdateType\s*\{.*?\};"},
    {"as": "SolutionPolish.inc", "file": "src/soplex/spxsolver.h", "regex": r"enum SolutionPolish\s*\{.*?\};"},
    {"as": "SPxSense.inc", "file": "src/soplex/spxlpbase.h", "regex": r"enum SPxSense\s*\{.*?\};"},
]
CONSTANTS = [
    {"name": "SOPLEX_REFACTOR_INTERVAL", "file": HPP, "regex": r"#define\s+SOPLEX_REFACTOR_INTERVAL\s+(\d+)"},
    {"name": "SOPLEX_DEFAULT_EPS_PIVOR", "file": "src/soplex/spxdefines.h", "regex": r"typedef\s+double\s+Real;.*?#define\s+SOPLEX_DEFAULT_EPS_PIVOR\s+([0-9.eE+-]+)"},
]
PINNED = {"SOPLEX_WITH_BOOST": "", "SOPLEX_WITH_GMP": "", "SOPLEX_WITH_MPFR": ""}

def mut(name, slice_, find, replace, regex=False):
    d = {"name": name, "slice": slice_ + ".inc", "find": find, "replace": replace}
    if regex:
        d["regex"] = True
    return d

instances = [
    {"name": "setBoolParam", "function": "SoPlexBase<R>::setBoolParam(const BoolParam param, const bool value, const bool init)",
     "defines": dict(PINNED, INST_BOOL=""), "harness": "h_setBool", "enforce": "w_setBool",
     "slices": GETTERS + [S_BOOL], "min_obligations": 40, "tier": "quick", "expected_s": 5,
     "mutants": [
         mut("store_negated", "setBoolParam", "_currentSettings->_boolParamValues[param] = value;", "_currentSettings->_boolParamValues[param] = !value;"),
         mut("locked_param_accepted", "setBoolParam", "if(_currentSettings->_boolParamValues[param] != value)\n      {\n         SPX_MSG_INFO1(spxout, spxout <<\n                       \"Changing Parameter \"", "if(_currentSettings->_boolParamValues[param] != value && init)\n      {\n         SPX_MSG_INFO1(spxout, spxout <<\n                       \"Changing Parameter \""),
         mut("flips_not_forwarded", "setBoolParam", "_ratiotesterBoundFlipping.useBoundFlipsRow(value);", "_ratiotesterBoundFlipping.useBoundFlipsRow(!value);"),
         mut("unknown_falls_through", "setBoolParam", "case RECOVERY_MECHANISM:\n      break;", "case RECOVERY_MECHANISM:\n      return false;"),
     ]},
    {"name": "setIntParam", "function": "SoPlexBase<R>::setIntParam(const IntParam param, const int value, const bool init)",
     "defines": dict(PINNED, INST_INT=""), "harness": "h_setInt", "enforce": "w_setInt",
     "slices": GETTERS + [S_INT], "min_obligations": 80, "tier": "quick", "expected_s": 30,
     "mutants": [
         mut("upper_bound_unchecked", "setIntParam", "|| value > _currentSettings->intParam.upper[param])", "|| value > _currentSettings->intParam.upper[param] + 1)"),
         mut("objsense_any_value", "setIntParam", "if(value != SoPlexBase<R>::OBJSENSE_MAXIMIZE && value != SoPlexBase<R>::OBJSENSE_MINIMIZE)\n         return false;", "if(value != SoPlexBase<R>::OBJSENSE_MAXIMIZE && value != SoPlexBase<R>::OBJSENSE_MINIMIZE && value != 0)\n         return false;"),
         mut("objsense_swapped", "setIntParam", "_realLP->changeSense(value == SoPlexBase<R>::OBJSENSE_MAXIMIZE ? SPxLPBase<R>::MAXIMIZE :\n                           SPxLPBase<R>::MINIMIZE);", "_realLP->changeSense(value == SoPlexBase<R>::OBJSENSE_MAXIMIZE ? SPxLPBase<R>::MINIMIZE :\n                           SPxLPBase<R>::MAXIMIZE);"),
         mut("scaler_swapped", "setIntParam", "case SCALER_GEO1:\n         _scaler = &_scalerGeo1;", "case SCALER_GEO1:\n         _scaler = &_scalerGeo8;"),
         mut("pricer_swapped", "setIntParam", "_solver.setPricer(&_pricerDevex);", "_solver.setPricer(&_pricerSteep);"),
         mut("default_scaler_accepted", "setIntParam", "case SCALER_GEOEQUI:\n         _scaler = &_scalerGeoequi;\n#ifdef SOPLEX_WITH_MPFR\n         _boostedScaler = &_boostedScalerGeoequi;\n#endif\n         break;\n\n      default:\n         return false;", "case SCALER_GEOEQUI:\n         _scaler = &_scalerGeoequi;\n#ifdef SOPLEX_WITH_MPFR\n         _boostedScaler = &_boostedScalerGeoequi;\n#endif\n         break;\n\n      default:\n         break;"),
         mut("value_not_stored", "setIntParam", "_currentSettings->_intParamValues[param] = value;\n   return true;", "return true;"),
         mut("timer_touches_lp", "setIntParam", "case TIMER_OFF:\n         _solver.setTiming(Timer::OFF);", "case TIMER_OFF:\n         _realLP->changeSense(SPxLPBase<R>::MINIMIZE);\n         _solver.setTiming(Timer::OFF);"),
         mut("scaler_case_clears_simplifier", "setIntParam", "case SoPlexBase<R>::SCALER:", "case SoPlexBase<R>::SCALER:\n      _simplifier = nullptr;"),
         # re-introduces the fixed defect (8067644): SIMPLIFIER_PAPILO without PaPILO re-targets the simplifier and THEN rejects
         mut("papilo_reject_with_side_effect", "setIntParam", "#else\n         return false;\n#endif", "#else\n         _simplifier = &_simplifierMainSM;\n#ifdef SOPLEX_WITH_MPFR\n         _boostedSimplifier = &_boostedSimplifierMainSM;\n#endif\n         return false;\n#endif"),
         mut("reject_after_mutation", "setIntParam", "case SoPlexBase<R>::DISPLAYFREQ:\n      _solver.setDisplayFreq(value);\n      break;", "case SoPlexBase<R>::DISPLAYFREQ:\n      _solver.setDisplayFreq(value);\n      if(value == 7) return false;\n      break;"),
     ]},
    {"name": "setRealParam", "function": "SoPlexBase<R>::setRealParam(const RealParam param, const Real value, const bool init)",
     "defines": dict(PINNED, INST_REAL=""), "harness": "h_setReal", "enforce": "w_setReal",
     "slices": GETTERS + [S_REAL], "min_obligations": 80, "tier": "quick", "expected_s": 60,
     "mutants": [
         mut("upper_bound_unchecked", "setRealParam", "&& value <= _currentSettings->realParam.upper[param]))", "&& value <= _currentSettings->realParam.upper[param] + 1.0))"),
         mut("lower_bound_unchecked", "setRealParam", "if(!(value >= _currentSettings->realParam.lower[param]", "if(!((value >= _currentSettings->realParam.lower[param] || init)"),
         # re-introduces the fixed defect (ba1d875): both comparisons are false for NaN, so NaN passes the range test
         mut("nan_accepted", "setRealParam", r"if\(!\(value >= _currentSettings->realParam\.lower\[param\]\s*&& value <= _currentSettings->realParam\.upper\[param\]\)\)",
             "if(value < _currentSettings->realParam.lower[param] || value > _currentSettings->realParam.upper[param])", regex=True),
         mut("offset_only_real_lp", "setRealParam", "if(_rationalLP)\n         _rationalLP->changeObjOffset(value);", "if(_rationalLP && init)\n         _rationalLP->changeObjOffset(value);"),
         mut("epsilon_touches_lp", "setRealParam", "_tolerances->setEpsilon(Real(value));", "_tolerances->setEpsilon(Real(value)); _realLP->changeObjOffset(value);"),
         mut("feastol_to_opttol", "setRealParam", "_rationalFeastol = value;\n      this->_tolerances->setFeastol(value);", "_rationalFeastol = value;\n      this->_tolerances->setOpttol(value);"),
         mut("stores_other_value", "setRealParam", "Real tmp_value = value;", "Real tmp_value = value + 1.0;"),
         mut("neg_infty_sign", "setRealParam", "_rationalNegInfty = -_rationalNegInfty;", "_rationalNegInfty = _rationalNegInfty;"),
     ]},
]

unit = {
    "property": ["C15"],
    "desc": "parameter setters of SoPlexBase<R> (soplex.hpp): setBoolParam, setIntParam, setRealParam - the whole switch statements, every sub-object a ghost-recording stub",
    "rmode": "R = Real = double (IEEE, bit-precise); Rational = recording stub (only assignment and unary minus are used)",
    "flags": ["--bounds-check", "--pointer-check", "--signed-overflow-check"],
    "timeout_s": 400,
    "extracts": EXTRACTS, "constants": CONSTANTS, "conformance": CONFORMANCE,
    "trusted": [
        "build configuration of the proofs = the pinned build (/repo/_build/soplex/config.h): SOPLEX_WITH_BOOST, SOPLEX_WITH_GMP, SOPLEX_WITH_MPFR defined, SOPLEX_WITH_PAPILO and SOPLEX_WITH_RATIONALPARAM undefined; the #ifdef branches of the other configurations are not compiled",
        "every sub-object the switch statements touch is a stub whose mutators only record (code, count, argument) in ghost state: _solver (+ basis()), _boostedSolver, _slufactor, spxout, _tolerances (std::shared_ptr<Tolerances> -> plain pointer), the simplifier / scaler / starter / pricer / ratio tester member objects (one stub type per family, identified by an id = the parameter value that selects them), _realLP (SPxLPBase<R>: changeSense, changeObjOffset, spxSense), _rationalLP (SPxLPRational: changeSense, changeObjOffset); signatures conformance-checked",
        "host member functions _invalidateSolution, _syncLPRational, _ensureRationalLP, _recomputeRangeTypesRational, setTimings are recorded, not executed; the _ensureRationalLP stub makes _rationalLP non-null out of a spare object (real: spx_alloc + placement new)",
        "statements that destroy/free: `_rationalLP->~SPxLPRational()` runs the stub's recording destructor, `spx_free(_rationalLP)` is a recording stub that nulls the pointer (as spxalloc.h does); no `new`/`delete` occurs in the three setters themselves",
        "class Rational is a stub: assignment from Real / Rational and unary minus record the assigned value (the five _rational* members)",
        "Settings: _boolParamValues/_intParamValues/_realParamValues and the static tables intParam.lower/upper, realParam.lower/upper are raw arrays of the real lengths (BOOLPARAM_COUNT etc. from the extracted enums) with SYMBOLIC contents (lower[param] <= upper[param]); the name/description/defaultValue tables are not modelled (only used in messages)",
        "precondition (class invariant of Settings, needed for the early `value == current` return): without init the stored value of `param` is inside its range and, for enumerated parameters, one of the enumerators",
        "precondition: 0 <= param < *PARAM_COUNT (the setters assert it); SPX_MSG_* macros are empty; assert() compiled out",
    ],
    "replay": {"cpp": "replay.cpp", "asan": False, "extra_src": ["LIB"]},
    "instances": instances,
}
json.dump(unit, open(os.path.join(os.path.dirname(os.path.abspath(__file__)), "unit.json"), "w"), indent=1)
print("wrote unit.json with", len(instances), "instances")
