/* C15: the three typed parameter setters of SoPlexBase<R> (src/soplex.hpp) at R = Real = double.
 * The setter bodies (and the getters boolParam/intParam/realParam) are #included verbatim from slices cut out of the
 * current tree.  The parameter enumerations BoolParam / IntParam / RealParam and all parameter-value enumerations are
 * one verbatim extract of src/soplex.h (ParamEnums.inc); Timer::TYPE, SPxOut::Verbosity, SLUFactor::UpdateType,
 * SPxSolverBase::SolutionPolish, SPxLPBase::SPxSense are extracts too.  Every sub-object the switch statements touch
 * is a stub whose mutators record themselves in the ghost state of params_ghost.h. */
#include "verif.h"
#include "constants.h"
#include "params_ghost.h"
typedef double R;
typedef double Real;

#define SPX_MSG_INFO1(...)
#define SPX_MSG_WARNING(...)
#define SPX_MSG_ERROR(...)

static inline void MUT(int code, int iarg) { g_mut++; g_cnt[code]++; g_iarg[code] = iarg; }
static inline void MUTD(int code, double darg) { g_mut++; g_cnt[code]++; g_darg[code] = darg; }
static inline void LPMUT(int code, int iarg) { g_lpmut++; g_lcnt[code]++; g_liarg[code] = iarg; }
static inline void LPMUTD(int code, double darg) { g_lpmut++; g_lcnt[code]++; g_ldarg[code] = darg; }

/* ---- names-only templates serving the qualified names used by the bodies ---- */
template <class T> struct SoPlexBase
{
#include "ParamEnums.inc"
};
template <class T> struct SPxSolverBase
{
#include "SolutionPolish.inc"
};
struct Timer
{
#include "TimerType.inc"
};

/* ---- LP stubs: the only mutators the setters use are changeSense and changeObjOffset ---- */
template <class T> struct SPxLPBase
{
#include "SPxSense.inc"
   SPxSense thesense;
   void changeSense(SPxSense sns) { LPMUT(L_real_changeSense, (int)sns); thesense = sns; }
   SPxSense spxSense() const { return thesense; }
   void changeObjOffset(const T& o) { LPMUTD(L_real_changeObjOffset, o); }
};
/* spxlp.h: typedef SPxLPBase< Rational > SPxLPRational (conformance-checked).  A typedef name cannot be a scope
 * qualifier for CBMC, so the rational LP is a struct of that name.  The explicit destructor call
 * `_rationalLP->~SPxLPRational()` is recorded; destructors of automatic objects at the end of the wrapper run after the
 * ghost snapshot and are masked by g_done. */
extern "C" { extern int g_done; }
struct SPxLPRational
{
#include "SPxSense.inc"
   void changeSense(SPxSense sns) { LPMUT(L_rat_changeSense, (int)sns); }
   void changeObjOffset(Real o) { LPMUTD(L_rat_changeObjOffset, o); }   /* real: const Rational&, converted from Real */
   ~SPxLPRational() { if(!g_done) MUT(M_ratlp_destroy, 0); }
};
/* spxalloc.h: template <class T> void spx_free(T*& p) { free(p); p = nullptr; } (function templates with T*& do not
 * resolve in CBMC's front end: one plain overload) */
inline void spx_free(SPxLPRational*& p) { MUT(M_ratlp_free, 0); p = 0; }

/* ---- sub-object stubs ---- */
struct TolStub     /* class Tolerances, reached through std::shared_ptr<Tolerances> (stub: plain pointer) */
{
   void setFeastol(Real v) { MUTD(M_tol_setFeastol, v); }
   void setOpttol(Real v) { MUTD(M_tol_setOpttol, v); }
   void setEpsilon(Real v) { MUTD(M_tol_setEpsilon, v); }
   void setEpsilonFactorization(Real v) { MUTD(M_tol_setEpsilonFactorization, v); }
   void setEpsilonUpdate(Real v) { MUTD(M_tol_setEpsilonUpdate, v); }
   void setEpsilonPivot(Real v) { MUTD(M_tol_setEpsilonPivot, v); }
   void setFloatingPointFeastol(Real v) { MUTD(M_tol_setFloatingPointFeastol, v); }
   void setFloatingPointOpttol(Real v) { MUTD(M_tol_setFloatingPointOpttol, v); }
};
/* class Rational: only assignment from Real / Rational and unary minus are used */
struct Rational
{
   int code; double v;
   Rational& operator=(const double& d) { v = d; MUTD(code, d); return *this; }
   Rational& operator=(const Rational& r) { v = r.v; MUTD(code, r.v); return *this; }
   Rational operator-() const { Rational r; r.code = code; r.v = -v; return r; }
};
struct SimplifierStub { int id; int code; void setTolerances(TolStub* t) { MUT(code, id); g_iarg2[code] = (t != 0); } };
struct ScalerStub
{
   int id; int code;
   void setTolerances(TolStub* t) { MUT(code, id); g_iarg2[code] = (t != 0); }
   void setIntParam(int v) { MUT(M_scaler_setIntParam, v); g_iarg2[M_scaler_setIntParam] = id; }
   void setRealParam(Real v) { MUTD(M_scaler_setRealParam, v); g_iarg2[M_scaler_setRealParam] = id; }
};
struct StarterStub { int id; void setTolerances(TolStub* t) { MUT(M_starter_setTolerances, id); g_iarg2[M_starter_setTolerances] = (t != 0); } };
struct PricerStub { int id; };
struct TesterStub { int id; void useBoundFlipsRow(bool flips) { MUT(M_rt_useBoundFlipsRow, flips); } };
struct BasisStub { void setMaxUpdates(int maxUp) { MUT(M_solver_setMaxUpdates, maxUp); } };
struct SolverStub
{
   BasisStub b;
   BasisStub& basis() { return b; }
   void useFullPerturbation(bool full) { MUT(M_solver_useFullPerturbation, full); }
   void setDisplayFreq(int freq) { MUT(M_solver_setDisplayFreq, freq); }
   void setStarter(StarterStub* starter, const bool destroy = false) { MUT(M_solver_setStarter, starter ? starter->id : 0); g_iarg2[M_solver_setStarter] = destroy; }
   void setPricer(PricerStub* pricer, const bool destroy = false) { MUT(M_solver_setPricer, pricer->id); g_iarg2[M_solver_setPricer] = destroy; }
   void setTester(TesterStub* tester, const bool destroy = false) { MUT(M_solver_setTester, tester->id); g_iarg2[M_solver_setTester] = destroy; }
   void setTiming(Timer::TYPE ttype) { MUT(M_solver_setTiming, (int)ttype); }
   void setSolutionPolishing(int mode) { MUT(M_solver_setSolutionPolishing, mode); }
   void setMetricInformation(int type) { MUT(M_solver_setMetricInformation, type); }
   void setStoreBasisFreqForBoosting(int freq) { MUT(M_solver_setStoreBasisFreq, freq); }
   void toggleTerminationValue(bool enable) { MUT(M_solver_toggleTerminationValue, enable); }
};
struct BoostedSolverStub
{
   void setPricer(PricerStub* pricer, const bool destroy = false) { MUT(M_bsolver_setPricer, pricer->id); g_iarg2[M_bsolver_setPricer] = destroy; }
   void setTester(TesterStub* tester, const bool destroy = false) { MUT(M_bsolver_setTester, tester->id); g_iarg2[M_bsolver_setTester] = destroy; }
   void setStoreBasisFreqForBoosting(int freq) { MUT(M_bsolver_setStoreBasisFreq, freq); }
};
template <class T> struct SLUFactor
{
#include "UpdateType.inc"
   void setUtype(UpdateType tp) { MUT(M_slu_setUtype, (int)tp); }
   void setMarkowitz(T m) { MUTD(M_slu_setMarkowitz, m); }
};
struct SPxOut
{
#include "Verbosity.inc"
   void setVerbosity(const Verbosity& v) { MUT(M_spxout_setVerbosity, (int)v); }
};
struct PresolStub   /* Presol<R> _simplifierPaPILO: only referenced when SOPLEX_WITH_PAPILO is defined */
{
   int id; int code;
   void setTolerances(TolStub* t) { MUT(code, id); }
   void setEnableSingletonCols(bool v) { MUT(M_papilo_set, v); }
   void setEnablePropagation(bool v) { MUT(M_papilo_set, v); }
   void setEnableParallelRows(bool v) { MUT(M_papilo_set, v); }
   void setEnableParallelCols(bool v) { MUT(M_papilo_set, v); }
   void setEnableStuffing(bool v) { MUT(M_papilo_set, v); }
   void setEnableDualFix(bool v) { MUT(M_papilo_set, v); }
   void setEnableFixContinuous(bool v) { MUT(M_papilo_set, v); }
   void setEnableDomCols(bool v) { MUT(M_papilo_set, v); }
   void setModifyConsFrac(Real v) { MUTD(M_papilo_set, v); }
};

/* class Settings: the value arrays and the static bound tables are raw arrays handed in by the wrapper */
struct SettingsStub
{
   struct IntTab { const int* lower; const int* upper; } intParam;
   struct RealTab { const Real* lower; const Real* upper; } realParam;
   bool* _boolParamValues;
   int* _intParamValues;
   Real* _realParamValues;
};

struct SoPlexHost : SoPlexBase<R>
{
   SPxOut spxout;
   SettingsStub* _currentSettings;
   TolStub* _tolerances;
   Rational _rationalPosInfty, _rationalNegInfty, _rationalFeastol, _rationalOpttol, _rationalMaxscaleincr;
   SolverStub _solver;
   SLUFactor<R> _slufactor;
   SimplifierStub _simplifierMainSM;
   ScalerStub _scalerUniequi, _scalerBiequi, _scalerGeo1, _scalerGeo8, _scalerGeoequi, _scalerLeastsq;
   StarterStub _starterWeight, _starterSum, _starterVector;
   PricerStub _pricerAuto, _pricerDantzig, _pricerParMult, _pricerDevex, _pricerQuickSteep, _pricerSteep;
   TesterStub _ratiotesterTextbook, _ratiotesterHarris, _ratiotesterFast, _ratiotesterBoundFlipping;
   SPxLPBase<R>* _realLP;
   SimplifierStub* _simplifier;
   ScalerStub* _scaler;
   StarterStub* _starter;
   BoostedSolverStub _boostedSolver;
   PricerStub _boostedPricerAuto, _boostedPricerDantzig, _boostedPricerParMult, _boostedPricerDevex, _boostedPricerQuickSteep, _boostedPricerSteep;
   TesterStub _boostedRatiotesterTextbook, _boostedRatiotesterHarris, _boostedRatiotesterFast, _boostedRatiotesterBoundFlipping;
   ScalerStub* _boostedScaler;
   SimplifierStub* _boostedSimplifier;
   ScalerStub _boostedScalerUniequi, _boostedScalerBiequi, _boostedScalerGeo1, _boostedScalerGeo8, _boostedScalerGeoequi, _boostedScalerLeastsq;
   SimplifierStub _boostedSimplifierMainSM;
#ifdef SOPLEX_WITH_PAPILO
   PresolStub _simplifierPaPILO, _boostedSimplifierPaPILO;
#endif
   SPxLPRational* _rationalLP;
   SPxLPRational* spareRationalLP;   /* storage handed out by the _ensureRationalLP stub */

   /* host member functions called by the setters: recorded, not executed */
   void _invalidateSolution() { MUT(M_host_invalidateSolution, 0); }
   void _syncLPRational(bool time = true) { MUT(M_host_syncLPRational, time); }
   /* real: if(_rationalLP == nullptr) { spx_alloc(_rationalLP); _rationalLP = new(_rationalLP) SPxLPRational(); ... } */
   void _ensureRationalLP() { MUT(M_host_ensureRationalLP, 0); if(_rationalLP == 0) _rationalLP = spareRationalLP; }
   void _recomputeRangeTypesRational() { MUT(M_host_recomputeRangeTypesRational, 0); }
   void setTimings(const Timer::TYPE ttype) { MUT(M_host_setTimings, (int)ttype); }

   bool boolParam(const BoolParam param) const
   {
#include "boolParam.inc"
   }
   int intParam(const IntParam param) const
   {
#include "intParam.inc"
   }
   Real realParam(const RealParam param) const
   {
#include "realParam.inc"
   }
};

/* ids of the selectable member objects = the parameter value that selects them (taken from the extracted enums) */
static inline void init_host(SoPlexHost& h, SettingsStub* set, TolStub* tol, SPxLPBase<R>* lp, SPxLPRational* rlp, SPxLPRational* spare,
                             int simp_in, int scaler_in, int starter_in, int ratlp_in)
{
   typedef SoPlexBase<R> E;
   h._currentSettings = set; h._tolerances = tol; h._realLP = lp; h.spareRationalLP = spare;
   h._rationalPosInfty.code = M_rat_PosInfty; h._rationalNegInfty.code = M_rat_NegInfty; h._rationalFeastol.code = M_rat_Feastol;
   h._rationalOpttol.code = M_rat_Opttol; h._rationalMaxscaleincr.code = M_rat_Maxscaleincr;
   h._simplifierMainSM.id = SoPlexBase<R>::SIMPLIFIER_INTERNAL; h._simplifierMainSM.code = M_simp_setTolerances;
   h._boostedSimplifierMainSM.id = SoPlexBase<R>::SIMPLIFIER_INTERNAL; h._boostedSimplifierMainSM.code = M_bsimp_setTolerances;
#ifdef SOPLEX_WITH_PAPILO
   h._simplifierPaPILO.id = SoPlexBase<R>::SIMPLIFIER_PAPILO; h._simplifierPaPILO.code = M_simp_setTolerances;
   h._boostedSimplifierPaPILO.id = SoPlexBase<R>::SIMPLIFIER_PAPILO; h._boostedSimplifierPaPILO.code = M_bsimp_setTolerances;
#endif
#define SC(obj, e) h._scaler##obj.id = SoPlexBase<R>::e; h._scaler##obj.code = M_scaler_setTolerances; \
                   h._boostedScaler##obj.id = SoPlexBase<R>::e; h._boostedScaler##obj.code = M_bscaler_setTolerances;
   SC(Uniequi, SCALER_UNIEQUI) SC(Biequi, SCALER_BIEQUI) SC(Geo1, SCALER_GEO1) SC(Geo8, SCALER_GEO8) SC(Geoequi, SCALER_GEOEQUI) SC(Leastsq, SCALER_LEASTSQ)
#undef SC
   h._starterWeight.id = SoPlexBase<R>::STARTER_WEIGHT; h._starterSum.id = SoPlexBase<R>::STARTER_SUM; h._starterVector.id = SoPlexBase<R>::STARTER_VECTOR;
#define PR(obj, e) h._pricer##obj.id = SoPlexBase<R>::e; h._boostedPricer##obj.id = SoPlexBase<R>::e;
   PR(Auto, PRICER_AUTO) PR(Dantzig, PRICER_DANTZIG) PR(ParMult, PRICER_PARMULT) PR(Devex, PRICER_DEVEX) PR(QuickSteep, PRICER_QUICKSTEEP) PR(Steep, PRICER_STEEP)
#undef PR
#define RT(obj, e) h._ratiotester##obj.id = SoPlexBase<R>::e; h._boostedRatiotester##obj.id = SoPlexBase<R>::e;
   RT(Textbook, RATIOTESTER_TEXTBOOK) RT(Harris, RATIOTESTER_HARRIS) RT(Fast, RATIOTESTER_FAST) RT(BoundFlipping, RATIOTESTER_BOUNDFLIPPING)
#undef RT
   /* incoming targets of the switchable pointers (0 = nullptr) */
   h._simplifier = simp_in ? &h._simplifierMainSM : 0;
   h._boostedSimplifier = simp_in ? &h._boostedSimplifierMainSM : 0;
   h._scaler = scaler_in == SoPlexBase<R>::SCALER_UNIEQUI ? &h._scalerUniequi : scaler_in == SoPlexBase<R>::SCALER_BIEQUI ? &h._scalerBiequi :
               scaler_in == SoPlexBase<R>::SCALER_GEO1 ? &h._scalerGeo1 : scaler_in == SoPlexBase<R>::SCALER_GEO8 ? &h._scalerGeo8 :
               scaler_in == SoPlexBase<R>::SCALER_GEOEQUI ? &h._scalerGeoequi : scaler_in == SoPlexBase<R>::SCALER_LEASTSQ ? &h._scalerLeastsq : 0;
   h._boostedScaler = h._scaler == 0 ? 0 : h._scaler == &h._scalerUniequi ? &h._boostedScalerUniequi : h._scaler == &h._scalerBiequi ? &h._boostedScalerBiequi :
               h._scaler == &h._scalerGeo1 ? &h._boostedScalerGeo1 : h._scaler == &h._scalerGeo8 ? &h._boostedScalerGeo8 :
               h._scaler == &h._scalerGeoequi ? &h._boostedScalerGeoequi : &h._boostedScalerLeastsq;
   h._starter = starter_in == SoPlexBase<R>::STARTER_WEIGHT ? &h._starterWeight : starter_in == SoPlexBase<R>::STARTER_SUM ? &h._starterSum :
                starter_in == SoPlexBase<R>::STARTER_VECTOR ? &h._starterVector : 0;
   h._rationalLP = ratlp_in ? rlp : 0;
}
static inline void snapshot(SoPlexHost& h, int* out)
{
   out[P_simplifier] = h._simplifier ? h._simplifier->id : 0;
   out[P_bsimplifier] = h._boostedSimplifier ? h._boostedSimplifier->id : 0;
   out[P_scaler] = h._scaler ? h._scaler->id : 0;
   out[P_bscaler] = h._boostedScaler ? h._boostedScaler->id : 0;
   out[P_starter] = h._starter ? h._starter->id : 0;
   out[P_rationalLP] = h._rationalLP ? 1 : 0;
}

#ifdef INST_BOOL
struct H : SoPlexHost
{
   BoolParam param; bool value; bool init;
   bool body()
   {
#include "setBoolParam.inc"
   }
};
extern "C" int w_setBool(bool* vals, int param, int value, int init, int simp_in, int scaler_in, int starter_in, int ratlp_in)
{
   VIN("param", param); VIN("value", value); VIN("init", init);
   SettingsStub set; TolStub tol; SPxLPBase<R> lp; SPxLPRational rlp, spare; H h;
   set._boolParamValues = vals; set._intParamValues = 0; set._realParamValues = 0;
   set.intParam.lower = 0; set.intParam.upper = 0; set.realParam.lower = 0; set.realParam.upper = 0;
   lp.thesense = SPxLPBase<R>::MINIMIZE;
   init_host(h, &set, &tol, &lp, &rlp, &spare, simp_in, scaler_in, starter_in, ratlp_in);
   h.param = (SoPlexBase<R>::BoolParam)param; h.value = value != 0; h.init = init != 0;
   snapshot(h, g_ptr0);
   bool r = h.body();
   snapshot(h, g_ptr1);
   g_done = 1;
   return r ? 1 : 0;
}
#endif

#ifdef INST_INT
struct H : SoPlexHost
{
   IntParam param; int value; bool init;
   bool body()
   {
#include "setIntParam.inc"
   }
};
extern "C" int w_setInt(int* vals, const int* lower, const int* upper, int param, int value, int init,
                        int simp_in, int scaler_in, int starter_in, int ratlp_in, int lpsense)
{
   VIN("param", param); VIN("value", value); VIN("init", init); VIN("ratlp_in", ratlp_in); VIN("simp_in", simp_in);
   SettingsStub set; TolStub tol; SPxLPBase<R> lp; SPxLPRational rlp, spare; H h;
   set._boolParamValues = 0; set._intParamValues = vals; set._realParamValues = 0;
   set.intParam.lower = lower; set.intParam.upper = upper; set.realParam.lower = 0; set.realParam.upper = 0;
   lp.thesense = lpsense > 0 ? SPxLPBase<R>::MAXIMIZE : SPxLPBase<R>::MINIMIZE;
   init_host(h, &set, &tol, &lp, &rlp, &spare, simp_in, scaler_in, starter_in, ratlp_in);
   h.param = (SoPlexBase<R>::IntParam)param; h.value = value; h.init = init != 0;
   snapshot(h, g_ptr0);
   bool r = h.body();
   snapshot(h, g_ptr1);
   g_done = 1;
   return r ? 1 : 0;
}
#endif

#ifdef INST_REAL
struct H : SoPlexHost
{
   RealParam param; Real value; bool init;
   bool body()
   {
#include "setRealParam.inc"
   }
};
extern "C" int w_setReal(double* vals, const double* lower, const double* upper, int* ivals, int param, double value, int init,
                         int simp_in, int scaler_in, int starter_in, int ratlp_in, int reallp_in)
{
   VIN("param", param); VIN("value", value); VIN("init", init);
   SettingsStub set; TolStub tol; SPxLPBase<R> lp; SPxLPRational rlp, spare; H h;
   set._boolParamValues = 0; set._intParamValues = ivals; set._realParamValues = vals;
   set.intParam.lower = 0; set.intParam.upper = 0; set.realParam.lower = lower; set.realParam.upper = upper;
   lp.thesense = SPxLPBase<R>::MINIMIZE;
   init_host(h, &set, &tol, &lp, &rlp, &spare, simp_in, scaler_in, starter_in, ratlp_in);
   if(!reallp_in) h._realLP = 0;
   h.param = (SoPlexBase<R>::RealParam)param; h.value = value; h.init = init != 0;
   snapshot(h, g_ptr0);
   bool r = h.body();
   snapshot(h, g_ptr1);
   g_done = 1;
   return r ? 1 : 0;
}
#endif
