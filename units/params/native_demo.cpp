#include "soplex.h"
#include <cmath>
#include <cstdio>
using namespace soplex;
int main()
{
   SoPlex s;
   s.setIntParam(SoPlex::VERBOSITY, 0);
   bool r;
   r = s.setRealParam(SoPlex::TIMELIMIT, NAN);
   fprintf(stderr, "setRealParam(TIMELIMIT, NaN) -> %d, realParam = %g\n", (int)r, s.realParam(SoPlex::TIMELIMIT));
   /* simplifier */
   SoPlex t;
   t.setIntParam(SoPlex::VERBOSITY, 0);
   t.setIntParam(SoPlex::SIMPLIFIER, SoPlex::SIMPLIFIER_OFF);
   fprintf(stderr, "after SIMPLIFIER_OFF: intParam=%d name=%s\n", t.intParam(SoPlex::SIMPLIFIER), t.getSimplifierName());
   r = t.setIntParam(SoPlex::SIMPLIFIER, SoPlex::SIMPLIFIER_PAPILO);
   fprintf(stderr, "setIntParam(SIMPLIFIER, PAPILO) -> %d: intParam=%d name=%s\n", (int)r, t.intParam(SoPlex::SIMPLIFIER), t.getSimplifierName());
      r = s.setRealParam(SoPlex::FEASTOL, NAN);
   fprintf(stderr, "setRealParam(FEASTOL, NaN) -> %d, realParam(FEASTOL) = %g\n", (int)r, s.realParam(SoPlex::FEASTOL));
   r = true; if(0) s.setRealParam(SoPlex::OBJ_OFFSET, NAN);
   fprintf(stderr, "setRealParam(OBJ_OFFSET, NaN) -> %d, realParam = %g\n", (int)r, s.realParam(SoPlex::OBJ_OFFSET));
   return 0;
}
