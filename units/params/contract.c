/* Contracts for SoPlexBase<R>::setBoolParam / setIntParam / setRealParam (C15).
 * All enumerations are verbatim extracts of the tree (slices/ *.inc), valid C as they stand.
 * "For every array position" is stated with the ghost index g_k havoc'd by the harness. */
#include "verif_c.h"
#include "constants.h"
#include "params_ghost.h"
#include "ParamEnums.inc"
#include "TimerType.inc"
#include "Verbosity.inc"
#include "UpdateType.inc"
#include "SolutionPolish.inc"
#include "SPxSense.inc"
#ifdef SOPLEX_WITH_PAPILO
#error "the contracts of this unit are written for builds without PaPILO (the pinned configuration)"
#endif

int g_mut, g_lpmut, g_done;
int g_cnt[M_COUNT], g_iarg[M_COUNT], g_iarg2[M_COUNT];
double g_darg[M_COUNT];
int g_lcnt[L_COUNT], g_liarg[L_COUNT];
double g_ldarg[L_COUNT];
int g_ptr0[P_COUNT], g_ptr1[P_COUNT];
int g_k, v_iold, v_ipold;
double v_dold, v_dpold;
_Bool v_bold, v_bpold;
static void havoc_ghosts(void)
{
   g_k = nondet_int(); v_iold = nondet_int(); v_ipold = nondet_int(); v_dold = nondet_double(); v_dpold = nondet_double();
   v_bold = nondet_bool(); v_bpold = nondet_bool();
   /* the recording counters start at zero (statics are nondeterministic under dfcc) */
   g_mut = 0; g_lpmut = 0; g_done = 0;
   __CPROVER_array_set(g_cnt, 0); __CPROVER_array_set(g_lcnt, 0);
}
#define RET __CPROVER_return_value
#define GHOST_ASSIGNS g_mut, g_lpmut, g_done, __CPROVER_object_whole(g_cnt), __CPROVER_object_whole(g_iarg), __CPROVER_object_whole(g_iarg2), \
   __CPROVER_object_whole(g_darg), __CPROVER_object_whole(g_lcnt), __CPROVER_object_whole(g_liarg), __CPROVER_object_whole(g_ldarg), \
   __CPROVER_object_whole(g_ptr0), __CPROVER_object_whole(g_ptr1)
#define COUNTERS_ZERO (g_mut == 0 && g_lpmut == 0 && g_done == 0)
#define PTR_IN_OK (0 <= simp_in && simp_in <= 1 && SCALER_OFF <= scaler_in && scaler_in <= SCALER_GEOEQUI && \
                   STARTER_OFF <= starter_in && starter_in <= STARTER_VECTOR && 0 <= ratlp_in && ratlp_in <= 1)
#define SAMEPTR(p) (g_ptr1[p] == g_ptr0[p])
#define ALL_PTRS_BUT_SIMPLIFIER_SAME (SAMEPTR(P_scaler) && SAMEPTR(P_bscaler) && SAMEPTR(P_starter) && SAMEPTR(P_rationalLP))
#define SIMPLIFIER_PTRS_SAME (SAMEPTR(P_simplifier) && SAMEPTR(P_bsimplifier))
#define NO_LP_MUTATION (g_lpmut == 0 && g_lcnt[L_real_changeSense] == 0 && g_lcnt[L_real_changeObjOffset] == 0 && \
                        g_lcnt[L_rat_changeSense] == 0 && g_lcnt[L_rat_changeObjOffset] == 0)
/* exactly one recorded call of mutator c, with integer / double argument a */
#define ONE(c, a) (g_cnt[c] == 1 && g_iarg[c] == (a))
#define ONED(c, a) (g_cnt[c] == 1 && SAMED(g_darg[c], (a)))
#define SAMED(a, b) (((a) == (b) && __CPROVER_signd(a) == __CPROVER_signd(b)) || ((a) != (a) && (b) != (b)))

/* ------------------------------------------------------------------------------------------------------------- */
#ifdef INST_BOOL
/* parameters whose change is refused in this build configuration (derived from the #ifdef structure of the switch) */
#ifdef SOPLEX_WITH_PAPILO
#define BUILD_LOCKED_PAPILO(p) 0
#else
#define BUILD_LOCKED_PAPILO(p) ((p) == SIMPLIFIER_SINGLETONCOLS || (p) == SIMPLIFIER_CONSTRAINTPROPAGATION || (p) == SIMPLIFIER_PARALLELROWDETECTION || \
   (p) == SIMPLIFIER_PARALLELCOLDETECTION || (p) == SIMPLIFIER_SINGLETONSTUFFING || (p) == SIMPLIFIER_DUALFIX || (p) == SIMPLIFIER_FIXCONTINUOUS || \
   (p) == SIMPLIFIER_DOMINATEDCOLS)
#endif
#ifdef SOPLEX_WITH_MPFR
#define BUILD_LOCKED(p) BUILD_LOCKED_PAPILO(p)
#else
#define BUILD_LOCKED(p) (BUILD_LOCKED_PAPILO(p) || (p) == PRECISION_BOOSTING)
#endif
#define BV (value != 0)
#define CH (RET && (init || BV != v_bpold))
int w_setBool(_Bool* vals, int param, int value, int init, int simp_in, int scaler_in, int starter_in, int ratlp_in)
__CPROVER_requires(__CPROVER_is_fresh(vals, BOOLPARAM_COUNT * sizeof(_Bool)))
__CPROVER_requires(0 <= param && param < BOOLPARAM_COUNT && 0 <= value && value <= 1 && 0 <= init && init <= 1)
__CPROVER_requires(0 <= g_k && g_k < BOOLPARAM_COUNT && v_bold == vals[g_k] && v_bpold == vals[param])
__CPROVER_requires(PTR_IN_OK && COUNTERS_ZERO)
__CPROVER_assigns(GHOST_ASSIGNS, __CPROVER_object_whole(vals))
__CPROVER_ensures(RET == 0 || RET == 1)
/* rejected => nothing changed */
__CPROVER_ensures(RET == 0 ==> (g_mut == 0 && vals[g_k] == v_bold))
/* accepted => the getter returns the value; all other parameters keep theirs */
__CPROVER_ensures(RET == 1 ==> vals[param] == BV)
__CPROVER_ensures(g_k != param ==> vals[g_k] == v_bold)
/* every boolean value is in range: the call succeeds unless the build lacks the component AND the value would change */
__CPROVER_ensures(RET == 1 <==> (!BUILD_LOCKED(param) || BV == v_bpold))
/* no boolean parameter touches the stored LP, the rational LP or the switchable sub-object pointers */
__CPROVER_ensures(NO_LP_MUTATION && ALL_PTRS_BUT_SIMPLIFIER_SAME && SIMPLIFIER_PTRS_SAME)
/* unchanged value without init: no sub-object is notified */
__CPROVER_ensures((!init && BV == v_bpold) ==> g_mut == 0)
/* notified sub-objects */
__CPROVER_ensures((CH && param == ROWBOUNDFLIPS) ==> (g_mut == 1 && ONE(M_rt_useBoundFlipsRow, BV) && g_iarg[M_rt_useBoundFlipsRow] == BV))
__CPROVER_ensures((CH && param == FULLPERTURBATION) ==> (g_mut == 1 && ONE(M_solver_useFullPerturbation, BV)))
__CPROVER_ensures((param != ROWBOUNDFLIPS && param != FULLPERTURBATION) ==> g_mut == 0)
;
void h_setBool(void)
{
   _Bool* vals; int param, value, init, simp_in, scaler_in, starter_in, ratlp_in;
   havoc_ghosts();
   w_setBool(vals, param, value, init, simp_in, scaler_in, starter_in, ratlp_in);
   CANARY();
}
#endif

/* ------------------------------------------------------------------------------------------------------------- */
#ifdef INST_INT
#define IN_RANGE(p, v) (lower[p] <= (v) && (v) <= upper[p])
/* enumerated integer parameters and their admissible values, as the switch validates them in this build configuration */
#ifdef SOPLEX_WITH_PAPILO
#define SIMPLIFIER_VALUE_OK(v) ((v) == SIMPLIFIER_OFF || (v) == SIMPLIFIER_INTERNAL || (v) == SIMPLIFIER_AUTO || (v) == SIMPLIFIER_PAPILO)
#else
#define SIMPLIFIER_VALUE_OK(v) ((v) == SIMPLIFIER_OFF || (v) == SIMPLIFIER_INTERNAL || (v) == SIMPLIFIER_AUTO)
#endif
#ifdef SOPLEX_WITH_BOOST
#define READMODE_VALUE_OK(v) ((v) == READMODE_REAL || (v) == READMODE_RATIONAL)
#define SOLVEMODE_VALUE_OK(v) ((v) == SOLVEMODE_REAL || (v) == SOLVEMODE_AUTO || (v) == SOLVEMODE_RATIONAL)
#else
#define READMODE_VALUE_OK(v) ((v) == READMODE_REAL)
#define SOLVEMODE_VALUE_OK(v) ((v) == SOLVEMODE_REAL || (v) == SOLVEMODE_AUTO)
#endif
#define ENUM_OK(p, v) ( \
   (p) == OBJSENSE ? ((v) == OBJSENSE_MINIMIZE || (v) == OBJSENSE_MAXIMIZE) : \
   (p) == REPRESENTATION ? ((v) == REPRESENTATION_AUTO || (v) == REPRESENTATION_COLUMN || (v) == REPRESENTATION_ROW) : \
   (p) == FACTOR_UPDATE_TYPE ? ((v) == FACTOR_UPDATE_TYPE_ETA || (v) == FACTOR_UPDATE_TYPE_FT) : \
   (p) == SIMPLIFIER ? SIMPLIFIER_VALUE_OK(v) : \
   (p) == SCALER ? ((v) == SCALER_OFF || (v) == SCALER_UNIEQUI || (v) == SCALER_BIEQUI || (v) == SCALER_GEO1 || (v) == SCALER_GEO8 || (v) == SCALER_LEASTSQ || (v) == SCALER_GEOEQUI) : \
   (p) == STARTER ? ((v) == STARTER_OFF || (v) == STARTER_WEIGHT || (v) == STARTER_SUM || (v) == STARTER_VECTOR) : \
   (p) == PRICER ? ((v) == PRICER_AUTO || (v) == PRICER_DANTZIG || (v) == PRICER_PARMULT || (v) == PRICER_DEVEX || (v) == PRICER_QUICKSTEEP || (v) == PRICER_STEEP) : \
   (p) == RATIOTESTER ? ((v) == RATIOTESTER_TEXTBOOK || (v) == RATIOTESTER_HARRIS || (v) == RATIOTESTER_FAST || (v) == RATIOTESTER_BOUNDFLIPPING) : \
   (p) == SYNCMODE ? ((v) == SYNCMODE_ONLYREAL || (v) == SYNCMODE_AUTO || (v) == SYNCMODE_MANUAL) : \
   (p) == READMODE ? READMODE_VALUE_OK(v) : \
   (p) == SOLVEMODE ? SOLVEMODE_VALUE_OK(v) : \
   (p) == CHECKMODE ? ((v) == CHECKMODE_REAL || (v) == CHECKMODE_AUTO || (v) == CHECKMODE_RATIONAL) : \
   (p) == TIMER ? ((v) == TIMER_OFF || (v) == TIMER_CPU || (v) == TIMER_WALLCLOCK) : \
   (p) == HYPER_PRICING ? ((v) == HYPER_PRICING_OFF || (v) == HYPER_PRICING_AUTO || (v) == HYPER_PRICING_ON) : \
   (p) == SOLUTION_POLISHING ? ((v) == POLISHING_OFF || (v) == POLISHING_INTEGRALITY || (v) == POLISHING_FRACTIONALITY) : 1)
#define SHORTCUT (!init && value == v_ipold)
#define CH (RET && !SHORTCUT)
#define LPSENSE (lpsense > 0 ? MAXIMIZE : MINIMIZE)
/* parameters that only store the value */
#define PASSIVE(p) ((p) == REPRESENTATION || (p) == ALGORITHM || (p) == ITERLIMIT || (p) == REFLIMIT || (p) == STALLREFLIMIT || (p) == READMODE || \
   (p) == SOLVEMODE || (p) == CHECKMODE || (p) == HYPER_PRICING || (p) == RATFAC_MINSTALLS || (p) == MULTIPRECISION_LIMIT)
int w_setInt(int* vals, const int* lower, const int* upper, int param, int value, int init,
             int simp_in, int scaler_in, int starter_in, int ratlp_in, int lpsense)
__CPROVER_requires(__CPROVER_is_fresh(vals, INTPARAM_COUNT * sizeof(int)) && __CPROVER_is_fresh(lower, INTPARAM_COUNT * sizeof(int)) &&
                   __CPROVER_is_fresh(upper, INTPARAM_COUNT * sizeof(int)))
__CPROVER_requires(0 <= param && param < INTPARAM_COUNT && 0 <= init && init <= 1 && lower[param] <= upper[param])
/* class invariant of Settings, needed for the early return on an unchanged value: the stored value is admissible */
__CPROVER_requires(!init ==> (IN_RANGE(param, vals[param]) && ENUM_OK(param, vals[param])))
__CPROVER_requires(0 <= g_k && g_k < INTPARAM_COUNT && v_iold == vals[g_k] && v_ipold == vals[param])
__CPROVER_requires(PTR_IN_OK && COUNTERS_ZERO && (lpsense == 1 || lpsense == -1))
__CPROVER_assigns(GHOST_ASSIGNS, __CPROVER_object_whole(vals))
__CPROVER_ensures(RET == 0 || RET == 1)
/* rejected => no mutator was called, no value changed, no switchable pointer changed - the simplifier pointers included
 * (SIMPLIFIER_PAPILO in a build without PaPILO is rejected without side effect) */
__CPROVER_ensures(RET == 0 ==> (g_mut == 0 && NO_LP_MUTATION && vals[g_k] == v_iold && ALL_PTRS_BUT_SIMPLIFIER_SAME && SIMPLIFIER_PTRS_SAME))
/* accepted => stored == argument, inside [lower, upper], and one of the enumerators where the parameter is enumerated */
__CPROVER_ensures(RET == 1 ==> (vals[param] == value && IN_RANGE(param, value) && ENUM_OK(param, value)))
__CPROVER_ensures(g_k != param ==> vals[g_k] == v_iold)
/* exactly the admissible values are accepted */
__CPROVER_ensures(RET == 1 <==> (SHORTCUT || (IN_RANGE(param, value) && ENUM_OK(param, value))))
/* unchanged value without init: nothing is notified */
__CPROVER_ensures(SHORTCUT ==> (g_mut == 0 && NO_LP_MUTATION && ALL_PTRS_BUT_SIMPLIFIER_SAME && SIMPLIFIER_PTRS_SAME))
/* the stored LP: only OBJSENSE changes it (objective sense of both LPs); the only other LP call is SYNCMODE_MANUAL copying the
 * real LP's sense into the rational LP */
__CPROVER_ensures(g_lcnt[L_real_changeObjOffset] == 0 && g_lcnt[L_rat_changeObjOffset] == 0)
__CPROVER_ensures(g_lcnt[L_real_changeSense] > 0 ==> param == OBJSENSE)
__CPROVER_ensures(g_lcnt[L_rat_changeSense] > 0 ==> (param == OBJSENSE || (param == SYNCMODE && value == SYNCMODE_MANUAL && g_liarg[L_rat_changeSense] == LPSENSE)))
__CPROVER_ensures(g_lpmut == g_lcnt[L_real_changeSense] + g_lcnt[L_rat_changeSense])
__CPROVER_ensures((CH && param == OBJSENSE) ==> (g_lcnt[L_real_changeSense] == 1 && g_liarg[L_real_changeSense] == (value == OBJSENSE_MAXIMIZE ? MAXIMIZE : MINIMIZE) &&
                   g_lcnt[L_rat_changeSense] == ratlp_in && (ratlp_in ==> g_liarg[L_rat_changeSense] == (value == OBJSENSE_MAXIMIZE ? MAXIMIZE : MINIMIZE)) &&
                   g_mut == 1 && g_cnt[M_host_invalidateSolution] == 1))
/* switchable pointers: frame and new target */
__CPROVER_ensures(param != SIMPLIFIER ==> SIMPLIFIER_PTRS_SAME)
__CPROVER_ensures(param != SCALER ==> (SAMEPTR(P_scaler) && SAMEPTR(P_bscaler)))
__CPROVER_ensures(param != STARTER ==> SAMEPTR(P_starter))
__CPROVER_ensures(param != SYNCMODE ==> SAMEPTR(P_rationalLP))
__CPROVER_ensures((CH && param == SIMPLIFIER) ==> (g_ptr1[P_simplifier] == (value == SIMPLIFIER_OFF ? 0 : value == SIMPLIFIER_AUTO ? SIMPLIFIER_INTERNAL : value) &&
                   g_ptr1[P_bsimplifier] == g_ptr1[P_simplifier] &&
                   (value == SIMPLIFIER_OFF ? g_mut == 0 : (g_mut == 2 && ONE(M_simp_setTolerances, g_ptr1[P_simplifier]) && ONE(M_bsimp_setTolerances, g_ptr1[P_simplifier]) &&
                    g_iarg2[M_simp_setTolerances] == 1 && g_iarg2[M_bsimp_setTolerances] == 1))))
__CPROVER_ensures((CH && param == SCALER) ==> (g_ptr1[P_scaler] == value && g_ptr1[P_bscaler] == value &&
                   (value == SCALER_OFF ? g_mut == 0 : (g_mut == 2 && ONE(M_scaler_setTolerances, value) && ONE(M_bscaler_setTolerances, value) &&
                    g_iarg2[M_scaler_setTolerances] == 1 && g_iarg2[M_bscaler_setTolerances] == 1))))
__CPROVER_ensures((CH && param == STARTER) ==> (g_ptr1[P_starter] == value && ONE(M_solver_setStarter, value) && g_iarg2[M_solver_setStarter] == 0 &&
                   (value == STARTER_OFF ? g_mut == 1 : (g_mut == 2 && ONE(M_starter_setTolerances, value) && g_iarg2[M_starter_setTolerances] == 1))))
__CPROVER_ensures((CH && param == SYNCMODE && value == SYNCMODE_ONLYREAL) ==> (g_ptr1[P_rationalLP] == 0 &&
                   (ratlp_in ? (g_mut == 2 && g_cnt[M_ratlp_destroy] == 1 && g_cnt[M_ratlp_free] == 1) : g_mut == 0)))
__CPROVER_ensures((CH && param == SYNCMODE && value == SYNCMODE_AUTO) ==> (SAMEPTR(P_rationalLP) &&
                   (v_ipold == SYNCMODE_ONLYREAL ? (g_mut == 1 && g_cnt[M_host_syncLPRational] == 1) : g_mut == 0)))
__CPROVER_ensures((CH && param == SYNCMODE && value == SYNCMODE_MANUAL) ==> (g_ptr1[P_rationalLP] == 1 && g_mut == 1 && g_cnt[M_host_ensureRationalLP] == 1 &&
                   g_lcnt[L_rat_changeSense] == 1 && g_liarg[L_rat_changeSense] == LPSENSE))
/* notified sub-objects, one line per parameter of the switch */
__CPROVER_ensures((CH && PASSIVE(param)) ==> g_mut == 0)
__CPROVER_ensures((CH && param == FACTOR_UPDATE_TYPE) ==> (g_mut == 1 && ONE(M_slu_setUtype, value == FACTOR_UPDATE_TYPE_ETA ? ETA : FOREST_TOMLIN)))
__CPROVER_ensures((CH && param == FACTOR_UPDATE_MAX) ==> (g_mut == 1 && ONE(M_solver_setMaxUpdates, value == 0 ? SOPLEX_REFACTOR_INTERVAL : value)))
__CPROVER_ensures((CH && param == DISPLAYFREQ) ==> (g_mut == 1 && ONE(M_solver_setDisplayFreq, value)))
__CPROVER_ensures((CH && param == VERBOSITY) ==> ((VERBOSITY_ERROR <= value && value <= VERBOSITY_FULL) ? (g_mut == 1 && ONE(M_spxout_setVerbosity,
                   value == VERBOSITY_ERROR ? ERROR : value == VERBOSITY_WARNING ? WARNING : value == VERBOSITY_DEBUG ? DEBUG : value == VERBOSITY_NORMAL ? INFO1 :
                   value == VERBOSITY_HIGH ? INFO2 : INFO3)) : g_mut == 0))
__CPROVER_ensures((CH && param == PRICER) ==> (g_mut == 2 && ONE(M_solver_setPricer, value) && ONE(M_bsolver_setPricer, value) &&
                   g_iarg2[M_solver_setPricer] == 0 && g_iarg2[M_bsolver_setPricer] == 0))
__CPROVER_ensures((CH && param == RATIOTESTER) ==> (g_mut == 2 && ONE(M_solver_setTester, value) && ONE(M_bsolver_setTester, value) &&
                   g_iarg2[M_solver_setTester] == 0 && g_iarg2[M_bsolver_setTester] == 0))
__CPROVER_ensures((CH && param == TIMER) ==> (g_mut == 1 && ONE(M_solver_setTiming, value == TIMER_OFF ? OFF : value == TIMER_CPU ? USER_TIME : WALLCLOCK_TIME)))
__CPROVER_ensures((CH && param == LEASTSQ_MAXROUNDS) ==> (g_ptr0[P_scaler] != 0 ? (g_mut == 1 && ONE(M_scaler_setIntParam, value) && g_iarg2[M_scaler_setIntParam] == g_ptr0[P_scaler]) : g_mut == 0))
__CPROVER_ensures((CH && param == SOLUTION_POLISHING) ==> (g_mut == 1 && ONE(M_solver_setSolutionPolishing,
                   value == POLISHING_OFF ? POLISH_OFF : value == POLISHING_INTEGRALITY ? POLISH_INTEGRALITY : POLISH_FRACTIONALITY)))
__CPROVER_ensures((CH && param == PRINTBASISMETRIC) ==> (g_mut == 1 && ONE(M_solver_setMetricInformation, value)))
__CPROVER_ensures((CH && param == STATTIMER) ==> (g_mut == 1 && ONE(M_host_setTimings, value)))
__CPROVER_ensures((CH && param == STORE_BASIS_SIMPLEX_FREQ) ==> (g_mut == 2 && ONE(M_solver_setStoreBasisFreq, value) && ONE(M_bsolver_setStoreBasisFreq, value)))
;
void h_setInt(void)
{
   int* vals; const int* lower; const int* upper; int param, value, init, simp_in, scaler_in, starter_in, ratlp_in, lpsense;
   havoc_ghosts();
   w_setInt(vals, lower, upper, param, value, init, simp_in, scaler_in, starter_in, ratlp_in, lpsense);
   CANARY();
}
#endif

/* ------------------------------------------------------------------------------------------------------------- */
#ifdef INST_REAL
/* stated so that NaN fails (DESIGN.md 6.6) */
#define IN_RANGE(p, v) ((v) >= lower[p] && (v) <= upper[p])
#define SHORTCUT (!init && value == v_dpold)
#define CH (RET && !SHORTCUT)
#ifdef SOPLEX_WITH_PAPILO
#define BUILD_LOCKED(p) 0
#else
#define BUILD_LOCKED(p) ((p) == SIMPLIFIER_MODIFYROWFAC)
#endif
#define PASSIVE(p) ((p) == TIMELIMIT || (p) == LIFTMINVAL || (p) == LIFTMAXVAL || (p) == SPARSITY_THRESHOLD || (p) == REPRESENTATION_SWITCH || \
   (p) == RATREC_FREQ || (p) == MINRED || (p) == REFAC_BASIS_NNZ || (p) == REFAC_UPDATE_FILL || (p) == REFAC_MEM_FACTOR || (p) == PRECISION_BOOSTING_FACTOR)
int w_setReal(double* vals, const double* lower, const double* upper, int* ivals, int param, double value, int init,
              int simp_in, int scaler_in, int starter_in, int ratlp_in, int reallp_in)
__CPROVER_requires(__CPROVER_is_fresh(vals, REALPARAM_COUNT * sizeof(double)) && __CPROVER_is_fresh(lower, REALPARAM_COUNT * sizeof(double)) &&
                   __CPROVER_is_fresh(upper, REALPARAM_COUNT * sizeof(double)) && __CPROVER_is_fresh(ivals, INTPARAM_COUNT * sizeof(int)))
__CPROVER_requires(0 <= param && param < REALPARAM_COUNT && 0 <= init && init <= 1 && lower[param] <= upper[param])
/* class invariant of Settings: the stored value is inside its range */
__CPROVER_requires(!init ==> IN_RANGE(param, vals[param]))
__CPROVER_requires(0 <= g_k && g_k < REALPARAM_COUNT && SAMED(v_dold, vals[g_k]) && SAMED(v_dpold, vals[param]))
__CPROVER_requires(PTR_IN_OK && COUNTERS_ZERO && 0 <= reallp_in && reallp_in <= 1)
__CPROVER_assigns(GHOST_ASSIGNS, __CPROVER_object_whole(vals))
__CPROVER_ensures(RET == 0 || RET == 1)
/* rejected => no mutator was called and no value changed */
__CPROVER_ensures(RET == 0 ==> (g_mut == 0 && NO_LP_MUTATION && SAMED(vals[g_k], v_dold)))
/* accepted => the getter returns the argument (bit for bit) */
__CPROVER_ensures(RET == 1 ==> (SAMED(vals[param], value) || (SHORTCUT && vals[param] == value)))
__CPROVER_ensures(g_k != param ==> SAMED(vals[g_k], v_dold))
/* every value inside the range is accepted (unless the build lacks PaPILO and the value would change) */
__CPROVER_ensures((IN_RANGE(param, value) && !BUILD_LOCKED(param)) ==> RET == 1)
__CPROVER_ensures((IN_RANGE(param, value) && BUILD_LOCKED(param)) ==> RET == (value == v_dpold))
/* accepted => the value is inside [lower, upper]; stated with IN_RANGE so that NaN must be rejected (DESIGN.md 6.6). The stored
 * value is inside its range, so the early return on an unchanged value cannot accept anything outside */
__CPROVER_ensures(RET == 1 ==> IN_RANGE(param, value))
__CPROVER_ensures(value != value ==> RET == 0)
/* no real parameter re-targets a sub-object pointer */
__CPROVER_ensures(ALL_PTRS_BUT_SIMPLIFIER_SAME && SIMPLIFIER_PTRS_SAME)
__CPROVER_ensures(SHORTCUT ==> (g_mut == 0 && NO_LP_MUTATION))
/* the stored LP: only OBJ_OFFSET changes it (objective offset of both LPs, where present) */
__CPROVER_ensures(g_lcnt[L_real_changeSense] == 0 && g_lcnt[L_rat_changeSense] == 0)
__CPROVER_ensures(g_lpmut > 0 ==> param == OBJ_OFFSET)
__CPROVER_ensures((CH && param == OBJ_OFFSET) ==> (g_mut == 0 && g_lpmut == reallp_in + ratlp_in &&
                   g_lcnt[L_real_changeObjOffset] == reallp_in && (reallp_in ==> SAMED(g_ldarg[L_real_changeObjOffset], value)) &&
                   g_lcnt[L_rat_changeObjOffset] == ratlp_in && (ratlp_in ==> SAMED(g_ldarg[L_rat_changeObjOffset], value))))
/* notified sub-objects, one line per parameter of the switch (pinned build: Boost + GMP) */
__CPROVER_ensures((CH && PASSIVE(param)) ==> g_mut == 0)
#if defined(SOPLEX_WITH_BOOST) && defined(SOPLEX_WITH_GMP)
__CPROVER_ensures((CH && param == FEASTOL) ==> (g_mut == 2 && ONED(M_rat_Feastol, value) && ONED(M_tol_setFeastol, value)))
__CPROVER_ensures((CH && param == OPTTOL) ==> (g_mut == 2 && ONED(M_rat_Opttol, value) && ONED(M_tol_setOpttol, value)))
#endif
__CPROVER_ensures((CH && param == EPSILON_ZERO) ==> (g_mut == 1 && ONED(M_tol_setEpsilon, value)))
__CPROVER_ensures((CH && param == EPSILON_FACTORIZATION) ==> (g_mut == 1 && ONED(M_tol_setEpsilonFactorization, value)))
__CPROVER_ensures((CH && param == EPSILON_UPDATE) ==> (g_mut == 1 && ONED(M_tol_setEpsilonUpdate, value)))
__CPROVER_ensures((CH && param == EPSILON_PIVOT) ==> (g_mut == 1 && ONED(M_tol_setEpsilonPivot, value)))
#ifdef SOPLEX_WITH_BOOST
__CPROVER_ensures((CH && param == INFTY) ==> (ONED(M_rat_PosInfty, value) && g_cnt[M_rat_NegInfty] == 2 && SAMED(g_darg[M_rat_NegInfty], -value) &&
                   g_cnt[M_host_recomputeRangeTypesRational] == (ivals[SYNCMODE] != SYNCMODE_ONLYREAL) && g_mut == 3 + g_cnt[M_host_recomputeRangeTypesRational]))
#endif
__CPROVER_ensures((CH && (param == OBJLIMIT_LOWER || param == OBJLIMIT_UPPER)) ==> (g_mut == 1 && ONE(M_solver_toggleTerminationValue, 1)))
__CPROVER_ensures((CH && param == FPFEASTOL) ==> (g_mut == 1 && ONED(M_tol_setFloatingPointFeastol, value)))
__CPROVER_ensures((CH && param == FPOPTTOL) ==> (g_mut == 1 && ONED(M_tol_setFloatingPointOpttol, value)))
__CPROVER_ensures((CH && param == MAXSCALEINCR) ==> (g_mut == 1 && ONED(M_rat_Maxscaleincr, value)))
__CPROVER_ensures((CH && param == LEASTSQ_ACRCY) ==> (g_ptr0[P_scaler] != 0 ? (g_mut == 1 && ONED(M_scaler_setRealParam, value) && g_iarg2[M_scaler_setRealParam] == g_ptr0[P_scaler]) : g_mut == 0))
__CPROVER_ensures((CH && param == MIN_MARKOWITZ) ==> (g_mut == 1 && ONED(M_slu_setMarkowitz, value)))
#ifndef SOPLEX_WITH_PAPILO
__CPROVER_ensures(param == SIMPLIFIER_MODIFYROWFAC ==> g_mut == 0)
#endif
;
void h_setReal(void)
{
   double* vals; const double* lower; const double* upper; int* ivals; int param; double value; int init, simp_in, scaler_in, starter_in, ratlp_in, reallp_in;
   havoc_ghosts();
   w_setReal(vals, lower, upper, ivals, param, value, init, simp_in, scaler_in, starter_in, ratlp_in, reallp_in);
   CANARY();
}
#endif
