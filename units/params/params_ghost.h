/* Ghost state shared by unit.cpp (C++) and contract.c (C) of the C15 unit `params`.
 * Every mutator of a stubbed sub-object of SoPlexBase<R> records itself here:
 *   g_mut            total number of recorded NON-LP mutator calls
 *   g_cnt[code]      number of calls of that mutator, g_iarg/g_darg[code] its last argument
 *   g_lpmut          total number of LP mutator calls (real + rational LP)
 *   g_lcnt[code]     ... per LP mutator, g_liarg/g_ldarg its last argument
 * The counters start at 0 (C globals, not havoc'd by the harness). */
#ifndef PARAMS_GHOST_H
#define PARAMS_GHOST_H
enum
{
   M_solver_useFullPerturbation, M_solver_setMaxUpdates, M_solver_setDisplayFreq, M_solver_setStarter, M_solver_setPricer,
   M_solver_setTester, M_solver_setTiming, M_solver_setSolutionPolishing, M_solver_setMetricInformation,
   M_solver_setStoreBasisFreq, M_solver_toggleTerminationValue,
   M_bsolver_setPricer, M_bsolver_setTester, M_bsolver_setStoreBasisFreq,
   M_slu_setUtype, M_slu_setMarkowitz,
   M_spxout_setVerbosity,
   M_simp_setTolerances, M_bsimp_setTolerances,
   M_scaler_setTolerances, M_bscaler_setTolerances, M_scaler_setIntParam, M_scaler_setRealParam,
   M_starter_setTolerances,
   M_rt_useBoundFlipsRow,
   M_tol_setFeastol, M_tol_setOpttol, M_tol_setEpsilon, M_tol_setEpsilonFactorization, M_tol_setEpsilonUpdate,
   M_tol_setEpsilonPivot, M_tol_setFloatingPointFeastol, M_tol_setFloatingPointOpttol,
   M_host_invalidateSolution, M_host_syncLPRational, M_host_ensureRationalLP, M_host_recomputeRangeTypesRational,
   M_host_setTimings,
   M_rat_PosInfty, M_rat_NegInfty, M_rat_Feastol, M_rat_Opttol, M_rat_Maxscaleincr,
   M_ratlp_destroy, M_ratlp_free,
   M_papilo_set,
   M_COUNT
};
enum { L_real_changeSense, L_real_changeObjOffset, L_rat_changeSense, L_rat_changeObjOffset, L_COUNT };
/* sub-object pointers of the host whose targets are switched by setIntParam (value 0 = nullptr, otherwise the id of
 * the member object pointed to; ids are the enumerators of the parameter value that selects the object) */
enum { P_simplifier, P_bsimplifier, P_scaler, P_bscaler, P_starter, P_rationalLP, P_COUNT };

#ifdef __cplusplus
extern "C" {
#endif
extern int g_mut, g_lpmut;
extern int g_cnt[M_COUNT], g_iarg[M_COUNT], g_iarg2[M_COUNT];
extern double g_darg[M_COUNT];
extern int g_lcnt[L_COUNT], g_liarg[L_COUNT];
extern double g_ldarg[L_COUNT];
extern int g_ptr0[P_COUNT], g_ptr1[P_COUNT];
#ifdef __cplusplus
}
#endif
#endif
