/* Native replay for units/params: runs the REAL SoPlexBase<double> setters (header templates of the current tree + the
 * non-template library sources) on the counterexample inputs and evaluates the natively observable clauses:
 *   setRealParam   accepted ==> lower <= value <= upper, NaN outside (a crash inside the setter counts as a violation);
 *                  rejected ==> the stored value is unchanged
 *   setIntParam    rejected ==> the simplifier in use (getSimplifierName) and the stored value are unchanged
 * (the sub-object notifications of the contracts are not observable from outside: a counterexample against those clauses
 * replays as "not reproduced").
 * The range tables are the real static tables of the tree. */
#include "replay_util.h"
#include "soplex.h"
#include <csignal>
#include <cstring>
#include <cmath>
using namespace soplex;

static void on_fpe(int)
{
   const char msg[] = "REPLAY: real code violates: the setter accepted the value and crashed (SIGFPE in the rational conversion)\n";
   if(write(1, msg, sizeof(msg) - 1)) {}
   _exit(1);
}
int main(int argc, char** argv)
{
   if(argc < 3) return 2;
   ReplayIn in(argv[1]);
   std::string inst = argv[2];
   SoPlex s;
   s.setIntParam(SoPlex::VERBOSITY, 0);
   int param = (int)in.geti("param", 0);
   bool init = in.geti("init", 1) != 0;
   if(inst == "setRealParam" || inst == "setRealParam_accepted_in_range")
   {
      if(param < 0 || param >= SoPlex::REALPARAM_COUNT) return 2;
      std::string vs = in.kv.count("value") ? in.kv["value"] : "nan";
      double value = (vs.find("NaN") != std::string::npos || vs.find("NAN") != std::string::npos || vs.find("nan") != std::string::npos) ? std::nan("") : atof(vs.c_str());
      double lo = s.settings().realParam.lower[param], up = s.settings().realParam.upper[param];
      signal(SIGFPE, on_fpe);
      double stored = s.realParam((SoPlex::RealParam)param);
      bool r = s.setRealParam((SoPlex::RealParam)param, value, init);
      std::cout << "setRealParam(" << param << ", " << value << ", init=" << init << ") -> " << r << ", stored " << s.realParam((SoPlex::RealParam)param)
                << ", range [" << lo << ", " << up << "]" << std::endl;
      if(r && !(value >= lo && value <= up))
         REPLAY_FAIL("setRealParam accepted a value that is not inside [lower, upper]");
      double now = s.realParam((SoPlex::RealParam)param);
      if(!r && memcmp(&stored, &now, sizeof(double)) != 0)
         REPLAY_FAIL("setRealParam returned false but changed the stored value");
      REPLAY_OK();
   }
   if(inst == "setIntParam" || inst == "setIntParam_reject_simplifier_ptr")
   {
      if(param < 0 || param >= SoPlex::INTPARAM_COUNT) return 2;
      int value = (int)in.geti("value", 0);
      if(in.geti("simp_in", 0) == 0)
         s.setIntParam(SoPlex::SIMPLIFIER, SoPlex::SIMPLIFIER_OFF);
      std::string before = s.getSimplifierName();
      int stored = s.intParam((SoPlex::IntParam)param);
      bool r = s.setIntParam((SoPlex::IntParam)param, value, init);
      std::string after = s.getSimplifierName();
      std::cout << "setIntParam(" << param << ", " << value << ", init=" << init << ") -> " << r << ", simplifier " << before << " -> " << after
                << ", intParam(SIMPLIFIER) = " << s.intParam(SoPlex::SIMPLIFIER) << std::endl;
      if(!r && before != after)
         REPLAY_FAIL("setIntParam returned false but changed the simplifier in use");
      if(!r && stored != s.intParam((SoPlex::IntParam)param))
         REPLAY_FAIL("setIntParam returned false but changed the stored value");
      REPLAY_OK();
   }
   std::cout << "no native replay for instance " << inst << std::endl;
   return 0;
}
