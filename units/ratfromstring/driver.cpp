/* Bounded stand-in for C12 (NOT a proof): calls the REAL soplex::ratFromString (rational.h of the current tree) on every
 * literal of the property's grammar up to a length bound and compares the result, as an exact fraction, with an
 * independent parser (GMP integers: value = sign * mantissa * 10^(exponent - #fraction digits)).
 *
 * grammar (alphabet + - . e E / 0 1 5 9):
 *    decimal  :=  sign? ( D+ ( '.' D* )? | '.' D+ ) ( [eE] sign? D+ )?       (the tokens the LP scanner LPFreadValue hands over
 *    fraction :=  sign? D+ '/' D+      with a non-zero denominator             when it saw a digit and no empty exponent/divisor)
 * usage: driver <L>      prints one JSON line. */
#include "soplex/rational.h"
#include <gmp.h>
#include <csetjmp>
#include <csignal>
#include <cstdio>
#include <cstring>
#include <string>
#include <vector>
#include <algorithm>
#include <sstream>

using soplex::Rational;
using soplex::Integer;

static const char ALPHA[] = "+-.eE/0159";
static sigjmp_buf jb;
static volatile sig_atomic_t in_call = 0;
static void on_signal(int sig)
{
   if(in_call)
      siglongjmp(jb, sig);
   _exit(70);
}

/* ---------- independent recogniser: state machine over the grammar (used to prune the enumeration) ---------- */
enum St { S0, SIGN, INT, DOT0 /* '.' with no int digits */, FRAC0 /* "D+." */, FRAC, E0, ESIGN, EXP, SL0, DEN, DEAD };
static St step(St s, char c)
{
   bool d = (c >= '0' && c <= '9'), sg = (c == '+' || c == '-'), e = (c == 'e' || c == 'E');
   switch(s)
   {
   case S0:    return sg ? SIGN : d ? INT : c == '.' ? DOT0 : DEAD;
   case SIGN:  return d ? INT : c == '.' ? DOT0 : DEAD;
   case INT:   return d ? INT : c == '.' ? FRAC0 : e ? E0 : c == '/' ? SL0 : DEAD;
   case DOT0:  return d ? FRAC : DEAD;
   case FRAC0: return d ? FRAC : e ? E0 : DEAD;
   case FRAC:  return d ? FRAC : e ? E0 : DEAD;
   case E0:    return sg ? ESIGN : d ? EXP : DEAD;
   case ESIGN: return d ? EXP : DEAD;
   case EXP:   return d ? EXP : DEAD;
   case SL0:   return d ? DEN : DEAD;
   case DEN:   return d ? DEN : DEAD;
   default:    return DEAD;
   }
}
static bool accepting(St s) { return s == INT || s == FRAC0 || s == FRAC || s == EXP || s == DEN; }

/* ---------- independent exact parser ---------- */
struct Expect { mpz_t num, den; long e10; /* value = num/den * 10^e10, den > 0 */ };
static bool parse_exact(const std::string& s, Expect& x)
{
   size_t i = 0;
   int sign = 1;
   if(s[i] == '+' || s[i] == '-') { if(s[i] == '-') sign = -1; i++; }
   std::string digs;
   long nfrac = 0, ex = 0;
   while(i < s.size() && isdigit((unsigned char)s[i])) digs += s[i++];
   if(i < s.size() && s[i] == '/')
   {
      std::string den = s.substr(i + 1);
      mpz_set_str(x.num, digs.c_str(), 10);
      mpz_set_str(x.den, den.c_str(), 10);
      if(mpz_sgn(x.den) == 0) return false;        /* not a number */
      if(sign < 0) mpz_neg(x.num, x.num);
      x.e10 = 0;
      return true;
   }
   if(i < s.size() && s[i] == '.')
   {
      i++;
      while(i < s.size() && isdigit((unsigned char)s[i])) { digs += s[i++]; nfrac++; }
   }
   if(i < s.size() && (s[i] == 'e' || s[i] == 'E'))
   {
      i++;
      int es = 1;
      if(s[i] == '+' || s[i] == '-') { if(s[i] == '-') es = -1; i++; }
      long v = 0;
      while(i < s.size() && isdigit((unsigned char)s[i])) v = 10 * v + (s[i++] - '0');
      ex = es * v;
   }
   mpz_set_str(x.num, digs.c_str(), 10);
   if(sign < 0) mpz_neg(x.num, x.num);
   mpz_set_ui(x.den, 1);
   x.e10 = ex - nfrac;
   return true;
}

/* got = gn/gd (gd != 0) equals expected?  cross multiplication; for astronomically large |e10| a size argument avoids
 * building 10^|e10|: a non-zero expected value then has > 3*|e10| bits in numerator or denominator of ANY representation */
static bool equal_exact(const mpz_t gn, const mpz_t gd, const Expect& x)
{
   if(mpz_sgn(x.num) == 0) return mpz_sgn(gn) == 0;
   if(mpz_sgn(gn) == 0) return false;
   long a = x.e10 < 0 ? -x.e10 : x.e10;
   if(a > 4000)
   {
      size_t bits = mpz_sizeinbase(gn, 2) + mpz_sizeinbase(gd, 2) + mpz_sizeinbase(x.num, 2) + mpz_sizeinbase(x.den, 2);
      if(bits < (size_t)(3 * a)) return false;
   }
   mpz_t l, r, p;
   mpz_inits(l, r, p, NULL);
   mpz_ui_pow_ui(p, 10, (unsigned long)a);
   mpz_mul(l, gn, x.den);            /* gn * den * 10^max(0,-e)  ==  num * 10^max(0,e) * gd */
   mpz_mul(r, x.num, gd);
   if(x.e10 < 0) mpz_mul(l, l, p); else mpz_mul(r, r, p);
   bool eq = mpz_cmp(l, r) == 0;
   mpz_clears(l, r, p, NULL);
   return eq;
}

static std::string clip(const std::string& s) { return s.size() > 90 ? s.substr(0, 60) + "...(" + std::to_string(s.size()) + " chars)" : s; }
static std::string show(const Expect& x)
{
   char* n = mpz_get_str(0, 10, x.num); char* d = mpz_get_str(0, 10, x.den);
   std::string s = std::string(n) + (strcmp(d, "1") ? std::string("/") + d : std::string());
   if(x.e10) s += " * 10^" + std::to_string(x.e10);
   free(n); free(d);
   return s;
}

struct Fail { std::string lit, got, exp, cls; };
static std::vector<Fail> fails;
static long cases = 0;
static Expect X;

static void check(const std::string& s)
{
   if(!parse_exact(s, X)) return;                   /* n/0 */
   cases++;
   std::string got;
   bool ok = false;
   int sig;
   in_call = 1;
   if((sig = sigsetjmp(jb, 1)) == 0)
   {
      try
      {
         Rational r = soplex::ratFromString(s.c_str());      /* the real function */
         in_call = 0;
         Integer n = numerator(r), d = denominator(r);
         if(mpz_sgn(d.backend().data()) == 0) got = "denominator 0";
         else
         {
            ok = equal_exact(n.backend().data(), d.backend().data(), X);
            if(!ok) { std::ostringstream o; o << r; got = clip(o.str()); }
         }
      }
      catch(const std::exception& e) { in_call = 0; got = std::string("exception: ") + clip(e.what()); }
      catch(...) { in_call = 0; got = "exception (unknown type)"; }
   }
   else
   {
      in_call = 0;
      got = std::string("process killed by signal ") + (sig == SIGFPE ? "SIGFPE" : sig == SIGSEGV ? "SIGSEGV" : sig == SIGABRT ? "SIGABRT" : std::to_string(sig));
   }
   if(!ok)
   {
      Fail f; f.lit = s; f.got = got; f.exp = show(X);
      size_t e = s.find_first_of("eE");
      f.cls = got.compare(0, 7, "process") == 0 ? "crash" : got.compare(0, 9, "exception") == 0 ? "exception"
              : (e != std::string::npos && s[e + 1] == '-') ? "negexp" : (e != std::string::npos) ? "posexp" : "other";
      fails.push_back(f);
   }
}

static void rec(std::string& s, St st, int L)
{
   if(accepting(st)) check(s);
   if((int)s.size() == L) return;
   for(const char* c = ALPHA; *c; ++c)
   {
      St n = step(st, *c);
      if(n == DEAD) continue;
      s.push_back(*c); rec(s, n, L); s.pop_back();
   }
}

static std::string jesc(const std::string& s)
{
   std::string o;
   for(char c : s) { if(c == '"' || c == '\\') { o += '\\'; o += c; } else if((unsigned char)c < 32) o += ' '; else o += c; }
   return o;
}

int main(int argc, char** argv)
{
   int L = argc > 1 ? atoi(argv[1]) : 6;
   mpz_inits(X.num, X.den, NULL);
   signal(SIGFPE, on_signal); signal(SIGSEGV, on_signal); signal(SIGABRT, on_signal);
   std::string s;
   rec(s, S0, L);
   /* stable order: shortest literal first, then the order of the alphabet "+-.eE/0159" (lower-case e before E) */
   std::sort(fails.begin(), fails.end(), [](const Fail& a, const Fail& b)
   {
      if(a.lit.size() != b.lit.size()) return a.lit.size() < b.lit.size();
      for(size_t i = 0; i < a.lit.size(); i++)
         if(a.lit[i] != b.lit[i]) return strchr(ALPHA, a.lit[i]) < strchr(ALPHA, b.lit[i]);
      return false;
   });
   /* at most 10 reported: the first of every class (so that no class of failure hides behind another), then in order */
   std::vector<int> pick;
   const char* classes[] = {"negexp", "posexp", "crash", "exception", "other"};
   size_t quota[] = {4, 2, 2, 2, 2};
   std::vector<char> used(fails.size(), 0);
   for(int c = 0; c < 5; c++)
   {
      size_t k = 0;
      for(size_t i = 0; i < fails.size() && k < quota[c]; i++)
         if(fails[i].cls == classes[c]) { pick.push_back((int)i); used[i] = 1; k++; }
   }
   for(size_t i = 0; i < fails.size() && pick.size() < 10; i++) if(!used[i]) { pick.push_back((int)i); used[i] = 1; }
   std::sort(pick.begin(), pick.end());
   if(pick.size() > 10) pick.resize(10);
   std::string out = "{\"status\":\"";
   out += fails.empty() ? "pass" : "fail";
   out += "\",\"cases\":" + std::to_string(cases) + ",\"bound\":\"all grammar strings up to length " + std::to_string(L) + " over +-.eE/0159\"";
   out += ",\"grammar\":\"sign? (D+ (. D*)? | . D+) ([eE] sign? D+)?  |  sign? D+ / D+ (denominator != 0)\"";
   out += ",\"failure_count\":" + std::to_string(fails.size()) + ",\"failure_classes\":{";
   for(int c = 0; c < 5; c++)
   {
      long n = 0; for(const Fail& f : fails) if(f.cls == classes[c]) n++;
      out += std::string(c ? "," : "") + "\"" + classes[c] + "\":" + std::to_string(n);
   }
   out += "},\"failures\":[";
   for(size_t k = 0; k < pick.size(); k++)
   {
      const Fail& f = fails[pick[k]];
      out += std::string(k ? "," : "") + "{\"id\":\"ratFromString:" + jesc(f.lit) + "\",\"got\":\"" + jesc(f.got) + "\",\"expected\":\"" + jesc(f.exp) + "\",\"class\":\"" + f.cls + "\"}";
   }
   out += "]}";
   puts(out.c_str());
   return 0;
}
