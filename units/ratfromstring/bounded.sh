#!/bin/bash
# C12 bounded stand-in (NOT a proof): the real soplex::ratFromString of the CURRENT tree on every literal of the
# property's grammar up to length L (quick 6, thorough 8) against an independent exact parser.  See driver.cpp.
# usage: bounded.sh --tier quick|thorough --scratch <dir>      prints ONE JSON line on stdout.
tier=quick; scratch=/var/tmp
while [ $# -gt 0 ]; do
   case "$1" in
      --tier) tier="$2"; shift 2;;
      --scratch) scratch="$2"; shift 2;;
      *) shift;;
   esac
done
here="$(cd "$(dirname "$0")" && pwd)"
repo="${VERIF_REPO:-/repo}"
L=6; [ "$tier" = thorough ] && L=8
[ -n "$VERIF_RATFROMSTRING_L" ] && L="$VERIF_RATFROMSTRING_L"
work="$scratch/ratfromstring.$$"
machinery() { printf '{"status":"machinery","cases":0,"bound":"all grammar strings up to length %s over +-.eE/0159","failures":[],"reason":"bounded stand-in ratfromstring: %s"}\n' "$L" "$1"; rm -rf "$work"; exit 0; }
mkdir -p "$work/inc/soplex" || machinery "cannot create scratch"
[ -f "$repo/src/soplex/rational.h" ] || machinery "rational.h not found under $repo"
grep -q 'inline Rational ratFromString(const char\* desc)' "$repo/src/soplex/rational.h" || machinery "signature of ratFromString changed"
ver() { sed -n "s/.*set *( *SOPLEX_VERSION_$1 *\([0-9][0-9]*\).*/\1/p" "$repo/CMakeLists.txt" 2>/dev/null | head -1; }
{
   echo '#ifndef __SPXCONFIG_H__'; echo '#define __SPXCONFIG_H__'; echo '#define SOPLEX_BUILD_TYPE "verif-bounded"'
   for k in MAJOR MINOR PATCH; do v="$(ver $k)"; echo "#define SOPLEX_VERSION_$k ${v:-0}"; done
   echo '#define SOPLEX_WITH_BOOST'; echo '#define SOPLEX_WITH_GMP'; echo '#endif'
} > "$work/inc/soplex/config.h"
if ! timeout 600 g++ -std=c++14 -O1 -I"$work/inc" -I"$repo/src" "$here/driver.cpp" -o "$work/driver" -lgmp > "$work/cc.log" 2>&1; then
   machinery "driver does not compile against the current headers: $(tail -3 "$work/cc.log" | tr '\n"\\' "  /" | cut -c1-300)"
fi
out="$(timeout 1500 "$work/driver" "$L" 2> "$work/run.log" | tail -1)"
case "$out" in
   '{"status":'*) printf '%s\n' "$out";;
   *) machinery "driver gave no result (rc/timeout): $(tail -2 "$work/run.log" | tr '\n"\\' "  /" | cut -c1-200)";;
esac
rm -rf "$work"
exit 0
