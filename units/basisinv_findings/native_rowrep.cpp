/* Native demonstration (real SoPlex code, public interface) of three defects in the ROW-representation branches of the
 * basis queries of SoPlexBase<R> (src/soplex.hpp), property C05.
 *
 *   g++ -std=c++14 -I/repo/src -I/repo/_build native_rowrep.cpp /repo/_build/lib/libsoplex.a -lgmp -lmpfr -lz -o native_rowrep
 *
 * A 3x4 LP is solved; B is built from getBasisInd() and the user's (unscaled) columns / unit vectors of basic slacks; each
 * query is compared with B (unscale = true, i.e. answers are requested for the user's LP).
 *   D1  multBasis(vec, .)                 ROW representation, with and without scaling: result is NOT B*vec
 *   D2  getBasisInverseTimesVecReal(...)  ROW representation + persistent scaling: B*sol != rhs
 *   D3  getBasisInverseColReal(...)       ROW representation + persistent scaling: B*col != e_c
 * The same queries in COLUMN representation, and getBasisInverseRowReal / multBasisTranspose in ROW representation, agree. */
#include "soplex.h"
#include <iostream>
#include <vector>
#include <cmath>
using namespace soplex;

static const int m = 3, n = 4;
static const double A[m][n] = {{1000, 2, 0, 1}, {0.001, 1, 3, 0}, {4, 0, 100, 2}};

static bool close(double a, double b) { return std::fabs(a - b) <= 1e-9 * (1.0 + std::fabs(b)); }

static int run(int rep, int scaler, bool persistent)
{
   SoPlex sp;
   sp.setIntParam(SoPlex::VERBOSITY, 0);
   sp.setIntParam(SoPlex::REPRESENTATION, rep);
   sp.setIntParam(SoPlex::SCALER, scaler);
   sp.setBoolParam(SoPlex::PERSISTENTSCALING, persistent);
   sp.setIntParam(SoPlex::SIMPLIFIER, SoPlex::SIMPLIFIER_OFF);
   sp.setIntParam(SoPlex::OBJSENSE, SoPlex::OBJSENSE_MINIMIZE);
   const double obj[n] = {1, 2, 3, 1};
   const double lhs[m] = {10, 5, 20};
   DSVector dummy(0);
   for(int j = 0; j < n; j++)
      sp.addColReal(LPCol(obj[j], dummy, infinity, 0.0));
   for(int i = 0; i < m; i++)
   {
      DSVector row(n);
      for(int j = 0; j < n; j++)
         if(A[i][j] != 0)
            row.add(j, A[i][j]);
      sp.addRowReal(LPRow(lhs[i], row, (i == 1) ? 50.0 : infinity));
   }
   sp.optimize();
   if(!sp.hasBasis()) { std::cout << "no basis\n"; return 1; }
   std::vector<int> bind(m);
   sp.getBasisInd(bind.data());
   double B[m][m];
   for(int k = 0; k < m; k++)
      for(int i = 0; i < m; i++)
         B[i][k] = bind[k] >= 0 ? A[i][bind[k]] : ((-1 - bind[k]) == i ? 1.0 : 0.0);
   std::cout << (rep == SoPlex::REPRESENTATION_ROW ? "ROW   " : "COLUMN") << " scaler=" << scaler << " persistent=" << persistent << " bind=[";
   for(int k = 0; k < m; k++) std::cout << bind[k] << (k + 1 < m ? "," : "]");
   const bool unscale = true;
   int bad = 0;
   const char* names[5] = {"invRow", "invCol", "invTimesVec", "multBasis", "multBasisT"};
   bool ok[5] = {true, true, true, true, true};
   for(int r = 0; r < m; r++)
   {
      std::vector<double> coef(m, 0.0); std::vector<int> inds(m); int ni;
      if(!sp.getBasisInverseRowReal(r, coef.data(), inds.data(), &ni, unscale)) { ok[0] = false; continue; }
      for(int k = 0; k < m; k++) { double s = 0; for(int i = 0; i < m; i++) s += coef[i] * B[i][k]; if(!close(s, k == r)) ok[0] = false; }
   }
   for(int c = 0; c < m; c++)
   {
      std::vector<double> coef(m, 0.0); std::vector<int> inds(m); int ni;
      if(!sp.getBasisInverseColReal(c, coef.data(), inds.data(), &ni, unscale)) { ok[1] = false; continue; }
      for(int i = 0; i < m; i++) { double s = 0; for(int k = 0; k < m; k++) s += B[i][k] * coef[k]; if(!close(s, i == c)) ok[1] = false; }
   }
   const double v[m] = {1, -2, 3};
   {
      double rhs[m] = {1, -2, 3}; double sol[m];
      if(!sp.getBasisInverseTimesVecReal(rhs, sol, unscale)) ok[2] = false;
      else for(int i = 0; i < m; i++) { double s = 0; for(int k = 0; k < m; k++) s += B[i][k] * sol[k]; if(!close(s, v[i])) ok[2] = false; }
   }
   {
      double w[m] = {1, -2, 3};
      if(!sp.multBasis(w, unscale)) ok[3] = false;
      else
      {
         for(int i = 0; i < m; i++) { double s = 0; for(int k = 0; k < m; k++) s += B[i][k] * v[k]; if(!close(w[i], s)) ok[3] = false; }
         if(!ok[3])
         {
            std::cout << "\n      multBasis returned (" << w[0] << ", " << w[1] << ", " << w[2] << "), B*v = (";
            for(int i = 0; i < m; i++) { double s = 0; for(int k = 0; k < m; k++) s += B[i][k] * v[k]; std::cout << s << (i + 1 < m ? ", " : ")\n     "); }
         }
      }
   }
   {
      double w[m] = {1, -2, 3};
      if(!sp.multBasisTranspose(w, unscale)) ok[4] = false;
      else for(int k = 0; k < m; k++) { double s = 0; for(int i = 0; i < m; i++) s += B[i][k] * v[i]; if(!close(w[k], s)) ok[4] = false; }
   }
   for(int q = 0; q < 5; q++) { std::cout << "  " << names[q] << (ok[q] ? ":ok" : ":MISMATCH"); bad += !ok[q]; }
   std::cout << "\n";
   return bad;
}

int main()
{
   int bad = 0;
   for(int rep = SoPlex::REPRESENTATION_COLUMN; rep <= SoPlex::REPRESENTATION_ROW; rep++)
   {
      bad += run(rep, SoPlex::SCALER_OFF, false);
      bad += run(rep, SoPlex::SCALER_BIEQUI, false);
      bad += run(rep, SoPlex::SCALER_BIEQUI, true);
   }
   std::cout << (bad ? "MISMATCHES: " : "all agree: ") << bad << "\n";
   return bad != 0;
}
