   /* (members of DSVectorBase<T>, findings unit only) */
   typedef T R;
   typedef T S;
   void makeMem(int n) { (void)n; }
   /* REAL body of DSVectorBase<R>::add(const SVectorBase<S>& vec) (dsvectorbase.h), sliced */
   void add(const SVectorBase<T>& vec)
   {
#include "DSVector_add_vec.inc"
   }
