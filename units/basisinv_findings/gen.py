#!/usr/bin/env python3
"""Generates unit.json of the basisinv_findings unit (C05 instances that FAIL on the unchanged tree)."""
import json, os
HPP = "src/soplex.hpp"
here = os.path.dirname(os.path.abspath(__file__))
base = json.load(open(os.path.join(here, "..", "basisinv_row", "unit.json")))
def acc(name, ret, args, file=HPP, cls="SoPlexBase<R>", const=True, must=None):
    d = {"as": name + ".inc", "file": file,
         "sig": ret + r"\s+" + cls + "::" + name + r"\s*\(\s*" + args + r"\s*\)" + (r"\s*const" if const else "")}
    if must:
        d["must_contain"] = must
    return d
HELPERS = [
    acc("numRows", "int", "", must=[r"_realLP->nRows\(\)"]),
    acc("numCols", "int", "", must=[r"_realLP->nCols\(\)"]),
    {"as": "SSVector_scaleValue.inc", "file": "src/soplex/ssvectorbase.h", "sig": r"void\s+scaleValue\s*\(\s*int\s+i\s*,\s*int\s+scaleExp\s*\)"},
    {"as": "DSVector_add_vec.inc", "file": "src/soplex/dsvectorbase.h", "sig": r"void\s+add\s*\(\s*const\s+SVectorBase<S>&\s*vec\s*\)",
     "must_contain": [r"SVectorBase<R>::clear\(\);", r"SVectorBase<S>::add\(vec\);"]},
]
mult = {
    "name": "multBasis_row",
    "function": "SoPlexBase<R>::multBasis(R* vec, bool unscale)  [src/soplex.hpp, ROW-representation branch] + DSVectorBase<R>::add(const SVectorBase<S>&) [src/soplex/dsvectorbase.h]",
    "defines": {"INST_MULT_ROW": "", "SLICE": "\"multBasis_row.inc\""},
    "harness": "h_mult_row", "enforce": "w_mult_row",
    "slices": HELPERS + [{"as": "multBasis_row.inc", "file": HPP,
                          "region_start": r"int colbasisdim = numRows\(\);\s*DSVectorBase<R> y\(colbasisdim\);\s*y\.clear\(\);",
                          "region_end": r"\}\s*return true;\s*\}\s*/// multiply with transpose of basis matrix",
                          "must_contain": [r"getBasisInd\(bind\);", r"x = y;\s*std::copy\(x\.vec\(\)\.begin\(\), x\.vec\(\)\.end\(\), vec\);\s*$"]}],
    "loops": [
        {"function": r"H::body\(this\)", "loop": 0, "locals": ["i", "index", "colbasisdim"],
         "invariants": ["0<=i && i<=colbasisdim && colbasisdim==g_n",
                        "0<=*gp_ds_used && *gp_ds_used<=i && 0<=*gp_y_has && *gp_y_has<=i && 0<=g_clear_calls && g_clear_calls<=2*i+1",
                        "gp_s1[g_p]==v_xp && *gp_ds_gpos==-1",
                        "*gp_y_foreign==0",
                        "(g_p<i && v_xp!=(1LL<<41)) ? *gp_y_has>=1 : 1"],
         "assigns": ["i", "index", "*gp_ds_used", "*gp_ds_gpos", "*gp_y_has", "*gp_y_foreign", "g_clear_calls"],
         "decreases": "colbasisdim-i"},
    ],
    "min_obligations": 100, "tier": "thorough",
    # not seeded faults but the two REPAIRS, used to validate the contract: with both applied the instance must pass
    "repairs": [
        {"name": "append_instead_of_replace", "slice": "DSVector_add_vec.inc", "find": "SVectorBase<R>::clear();", "replace": "if(false) SVectorBase<R>::clear();"},
        {"name": "missing_else", "slice": "multBasis_row.inc", "find": "               y.add(x[i] * _solver.colVector(index));", "replace": "               else y.add(x[i] * _solver.colVector(index));"}],
    "mutants": [],
}
unit = {
    "property": ["C05"],
    "desc": "C05 instances that FAIL on the unchanged tree (suspected SoPlex defects in the ROW-representation branches, demonstrated natively by native_rowrep.cpp); stubs shared with units/basisinv",
    "rmode": base["rmode"],
    "defines": {"CAP": "8"}, "defines_small": {"CAP": "3"},
    "flags": ["--bounds-check", "--pointer-check", "--no-signed-overflow-check"],
    "timeout_s": 300,
    "extracts": base["extracts"],
    "conformance": [c for c in base["conformance"] if "glue" not in c["why"] and "rowVector" not in c["why"] and "kernel" not in c["why"]] + [
        {"file": "src/soplex.hpp", "regex": r"std::copy\(x\.vec\(\)\.begin\(\), x\.vec\(\)\.end\(\), vec\);\s*\}\s*return true;\s*\}\s*/// multiply with transpose of basis matrix", "why": "glue `return true;` is the last statement of multBasis"},
        {"file": "src/soplex/basevectors.h", "regex": r"DSVectorBase<R> operator\*\(R x, const SVectorBase<R>& v\)\s*\{\s*return v \* x;", "why": "scalar * sparse vector yields a new DSVector"},
        {"file": "src/soplex/svectorbase.h", "regex": r"void clear\(\)\s*\{\s*set_size\(0\);", "why": "SVectorBase::clear stub"},
        {"file": "src/soplex/svectorbase.h", "regex": r"void add\(const SVectorBase& sv\)\s*\{\s*add\(sv\.size\(\), sv\.m_elem\);", "why": "SVectorBase::add(sv) appends"},
    ],
    "trusted": base["trusted"] + [
        "findings unit: contribution bookkeeping (which scalar * vector products a sparse vector contains) is ghost state of the sparse-vector stub; SVectorBase::clear() empties it, SVectorBase::add(sv) merges it; DSVectorBase::add(const SVectorBase&) is the REAL body",
        "bind entries other than the ghost one are arbitrary ints (no type invariant can be attached to a raw int array): no signed-overflow check on -index-1",
    ],
    "instances": [mult],
}
json.dump(unit, open(os.path.join(here, "unit.json"), "w"), indent=1)
print("wrote unit.json with", len(unit["instances"]), "instances")
