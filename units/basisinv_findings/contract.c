/* C05 findings: contract of the ROW-representation branch of SoPlexBase<R>::multBasis (see unit.cpp). */
#include "verif_c.h"
#ifndef CAP
#define CAP 8
#endif
typedef long long R;
#define ZERO (1LL << 41)
#include "Representation.inc"
enum { V_OTHER = 0, V_UNIT = 1, V_LPROW = 2, V_LPCOL = 3, V_LPROW_UNSCALED = 4, V_LPCOL_UNSCALED = 5 };

int g_ssdim, g_n, g_nc, g_p, g_i, g_w, g_in, g_knum, g_q;
R v_kout, v_kin;
int g_kcalls, g_kkind, g_kx_ok, g_rhs_size, g_rhs_idx; R g_rhs_val;
int g_setup_calls, g_ensure_calls;
R* gp_s1; R* gp_s2; int g_s1_used, g_s2_used; int* gp_xidx; R* gp_kout; const void* gp_local_x;
R* gp_dsv; int* gp_dsi; int g_ds_used_once; int* gp_ds_used; int* gp_ds_gpos;
int g_getbind_calls, g_bind_ok; int* gp_bind; int g_alloc_calls, g_free_calls;
R* gp_vec;
int g_clear_calls, g_exp_kind, g_exp_src, g_res_has_p, g_res_foreign_p, g_assign_calls; R v_xp;
int* gp_y_has; int* gp_y_foreign;
int v_bind, g_scale;
void verif_throw(void) {}
#define SCALE (unscale && isScaled)

#ifdef INST_MULT_ROW
int w_mult_row(R* vec, int unscale, int n, int nc, int isScaled, R* s1, int* bind, R* dsv, int* dsi)
__CPROVER_requires(0 < n && n <= CAP && 0 < nc && nc <= CAP && g_n == n && g_nc == nc)
__CPROVER_requires(__CPROVER_is_fresh(vec, n * sizeof(R)) && __CPROVER_is_fresh(s1, n * sizeof(R)) && __CPROVER_is_fresh(bind, n * sizeof(int)))
__CPROVER_requires(__CPROVER_is_fresh(dsv, n * sizeof(R)) && __CPROVER_is_fresh(dsi, n * sizeof(int)))
__CPROVER_requires(0 <= g_p && g_p < n && v_bind == bind[g_p] && v_bind > -2147483647 && v_xp == vec[g_p])
/* the vector the specification names for basis position g_p */
__CPROVER_requires(g_exp_kind == (v_bind < 0 ? V_UNIT : (SCALE ? V_LPCOL_UNSCALED : V_LPCOL)) && g_exp_src == (v_bind < 0 ? -1 - v_bind : v_bind))
__CPROVER_requires(g_scale == (SCALE ? 1 : 0))
__CPROVER_assigns(g_ssdim, gp_s1, gp_s2, g_s1_used, g_s2_used, gp_dsv, gp_dsi, g_ds_used_once, gp_ds_used, gp_ds_gpos, gp_y_has, gp_y_foreign)
__CPROVER_assigns(g_getbind_calls, g_bind_ok, gp_bind, g_alloc_calls, g_free_calls, gp_vec, g_clear_calls, g_res_has_p, g_res_foreign_p, g_assign_calls)
__CPROVER_assigns(__CPROVER_object_whole(vec), __CPROVER_object_whole(s1), __CPROVER_object_whole(dsv), __CPROVER_object_whole(dsi))
__CPROVER_ensures(__CPROVER_return_value == 1)
__CPROVER_ensures(g_getbind_calls == 1 && g_bind_ok && g_alloc_calls == 1 && g_free_calls == 1 && g_assign_calls == 1)
/* the result contains the contribution vec[g_p] * (column g_p of B) (at least once: equal columns at two positions are excluded by the basis being a basis, not by this contract), and nothing built from the wrong
   (scaled instead of unscaled, or vice versa) column */
__CPROVER_ensures(g_res_foreign_p == 0 && (v_xp != ZERO ==> g_res_has_p >= 1))
;
void h_mult_row(void)
{
   R* vec; int unscale, n, nc, isScaled; R* s1; int* bind; R* dsv; int* dsi;
   g_n = nondet_int(); g_nc = nondet_int(); g_p = nondet_int(); v_bind = nondet_int(); g_scale = nondet_int();
   g_exp_kind = nondet_int(); g_exp_src = nondet_int(); v_xp = nondet_ll();
   w_mult_row(vec, unscale, n, nc, isScaled, s1, bind, dsv, dsi);
   CANARY();
}
#endif
