   /* (members of SVectorBase<T>, findings unit only) contribution bookkeeping for basis position g_p:
    * has_p    = number of contained contributions  x[g_p] * (column g_p of B)  with the vector the specification demands,
    * foreign_p = number of contained contributions with the same column index but the wrong (scaled / unscaled) vector */
   int has_p, foreign_p;
   /* real: set_size(0) */
   void clear() { used = 0; gpos = -1; has_p = 0; foreign_p = 0; g_clear_calls++; }
   /* real: append the nonzeros of sv (svectorbase.h: add(sv.size(), sv.m_elem)) */
   void add(const SVectorBase<T>& sv) { used = used + sv.used; has_p = has_p + sv.has_p; foreign_p = foreign_p + sv.foreign_p; }
