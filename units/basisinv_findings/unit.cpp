/* C05 FINDINGS: instances whose contract FAILS on the unchanged tree (suspected SoPlex defects, demonstrated natively by
 * native_rowrep.cpp).  Not registered in props/C05.json.  Sources: stubs shared with units/basisinv (c05_stubs.h, ROW mode).
 *
 * multBasis_row: ROW-representation branch of SoPlexBase<R>::multBasis.  Specification: the result is the SUM over all basis
 * positions i with vec[i] != 0 of  vec[i] * (column i of B),  column i = e_index (basic slack) | the UNSCALED LP column (basic
 * column, unscaling requested on a scaled LP) | the solver's LP column (otherwise).  Stated structurally at the ghost position
 * g_p: the vector handed to `x = y` contains the contribution of position g_p exactly once, built from the right vector.
 * The real DSVectorBase::add(const SVectorBase&) body is sliced: it CLEARS the vector before appending. */
#define C05_ROW
extern "C" {
   extern int g_p, g_clear_calls;
   extern int g_exp_kind, g_exp_src; extern long long v_xp;
   extern int g_res_has_p, g_res_foreign_p, g_assign_calls;
   extern int* gp_y_has; extern int* gp_y_foreign;
}
#define C05_SVECTOR_EXTRA_FILE "../basisinv_findings/svector_extra.h"
#define C05_DSVECTOR_EXTRA_FILE "../basisinv_findings/dsvector_extra.h"
/* x = y: the result vector contains what y contains */
#define C05_ASSIGN_HOOK(v) { g_assign_calls++; g_res_has_p = (v).has_p; g_res_foreign_p = (v).foreign_p; }
#define C05_DSINIT_HOOK(self) { (self)->has_p = 0; (self)->foreign_p = 0; gp_y_has = &(self)->has_p; gp_y_foreign = &(self)->foreign_p; }
#include "../basisinv/c05_stubs.h"

template <class T> struct SPxSolverBase
{
#include "Representation.inc"
};
template <class T> struct SoPlexBase {};
extern "C" {
   extern int g_getbind_calls, g_bind_ok; extern int* gp_bind; extern int g_alloc_calls, g_free_calls;
   extern R* gp_vec;
}
static inline void spx_alloc(int*& p, int n)
{
   __CPROVER_assert(p == nullptr && n == g_n && g_alloc_calls == 0, "spx_alloc(bind, numRows()) once");
   g_alloc_calls++; p = gp_bind;
}
static inline void spx_free(int*& p) { __CPROVER_assert(p == gp_bind, "spx_free of the allocated array"); g_free_calls++; p = nullptr; }

struct LPStub
{
   int nr, nc; bool _isScaled;
   int nRows() const { return nr; }
   int nCols() const { return nc; }
   bool isScaled() const { return _isScaled; }
};
static inline void prov(SVectorBase<R>& v, int kind, int src)
{
   v.vals = 0; v.idxs = 0; v.used = 0; v.cap = 0; v.kind = kind; v.src = src; v.neg = false; v.gpos = -1; v.has_p = 0; v.foreign_p = 0;
}
struct SolverStub
{
   int therep; bool scaled;
   SPxSolverBase<R>::Representation rep() const { return (SPxSolverBase<R>::Representation)therep; }
   bool isScaled() const { return scaled; }
   SVectorBase<R> colVector(int i) const { SVectorBase<R> cv; prov(cv, V_LPCOL, i); return cv; }
   void getColVectorUnscaled(int i, DSVectorBase<R>& vec) const { vec.kind = V_LPCOL_UNSCALED; vec.src = i; vec.neg = false; }
};
/* scalar * sparse vector (basevectors.h: DSVectorBase<R> operator*(R x, const SVectorBase<R>& v)): a new vector; it IS the
 * contribution of position g_p iff the scalar is vec[g_p] and the vector is the one the specification names (basis columns are
 * pairwise different, so (kind, index) identifies the position) */
static inline DSVectorBase<R> operator*(R a, const SVectorBase<R>& v)
{
   DSVectorBase<R> res;
   prov(res, V_OTHER, -1);
   res.used = v.used;
   bool same_col = (v.src == g_exp_src) && ((v.kind == V_UNIT) == (g_exp_kind == V_UNIT));
   if(same_col && v.kind == g_exp_kind) { if(a == v_xp) res.has_p = 1; }     /* (an equal column at another position - excluded by the basis being a basis - counts as nothing) */
   else if(same_col) res.foreign_p = 1;                                      /* scaled column where the unscaled one is due, or vice versa */
   return res;
}

struct Host : SoPlexBase<R>
{
   LPStub* _realLP;
   SolverStub _solver;
   TolStub tol;
   TolStub* tolerances() { return &tol; }
   int numRows() const
   {
#include "numRows.inc"
   }
   int numCols() const
   {
#include "numCols.inc"
   }
   void getBasisInd(int* bind) const { g_getbind_calls++; g_bind_ok = (bind == gp_bind); }
};

#if defined(INST_MULT_ROW)
struct H : Host
{
   R* vec; bool unscale;
   bool body()
   {
#include SLICE
      return true;
   }
};
extern "C" int w_mult_row(R* vec, int unscale, int n, int nc, int isScaled, R* s1, int* bind, R* dsv, int* dsi)
{
   VIN("n", n); VIN("nc", nc); VIN("unscale", unscale); VIN("isScaled", isScaled);
   LPStub lp; H h;
   lp.nr = n; lp.nc = nc; lp._isScaled = isScaled != 0;
   h._realLP = &lp; h._solver.therep = SPxSolverBase<R>::ROW; h._solver.scaled = isScaled != 0; h.tol.eps = 1e-16;
   g_ssdim = nc; gp_s1 = s1; gp_s2 = 0; g_s1_used = 0; g_s2_used = 0; gp_bind = bind; gp_dsv = dsv; gp_dsi = dsi; g_ds_used_once = 0;
   g_getbind_calls = 0; g_bind_ok = 0; g_alloc_calls = 0; g_free_calls = 0; g_clear_calls = 0; g_assign_calls = 0;
   g_res_has_p = -1; g_res_foreign_p = -1;
   h.vec = vec; h.unscale = unscale != 0;
   gp_vec = vec;
   return h.body() ? 1 : 0;
}
#endif
