/* C09: SPxLPBase<R>::changeCol(int n, const LPColBase<R>& newCol, bool scale) and ::changeRow (spxlpbase.h), real bodies at
 * R = ledger.  Contract: with scale == true every nonzero (idx, val) of the new column is stored in BOTH matrix copies
 * as val shifted by colexp[n] + rowexp[idx] (the same exponent applyScaling uses for that cell), bounds/sides/objective go
 * through the scalar change* routines (real bodies, proven in instance `scalar`).
 * The removal of the old column (first loop) is over-approximated: SVector pos/remove/clear are executable stubs. */
#include "verif.h"
#include "ledger.h"
#define DATAARRAY_READ_INVARIANT(v) __CPROVER_assume(-EXP_MAX <= (v) && (v) <= EXP_MAX)
#include "containers.h"

extern "C" {
extern int g_cnt_a, g_cnt_b, g_target, rec_a_vec, rec_a_idx, rec_b_vec, rec_b_idx, g_objcalls, rec_obj_i;
extern R rec_a_val, rec_b_val, rec_obj_val; extern bool rec_obj_scale;
extern int *gp_cvused, *gp_rvused, *gp_midxs; extern void *gp_rv, *gp_cv; extern R* gp_mvals;
}

/* sparse vector view with the mutators the removal loop uses (no loops inside: pos() is over-approximated) */
struct SVec : SVectorBase<R>
{
   int pos(int i) const { int p = nondet_int(); __CPROVER_assume(-1 <= p && p < used); return p; }
   void remove(int n) { __CPROVER_assert(0 <= n && n < used, "SVector::remove position in bounds"); vals[n] = vals[used - 1]; idxs[n] = idxs[used - 1]; --used; }
   void clear() { used = 0; }
};
#define SVectorBase SVecT
template <class T> struct SVecT : SVec {};

struct LPShared { VectorBase<R> low, up, obj, left, right; };

/* both bases: identical layout, methods through d / C globals only (README point 16) */
template <class T> struct LPRowSetBase
{
   LPShared* d; DataArray<int> scaleExp;
   T& lhs_w(int i) { return d->left[i]; }
   T& rhs_w(int i) { return d->right[i]; }
   /* add2(i, n, idx[], val[]): appends nonzeros to vector i; ghost-recorded (the g_target-th call is kept) */
   void add2(int i, int n, const int idx[], const T val[])
   {
#ifdef ROWFIRST
      if(g_cnt_a == g_target) { rec_a_vec = i; rec_a_idx = idx[0]; rec_a_val = val[0]; } g_cnt_a++;
#else
      if(g_cnt_b == g_target) { rec_b_vec = i; rec_b_idx = idx[0]; rec_b_val = val[0]; } g_cnt_b++;
#endif
   }
};
template <class T> struct LPColSetBase
{
   LPShared* d; DataArray<int> scaleExp;
   T& lower_w(int i) { return d->low[i]; }
   T& upper_w(int i) { return d->up[i]; }
   T& maxObj_w(int i) { return d->obj[i]; }
   void add2(int i, int n, const int idx[], const T val[])
   {
#ifdef ROWFIRST
      if(g_cnt_b == g_target) { rec_b_vec = i; rec_b_idx = idx[0]; rec_b_val = val[0]; } g_cnt_b++;
#else
      if(g_cnt_a == g_target) { rec_a_vec = i; rec_a_idx = idx[0]; rec_a_val = val[0]; } g_cnt_a++;
#endif
   }
};

template <class T> struct LPColBase
{
   T up, low, object; SVecT<T>* vec;
   T upper() const { return up; }
   T lower() const { return low; }
   T obj() const { return object; }
   const SVecT<T>& colVector() const { return *vec; }
};
template <class T> struct LPRowBase
{
   T left, right, object; SVecT<T>* vec;
   T lhs() const { return left; }
   T rhs() const { return right; }
   T obj() const { return object; }
   const SVecT<T>& rowVector() const { return *vec; }
};

struct LP;
struct Scaler
{
   R scaleObj(const LP& lp, int i, R origObj) const;
   R scaleLower(const LP& lp, int col, R lower) const;
   R scaleUpper(const LP& lp, int col, R upper) const;
   R scaleLhs(const LP& lp, int row, R lhs) const;
   R scaleRhs(const LP& lp, int row, R rhs) const;
   R scaleElement(const LP& lp, int row, int col, R val) const;
};

#ifndef MATW
#define MATW 2
#endif
struct LP : LPRowSetBase<R>, LPColSetBase<R>
{
   bool _isScaled; Scaler* lp_scaler; int nr, nc;
   LPShared sh;
   R* mvals; int* midxs; int* rsizes; int* csizes;   /* old matrix content: arbitrary, only its removal is exercised */
   SVecT<R>* rvp; SVecT<R>* cvp;
   void bind() { LPRowSetBase<R>::d = &sh; LPColSetBase<R>::d = &sh; }
   bool isConsistent() const { return true; }
   SVecT<R>& rowVector_w(int i)
   {
      __CPROVER_assert(0 <= i && i < nr, "row number in bounds");
      SVecT<R>& v = *rvp; v.vals = mvals + i * MATW; v.idxs = midxs + i * MATW; v.used = rsizes[i]; v.cap = MATW; v.bound = nc;
      __CPROVER_assume(0 <= v.used && v.used <= MATW);
      return v;
   }
   SVecT<R>& colVector_w(int i)
   {
      __CPROVER_assert(0 <= i && i < nc, "column number in bounds");
      SVecT<R>& v = *cvp; v.vals = mvals + (nr + i) * MATW; v.idxs = midxs + (nr + i) * MATW; v.used = csizes[i]; v.cap = MATW; v.bound = nr;
      __CPROVER_assume(0 <= v.used && v.used <= MATW);
      return v;
   }
   void changeLower(int i, const R& newLower, bool scale = false)
   {
#include "changeLower_i.inc"
   }
   void changeUpper(int i, const R& newUpper, bool scale = false)
   {
#include "changeUpper_i.inc"
   }
   void changeLhs(int i, const R& newLhs, bool scale = false)
   {
#include "changeLhs_i.inc"
   }
   void changeRhs(int i, const R& newRhs, bool scale = false)
   {
#include "changeRhs_i.inc"
   }
   /* changeObj / changeRowObj flip the sign for minimisation (`*= -1`): not expressible in the ledger; recorded instead */
   void changeObj(int i, const R& newVal, bool scale = false) { g_objcalls++; rec_obj_i = i; rec_obj_val = newVal; rec_obj_scale = scale; }
   void changeRowObj(int i, const R& newVal, bool scale = false) { g_objcalls++; rec_obj_i = i; rec_obj_val = newVal; rec_obj_scale = scale; }
};
R Scaler::scaleObj(const LP& lp, int i, R origObj) const
{
#include "scaleObj1.inc"
}
R Scaler::scaleLower(const LP& lp, int col, R lower) const
{
#include "scaleLower.inc"
}
R Scaler::scaleUpper(const LP& lp, int col, R upper) const
{
#include "scaleUpper.inc"
}
R Scaler::scaleLhs(const LP& lp, int row, R lhs) const
{
#include "scaleLhs.inc"
}
R Scaler::scaleRhs(const LP& lp, int row, R rhs) const
{
#include "scaleRhs.inc"
}
R Scaler::scaleElement(const LP& lp, int row, int col, R val) const
{
#include "scaleElement.inc"
}

struct HC : LP
{
   int n; bool scale;
#ifdef ROWFIRST
   const LPRowBase<R>* new_;
#else
   const LPColBase<R>* new_;
#endif
   void body()
   {
#ifdef ROWFIRST
      const LPRowBase<R>& newRow = *new_;
#else
      const LPColBase<R>& newCol = *new_;
#endif
#include CRSLICE
   }
};

/* a, b: first and second bound/side of the new vector (col: upper, lower; row: lhs, rhs) */
extern "C" void w_cr(R* mvals, int* midxs, int* rsizes, int* csizes, R* low, R* up, R* lhs, R* rhs, int* rowexp, int* colexp,
                     int nr, int nc, int n, R* nvals, int* nidxs, int nsize, R a, R b, R o, bool scale)
{
   VIN("nr", nr); VIN("nc", nc); VIN("n", n); VIN("nsize", nsize); VIN_ARR8("nvals", nvals, nsize); VIN_ARR8("nidxs", nidxs, nsize);
   VIN_ARR8("rowexp", rowexp, nr); VIN_ARR8("colexp", colexp, nc); VIN("a", a); VIN("b", b);
   HC h; Scaler sc;
   h._isScaled = true; h.lp_scaler = &sc; h.nr = nr; h.nc = nc; h.bind();
   h.LPColSetBase<R>::scaleExp.data = colexp; h.LPColSetBase<R>::scaleExp.thesize = nc;
   h.LPRowSetBase<R>::scaleExp.data = rowexp; h.LPRowSetBase<R>::scaleExp.thesize = nr;
   h.sh.low.val = low; h.sh.low.dimen = nc; h.sh.up.val = up; h.sh.up.dimen = nc; h.sh.obj.val = 0; h.sh.obj.dimen = 0;
   h.sh.left.val = lhs; h.sh.left.dimen = nr; h.sh.right.val = rhs; h.sh.right.dimen = nr;
   h.mvals = mvals; h.midxs = midxs; h.rsizes = rsizes; h.csizes = csizes;
   SVecT<R> rview, cview, nvec; h.rvp = &rview; h.cvp = &cview;
   rview.used = 0; cview.used = 0;
   nvec.vals = nvals; nvec.idxs = nidxs; nvec.used = nsize; nvec.cap = nsize;
#ifdef ROWFIRST
   nvec.bound = nc;
   LPRowBase<R> nw; nw.left = a; nw.right = b; nw.object = o; nw.vec = &nvec;
#else
   nvec.bound = nr;
   LPColBase<R> nw; nw.up = a; nw.low = b; nw.object = o; nw.vec = &nvec;
#endif
   h.n = n; h.scale = scale; h.new_ = &nw;
   gp_rv = &rview; gp_cv = &cview; gp_cvused = &cview.used; gp_rvused = &rview.used; gp_mvals = mvals; gp_midxs = midxs;
   h.body();
}
