/* C09: "data added or changed while persistent scaling is active is stored consistently with the existing scale
 * factors".  Real bodies of SPxLPBase<R>::change{Lower,Upper,Lhs,Rhs,MaxObj}(int|vector, .., bool scale) from
 * spxlpbase.h, calling the REAL bodies of SPxScaler<R>::scale{Lower,Upper,Lhs,Rhs,Obj} (spxscaler.hpp), followed in
 * the wrapper by the REAL unscaled getter {lower,upper,lhs,rhs,maxObj}Unscaled: the contract is the user-level
 * round trip  getUnscaled(i) after change(i, v, scale=true) == v,  at R = ledger. */
#include "verif.h"
#include "ledger.h"
#define DATAARRAY_READ_INVARIANT(v) __CPROVER_assume(-EXP_MAX <= (v) && (v) <= EXP_MAX)
#include "lp_parts.h"

struct LP;
struct Scaler
{
   R scaleObj(const LP& lp, int i, R origObj) const;
   R scaleLower(const LP& lp, int col, R lower) const;
   R scaleUpper(const LP& lp, int col, R upper) const;
   R scaleLhs(const LP& lp, int row, R lhs) const;
   R scaleRhs(const LP& lp, int row, R rhs) const;
   R upperUnscaled(const LP& lp, int i) const;
   R lowerUnscaled(const LP& lp, int i) const;
   R maxObjUnscaled(const LP& lp, int i) const;
   R rhsUnscaled(const LP& lp, int i) const;
   R lhsUnscaled(const LP& lp, int i) const;
};

struct LP : LPRowSetBase<R>, LPColSetBase<R>
{
   bool _isScaled; Scaler* lp_scaler; int nr, nc;
   LPShared<R> sh;
   void bind() { LPRowSetBase<R>::d = &sh; LPColSetBase<R>::d = &sh; }
   bool isScaled() const { return _isScaled; }
   bool isConsistent() const { return true; }
   int nRows() const { return nr; }
   int nCols() const { return nc; }
   void changeMaxObj(int i, const R& newVal, bool scale = false)
   {
#include "changeMaxObj_i.inc"
   }
   void changeLower(int i, const R& newLower, bool scale = false)
   {
#include "changeLower_i.inc"
   }
   void changeUpper(int i, const R& newUpper, bool scale = false)
   {
#include "changeUpper_i.inc"
   }
   void changeLhs(int i, const R& newLhs, bool scale = false)
   {
#include "changeLhs_i.inc"
   }
   void changeRhs(int i, const R& newRhs, bool scale = false)
   {
#include "changeRhs_i.inc"
   }
};

R Scaler::scaleObj(const LP& lp, int i, R origObj) const
{
#include "scaleObj1.inc"
}
R Scaler::scaleLower(const LP& lp, int col, R lower) const
{
#include "scaleLower.inc"
}
R Scaler::scaleUpper(const LP& lp, int col, R upper) const
{
#include "scaleUpper.inc"
}
R Scaler::scaleLhs(const LP& lp, int row, R lhs) const
{
#include "scaleLhs.inc"
}
R Scaler::scaleRhs(const LP& lp, int row, R rhs) const
{
#include "scaleRhs.inc"
}
R Scaler::upperUnscaled(const LP& lp, int i) const
{
#include "upperUnscaled.inc"
}
R Scaler::lowerUnscaled(const LP& lp, int i) const
{
#include "lowerUnscaled.inc"
}
R Scaler::maxObjUnscaled(const LP& lp, int i) const
{
#include "maxObjUnscaled.inc"
}
R Scaler::rhsUnscaled(const LP& lp, int i) const
{
#include "rhsUnscaled.inc"
}
R Scaler::lhsUnscaled(const LP& lp, int i) const
{
#include "lhsUnscaled.inc"
}

extern "C" { extern R* gp_store; extern int g_n; }

/* vector variants: the real body runs as a zero-argument member of a host derived from LP (loop contract) */
struct HV : LP
{
   const VectorBase<R>* vp_; bool scale;
   void body()
   {
      const VectorBase<R>& VPARAM = *vp_;
#ifdef VSLICE
#include VSLICE
#endif
   }
};

static void mk(LP& lp, Scaler& sc, R* store, int* rowexp, int* colexp, int n)
{
   lp._isScaled = true; lp.lp_scaler = &sc; lp.nr = n; lp.nc = n;
   lp.LPColSetBase<R>::scaleExp.data = colexp; lp.LPColSetBase<R>::scaleExp.thesize = n;
   lp.LPRowSetBase<R>::scaleExp.data = rowexp; lp.LPRowSetBase<R>::scaleExp.thesize = n;
   lp.bind();
   lp.sh.low.val = store; lp.sh.low.dimen = n; lp.sh.up.val = store; lp.sh.up.dimen = n; lp.sh.obj.val = store; lp.sh.obj.dimen = n;
   lp.sh.left.val = store; lp.sh.left.dimen = n; lp.sh.right.val = store; lp.sh.right.dimen = n;
}
static R getback(const LP& lp, const Scaler& sc, int which, int i)
{
   switch(which)
   {
   case 0: return sc.lowerUnscaled(lp, i);
   case 1: return sc.upperUnscaled(lp, i);
   case 2: return sc.lhsUnscaled(lp, i);
   case 3: return sc.rhsUnscaled(lp, i);
   default: return sc.maxObjUnscaled(lp, i);
   }
}

/* scalar variants: change<X>(i, v, scale) then the unscaled getter; returns what the user reads back */
extern "C" R w_scalar(int which, R* store, int* rowexp, int* colexp, int n, int i, R v, bool scale)
{
   LP lp; Scaler sc; mk(lp, sc, store, rowexp, colexp, n);
   switch(which)
   {
   case 0: lp.changeLower(i, v, scale); break;
   case 1: lp.changeUpper(i, v, scale); break;
   case 2: lp.changeLhs(i, v, scale); break;
   case 3: lp.changeRhs(i, v, scale); break;
   default: lp.changeMaxObj(i, v, scale); break;
   }
   return getback(lp, sc, which, i);
}

/* vector variants (scale = true): returns what the user reads back at the ghost index k */
extern "C" R w_vector(int which, R* store, R* newvec, int* rowexp, int* colexp, int n, int k)
{
   VIN("n", n); VIN("k", k); VIN("which", which); VIN_ARR8("newvec", newvec, n); VIN_ARR8("rowexp", rowexp, n); VIN_ARR8("colexp", colexp, n);
   HV h; Scaler sc; mk(h, sc, store, rowexp, colexp, n);
   VectorBase<R> nv; nv.val = newvec; nv.dimen = n;
   h.vp_ = &nv; h.scale = true;
   gp_store = store;
   h.body();
   return getback(h, sc, which, k);
}
