#include "verif_c.h"
#ifndef CAP
#define CAP 8
#endif
#define INF (1LL << 40)
#define FIN (1LL << 30)
#define EXP_MAX (1 << 20)
typedef long long R;
#define FINITE(x) (-FIN <= (x) && (x) <= FIN)
#define EOK(e) (-EXP_MAX <= (e) && (e) <= EXP_MAX)
/* which: 0 lower, 1 upper, 2 lhs, 3 rhs, 4 maxObj.  A bound/side is finite or infinite on its own side. */
#define VALUE_OK(which, v) (FINITE(v) || (((which) == 0 || (which) == 2) && (v) == -INF) || (((which) == 1 || (which) == 3) && (v) == INF))
R* gp_store; int g_n; int g_k; R v_new, v_stored, v_old;

#ifdef INST_scalar
/* what is set is what is read back through the unscaled getter, with and without the scale flag:
 * with scale=false the value is stored as is and the getter (on a scaled LP) unscales it: the caller
 * is then responsible; we state the scale=true round trip and the scale=false raw store. */
R w_scalar(int which, R* store, int* rowexp, int* colexp, int n, int i, R v, _Bool scale)
__CPROVER_requires(0 < n && n <= CAP && __CPROVER_is_fresh(store, n * sizeof(R)) && __CPROVER_is_fresh(rowexp, n * sizeof(int)) && __CPROVER_is_fresh(colexp, n * sizeof(int)))
__CPROVER_requires(0 <= i && i < n && 0 <= which && which <= 4 && VALUE_OK(which, v) && EOK(rowexp[i]) && EOK(colexp[i]))
__CPROVER_assigns(__CPROVER_object_whole(store))
__CPROVER_ensures(scale ==> __CPROVER_return_value == v)
__CPROVER_ensures(!scale ==> store[i] == v)
;
void h_scalar(void) { int which, n, i; R v; _Bool scale; R* store; int* rowexp; int* colexp; w_scalar(which, store, rowexp, colexp, n, i, v, scale); CANARY(); }
#endif

#ifdef INST_vector
R w_vector(int which, R* store, R* newvec, int* rowexp, int* colexp, int n, int k)
__CPROVER_requires(0 < n && n <= CAP && g_n == n && which == WHICH)
__CPROVER_requires(__CPROVER_is_fresh(store, n * sizeof(R)) && __CPROVER_is_fresh(newvec, n * sizeof(R)) && __CPROVER_is_fresh(rowexp, n * sizeof(int)) && __CPROVER_is_fresh(colexp, n * sizeof(int)))
__CPROVER_requires(0 <= k && k < n && g_k == k && v_new == newvec[k] && v_old == store[k] && VALUE_OK(which, v_new) && EOK(rowexp[k]) && EOK(colexp[k]))
/* the stored (scaled) value the property predicts: infinite stays infinite, finite shifted by the exponent */
__CPROVER_requires(v_stored == (FINITE(v_new) ? v_new + (STORE_SIGN) * (USE_ROW ? rowexp[k] : colexp[k]) : v_new))
#ifdef VERIF_SMALL
__CPROVER_requires(((-60 <= v_new && v_new <= 60) || v_new == INF || v_new == -INF) && -60 <= rowexp[k] && rowexp[k] <= 60 && -60 <= colexp[k] && colexp[k] <= 60)
#endif
__CPROVER_assigns(gp_store, __CPROVER_object_whole(store))
__CPROVER_ensures(store[k] == v_stored)
__CPROVER_ensures(__CPROVER_return_value == v_new)
;
void h_vector(void)
{
   int which, n, k; R* store; R* newvec; int* rowexp; int* colexp;
   g_n = nondet_int(); g_k = nondet_int(); v_new = nondet_ll(); v_stored = nondet_ll(); v_old = nondet_ll();
   w_vector(which, store, newvec, rowexp, colexp, n, k);
   CANARY();
}
#endif
