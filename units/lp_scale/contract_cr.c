#include "verif_c.h"
#ifndef CAP
#define CAP 3
#endif
#ifndef MATW
#define MATW 2
#endif
#define INF (1LL << 40)
#define FIN (1LL << 30)
#define EXP_MAX (1 << 20)
typedef long long R;
#define FINITE(x) (-FIN <= (x) && (x) <= FIN)
#define EOK(e) (-EXP_MAX <= (e) && (e) <= EXP_MAX)
int g_cnt_a, g_cnt_b, g_target, rec_a_vec, rec_a_idx, rec_b_vec, rec_b_idx, g_objcalls, rec_obj_i;
R rec_a_val, rec_b_val, rec_obj_val; _Bool rec_obj_scale;
int *gp_cvused, *gp_rvused, *gp_midxs; void *gp_rv, *gp_cv; R* gp_mvals;
/* ghost: position g of the new vector, its index and value, the value the property predicts for both matrix copies */
int g_g, g_idx, g_nsize, g_n; R g_val, g_expect;

/* ROWFIRST (changeRow): n is a row, the new vector's indices are columns; otherwise (changeCol) n is a column.
 * "a" copy = the set of the changed vector itself (changeCol: column file, changeRow: row file), "b" = the transposed copy. */
#ifdef ROWFIRST
#define NDIM nr
#define IDIM nc
#define EXP_N rowexp[n]
#define EXP_IDX colexp[g_idx]
#else
#define NDIM nc
#define IDIM nr
#define EXP_N colexp[n]
#define EXP_IDX rowexp[g_idx]
#endif

void w_cr(R* mvals, int* midxs, int* rsizes, int* csizes, R* low, R* up, R* lhs, R* rhs, int* rowexp, int* colexp,
          int nr, int nc, int n, R* nvals, int* nidxs, int nsize, R a, R b, R o, _Bool scale)
__CPROVER_requires(0 < nr && nr <= CAP && 0 < nc && nc <= CAP && 0 <= n && n < NDIM && 0 < nsize && nsize <= MATW && scale)
__CPROVER_requires(__CPROVER_is_fresh(mvals, (nr + nc) * MATW * sizeof(R)) && __CPROVER_is_fresh(midxs, (nr + nc) * MATW * sizeof(int)))
__CPROVER_requires(__CPROVER_is_fresh(rsizes, nr * sizeof(int)) && __CPROVER_is_fresh(csizes, nc * sizeof(int)))
__CPROVER_requires(__CPROVER_is_fresh(low, nc * sizeof(R)) && __CPROVER_is_fresh(up, nc * sizeof(R)) && __CPROVER_is_fresh(lhs, nr * sizeof(R)) && __CPROVER_is_fresh(rhs, nr * sizeof(R)))
__CPROVER_requires(__CPROVER_is_fresh(rowexp, nr * sizeof(int)) && __CPROVER_is_fresh(colexp, nc * sizeof(int)))
__CPROVER_requires(__CPROVER_is_fresh(nvals, nsize * sizeof(R)) && __CPROVER_is_fresh(nidxs, nsize * sizeof(int)))
__CPROVER_requires(g_nsize == nsize && g_n == n && 0 <= g_g && g_g < nsize && g_target == nsize - 1 - g_g)
__CPROVER_requires(g_idx == nidxs[g_g] && 0 <= g_idx && g_idx < IDIM && g_val == nvals[g_g] && FINITE(g_val))
__CPROVER_requires(EOK(EXP_N) && EOK(EXP_IDX) && g_expect == g_val + EXP_N + EXP_IDX)
__CPROVER_requires((FINITE(a) || a == (A_INF)) && (FINITE(b) || b == (B_INF)) && FINITE(o))
__CPROVER_requires(g_cnt_a == 0 && g_cnt_b == 0 && g_objcalls == 0)
__CPROVER_assigns(g_cnt_a, g_cnt_b, rec_a_vec, rec_a_idx, rec_a_val, rec_b_vec, rec_b_idx, rec_b_val, g_objcalls, rec_obj_i, rec_obj_val, rec_obj_scale)
__CPROVER_assigns(gp_rv, gp_cv, gp_cvused, gp_rvused, gp_mvals, gp_midxs)
__CPROVER_assigns(__CPROVER_object_whole(mvals), __CPROVER_object_whole(midxs), __CPROVER_object_whole(low), __CPROVER_object_whole(up), __CPROVER_object_whole(lhs), __CPROVER_object_whole(rhs))
/* every nonzero of the new vector is added exactly once to each copy, scaled by the sum of its row and column exponent */
__CPROVER_ensures(g_cnt_a == nsize && g_cnt_b == nsize)
__CPROVER_ensures(rec_a_vec == n && rec_a_idx == g_idx && rec_a_val == g_expect)
__CPROVER_ensures(rec_b_vec == g_idx && rec_b_idx == n && rec_b_val == g_expect)
/* bounds / sides of the changed vector: stored scaled (infinite ones untouched); objective handed on with the scale flag */
#ifdef ROWFIRST
__CPROVER_ensures(lhs[n] == (FINITE(a) ? a + rowexp[n] : a) && rhs[n] == (FINITE(b) ? b + rowexp[n] : b))
#else
__CPROVER_ensures(up[n] == (FINITE(a) ? a - colexp[n] : a) && low[n] == (FINITE(b) ? b - colexp[n] : b))
#endif
__CPROVER_ensures(g_objcalls == 1 && rec_obj_i == n && rec_obj_val == o && rec_obj_scale)
;

static void havoc(void)
{
   g_cnt_a = nondet_int(); g_cnt_b = nondet_int(); g_target = nondet_int(); g_objcalls = nondet_int();
   g_g = nondet_int(); g_idx = nondet_int(); g_nsize = nondet_int(); g_n = nondet_int(); g_val = nondet_ll(); g_expect = nondet_ll();
}
void h_cr(void)
{
   R *mvals, *low, *up, *lhs, *rhs, *nvals; int *midxs, *rsizes, *csizes, *rowexp, *colexp, *nidxs; int nr, nc, n, nsize; R a, b, o; _Bool scale;
   havoc();
   w_cr(mvals, midxs, rsizes, csizes, low, up, lhs, rhs, rowexp, colexp, nr, nc, n, nvals, nidxs, nsize, a, b, o, scale);
   CANARY();
}
