/* Native replay for lp_scale vector instances: REAL SPxLPBase<double>::change{Lower,Upper,Lhs,Rhs,MaxObj}(vector, scale=true)
 * on a scaled LP, read back through the REAL unscaled getters. ledger offset o <-> 2^o, +-2^40 <-> +-infinity. */
#include "replay_util.h"
#define protected public
#define private public
#include "soplex.h"
#undef protected
#undef private
#include <cmath>
using namespace soplex;
static long long clampo(long long o) { if(o >= (1LL << 40) || o <= -(1LL << 40)) return o; if(o > 60) return 60; if(o < -60) return -60; return o; }
static double val(long long o) { o = clampo(o); return (o >= (1LL << 40)) ? double(infinity) : (o <= -(1LL << 40)) ? -double(infinity) : std::ldexp(1.0, (int)o); }

int main(int argc, char** argv)
{
   if(argc < 3) return 2;
   ReplayIn in(argv[1]);
   int n = (int)in.geti("n", 1), which = (int)in.geti("which", 0);
   if(n < 1 || n > 64 || which < 0 || which > 4) return 2;
   std::vector<int> rowexp = in.getarr("rowexp", n, 0), colexp = in.getarr("colexp", n, 0);
   SPxLPBase<double> lp;
   lp.setTolerances(std::make_shared<Tolerances>());
   DSVectorBase<double> empty;
   for(int i = 0; i < n; i++)
   {
      lp.addRow(LPRowBase<double>(-double(infinity), empty, double(infinity)));
      lp.addCol(LPColBase<double>(0.0, empty, double(infinity), -double(infinity)));
   }
   VectorBase<double> nv(n);
   for(int i = 0; i < n; i++)
   {
      if(rowexp[i] > 60) rowexp[i] = 60; if(rowexp[i] < -60) rowexp[i] = -60; if(colexp[i] > 60) colexp[i] = 60; if(colexp[i] < -60) colexp[i] = -60;
      lp.LPRowSetBase<double>::scaleExp[i] = rowexp[i];
      lp.LPColSetBase<double>::scaleExp[i] = colexp[i];
      std::ostringstream a; a << "newvec[" << i << "]";
      double v = val(in.geti(a.str(), i % 5 - 2));
      /* own-side infinity only (precondition of the contract) */
      if((which == 0 || which == 2) && v >= double(infinity)) v = 1.0;
      if((which == 1 || which == 3) && v <= -double(infinity)) v = -1.0;
      if(which == 4 && (v >= double(infinity) || v <= -double(infinity))) v = 1.0;
      nv[i] = v;
   }
   SPxEquiliSC<double> sc;
   lp.lp_scaler = &sc;
   lp.setScalingInfo(true);
   const char* names[] = {"changeLower", "changeUpper", "changeLhs", "changeRhs", "changeMaxObj"};
   switch(which)
   {
   case 0: lp.changeLower(nv, true); break;
   case 1: lp.changeUpper(nv, true); break;
   case 2: lp.changeLhs(nv, true); break;
   case 3: lp.changeRhs(nv, true); break;
   default: lp.changeMaxObj(nv, true); break;
   }
   for(int i = 0; i < n; i++)
   {
      double back = which == 0 ? lp.lowerUnscaled(i) : which == 1 ? lp.upperUnscaled(i) : which == 2 ? lp.lhsUnscaled(i) : which == 3 ? lp.rhsUnscaled(i) : lp.maxObjUnscaled(i);
      double stored = which == 0 ? lp.LPColSetBase<double>::lower(i) : which == 1 ? lp.LPColSetBase<double>::upper(i) : which == 2 ? lp.LPRowSetBase<double>::lhs(i)
                      : which == 3 ? lp.LPRowSetBase<double>::rhs(i) : lp.LPColSetBase<double>::maxObj(i);
      bool newInf = nv[i] >= double(infinity) || nv[i] <= -double(infinity);
      if(newInf && stored != nv[i])
         REPLAY_FAIL(names[which] << "(vector, scale=true): entry " << i << " set to the infinite value " << nv[i] << " is stored in the scaled LP as "
                     << stored << " (row exponent " << rowexp[i] << ", column exponent " << colexp[i] << "): an infinite bound/side became a different (finite or over-infinite) number");
      if(back != nv[i])
         REPLAY_FAIL(names[which] << "(vector, scale=true): entry " << i << " set to " << nv[i] << " reads back unscaled as " << back
                     << " (row exponent " << rowexp[i] << ", column exponent " << colexp[i] << ")");
   }
   REPLAY_OK();
}
