/* C04: SPxSolverBase<R>::getBasis / setBasis / isBasisValid (spxsolver.hpp) and SPxBasisBase<R>::isDescValid
 * (spxbasis.hpp), R = double.  The bodies are cut verbatim from the tree and run as the zero-argument member
 * body() of a host H deriving from the stub solver of stubs/basis_stubs.h (whose conversion functions are the
 * real bodies too); the real parameters are members of H. */
#include "verif.h"
extern "C" {
   /* ghost prefix counts (see contract.c): cnt[k] = number of "basic" entries among the first k */
   extern int* gp_cntR; extern int* gp_cntC; extern const void* gp_arrR; extern const void* gp_arrC; extern int g_nr, g_nc;
   extern int* gp_row; extern int* gp_col;
   extern int g_r, g_c;
   extern int g_load_calls, g_loadBasis_calls, g_force_calls, g_loaded_r, g_loaded_c, g_loaded_nr, g_loaded_nc, g_force_after_load;
}
#if defined(INST_isBasisValid_col) || defined(INST_isBasisValid_row) || defined(INST_isDescValid)
static inline void count_hook(const void* base, int n, int v);
#define ARRAY_READ_HOOK(data, n) count_hook((const void*)(data), (n), (int)(data)[n])
#endif
#ifdef INST_setBasis
#define DESC_COPY_SCRATCH
#define BASIS_EXTRA_MEMBERS \
   /* stub of SPxBasisBase::load(lp, initSlackBasis): records the call (real: binds theLP, re-dimensions thedesc) */ \
   void load(SPxSolverBase<T>* lp, bool initSlackBasis = true) { if(lp == (SPxSolverBase<T>*)this && !initSlackBasis) g_load_calls++; else g_load_calls = -100; }
#define SOLVER_EXTRA_MEMBERS \
   /* stub of SPxSolverBase::loadBasis(desc): snapshots the descriptor it is handed at the ghost indices */ \
   void loadBasis(const typename SPxBasisBase<T>::Desc& ds) \
   { \
      g_loadBasis_calls++; g_loaded_nr = ds.rowstat.thesize; g_loaded_nc = ds.colstat.thesize; \
      if(0 <= g_r && g_r < ds.rowstat.thesize) g_loaded_r = (int)ds.rowstat.data[g_r]; \
      if(0 <= g_c && g_c < ds.colstat.thesize) g_loaded_c = (int)ds.colstat.data[g_c]; \
   } \
   void forceRecompNonbasicValue() { g_force_calls++; g_force_after_load = g_loadBasis_calls; }
#endif
#include "basis_stubs.h"
typedef SPxSolverBase<double> Solver;
typedef SPxSolverBase<double>::VarStatus VS;
typedef SPxBasisBase<double>::Desc::Status DS;

#if defined(INST_isBasisValid_col) || defined(INST_isBasisValid_row) || defined(INST_isDescValid)
/* Ghost prefix-count witness.  Every element access of the array under count instantiates, at the accessed
 * index n, the defining recurrence cnt[n+1] == cnt[n] + [entry n is basic] of the ghost array and two
 * consequences of the definition (0 <= cnt[n] <= n, monotonicity cnt[n+1] <= cnt[size]).  The ghost array is not
 * read by the sliced code; for every input the true prefix counts satisfy all instances, so no execution of
 * the real code is excluded. */
#if defined(INST_isDescValid)
#define COUNT_PRED(v) ((v) >= 0)                 /* descriptor arrays: D_x (dual) statuses are >= 0 */
#else
#define COUNT_PRED(v) ((v) == (int)SPxSolverBase<double>::BASIC)
#endif
static inline void count_hook(const void* base, int n, int v)
{
   int b = COUNT_PRED(v) ? 1 : 0;
   if(base == gp_arrR)
      __CPROVER_assume(0 <= gp_cntR[n] && gp_cntR[n] <= n && gp_cntR[n + 1] == gp_cntR[n] + b && gp_cntR[n + 1] <= gp_cntR[g_nr]);
   else if(base == gp_arrC)
      __CPROVER_assume(0 <= gp_cntC[n] && gp_cntC[n] <= n && gp_cntC[n + 1] == gp_cntC[n] + b && gp_cntC[n + 1] <= gp_cntC[g_nc]);
}
#endif

#ifdef INST_getBasis
struct H : SPxSolverBase<double>
{
   VarStatus* row; VarStatus* col; int rowsSize; int colsSize;
   Status body() const
   {
#include "Solver_getBasis.inc"
   }
};
extern "C" int w_getBasis(int* row, int userow, int* col, int usecol, int* rowstat, int* colstat, int nr, int nc, int rep, int mstatus)
{
   VIN("nr", nr); VIN("nc", nc); VIN("rep", rep); VIN("userow", userow); VIN("usecol", usecol);
   VIN_ARR8("rowstat", rowstat, nr); VIN_ARR8("colstat", colstat, nc);
   basis_stub_force_ctors();
   H s; basis_stub_init(s, 0, 0, nr, 0, 0, nc, rowstat, colstat, rep);
   s.m_status = (SPxSolverBase<double>::Status)mstatus;
   s.row = userow ? (VS*)row : 0; s.col = usecol ? (VS*)col : 0; s.rowsSize = -1; s.colsSize = -1;
   gp_row = row; gp_col = col;
   return (int)s.body();
}
#endif

#if defined(INST_isBasisValid_col) || defined(INST_isBasisValid_row)
struct H : SPxSolverBase<double>
{
   DataArray<VarStatus> p_rows; DataArray<VarStatus> p_cols;
   bool body()
   {
#include "Solver_isBasisValid.inc"
   }
};
extern "C" int w_isBasisValid(int* rows, int rsize, int* cols, int csize, double* lhs, double* rhs, int nr,
                              double* lower, double* upper, int nc, int rep, int* cntR, int* cntC)
{
   VIN("nr", nr); VIN("nc", nc); VIN("rsize", rsize); VIN("csize", csize); VIN("rep", rep);
   VIN_ARR8("rows", rows, rsize); VIN_ARR8("cols", cols, csize);
   VIN_ARR8("lhs", lhs, nr); VIN_ARR8("rhs", rhs, nr); VIN_ARR8("lower", lower, nc); VIN_ARR8("upper", upper, nc);
   basis_stub_force_ctors();
   H s; basis_stub_init(s, lhs, rhs, nr, lower, upper, nc, 0, 0, rep);
   s.p_rows.data = (VS*)rows; s.p_rows.thesize = rsize; s.p_cols.data = (VS*)cols; s.p_cols.thesize = csize;
   gp_cntR = cntR; gp_cntC = cntC; gp_arrR = rows; gp_arrC = cols;
   return s.body() ? 1 : 0;
}
#endif

#ifdef INST_isDescValid
struct H : SPxSolverBase<double>
{
   const Desc* ds_;
   bool body()
   {
      const Desc& ds = *ds_;
#include "Basis_isDescValid.inc"
   }
};
extern "C" int w_isDescValid(int* drs, int rsize, int* dcs, int csize, double* lhs, double* rhs, int nr,
                             double* lower, double* upper, int nc, int rep, int* cntR, int* cntC)
{
   VIN("nr", nr); VIN("nc", nc); VIN("rsize", rsize); VIN("csize", csize); VIN("rep", rep);
   VIN_ARR8("drs", drs, rsize); VIN_ARR8("dcs", dcs, csize);
   basis_stub_force_ctors();
   H s; basis_stub_init(s, lhs, rhs, nr, lower, upper, nc, 0, 0, rep);
   SPxBasisBase<double>::Desc d;
   d.rowstat.data = (DS*)drs; d.rowstat.thesize = rsize; d.colstat.data = (DS*)dcs; d.colstat.thesize = csize;
   d.stat = rep > 0 ? &d.colstat : &d.rowstat; d.costat = rep > 0 ? &d.rowstat : &d.colstat;
   s.ds_ = &d;
   gp_cntR = cntR; gp_cntC = cntC; gp_arrR = drs; gp_arrC = dcs;
   return s.body() ? 1 : 0;
}
#endif

#ifdef INST_setBasis
struct H : SPxSolverBase<double>
{
   const VarStatus* p_rows; const VarStatus* p_cols;
   void body()
   {
#include "Solver_setBasis.inc"
   }
};
/* dsr/dsc: storage of the local descriptor copy `ds` (see DESC_COPY_SCRATCH in basis_stubs.h) */
extern "C" void w_setBasis(int* rows, int* cols, double* lhs, double* rhs, int nr, double* lower, double* upper, int nc,
                           int* rowstat, int* colstat, int* dsr, int* dsc, int rep, int bstatus)
{
   VIN("nr", nr); VIN("nc", nc); VIN("rep", rep); VIN("bstatus", bstatus);
   VIN_ARR8("rows", rows, nr); VIN_ARR8("cols", cols, nc);
   basis_stub_force_ctors();
   H s; basis_stub_init(s, lhs, rhs, nr, lower, upper, nc, rowstat, colstat, rep);
   s.thestatus = (SPxBasisBase<double>::SPxStatus)bstatus;
   s.p_rows = (VS*)rows; s.p_cols = (VS*)cols;   /* (the front end drops the const of the member's pointee type) */
   gp_desc_scratch_rows = dsr; gp_desc_scratch_cols = dsc;
   gp_row = dsr; gp_col = dsc;
   s.body();
}
#endif
