/* Native replay for units/basis_solver: runs the REAL SPxSolverBase<double>::isBasisValid (header templates of the
 * current tree + the few non-template sources listed in unit.json "replay") on the counterexample inputs and evaluates
 * the same postcondition as the contract: returns true ==> no UNDEFINED, no nonbasic variable at an infinite bound, no
 * FIXED with differing bounds, number of BASIC entries == number of rows. */
#include "replay_util.h"
#include "soplex.h"
#include <memory>
#include <cmath>

using namespace soplex;
typedef SPxSolverBase<double> Solver;

static std::vector<double> getdarr(const ReplayIn& in, const std::string& name, int n, double filler)
{
   std::vector<double> a(n > 0 ? n : 0);
   for(int k = 0; k < n; k++)
   {
      std::ostringstream key;
      key << name << "[" << k << "]";
      a[k] = in.has(key.str()) ? in.getd(key.str()) : filler;
      if(a[k] != a[k]) a[k] = filler;      /* NaN cannot be stored as an LP bound through the public interface */
   }
   return a;
}

int main(int argc, char** argv)
{
   if(argc < 3) return 2;
   ReplayIn in(argv[1]);
   std::string inst = argv[2];
   if(inst != "isBasisValid_col" && inst != "isBasisValid_row")
   {
      std::cout << "no native replay for instance " << inst << std::endl;
      return 0;
   }
   int nr = (int)in.geti("nr", 1), nc = (int)in.geti("nc", 1), rsize = (int)in.geti("rsize", nr), csize = (int)in.geti("csize", nc);
   int rep = (int)in.geti("rep", inst == "isBasisValid_row" ? -1 : 1);
   if(nr < 0 || nc < 0 || rsize < 0 || csize < 0 || nr > 1000 || nc > 1000) return 2;
   std::vector<int> rows = in.getarr("rows", rsize, 0), cols = in.getarr("cols", csize, 0);
   for(int k = 0; k < rsize; k++) if(rows[k] >= 1000) rows[k] = Solver::ON_LOWER;   /* cells the trace does not mention */
   for(int k = 0; k < csize; k++) if(cols[k] >= 1000) cols[k] = Solver::ON_LOWER;
   std::vector<double> lhs = getdarr(in, "lhs", nr, 0.0), rhs = getdarr(in, "rhs", nr, 1.0), lower = getdarr(in, "lower", nc, 0.0), upper = getdarr(in, "upper", nc, 1.0);

   Solver s(Solver::LEAVE, rep > 0 ? Solver::COLUMN : Solver::ROW);
   std::shared_ptr<Tolerances> tol = std::make_shared<Tolerances>();
   SPxLPBase<double> lp;
   SPxOut out;                      /* a bare SPxSolverBase does not initialise its spxout pointer */
   out.setVerbosity(SPxOut::ERROR);
   lp.setOutstream(out);
   s.setOutstream(out);
   lp.setTolerances(tol);
   s.setTolerances(tol);
   DSVectorBase<double> empty;
   for(int j = 0; j < nc; j++)
      lp.addCol(LPColBase<double>(1.0, empty, upper[j], lower[j]));
   for(int i = 0; i < nr; i++)
   {
      DSVectorBase<double> r;
      for(int j = 0; j < nc; j++) r.add(j, 1.0 + i + j);
      lp.addRow(LPRowBase<double>(lhs[i], r, rhs[i]));
   }
   s.loadLP(lp);
   std::cout << "representation " << (s.rep() == Solver::ROW ? "ROW" : "COLUMN") << ", nRows=" << s.nRows() << " nCols=" << s.nCols() << " dim()=" << s.dim() << std::endl;

   DataArray<Solver::VarStatus> prow(rsize), pcol(csize);
   int nbasic = 0;
   for(int k = 0; k < rsize; k++) { prow[k] = (Solver::VarStatus)rows[k]; if(rows[k] == Solver::BASIC) nbasic++; }
   for(int k = 0; k < csize; k++) { pcol[k] = (Solver::VarStatus)cols[k]; if(cols[k] == Solver::BASIC) nbasic++; }
   bool ret = s.isBasisValid(prow, pcol);
   std::cout << "isBasisValid(rows[" << rsize << "], cols[" << csize << "]) with " << nbasic << " BASIC entries returned " << ret << std::endl;
   if(!ret) REPLAY_OK();
   if(rsize != nr || csize != nc) REPLAY_FAIL("accepted arrays of the wrong size");
   for(int i = 0; i < nr; i++)
   {
      int v = rows[i];
      if(v == Solver::UNDEFINED) REPLAY_FAIL("accepted UNDEFINED row " << i);
      if(v == Solver::ON_UPPER && s.rhs(i) >= infinity) REPLAY_FAIL("accepted row " << i << " ON_UPPER at infinite rhs");
      if(v == Solver::ON_LOWER && s.lhs(i) <= -infinity) REPLAY_FAIL("accepted row " << i << " ON_LOWER at infinite lhs");
      if(v == Solver::FIXED && s.lhs(i) != s.rhs(i)) REPLAY_FAIL("accepted row " << i << " FIXED with lhs != rhs");
   }
   for(int j = 0; j < nc; j++)
   {
      int v = cols[j];
      if(v == Solver::UNDEFINED) REPLAY_FAIL("accepted UNDEFINED column " << j);
      if(v == Solver::ON_UPPER && s.upper(j) >= infinity) REPLAY_FAIL("accepted column " << j << " ON_UPPER at infinite upper");
      if(v == Solver::ON_LOWER && s.lower(j) <= -infinity) REPLAY_FAIL("accepted column " << j << " ON_LOWER at infinite lower");
      if(v == Solver::FIXED && s.lower(j) != s.upper(j)) REPLAY_FAIL("accepted column " << j << " FIXED with lower != upper");
   }
   if(nbasic != nr) REPLAY_FAIL("accepted a basis with " << nbasic << " BASIC entries for " << nr << " rows (one basic variable per row is required)");
   REPLAY_OK();
}
