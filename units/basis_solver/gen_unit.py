"""Generator of unit.json (run: python3 gen_unit.py).  unit.json is the checked artefact; this script only keeps the
repetitive slice / conformance / loop-invariant tables in one place (shared part: units/basis_conv/gen_common.py)."""
import os, sys
sys.path.insert(0, os.path.join(os.path.dirname(os.path.abspath(__file__)), "..", "basis_conv"))
from gen_common import *
HB = r"H::body\(this\)"
HBC = r"H::body\(\$constthis\)"
def inst(name, function, harness, enforce, slices, loops, mutants, minob=50, tier="quick", extra=None):
    d = {"name": name, "function": function, "defines": {"INST_" + name: ""}, "harness": harness, "enforce": enforce,
         "slices": COMMON_SLICES + slices, "loops": loops, "min_obligations": minob, "tier": tier, "mutants": mutants}
    if extra: d.update(extra)
    return d
S_getBasis = S("Solver_getBasis.inc", SOLVER_HPP, r"SPxSolverBase<R>::getBasis\s*\(\s*VarStatus\s+row\[\]\s*,\s*VarStatus\s+col\[\]\s*,\s*const\s+int\s+rowsSize\s*,\s*const\s+int\s+colsSize\s*\)\s*const", [r"col\[i\]\s*=\s*basisStatusToVarStatus\(d\.colStatus\(i\)\)", r"return\s+status\(\);"])
S_isBasisValid = S("Solver_isBasisValid.inc", SOLVER_HPP, r"bool\s+SPxSolverBase<R>::isBasisValid\s*\(\s*DataArray<VarStatus>\s+p_rows\s*,\s*DataArray<VarStatus>\s+p_cols\s*\)", [r"basisdim\s*!=\s*(dim\(\)|this->nRows\(\))"])
S_setBasis = S("Solver_setBasis.inc", SOLVER_HPP, r"void\s+SPxSolverBase<R>::setBasis\s*\(\s*const\s+VarStatus\s+p_rows\[\]\s*,\s*const\s+VarStatus\s+p_cols\[\]\s*\)", [r"loadBasis\(ds\);", r"forceRecompNonbasicValue\(\);"])
S_isDescValid = S("Basis_isDescValid.inc", BASIS_HPP, r"bool\s+SPxBasisBase<R>::isDescValid\s*\(\s*const\s+Desc&\s+ds\s*\)", [r"basisdim\s*!=\s*theLP->nCols\(\)"])

getBasis_loops = [
 {"function": HBC, "loop": 0, "locals": ["i"],
  "invariants": ["-1 <= i && i < g_nc", "!(i < g_c && g_nc > 0) || (gp_col[g_c] == v_exp_c && g_valid_c)"],
  "assigns": ["i", "__CPROVER_object_whole(gp_col)"], "decreases": "i + 1"},
 {"function": HBC, "loop": 1, "locals": ["i"],
  "invariants": ["-1 <= i && i < g_nr", "!(i < g_r && g_nr > 0) || (gp_row[g_r] == v_exp_r && g_valid_r)"],
  "assigns": ["i", "__CPROVER_object_whole(gp_row)"], "decreases": "i + 1"},
]
valid_loops = lambda sign: [
 {"function": HB, "loop": 0, "locals": ["basisdim", "row"],
  "invariants": ["-1 <= row && row < g_nr",
                 "0 <= gp_cntR[row + 1] && gp_cntR[row + 1] <= gp_cntR[g_nr] && gp_cntR[g_nr] <= g_nr",
                 ("basisdim == gp_cntR[g_nr] - gp_cntR[row + 1]" if sign > 0 else "basisdim == (g_nr - 1 - row) - (gp_cntR[g_nr] - gp_cntR[row + 1])"),
                 "!(row < g_r) || g_ok_r"],
  "assigns": ["row", "basisdim"], "decreases": "row + 1"},
 {"function": HB, "loop": 1, "locals": ["basisdim", "col"],
  "invariants": ["-1 <= col && col < g_nc",
                 "0 <= gp_cntC[col + 1] && gp_cntC[col + 1] <= gp_cntC[g_nc] && gp_cntC[g_nc] <= g_nc && 0 <= gp_cntR[g_nr] && gp_cntR[g_nr] <= g_nr",
                 ("basisdim == gp_cntR[g_nr] + gp_cntC[g_nc] - gp_cntC[col + 1]" if sign > 0 else "basisdim == g_nr - gp_cntR[g_nr] + (g_nc - 1 - col) - (gp_cntC[g_nc] - gp_cntC[col + 1])"),
                 "!(col < g_c) || g_ok_c"],
  "assigns": ["col", "basisdim"], "decreases": "col + 1"},
]
setBasis_loops = [
 {"function": HB, "loop": 0, "locals": ["i"],
  "invariants": ["0 <= i && i <= g_nr", "!(g_r < i && g_nr > 0) || (gp_row[g_r] == v_exp_r && g_valid_r)"],
  "assigns": ["i", "__CPROVER_object_whole(gp_row)"], "decreases": "g_nr - i"},
 {"function": HB, "loop": 1, "locals": ["i"],
  "invariants": ["0 <= i && i <= g_nc", "!(g_c < i && g_nc > 0) || (gp_col[g_c] == v_exp_c && g_valid_c)"],
  "assigns": ["i", "__CPROVER_object_whole(gp_col)"], "decreases": "g_nc - i"},
]
ibv_mut = [
 {"name": "accept_upper_at_infinity", "slice": "Solver_isBasisValid.inc", "find": "p_cols[col] == ON_UPPER && this->upper(col) >= R(infinity)", "replace": "p_cols[col] == ON_UPPER && this->upper(col) > R(infinity)"},
 {"name": "fixed_rows_unchecked", "slice": "Solver_isBasisValid.inc", "find": "p_rows[row] == FIXED && this->lhs(row) != this->rhs(row)", "replace": "p_rows[row] == FIXED && this->lhs(row) != this->lhs(row)"},
 {"name": "lower_checks_rhs", "slice": "Solver_isBasisValid.inc", "find": "p_rows[row] == ON_LOWER && this->lhs(row) <= R(-infinity)", "replace": "p_rows[row] == ON_LOWER && this->rhs(row) <= R(-infinity)"},
 {"name": "skip_last_row", "slice": "Solver_isBasisValid.inc", "find": "for(int row = this->nRows() - 1; row >= 0; --row)", "replace": "for(int row = this->nRows() - 1; row > 0; --row)"},
 {"name": "count_off", "slice": "Solver_isBasisValid.inc", "regex": True, "find": r"if\(basisdim != (dim\(\)|this->nRows\(\))\)", "replace": r"if(basisdim < \1)"},
 {"name": "undefined_col_ok", "slice": "Solver_isBasisValid.inc", "find": "if(p_cols[col] == UNDEFINED)\n            return false;", "replace": "if(p_cols[col] == UNDEFINED)\n            continue;"},
]
insts = [
 inst("getBasis", "SPxSolverBase<R>::getBasis(VarStatus row[], VarStatus col[], const int, const int) const", "h_getBasis", "w_getBasis",
      [S_getBasis], getBasis_loops, [
   {"name": "rows_from_colstat", "slice": "Solver_getBasis.inc", "find": "row[i] = basisStatusToVarStatus(d.rowStatus(i));", "replace": "row[i] = basisStatusToVarStatus(d.colStatus(i));"},
   {"name": "skip_col0", "slice": "Solver_getBasis.inc", "find": "for(i = this->nCols() - 1; i >= 0; --i)", "replace": "for(i = this->nCols() - 1; i > 0; --i)"},
   {"name": "callee_swap", "slice": "basisStatusToVarStatus.inc", "find": "vstat = ON_LOWER;", "replace": "vstat = ON_UPPER;"},
 ], 200),
 inst("setBasis", "SPxSolverBase<R>::setBasis(const VarStatus p_rows[], const VarStatus p_cols[])", "h_setBasis", "w_setBasis",
      [S_setBasis], setBasis_loops, [
   {"name": "cols_use_row_conv", "slice": "Solver_setBasis.inc", "find": "ds.colStatus(i) = varStatusToBasisStatusCol(i, p_cols[i]);", "replace": "ds.colStatus(i) = varStatusToBasisStatusRow(i, p_cols[i]);"},
   {"name": "rows_from_cols", "slice": "Solver_setBasis.inc", "find": "varStatusToBasisStatusRow(i, p_rows[i])", "replace": "varStatusToBasisStatusRow(i, p_cols[i])"},
   {"name": "no_load", "slice": "Solver_setBasis.inc", "find": "loadBasis(ds);", "replace": ""},
   {"name": "skip_row0", "slice": "Solver_setBasis.inc", "find": "for(i = 0; i < this->nRows(); i++)", "replace": "for(i = 1; i < this->nRows(); i++)"},
 ], 300),
 inst("isBasisValid_col", "SPxSolverBase<R>::isBasisValid(DataArray<VarStatus>, DataArray<VarStatus>) [COLUMN representation]", "h_isBasisValid", "w_isBasisValid",
      [S_isBasisValid], valid_loops(+1), ibv_mut, 300),
 inst("isBasisValid_row", "SPxSolverBase<R>::isBasisValid(DataArray<VarStatus>, DataArray<VarStatus>) [ROW representation]", "h_isBasisValid", "w_isBasisValid",
      [S_isBasisValid], valid_loops(+1), [ibv_mut[0]], 300),
 inst("isDescValid", "SPxBasisBase<R>::isDescValid(const Desc&)", "h_isDescValid", "w_isDescValid",
      [S_isDescValid], valid_loops(-1), [
   {"name": "dual_status_unchecked", "slice": "Basis_isDescValid.inc", "find": "if(ds.colstat[col] !=  dualColStatus(col))", "replace": "if(ds.colstat[col] !=  ds.colstat[col])"},
   {"name": "row_dual_from_col", "slice": "Basis_isDescValid.inc", "find": "if(ds.rowstat[row] != dualRowStatus(row))", "replace": "if(ds.rowstat[row] != dualColStatus(row))"},
   {"name": "accept_lower_at_infinity", "slice": "Basis_isDescValid.inc", "find": "ds.rowstat[row] == Desc::P_ON_LOWER && theLP->SPxLPBase<R>::lhs(row) <= R(-infinity)", "replace": "ds.rowstat[row] == Desc::P_ON_LOWER && theLP->SPxLPBase<R>::lhs(row) < R(-infinity)"},
   {"name": "count_vs_rows", "slice": "Basis_isDescValid.inc", "find": "if(basisdim != theLP->nCols())", "replace": "if(basisdim != theLP->nRows())"},
   {"name": "count_duals", "slice": "Basis_isDescValid.inc", "find": "basisdim++;\n\n         if((ds.colstat[col] == Desc::P_FIXED", "replace": "if((ds.colstat[col] == Desc::P_FIXED"},
 ], 300),
]
doc = {
 "property": ["C04"],
 "desc": "SPxSolverBase::getBasis / setBasis / isBasisValid and SPxBasisBase::isDescValid: per-entry validity at a ghost index, cardinality via ghost prefix counts, setBasis/getBasis through the real conversion bodies",
 "rmode": "double (IEEE, bit-precise)",
 "defines": {"CAP": "8"}, "defines_thorough": {"CAP": "256"}, "defines_small": {"CAP": "3"},
 "flags": ["--bounds-check", "--pointer-check", "--signed-overflow-check"],
 "timeout_s": 300,
 "extracts": EXTRACTS, "constants": CONSTANTS,
 "conformance": CONFORMANCE + [
   {"file": SOLVER_H, "regex": r"virtual\s+void\s+loadBasis\s*\(\s*const\s+typename\s+SPxBasisBase<R>::Desc&\s*\)\s*;", "why": "stubbed callee loadBasis(const Desc&)"},
   {"file": SOLVER_H, "regex": r"void\s+forceRecompNonbasicValue\s*\(\s*\)", "why": "stubbed callee forceRecompNonbasicValue()"},
   {"file": BASIS_H, "regex": r"virtual\s+void\s+load\s*\(\s*SPxSolverBase<R>\*\s*lp\s*,\s*bool\s+initSlackBasis\s*=\s*true\s*\)\s*;", "why": "stubbed callee SPxBasisBase::load(lp, initSlackBasis)"},
   {"file": "src/soplex/spxdesc.hpp", "regex": r"SPxBasisBase<R>::Desc::Desc\(const Desc& old\)\s*:\s*rowstat\(old\.rowstat\)\s*,\s*colstat\(old\.colstat\)", "why": "Desc copy constructor deep-copies both status arrays (stub: scratch storage)"},
 ],
 "trusted": COMMON_TRUSTED + [
   "status arrays and bound arrays capped at CAP entries (inductive loop proofs; the cap bounds the object size only)",
   "GHOST PREFIX COUNTS (isBasisValid, isDescValid): cntR/cntC are ghost arrays never read by the sliced code; each element access of the counted array instantiates at that index the defining recurrence cnt[n+1]==cnt[n]+[entry n basic] and two consequences (0<=cnt[n], cnt[n+1]<=cnt[size]) as __CPROVER_assume in the DataArray accessor hook; the contract's requires state cnt[0]==0 and 0<=cnt[size]<=size; the true prefix counts satisfy all of these for every input",
   "getBasis: SPxSolverBase::status() (solver status, return value of getBasis) is a stub returning m_status; not part of C04",
   "setBasis: callees SPxBasisBase::load, SPxSolverBase::loadBasis, forceRecompNonbasicValue are recording stubs (loadBasis snapshots the descriptor it receives at the ghost indices); what loadBasis/loadDesc then DO with the descriptor (status repair, basis matrix set-up) is outside this unit",
   "setBasis: the local copy `ds` of the descriptor lives in wrapper-provided scratch arrays with unspecified initial contents (the real copy constructor deep-copies; setBasis overwrites every entry)",
   "harnesses of isBasisValid/isDescValid place __CPROVER_assume(ret) AFTER the call, only so that the reachability canary is checked on the `true` path; it cannot affect obligations of the call",
 ],
 "replay": {"cpp": "replay.cpp", "asan": False,
            "extra_src": ["src/soplex/didxset.cpp", "src/soplex/idxset.cpp", "src/soplex/mpsinput.cpp", "src/soplex/nameset.cpp", "src/soplex/spxdefines.cpp",
                          "src/soplex/spxgithash.cpp", "src/soplex/spxid.cpp", "src/soplex/spxout.cpp", "src/soplex/usertimer.cpp", "src/soplex/wallclocktimer.cpp"]},
 "instances": insts,
}
EXPECTED_S = {"isDescValid": 70, "isBasisValid_col": 20, "isBasisValid_row": 20}
for i in insts:
    if i["name"] in EXPECTED_S: i["expected_s"] = EXPECTED_S[i["name"]]
dump(os.path.join(os.path.dirname(os.path.abspath(__file__)), "unit.json"), doc)
