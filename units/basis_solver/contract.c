/* Contracts for SPxSolverBase::getBasis / setBasis / isBasisValid and SPxBasisBase::isDescValid (C04).
 * "For all rows / columns" is stated at the ghost indices g_r / g_c (havoc'd by the harness, constrained only
 * to be in range).  The cardinality clause uses ghost prefix-count arrays cntR / cntC (cnt[k] = number of
 * basic entries among the first k; defining recurrence instantiated at every element access, see unit.cpp). */
#include "basis_spec_c.h"
int* gp_cntR; int* gp_cntC; const void* gp_arrR; const void* gp_arrC;
int* gp_desc_scratch_rows; int* gp_desc_scratch_cols;
int g_ok_r, g_ok_c;
int g_load_calls, g_loadBasis_calls, g_force_calls, g_loaded_r, g_loaded_c, g_loaded_nr, g_loaded_nc, g_force_after_load;
static void havoc_ghosts(void)
{
   g_nr = nondet_int(); g_nc = nondet_int(); g_r = nondet_int(); g_c = nondet_int(); v_r = nondet_int(); v_c = nondet_int();
   v_exp_r = nondet_int(); v_exp_c = nondet_int(); g_valid_r = nondet_int(); g_valid_c = nondet_int();
   v_old_r = nondet_int(); v_old_c = nondet_int(); g_ok_r = nondet_int(); g_ok_c = nondet_int(); g_throw_allowed = nondet_int();
   g_load_calls = nondet_int(); g_loadBasis_calls = nondet_int(); g_force_calls = nondet_int(); g_loaded_r = nondet_int();
   g_loaded_c = nondet_int(); g_loaded_nr = nondet_int(); g_loaded_nc = nondet_int(); g_force_after_load = nondet_int();
}
#ifdef INST_getBasis
#include "basis_getBasis_contract.h"
void h_getBasis(void)
{
   int* row; int* col; int* rowstat; int* colstat; int userow, usecol, nr, nc, rep, mstatus;
   havoc_ghosts();
   w_getBasis(row, userow, col, usecol, rowstat, colstat, nr, nc, rep, mstatus);
   CANARY();
}
#endif

#if defined(INST_isBasisValid_col) || defined(INST_isBasisValid_row)
/* returns true  ==>  sizes match, no UNDEFINED entry, no nonbasic entry at an infinite bound, no FIXED entry with
 * differing bounds, and the number of BASIC entries equals the number of rows. */
#ifdef INST_isBasisValid_col
#define THE_REP 1
#else
#define THE_REP (-1)
#endif
#define ENTRY_OK(v, l, u) ((v) != UNDEFINED && ((v) == BASIC || NONBASIC_OK(v, l, u)))
int w_isBasisValid(int* rows, int rsize, int* cols, int csize, double* lhs, double* rhs, int nr,
                   double* lower, double* upper, int nc, int rep, int* cntR, int* cntC)
__CPROVER_requires(0 <= nr && nr <= CAP && 0 <= nc && nc <= CAP && 0 <= rsize && rsize <= CAP && 0 <= csize && csize <= CAP)
__CPROVER_requires(g_nr == rsize && g_nc == csize && rep == THE_REP)
__CPROVER_requires(FRESH_INTS(rows, rsize) && FRESH_INTS(cols, csize) && FRESH_INTS(cntR, rsize + 1) && FRESH_INTS(cntC, csize + 1))
__CPROVER_requires(FRESH_DBLS(lhs, nr) && FRESH_DBLS(rhs, nr) && FRESH_DBLS(lower, nc) && FRESH_DBLS(upper, nc))
/* facts that hold for every prefix-count array */
__CPROVER_requires(cntR[0] == 0 && cntC[0] == 0 && 0 <= cntR[rsize] && cntR[rsize] <= rsize && 0 <= cntC[csize] && cntC[csize] <= csize)
__CPROVER_requires(GHOST_IN(g_r, (rsize == nr ? nr : 0)) && GHOST_IN(g_c, (csize == nc ? nc : 0)))
__CPROVER_requires(g_ok_r == ((rsize == nr && nr > 0) ? ENTRY_OK(rows[g_r], lhs[g_r], rhs[g_r]) : 1))
__CPROVER_requires(g_ok_c == ((csize == nc && nc > 0) ? ENTRY_OK(cols[g_c], lower[g_c], upper[g_c]) : 1))
__CPROVER_requires(g_throw_allowed == 0)
__CPROVER_assigns(gp_cntR, gp_cntC, gp_arrR, gp_arrC)
__CPROVER_ensures(__CPROVER_return_value ==> (rsize == nr && csize == nc))
__CPROVER_ensures(__CPROVER_return_value ==> (g_ok_r && g_ok_c))
__CPROVER_ensures(__CPROVER_return_value ==> cntR[rsize] + cntC[csize] == nr)
;
void h_isBasisValid(void)
{
   int* rows; int* cols; double* lhs; double* rhs; double* lower; double* upper; int* cntR; int* cntC; int rsize, csize, nr, nc, rep;
   havoc_ghosts();
   int ret = w_isBasisValid(rows, rsize, cols, csize, lhs, rhs, nr, lower, upper, nc, rep, cntR, cntC);
   __CPROVER_assume(ret);      /* the canary must be reachable on the `true` path, the only one the contract speaks about */
   CANARY();
}
#endif

#ifdef INST_isDescValid
/* returns true  ==>  sizes match; every dual (>= 0) entry is THE dual status of its bounds; no primal entry sits on an
 * infinite bound or is P_FIXED with differing bounds; the number of dual (= basic) entries equals the number of rows
 * (the code counts the primal entries against nCols, which is the same statement). */
#define DENTRY_OK(s, l, u) ((s) >= 0 ? (s) == DUALSTAT(l, u) : PRIMAL_OK(s, l, u))
int w_isDescValid(int* drs, int rsize, int* dcs, int csize, double* lhs, double* rhs, int nr,
                  double* lower, double* upper, int nc, int rep, int* cntR, int* cntC)
__CPROVER_requires(0 <= nr && nr <= CAP && 0 <= nc && nc <= CAP && 0 <= rsize && rsize <= CAP && 0 <= csize && csize <= CAP)
__CPROVER_requires(g_nr == rsize && g_nc == csize && REP_OK(rep))
__CPROVER_requires(FRESH_INTS(drs, rsize) && FRESH_INTS(dcs, csize) && FRESH_INTS(cntR, rsize + 1) && FRESH_INTS(cntC, csize + 1))
__CPROVER_requires(FRESH_DBLS(lhs, nr) && FRESH_DBLS(rhs, nr) && FRESH_DBLS(lower, nc) && FRESH_DBLS(upper, nc))
__CPROVER_requires(cntR[0] == 0 && cntC[0] == 0 && 0 <= cntR[rsize] && cntR[rsize] <= rsize && 0 <= cntC[csize] && cntC[csize] <= csize)
__CPROVER_requires(GHOST_IN(g_r, (rsize == nr ? nr : 0)) && GHOST_IN(g_c, (csize == nc ? nc : 0)))
__CPROVER_requires(g_ok_r == ((rsize == nr && nr > 0) ? DENTRY_OK(drs[g_r], lhs[g_r], rhs[g_r]) : 1))
__CPROVER_requires(g_ok_c == ((csize == nc && nc > 0) ? DENTRY_OK(dcs[g_c], lower[g_c], upper[g_c]) : 1))
__CPROVER_requires(g_throw_allowed == 0)
__CPROVER_assigns(gp_cntR, gp_cntC, gp_arrR, gp_arrC)
__CPROVER_ensures(__CPROVER_return_value ==> (rsize == nr && csize == nc))
__CPROVER_ensures(__CPROVER_return_value ==> (g_ok_r && g_ok_c))
__CPROVER_ensures(__CPROVER_return_value ==> cntR[rsize] + cntC[csize] == nr)
;
void h_isDescValid(void)
{
   int* drs; int* dcs; double* lhs; double* rhs; double* lower; double* upper; int* cntR; int* cntC; int rsize, csize, nr, nc, rep;
   havoc_ghosts();
   int ret = w_isDescValid(drs, rsize, dcs, csize, lhs, rhs, nr, lower, upper, nc, rep, cntR, cntC);
   __CPROVER_assume(ret);
   CANARY();
}
#endif

#ifdef INST_setBasis
/* the descriptor handed to loadBasis() has, for every row/column, the conversion of the caller's VarStatus
 * (nonbasic -> the primal status, BASIC -> the dual status of the bounds); loadBasis is called exactly once, then
 * forceRecompNonbasicValue; load(this,false) is called first iff no problem was loaded; the caller's arrays and the
 * basis' own descriptor are not written by setBasis itself.  A throw is possible only for an entry that is none of
 * the five VarStatus values (UNDEFINED included). */
#include "SPxBasis_SPxStatus.inc"
#define EXPECT(v, l, u) ((v) == BASIC ? DUALSTAT(l, u) : TOPRIMAL(v))
void w_setBasis(int* rows, int* cols, double* lhs, double* rhs, int nr, double* lower, double* upper, int nc,
                int* rowstat, int* colstat, int* dsr, int* dsc, int rep, int bstatus)
__CPROVER_requires(DIMS_OK(nr, nc) && REP_OK(rep))
__CPROVER_requires(FRESH_INTS(rows, nr) && FRESH_INTS(cols, nc) && FRESH_INTS(rowstat, nr) && FRESH_INTS(colstat, nc) && FRESH_INTS(dsr, nr) && FRESH_INTS(dsc, nc))
__CPROVER_requires(FRESH_DBLS(lhs, nr) && FRESH_DBLS(rhs, nr) && FRESH_DBLS(lower, nc) && FRESH_DBLS(upper, nc))
__CPROVER_requires(GHOST_IN(g_r, nr) && GHOST_IN(g_c, nc))
__CPROVER_requires(v_r == rows[g_r] && v_c == cols[g_c])
__CPROVER_requires(v_exp_r == EXPECT(v_r, lhs[g_r], rhs[g_r]) && v_exp_c == EXPECT(v_c, lower[g_c], upper[g_c]))
__CPROVER_requires(g_valid_r == VALID_VAR5(v_r) && g_valid_c == VALID_VAR5(v_c))
__CPROVER_requires(g_load_calls == 0 && g_loadBasis_calls == 0 && g_force_calls == 0 && g_throw_allowed == 1)
__CPROVER_assigns(gp_row, gp_col, gp_desc_scratch_rows, gp_desc_scratch_cols, __CPROVER_object_whole(dsr), __CPROVER_object_whole(dsc))
__CPROVER_assigns(g_load_calls, g_loadBasis_calls, g_force_calls, g_loaded_r, g_loaded_c, g_loaded_nr, g_loaded_nc, g_force_after_load)
__CPROVER_ensures(g_loadBasis_calls == 1 && g_force_calls == 1 && g_force_after_load == 1)
__CPROVER_ensures(g_load_calls == (bstatus == NO_PROBLEM ? 1 : 0))
__CPROVER_ensures(g_loaded_nr == nr && g_loaded_nc == nc)
__CPROVER_ensures(nr > 0 ==> (g_loaded_r == EXPECT(v_r, lhs[g_r], rhs[g_r]) && VALID_VAR5(v_r)))
__CPROVER_ensures(nc > 0 ==> (g_loaded_c == EXPECT(v_c, lower[g_c], upper[g_c]) && VALID_VAR5(v_c)))
__CPROVER_ensures(nr > 0 ==> (IS_DUAL(g_loaded_r) == (v_r == BASIC)))
__CPROVER_ensures(nc > 0 ==> (IS_DUAL(g_loaded_c) == (v_c == BASIC)))
;
void h_setBasis(void)
{
   int* rows; int* cols; double* lhs; double* rhs; double* lower; double* upper; int* rowstat; int* colstat; int* dsr; int* dsc; int nr, nc, rep, bstatus;
   havoc_ghosts();
   w_setBasis(rows, cols, lhs, rhs, nr, lower, upper, nc, rowstat, colstat, dsr, dsc, rep, bstatus);
   CANARY();
}
#endif
