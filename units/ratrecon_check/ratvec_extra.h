   /* (members of VectorBase<T>, unit ratrecon_check) */
   /* v = w: copy of the contents (vectorbase.h).  Modelled at the ghost cells: the destination becomes arbitrary except for the
      cells g_c and g_r, which receive the source cells (loop-free over-approximation; the contract speaks about these cells only,
      for every g_c, g_r).  Returns void: the sliced code uses the assignment as a statement only. */
   void operator=(const VectorBase<T>& o)
   {
      int n = o.dimen; T* d = val; const T* s = o.val;
      T a = 0, b = 0;
      if(0 <= g_c && g_c < n) a = s[g_c];
      if(0 <= g_r && g_r < n) b = s[g_r];
      if(n > 0) __CPROVER_havoc_object(d);
      if(0 <= g_c && g_c < n) d[g_c] = a;
      if(0 <= g_r && g_r < n) d[g_r] = b;
      dimen = n;
      g_vec_assigns++;
   }
   /* reDim(n): new dimension (storage of the stub vectors is large enough: asserted by the pointer checks on access) */
   void reDim(int n) { __CPROVER_assert(0 <= n, "reDim(n): n >= 0"); dimen = n; }
