/* C03: contract of SoPlexBase<R>::_reconstructSolutionRational.  Rational = ordered-group integer (long long; the body only
 * compares, copies and takes signs - no arithmetic on Rational values outside the dropped debug output).
 * Specification = the property text: "OPTIMAL comes with rational primal and dual vectors that satisfy every bound, side and
 * dual sign condition exactly", stated at the ghost column g_c and the ghost row g_r, RELATIVE to the slacks / reduced costs
 * produced by computePrimalActivity / getObj+subDualActivity (arbitrary here) and the range types (C07).
 * Dual sign conditions from LP duality (r = c - A'y):  min: r_j > 0 => x_j at its (finite) lower bound, r_j < 0 => at its
 * (finite) upper bound; y_i likewise with the row's lhs / rhs.  max: an increase of x_j with r_j > 0 would improve the
 * objective, so x_j must sit at its upper bound; r_j < 0 => lower bound; rows likewise. */
#include "verif_c.h"
#ifndef CAP
#define CAP 8
#endif
typedef long long Rational;
#include "VarStatus.inc"
#include "RangeType.inc"
#include "ObjSense.inc"

int g_c, g_r, g_nc, g_nr, g_vec_assigns;
Rational v_P, v_S, v_D, v_RC, g_denom;
int g_recon_calls, g_recon1_ok, g_recon2_ok, g_b1, g_b2, g_cpa_calls, g_cpa_ok, g_getobj_calls, g_getobj_ok, g_sub_calls, g_sub_ok, g_addidx;
Rational* gp_wp; Rational* gp_ws; Rational* gp_wd; Rational* gp_wr; Rational* gp_sp; Rational* gp_ss; Rational* gp_sd; Rational* gp_sr;
int* gp_rstat; int* gp_cstat; const void* gp_basic;
/* ghost copies of the inputs at the ghost column / row */
Rational v_L, v_U, v_lhs, v_rhs, v_sp0, v_ss0, v_sd0, v_sr0; int v_ct, v_rt, v_cst, v_rst, g_maxi, v_hb0;
/* enumerator values for the loop invariants */
int K_ON_UPPER, K_ON_LOWER, K_FIXED, K_ZERO, K_BASIC, K_UNDEFINED, K_LOWER, K_UPPER, K_BOXED, K_RFIXED;
void verif_throw(void) {}

#define LOWERFIN(t) ((t) == RANGETYPE_LOWER || (t) == RANGETYPE_BOXED || (t) == RANGETYPE_FIXED)
#define UPPERFIN(t) ((t) == RANGETYPE_UPPER || (t) == RANGETYPE_BOXED || (t) == RANGETYPE_FIXED)
#define MAXI (objsense == OBJSENSE_MAXIMIZE)
/* the multiplier demands "at the lower bound / lhs" resp. "at the upper bound / rhs" */
#define NEEDS_LOWER(v) (MAXI ? (v) < 0 : (v) > 0)
#define NEEDS_UPPER(v) (MAXI ? (v) > 0 : (v) < 0)
/* the code's definition of "not basic": a nonbasic status whose bound the value does not sit on, an undefined status, or a
   nonzero multiplier on a BASIC / UNDEFINED variable */
#define PRIM_OFF(st, x, lo, up) (((st) == FIXED && (x) != (lo)) || ((st) == ON_LOWER && (x) != (lo)) || ((st) == ON_UPPER && (x) != (up)) || \
                                 ((st) == ZERO && (x) != 0) || (st) == UNDEFINED)
#define DUAL_OFF(st, m) ((NEEDS_LOWER(m) || NEEDS_UPPER(m)) && ((st) == BASIC || (st) == UNDEFINED))
/* status after the multiplier check */
#define NEWSTAT(st, m) (NEEDS_LOWER(m) ? (((st) == ON_LOWER || (st) == FIXED || (st) == BASIC || (st) == UNDEFINED) ? (st) : ON_LOWER) : \
                        NEEDS_UPPER(m) ? (((st) == ON_UPPER || (st) == FIXED || (st) == BASIC || (st) == UNDEFINED) ? (st) : ON_UPPER) : (st))
#define RET (__CPROVER_return_value != 0)
/* The contract is discharged in two instances (one SAT query of the whole contract takes ~170 s): GHOST_COLS states the
   clauses about the ghost column, GHOST_ROWS those about the ghost row; the call-protocol clauses are in both. */
#if defined(GHOST_COLS)
#define COLS(e) (e)
#define ROWS(e) 1
#elif defined(GHOST_ROWS)
#define COLS(e) 1
#define ROWS(e) (e)
#else
#define COLS(e) (e)
#define ROWS(e) (e)
#endif

int w_recon(Rational* lo, Rational* up, Rational* lhs, Rational* rhs, int* ctypes, int* rtypes, int* cstat, int* rstat,
            Rational* sp, Rational* ss, Rational* sd, Rational* sr, Rational* wp, Rational* ws, Rational* wd, Rational* wr,
            int nc, int nr, int objsense, int primalFeas, int dualFeas, int* hasBasis, Rational denom)
__CPROVER_requires(0 < nc && nc <= CAP && 0 < nr && nr <= CAP && g_nc == nc && g_nr == nr)
__CPROVER_requires(__CPROVER_is_fresh(lo, nc * sizeof(Rational)) && __CPROVER_is_fresh(up, nc * sizeof(Rational)))
__CPROVER_requires(__CPROVER_is_fresh(lhs, nr * sizeof(Rational)) && __CPROVER_is_fresh(rhs, nr * sizeof(Rational)))
__CPROVER_requires(__CPROVER_is_fresh(ctypes, nc * sizeof(int)) && __CPROVER_is_fresh(rtypes, nr * sizeof(int)))
__CPROVER_requires(__CPROVER_is_fresh(cstat, nc * sizeof(int)) && __CPROVER_is_fresh(rstat, nr * sizeof(int)))
__CPROVER_requires(__CPROVER_is_fresh(sp, nc * sizeof(Rational)) && __CPROVER_is_fresh(sr, nc * sizeof(Rational)))
__CPROVER_requires(__CPROVER_is_fresh(ss, nr * sizeof(Rational)) && __CPROVER_is_fresh(sd, nr * sizeof(Rational)))
__CPROVER_requires(__CPROVER_is_fresh(wp, nc * sizeof(Rational)) && __CPROVER_is_fresh(wr, nc * sizeof(Rational)))
__CPROVER_requires(__CPROVER_is_fresh(ws, nr * sizeof(Rational)) && __CPROVER_is_fresh(wd, nr * sizeof(Rational)))
__CPROVER_requires(__CPROVER_is_fresh(hasBasis, sizeof(int)) && (*hasBasis == 0 || *hasBasis == 1) && v_hb0 == *hasBasis)
__CPROVER_requires(objsense == OBJSENSE_MINIMIZE || objsense == OBJSENSE_MAXIMIZE)
__CPROVER_requires(g_maxi == (MAXI ? 1 : 0))
__CPROVER_requires(0 <= g_c && g_c < nc && 0 <= g_r && g_r < nr)
__CPROVER_requires(v_L == lo[g_c] && v_U == up[g_c] && v_ct == ctypes[g_c] && v_cst == cstat[g_c] && v_sp0 == sp[g_c] && v_sr0 == sr[g_c])
__CPROVER_requires(v_lhs == lhs[g_r] && v_rhs == rhs[g_r] && v_rt == rtypes[g_r] && v_rst == rstat[g_r] && v_ss0 == ss[g_r] && v_sd0 == sd[g_r])
__CPROVER_assigns(g_vec_assigns, v_P, v_S, v_D, v_RC, g_denom, g_recon_calls, g_recon1_ok, g_recon2_ok, g_b1, g_b2, g_cpa_calls, g_cpa_ok)
__CPROVER_assigns(g_getobj_calls, g_getobj_ok, g_sub_calls, g_sub_ok, g_addidx, gp_wp, gp_ws, gp_wd, gp_wr, gp_sp, gp_ss, gp_sd, gp_sr, gp_rstat, gp_cstat, gp_basic)
__CPROVER_assigns(__CPROVER_object_whole(wp), __CPROVER_object_whole(ws), __CPROVER_object_whole(wd), __CPROVER_object_whole(wr))
__CPROVER_assigns(__CPROVER_object_whole(sp), __CPROVER_object_whole(ss), __CPROVER_object_whole(sd), __CPROVER_object_whole(sr))
__CPROVER_assigns(__CPROVER_object_whole(cstat), __CPROVER_object_whole(rstat), *hasBasis)
/* ---- nothing is attempted without a primal and dual feasible input solution --------------------------------------------- */
__CPROVER_ensures((!primalFeas || !dualFeas) ==> (!RET && g_recon_calls == 0 && COLS(cstat[g_c] == v_cst) && ROWS(rstat[g_r] == v_rst)))
/* ---- RETURN FALSE: the solution is untouched ----------------------------------------------------------------------------- */
__CPROVER_ensures(!RET ==> (COLS(sp[g_c] == v_sp0 && sr[g_c] == v_sr0) && ROWS(ss[g_r] == v_ss0 && sd[g_r] == v_sd0) && *hasBasis == v_hb0))
/* a failed reconstruction is never accepted */
__CPROVER_ensures((g_recon_calls >= 1 && !g_b1) ==> (!RET && g_recon_calls == 1))
__CPROVER_ensures((g_recon_calls >= 2 && !g_b2) ==> !RET)
/* ---- RETURN TRUE --------------------------------------------------------------------------------------------------------- */
/* both vectors were reconstructed (primal with the basic index set, dual without, same bound), slacks and reduced costs were
   computed once from exactly these vectors */
__CPROVER_ensures(RET ==> (g_recon_calls == 2 && g_recon1_ok && g_recon2_ok && g_b1 && g_b2))
__CPROVER_ensures(RET ==> (g_cpa_calls == 1 && g_cpa_ok && g_getobj_calls == 1 && g_getobj_ok && g_sub_calls == 1 && g_sub_ok))
/* sol is updated with exactly the work vectors: the reconstructed primal / dual and the slacks / reduced costs computed from them */
__CPROVER_ensures(RET ==> (COLS(sp[g_c] == v_P && wp[g_c] == v_P) && ROWS(ss[g_r] == v_S && ws[g_r] == v_S)))
__CPROVER_ensures(RET ==> (ROWS(sd[g_r] == v_D && wd[g_r] == v_D) && COLS(sr[g_c] == v_RC && wr[g_c] == v_RC)))
/* every finite bound and side holds exactly */
__CPROVER_ensures(RET ==> COLS((LOWERFIN(v_ct) ==> v_L <= sp[g_c]) && (UPPERFIN(v_ct) ==> sp[g_c] <= v_U)))
__CPROVER_ensures(RET ==> ROWS((LOWERFIN(v_rt) ==> v_lhs <= ss[g_r]) && (UPPERFIN(v_rt) ==> ss[g_r] <= v_rhs)))
/* every dual sign condition holds exactly (complementary slackness) */
__CPROVER_ensures(ROWS((RET && NEEDS_LOWER(sd[g_r])) ==> (LOWERFIN(v_rt) && ss[g_r] == v_lhs)))
__CPROVER_ensures(ROWS((RET && NEEDS_UPPER(sd[g_r])) ==> (UPPERFIN(v_rt) && ss[g_r] == v_rhs)))
__CPROVER_ensures(COLS((RET && NEEDS_LOWER(sr[g_c])) ==> (LOWERFIN(v_ct) && sp[g_c] == v_L)))
__CPROVER_ensures(COLS((RET && NEEDS_UPPER(sr[g_c])) ==> (UPPERFIN(v_ct) && sp[g_c] == v_U)))
/* LP data and range types untouched; basis statuses: a nonbasic status is moved to the side its multiplier demands */
__CPROVER_ensures(lo[g_c] == v_L && up[g_c] == v_U && ctypes[g_c] == v_ct && lhs[g_r] == v_lhs && rhs[g_r] == v_rhs && rtypes[g_r] == v_rt)
__CPROVER_ensures(RET ==> (COLS(cstat[g_c] == NEWSTAT(v_cst, v_RC)) && ROWS(rstat[g_r] == NEWSTAT(v_rst, v_D))))
/* _hasBasis is never set, and it is cleared if the ghost column / row makes the solution non-basic (code's definition) */
__CPROVER_ensures(*hasBasis == 0 || *hasBasis == v_hb0)
__CPROVER_ensures(COLS((RET && (PRIM_OFF(v_cst, v_P, v_L, v_U) || DUAL_OFF(v_cst, v_RC))) ==> *hasBasis == 0))
__CPROVER_ensures(ROWS((RET && (PRIM_OFF(v_rst, v_S, v_lhs, v_rhs) || DUAL_OFF(v_rst, v_D))) ==> *hasBasis == 0))
;

void h_recon(void)
{
   Rational* lo; Rational* up; Rational* lhs; Rational* rhs; int* ctypes; int* rtypes; int* cstat; int* rstat;
   Rational* sp; Rational* ss; Rational* sd; Rational* sr; Rational* wp; Rational* ws; Rational* wd; Rational* wr;
   int nc, nr, objsense, primalFeas, dualFeas; int* hasBasis; Rational denom;
   g_c = nondet_int(); g_r = nondet_int(); g_nc = nondet_int(); g_nr = nondet_int(); g_maxi = nondet_int(); v_hb0 = nondet_int();
   v_L = nondet_ll(); v_U = nondet_ll(); v_lhs = nondet_ll(); v_rhs = nondet_ll(); v_sp0 = nondet_ll(); v_ss0 = nondet_ll(); v_sd0 = nondet_ll(); v_sr0 = nondet_ll();
   v_ct = nondet_int(); v_rt = nondet_int(); v_cst = nondet_int(); v_rst = nondet_int();
   v_P = nondet_ll(); v_S = nondet_ll(); v_D = nondet_ll(); v_RC = nondet_ll();
   K_ON_UPPER = ON_UPPER; K_ON_LOWER = ON_LOWER; K_FIXED = FIXED; K_ZERO = ZERO; K_BASIC = BASIC; K_UNDEFINED = UNDEFINED;
   K_LOWER = RANGETYPE_LOWER; K_UPPER = RANGETYPE_UPPER; K_BOXED = RANGETYPE_BOXED; K_RFIXED = RANGETYPE_FIXED;
   w_recon(lo, up, lhs, rhs, ctypes, rtypes, cstat, rstat, sp, ss, sd, sr, wp, ws, wd, wr, nc, nr, objsense, primalFeas, dualFeas, hasBasis, denom);
   CANARY();
}
