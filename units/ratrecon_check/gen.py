#!/usr/bin/env python3
"""Generates unit.json of the ratrecon_check unit (C03: _reconstructSolutionRational).  Host and helper slices of units/ratviol."""
import json, os
here = os.path.dirname(os.path.abspath(__file__))
rv = json.load(open(os.path.join(here, "..", "ratviol", "unit.json")))
HELPERS = [s for s in [i for i in rv["instances"] if i["name"] == "_isRefinementOver"][0]["slices"] if s["as"] != "_isRefinementOver.inc"]
RAT = "src/soplex/solverational.hpp"

LFc = "(v_ct==K_LOWER||v_ct==K_BOXED||v_ct==K_RFIXED)"; UFc = "(v_ct==K_UPPER||v_ct==K_BOXED||v_ct==K_RFIXED)"
LFr = "(v_rt==K_LOWER||v_rt==K_BOXED||v_rt==K_RFIXED)"; UFr = "(v_rt==K_UPPER||v_rt==K_BOXED||v_rt==K_RFIXED)"
def prim_off(st, x, lo, up):
    return "((%s==K_FIXED && %s!=%s)||(%s==K_ON_LOWER && %s!=%s)||(%s==K_ON_UPPER && %s!=%s)||(%s==K_ZERO && %s!=0)||%s==K_UNDEFINED)" % (
        st, x, lo, st, x, lo, st, x, up, st, x, st)
OFF_C = prim_off("v_cst", "v_P", "v_L", "v_U"); OFF_R = prim_off("v_rst", "v_S", "v_lhs", "v_rhs")
def nl(m): return "(g_maxi ? %s<0 : %s>0)" % (m, m)
def nu(m): return "(g_maxi ? %s>0 : %s<0)" % (m, m)
def bu(st): return "(%s==K_BASIC||%s==K_UNDEFINED)" % (st, st)
def newstat(st, m):
    return ("(%s ? ((%s==K_ON_LOWER||%s==K_FIXED||%s) ? %s : K_ON_LOWER) : %s ? ((%s==K_ON_UPPER||%s==K_FIXED||%s) ? %s : K_ON_UPPER) : %s)"
            % (nl(m), st, st, bu(st), st, nu(m), st, st, bu(st), st, st))
BOUNDS_C = "((%s ? v_L<=v_P : 1) && (%s ? v_P<=v_U : 1))" % (LFc, UFc)
BOUNDS_R = "((%s ? v_lhs<=v_S : 1) && (%s ? v_S<=v_rhs : 1))" % (LFr, UFr)
CARRY_C = "(%s ? !isSolBasic : 1)" % OFF_C
CARRY_R = "(%s ? !isSolBasic : 1)" % OFF_R
DUAL_R = ("((%s ? (%s && v_S==v_lhs) : 1) && (%s ? (%s && v_S==v_rhs) : 1) && gp_rstat[g_r]==%s && (((%s||%s) && %s) ? !isSolBasic : 1))"
          % (nl("v_D"), LFr, nu("v_D"), UFr, newstat("v_rst", "v_D"), nl("v_D"), nu("v_D"), bu("v_rst")))
DUAL_C = ("((%s ? (%s && v_P==v_L) : 1) && (%s ? (%s && v_P==v_U) : 1) && gp_cstat[g_c]==%s && (((%s||%s) && %s) ? !isSolBasic : 1))"
          % (nl("v_RC"), LFc, nu("v_RC"), UFc, newstat("v_cst", "v_RC"), nl("v_RC"), nu("v_RC"), bu("v_cst")))
F = r"H::body\(this\)"
ROWCARRY = "(((%s||%s) && %s) ? !isSolBasic : 1)" % (nl("v_D"), nu("v_D"), bu("v_rst"))
def mkloops(cols, rows):
    T = "1"
    return [
        {"function": F, "loop": 0, "locals": ["j"], "invariants": ["0<=j && j<=g_nc && 0<=g_addidx && g_addidx<=j"], "assigns": ["j", "g_addidx"], "decreases": "g_nc-j"},
        {"function": F, "loop": 1, "locals": [["c", "3::c"], "isSolBasic"],
         "invariants": ["-1<=c && c<g_nc"] + (["(g_c>c) ? (%s && %s) : 1" % (BOUNDS_C, CARRY_C)] if cols else []),
         "assigns": ["c", "isSolBasic"], "decreases": "c+1"},
        {"function": F, "loop": 2, "locals": [["r", "4::r"], "isSolBasic"],
         "invariants": ["-1<=r && r<g_nr"] + ([CARRY_C] if cols else []) + (["(g_r>r) ? (%s && %s) : 1" % (BOUNDS_R, CARRY_R)] if rows else []),
         "assigns": ["r", "isSolBasic"], "decreases": "r+1"},
        {"function": F, "loop": 3, "locals": [["r2", "6::r"], "isSolBasic"],
         "invariants": ["-1<=r2 && r2<g_nr"] + ([CARRY_C] if cols else []) + ([CARRY_R, "(g_r>r2) ? %s : gp_rstat[g_r]==v_rst" % DUAL_R] if rows else []),
         "assigns": ["r2", "isSolBasic", "__CPROVER_object_whole(gp_rstat)"], "decreases": "r2+1"},
        {"function": F, "loop": 4, "locals": [["c2", "7::c"], "isSolBasic"],
         "invariants": ["-1<=c2 && c2<g_nc"] + ([CARRY_C, "(g_c>c2) ? %s : gp_cstat[g_c]==v_cst" % DUAL_C] if cols else []) + ([CARRY_R, ROWCARRY, "gp_rstat[g_r]==%s" % newstat("v_rst", "v_D")] if rows else []),
         "assigns": ["c2", "isSolBasic", "__CPROVER_object_whole(gp_cstat)"], "decreases": "c2+1"},
    ]
M = "_reconstructSolutionRational.inc"
mutants = [
    {"name": "lower_bound_test", "find": "if(_lowerFinite(_colTypes[c]) && _workSol._primal[c] < lowerRational(c))", "replace": "if(_lowerFinite(_colTypes[c]) && _workSol._primal[c] > lowerRational(c))"},
    {"name": "upper_bound_test", "find": "if(_upperFinite(_colTypes[c]) && _workSol._primal[c] > upperRational(c))", "replace": "if(_upperFinite(_colTypes[c]) && _workSol._primal[c] > lowerRational(c))"},
    {"name": "lhs_test", "find": "if(_lowerFinite(_rowTypes[r]) && _workSol._slacks[r] < lhsRational(r))", "replace": "if(_upperFinite(_rowTypes[r]) && _workSol._slacks[r] < lhsRational(r))"},
    {"name": "rhs_test", "find": "if(_upperFinite(_rowTypes[r]) && _workSol._slacks[r] > rhsRational(r))", "replace": "if(_upperFinite(_rowTypes[r]) && _workSol._slacks[r] < rhsRational(r))"},
    {"name": "dual_lhs_cs", "find": "if(!_lowerFinite(_rowTypes[r]) || _workSol._slacks[r] > lhsRational(r))", "replace": "if(!_lowerFinite(_rowTypes[r]) || _workSol._slacks[r] < lhsRational(r))"},
    {"name": "dual_rhs_cs", "find": "if(!_upperFinite(_rowTypes[r]) || _workSol._slacks[r] < rhsRational(r))", "replace": "if(!_upperFinite(_rowTypes[r]))"},
    {"name": "redcost_lower_cs", "find": "if(!_lowerFinite(_colTypes[c]) || _workSol._primal[c] > lowerRational(c))", "replace": "if(_workSol._primal[c] > lowerRational(c))"},
    {"name": "redcost_upper_cs_and_for_or", "find": "if(!_upperFinite(_colTypes[c]) || _workSol._primal[c] < upperRational(c))", "replace": "if(!_upperFinite(_colTypes[c]) && _workSol._primal[c] < upperRational(c))"},
    {"name": "dual_sense_flipped", "find": "if((!maximizing && sig > 0) || (maximizing && sig < 0))\n      {\n         if(!_lowerFinite(_rowTypes[r])", "replace": "if((maximizing && sig > 0) || (!maximizing && sig < 0))\n      {\n         if(!_lowerFinite(_rowTypes[r])"},
    {"name": "redcost_sense_flipped", "find": "if((!maximizing && sig > 0) || (maximizing && sig < 0))\n      {\n         if(!_lowerFinite(_colTypes[c])", "replace": "if((maximizing && sig > 0) || (!maximizing && sig < 0))\n      {\n         if(!_lowerFinite(_colTypes[c])"},
    {"name": "failed_dual_reconstruction_accepted", "regex": True, "find": r"(success = reconstructVector\(_workSol\._dual, denomBoundSquared\);\s*)if\(!success\)", "replace": r"\1if(false)"},
    {"name": "slacks_not_stored", "find": "sol._slacks = _workSol._slacks;", "replace": "sol._slacks = sol._slacks;"},
    {"name": "redcost_from_old_dual", "find": "_rationalLP->subDualActivity(_workSol._dual, _workSol._redCost);", "replace": "_rationalLP->subDualActivity(sol._dual, _workSol._redCost);"},
    {"name": "nonbasic_not_reported", "find": "if(!isSolBasic)", "replace": "if(false)"},
]
def mkinst(name, define, cols, rows, muts):
  return {
    "name": name, "defines": {define: ""},
    "function": "SoPlexBase<R>::_reconstructSolutionRational(SolRational& sol, DataArray<VarStatus>& basisStatusRows, DataArray<VarStatus>& basisStatusCols, const Rational& denomBoundSquared)  [src/soplex/solverational.hpp]",
    "harness": "h_recon", "enforce": "w_recon",
    "slices": HELPERS + [{"as": M, "file": RAT,
                          "sig": r"bool\s+SoPlexBase<R>::_reconstructSolutionRational\s*\(\s*SolRational&\s*sol\s*,\s*DataArray<\s*typename\s+SPxSolverBase<R>::VarStatus\s*>&\s*basisStatusRows\s*,\s*"
                                 r"DataArray<\s*typename\s+SPxSolverBase<R>::VarStatus\s*>&\s*basisStatusCols\s*,\s*const\s+Rational&\s*denomBoundSquared\s*\)",
                          "must_contain": [r"reconstructVector\(_workSol\._primal, denomBoundSquared, &basicIndices\)", r"reconstructVector\(_workSol\._dual, denomBoundSquared\)",
                                           r"_rationalLP->computePrimalActivity\(_workSol\._primal, _workSol\._slacks\);", r"_rationalLP->subDualActivity\(_workSol\._dual, _workSol\._redCost\);",
                                           r"sol\._primal = _workSol\._primal;\s*sol\._slacks = _workSol\._slacks;\s*sol\._dual = _workSol\._dual;\s*sol\._redCost = _workSol\._redCost;"]}],
    "loops": mkloops(cols, rows), "min_obligations": 300, "tier": "quick", "expected_s": 80,
    "mutants": [dict(m, slice=M) for m in mutants if m["name"] in muts],
}
COLMUT = ["lower_bound_test", "upper_bound_test", "redcost_lower_cs", "redcost_upper_cs_and_for_or", "redcost_from_old_dual", "nonbasic_not_reported", "redcost_sense_flipped"]
ROWMUT = ["lhs_test", "rhs_test", "dual_lhs_cs", "dual_rhs_cs", "dual_sense_flipped", "failed_dual_reconstruction_accepted", "slacks_not_stored", "nonbasic_not_reported"]
insts = [mkinst("_reconstructSolutionRational_cols", "GHOST_COLS", True, False, COLMUT), mkinst("_reconstructSolutionRational_rows", "GHOST_ROWS", False, True, ROWMUT)]
unit = {
    "property": ["C03"],
    "desc": "acceptance check of rational reconstruction: SoPlexBase<R>::_reconstructSolutionRational (solverational.hpp) accepts a reconstructed primal-dual pair only if "
            "every bound, side and dual sign condition holds exactly; reconstructVector and the matrix-vector products are arbitrary",
    "rmode": "ordered-group int (Rational = long long; the body only compares, copies and takes signs)",
    "defines": {"CAP": "8"}, "defines_thorough": {"CAP": "16"}, "defines_small": {"CAP": "3"},
    "flags": ["--bounds-check", "--pointer-check", "--signed-overflow-check"],
    "timeout_s": 300,
    "extracts": rv["extracts"] + [{"as": "ObjSense.inc", "file": "src/soplex.h", "regex": r"enum\s*\{[^{}]*?OBJSENSE_MINIMIZE[^{}]*?OBJSENSE_MAXIMIZE[^{}]*?\};"}],
    "conformance": rv["conformance"] + [
        {"file": "src/soplex/ratrecon.h", "regex": r"bool\s+reconstructVector\(VectorRational&\s*input,\s*const\s+Rational&\s*denomBoundSquared,\s*const\s+DIdxSet\*\s*indexSet\s*=\s*nullptr\);", "why": "reconstructVector stub signature"},
        {"file": "src/soplex/rational.h", "regex": r"inline\s+friend\s+int\s+sign\(const\s+Rational&\s*r\)", "why": "sign stub"},
        {"file": "src/soplex/spxlpbase.h", "regex": r"virtual\s+void\s+computePrimalActivity\(const\s+VectorBase<R>&\s*primal,\s*VectorBase<R>&\s*activity,", "why": "RatLP::computePrimalActivity parameter order"},
        {"file": "src/soplex/spxlpbase.h", "regex": r"void\s+getObj\(VectorBase<R>&\s*pobj\)\s*const", "why": "RatLP::getObj"},
        {"file": "src/soplex/spxlpbase.h", "regex": r"virtual\s+void\s+subDualActivity\(const\s+VectorBase<R>&\s*dual,\s*VectorBase<R>&\s*activity\)\s*const", "why": "RatLP::subDualActivity parameter order"},
        {"file": "src/soplex/solbase.h", "regex": r"bool\s+isPrimalFeasible\(\)\s*const\s*\{\s*return\s+_isPrimalFeasible;", "why": "SolRational::isPrimalFeasible"},
        {"file": "src/soplex/solbase.h", "regex": r"bool\s+isDualFeasible\(\)\s*const\s*\{\s*return\s+_isDualFeasible;", "why": "SolRational::isDualFeasible"},
        {"file": "src/soplex/statistics.h", "regex": r"Timer\*\s+reconstructionTime;", "why": "Statistics stub"},
        {"file": "src/soplex/statistics.h", "regex": r"int\s+rationalReconstructions;", "why": "Statistics stub"},
        {"file": "src/soplex.h", "regex": r"SolRational\s+_workSol;", "why": "host member"},
        {"file": "src/soplex.h", "regex": r"bool\s+_hasBasis;", "why": "host member"},
        {"file": "src/soplex/didxset.h", "regex": r"void\s+addIdx\(int i\)", "why": "DIdxSet stub"},
        {"file": "src/soplex/solverational.hpp", "regex": r"if\(_reconstructSolutionRational\(sol, _basisStatusRows, _basisStatusCols, maxViolation\)\)", "why": "only call site passes the members as basisStatusRows/basisStatusCols (the wrapper does the same)"},
    ],
    "trusted": [
        "host, Rational = ordered-group long long, VectorRational / RatLP / SolRational / Statistics stubs and the sliced accessors (numRowsRational ... intParam) are those of units/ratviol (its unit.cpp is included; extension hooks add the members this function needs)",
        "reconstructVector(v, denom, indexSet) is a STUB: overwrites v with arbitrary values and returns an arbitrary bool (both recorded): the continued-fraction number theory is not under contract",
        "SPxLPRational::computePrimalActivity / getObj / subDualActivity are STUBS producing arbitrary slacks / reduced costs (argument identity and call counts recorded): the contract is relative to them; that they compute A x and c - A'y is not proved",
        "sign(x) is the mathematical sign; DIdxSet is an identity-only stub; Timer start/stop and the statistics counter are no-ops; SPX_MSG_*, SPxOut::debug dropped; assert() compiled out",
        "vector assignment v = w is modelled at the ghost cells (destination otherwise arbitrary; loop-free over-approximation)",
        "the reference parameters basisStatusRows / basisStatusCols are bound to the members _basisStatusRows / _basisStatusCols, as at the only call site (conformance-checked)",
        "the contract is discharged in two instances (-DGHOST_COLS: clauses about the ghost column, -DGHOST_ROWS: clauses about the ghost row; call-protocol clauses in both) because one SAT query of the whole contract takes ~170 s; all five loops carry loop contracts (no unwinding); vector lengths capped at CAP (8 quick / 16 thorough), the cap bounds object sizes only",
    ],
    "instances": insts,
}
json.dump(unit, open(os.path.join(here, "unit.json"), "w"), indent=1)
print("wrote unit.json")
