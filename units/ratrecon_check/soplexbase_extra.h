#include "ObjSense.inc"
