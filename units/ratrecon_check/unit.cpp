/* C03: SoPlexBase<R>::_reconstructSolutionRational (src/soplex/solverational.hpp) - "a reconstructed solution is accepted only
 * after an exact feasibility and optimality check".  Host, Rational = ordered-group long long and accessor slices are those of
 * units/ratviol (its unit.cpp is included; the hooks below add what this function needs).
 *   reconstructVector(v, denom, indexSet): STUB - overwrites v with ARBITRARY values, returns an arbitrary bool (recorded);
 *   SPxLPRational::computePrimalActivity / getObj / subDualActivity: STUBS producing ARBITRARY slacks / reduced costs (recorded);
 *   sign(x): the mathematical sign. */
#include "verif.h"
extern "C" {
   extern int g_c, g_r, g_nc, g_nr, g_vec_assigns;
   extern long long v_P, v_S, v_D, v_RC, g_denom;
   extern int g_recon_calls, g_recon1_ok, g_recon2_ok, g_b1, g_b2, g_cpa_calls, g_cpa_ok, g_getobj_calls, g_getobj_ok, g_sub_calls, g_sub_ok, g_addidx;
   extern long long* gp_wp; extern long long* gp_ws; extern long long* gp_wd; extern long long* gp_wr;
   extern long long* gp_sp; extern long long* gp_ss; extern long long* gp_sd; extern long long* gp_sr;
   extern int* gp_rstat; extern int* gp_cstat; extern const void* gp_basic;
}
#define RATVEC_EXTRA_FILE "../ratrecon_check/ratvec_extra.h"
#define RAT_SOPLEXBASE_EXTRA_FILE "../ratrecon_check/soplexbase_extra.h"
#define RAT_SOL_EXTRA bool _isPrimalFeasible, _isDualFeasible; bool isPrimalFeasible() const { return _isPrimalFeasible; } bool isDualFeasible() const { return _isDualFeasible; }
#define RAT_STAT_EXTRA TimerStub* reconstructionTime; int rationalReconstructions;
#define RAT_LP_EXTRA \
   void computePrimalActivity(const VectorBase<Rational>& primal, VectorBase<Rational>& activity) const \
   { g_cpa_calls++; g_cpa_ok = (primal.val == gp_wp && activity.val == gp_ws && activity.dimen == nr && primal.dimen == nc); \
     Rational* d = activity.val; __CPROVER_havoc_object(d); if(0 <= g_r && g_r < activity.dimen) v_S = d[g_r]; } \
   void getObj(VectorBase<Rational>& pobj) const \
   { g_getobj_calls++; g_getobj_ok = (pobj.val == gp_wr && pobj.dimen == nc); Rational* d = pobj.val; __CPROVER_havoc_object(d); } \
   void subDualActivity(const VectorBase<Rational>& dual, VectorBase<Rational>& activity) const \
   { g_sub_calls++; g_sub_ok = (dual.val == gp_wd && activity.val == gp_wr && activity.dimen == nc && dual.dimen == nr && g_getobj_calls == 1); \
     Rational* d = activity.val; __CPROVER_havoc_object(d); if(0 <= g_c && g_c < activity.dimen) v_RC = d[g_c]; }
#include "../ratviol/unit.cpp"

#define SPX_MSG_WARNING(...)
/* DIdxSet: the set of basic column indices handed to reconstructVector (only its identity is recorded) */
struct DIdxSet
{
   int n;
   DIdxSet(int n_) { n = n_; gp_basic = this; }
   void addIdx(int i) { (void)i; g_addidx++; }
};
/* rational.h: friend int sign(const Rational& r) - the mathematical sign */
static inline int sign(const Rational& r) { return (r > 0) - (r < 0); }
/* ratrecon.h: bool reconstructVector(VectorRational& input, const Rational& denomBoundSquared, const DIdxSet* indexSet = nullptr) */
static inline bool reconstructVector(VectorRational& input, const Rational& denomBoundSquared, const DIdxSet* indexSet = nullptr)
{
   g_recon_calls++;
   bool b = nondet_bool();
   Rational* d = input.val;
   if(input.dimen > 0) __CPROVER_havoc_object(d);
   if(g_recon_calls == 1)
   {
      g_recon1_ok = (input.val == gp_wp && input.dimen == g_nc && (const void*)indexSet == gp_basic && indexSet != nullptr && denomBoundSquared == g_denom);
      g_b1 = b;
      if(0 <= g_c && g_c < input.dimen) v_P = d[g_c];
   }
   else
   {
      g_recon2_ok = (input.val == gp_wd && input.dimen == g_nr && indexSet == nullptr && denomBoundSquared == g_denom);
      g_b2 = b;
      if(0 <= g_r && g_r < input.dimen) v_D = d[g_r];
   }
   return b;
}

struct H : Host
{
   SolRational _workSol;
   bool _hasBasis;
   SolRational* sol_;
   DataArray<SPxSolverBase<R>::VarStatus>* bsr_; DataArray<SPxSolverBase<R>::VarStatus>* bsc_;
   const Rational* denom_;
   bool body()
   {
      SolRational& sol = *sol_;
      DataArray<SPxSolverBase<R>::VarStatus>& basisStatusRows = *bsr_;
      DataArray<SPxSolverBase<R>::VarStatus>& basisStatusCols = *bsc_;
      const Rational& denomBoundSquared = *denom_;
      (void)basisStatusRows;
#include "_reconstructSolutionRational.inc"
   }
};
static inline void setv(VectorRational& v, Rational* p, int n) { v.val = p; v.dimen = n; v.is_input = false; }

/* lo/up/types/cstat, sp/sr, wp/wr: nc cells;  lhs/rhs/rtypes/rstat, ss/sd, ws/wd: nr cells.
 * The parameters basisStatusRows / basisStatusCols are bound to the members _basisStatusRows / _basisStatusCols, as at the
 * function's only call site. */
extern "C" int w_recon(Rational* lo, Rational* up, Rational* lhs, Rational* rhs, int* ctypes, int* rtypes, int* cstat, int* rstat,
                       Rational* sp, Rational* ss, Rational* sd, Rational* sr, Rational* wp, Rational* ws, Rational* wd, Rational* wr,
                       int nc, int nr, int objsense, int primalFeas, int dualFeas, int* hasBasis, Rational denom)
{
   VIN("nc", nc); VIN("nr", nr); VIN("objsense", objsense);
   RatLP lp; SolRational sol; H h; TimerStub tm; Statistics st; SettingsStub set;
   lp.nc = nc; lp.nr = nr;
   setv(lp.low, lo, nc); setv(lp.up, up, nc); setv(lp.left, lhs, nr); setv(lp.right, rhs, nr);
   setv(sol._primal, sp, nc); setv(sol._slacks, ss, nr); setv(sol._dual, sd, nr); setv(sol._redCost, sr, nc);
   sol._isPrimalFeasible = primalFeas != 0; sol._isDualFeasible = dualFeas != 0;
   /* the work vectors arrive with arbitrary dimensions (left over from earlier calls) */
   setv(h._workSol._primal, wp, nondet_int()); setv(h._workSol._slacks, ws, nondet_int());
   setv(h._workSol._dual, wd, nondet_int()); setv(h._workSol._redCost, wr, nondet_int());
   h._colTypes.data = (Host::RangeType*)ctypes; h._colTypes.thesize = nc;
   h._rowTypes.data = (Host::RangeType*)rtypes; h._rowTypes.thesize = nr;
   h._basisStatusCols.data = (SPxSolverBase<R>::VarStatus*)cstat; h._basisStatusCols.thesize = nc;
   h._basisStatusRows.data = (SPxSolverBase<R>::VarStatus*)rstat; h._basisStatusRows.thesize = nr;
   st.solvingTime = &tm; st.reconstructionTime = &tm; st.rationalReconstructions = 0;
   set._intParamValues[SoPlexBase<R>::OBJSENSE] = objsense;
   h._rationalLP = &lp; h._statistics = &st; h._currentSettings = &set;
   h._hasBasis = *hasBasis != 0;
   h.sol_ = &sol; h.bsr_ = &h._basisStatusRows; h.bsc_ = &h._basisStatusCols; h.denom_ = &denom;
   gp_wp = wp; gp_ws = ws; gp_wd = wd; gp_wr = wr; gp_sp = sp; gp_ss = ss; gp_sd = sd; gp_sr = sr; gp_rstat = rstat; gp_cstat = cstat; gp_basic = 0;
   g_denom = denom;
   g_recon_calls = 0; g_recon1_ok = 0; g_recon2_ok = 0; g_b1 = 0; g_b2 = 0; g_cpa_calls = 0; g_cpa_ok = 0; g_getobj_calls = 0; g_getobj_ok = 0;
   g_sub_calls = 0; g_sub_ok = 0; g_addidx = 0; g_vec_assigns = 0;
   bool ret = h.body();
   *hasBasis = h._hasBasis ? 1 : 0;
   return ret ? 1 : 0;
}
