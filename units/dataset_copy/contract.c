/* Contracts for DataSet<int>::reMax(int), DataSet(const DataSet&), operator=(const DataSet&)   (C19: "growing the capacity
 * loses nothing"; a copy has the same abstract content).
 *
 * C view (as in unit dataset): item[i] = {low: theitem[i].data, high: theitem[i].info}, key[g] = {low: thekey[g].info,
 * high: thekey[g].idx}; scalars themax, thesize, thenum, firstfree.  `this` is (item, key, *themax, *thesize, *thenum,
 * *firstfree) with ghost rank array `rank`; the right-hand side / the original is (ritem, rkey, rmax, rsize, rnum, rff) with
 * ghost rank array `rrank`.  The arrays of the post state are RET (= return value of the wrapper = theitem) and gp_key.
 *
 * REPRESENTATION INVARIANT INV = S & K & U & R0..R5 exactly as in units/dataset/contract.c:
 *   S     0 <= thenum <= thesize <= themax
 *   K(g)  g < thenum           =>  0 <= thekey[g].idx < thesize  and  theitem[thekey[g].idx].info == g      (number(key(g)) == g)
 *   U(i)  i < thesize, info>=0 =>  info < thenum and thekey[info].idx == i
 *   free cells (i < thesize, info < 0) form ONE acyclic list from firstfree to the cell with info == -themax-1, expressed
 *   with a ghost rank array (distance to the end of the list): R0 (firstfree == END <=> thesize == thenum), R1-R3 (rank
 *   in range, rank 0 <=> END, successor is free and has rank-1), R4 (ranks pairwise distinct), R5 (head has the top rank).
 * The bodies walk a free list (reMax; operator= walks the list of rhs), so the precondition supplies INV at EVERY cell below
 * CAP by explicit conjunction (rep.h, no quantifier) and the loops are unwound completely (bounded by size() <= CAP).
 * Postconditions are stated at havoc'd ghost cells g_g (a number), g_i, g_j (cells) = for all numbers / cells.
 * Block sizes: see ALLOC_* below (functional instance: constant-size blocks; `_mem` twin: exact blocks, memory safety only). */
#include "verif_c.h"
#ifndef CAP
#define CAP 4
#endif
#include "rep.h"

long long* gp_key;
int g_g, g_i, g_j, g_t0, g_s0, g_n0, g_f0, v_a, v_dat;
long long v_key, v_cell, v_key2;

static void havoc_ghosts(void)
{
   g_g = nondet_int(); g_i = nondet_int(); g_j = nondet_int(); g_t0 = nondet_int(); g_s0 = nondet_int();
   g_n0 = nondet_int(); g_f0 = nondet_int(); v_a = nondet_int(); v_dat = nondet_int();
   v_key = nondet_ll(); v_cell = nondet_ll(); v_key2 = nondet_ll();
}

#define LO32(x)  ((int)(unsigned int)((unsigned long long)(x) & 0xffffffffULL))
#define HI32(x)  ((int)(unsigned int)((unsigned long long)(x) >> 32))

typedef const int* cip;
typedef const long long* clp;
static int is_free(clp item, int sz, int i) { return 0 <= i && i < sz && HI32(item[i]) < 0; }
static int k_at(clp item, clp key, int sz, int nm, int g)
{
   if(!(0 <= g && g < nm)) return 1;
   int c = HI32(key[g]);
   return 0 <= c && c < sz && HI32(item[c]) == g;
}
static int u_at(clp item, clp key, int sz, int nm, int i)
{
   if(!(0 <= i && i < sz)) return 1;
   int f = HI32(item[i]);
   if(f < 0) return 1;
   return f < nm && HI32(key[f]) == i;
}
static int r123_at(clp item, cip rank, int themax, int sz, int nm, int i)
{
   if(!is_free(item, sz, i)) return 1;
   int f = HI32(item[i]);
   int r = rank[i];
   if(!(0 <= r && r < sz - nm)) return 0;                 /* R1 */
   if((f == -themax - 1) != (r == 0)) return 0;           /* R2 */
   if(f == -themax - 1) return 1;
   int nx = -(f + 1);                                     /* R3 */
   return is_free(item, sz, nx) && rank[nx] == r - 1;
}
static int r4_at(clp item, cip rank, int sz, int a, int b)
{
   if(a == b || !is_free(item, sz, a) || !is_free(item, sz, b)) return 1;
   return rank[a] != rank[b];
}
static int r05(clp item, cip rank, int themax, int sz, int nm, int ff)
{
   if((ff == -themax - 1) != (sz == nm)) return 0;        /* R0 */
   if(ff == -themax - 1) return 1;
   if(ff >= 0) return 0;                                  /* R5 */
   int h = -(ff + 1);
   return is_free(item, sz, h) && rank[h] == sz - nm - 1;
}
static int s_ok(int themax, int sz, int nm) { return 0 <= nm && nm <= sz && sz <= themax; }
/* INV at the ghost cells g, i, j */
static int inv_ghosts(clp item, clp key, cip rank, int themax, int sz, int nm, int ff, int g, int i, int j)
{
   return s_ok(themax, sz, nm) && k_at(item, key, sz, nm, g) && u_at(item, key, sz, nm, i) && u_at(item, key, sz, nm, j)
      && r05(item, rank, themax, sz, nm, ff) && r123_at(item, rank, themax, sz, nm, i) && r123_at(item, rank, themax, sz, nm, j)
      && r4_at(item, rank, sz, i, j);
}

#define RET  __CPROVER_return_value
#define SZ   (*thesize)
#define NM   (*thenum)
#define FF   (*firstfree)
#define TM   (*themax)
/* INV of `this` (pre state) at every cell below CAP */
#define T_K(g)     k_at(item, key, SZ, NM, g)
#define T_U(i)     u_at(item, key, SZ, NM, i)
#define T_R123(i)  r123_at(item, rank, TM, SZ, NM, i)
#define T_R4(a, b) r4_at(item, rank, SZ, a, b)
#define T_R4ROW(a) REP_ALLB(T_R4, a)
#define T_INV_ALL (s_ok(TM, SZ, NM) && REP_ALL(T_K) && REP_ALL(T_U) && r05(item, rank, TM, SZ, NM, FF) && REP_ALL(T_R123) && REP_ALL(T_R4ROW))
/* INV of the right-hand side at every cell below CAP */
#define R_K(g)     k_at(ritem, rkey, rsize, rnum, g)
#define R_U(i)     u_at(ritem, rkey, rsize, rnum, i)
#define R_R123(i)  r123_at(ritem, rrank, rmax, rsize, rnum, i)
#define R_R4(a, b) r4_at(ritem, rrank, rsize, a, b)
#define R_R4ROW(a) REP_ALLB(R_R4, a)
#define R_INV_ALL (s_ok(rmax, rsize, rnum) && REP_ALL(R_K) && REP_ALL(R_U) && r05(ritem, rrank, rmax, rsize, rnum, rff) && REP_ALL(R_R123) && REP_ALL(R_R4ROW))

/* Default (functional instances): every block has a CONSTANT number of cells >= max() (CAP for the operands, 2*CAP+1
 * for blocks obtained from malloc/realloc): small SAT encoding, full postcondition.  EXACT_ALLOC (the `_mem` twin of each
 * instance): every block has EXACTLY the number of cells the code asked for (symbolic block sizes: every access outside
 * [0,max()) is a failed obligation) and only memory safety, frame, absence of exceptions and "the resulting blocks have
 * max() cells" are kept (ENSURES -> true).  Twins whose symbolic block sizes exhaust the solver fix the capacities of the
 * operands to constants (TMAX_IS, RMAX_IS); sizes, contents and the requested new capacity stay symbolic. */
#ifdef EXACT_ALLOC
#define ALLOC_T TM
#define ALLOC_R rmax
#define ENSURES(e) __CPROVER_ensures(1)
#ifdef TMAX_IS
#define TMAX_OK (TM == TMAX_IS)
#endif
#ifdef RMAX_IS
#define RMAX_OK (rmax == RMAX_IS)
#endif
#else
#define ALLOC_T CAP
#define ALLOC_R CAP
#define ENSURES(e) __CPROVER_ensures(e)
#endif
#ifndef TMAX_OK
#define TMAX_OK (1 <= TM && TM <= CAP)
#endif
#ifndef RMAX_OK
#define RMAX_OK (1 <= rmax && rmax <= CAP)
#endif
#define FRESH_SCALARS (__CPROVER_is_fresh(themax, sizeof(int)) && __CPROVER_is_fresh(thesize, sizeof(int)) \
   && __CPROVER_is_fresh(thenum, sizeof(int)) && __CPROVER_is_fresh(firstfree, sizeof(int)))
#define FRESH_THIS (FRESH_SCALARS && TMAX_OK && __CPROVER_is_fresh(item, ALLOC_T * sizeof(long long)) \
   && __CPROVER_is_fresh(key, ALLOC_T * sizeof(long long)) && __CPROVER_is_fresh(rank, ALLOC_T * sizeof(int)))
#define FRESH_RHS (RMAX_OK && __CPROVER_is_fresh(ritem, ALLOC_R * sizeof(long long)) \
   && __CPROVER_is_fresh(rkey, ALLOC_R * sizeof(long long)) && __CPROVER_is_fresh(rrank, ALLOC_R * sizeof(int)))
/* the post-state arrays are blocks of max() cells (one cell if max() == 0: spx_realloc(p, 0) allocates one element) */
#define BLOCKS_OK (__CPROVER_rw_ok(RET, (TM > 0 ? TM : 1) * sizeof(long long)) && __CPROVER_rw_ok(gp_key, (TM > 0 ? TM : 1) * sizeof(long long)))

/* ---------------------------------------------------------------------------------------------------------------- */
#ifdef INST_reMax
/* reMax(newmax): max() becomes max(newmax, size()) [reMax(): size()]; num(), size() unchanged; every cell below size()
 * keeps its DATA and its info, except that the end-of-free-list marker -oldmax-1 becomes -newmax-1 (in the last free
 * cell, or in firstfree if there is no free cell); every key is unchanged; hence every element keeps key, number and
 * DATA, and INV holds for the re-allocated arrays with the SAME rank function (the free list survives).  The value returned
 * is the distance in bytes between the new and the old item array (flat address space, see unit.cpp). */
#define NEWMAX  ((usedefault ? 0 : newmax) < g_s0 ? g_s0 : (usedefault ? 0 : newmax))
#define MAPEND(x) ((x) == -g_t0 - 1 ? -NEWMAX - 1 : (x))
long long* w_reMax(long long* item, long long* key, int* themax, int* thesize, int* thenum, int* firstfree, int newmax,
                   int usedefault, long* delta, const int* rank)
__CPROVER_requires(__CPROVER_is_fresh(delta, sizeof(long)))
__CPROVER_requires(FRESH_THIS && -2 * CAP <= newmax && newmax <= 2 * CAP)
__CPROVER_requires(T_INV_ALL)
__CPROVER_requires(g_t0 == TM && g_s0 == SZ && g_n0 == NM && g_f0 == FF)
__CPROVER_requires(!(0 <= g_i && g_i < SZ) || (v_a == HI32(item[g_i]) && v_dat == LO32(item[g_i])))
__CPROVER_requires(!(0 <= g_g && g_g < NM) || v_key == key[g_g])
__CPROVER_assigns(gp_key, __CPROVER_object_whole(item), __CPROVER_object_whole(key), *themax, *thesize, *thenum, *firstfree, *delta)
__CPROVER_frees(item, key)
ENSURES(*delta == (long)RET - (long)item)
ENSURES(TM == NEWMAX && SZ == g_s0 && NM == g_n0 && FF == MAPEND(g_f0))
__CPROVER_ensures(BLOCKS_OK)
ENSURES(!(0 <= g_i && g_i < g_s0) || (LO32(RET[g_i]) == v_dat && HI32(RET[g_i]) == MAPEND(v_a)))
ENSURES(!(0 <= g_g && g_g < g_n0) || gp_key[g_g] == v_key)
ENSURES(inv_ghosts(RET, gp_key, rank, TM, SZ, NM, FF, g_g, g_i, g_j))
;
void h_reMax(void)
{
   long long* item; long long* key; int* themax; int* thesize; int* thenum; int* firstfree; int newmax, usedefault; long* delta; const int* rank;
   havoc_ghosts();
   w_reMax(item, key, themax, thesize, thenum, firstfree, newmax, usedefault, delta, rank);
   CANARY();
}
#endif

/* ---------------------------------------------------------------------------------------------------------------- */
/* A COPY has the same abstract content: same num(), same size(); for every number g the same key (hence the same cell)
 * and the same DATA; every cell below size() has the same DATA and the same info, except that the end-of-free-list marker
 * -rhs.max()-1 is re-based to -max()-1 (so the free list of the copy is a chain over the same free cells: INV holds for
 * the copy with the rank function of the original); number(key(g)) == g is K(g) of INV. */
#define MAPR(x) ((x) == -rmax - 1 ? -TM - 1 : (x))
#define COPY_REQUIRES \
__CPROVER_requires(!(0 <= g_i && g_i < rsize) || (v_a == HI32(ritem[g_i]) && v_dat == LO32(ritem[g_i]))) \
__CPROVER_requires(!(0 <= g_g && g_g < rnum) || v_key == rkey[g_g])
#define COPY_ENSURES(c) \
ENSURES(!(c) || (SZ == rsize && NM == rnum && FF == MAPR(rff))) \
__CPROVER_ensures(!(c) || BLOCKS_OK) \
ENSURES(!((c) && 0 <= g_i && g_i < rsize) || (LO32(RET[g_i]) == v_dat && HI32(RET[g_i]) == MAPR(v_a))) \
ENSURES(!((c) && 0 <= g_g && g_g < rnum) || gp_key[g_g] == v_key) \
ENSURES(!(c) || inv_ghosts(RET, gp_key, rrank, TM, SZ, NM, FF, g_g, g_i, g_j))

#ifdef INST_assign
/* operator=: additionally max() == max(old max(), rhs.size()); rhs is not modified (frame); *this is returned;
 * self-assignment changes nothing.  Precondition: both sets satisfy INV (reMax walks the old free list of *this). */
long long* w_assign(long long* item, long long* key, int* themax, int* thesize, int* thenum, int* firstfree, const int* rank,
                    long long* ritem, long long* rkey, int rmax, int rsize, int rnum, int rff, const int* rrank,
                    int self, int* ret_is_this)
__CPROVER_requires(FRESH_THIS && FRESH_RHS && __CPROVER_is_fresh(ret_is_this, sizeof(int)))
__CPROVER_requires(T_INV_ALL)
__CPROVER_requires(R_INV_ALL)
__CPROVER_requires(g_t0 == TM && g_s0 == SZ && g_n0 == NM && g_f0 == FF)
COPY_REQUIRES
__CPROVER_requires(!(0 <= g_i && g_i < SZ) || v_cell == item[g_i])
__CPROVER_requires(!(0 <= g_g && g_g < NM) || v_key2 == key[g_g])
__CPROVER_assigns(gp_key, __CPROVER_object_whole(item), __CPROVER_object_whole(key), *themax, *thesize, *thenum, *firstfree, *ret_is_this)
__CPROVER_frees(item, key)
ENSURES(*ret_is_this == 1)
ENSURES(self || TM == (rsize > g_t0 ? rsize : g_t0))
COPY_ENSURES(!self)
ENSURES(!self || (RET == item && gp_key == key && TM == g_t0 && SZ == g_s0 && NM == g_n0 && FF == g_f0
   && (!(0 <= g_i && g_i < g_s0) || item[g_i] == v_cell) && (!(0 <= g_g && g_g < g_n0) || key[g_g] == v_key2)))
;
void h_assign(void)
{
   long long* item; long long* key; int* themax; int* thesize; int* thenum; int* firstfree; const int* rank;
   long long* ritem; long long* rkey; int rmax, rsize, rnum, rff; const int* rrank; int self; int* ret_is_this;
   havoc_ghosts();
   w_assign(item, key, themax, thesize, thenum, firstfree, rank, ritem, rkey, rmax, rsize, rnum, rff, rrank, self, ret_is_this);
   CANARY();
}
#endif

#ifdef INST_copyctor
/* DataSet(const DataSet& old): additionally max() == old.max(); the original is not modified (frame).  The body has no
 * data-dependent loop, so INV of the original is needed at the ghost cells only. */
long long* w_copyctor(int* themax, int* thesize, int* thenum, int* firstfree,
                      long long* ritem, long long* rkey, int rmax, int rsize, int rnum, int rff, const int* rrank)
__CPROVER_requires(FRESH_SCALARS && FRESH_RHS)
__CPROVER_requires(inv_ghosts(ritem, rkey, rrank, rmax, rsize, rnum, rff, g_g, g_i, g_j))
COPY_REQUIRES
__CPROVER_assigns(gp_key, *themax, *thesize, *thenum, *firstfree)
ENSURES(TM == rmax)
COPY_ENSURES(1)
;
void h_copyctor(void)
{
   int* themax; int* thesize; int* thenum; int* firstfree;
   long long* ritem; long long* rkey; int rmax, rsize, rnum, rff; const int* rrank;
   havoc_ghosts();
   w_copyctor(themax, thesize, thenum, firstfree, ritem, rkey, rmax, rsize, rnum, rff, rrank);
   CANARY();
}
#endif
