/* C19: DataSet<DATA> (src/soplex/dataset.h), DATA = int: reMax(int), copy constructor, operator=.
 * Every body (and the copy constructor's initialiser list) is #included verbatim from a slice cut out of the current tree;
 * class DataKey is the real class text.  DataSetHost replicates the six data members of DataSet (conformance-checked).
 * C view as in unit dataset: item[i] = 64-bit cell {low: theitem[i].data, high: theitem[i].info}; key[g] = {low: info, high: idx}.
 * spx_alloc / spx_realloc / spx_free: the real ones minus the out-of-memory exception; memcpy = cell-wise copy loop, realloc =
 * malloc + copy + free. */
#include "verif.h"

extern "C" void verif_throw(void) { __CPROVER_assert(0, "no exception (allocation succeeds)"); }
#define throw VERIF_THROW(); (void)
/* try { } catch(const SPxMemoryException& x) { .. }: allocation is assumed to succeed, the handler is dead code that must
 * still compile (goto-cc crashes on a real try block): `if(1) { } else for(decl = verif_exc; 0; ) { .. }` */
struct SPxMemoryException { int c; };
static SPxMemoryException verif_exc;
#define try if(1)
#define catch(d) else for(d = verif_exc; 0; )

typedef long ptrdiff_t;
extern "C" {
void* malloc(size_t);
/* malloc is CBMC's library model.  Functional instances allocate a constant-size block >= the requested size (small SAT
 * encoding); the `_mem` twins (EXACT_ALLOC) allocate exactly the requested size. */
#ifdef EXACT_ALLOC
#define VERIF_NEWSIZE(n) (n)
#else
#define VERIF_NEWSIZE(n) ((2 * CAP + 1) * sizeof(long long))
#endif
void free(void*);
#if defined(INST_reMax) || defined(INST_assign)
/* realloc (successful): a fresh block (malloc), the common prefix copied cell by cell, the old block released
 * (= CBMC's library model of realloc, with an explicit 8-byte-cell copy loop instead of __CPROVER_array_copy) */
void* verif_realloc(void* p, size_t n)
{
   __CPROVER_assert(n % sizeof(long long) == 0 && 0 < n, "realloc model: whole 8-byte cells");
   long long* q = (long long*)malloc(VERIF_NEWSIZE(n));
   __CPROVER_assume(q != 0);
   size_t old = __CPROVER_OBJECT_SIZE(p);
   size_t m = (old < n ? old : n) / sizeof(long long);
   for(size_t i = 0; i < m; ++i)
      q[i] = ((const long long*)p)[i];
   free(p);
   return q;
}
#endif
/* memcpy for whole 8-byte cells between different objects (both checked): cell-wise copy loop, unwound completely.
 * (CBMC's library model of a copy of symbolic length exhausts memory; a contract creates too many objects.) */
void* verif_memcpy(void* dst, const void* src, size_t n)
{
   __CPROVER_assert(n % sizeof(long long) == 0, "memcpy model: whole 8-byte cells");
   __CPROVER_assert(n == 0 || !__CPROVER_same_object(dst, src), "memcpy: source and destination do not overlap");
   for(size_t i = 0; i < n / sizeof(long long); ++i)
      ((long long*)dst)[i] = ((const long long*)src)[i];
   return dst;
}
}
#define realloc(p, n) verif_realloc((p), (n))

#define memcpy(d, s, n) verif_memcpy((d), (s), (n))

/* reMax returns `reinterpret_cast<char*>(theitem) - reinterpret_cast<char*>(old_theitem)`: the distance between the new and the
 * released block.  ISO C++ leaves the difference of pointers into different allocations undefined (CBMC: "same object
 * violation"); the code relies on a flat address space.  Modelled as such: reinterpret_cast<char*>(p) yields the integer
 * address of p, and the difference is an integer difference (listed under "trusted"). */
struct VerifAddr { long v; };
inline ptrdiff_t operator-(const VerifAddr& a, const VerifAddr& b) { return a.v - b.v; }
template <class TO> inline VerifAddr verif_addr_cast(const void* p) { VerifAddr a; a.v = (long)p; return a; }
#define reinterpret_cast verif_addr_cast

template <class PT> inline void spx_alloc(PT& p, int n = 1)
{
   if(n == 0) n = 1;
   p = (PT)(malloc(VERIF_NEWSIZE(sizeof(*p) * (unsigned int) n)));
   __CPROVER_assume(p != 0);          /* the real one throws SPxMemoryException */
}
template <class PT> inline void spx_realloc(PT& p, int n)
{
   PT pp;
   if(n == 0) n = 1;
   pp = (PT)(realloc(p, sizeof(*p) * (unsigned int) n));
   __CPROVER_assume(pp != 0);         /* the real one throws SPxMemoryException */
   p = pp;
}
template <class PT> inline void spx_free(PT& p)
{
   free(p);
   p = 0;
}

#include "DataKey.inc"

typedef int DATA;
extern "C" { extern long long* gp_key; }

struct DataSetHost
{
   struct Item
   {
      DATA data;
      int  info;
   }* theitem;
   DataKey* thekey;
   int themax;
   int thesize;
   int thenum;
   int firstfree;

   DataSetHost() {}
   int max() const
   {
#include "DataSet_max.inc"
   }
   int num() const
   {
#include "DataSet_num.inc"
   }
   int size() const
   {
#include "DataSet_size.inc"
   }
   void clear()
   {
#include "DataSet_clear.inc"
   }
#if defined(INST_reMax) || defined(INST_assign)
   ptrdiff_t reMax(int newmax = 0)
   {
#include "DataSet_reMax.inc"
   }
#endif
#ifdef INST_assign
   DataSetHost& operator=(const DataSetHost& rhs)
   {
#include "DataSet_assign.inc"
   }
#endif
#ifdef INST_copyctor
   DataSetHost(const DataSetHost& old)
#include "DataSet_copyctor_init.inc"
   {
#include "DataSet_copyctor.inc"
   }
#endif
};

#define MKSET(s) DataSetHost s; s.theitem = (DataSetHost::Item*)item; s.thekey = (DataKey*)key; s.themax = *themax; \
   s.thesize = *thesize; s.thenum = *thenum; s.firstfree = *firstfree
#define MKRHS(r) DataSetHost r; r.theitem = (DataSetHost::Item*)ritem; r.thekey = (DataKey*)rkey; r.themax = rmax; \
   r.thesize = rsize; r.thenum = rnum; r.firstfree = rff
#define PUTSET(s) *themax = s.themax; *thesize = s.thesize; *thenum = s.thenum; *firstfree = s.firstfree; gp_key = (long long*)s.thekey

#ifdef INST_reMax
/* returns the (possibly moved) item array; *delta = reMax's return value */
extern "C" long long* w_reMax(long long* item, long long* key, int* themax, int* thesize, int* thenum, int* firstfree, int newmax,
                              int usedefault, long* delta, const int* rank)
{
   MKSET(s);
   if(usedefault)
      *delta = s.reMax();
   else
      *delta = s.reMax(newmax);
   PUTSET(s);
   return (long long*)s.theitem;
}
#endif

#ifdef INST_assign
extern "C" long long* w_assign(long long* item, long long* key, int* themax, int* thesize, int* thenum, int* firstfree, const int* rank,
                               long long* ritem, long long* rkey, int rmax, int rsize, int rnum, int rff, const int* rrank,
                               int self, int* ret_is_this)
{
   MKSET(s);
   MKRHS(r);
   DataSetHost* res = self ? &(s = s) : &(s = r);
   *ret_is_this = (res == &s);
   PUTSET(s);
   return (long long*)s.theitem;
}
#endif

#ifdef INST_copyctor
extern "C" long long* w_copyctor(int* themax, int* thesize, int* thenum, int* firstfree,
                                 long long* ritem, long long* rkey, int rmax, int rsize, int rnum, int rff, const int* rrank)
{
   MKRHS(r);
   DataSetHost s(r);
   PUTSET(s);
   return (long long*)s.theitem;
}
#endif
