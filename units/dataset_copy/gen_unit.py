# Generator of units/dataset_copy/unit.json.  Run: python3 gen_unit.py
import json, os
F="src/soplex/dataset.h"
def sl(as_, sig, **kw):
    d={"as":as_,"file":F,"sig":sig}; d.update(kw); return d
slices=[
 sl("DataSet_max.inc", r"int\s+max\s*\(\s*\)\s*const"),
 sl("DataSet_num.inc", r"int\s+num\s*\(\s*\)\s*const"),
 sl("DataSet_size.inc", r"int\s+size\s*\(\s*\)\s*const"),
 sl("DataSet_clear.inc", r"void\s+clear\s*\(\s*\)"),
 sl("DataSet_reMax.inc", r"ptrdiff_t\s+reMax\s*\(\s*int\s+newmax\s*=\s*0\s*\)", must_contain=[r"spx_realloc\(theitem, themax\)"]),
 sl("DataSet_assign.inc", r"DataSet\s*<\s*DATA\s*>\s*&\s*operator=\s*\(\s*const\s+DataSet\s*<\s*DATA\s*>\s*&\s*rhs\s*\)"),
 sl("DataSet_copyctor.inc", r"DataSet\s*\(\s*const\s+DataSet&\s*old\s*\)\s*:[^{;]*"),
 {"as":"DataSet_copyctor_init.inc","file":F,"region_start":r"(?<=DataSet\(const DataSet& old\))\s*:","region_end":r"\{"},
]
MEM_MUT={
 "reMax":[{"name":"key_block","slice":"DataSet_reMax.inc","find":"spx_realloc(thekey,  themax);","replace":"spx_realloc(thekey,  thenum);"}],
 "assign":[{"name":"no_grow","slice":"DataSet_assign.inc","find":"if(rhs.size() > max())","replace":"if(rhs.num() > max())"}],
 "copyctor":[{"name":"alloc_num","slice":"DataSet_copyctor.inc","find":"spx_alloc(thekey, themax);","replace":"spx_alloc(thekey, thenum);"}]}
RM=r"DataSetHost::reMax\(.*\)"; AS=r"DataSetHost::operator=\(.*\)"; CC=r"DataSetHost::DataSetHost\(this,.+\)"
u={
 "property":["C19"],
 "desc":"DataSet<int>: reMax(int), copy constructor, operator= - real bodies (and the real initialiser list) from dataset.h, real class DataKey",
 "rmode":"int (DATA = int, no arithmetic abstraction)",
 "defines":{"CAP":"4"}, "defines_thorough":{"CAP":"4"}, "defines_small":{"CAP":"2"},
 "flags":["--bounds-check","--pointer-check","--signed-overflow-check","--object-bits","7"],
 "timeout_s":300,
 "slices":slices,
 "extracts":[{"as":"DataKey.inc","file":"src/soplex/datakey.h","regex":r"class DataKey\s*\{.*?\n\};"}],
 "conformance":[
  {"file":F,"regex":r"struct Item\s*\{\s*DATA\s+data;[^;]*?\n\s*int\s+info;[^;]*?\n\s*\}\s*\*\s*theitem;.*?\n\s*DataKey\*\s+thekey;[^;]*?\n\s*int\s+themax;[^;]*?\n\s*int\s+thesize;[^;]*?\n\s*int\s+thenum;[^;]*?\n\s*int\s+firstfree;",
   "why":"DataSetHost replicates exactly these data members of DataSet"},
  {"file":"src/soplex/datakey.h","regex":r"int\s+info;[^;]*?\n\s*int\s+idx;","why":"the C view key[g] = {info, idx} relies on this member order of DataKey"},
  {"file":"src/soplex/spxalloc.h","regex":r"pp = reinterpret_cast<T>\(realloc\(p, sizeof\(\*p\) \* \(unsigned int\) n\)\);","why":"spx_realloc is realloc(p, n * sizeof(*p))"},
  {"file":"src/soplex/spxalloc.h","regex":r"p = reinterpret_cast<T>\(malloc\(sizeof\(\*p\) \* \(unsigned int\) n\)\);","why":"spx_alloc is malloc(n * sizeof(*p))"},
  {"file":"src/soplex/spxalloc.h","regex":r"if\(n == 0\)\s*n = 1;","why":"spx_alloc/spx_realloc allocate one element for n == 0"},
 ],
 "trusted":[
  "DataSetHost replicates DataSet's data members (conformance-checked); every member-function body and the copy constructor's initialiser list are the real text; DataKey is the real class text",
  "DATA instantiated at int (memcpy-able, as the class documents); the C contract views Item[] and DataKey[] as 64-bit cells (two-int structs, no padding)",
  "spx_alloc/spx_realloc/spx_free: the real ones minus the out-of-memory exception (allocation assumed to succeed; `try/catch(SPxMemoryException)` compiled as dead code); malloc/free are CBMC's C library models; memcpy is a cell-wise copy loop for whole 8-byte cells between different objects (both asserted at every call; every access bounds-checked); realloc = malloc of the new size + copy of the common prefix + free of the old block (CBMC's library model with the same explicit copy loop)",
  "capacity capped: max() <= CAP = 4 for both operands, reMax argument in [-2*CAP, 2*CAP]; functional instances use constant-size blocks (CAP cells for the operands, 2*CAP+1 for malloc/realloc results) and prove the full postcondition, their `_mem` twins use blocks of EXACTLY the size the code asked for and prove memory safety, frame and absence of exceptions only; INV of the operands is supplied at every cell below CAP by explicit conjunction (stubs/rep.h) and all loops (free-list walks, element-wise copies) are unwound completely with --unwinding-assertions: exhaustive proofs for every pair of sets of at most that capacity, not inductive ones",
  "ghost rank arrays (distance to the end of the free list) are specification-only; they restrict no real input",
  "reMax's return value `reinterpret_cast<char*>(theitem) - reinterpret_cast<char*>(old_theitem)` (distance between the new and the released block; undefined in ISO C++, the code relies on a flat address space) is evaluated as the difference of the integer addresses",
  "cbmc runs with --object-bits 7 (at most 128 objects; more is an error, not a miss); assert() compiled out (NDEBUG semantics)",
 ],
 "instances":[]
}
u["instances"].append({"name":"reMax","function":"DataSet<DATA>::reMax(int newmax = 0) [+ spx_realloc]","defines":{"INST_reMax":""},
  "harness":"h_reMax","enforce":"w_reMax","unwind":12,"unwind_loops":[{"function":RM,"loop":0},{"function":"verif_realloc","loop":0},{"function":"verif_memcpy","loop":0}],"min_obligations":60,
  "mutants":[{"name":"end_marker","slice":"DataSet_reMax.inc","find":"*lastfree = -newmax - 1;","replace":"*lastfree = -newmax;"},
             {"name":"no_clamp","slice":"DataSet_reMax.inc","find":"newmax = (newmax < size()) ? size() : newmax;","replace":"newmax = (newmax < num()) ? num() : newmax;"},
             {"name":"fixup_after_realloc","slice":"DataSet_reMax.inc","regex":True,
              "find":r"\*lastfree = -newmax - 1;\s*themax = newmax;\s*spx_realloc\(theitem, themax\);","replace":"themax = newmax;\n spx_realloc(theitem, themax);\n *lastfree = -newmax - 1;"}]})
u["instances"].append({"name":"assign","function":"DataSet<DATA>::operator=(const DataSet<DATA>& rhs) [+ reMax, clear]","defines":{"INST_assign":""},
  "harness":"h_assign","enforce":"w_assign","unwind":12,
  "unwind_loops":[{"function":RM,"loop":0},{"function":"verif_realloc","loop":0},{"function":AS,"loop":0},{"function":AS,"loop":1},{"function":AS,"loop":2},{"function":"verif_memcpy","loop":0}],"min_obligations":80,
  "mutants":[{"name":"memcpy_num","slice":"DataSet_assign.inc","regex":True,
              "find":r"for\(i = 0; i < rhs\.size\(\); \+\+i\)\s*memcpy\(&theitem\[i\], &rhs\.theitem\[i\], sizeof\(\*theitem\)\);\s*for\(i = 0; i < rhs\.num\(\); \+\+i\)\s*thekey\[i\] = rhs\.thekey\[i\];",
              "replace":"memcpy(theitem, rhs.theitem, rhs.num() * sizeof(*theitem));\n memcpy(thekey, rhs.thekey, rhs.num() * sizeof(*thekey));"},
             {"name":"items_num","slice":"DataSet_assign.inc","find":"for(i = 0; i < rhs.size(); ++i)","replace":"for(i = 0; i < rhs.num(); ++i)"},
             {"name":"no_rebase","slice":"DataSet_assign.inc","find":"theitem[ -i - 1].info = -themax - 1;","replace":"theitem[ -i - 1].info = -rhs.themax - 1;"},
             {"name":"ff_empty","slice":"DataSet_assign.inc","find":"firstfree = -themax - 1;","replace":"firstfree = -rhs.themax - 1;"},
             {"name":"no_grow","slice":"DataSet_assign.inc","find":"if(rhs.size() > max())","replace":"if(rhs.num() > max())"},
             {"name":"size_num","slice":"DataSet_assign.inc","find":"thesize = rhs.thesize;","replace":"thesize = rhs.thenum;"}]})
u["instances"].append({"name":"copyctor","function":"DataSet<DATA>::DataSet(const DataSet& old)","defines":{"INST_copyctor":""},
  "harness":"h_copyctor","enforce":"w_copyctor","unwind":6,"unwind_loops":[{"function":CC,"loop":0},{"function":"verif_memcpy","loop":0}],"min_obligations":30,
  "mutants":[{"name":"init_size","slice":"DataSet_copyctor_init.inc","find":"thesize(old.thesize)","replace":"thesize(old.thenum)"},
             {"name":"items_num","slice":"DataSet_copyctor.inc","find":"memcpy(theitem, old.theitem, themax * sizeof(*theitem));","replace":"memcpy(theitem, old.theitem, thenum * sizeof(*theitem));"},
             {"name":"keys_short","slice":"DataSet_copyctor.inc","find":"memcpy(thekey,  old.thekey,  themax * sizeof(*thekey));","replace":"memcpy(thekey,  old.thekey,  (thenum - 1) * sizeof(*thekey));"}]})
EXP={"reMax":30,"assign":30,"copyctor":5}
twins=[]
for i in u["instances"]:
    i["expected_s"]=EXP[i["name"]]
    m=json.loads(json.dumps(i)); m["name"]=i["name"]+"_mem"; m["defines"]["EXACT_ALLOC"]=""
    m["function"]=i["function"]+"  [memory safety, blocks of exactly the requested size]"
    m["min_obligations"]=i["min_obligations"]//2; m["mutants"]=MEM_MUT[i["name"]]
    if i["name"]=="reMax":
        m["defines"]["TMAX_IS"]="4"; m["function"]=i["function"]+"  [memory safety: max() == 4, blocks of exactly the requested size]"
        twins.append(m)
    elif i["name"]=="assign":
        for nm,t,r,what in (("assign_mem","4","4","max() == rhs.max() == 4 (no growth)"),("assign_memgrow","2","4","max() == 2, rhs.max() == 4 (growth through reMax)")):
            mm=json.loads(json.dumps(m)); mm["name"]=nm; mm["defines"]["TMAX_IS"]=t; mm["defines"]["RMAX_IS"]=r
            mm["function"]=i["function"]+"  [memory safety: "+what+", blocks of exactly the requested size]"
            if nm=="assign_memgrow": mm["mutants"]=[{"name":"grow_short","slice":"DataSet_assign.inc","find":"reMax(rhs.size());","replace":"reMax(rhs.size() - 1);"}]
            else: mm["mutants"]=[{"name":"copy_one_more","slice":"DataSet_assign.inc","find":"for(i = 0; i < rhs.size(); ++i)","replace":"for(i = 0; i <= rhs.size(); ++i)"}]
            twins.append(mm)
    else:
        twins.append(m)
u["instances"]+=twins
EXPECTED_S={'reMax': 30, 'assign': 30, 'copyctor': 5, 'reMax_mem': 30, 'assign_mem': 35, 'assign_memgrow': 30, 'copyctor_mem': 3}
THOROUGH_ONLY=['assign_memgrow', 'reMax_mem']
for _i in u["instances"]:
    if _i["name"] in EXPECTED_S: _i["expected_s"]=EXPECTED_S[_i["name"]]
    if _i["name"] in THOROUGH_ONLY: _i["tier"]="thorough"
json.dump(u, open(os.path.join(os.path.dirname(os.path.abspath(__file__)), "unit.json"), "w"), indent=1)
