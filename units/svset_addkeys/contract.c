/* add(nkey, svec, n) / add(nkey, pset): afterwards the set has n more vectors and, FOR EVERY j in [0, n), nkey[j] is the key
 * of the j-th new vector, i.e. key(old num() + j) (documented: "At return, nkey contains the DataKeys that the SVSetBase has
 * associated to the new SVectorBases"; precondition: nkey fits n keys).  nkey is a block of EXACTLY n keys. */
#include "verif_c.h"
#ifndef CAP
#define CAP 4
#endif
#ifdef NKEY_CONST
#define NKEY_CELLS CAP
#else
#define NKEY_CELLS (n > 0 ? n : 1)
#endif
#ifndef NMIN
#define NMIN 0
#endif
#ifndef NMAX
#define NMAX CAP
#endif
int g_j, g_n0; long long v_key;
void w_addkeys(long long* key, int* thenum, long long* nkey, int n, int form)
__CPROVER_requires(__CPROVER_is_fresh(thenum, sizeof(int)) && __CPROVER_is_fresh(key, CAP * sizeof(long long)))
__CPROVER_requires(NMIN <= n && n <= NMAX && 0 <= n && n <= CAP && 0 <= *thenum && *thenum <= CAP && *thenum + n <= CAP && __CPROVER_is_fresh(nkey, NKEY_CELLS * sizeof(long long)))
__CPROVER_requires(form == FORM && g_n0 == *thenum && (!(0 <= g_j && g_j < n) || v_key == key[*thenum + g_j]))
__CPROVER_assigns(*thenum, __CPROVER_object_whole(nkey))
__CPROVER_ensures(*thenum == g_n0 + n)
__CPROVER_ensures(!(0 <= g_j && g_j < n) || nkey[g_j] == v_key)
;
void h_addkeys(void)
{
   long long* key; int* thenum; long long* nkey; int n, form;
   g_j = nondet_int(); g_n0 = nondet_int(); v_key = nondet_ll();
   w_addkeys(key, thenum, nkey, n, form);
   CANARY();
}
