/* C19: SVSetBase<R>::add(DataKey nkey[], const SVectorBase<R> svec[], int n) and add(DataKey nkey[], const SVSetBase<S>& pset)
 * (src/soplex/svsetbase.h): "a key handed out on insertion identifies its element".  Real bodies; the callees add(svec, n) /
 * add(pset) are models of their contract (n vectors are appended and get the numbers old num() .. old num()+n-1; their
 * keys are whatever the set assigns: arbitrary values in the key array), key(i) = thekey[i] with the obligation 0 <= i < num(). */
#include "verif.h"
#include "DataKey.inc"

struct SVec { int opaque; };                       /* SVectorBase<R>: not inspected by the bodies under contract */
struct PSet { int n_; int num() const { return n_; } };   /* the SVSetBase<S> argument: only num() is used */

struct H
{
   int thenum;
   DataKey* thekey;
   /* parameters (zero-argument member trick) */
   DataKey* nkey;
   const SVec* svec;
   int n;
   const PSet* pset_;

   int num() const { return thenum; }
   DataKey key(int i) const
   {
      __CPROVER_assert(0 <= i && i < thenum, "SVSetBase::key(n): 0 <= n < num()");
      return thekey[i];
   }
   void add(const SVec* v, int k) { thenum += k; }
   void add(const PSet& p) { thenum += p.num(); }
   void body_arr()
   {
#include "SVSet_addKeysArr.inc"
   }
   void body_set()
   {
      const PSet& pset = *pset_;
#include "SVSet_addKeysSet.inc"
   }
};

extern "C" void w_addkeys(long long* key, int* thenum, long long* nkey, int n, int form)
{
   VIN("num", *thenum); VIN("n", n);
   SVec v[1];
   PSet p; p.n_ = n;
   H s; s.thenum = *thenum; s.thekey = (DataKey*)key; s.nkey = (DataKey*)nkey; s.svec = v; s.n = n; s.pset_ = &p;
   if(form == 0)
      s.body_arr();
   else
      s.body_set();
   *thenum = s.thenum;
}
