/* Native replay for unit dataarray: runs the REAL soplex::DataArray<int> on the counterexample (ASan build). */
#include "replay_util.h"
#include "soplex/spxdefines.h"
#include "soplex/dataarray.h"

using namespace soplex;

int main(int argc, char** argv)
{
   if(argc < 3) return 2;
   ReplayIn in(argv[1]);
   std::string inst = argv[2];
   int size = (int)in.geti("thesize", 5), max = (int)in.geti("themax", 5), a = (int)in.geti("a", 1), b = (int)in.geti("b", -1);
   if(size < 0 || max < 1 || size > max || max > 4096) return 2;
   DataArray<int> arr(size, max);
   for(int k = 0; k < size; k++) arr[k] = 10 + k;
   if(inst == "reMax" || inst == "reMaxOK")
   {
      if(a > 8192 || b > 8192) return 2;
      std::cout << "DataArray<int>(size " << size << ", max " << max << ").reMax(" << a << ", " << b << ")" << std::endl;
      arr.reMax(a, b);
      std::cout << "size() = " << arr.size() << ", max() = " << arr.max() << std::endl;
      if(arr.size() > arr.max()) REPLAY_FAIL("size() = " << arr.size() << " > max() = " << arr.max() << ": " << arr.size() - arr.max() << " elements lie outside the block");
      int keep = std::min(size, arr.size());
      for(int k = 0; k < keep; k++) if(arr.get_const_ptr()[k] != 10 + k) REPLAY_FAIL("element " << k << " lost");
   }
   else
   {
      std::cout << "no native replay for instance " << inst << std::endl;
      return 0;
   }
   REPLAY_OK();
}
