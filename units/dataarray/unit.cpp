/* C19: DataArray<T> (src/soplex/dataarray.h), T = int.  Real bodies of reSize, reMax, insert(i,n), insert(i,n,t),
 * remove(n,m), removeLast, size, max, operator[]; the host replicates the four data members (conformance-checked).
 * spx_alloc / spx_realloc / spx_free are the real ones minus the out-of-memory exception (malloc / realloc / free of
 * CBMC's C library model: realloc = fresh block, old prefix copied, old block freed). */
#include "verif.h"

typedef double Real;
extern "C" {
void* malloc(size_t);
void free(void*);
/* realloc is replaced by its ISO C contract (contract.c: verif_realloc) */
void* verif_realloc(void* p, size_t n);
/* memmove is replaced by its ISO C contract (contract.c: verif_memmove), see "trusted" */
void* verif_memmove(void* dst, const void* src, size_t n);
}
#define memmove(d, s, n) verif_memmove((d), (s), (n))
#define realloc(p, n) verif_realloc((p), (n))

template <class PT> inline void spx_alloc(PT& p, int n = 1)
{
   if(n == 0) n = 1;
   p = reinterpret_cast<PT>(malloc(sizeof(*p) * (unsigned int) n));
   __CPROVER_assume(p != 0);          /* the real one throws SPxMemoryException */
}
template <class PT> inline void spx_realloc(PT& p, int n)
{
   PT pp;
   if(n == 0) n = 1;
   pp = reinterpret_cast<PT>(realloc(p, sizeof(*p) * (unsigned int) n));
   __CPROVER_assume(pp != 0);         /* the real one throws SPxMemoryException */
   p = pp;
}
template <class PT> inline void spx_free(PT& p)
{
   free(p);
   p = 0;
}

typedef int T;
extern "C" { extern T* gp_data; extern T** gpp_data; extern int g_i, g_n; extern T g_t; }

struct DataArrayHost
{
   int thesize;
   int themax;
   T*  data;
   Real memFactor;

   int size() const
   {
#include "DataArray_size.inc"
   }
   int max() const
   {
#include "DataArray_max.inc"
   }
   T& operator[](int n)
   {
#include "DataArray_at.inc"
   }
   void reMax(int newMax = 1, int newSize = -1)
   {
#include "DataArray_reMax.inc"
   }
   void reSize(int newsize)
   {
#include "DataArray_reSize.inc"
   }
   void insert(int i, int n)
   {
#include "DataArray_insert.inc"
   }
   void remove(int n = 0, int m = 1)
   {
#include "DataArray_remove.inc"
   }
   void removeLast(int m = 1)
   {
#include "DataArray_removeLast.inc"
   }
};

#ifdef INST_insertVal
/* insert(int i, int n, const T& t) has a loop: zero-argument member trick */
struct H : DataArrayHost
{
   int i; int n; T t_;
   void body()
   {
      const T& t = t_;
#include "DataArray_insertVal.inc"
   }
};
#endif

#define MK(s) s.thesize = *thesize; s.themax = *themax; s.data = data; s.memFactor = memFactor
#define PUT(s) *thesize = s.thesize; *themax = s.themax

extern "C" T* w_op(T* data, int* thesize, int* themax, double memFactor, int op, int a, int b, T t)
{
   VIN("thesize", *thesize); VIN("themax", *themax); VIN("op", op); VIN("a", a); VIN("b", b);
#ifdef INST_insertVal
   H s; MK(s); s.i = a; s.n = b; s.t_ = t; g_t = t; gpp_data = &s.data;
   s.body();
#else
   DataArrayHost s; MK(s);
   if(op == 0) s.reSize(a);
   else if(op == 1) s.insert(a, b);
   else if(op == 2) s.remove(a, b);
   else if(op == 3) s.removeLast(a);
   else if(op == 4) s.reMax(a, b);
#endif
   PUT(s);
   gp_data = s.data;
   return s.data;
}
