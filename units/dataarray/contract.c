/* Contracts for DataArray<int> (C19: "growing the capacity loses nothing", dense 0..n-1 storage, insert/remove shift).
 * One wrapper w_op(data, &thesize, &themax, memFactor, op, a, b, t) returning the (possibly re-allocated) data pointer;
 * the instance fixes op.  data is a block of EXACTLY max() ints, so every out-of-bounds access is an obligation.
 * Representation invariant: 1 <= max(), 0 <= size() <= max(), data valid for max() elements; memFactor >= 1. */
#include "verif_c.h"
#ifndef CAP
#define CAP 16
#endif
typedef int T;
T* gp_data; T** gpp_data; int g_i, g_n, g_f, g_dst; T g_t; int g_mm, g_rr;
int g_k, g_s0, g_m0; T v_old;

#define WF (__CPROVER_is_fresh(thesize, sizeof(int)) && __CPROVER_is_fresh(themax, sizeof(int)) \
   && 1 <= *themax && *themax <= CAP && 0 <= *thesize && *thesize <= *themax \
   && __CPROVER_is_fresh(data, *themax * sizeof(T)) && 1.0 <= memFactor && memFactor <= 4.0 \
   && g_s0 == *thesize && g_m0 == *themax && g_rr == g_k)
#define WF_POST (1 <= *themax && 0 <= *thesize && *thesize <= *themax \
   && __CPROVER_rw_ok(__CPROVER_return_value, *themax * sizeof(T)))
#define RET __CPROVER_return_value
#define COMMON_ASSIGNS __CPROVER_assigns(gp_data, gpp_data, g_t, *thesize, *themax, __CPROVER_object_whole(data)) __CPROVER_frees(data)

/* ISO C realloc (successful), as a contract: a fresh block of n bytes whose first min(n, old size) bytes equal the old
 * block's (stated at the ghost element g_rr = for every element); the old block is released.  g_m0 = the old block's
 * length in elements (checked against the real object size at the call). */
#define RR_IN (0 <= g_rr && g_rr < g_m0 && g_rr * sizeof(T) < n)
void* verif_realloc(void* p, size_t n)
__CPROVER_requires(0 < n && n <= 8 * CAP * sizeof(T) && __CPROVER_is_freeable(p))
__CPROVER_requires(0 < g_m0 && __CPROVER_OBJECT_SIZE(p) == g_m0 * sizeof(T) && __CPROVER_r_ok(p, g_m0 * sizeof(T)))
__CPROVER_assigns()
__CPROVER_frees(p)
__CPROVER_ensures(__CPROVER_is_fresh(__CPROVER_return_value, n))
__CPROVER_ensures(!RR_IN || ((T*)__CPROVER_return_value)[RR_IN ? g_rr : 0] == __CPROVER_old(((const T*)p)[RR_IN ? g_rr : 0]))
;

/* ISO C memmove, as a contract (used with --replace-call-with-contract): the destination range receives the OLD contents
 * of the source range (stated at the ghost element g_mm = for every element), nothing else is written. */
void* verif_memmove(void* dst, const void* src, size_t n)
__CPROVER_requires(n % sizeof(T) == 0 && n <= 2 * CAP * sizeof(T))
__CPROVER_requires(__CPROVER_r_ok(src, n))
__CPROVER_requires(__CPROVER_w_ok(dst, n))
__CPROVER_assigns(__CPROVER_object_upto(dst, n))
__CPROVER_ensures(__CPROVER_return_value == dst)
__CPROVER_ensures(!(0 <= g_mm && (size_t)g_mm < n / sizeof(T)) || ((T*)dst)[g_mm] == __CPROVER_old(((const T*)src)[g_mm]))
;

T* w_op(T* data, int* thesize, int* themax, double memFactor, int op, int a, int b, T t)
#if defined(INST_reSize)
/* reSize(newsize): size() becomes max(newsize,0); every element below min(old size, new size) keeps its value, whether or
 * not the block had to grow (then max() >= newsize, the block is re-allocated, and the old one is released) */
__CPROVER_requires(WF && op == 0 && a <= 2 * CAP)
__CPROVER_requires(0 <= g_k && g_k < *thesize && v_old == data[g_k])
COMMON_ASSIGNS
__CPROVER_ensures(WF_POST && *thesize == (a < 0 ? 0 : a))
__CPROVER_ensures(a > g_m0 || (RET == data && *themax == g_m0))
__CPROVER_ensures(a <= g_m0 || (*themax >= a && *themax == (int)(memFactor * a)))
__CPROVER_ensures(!(g_k < *thesize) || RET[g_k] == v_old)
#elif defined(INST_reMax)
/* reMax(newMax, newSize) as documented: newSize >= 0: size() = newSize, max() = max(newMax, newSize, 1);
 * newSize < 0: size() unchanged.  The array stays consistent (size() <= max()) and keeps the elements below
 * min(old size, new size).  EXPECTED TO FAIL for newSize < 0 <= newMax < size(): see unit.json note. */
__CPROVER_requires(WF && op == 4 && a <= 2 * CAP && b <= 2 * CAP)
__CPROVER_requires(0 <= g_k && g_k < *thesize && v_old == data[g_k])
COMMON_ASSIGNS
__CPROVER_ensures(WF_POST && *thesize == (b < 0 ? g_s0 : b))
__CPROVER_ensures(!(g_k < *thesize) || RET[g_k] == v_old)
#elif defined(INST_reMaxOK)
/* the same under the caller obligation  newSize >= 0 || newMax >= size() */
__CPROVER_requires(WF && op == 4 && a <= 2 * CAP && b <= 2 * CAP && (b >= 0 || a >= *thesize))
__CPROVER_requires(0 <= g_k && g_k < *thesize && v_old == data[g_k])
COMMON_ASSIGNS
__CPROVER_ensures(WF_POST && *thesize == (b < 0 ? g_s0 : b))
__CPROVER_ensures(*themax == ((a > b ? a : b) > 1 ? (a > b ? a : b) : 1))
__CPROVER_ensures(!(g_k < *thesize) || RET[g_k] == v_old)
#elif defined(INST_insert)
/* insert(i, n): n uninitialised elements before position i; elements below i stay, elements from i on move up by n */
__CPROVER_requires(WF && op == 1 && 0 <= a && a <= *thesize && 0 <= b && b <= 2 * CAP && *thesize + b <= 2 * CAP)
__CPROVER_requires(0 <= g_k && g_k < *thesize && v_old == data[g_k] && g_mm == g_k - a)
COMMON_ASSIGNS
__CPROVER_ensures(WF_POST && *thesize == g_s0 + b)
__CPROVER_ensures(RET[g_k < a ? g_k : g_k + b] == v_old)
#elif defined(INST_insertVal)
/* insert(i, n, t): as insert(i,n), and the n new elements i..i+n-1 equal t (ghost g_n in [0,n)) */
__CPROVER_requires(WF && 0 <= a && a <= *thesize && 0 <= b && b <= 2 * CAP && *thesize + b <= 2 * CAP && g_i == a && g_n == b)
__CPROVER_requires(0 <= g_k && g_k < *thesize && v_old == data[g_k] && g_mm == g_k - a && g_dst == (g_k < a ? g_k : g_k + b))
COMMON_ASSIGNS
__CPROVER_ensures(WF_POST && *thesize == g_s0 + b)
__CPROVER_ensures(RET[g_k < a ? g_k : g_k + b] == v_old)
__CPROVER_ensures(!(0 <= g_f && g_f < b) || RET[a + g_f] == t)
#elif defined(INST_remove)
/* remove(n, m): m elements from position n are deleted (all elements from n on, if fewer than m follow); the elements
 * below n stay, the elements behind the deleted range move down; size() shrinks by the number deleted */
#define M_EFF ((long long)a + b < g_s0 ? b : g_s0 - a)
__CPROVER_requires(WF && op == 2 && 0 <= a && a < *thesize && 0 <= b && b <= 2 * CAP)
__CPROVER_requires(0 <= g_k && g_k < *thesize && v_old == data[g_k] && g_mm == g_k - a - b)
COMMON_ASSIGNS
__CPROVER_ensures(WF_POST && *thesize == g_s0 - M_EFF && RET == data && *themax == g_m0)
__CPROVER_ensures(!(g_k < a) || RET[g_k] == v_old)
__CPROVER_ensures(!(g_k >= (long long)a + b) || RET[g_k - b] == v_old)
#elif defined(INST_removeLast)
/* removeLast(m): size() shrinks by m, nothing moves */
__CPROVER_requires(WF && op == 3 && 0 <= a && a <= *thesize)
__CPROVER_requires(0 <= g_k && g_k < *thesize && v_old == data[g_k])
COMMON_ASSIGNS
__CPROVER_ensures(WF_POST && *thesize == g_s0 - a && RET == data && *themax == g_m0)
__CPROVER_ensures(!(g_k < *thesize) || RET[g_k] == v_old)
#endif
;

void h_op(void)
{
   T* data; int* thesize; int* themax; double memFactor; int op, a, b; T t;
   g_k = nondet_int(); g_s0 = nondet_int(); g_m0 = nondet_int(); v_old = nondet_int(); g_i = nondet_int(); g_n = nondet_int(); g_mm = nondet_int(); g_rr = nondet_int(); g_t = nondet_int(); g_f = nondet_int(); g_dst = nondet_int();
   w_op(data, thesize, themax, memFactor, op, a, b, t);
   CANARY();
}
