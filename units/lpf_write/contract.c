/* Contracts for the LP-format row writer and MPSgetRHS (C12 [ext]).
 * What a written row DENOTES when it is read back:  "<terms> = v" is [v,v],  "<terms> <= v" is [-inf,v],
 * "<terms> >= v" is [v,+inf].  The writer must emit rows that denote exactly the sides of the LP row; a ranged row
 * (both sides finite and different) cannot be written as one LP-format row and is split into "_1: >= lhs" and "_2: <= rhs". */
#include "verif_c.h"
#include "constants.h"
#define INF VERIF_SOPLEX_INFINITY
#define NOT_NAN(x) ((x) == (x))
enum { EV_OTHER = 0, EV_EQ = 1, EV_LE = 2, EV_GE = 3, EV_NL = 4, EV_NUM = 5, EV_SVEC = 6, EV_SUF1 = 7, EV_SUF2 = 8, EV_NAME = 9, EV_COLON = 10 };
int e_n, e_k0, e_k1, e_k2, e_k3; double e_v0, e_v1, e_v2, e_v3;
int s_last_suffix, s_last_name;
int g_r, w_calls, w1_suf, w2_suf, w_all_ok; double w1_lhs, w1_rhs, w2_lhs, w2_rhs;
int g_nr, g_ranged, g_SUF1, g_SUF2, g_COLON; double v_lhs, v_rhs, g_inf;
int g_throw_allowed;
void verif_throw(void) { __CPROVER_assert(g_throw_allowed, "exception thrown only where the contract allows it"); }
static void havoc_ghosts(void)
{
   e_n = 0; e_k0 = e_k1 = e_k2 = e_k3 = -1; e_v0 = e_v1 = e_v2 = e_v3 = 0.0;
   s_last_suffix = -1; s_last_name = -1;
   g_r = nondet_int(); w_calls = 0; w1_suf = w2_suf = -1; w_all_ok = 1; w1_lhs = w1_rhs = w2_lhs = w2_rhs = 0.0;
   g_nr = nondet_int(); g_ranged = nondet_int(); v_lhs = nondet_double(); v_rhs = nondet_double();
   g_SUF1 = EV_SUF1; g_SUF2 = EV_SUF2; g_COLON = EV_COLON; g_inf = INF;
   g_throw_allowed = nondet_int();
}
#define RANGED(l, r) ((l) > -INF && (r) < INF && (l) != (r))

#ifdef INST_MPSgetRHS
/* the value written in the RHS section is a finite side of the row: the left one if there is one (this includes ranges
 * and equations), else the right one; a free row has no right-hand side (the only case in which a throw is allowed) */
double w_MPSgetRHS(double left, double right)
__CPROVER_requires(NOT_NAN(left) && NOT_NAN(right) && g_throw_allowed == (!(left > -INF) && !(right < INF)))
__CPROVER_assigns()
__CPROVER_ensures(left > -INF ==> __CPROVER_return_value == left)
__CPROVER_ensures((!(left > -INF) && right < INF) ==> __CPROVER_return_value == right)
__CPROVER_ensures(left > -INF || right < INF)
;
void h_MPSgetRHS(void) { double l, r; havoc_ghosts(); w_MPSgetRHS(l, r); CANARY(); }
#endif

#ifdef INST_MPSgetRHS_rat
/* rational twin: same contract.  For a row with a finite left side the RHS section carries the left side (a ranged row is
 * written as an E row with RANGES = rhs - lhs and relies on RHS == lhs), else the finite right side; throw only for a free row */
#define RFIN_LO(x) ((x) > -RAT_INF)
#define RFIN_UP(x) ((x) < RAT_INF)
long long w_MPSgetRHS_rat(long long left, long long right)
__CPROVER_requires(g_throw_allowed == (!RFIN_LO(left) && !RFIN_UP(right)))
__CPROVER_assigns()
__CPROVER_ensures(RFIN_LO(left) ==> __CPROVER_return_value == left)
__CPROVER_ensures((!RFIN_LO(left) && RFIN_UP(right)) ==> __CPROVER_return_value == right)
__CPROVER_ensures(RFIN_LO(left) || RFIN_UP(right))
;
void h_MPSgetRHS_rat(void) { long long l, r; havoc_ghosts(); w_MPSgetRHS_rat(l, r); CANARY(); }
#endif

#ifdef INST_LPFwriteRow
/* a non-ranged row is written as: coefficient list, ONE relation token, ONE number, newline; and the relation and the
 * number denote exactly [lhs, rhs] */
void w_LPFwriteRow(double lhs, double rhs)
__CPROVER_requires(NOT_NAN(lhs) && NOT_NAN(rhs) && !RANGED(lhs, rhs) && e_n == 0 && g_throw_allowed == 0)
__CPROVER_assigns(e_n, e_k0, e_k1, e_k2, e_k3, e_v0, e_v1, e_v2, e_v3, s_last_suffix)
__CPROVER_ensures(e_n == 4 && e_k0 == EV_SVEC && (e_k1 == EV_EQ || e_k1 == EV_LE || e_k1 == EV_GE) && e_k2 == EV_NUM && e_k3 == EV_NL)
__CPROVER_ensures(e_k1 == EV_EQ ==> (lhs == e_v2 && rhs == e_v2))
__CPROVER_ensures(e_k1 == EV_LE ==> (lhs <= -INF && rhs == e_v2))
__CPROVER_ensures(e_k1 == EV_GE ==> (lhs == e_v2 && rhs >= INF))
;
void h_LPFwriteRow(void) { double l, r; havoc_ghosts(); w_LPFwriteRow(l, r); CANARY(); }
#endif

#ifdef INST_LPFwriteRows
#ifndef VCAP
#define VCAP 8
#endif
/* for every row g_r: a ranged row is written as two non-ranged rows [lhs,+inf] (name suffix _1) and [-inf,rhs] (suffix _2)
 * whose intersection is the row; any other row is written once with its own sides; every LPFwriteRow call satisfies
 * LPFwriteRow's precondition (not ranged) and follows the name of the same row */
void w_LPFwriteRows(double* lhs, double* rhs, int nr)
__CPROVER_requires(0 <= nr && nr <= VCAP && g_nr == nr && __CPROVER_is_fresh(lhs, (nr > 0 ? nr : 1) * sizeof(double)) && __CPROVER_is_fresh(rhs, (nr > 0 ? nr : 1) * sizeof(double)))
__CPROVER_requires(nr == 0 ? g_r == 0 : (0 <= g_r && g_r < nr))
__CPROVER_requires(nr > 0 ==> (v_lhs == lhs[g_r] && v_rhs == rhs[g_r] && NOT_NAN(v_lhs) && NOT_NAN(v_rhs) && g_ranged == (RANGED(v_lhs, v_rhs) ? 1 : 0)))
__CPROVER_requires(w_calls == 0 && w_all_ok == 1 && g_throw_allowed == 0)
__CPROVER_assigns(e_n, e_k0, e_k1, e_k2, e_k3, e_v0, e_v1, e_v2, e_v3, s_last_suffix, s_last_name, w_calls, w1_suf, w2_suf, w_all_ok, w1_lhs, w1_rhs, w2_lhs, w2_rhs)
__CPROVER_ensures(w_all_ok == 1)
__CPROVER_ensures((nr > 0 && !g_ranged) ==> (w_calls == 1 && w1_lhs == v_lhs && w1_rhs == v_rhs && w1_suf == EV_COLON))
__CPROVER_ensures((nr > 0 && g_ranged) ==> (w_calls == 2 && w1_lhs == v_lhs && w1_rhs >= INF && w1_suf == EV_SUF1 && w2_lhs <= -INF && w2_rhs == v_rhs && w2_suf == EV_SUF2))
;
void h_LPFwriteRows(void) { double* l; double* r; int nr; havoc_ghosts(); w_LPFwriteRows(l, r, nr); CANARY(); }
#endif

#if defined(INST_LPFwriteBounds) || defined(INST_LPFwriteBounds_rat)
/* Property: "writing the LP in LP format and reading it back gives identical bounds".  LP format: a column that has no
 * line in the Bounds section has the DEFAULT bounds [0, +inf); the line forms and what they denote:
 *      x = v            [v, v]            l <= x <= u      [l, u]            x <= u     [0, u]   (lower stays default)
 *      l <= x           [l, +inf)         -Inf <= x <= u   (-inf, u]         x free     (-inf, +inf)
 * For the ghost column g_j: at most one line names it, and that line (or its absence) denotes exactly
 * [lower_j, upper_j] ("infinite" = beyond the threshold the code uses). */
#ifdef INST_LPFwriteBounds_rat
typedef long long NUMT;
#define BINF RAT_INF
#define NN(x) 1
#else
typedef double NUMT;
#define BINF INF
#define NN(x) NOT_NAN(x)
#endif
enum { B_OTHER = 0, B_IND = 1, B_NUM = 2, B_LE = 3, B_EQ = 4, B_NAME = 5, B_NEGINF_LE = 6, B_FREE = 7, B_NL = 8 };
int l_n, l_name, l_bad, l_k[8], w_n, w_lines, w_ok, w_k[8], g_j, g_nc, g_default_ok; NUMT l_v[8], w_v[8], v_lo, v_up;
#define LO_OK(d, l) ((d) == (l) || ((d) <= -BINF && (l) <= -BINF))
#define UP_OK(d, u) ((d) == (u) || ((d) >= BINF && (u) >= BINF))
#define DENOTES(dlo, dup) (LO_OK(dlo, v_lo) && UP_OK(dup, v_up))
#define SEQ3(a, b, c) (w_n == 3 && w_k[0] == (a) && w_k[1] == (b) && w_k[2] == (c))
#define SEQ5(a, b, c, d, e) (w_n == 5 && w_k[0] == (a) && w_k[1] == (b) && w_k[2] == (c) && w_k[3] == (d) && w_k[4] == (e))
#define SEQ7(a, b, c, d, e, f, g) (w_n == 7 && w_k[0] == (a) && w_k[1] == (b) && w_k[2] == (c) && w_k[3] == (d) && w_k[4] == (e) && w_k[5] == (f) && w_k[6] == (g))
/* the recorded line of the ghost column is one of the six line forms and denotes [v_lo, v_up] */
int spec_bounds_line_ok(void)
{
   if(SEQ5(B_IND, B_NAME, B_EQ, B_NUM, B_NL)) return w_v[3] == v_lo && w_v[3] == v_up;
   if(SEQ7(B_IND, B_NUM, B_LE, B_NAME, B_LE, B_NUM, B_NL)) return DENOTES(w_v[1], w_v[5]);
   if(SEQ5(B_IND, B_NAME, B_LE, B_NUM, B_NL)) return DENOTES((NUMT)0, w_v[3]);
   if(SEQ5(B_IND, B_NUM, B_LE, B_NAME, B_NL)) return DENOTES(w_v[1], (NUMT)BINF);
   if(SEQ5(B_NEGINF_LE, B_NAME, B_LE, B_NUM, B_NL)) return DENOTES((NUMT)(-BINF), w_v[3]);
   if(SEQ3(B_IND, B_NAME, B_FREE)) return DENOTES((NUMT)(-BINF), (NUMT)BINF);
   return 0;
}
#ifndef VCAP
#define VCAP 8
#endif
void w_LPFwriteBounds(NUMT* lower, NUMT* upper, int nc)
__CPROVER_requires(0 <= nc && nc <= VCAP && g_nc == nc && __CPROVER_is_fresh(lower, (nc > 0 ? nc : 1) * sizeof(NUMT)) && __CPROVER_is_fresh(upper, (nc > 0 ? nc : 1) * sizeof(NUMT)))
__CPROVER_requires(nc == 0 ? g_j == 0 : (0 <= g_j && g_j < nc))
__CPROVER_requires(nc > 0 ==> (v_lo == lower[g_j] && v_up == upper[g_j] && NN(v_lo) && NN(v_up)))
__CPROVER_requires(g_default_ok == (DENOTES((NUMT)0, (NUMT)BINF) ? 1 : 0))
__CPROVER_requires(l_n == 0 && l_name == -1 && l_bad == 0 && w_lines == 0 && w_ok == 0 && g_throw_allowed == 0)
__CPROVER_assigns(l_n, l_name, l_bad, w_n, w_lines, w_ok, __CPROVER_object_whole(l_k), __CPROVER_object_whole(l_v), __CPROVER_object_whole(w_k), __CPROVER_object_whole(w_v))
/* at most one line for the column; a line denotes exactly its bounds; no line only if the bounds are the default */
__CPROVER_ensures(nc > 0 ==> w_lines <= 1)
__CPROVER_ensures((nc > 0 && w_lines == 1) ==> w_ok == 1)
__CPROVER_ensures((nc > 0 && w_lines == 0) ==> DENOTES((NUMT)0, (NUMT)BINF))
__CPROVER_ensures(l_n == 0 && l_bad == 0)
;
void h_LPFwriteBounds(void)
{
   NUMT* lo; NUMT* up; int nc;
   havoc_ghosts();
   l_n = 0; l_name = -1; l_bad = 0; w_lines = 0; w_ok = 0; w_n = 0; g_j = nondet_int(); g_nc = nondet_int(); g_default_ok = nondet_int();
#ifdef INST_LPFwriteBounds_rat
   v_lo = nondet_ll(); v_up = nondet_ll();
#else
   v_lo = nondet_double(); v_up = nondet_double();
#endif
   w_LPFwriteBounds(lo, up, nc);
   CANARY();
}
#endif
