"""Generator of unit.json (python3 gen_unit.py)."""
import json, os
F = "src/soplex/spxlpbase_real.hpp"
def S(as_, sig, must): return {"as": as_, "file": F, "sig": sig, "must_contain": must}
S_rhs = S("MPSgetRHS.inc", r"static\s+R\s+MPSgetRHS\s*\(\s*R\s+left\s*,\s*R\s+right\s*\)", [r"left\s*>\s*R\(-infinity\)", r"right\s*<\s*R\(infinity\)"])
S_rhs_rat = {"as": "MPSgetRHS_rat.inc", "file": "src/soplex/spxlpbase_rational.hpp", "sig": r"static\s+Rational\s+MPSgetRHS\s*\(\s*Rational\s+left\s*,\s*Rational\s+right\s*\)",
             "must_contain": [r"double\(left\)\s*>\s*-double\(infinity\)", r"double\(right\)\s*<\s*double\(infinity\)"]}
S_row = S("LPFwriteRow.inc", r"static\s+void\s+LPFwriteRow\s*\(\s*const\s+SPxLPBase<R>&\s+p_lp,[^)]*const\s+SVectorBase<R>&\s+p_svec,[^)]*const\s+R&\s+p_lhs,[^)]*const\s+R&\s+p_rhs[^)]*\)",
          [r"LPFwriteSVector\(p_lp,\s*p_output,\s*p_cnames,\s*p_svec\);", r'p_output\s*<<\s*" = "\s*<<\s*p_rhs', r'p_output\s*<<\s*" <= "\s*<<\s*p_rhs', r'p_output\s*<<\s*" >= "\s*<<\s*p_lhs'])
S_rows = S("LPFwriteRows.inc", r"static\s+void\s+LPFwriteRows\s*\(\s*const\s+SPxLPBase<R>&\s+p_lp,[^)]*std::ostream&\s+p_output,[^)]*const\s+NameSet\*\s+p_rnames,[^)]*const\s+NameSet\*\s+p_cnames[^)]*\)",
           [r"LPFwriteRow\(p_lp,\s*p_output,\s*p_cnames,\s*p_lp\.rowVector\(i\),\s*lhs,\s*R\(infinity\)\);", r"LPFwriteRow\(p_lp,\s*p_output,\s*p_cnames,\s*p_lp\.rowVector\(i\),\s*R\(-infinity\),\s*rhs\);",
            r"LPFgetRowName\(p_lp,\s*i,\s*p_rnames,\s*name,\s*i\)", r'"_1 : "', r'"_2 : "'])
FR = "src/soplex/spxlpbase_rational.hpp"
S_bnd = S("LPFwriteBounds.inc", r"static\s+void\s+LPFwriteBounds\s*\(\s*const\s+SPxLPBase<R>&\s+p_lp,[^)]*std::ostream&\s+p_output,[^)]*const\s+NameSet\*\s+p_cnames[^)]*\)",
          [r'p_output\s*<<\s*"Bounds\\n";', r"else if\(lower\s*(!=|>)\s*0\)", r'"   -Inf <= "', r'" free\\n"', r"getColName\(p_lp,\s*j,\s*p_cnames,\s*name\)"])
S_bnd_rat = {"as": "LPFwriteBounds_rat.inc", "file": FR, "sig": r"static\s+void\s+LPFwriteBounds\s*\(\s*const\s+SPxLPBase<Rational>&\s+p_lp,[^)]*std::ostream&\s+p_output,[^)]*const\s+NameSet\*\s+p_cnames,[^)]*SPxOut\*\s+spxout[^)]*\)",
             "must_contain": [r'p_output\s*<<\s*"Bounds\\n";', r"double\(lower\)\s*>\s*-double\(infinity\)", r'"   -Inf <= "', r'" free\\n"', r"p_output\.tellp\(\)"]}
def bounds_loop(rat):
    return [{"function": r"H::body\(this\)", "loop": 0, "locals": ["j", "name"] + (["pos"] if rat else []),
      "invariants": ["0 <= j && j <= g_nc", "l_n == 0 && l_name == -1 && l_bad == 0", "w_lines <= 1"] + (["pos == 0"] if rat else []) + [
                     "(g_nc > 0 && j <= g_j) ==> w_lines == 0",
                     "(g_nc > 0 && j > g_j) ==> ((w_lines == 0 && g_default_ok == 1) || (w_lines == 1 && w_ok == 1))"],
      "assigns": ["j", "__CPROVER_object_whole(name)", "l_n", "l_name", "l_bad", "w_n", "w_lines", "w_ok", "__CPROVER_object_whole(l_k)", "__CPROVER_object_whole(l_v)",
                  "__CPROVER_object_whole(w_k)", "__CPROVER_object_whole(w_v)"] + (["pos"] if rat else []),
      "decreases": "g_nc - j"}]
def bounds_mutants(sl, rat):
    lo_fin = "else if(double(lower) > -double(infinity))" if rat else "else if(lower > R(-infinity))"
    return [
     {"name": "seeded_negative_lower_dropped", "slice": sl, "find": "else if(lower != 0)", "replace": "else if(lower > 0)"},
     {"name": "range_zero_test_flipped", "slice": sl, "find": "            if(lower != 0)", "replace": "            if(lower == 0)"},
     {"name": "fixed_test_ge", "slice": sl, "find": "if(lower == upper)", "replace": "if(lower >= upper)"},
     {"name": "free_and_neginf_swapped", "slice": sl, "regex": True, "find": r"else if\((double\(upper\) < double\(infinity\)|upper < R\(infinity\))\)\n\s*p_output << \"   -Inf <= \"", "replace": r'else if(!(\1))\n         p_output << "   -Inf <= "'},
    ]
rows_loop = [{"function": r"H::body\(this\)", "loop": 0, "locals": ["i", "name"],
  "invariants": ["0 <= i && i <= g_nr", "w_all_ok == 1",
                 "(g_nr > 0 && i <= g_r) ==> w_calls == 0",
                 "(g_nr > 0 && i > g_r && !g_ranged) ==> (w_calls == 1 && w1_lhs == v_lhs && w1_rhs == v_rhs && w1_suf == g_COLON)",
                 "(g_nr > 0 && i > g_r && g_ranged) ==> (w_calls == 2 && w1_lhs == v_lhs && w1_rhs >= g_inf && w1_suf == g_SUF1 && w2_lhs <= -g_inf && w2_rhs == v_rhs && w2_suf == g_SUF2)"],
  "assigns": ["i", "__CPROVER_object_whole(name)", "e_n", "e_k0", "e_k1", "e_k2", "e_k3", "e_v0", "e_v1", "e_v2", "e_v3", "s_last_suffix", "s_last_name",
              "w_calls", "w1_suf", "w2_suf", "w_all_ok", "w1_lhs", "w1_rhs", "w2_lhs", "w2_rhs"],
  "decreases": "g_nr - i"}]
def inst(name, fn, sl, loops, mut, minob):
    return {"name": name, "function": fn, "defines": {"INST_" + name: ""}, "harness": "h_" + name, "enforce": "w_" + name, "slices": sl, "loops": loops,
            "min_obligations": minob, "tier": "quick", "mutants": mut}
doc = {
 "property": ["C12"],
 "desc": "LP-format row writer (relation token and number denote exactly the row's sides; ranged rows are split into two rows whose intersection is the row) and MPSgetRHS",
 "rmode": "double (IEEE, bit-precise; only comparisons and copies occur)",
 "defines": {"VCAP": "8", "RAT_INF": "4503599627370496LL"},
 "flags": ["--bounds-check", "--pointer-check"],
 "timeout_s": 120,
 "replay": {"cpp": "replay.cpp", "asan": False, "extra_src": ["LIB"]},
 "constants": [{"name": "VERIF_SOPLEX_INFINITY", "file": "src/soplex/spxdefines.h", "regex": r"typedef\s+double\s+Real;.*?#define\s+SOPLEX_DEFAULT_INFINITY\s+([0-9.eE+]+)\s"}],
 "conformance": [
  {"file": "src/soplex/spxdefines.cpp", "regex": r"const\s+Real\s+infinity\s*=\s*SOPLEX_DEFAULT_INFINITY\s*;", "why": "`infinity` is SOPLEX_DEFAULT_INFINITY"},
  {"file": F, "regex": r"static\s+const\s+char\*\s+LPFgetRowName\(\s*const\s+SPxLPBase<R>&\s+p_lp,\s*int\s+p_idx,\s*const\s+NameSet\*\s+p_rnames,\s*char\*\s+p_buf,\s*int\s+p_num_written_rows\s*\)", "why": "LPFgetRowName stub signature"},
  {"file": F, "regex": r"static\s+void\s+LPFwriteSVector\(\s*const\s+SPxLPBase<R>&\s+p_lp,[^)]*std::ostream&\s+p_output,[^)]*const\s+NameSet\*\s+p_cnames,[^)]*const\s+SVectorBase<R>&\s+p_svec,", "why": "LPFwriteSVector stub signature"},
 ],
 "trusted": [
  "std::ostream is a stub that classifies the streamed string literals (' = ', ' <= ', ' >= ', '_1 : ', '_2 : ', ' : ', newline) and numbers into events recorded in ghost variables; number FORMATTING and the text of names are not modelled",
  "LPFwriteSVector (coefficient list) and LPFgetRowName are stubs (one event / a marker name); LPFwriteRows is proved against a recorder standing for LPFwriteRow that checks LPFwriteRow's precondition (row not ranged) at every call",
  "what a written row denotes when read back (= v: [v,v]; <= v: [-inf,v]; >= v: [v,+inf]) is the specification, taken from the LP file format",
  "SPxLPBase is a stub over two side arrays and an array of row-vector tags; at most VCAP = 8 rows (object-size cap; the loop proof is inductive)",
  "MPSgetRHS_rat: Rational is a struct over long long (the body only copies and compares double(x) with +-double(infinity)); operator double() is the monotone map exact below the sentinel RAT_INF = 2^52 and +-infinity from there on (a long long cannot reach the 1e100 threshold the code uses)",
  "LPFwriteBounds: the stream stub collects the events of the current line (indent / number / ' <= ' / ' = ' / name / '   -Inf <= ' / ' free' / newline); at the end of a line naming the ghost column the specification function spec_bounds_line_ok() (contract.c: the six LP-format bound-line forms and the interval each denotes, default [0,+inf)) judges it; getColName is a stub (marker name, records the column); rational twin: tellp() returns 0 (the line-length warning is not modelled), `lower != 0` / `lower == upper` compare the long long",
  "sides are assumed not NaN; `infinity` is extracted from the tree; assert() compiled out; `throw` calls verif_throw() (allowed only for a free row in MPSgetRHS)",
 ],
 "instances": [
  inst("MPSgetRHS", "MPSgetRHS<R>(R left, R right)  [spxlpbase_real.hpp]", [S_rhs], [], [
     {"name": "prefers_right", "slice": "MPSgetRHS.inc", "find": "rhsval = left;", "replace": "rhsval = right;"},
     {"name": "infinite_left_taken", "slice": "MPSgetRHS.inc", "find": "if(left > R(-infinity))", "replace": "if(left >= R(-infinity))"}], 5),
  dict(inst("MPSgetRHS_rat", "MPSgetRHS(Rational left, Rational right)  [spxlpbase_rational.hpp]", [S_rhs_rat], [], [
     {"name": "branches_swapped", "slice": "MPSgetRHS_rat.inc", "regex": True,
      "find": r"if\(double\(left\) > -double\(infinity\)\)(\s*///[^\n]*)?\n\s*rhsval = left;\n\s*else if\(double\(right\) <  double\(infinity\)\)\n\s*rhsval = right;",
      "replace": "if(double(right) <  double(infinity))\n      rhsval = right;\n   else if(double(left) > -double(infinity))\n      rhsval = left;"},
     {"name": "prefers_right", "slice": "MPSgetRHS_rat.inc", "find": "rhsval = left;", "replace": "rhsval = right;"}], 5),
       rmode="Rational = ordered-group long long; double(x) is the monotone map that is exact below the sentinel RAT_INF = 2^52 and +-infinity from there on"),
  inst("LPFwriteRow", "LPFwriteRow<R>(p_lp, p_output, p_cnames, p_svec, p_lhs, p_rhs)  [spxlpbase_real.hpp]", [S_row], [], [
     {"name": "ge_writes_rhs", "slice": "LPFwriteRow.inc", "find": 'p_output << " >= " << p_lhs;', "replace": 'p_output << " >= " << p_rhs;'},
     {"name": "le_ge_swapped", "slice": "LPFwriteRow.inc", "find": 'p_output << " <= " << p_rhs;', "replace": 'p_output << " >= " << p_rhs;'},
     {"name": "le_test_on_rhs", "slice": "LPFwriteRow.inc", "find": "else if(p_lhs <= R(-infinity))", "replace": "else if(p_rhs <= R(-infinity))"}], 20),
  inst("LPFwriteRows", "LPFwriteRows<R>(p_lp, p_output, p_rnames, p_cnames)  [spxlpbase_real.hpp]", [S_rows], rows_loop, [
     {"name": "second_half_keeps_lhs", "slice": "LPFwriteRows.inc", "find": "p_lp.rowVector(i), R(-infinity), rhs);", "replace": "p_lp.rowVector(i), lhs, rhs);"},
     {"name": "equations_split", "slice": "LPFwriteRows.inc", "find": "rhs < R(infinity) && lhs != rhs)", "replace": "rhs < R(infinity))"},
     {"name": "suffixes_swapped", "slice": "LPFwriteRows.inc", "find": '"_1 : "', "replace": '"_2 : "'},
     {"name": "first_half_bounded_by_rhs", "slice": "LPFwriteRows.inc", "find": "p_lp.rowVector(i), lhs, R(infinity));", "replace": "p_lp.rowVector(i), lhs, rhs);"}], 50),
  dict(inst("LPFwriteBounds", "LPFwriteBounds<R>(p_lp, p_output, p_cnames)  [spxlpbase_real.hpp]", [S_bnd], bounds_loop(False), bounds_mutants("LPFwriteBounds.inc", False), 100),
       harness="h_LPFwriteBounds", enforce="w_LPFwriteBounds"),
  dict(inst("LPFwriteBounds_rat", "LPFwriteBounds(const SPxLPBase<Rational>&, p_output, p_cnames, spxout)  [spxlpbase_rational.hpp]", [S_bnd_rat], bounds_loop(True), bounds_mutants("LPFwriteBounds_rat.inc", True), 100),
       harness="h_LPFwriteBounds", enforce="w_LPFwriteBounds",
       rmode="Rational = ordered-group long long; double(x) is the monotone map that is exact below the sentinel RAT_INF = 2^52 and +-infinity from there on"),
 ],
}
json.dump(doc, open(os.path.join(os.path.dirname(os.path.abspath(__file__)), "unit.json"), "w"), indent=1)
print("wrote unit.json")
