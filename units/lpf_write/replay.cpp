/* Native replay for units/lpf_write (instances LPFwriteBounds, LPFwriteBounds_rat): the REAL SPxLPBase<R>::writeLPF of the
 * current tree writes an LP whose column bounds are the counterexample's, the REAL readLPF reads the text back, and the
 * bounds are compared ("writing the LP in LP format and reading it back gives identical bounds"). */
#include "replay_util.h"
#include "soplex.h"
#include <sstream>
#include <cmath>
#include <memory>
using namespace soplex;

template <class R> static bool same_bound(const R& a, const R& b)
{
   if(a >= R(infinity) && b >= R(infinity)) return true;
   if(a <= R(-infinity) && b <= R(-infinity)) return true;
   return a == b;
}
template <class R> static int run(const ReplayIn& in, bool rat)
{
   int nc = (int)in.geti("nc", 0);
   if(nc < 0 || nc > 64) return 2;
   SPxLPBase<R> lp;
   SPxOut out; out.setVerbosity(SPxOut::ERROR); lp.setOutstream(out);
   std::shared_ptr<Tolerances> tol = std::make_shared<Tolerances>();
   lp.setTolerances(tol);
   DSVectorBase<R> empty;
   std::vector<R> lo(nc), up(nc);
   for(int j = 0; j < nc; j++)
   {
      std::ostringstream kl, ku; kl << "lower[" << j << "]"; ku << "upper[" << j << "]";
      double l = in.has(kl.str()) ? in.getd(kl.str()) : 0.0, u = in.has(ku.str()) ? in.getd(ku.str()) : double(infinity);
      if(l != l) l = 0.0;
      if(u != u) u = double(infinity);
      if(rat)      /* ordered-group model: sentinel 2^52 stands for the infinity threshold */
      {
         if(l >= 4503599627370496.0) l = double(infinity); if(l <= -4503599627370496.0) l = -double(infinity);
         if(u >= 4503599627370496.0) u = double(infinity); if(u <= -4503599627370496.0) u = -double(infinity);
      }
      lo[j] = R(l); up[j] = R(u);
      lp.addCol(LPColBase<R>(R(1), empty, up[j], lo[j]));
   }
   DSVectorBase<R> row;
   for(int j = 0; j < nc; j++) row.add(j, R(1));
   lp.addRow(LPRowBase<R>(R(-infinity), row, R(10)));
   std::stringstream text;
   lp.writeLPF(text, nullptr, nullptr, nullptr);
   std::cout << text.str() << std::endl;
   SPxLPBase<R> back; back.setOutstream(out); back.setTolerances(tol);
   NameSet rn, cn;
   if(!back.readLPF(text, &rn, &cn, nullptr)) REPLAY_FAIL("the written LP file cannot be read back");
   if(back.nCols() != nc) REPLAY_FAIL("read back " << back.nCols() << " columns instead of " << nc);
   for(int j = 0; j < nc; j++)
   {
      std::ostringstream nm; nm << "x" << j;
      int k = cn.number(nm.str().c_str());
      if(k < 0) REPLAY_FAIL("column x" << j << " missing after reading back");
      if(!same_bound(back.lower(k), lo[j]) || !same_bound(back.upper(k), up[j]))
         REPLAY_FAIL("column " << j << " written with bounds [" << lo[j] << ", " << up[j] << "] reads back as [" << back.lower(k) << ", " << back.upper(k) << "]");
   }
   REPLAY_OK();
}
int main(int argc, char** argv)
{
   if(argc < 3) return 2;
   ReplayIn in(argv[1]);
   std::string inst = argv[2];
   if(inst == "LPFwriteBounds") return run<double>(in, false);
   if(inst == "LPFwriteBounds_rat") return run<Rational>(in, true);
   std::cout << "no native replay for instance " << inst << std::endl;
   return 0;
}
