/* C12 [ext]: the row part of the LP-format writer and the MPS right-hand-side helper (spxlpbase_real.hpp), R = double.
 * Real bodies (cut verbatim): LPFwriteRow, LPFwriteRows, MPSgetRHS.  The output stream is a stub that turns what is
 * streamed into events (relation token / number / suffix token / name / newline) recorded in ghost variables; number
 * FORMATTING (iostream) is not modelled - see props/C12.json not_covered. */
#include "verif.h"
#include "constants.h"
typedef double Real;
static const Real infinity = VERIF_SOPLEX_INFINITY;
struct SPxInternalCodeException { SPxInternalCodeException(const char*) {} };
#define throw VERIF_THROW() (void)
struct NameSet { int unused; };

extern "C" {
   /* stream events */
   extern int e_n, e_k0, e_k1, e_k2, e_k3; extern double e_v0, e_v1, e_v2, e_v3;
   extern int s_last_suffix, s_last_name;
   /* LPFwriteRows: what was written for the ghost row g_r, and global well-formedness */
   extern int g_r, w_calls, w1_suf, w2_suf, w_all_ok; extern double w1_lhs, w1_rhs, w2_lhs, w2_rhs;
}
enum { EV_OTHER = 0, EV_EQ = 1, EV_LE = 2, EV_GE = 3, EV_NL = 4, EV_NUM = 5, EV_SVEC = 6, EV_SUF1 = 7, EV_SUF2 = 8, EV_NAME = 9, EV_COLON = 10 };
static inline void ev(int k, double v)
{
   if(e_n == 0) { e_k0 = k; e_v0 = v; } else if(e_n == 1) { e_k1 = k; e_v1 = v; } else if(e_n == 2) { e_k2 = k; e_v2 = v; } else if(e_n == 3) { e_k3 = k; e_v3 = v; }
   if(e_n < 1000) e_n++;
}
/* stub of std::ostream: classifies the string literals the sliced bodies stream */
struct OStub
{
   int unused;
   OStub& operator<<(const char* s)
   {
      int k = EV_OTHER;
      if(s[0] == '\n') k = EV_NL;
      else if(s[0] == 'N') k = EV_NAME;                                   /* what the LPFgetRowName stub returns */
      else if(s[0] == ' ' && s[1] == '=' && s[2] == ' ' && s[3] == 0) k = EV_EQ;
      else if(s[0] == ' ' && s[1] == '<' && s[2] == '=' && s[3] == ' ' && s[4] == 0) k = EV_LE;
      else if(s[0] == ' ' && s[1] == '>' && s[2] == '=' && s[3] == ' ' && s[4] == 0) k = EV_GE;
      else if(s[0] == '_' && s[1] == '1') k = EV_SUF1;
      else if(s[0] == '_' && s[1] == '2') k = EV_SUF2;
      else if(s[0] == ' ' && s[1] == ':') k = EV_COLON;
      if(k == EV_SUF1 || k == EV_SUF2 || k == EV_COLON) s_last_suffix = k;
      ev(k, 0.0);
      return *this;
   }
   OStub& operator<<(const double& v) { ev(EV_NUM, v); return *this; }
};
struct SVec { int id; };
struct LP
{
   double* left; double* right; int nr; SVec* vecs;
   int nRows() const { return nr; }
   const double& lhs(int i) const { __CPROVER_assert(0 <= i && i < nr, "lhs index in bounds"); return left[i]; }
   const double& rhs(int i) const { __CPROVER_assert(0 <= i && i < nr, "rhs index in bounds"); return right[i]; }
   const SVec& rowVector(int i) const { __CPROVER_assert(0 <= i && i < nr, "rowVector index in bounds"); return vecs[i]; }
};
typedef double R;

#ifdef INST_MPSgetRHS
extern "C" double w_MPSgetRHS(double left, double right)
{
   VIN("left", left); VIN("right", right);
#include "MPSgetRHS.inc"
}
#endif

#if defined(INST_MPSgetRHS_rat) || defined(INST_LPFwriteBounds_rat)
/* Rational twin (spxlpbase_rational.hpp).  Rational = ordered-group long long: the body only copies its arguments and
 * compares double(x) with +-double(infinity).  A long long cannot reach the threshold 1e100 the code uses, so the
 * conversion is the MONOTONE map that sends the sentinel range |v| >= RAT_INF to +-infinity and is exact below it
 * (RAT_INF = 2^52): "the rational is at least as large as the infinity threshold" <=> v >= RAT_INF. */
struct Rational
{
   long long v;
   Rational() {}
   operator double() const { return v >= RAT_INF ? infinity : v <= -RAT_INF ? -infinity : (double)v; }
   bool operator==(const Rational& o) const { return v == o.v; }
   bool operator!=(int i) const { return v != i; }
   bool operator==(int i) const { return v == i; }
   bool operator>(int i) const { return v > i; }
   bool operator>=(const Rational& o) const { return v >= o.v; }
};
#endif
#ifdef INST_MPSgetRHS_rat
static Rational MPSgetRHS(Rational left, Rational right)
{
#include "MPSgetRHS_rat.inc"
}
extern "C" long long w_MPSgetRHS_rat(long long left, long long right)
{
   VIN("left", left); VIN("right", right);
   Rational l, r; l.v = left; r.v = right;
   Rational ret = MPSgetRHS(l, r);
   return ret.v;
}
#endif

#ifdef INST_LPFwriteRow
/* stub of LPFwriteSVector: one event (the coefficient list is written by a function that is not under contract) */
static void LPFwriteSVector(const LP& p_lp, OStub& p_output, const NameSet* p_cnames, const SVec& p_svec) { ev(EV_SVEC, 0.0); }
static void LPFwriteRow(const LP& p_lp, OStub& p_output, const NameSet* p_cnames, const SVec& p_svec, const double& p_lhs, const double& p_rhs)
{
#include "LPFwriteRow.inc"
}
extern "C" void w_LPFwriteRow(double lhs, double rhs)
{
   VIN("lhs", lhs); VIN("rhs", rhs);
   LP lp; lp.left = 0; lp.right = 0; lp.nr = 0; lp.vecs = 0;
   OStub out; out.unused = 0; SVec v; v.id = 0;
   LPFwriteRow(lp, out, 0, v, lhs, rhs);
}
#endif

#ifdef INST_LPFwriteRows
/* stub of LPFgetRowName: remembers which row was named, returns a marker string in the caller's buffer */
static const char* LPFgetRowName(const LP& p_lp, int p_idx, const NameSet* p_rnames, char* p_buf, int p_num_written_rows)
{
   s_last_name = (p_idx == p_num_written_rows) ? p_idx : -1000;
   p_buf[0] = 'N'; p_buf[1] = 0;
   return p_buf;
}
/* recorder standing for LPFwriteRow (whose own contract is the instance LPFwriteRow): precondition "not ranged", right name */
static void LPFwriteRow(const LP& p_lp, OStub& p_output, const NameSet* p_cnames, const SVec& p_svec, const double& p_lhs, const double& p_rhs)
{
   bool ranged = p_lhs > -infinity && p_rhs < infinity && p_lhs != p_rhs;
   if(ranged || s_last_name != p_svec.id) w_all_ok = 0;
   if(p_svec.id == g_r)
   {
      if(w_calls == 0) { w1_lhs = p_lhs; w1_rhs = p_rhs; w1_suf = s_last_suffix; }
      else if(w_calls == 1) { w2_lhs = p_lhs; w2_rhs = p_rhs; w2_suf = s_last_suffix; }
      if(w_calls < 1000) w_calls++;
   }
}
struct H
{
   const LP* p_lp_; OStub* p_output_; const NameSet* p_rnames; const NameSet* p_cnames;
   void body()
   {
      const LP& p_lp = *p_lp_; OStub& p_output = *p_output_;
#include "LPFwriteRows.inc"
   }
};
extern "C" void w_LPFwriteRows(double* lhs, double* rhs, int nr)
{
   VIN("nr", nr); VIN_ARR8("lhs", lhs, nr); VIN_ARR8("rhs", rhs, nr);
   SVec vecs[VCAP];
   /* row i's vector carries the number i */
   vecs[0].id = 0; vecs[1].id = 1; vecs[2].id = 2; vecs[3].id = 3; vecs[4].id = 4; vecs[5].id = 5; vecs[6].id = 6; vecs[7].id = 7;
   LP lp; lp.left = lhs; lp.right = rhs; lp.nr = nr; lp.vecs = vecs;
   OStub out; out.unused = 0;
   H h; h.p_lp_ = &lp; h.p_output_ = &out; h.p_rnames = 0; h.p_cnames = 0;
   h.body();
}
#endif

#if defined(INST_LPFwriteBounds) || defined(INST_LPFwriteBounds_rat)
/* LPFwriteBounds (real: spxlpbase_real.hpp, R = double; rational twin: spxlpbase_rational.hpp, Rational = ordered-group long long).
 * The stream stub collects the events of the CURRENT LINE; at the end of a line that names the ghost column g_j the
 * line is copied to w_k/w_v and judged by the specification function spec_bounds_line_ok() of contract.c. */
#ifdef INST_LPFwriteBounds_rat
typedef long long NUMV;
#define NUMVAL(x) ((x).v)
typedef Rational NUMT;
#define SOPLEX_MAX_LINE_WRITE_LEN 65536
#define SPX_MSG_WARNING(a, b)
struct SPxOut { int unused; };
#else
typedef double NUMV;
#define NUMVAL(x) (x)
typedef double NUMT;
#endif
extern "C" {
   extern int l_n, l_name, l_bad, l_k[8], w_n, w_lines, w_ok, w_k[8], g_j; extern NUMV l_v[8], w_v[8];
   int spec_bounds_line_ok(void);
}
enum { B_OTHER = 0, B_IND = 1, B_NUM = 2, B_LE = 3, B_EQ = 4, B_NAME = 5, B_NEGINF_LE = 6, B_FREE = 7, B_NL = 8 };
static inline void bev(int k, NUMV v)
{
   if(l_n < 8) { l_k[l_n] = k; l_v[l_n] = v; } else l_bad = 1;
   if(l_n < 100) l_n++;
}
static inline void endline()
{
   if(l_name == g_j)
   {
      w_k[0] = l_k[0]; w_k[1] = l_k[1]; w_k[2] = l_k[2]; w_k[3] = l_k[3]; w_k[4] = l_k[4]; w_k[5] = l_k[5]; w_k[6] = l_k[6]; w_k[7] = l_k[7];
      w_v[0] = l_v[0]; w_v[1] = l_v[1]; w_v[2] = l_v[2]; w_v[3] = l_v[3]; w_v[4] = l_v[4]; w_v[5] = l_v[5]; w_v[6] = l_v[6]; w_v[7] = l_v[7];
      w_n = l_n;
      if(w_lines < 100) w_lines++;
      w_ok = (l_bad == 0 && spec_bounds_line_ok()) ? 1 : 0;
   }
   l_n = 0; l_name = -1; l_bad = 0;
}
struct BStub
{
   int unused;
   BStub& operator<<(const char* s)
   {
      if(s[0] == 'N' && s[1] == 0) bev(B_NAME, 0);
      else if(s[0] == ' ' && s[1] == ' ' && s[2] == 0) bev(B_IND, 0);
      else if(s[0] == ' ' && s[1] == '=' && s[2] == ' ' && s[3] == 0) bev(B_EQ, 0);
      else if(s[0] == ' ' && s[1] == '<' && s[2] == '=' && s[3] == ' ' && s[4] == 0) bev(B_LE, 0);
      else if(s[0] == ' ' && s[1] == ' ' && s[2] == ' ' && s[3] == '-' && s[4] == 'I' && s[5] == 'n' && s[6] == 'f' && s[7] == ' ' && s[8] == '<' && s[9] == '=' && s[10] == ' ' && s[11] == 0) bev(B_NEGINF_LE, 0);
      else if(s[0] == ' ' && s[1] == 'f' && s[2] == 'r' && s[3] == 'e' && s[4] == 'e' && s[5] == '\n' && s[6] == 0) { bev(B_FREE, 0); endline(); }
      else if(s[0] == 'B' && s[1] == 'o' && s[6] == '\n' && s[7] == 0) { if(l_n != 0) l_bad = 1; endline(); }       /* "Bounds\n" */
      else bev(B_OTHER, 0);
      return *this;
   }
   BStub& operator<<(char c) { if(c == '\n') { bev(B_NL, 0); endline(); } else bev(B_OTHER, 0); return *this; }
   BStub& operator<<(const NUMT& v) { bev(B_NUM, NUMVAL(v)); return *this; }
   long long tellp() const { return 0; }      /* rational twin: the line-length warning is not modelled */
};
struct BLP
{
   NUMT* low; NUMT* up; int nc;
   int nCols() const { return nc; }
   const NUMT& lower(int j) const { __CPROVER_assert(0 <= j && j < nc, "lower index in bounds"); return low[j]; }
   const NUMT& upper(int j) const { __CPROVER_assert(0 <= j && j < nc, "upper index in bounds"); return up[j]; }
};
/* stub of getColName: remembers which column the current line names (two names on one line: bad), returns a marker */
static const char* getColName(const BLP& p_lp, int p_idx, const NameSet* p_cnames, char* p_buf)
{
   if(l_name != -1) l_bad = 1;
   l_name = p_idx;
   p_buf[0] = 'N'; p_buf[1] = 0;
   return p_buf;
}
struct H
{
   const BLP* p_lp_; BStub* p_output_; const NameSet* p_cnames;
#ifdef INST_LPFwriteBounds_rat
   SPxOut* spxout;
#endif
   void body()
   {
      const BLP& p_lp = *p_lp_; BStub& p_output = *p_output_;
#ifdef INST_LPFwriteBounds_rat
#include "LPFwriteBounds_rat.inc"
#else
#include "LPFwriteBounds.inc"
#endif
   }
};
extern "C" void w_LPFwriteBounds(NUMV* lower, NUMV* upper, int nc)
{
   VIN("nc", nc); VIN_ARR8("lower", lower, nc); VIN_ARR8("upper", upper, nc);
   BLP lp; lp.low = (NUMT*)lower; lp.up = (NUMT*)upper; lp.nc = nc;
   BStub out; out.unused = 0;
   H h; h.p_lp_ = &lp; h.p_output_ = &out; h.p_cnames = 0;
#ifdef INST_LPFwriteBounds_rat
   h.spxout = 0;
#endif
   h.body();
}
#endif
