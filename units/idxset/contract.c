/* Contracts for IdxSet (C19).  Universal statements use a ghost index g_k havoc'd by the harness. */
#include "verif_c.h"
#ifndef CAP
#define CAP 64
#endif
int g_k, v_g, v_s, g_size0, g_c0, g_src, g_n, g_i; int* gp_num; int* gp_idx;
static void havoc_ghosts(void) { g_k = nondet_int(); v_g = nondet_int(); v_s = nondet_int(); g_size0 = nondet_int();
   g_c0 = nondet_int(); g_src = nondet_int(); g_n = nondet_int(); g_i = nondet_int(); }
#define HAVOC_GHOSTS() havoc_ghosts()
#define WF(idx, num, len) (0 < (len) && (len) <= CAP && __CPROVER_is_fresh(idx, (len) * sizeof(int)) && 0 <= (num) && (num) <= (len))

#ifdef INST_remove
/* remove(n,m): positions n..m are deleted; the hole is filled from the tail.  Witness map:
 * c = min(m-n+1, size-m-1) tail elements move to n..n+c-1, everything else stays. */
void w_remove(int* idx, int* num, int len, int n, int m)
__CPROVER_requires(__CPROVER_is_fresh(num, sizeof(int)) && WF(idx, *num, len))
__CPROVER_requires(0 <= n && n <= m && m < *num)
__CPROVER_requires(g_size0 == *num && g_n == n && g_c0 == ((m - n + 1 <= *num - m - 1) ? m - n + 1 : *num - m - 1))
__CPROVER_requires(0 <= g_k && g_k < *num - (m - n + 1))
__CPROVER_requires(g_src == ((n <= g_k && g_k < n + g_c0) ? g_size0 - g_c0 + (g_k - n) : g_k))
__CPROVER_requires(v_g == idx[g_k] && v_s == idx[g_src])
__CPROVER_assigns(gp_num, gp_idx, *num, __CPROVER_object_whole(idx))
__CPROVER_ensures(*num == __CPROVER_old(*num) - (m - n + 1))
__CPROVER_ensures(idx[g_k] == v_s)
;
void h_remove(void)
{
   int* idx; int* num; int len, n, m;
   HAVOC_GHOSTS();
   w_remove(idx, num, len, n, m);
   CANARY();
}
#endif

#ifdef INST_remove1
/* remove(n): the last element moves into position n, size shrinks by one, nothing else changes */
void w_remove1(int* idx, int* num, int len, int n)
__CPROVER_requires(__CPROVER_is_fresh(num, sizeof(int)) && WF(idx, *num, len))
__CPROVER_requires(0 <= n && n < *num)
__CPROVER_requires(0 <= g_k && g_k < *num - 1 && v_g == idx[g_k] && v_s == idx[*num - 1])
__CPROVER_assigns(*num, __CPROVER_object_whole(idx))
__CPROVER_ensures(*num == __CPROVER_old(*num) - 1)
__CPROVER_ensures(idx[g_k] == (g_k == n ? v_s : v_g))
;
void h_remove1(void)
{
   int* idx; int* num; int len, n;
   HAVOC_GHOSTS();
   w_remove1(idx, num, len, n);
   CANARY();
}
#endif

#ifdef INST_addIdx
void w_addIdx(int* idx, int* num, int len, int i)
__CPROVER_requires(__CPROVER_is_fresh(num, sizeof(int)) && WF(idx, *num, len) && *num < len)
__CPROVER_requires(0 <= g_k && g_k < *num && v_g == idx[g_k])
__CPROVER_assigns(*num, __CPROVER_object_whole(idx))
__CPROVER_ensures(*num == __CPROVER_old(*num) + 1 && idx[*num - 1] == i && idx[g_k] == v_g)
;
void h_addIdx(void)
{
   int* idx; int* num; int len, i;
   HAVOC_GHOSTS();
   w_addIdx(idx, num, len, i);
   CANARY();
}
#endif

#ifdef INST_add
/* add(n, i[]): appends i[0..n) in order; existing elements untouched */
void w_add(int* idx, int* num, int len, int n, const int* i)
__CPROVER_requires(__CPROVER_is_fresh(num, sizeof(int)) && WF(idx, *num, len))
__CPROVER_requires(0 <= n && n <= len && *num + n <= len && __CPROVER_is_fresh(i, (n > 0 ? n : 1) * sizeof(int)))
__CPROVER_requires(g_size0 == *num && g_n == n)
__CPROVER_requires(0 <= g_k && g_k < *num + n && v_g == (g_k < *num ? idx[g_k] : i[g_k - *num]))
__CPROVER_assigns(gp_num, gp_idx, *num, __CPROVER_object_whole(idx))
__CPROVER_ensures(*num == __CPROVER_old(*num) + n)
__CPROVER_ensures(idx[g_k] == v_g)
;
void h_add(void)
{
   int* idx; int* num; int len, n; const int* i;
   HAVOC_GHOSTS();
   w_add(idx, num, len, n, i);
   CANARY();
}
#endif

#ifdef INST_dim
/* dim(): an upper bound of every stored index, -1 for the empty set */
int w_dim(int* idx, int num, int len)
__CPROVER_requires(WF(idx, num, len))
__CPROVER_requires(0 <= g_k && (g_k < num || num == 0) && g_size0 == num)
__CPROVER_assigns(gp_idx)
__CPROVER_ensures(__CPROVER_return_value >= -1)
__CPROVER_ensures(num == 0 ==> __CPROVER_return_value == -1)
__CPROVER_ensures(num > 0 ==> __CPROVER_return_value >= idx[g_k])
;
void h_dim(void)
{
   int* idx; int num, len;
   HAVOC_GHOSTS();
   w_dim(idx, num, len);
   CANARY();
}
#endif

#ifdef INST_pos
/* pos(i): position of the FIRST occurrence of i, or -1 if there is none */
int w_pos(int* idx, int num, int len, int i)
__CPROVER_requires(WF(idx, num, len))
__CPROVER_requires(0 <= g_k && g_k < num && g_size0 == num && g_i == i)
__CPROVER_assigns(gp_idx)
__CPROVER_ensures(__CPROVER_return_value >= -1 && __CPROVER_return_value < num)
__CPROVER_ensures(__CPROVER_return_value >= 0 ==> idx[__CPROVER_return_value] == i)
__CPROVER_ensures((__CPROVER_return_value == -1 || g_k < __CPROVER_return_value) ==> idx[g_k] != i)
;
void h_pos(void)
{
   int* idx; int num, len, i;
   HAVOC_GHOSTS();
   w_pos(idx, num, len, i);
   CANARY();
}
#endif
