/* C19: IdxSet (src/soplex/idxset.cpp, idxset.h).  The function bodies are #included verbatim
 * from slices cut out of the current tree; the host replicates the four data members
 * (conformance-checked against idxset.h) and holds the parameters of the sliced function as
 * members so that the body can run as a zero-argument member (loop contracts need that). */
#include "verif.h"

struct IdxSetHost
{
   int  num;
   int  len;
   int* idx;
   bool freeArray;

   int size() const
   {
#include "IdxSet_size.inc"
   }
   int max() const
   {
#include "IdxSet_max.inc"
   }
   void add(int n)
   {
#include "IdxSet_add1.inc"
   }
};

extern "C" { extern int* gp_num; extern int* gp_idx; }

#ifdef INST_remove
struct H : IdxSetHost
{
   int n; int m;
   void body()
   {
#include "IdxSet_remove.inc"
   }
};
extern "C" void w_remove(int* idx, int* num, int len, int n, int m)
{
   VIN("num", *num); VIN("len", len); VIN("n", n); VIN("m", m); VIN_ARR8("idx", idx, *num);
   H s; s.num = *num; s.len = len; s.idx = idx; s.freeArray = false; s.n = n; s.m = m;
   gp_num = &s.num; gp_idx = idx;
   s.body();
   *num = s.num;
}
#endif

#ifdef INST_remove1
struct H : IdxSetHost
{
   int n;
   void body()
   {
#include "IdxSet_remove1.inc"
   }
};
extern "C" void w_remove1(int* idx, int* num, int len, int n)
{
   VIN("num", *num); VIN("len", len); VIN("n", n); VIN_ARR8("idx", idx, *num);
   H s; s.num = *num; s.len = len; s.idx = idx; s.freeArray = false; s.n = n;
   s.body();
   *num = s.num;
}
#endif

#ifdef INST_addIdx
struct H : IdxSetHost
{
   int i;
   void body()
   {
#include "IdxSet_addIdx.inc"
   }
};
extern "C" void w_addIdx(int* idx, int* num, int len, int i)
{
   H s; s.num = *num; s.len = len; s.idx = idx; s.freeArray = false; s.i = i;
   s.body();
   *num = s.num;
}
#endif

#ifdef INST_add
struct H : IdxSetHost
{
   int n; const int* i;
   void body()
   {
#include "IdxSet_add.inc"
   }
};
extern "C" void w_add(int* idx, int* num, int len, int n, const int* i)
{
   VIN("num", *num); VIN("len", len); VIN("n", n);
   H s; s.num = *num; s.len = len; s.idx = idx; s.freeArray = false; s.n = n; s.i = i;
   gp_num = &s.num; gp_idx = idx;
   s.body();
   *num = s.num;
}
#endif

#ifdef INST_dim
struct H : IdxSetHost
{
   int body() const
   {
#include "IdxSet_dim.inc"
   }
};
extern "C" int w_dim(int* idx, int num, int len)
{
   H s; s.num = num; s.len = len; s.idx = idx; s.freeArray = false;
   gp_idx = idx;
   return s.body();
}
#endif

#ifdef INST_pos
struct H : IdxSetHost
{
   int i;
   int body() const
   {
#include "IdxSet_pos.inc"
   }
};
extern "C" int w_pos(int* idx, int num, int len, int i)
{
   H s; s.num = num; s.len = len; s.idx = idx; s.freeArray = false; s.i = i;
   gp_idx = idx;
   return s.body();
}
#endif
