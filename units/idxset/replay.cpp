/* Native replay for the IdxSet unit: runs the REAL soplex::IdxSet on the counterexample inputs. */
#include "replay_util.h"
#include "soplex/idxset.h"
#include <cstring>

using namespace soplex;

int main(int argc, char** argv)
{
   if(argc < 3) return 2;
   ReplayIn in(argv[1]);
   std::string inst = argv[2];
   int len = (int)in.geti("len", 8), num = (int)in.geti("num", 0);
   if(len <= 0 || num < 0 || num > len) return 2;
   std::vector<int> init = in.getarr("idx", len);
   int* mem = new int[len];            /* exactly len cells: ASan sees any out-of-bounds access */
   std::memcpy(mem, init.data(), sizeof(int) * len);
   IdxSet s(len, mem, num);

   if(inst == "remove")
   {
      int n = (int)in.geti("n"), m = (int)in.geti("m");
      if(!(0 <= n && n <= m && m < num)) return 2;
      std::cout << "IdxSet::remove(" << n << "," << m << ") on size " << num << std::endl;
      s.remove(n, m);
      int c = std::min(m - n + 1, num - m - 1);
      if(s.size() != num - (m - n + 1)) REPLAY_FAIL("size " << s.size() << " != " << num - (m - n + 1));
      for(int g = 0; g < s.size(); g++)
      {
         int src = (n <= g && g < n + c) ? num - c + (g - n) : g;
         if(s.index(g) != init[src]) REPLAY_FAIL("index(" << g << ")=" << s.index(g) << " expected old index(" << src << ")=" << init[src]);
      }
   }
   else if(inst == "remove1")
   {
      int n = (int)in.geti("n");
      if(!(0 <= n && n < num)) return 2;
      s.remove(n);
      if(s.size() != num - 1) REPLAY_FAIL("size");
      for(int g = 0; g < s.size(); g++)
         if(s.index(g) != (g == n ? init[num - 1] : init[g])) REPLAY_FAIL("index(" << g << ")");
   }
   else
   {
      std::cout << "no native replay for instance " << inst << std::endl;
      delete[] mem;
      return 0;
   }
   delete[] mem;
   REPLAY_OK();
}
