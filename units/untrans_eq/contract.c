/* C03, equality transformation: _transformEquality turns row r (lhs <= a.x <= rhs) into a.x + s = 0 with a slack column s
 * in [-rhs, -lhs] (conformance-checked).  Undoing it must therefore give back, exactly:
 *   activity(r) = activity'(r) - s,   lhs(r) = -upper(s),  rhs(r) = -lower(s),   the slack columns removed from the
 *   primal / ray / reduced-cost vectors, both LPs and the basis, and the row's basis status taken from the slack column with
 *   ON_LOWER <-> ON_UPPER swapped (bounds are negated) unless the row itself is basic.
 * gi is a ghost slack index, gj a ghost original column: the clauses hold for every slack column and every original column.
 * The three loops over the slack columns carry loop contracts (unit.json): any number of slack columns up to the array cap CAP. */
#include "verif_c.h"
#include "ue_ghost.h"

int g_norig, g_nslack, g_slackrow[CAP], g_pf, g_ray, g_df, g_hasbasis;
ue_rat g_slacks[NR], g_primal[NC], g_lower[NC], g_upper[NC], g_lhs[NR], g_rhs[NR];
int g_dim_primal, g_dim_ray, g_dim_redcost;
int g_rowstat[NR], g_colstat[NC], g_ncolstat, g_rowtype[NR], g_coltype[NC], g_ncoltype;
int g_luclear, g_rm_rat, g_rm_real, g_rm_a, g_rm_b, g_bad;
int E_ON_UPPER, E_ON_LOWER, E_FIXED, E_ZERO, E_BASIC;
int gi, gj;
ue_rat o_slack, o_s, o_xj, o_lhs, o_rhs, o_up, o_lo;
int o_rowstat, o_colstat, o_coltype, o_dimp;

#define ROW g_slackrow[gi]
#define COL (g_norig + gi)
void w_untransformEquality(void)
__CPROVER_requires(0 <= g_norig && g_norig <= 2 && 0 <= g_nslack && g_nslack <= CAP)
__CPROVER_requires(0 <= gi && gi < g_nslack && 0 <= gj && gj < NC)
__CPROVER_requires(0 <= g_slackrow[gi] && g_slackrow[gi] < NR)   /* for the other slack columns: instantiated in the stub colVector() */
__CPROVER_requires(g_dim_primal == g_norig + g_nslack && g_ncolstat == g_norig + g_nslack && g_ncoltype == g_norig + g_nslack)
__CPROVER_requires(g_luclear == 0 && g_rm_rat == 0 && g_rm_real == 0 && g_bad == 0)
__CPROVER_requires(o_slack == g_slacks[ROW] && o_s == g_primal[COL] && o_xj == g_primal[gj] && o_lhs == g_lhs[ROW] && o_rhs == g_rhs[ROW])
__CPROVER_requires(o_up == g_upper[COL] && o_lo == g_lower[COL] && o_rowstat == g_rowstat[ROW] && o_colstat == g_colstat[COL] && o_coltype == g_coltype[COL])
__CPROVER_requires(o_dimp == g_dim_primal)
__CPROVER_assigns(E_ON_UPPER, E_ON_LOWER, E_FIXED, E_ZERO, E_BASIC, g_bad, g_luclear, g_rm_rat, g_rm_real, g_rm_a, g_rm_b,
                  g_dim_primal, g_dim_ray, g_dim_redcost, g_ncolstat, g_ncoltype,
                  __CPROVER_object_whole(g_slacks), __CPROVER_object_whole(g_primal), __CPROVER_object_whole(g_lhs), __CPROVER_object_whole(g_rhs),
                  __CPROVER_object_whole(g_rowstat), __CPROVER_object_whole(g_rowtype))
__CPROVER_ensures(g_bad == 0)
/* primal side */
__CPROVER_ensures(g_pf ==> (g_slacks[ROW] == (ue_rat)(o_slack - o_s) && g_dim_primal == g_norig))
__CPROVER_ensures(!g_pf ==> (g_slacks[ROW] == o_slack && g_dim_primal == o_dimp))
__CPROVER_ensures(gj < g_norig ==> g_primal[gj] == o_xj)
__CPROVER_ensures(g_ray ==> g_dim_ray == g_norig)
__CPROVER_ensures(g_df ==> g_dim_redcost == g_norig)
/* sides and types */
__CPROVER_ensures(g_lhs[ROW] == (o_up != 0 ? (ue_rat)(0 - o_up) : o_lhs) && g_rhs[ROW] == (o_lo != 0 ? (ue_rat)(0 - o_lo) : o_rhs))
__CPROVER_ensures(g_rowtype[ROW] == (o_coltype ^ 0x55) && g_ncoltype == g_norig)
/* both LPs lose exactly the slack columns */
__CPROVER_ensures(g_rm_rat == 1 && g_rm_real == 1 && g_rm_a == g_norig && g_rm_b == g_norig + g_nslack - 1)
/* basis */
__CPROVER_ensures(g_hasbasis ==> (g_ncolstat == g_norig && g_luclear == 1))   /* nslack >= 1 here since gi exists */
__CPROVER_ensures((g_hasbasis && o_rowstat == E_BASIC) ==> g_rowstat[ROW] == E_BASIC)
__CPROVER_ensures((g_hasbasis && o_rowstat != E_BASIC) ==> g_rowstat[ROW] == (o_colstat == E_ON_LOWER ? E_ON_UPPER : o_colstat == E_ON_UPPER ? E_ON_LOWER : o_colstat))
__CPROVER_ensures(!g_hasbasis ==> (g_rowstat[ROW] == o_rowstat && g_luclear == 0))
;

void h_untransformEquality(void)
{
   __CPROVER_havoc_object(g_slacks); __CPROVER_havoc_object(g_primal); __CPROVER_havoc_object(g_lower); __CPROVER_havoc_object(g_upper);
   __CPROVER_havoc_object(g_lhs); __CPROVER_havoc_object(g_rhs); __CPROVER_havoc_object(g_rowstat); __CPROVER_havoc_object(g_colstat);
   __CPROVER_havoc_object(g_rowtype); __CPROVER_havoc_object(g_coltype); __CPROVER_havoc_object(g_slackrow);
   g_norig = nondet_int(); g_nslack = nondet_int(); g_pf = nondet_int(); g_ray = nondet_int(); g_df = nondet_int(); g_hasbasis = nondet_int();
   gi = nondet_int(); gj = nondet_int();
   __CPROVER_assume(0 <= g_norig && g_norig <= 2 && 0 <= g_nslack && g_nslack <= CAP && 0 <= gi && gi < g_nslack && 0 <= gj && gj < NC);
   __CPROVER_assume(0 <= g_slackrow[gi] && g_slackrow[gi] < NR);
   g_dim_primal = g_norig + g_nslack; g_ncolstat = g_dim_primal; g_ncoltype = g_dim_primal;
   g_dim_ray = nondet_int(); g_dim_redcost = nondet_int();
   g_luclear = 0; g_rm_rat = 0; g_rm_real = 0; g_bad = 0;
   o_slack = g_slacks[ROW]; o_s = g_primal[COL]; o_xj = g_primal[gj]; o_lhs = g_lhs[ROW]; o_rhs = g_rhs[ROW];
   o_up = g_upper[COL]; o_lo = g_lower[COL]; o_rowstat = g_rowstat[ROW]; o_colstat = g_colstat[COL]; o_coltype = g_coltype[COL];
   o_dimp = g_dim_primal;
   __CPROVER_input("gi", gi);
   w_untransformEquality();
   CANARY();
}
