/* C03 equality transformation undone: ghost state shared by unit.cpp (C++) and contract.c (C) */
#ifndef UE_GHOST_H
#define UE_GHOST_H
#ifdef __cplusplus
extern "C" {
#endif
#ifndef CAP
#define CAP 6
#endif
#define NR (CAP + 1)         /* rows of the LP */
#define NC (2 + CAP)         /* columns: at most 2 original + CAP slack columns */
extern int g_norig, g_nslack;                 /* original columns, slack columns (numColsRational() = sum) */
extern int g_slackrow[CAP];                   /* _slackCols.colVector(i).index(0) */
extern int g_pf, g_ray, g_df, g_hasbasis;     /* sol.isPrimalFeasible(), hasPrimalRay(), isDualFeasible(), _hasBasis */
typedef unsigned long long ue_rat;           /* Rational modelled as the ring Z/2^64 (only -=, unary minus, != 0 occur) */
extern ue_rat g_slacks[NR], g_primal[NC], g_lower[NC], g_upper[NC], g_lhs[NR], g_rhs[NR];
extern int gi, gj;                            /* ghost slack index / ghost column */
extern int g_dim_primal, g_dim_ray, g_dim_redcost;          /* current dimensions (reDim) */
extern int g_rowstat[NR], g_colstat[NC], g_ncolstat;        /* basis statuses (VarStatus enumerators), size of _basisStatusCols */
extern int g_rowtype[NR], g_coltype[NC], g_ncoltype;
extern int g_luclear, g_rm_rat, g_rm_real, g_rm_a, g_rm_b, g_bad;
extern int E_ON_UPPER, E_ON_LOWER, E_FIXED, E_ZERO, E_BASIC;  /* the real enumerator values */
#ifdef __cplusplus
}
#endif
#endif
