/* C03 "whichever exact-solver options are active - ... equality transformation": SoPlexBase<R>::_untransformEquality cut
 * verbatim from src/soplex/solverational.hpp.  Rational = ordered-group integer (only -=, unary -, != 0 are used; .str() occurs only
 * in the arguments of the debug message, which are dropped);
 * vectors / arrays / the two LPs are index-checked recorders over the ghost arrays of ue_ghost.h. */
#include "verif.h"
#include "ue_ghost.h"
typedef double R;
#define SPX_DEBUG(x)
struct SPxOut { static void debug_() {} };
#define debug(...) debug_()   /* SPxOut::debug(this, fmt, args...): no output in non-debug builds; the argument expressions are dropped */

typedef ue_rat Rational;
static Rational g_sink;
struct VectorRational   /* view on a ghost array with a dimension */
{
   Rational* a; int* dimp; int cap;
   Rational& operator[](int i) { if(i < 0 || i >= cap || (dimp && i >= *dimp)) { g_bad = 1; return g_sink; } return a[i]; }
   void reDim(int n) { if(dimp) *dimp = n; else g_bad = 1; }
};
struct SolRational
{
   VectorRational _slacks, _primal, _primalRay, _redCost, _dual;
   bool isPrimalFeasible() const { return g_pf != 0; }
   bool hasPrimalRay() const { return g_ray != 0; }
   bool isDualFeasible() const { return g_df != 0; }
};
template <class T> struct SPxSolverBase
{
#include "Solver_VarStatus.inc"
};
typedef int RangeType;
template <class T> struct DataArrayStub
{
   int* a; int* sizep; int cap; int sink;
   int& operator[](int i) { if(i < 0 || i >= cap || (sizep && i >= *sizep)) { g_bad = 1; return sink; } return a[i]; }
   void reSize(int n) { if(sizep) *sizep = n; else g_bad = 1; }
};
struct SVStub { int row; int index(int k) const { if(k != 0) g_bad = 1; return row; } };
struct SlackCols
{
   int num() const { return g_nslack; }
   /* precondition "every slack column sits in a valid row, no two in the same row" (what _transformEquality builds),
    * instantiated at the accessed index; g_slackrow is never written */
   SVStub colVector(int i) const
   {
      SVStub s; s.row = 0;
      if(i < 0 || i >= g_nslack) { g_bad = 1; return s; }
      __CPROVER_assume(0 <= g_slackrow[i] && g_slackrow[i] < NR && (i == gi || g_slackrow[i] != g_slackrow[gi]));
      s.row = g_slackrow[i];
      return s;
   }
};
struct TimerStub { void start() {} void stop() {} };
struct StatStub { TimerStub t; TimerStub* transformTime; };
struct LUStub { void clear() { g_luclear++; } };
struct RatLP
{
   void changeLhs(int row, const Rational& x) { if(row < 0 || row >= NR) { g_bad = 1; return; } g_lhs[row] = x; }
   void changeRhs(int row, const Rational& x) { if(row < 0 || row >= NR) { g_bad = 1; return; } g_rhs[row] = x; }
   void removeColRange(int a, int b) { g_rm_rat++; g_rm_a = a; g_rm_b = b; }
};
struct RealLP { void removeColRange(int a, int b) { g_rm_real++; if(a != g_rm_a || b != g_rm_b) g_bad = 1; } };

struct Host
{
   StatStub* _statistics;
   SlackCols _slackCols;
   bool _hasBasis;
   DataArrayStub<int> _basisStatusRows, _basisStatusCols, _rowTypes, _colTypes;
   LUStub _rationalLUSolver;
   RatLP* _rationalLP;
   RealLP* _realLP;
   int numColsRational() const { return g_norig + g_nslack; }
   int numRowsRational() const { return NR; }
   Rational upperRational(int i) const { if(i < 0 || i >= NC) { g_bad = 1; return 0; } return g_upper[i]; }
   Rational lowerRational(int i) const { if(i < 0 || i >= NC) { g_bad = 1; return 0; } return g_lower[i]; }
   RangeType _switchRangeType(const RangeType& t) const { return t ^ 0x55; }   /* tagged stand-in for the involution */
   SolRational* solp;
   void body()
   {
      SolRational& sol = *solp;
#include "untransformEquality.inc"
   }
};

extern "C" void w_untransformEquality(void)
{
   VIN("nslack", g_nslack); VIN("norig", g_norig); VIN("pf", g_pf); VIN("hasbasis", g_hasbasis);
   E_ON_UPPER = SPxSolverBase<R>::ON_UPPER; E_ON_LOWER = SPxSolverBase<R>::ON_LOWER; E_FIXED = SPxSolverBase<R>::FIXED;
   E_ZERO = SPxSolverBase<R>::ZERO; E_BASIC = SPxSolverBase<R>::BASIC;
   StatStub st; st.transformTime = &st.t; RatLP rlp; RealLP lp; Host h; SolRational sol;
   h._statistics = &st; h._rationalLP = &rlp; h._realLP = &lp; h._hasBasis = g_hasbasis != 0;
   sol._slacks.a = g_slacks; sol._slacks.dimp = 0; sol._slacks.cap = NR;
   sol._primal.a = g_primal; sol._primal.dimp = &g_dim_primal; sol._primal.cap = NC;
   sol._primalRay.a = 0; sol._primalRay.dimp = &g_dim_ray; sol._primalRay.cap = 0;
   sol._redCost.a = 0; sol._redCost.dimp = &g_dim_redcost; sol._redCost.cap = 0;
   sol._dual.a = 0; sol._dual.dimp = 0; sol._dual.cap = 0;
   h._basisStatusRows.a = g_rowstat; h._basisStatusRows.sizep = 0; h._basisStatusRows.cap = NR;
   h._basisStatusCols.a = g_colstat; h._basisStatusCols.sizep = &g_ncolstat; h._basisStatusCols.cap = NC;
   h._rowTypes.a = g_rowtype; h._rowTypes.sizep = 0; h._rowTypes.cap = NR;
   h._colTypes.a = g_coltype; h._colTypes.sizep = &g_ncoltype; h._colTypes.cap = NC;
   h.solp = &sol;
   h.body();
}
