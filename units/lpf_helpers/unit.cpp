/* C13 (and C12 for LPFreadValue): the LP-format reader helpers of src/soplex/spxlpbase_real.hpp.
 * Every LPF* body below is #included verbatim from a slice cut out of the current tree.  The functions keep
 * their REAL signatures; they are given C linkage only so that their CBMC function id contains no comma and
 * can carry loop contracts (README point 1).  `pos` is a reference to a local of the wrapper; the wrapper
 * exports the alias pointer gpp_pos so that loop invariants can talk about it (README point 6). */
#include "verif.h"
#include "constants.h"       /* SOPLEX_LPF_MAX_LINE_LEN, SOPLEX_DEFAULT_INFINITY: extracted from the tree on every run */

typedef double R;
typedef double Real;

/* ---- dropped by extraction: logging ---------------------------------------------------------------- */
/* (a C-variadic debug() taking a double trips dfcc's write-set parameter: plain overloads instead) */
struct SPxOut
{
   static void debug(const void*, const char*) {}
   static void debug(const void*, const char*, double) {}
   static void debug(const void*, const char*, const char*, int) {}
};
#define SPX_MSG_WARNING(spxout, x)

/* ---- ghosts shared with contract.c ----------------------------------------------------------------- */
extern "C" {
   extern char*  gp_line;     /* the line buffer                                  */
   extern char** gpp_pos;     /* alias of the wrapper local that `pos` refers to  */
   extern int    g_len;       /* line[g_len] == 0                                 */
   extern int    g_off;       /* initial offset of pos                            */
   extern int    g_k;         /* ghost index ("for all k")                        */
   extern char   v_k;         /* line[g_off + g_k] on entry                       */
   /* ghost record of what the callees (atof / NameSet) were handed */
   extern int    g_calls;     /* number of calls of the recording callee          */
   extern int    g_tl;        /* ghost token length                               */
   extern char   v_arg_k;     /* arg[g_k]   at the time of the call               */
   extern char   v_arg_end;   /* arg[g_tl]  at the time of the call               */
   extern int    g_arg_inrange;
   extern double v_ret;       /* what the recording callee returned               */
   extern int    g_num;       /* NameSet::num()                                   */
   extern int    g_added;     /* NameSet::add / LPColSetBase::add calls           */
}

/* ---- C library models (trusted) -------------------------------------------------------------------- */
extern "C" {
/* glibc: tolower() is a table lookup defined for -128..255 (the assertion documents that the helpers never leave
 * that domain); "C" locale mapping. */
int tolower(int c)
{
   __CPROVER_assert(-128 <= c && c <= 255, "tolower argument in glibc's table domain");
   return ('A' <= c && c <= 'Z') ? c + ('a' - 'A') : c;
}

#if defined(STRCHR_LINE)
/* strchr on the line buffer: first occurrence or NULL; scans up to the terminator.  Its loop carries a loop
 * contract (unit.json) saying that the scan stays inside gp_line[0..g_len]. */
char* strchr(const char* str, int chr)
{
   const char* p = str;
   while(*p != (char)chr)
   {
      if(*p == '\0')
         return 0;
      p++;
   }
   return (char*)p;
}
#elif defined(STRCHR_LIT)
/* strchr on a string literal: the loop is bounded by the literal's length and is unwound completely */
char* strchr(const char* str, int chr)
{
   for(int j = 0; ; j++)
   {
      if(str[j] == (char)chr)
         return (char*)str + j;
      if(str[j] == '\0')
         return 0;
   }
}
#endif

/* is a[i] inside the object a points into?  (the recording stubs must not add out-of-bounds reads of their own) */
#define INOBJ(a, i) (0 <= (i) && (unsigned long)(i) + __CPROVER_POINTER_OFFSET(a) < __CPROVER_OBJECT_SIZE(a))
/* atof: a ghost-recording stub.  It records, at the ghost indices, the bytes it was handed, and returns an
 * unconstrained double (the value is C12's bounded stand-in's business, not this unit's). */
double atof(const char* a)
{
   g_calls++;
   if(INOBJ(a, g_k))  v_arg_k = a[g_k];
   if(INOBJ(a, g_tl)) v_arg_end = a[g_tl]; else g_arg_inrange = 0;
   v_ret = nondet_double();
   return v_ret;
}
}

/* ---- the shared character-class helpers (real bodies) ----------------------------------------------- */
static inline bool LPFisSpace(int c)
{
#include "LPFisSpace.inc"
}
extern "C" bool LPFisValue(const char* s)
{
#include "LPFisValue.inc"
}
extern "C" bool LPFisSense(const char* s)
{
#include "LPFisSense.inc"
}

#ifdef INST_readValue
extern "C" R LPFreadValue(char*& pos, SPxOut* spxout)
{
#include "LPFreadValue.inc"
}
extern "C" double w_readValue(char* line, int n, int off, int* off_out)
{
   VIN("n", n); VIN("len", g_len); VIN("off", off); VIN_ARR8("tok", line + off, n - off);
   char* p = line + off;
   gp_line = line; gpp_pos = &p;
   R v = LPFreadValue(p, 0);
   *off_out = (int)(p - line);
   return v;
}
#endif
