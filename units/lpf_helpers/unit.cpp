/* C13 (and C12 for LPFreadValue): the LP-format reader helpers of src/soplex/spxlpbase_real.hpp.
 * Every LPF* body below is #included verbatim from a slice cut out of the current tree.  The functions keep
 * their REAL parameter lists; they are given C linkage only so that their CBMC function id contains no comma and
 * can carry loop contracts (README point 1).  `pos` is a reference to a local of the wrapper; the wrapper
 * exports the alias pointer gpp_pos so that loop invariants can talk about it (README point 6).
 * One instance per -DINST_<name>; a function is only compiled into the instances that need it (every loop in the
 * goto binary must carry a loop contract or a complete-unwinding entry). */
#include "verif.h"
#include "constants.h"       /* SOPLEX_LPF_MAX_LINE_LEN, SOPLEX_DEFAULT_INFINITY: extracted from the tree on every run */

#ifdef SCALED_MAXLEN
/* Scaled stand-in (instance readValue_scaled only): the scratch-buffer size is set to SCALED_MAXLEN instead of the tree's value, so
 * that a token longer than the buffer fits into a completely unwound copy loop.  The sliced body is the same, it is uniform in the
 * constant; the result is labelled as scaled and is NOT a statement about the real constant. */
#if SOPLEX_LPF_MAX_LINE_LEN <= SCALED_MAXLEN
#error "scaled instance expects the tree's SOPLEX_LPF_MAX_LINE_LEN to be larger than SCALED_MAXLEN"
#endif
#undef SOPLEX_LPF_MAX_LINE_LEN
#define SOPLEX_LPF_MAX_LINE_LEN SCALED_MAXLEN
#endif

typedef double R;
typedef double Real;
/* Rational for the twins of spxlpbase_rational.hpp: LPFreadColName never touches the number type; LPFreadInfinity only constructs
 * it from an int or from the double `infinity` and multiplies two such values (+-1 times infinity): a double wrapper is exact there. */
struct RationalStub
{
   double v;
   RationalStub() : v(0.0) {}
   RationalStub(int i) : v(i) {}
   RationalStub(double d) : v(d) {}
   RationalStub& operator*=(const RationalStub& o) { v = v * o.v; return *this; }
};
static const Real infinity = SOPLEX_DEFAULT_INFINITY;

/* ---- dropped by extraction: logging ------------------------------------------------------------------ */
/* (a C-variadic debug() that is handed a double trips dfcc's write-set parameter: plain overloads instead) */
struct SPxOut
{
   static void debug(const void*, const char*) {}
   static void debug(const void*, const char*, double) {}
   static void debug(const void*, const char*, const char*, int) {}
};
/* (the real macro expands to a braced block; the rational LPFreadColName relies on that: `if(..) SPX_MSG_WARNING(..) else {..}`) */
#define SPX_MSG_WARNING(spxout, x) {}

/* ---- std::vector<char> as the fixed helpers use it: a buffer of EXACTLY n elements (CBMC's malloc model; contents
 * unconstrained, which over-approximates the zero-filled real vector), data() hands out its address.  No destructor. */
extern "C" void* malloc(size_t);
namespace std
{
template <class T> struct vector
{
   T* data_;
   vector(size_t n) { data_ = (T*)malloc(n * sizeof(T)); }
   T* data() { return data_; }
};
}

/* ---- ghosts shared with contract.c ------------------------------------------------------------------- */
extern "C" {
   extern char*  gp_line;     /* the line buffer                                       */
   extern char** gpp_pos;     /* alias of the wrapper local that `pos` refers to       */
   extern int    g_len;       /* line[g_len] == 0                                      */
   extern int    g_off;       /* initial offset of pos                                 */
   extern int    g_k;         /* ghost index ("for all k"), relative to pos            */
   extern int    g_w;         /* readValue: position of a character that ends the token */
   extern char   v_k;         /* line[g_off + g_k] on entry                            */
   /* ghost record of what the callees (atof / NameSet::number / NameSet::add) were handed */
   extern int    g_calls;     /* number of calls of the recording callee               */
   extern int    g_tl;        /* ghost token length                                    */
   extern char   v_arg_k;     /* arg[g_k]  at the time of the call                     */
   extern char   v_arg_end;   /* arg[g_tl] at the time of the call                     */
   extern char   v_arg_0;     /* arg[0]    at the time of the call                     */
   extern const char* gp_arg; /* the argument pointer itself                           */
   extern double v_ret;       /* what atof returned                                    */
   extern int    g_rec[3];    /* readValue: number of atof calls, arg[g_k], arg[g_tl]  */
   extern int    v_nret;      /* what NameSet::number returned                         */
   extern int    g_num;       /* NameSet::num()                                        */
   extern int    g_added;     /* NameSet::add calls                                    */
   extern int    g_add_same;  /* NameSet::add was handed the pointer number() got      */
   extern int    g_cadded;    /* LPColSetBase::add calls                               */
   extern int    g_scan_end;  /* offset in the line at which the strchr model stopped  */
}

/* is a[i] inside the object a points into?  (the recording stubs must not add out-of-bounds reads of their own) */
#define INOBJ(a, i) (0 <= (i) && (unsigned long)(i) + __CPROVER_POINTER_OFFSET(a) < __CPROVER_OBJECT_SIZE(a))

/* ---- C library models (trusted) ---------------------------------------------------------------------- */
extern "C" {
/* glibc: tolower() is a table lookup defined for -128..255 (the assertion documents that the helpers never leave
 * that domain); "C" locale mapping. */
int tolower(int c)
{
   __CPROVER_assert(-128 <= c && c <= 255, "tolower argument in glibc's table domain");
   return ('A' <= c && c <= 'Z') ? c + ('a' - 'A') : c;
}

#if defined(STRCHR_LINE)
/* strchr on the line buffer: first occurrence or NULL, scanning up to the terminator.  Its loop carries a loop
 * contract (unit.json) saying that the scan stays inside gp_line[g_off..g_len]. */
char* strchr(const char* str, int chr)
{
   const char* p = str;

   while(*p != (char)chr)
   {
      if(*p == '\0')
      {
         g_scan_end = (int)(p - gp_line);      /* ghost: where the scan hit the terminator */
         return 0;
      }

      p++;
   }

   g_scan_end = (int)(p - gp_line);
   return (char*)p;
}
#elif defined(STRCHR_LIT)
/* strchr on a short string literal (the only use in these instances): first occurrence or NULL, the terminator counts as part
 * of the string.  Written out for literals of up to 24 characters (asserted) so that it needs neither a loop nor a local. */
#define STRCHR_STEP(j) if(str[j] == (char)chr) return (char*)str + (j); if(str[j] == '\0') return 0;
char* strchr(const char* str, int chr)
{
   STRCHR_STEP(0) STRCHR_STEP(1) STRCHR_STEP(2) STRCHR_STEP(3) STRCHR_STEP(4) STRCHR_STEP(5) STRCHR_STEP(6) STRCHR_STEP(7)
   STRCHR_STEP(8) STRCHR_STEP(9) STRCHR_STEP(10) STRCHR_STEP(11) STRCHR_STEP(12) STRCHR_STEP(13) STRCHR_STEP(14) STRCHR_STEP(15)
   STRCHR_STEP(16) STRCHR_STEP(17) STRCHR_STEP(18) STRCHR_STEP(19) STRCHR_STEP(20) STRCHR_STEP(21) STRCHR_STEP(22) STRCHR_STEP(23)
   __CPROVER_assert(0, "strchr model: string literal of at most 24 characters");
   return 0;
}
#endif

#ifdef INST_readValue
/* atof: a ghost-recording stub.  It records, at the ghost indices, the bytes it was handed, and returns an
 * unconstrained double (the numeric value is the business of C12's bounded stand-in, not of this unit). */
double atof(const char* a)
{
   g_rec[0]++;

   if(INOBJ(a, g_k))
      g_rec[1] = a[g_k];

   if(INOBJ(a, g_tl))
      g_rec[2] = a[g_tl];

   v_ret = nondet_double();
   return v_ret;
}
#endif
}

/* ---- the character-class helpers every instance may call (real bodies) ------------------------------- */
extern "C" bool LPFisSpace(int c)
{
#include "LPFisSpace.inc"
}
extern "C" bool LPFisValue(const char* s)
{
#include "LPFisValue.inc"
}
extern "C" bool LPFisSense(const char* s)
{
#include "LPFisSense.inc"
}

/* ---- loop-free predicates ---------------------------------------------------------------------------- */
#ifdef INST_isValue
extern "C" int w_isValue(const char* line, int n, int off) { return LPFisValue(line + off); }
#endif

#ifdef INST_isSense
extern "C" int w_isSense(const char* line, int n, int off) { return LPFisSense(line + off); }
#endif

#if defined(INST_isColName)
extern "C" bool LPFisColName(const char* s)
{
#include "LPFisColName.inc"
}
extern "C" int w_isColName(const char* line, int n, int off) { return LPFisColName(line + off); }
#endif

#ifdef INST_isInfinity
extern "C" bool LPFisInfinity(const char* s)
{
#include "LPFisInfinity.inc"
}
extern "C" int w_isInfinity(const char* line, int n, int off) { return LPFisInfinity(line + off); }
#endif

#ifdef INST_isFree
extern "C" bool LPFisFree(const char* s)
{
#include "LPFisFree.inc"
}
extern "C" int w_isFree(const char* line, int n, int off) { return LPFisFree(line + off); }
#endif

/* ---- LPFreadSense ------------------------------------------------------------------------------------ */
#ifdef INST_readSense
extern "C" int LPFreadSense(char*& pos)
{
#include "LPFreadSense.inc"
}
extern "C" int w_readSense(char* line, int n, int off, int* off_out)
{
   char* p = line + off;
   gp_line = line; gpp_pos = &p;
   int r = LPFreadSense(p);
   *off_out = (int)(p - line);
   return r;
}
#endif

/* ---- LPFhasKeyword: one instance per keyword literal of the tree (keyword.inc is extracted from the call site) */
#ifdef INST_hasKeyword
extern "C" bool LPFhasKeyword(char*& pos, const char* keyword)
{
#include "LPFhasKeyword.inc"
}
extern "C" int w_hasKeyword(char* line, int n, int off, int* off_out, int* end_out)
{
   VIN("n", n); VIN("len", g_len); VIN("off", off); VIN_ARR8("text", line + off, n - off);
   char* p = line + off;
   gp_line = line; gpp_pos = &p;
   bool r = LPFhasKeyword(p,
#include "keyword.inc"
                         );
   *off_out = (int)(p - line);
   *end_out = *p;
   return r;
}
#endif

/* ---- LPFreadInfinity: its callee LPFhasKeyword is replaced by its contract (contract.c) ---------------- */
#ifdef INST_readInfinity
extern "C" bool LPFhasKeyword(char*& pos, const char* keyword);
/* CBMC's C++ front end types the pre-increment `++pos` as an rvalue, which cannot bind to `char*& pos`.  In C++ it is the
 * lvalue pos itself, i.e. the wrapper local that gpp_pos points to: this overload forwards exactly that object. */
static inline bool LPFhasKeyword(const char* incremented, const char* keyword)
{
   __CPROVER_assert(incremented == *gpp_pos, "++pos denotes the object pos refers to");
   return LPFhasKeyword(*gpp_pos, keyword);
}
#ifdef RAT_TWIN
/* the twin in spxlpbase_rational.hpp: Rational sense = +-1; ...; sense *= Rational(infinity); return sense; */
typedef RationalStub Rational;
extern "C" double LPFreadInfinity_rat(char*& pos)
{
   struct Body
   {
      static Rational run(char*& pos)
      {
#include "LPFreadInfinity_rat.inc"
      }
   };
   return Body::run(pos).v;
}
#else
extern "C" R LPFreadInfinity(char*& pos)
{
#include "LPFreadInfinity.inc"
}
#endif
extern "C" double w_readInfinity(char* line, int n, int off, int* off_out)
{
   char* p = line + off;
   gp_line = line; gpp_pos = &p;
#ifdef RAT_TWIN
   double r = LPFreadInfinity_rat(p);
#else
   R r = LPFreadInfinity(p);
#endif
   *off_out = (int)(p - line);
   return r;
}
#endif

/* ---- LPFreadValue ------------------------------------------------------------------------------------
 * NOT REGISTERED as an instance (see gen_unit_json.py and props/C13.json "not_covered"): CBMC cannot discharge it within budget.
 * The wrapper and the contract are kept so that the attempt can be resumed (python3 tools/unitrun.py needs the instance
 * re-enabled in gen_unit_json.py). */
#ifdef INST_readValue
extern "C" R LPFreadValue(char*& pos, SPxOut* spxout)
{
#include "LPFreadValue.inc"
}
extern "C" double w_readValue(char* line, int n, int off, int* out)
{
   VIN("n", n); VIN("len", g_len); VIN("off", off); VIN_ARR8("text", line + off, n - off);
   char* p = line + off;
   gp_line = line;
   R v = LPFreadValue(p, 0);
   int o = (int)(p - line);
   /* witness for the token length: a number token contains no white space, so a blank in front of the final pos is the skipped one */
   int tl = (o > off && LPFisSpace(line[o - 1])) ? o - off - 1 : o - off;
   out[0] = o; out[1] = tl; out[2] = line[off + tl];
   return v;
}
#endif

/* ---- NameSet / LPColSetBase: ghost-recording stubs (automatic objects, no destructors) ---------------- */
#if defined(INST_readColName) || defined(INST_hasRowName)
struct NameSet
{
   /* real: index of the name in [0, num()) or -1.  Records what it was handed at the ghost indices. */
   int number(const char* str) const
   {
      g_calls++;
      gp_arg = str;

      if(INOBJ(str, g_k))
         v_arg_k = str[g_k];

      if(INOBJ(str, g_tl))
         v_arg_end = str[g_tl];

      v_nret = nondet_int();
      __CPROVER_assume(-1 <= v_nret && v_nret < g_num);      /* NameSet::number's range (type invariant of the dependency) */
      return v_nret;
   }
   int num() const { return g_num; }
   void add(const char* str)
   {
      g_added++;
      g_add_same = (str == gp_arg);

      if(INOBJ(str, 0))
         v_arg_0 = str[0];
   }
};
template <class T> struct LPColBase { int dummy; };
template <class T> struct LPColSetBase
{
   int dummy;
   void add(const LPColBase<T>& pcol) { g_cadded++; }
};
#endif

#ifdef INST_readColName
#ifdef RAT_TWIN
/* the twin in spxlpbase_rational.hpp: not a template, same parameter list with R = Rational (the number type is never touched) */
typedef RationalStub Rational;
extern "C" int LPFreadColName(char*& pos, NameSet* colnames, LPColSetBase<Rational>& colset,
                              const LPColBase<Rational>* emptycol, SPxOut* spxout)
{
#include "LPFreadColName_rat.inc"
}
#define R Rational
#else
extern "C" int LPFreadColName(char*& pos, NameSet* colnames, LPColSetBase<R>& colset,
                              const LPColBase<R>* emptycol, SPxOut* spxout)
{
#include "LPFreadColName.inc"
}
#endif
extern "C" int w_readColName(char* line, int n, int off, int have_empty, int* off_out, int* tl_out, int* end_out)
{
   VIN("n", n); VIN("len", g_len); VIN("off", off); VIN("have_empty", have_empty); VIN_ARR8("text", line + off, n - off);
   char* p = line + off;
   gp_line = line; gpp_pos = &p;
   NameSet names; LPColSetBase<R> colset; LPColBase<R> emptycol;
   int r = LPFreadColName(p, &names, colset, have_empty ? &emptycol : 0, 0);
   int out = (int)(p - line);
   /* witness for the name length: ' ' is a delimiter and never part of a name, so a ' ' in front of the final pos is the skipped blank */
   int tl = (out > off && line[out - 1] == ' ') ? out - off - 1 : out - off;
   *off_out = out; *tl_out = tl; *end_out = line[off + tl];
   return r;
}
#endif

#ifdef INST_hasRowName
extern "C" bool LPFhasRowName(char*& pos, NameSet* rownames)
{
#include "LPFhasRowName.inc"
}
extern "C" int w_hasRowName(char* line, int n, int off, int have_names, int* off_out)
{
   VIN("n", n); VIN("len", g_len); VIN("off", off); VIN("have_names", have_names); VIN_ARR8("text", line + off, n - off);
   char* p = line + off;
   gp_line = line; gpp_pos = &p;
   NameSet names;
   bool r = LPFhasRowName(p, have_names ? &names : 0);
   *off_out = (int)(p - line);
   return r;
}
#endif
