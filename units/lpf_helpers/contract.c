/* Contracts for the LP-format reader helpers (C13; LPFreadValue also serves C12).
 * The line is ANY buffer of n <= CAP bytes (CAP > SOPLEX_LPF_MAX_LINE_LEN) with a NUL at index g_len; pos = line + off.
 * "For all k" statements use the ghost index g_k (token-relative). */
#include "verif_c.h"
#include "constants.h"
#ifndef CAP
#define CAP 9000
#endif
char* gp_line; char** gpp_pos; int g_len, g_off, g_k, g_calls, g_tl, g_arg_inrange, g_num, g_added; char v_k, v_arg_k, v_arg_end; double v_ret;
char nondet_char(void);
static void havoc_ghosts(void) { v_arg_k = nondet_char(); v_arg_end = nondet_char(); g_len = nondet_int(); g_off = nondet_int(); g_k = nondet_int(); g_tl = nondet_int(); g_num = nondet_int(); }

#define IS_DIGIT(c) ('0' <= (c) && (c) <= '9')
#define IS_SPACE(c) ((c) == ' ' || (c) == '\t' || (c) == '\n' || (c) == '\r')
#define IS_SENSE(c) ((c) == '<' || (c) == '>' || (c) == '=')
#define IS_VALUE(c) (IS_DIGIT(c) || (c) == '+' || (c) == '-' || (c) == '.')
#define LOWER(c)    (('A' <= (c) && (c) <= 'Z') ? (c) + 32 : (c))
/* the line: n bytes, NUL at g_len, pos = line + off somewhere in [0, g_len] */
#define LINE_OK(line, n, off) (0 < (n) && (n) <= CAP && __CPROVER_is_fresh(line, n) && 0 <= g_len && g_len < (n) && (line)[g_len] == 0 \
                               && 0 <= (off) && (off) <= g_len && g_off == (off))

#ifdef INST_readValue
/* token length as seen from the outside: the token cannot contain a blank, one optional blank is skipped */
#define TOKLEN(line, off, out) (IS_SPACE((line)[(out) - 1]) ? (out) - (off) - 1 : (out) - (off))
#define IS_TOKCHAR(c) (IS_DIGIT(c) || (c) == '+' || (c) == '-' || (c) == '.' || (c) == 'e' || (c) == 'E')
double w_readValue(char* line, int n, int off, int* off_out)
__CPROVER_requires(LINE_OK(line, n, off) && __CPROVER_is_fresh(off_out, sizeof(int)))
__CPROVER_requires(IS_VALUE(line[off]))                                   /* every call site checks LPFisValue(pos) first */
__CPROVER_requires(0 <= g_k && g_k < g_len - off && v_k == line[off + g_k] && 0 <= g_tl && g_tl <= g_len - off)
__CPROVER_requires(g_calls == 0)
__CPROVER_assigns(gp_line, gpp_pos, *off_out, g_calls, g_arg_inrange, v_arg_k, v_arg_end, v_ret)
/* pos ends inside the line and has made progress */
__CPROVER_ensures(off < *off_out && *off_out <= g_len)
/* the token consists of number characters only and is not followed by a digit */
__CPROVER_ensures(g_k < TOKLEN(line, off, *off_out) ==> IS_TOKCHAR(v_k))
__CPROVER_ensures(!IS_DIGIT(line[off + TOKLEN(line, off, *off_out)]))
/* atof is called at most once; if it is, it is handed exactly the token, NUL-terminated, and its result is returned */
__CPROVER_ensures(g_calls <= 1)
__CPROVER_ensures((g_calls == 1 && g_tl == TOKLEN(line, off, *off_out)) ==> v_arg_end == 0 && (g_k < g_tl ==> v_arg_k == v_k))
__CPROVER_ensures(g_calls == 1 ==> __CPROVER_return_value == v_ret || (__CPROVER_return_value != __CPROVER_return_value && v_ret != v_ret))
/* sign-only tokens (no digit anywhere): +-1 */
__CPROVER_ensures(g_calls == 0 ==> __CPROVER_return_value == (line[off] == '-' ? -1.0 : 1.0))
__CPROVER_ensures((g_calls == 0 && g_k < TOKLEN(line, off, *off_out)) ==> !IS_DIGIT(v_k))
;
void h_readValue(void)
{
   char* line; int n, off; int* off_out;
   havoc_ghosts();
   w_readValue(line, n, off, off_out);
   CANARY();
}
#endif
