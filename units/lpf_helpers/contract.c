/* Contracts for the LP-format reader helpers (C13; LPFreadValue also serves C12).
 *
 * The line is ANY buffer of n <= CAP bytes (CAP > SOPLEX_LPF_MAX_LINE_LEN) holding a NUL at index g_len, and
 * pos = line + off with 0 <= off <= g_len.  (g_len need not be the FIRST NUL: the contracts hold for every NUL
 * position at or after pos, in particular for strlen.)  Memory safety of every access in the sliced bodies is
 * checked by --bounds-check/--pointer-check against exactly this n-byte object and against the functions'
 * local scratch buffers (std::vector<char> sized by the token: an exactly sized malloc object in the stub); the line is in no assigns clause, so every write to it would be a violation as well.
 * "For all k" statements use the ghost index g_k (relative to pos) with v_k == pos[g_k] on entry. */
#include "verif_c.h"
#include "constants.h"
#ifdef SCALED_MAXLEN       /* scaled stand-in instances only, see unit.cpp */
#undef SOPLEX_LPF_MAX_LINE_LEN
#define SOPLEX_LPF_MAX_LINE_LEN SCALED_MAXLEN
#endif
#ifndef CAP
#define CAP 9000
#endif
char* gp_line; char** gpp_pos; const char* gp_arg;
int g_maxlen, g_len, g_off, g_k, g_w, g_calls, g_tl, g_num, g_added, g_add_same, g_cadded, v_nret, g_scan_end;
char v_k, v_w, v_arg_k, v_arg_end, v_arg_0, v_c0, v_c1, v_c2, v_c3; double v_ret; int g_rec[3];
char nondet_char(void);
static void havoc_ghosts(void)
{
   g_maxlen = nondet_int(); g_len = nondet_int(); g_off = nondet_int(); g_k = nondet_int(); g_w = nondet_int(); g_tl = nondet_int(); g_num = nondet_int();
   v_k = nondet_char(); v_w = nondet_char(); v_arg_k = nondet_char(); v_arg_end = nondet_char(); v_arg_0 = nondet_char();
   g_add_same = nondet_int(); v_nret = nondet_int();
   v_c0 = nondet_char(); v_c1 = nondet_char(); v_c2 = nondet_char(); v_c3 = nondet_char();
}

#define IS_DIGIT(c) ('0' <= (c) && (c) <= '9')
#define IS_ALPHA(c) (('A' <= (c) && (c) <= 'Z') || ('a' <= (c) && (c) <= 'z'))
#define IS_SPACE(c) ((c) == ' ' || (c) == '\t' || (c) == '\n' || (c) == '\r')
#define IS_SENSE(c) ((c) == '<' || (c) == '>' || (c) == '=')
#define IS_VALUE(c) (IS_DIGIT(c) || (c) == '+' || (c) == '-' || (c) == '.')
#define CI(c, lo, up) ((c) == (lo) || (c) == (up))          /* case-insensitive letter */
/* the characters that may start a column name: letters and  ! " # $ % & ( ) / , ; ? @ _ ' ` { } | ~  */
#define IS_NAMESTART(c) (IS_ALPHA(c) || (c) == '!' || (c) == '"' || (c) == '#' || (c) == '$' || (c) == '%' || (c) == '&' \
                         || (c) == '(' || (c) == ')' || (c) == '/' || (c) == ',' || (c) == ';' || (c) == '?' || (c) == '@' \
                         || (c) == '_' || (c) == '\'' || (c) == '`' || (c) == '{' || (c) == '}' || (c) == '|' || (c) == '~')
/* the characters that end a column name:  + - . < > = blank */
#define IS_NAMEDELIM(c) ((c) == '+' || (c) == '-' || (c) == '.' || (c) == '<' || (c) == '>' || (c) == '=' || (c) == ' ')

/* the line: n bytes, NUL at g_len, pos = line + off somewhere in [0, g_len] */
#define LINE_OK(line, n, off) (0 < (n) && (n) <= CAP && __CPROVER_is_fresh(line, n) && 0 <= g_len && g_len < (n) && (line)[g_len] == 0 \
                               && 0 <= (off) && (off) <= g_len && g_off == (off))
/* the ghost index ranges over the text after pos */
#define GHOST_K(line, off) (0 <= g_k && g_k <= g_len && (g_k < g_len - (off) ==> v_k == (line)[(off) + g_k]))
#define FRESH_OUT(p) __CPROVER_is_fresh(p, sizeof(int))
/* v_c0..v_c3 are the (up to) four characters at pos, as far as they lie in front of or on the terminator.  Postconditions speak
 * about these scalars: conditional expressions full of dereferences make the instrumented contract explode, and the line is
 * in no assigns clause, so the characters are the same before and after the call. */
#define HEAD4(line, off) (v_c0 == (line)[off] && ((off) + 1 <= g_len ==> v_c1 == (line)[(off) + 1]) \
                          && ((off) + 2 <= g_len ==> v_c2 == (line)[(off) + 2]) && ((off) + 3 <= g_len ==> v_c3 == (line)[(off) + 3]))
#define IS_INF4 ((v_c0 == '-' || v_c0 == '+') && CI(v_c1, 'i', 'I') && CI(v_c2, 'n', 'N') && CI(v_c3, 'f', 'F'))
/* pos ends inside the line */
#define POS_IN_LINE(off, out) ((off) <= (out) && (out) <= g_len)

/* ======================================================================================================= */
#ifdef INST_isValue
int w_isValue(const char* line, int n, int off)
__CPROVER_requires(LINE_OK(line, n, off) && HEAD4(line, off))
__CPROVER_assigns()
__CPROVER_ensures((__CPROVER_return_value != 0) == IS_VALUE(v_c0))
;
void h_isValue(void) { const char* line; int n, off; havoc_ghosts(); w_isValue(line, n, off); CANARY(); }
#endif

#ifdef INST_isSense
int w_isSense(const char* line, int n, int off)
__CPROVER_requires(LINE_OK(line, n, off) && HEAD4(line, off))
__CPROVER_assigns()
__CPROVER_ensures((__CPROVER_return_value != 0) == IS_SENSE(v_c0))
;
void h_isSense(void) { const char* line; int n, off; havoc_ghosts(); w_isSense(line, n, off); CANARY(); }
#endif

#ifdef INST_isColName
int w_isColName(const char* line, int n, int off)
__CPROVER_requires(LINE_OK(line, n, off) && HEAD4(line, off))
__CPROVER_assigns()
__CPROVER_ensures((__CPROVER_return_value != 0) == IS_NAMESTART(v_c0))
__CPROVER_ensures(v_c0 == 0 ==> __CPROVER_return_value == 0)
;
void h_isColName(void) { const char* line; int n, off; havoc_ghosts(); w_isColName(line, n, off); CANARY(); }
#endif

#ifdef INST_isInfinity
/* [+-]inf, case-insensitive; must not read behind the terminator (the && chain stops at the first mismatch) */
int w_isInfinity(const char* line, int n, int off)
__CPROVER_requires(LINE_OK(line, n, off) && HEAD4(line, off))
__CPROVER_assigns()
__CPROVER_ensures((__CPROVER_return_value != 0) == IS_INF4)
__CPROVER_ensures(__CPROVER_return_value != 0 ==> off + 4 <= g_len)
;
void h_isInfinity(void) { const char* line; int n, off; havoc_ghosts(); w_isInfinity(line, n, off); CANARY(); }
#endif

#ifdef INST_isFree
/* "free", case-insensitive; the caller then does pos += 4, which must stay inside the line */
int w_isFree(const char* line, int n, int off)
__CPROVER_requires(LINE_OK(line, n, off) && HEAD4(line, off))
__CPROVER_assigns()
__CPROVER_ensures((__CPROVER_return_value != 0) == (CI(v_c0, 'f', 'F') && CI(v_c1, 'r', 'R') && CI(v_c2, 'e', 'E') && CI(v_c3, 'e', 'E')))
__CPROVER_ensures(__CPROVER_return_value != 0 ==> off + 4 <= g_len)
;
void h_isFree(void) { const char* line; int n, off; havoc_ghosts(); w_isFree(line, n, off); CANARY(); }
#endif

/* ======================================================================================================= */
#ifdef INST_readSense
/* <, >, =, ==, <=, =<, >=, =>  then one optional blank.  Every call site checks LPFisSense(pos) first. */
int w_readSense(char* line, int n, int off, int* off_out)
__CPROVER_requires(LINE_OK(line, n, off) && HEAD4(line, off) && FRESH_OUT(off_out))
__CPROVER_requires(IS_SENSE(v_c0))
__CPROVER_assigns(gp_line, gpp_pos, *off_out)
__CPROVER_ensures(POS_IN_LINE(off, *off_out) && off < *off_out)
__CPROVER_ensures(__CPROVER_return_value == ((v_c1 == '<' || v_c1 == '>') ? v_c1 : v_c0))
__CPROVER_ensures(!IS_SENSE(v_c1) ==> *off_out == off + 1 + (IS_SPACE(v_c1) ? 1 : 0))
__CPROVER_ensures(IS_SENSE(v_c1) ==> *off_out == off + 2 + (IS_SPACE(v_c2) ? 1 : 0))
;
void h_readSense(void) { char* line; int n, off; int* off_out; havoc_ghosts(); w_readSense(line, n, off, off_out); CANARY(); }
#endif

/* ======================================================================================================= */
#ifdef INST_hasKeyword
/* KW_MIN / KW_MAX: number of characters of the keyword outside / including its optional [..] sections; KW_FIRST its
 * first (mandatory) character.  (Given per instance in unit.json; the keyword literal itself is extracted from the tree.) */
int w_hasKeyword(char* line, int n, int off, int* off_out, int* end_out)   /* *end_out: the character pos points at on return */
__CPROVER_requires(LINE_OK(line, n, off) && HEAD4(line, off) && FRESH_OUT(off_out) && FRESH_OUT(end_out))
__CPROVER_assigns(gp_line, gpp_pos, *off_out, *end_out)
__CPROVER_ensures(POS_IN_LINE(off, *off_out) && *end_out == line[*off_out])
__CPROVER_ensures(__CPROVER_return_value == 0 ==> *off_out == off)
__CPROVER_ensures(__CPROVER_return_value != 0 ==> (KW_MIN <= *off_out - off && *off_out - off <= KW_MAX && CI(v_c0, KW_FIRST, KW_FIRST - 32)))
__CPROVER_ensures(__CPROVER_return_value != 0 ==> (*end_out == 0 || IS_SPACE(*end_out) || IS_SENSE(*end_out)))
;
void h_hasKeyword(void) { char* line; int n, off; int* off_out; int* end_out; havoc_ghosts(); w_hasKeyword(line, n, off, off_out, end_out); CANARY(); }
#endif

/* ======================================================================================================= */
#ifdef INST_readInfinity
/* contract of the callee (proved per keyword by the hasKeyword instances; here: instance hasKeyword_inf):
 * pos is inside the line before and after, and never moves backwards */
_Bool LPFhasKeyword(char** pos, const char* keyword)
__CPROVER_requires(__CPROVER_pointer_in_range_dfcc(gp_line, *pos, gp_line + g_len))
__CPROVER_assigns(*pos)
__CPROVER_ensures(__CPROVER_pointer_in_range_dfcc(__CPROVER_old(*pos), *pos, gp_line + g_len))
;
/* every call site checks LPFisInfinity(pos) first */
double w_readInfinity(char* line, int n, int off, int* off_out)
__CPROVER_requires(LINE_OK(line, n, off) && HEAD4(line, off) && FRESH_OUT(off_out))
__CPROVER_requires(IS_INF4)
__CPROVER_assigns(gp_line, gpp_pos, *off_out)
__CPROVER_ensures(POS_IN_LINE(off, *off_out) && off < *off_out)
__CPROVER_ensures(__CPROVER_return_value == (v_c0 == '-' ? -(SOPLEX_DEFAULT_INFINITY) : (SOPLEX_DEFAULT_INFINITY)))
;
void h_readInfinity(void) { char* line; int n, off; int* off_out; havoc_ghosts(); w_readInfinity(line, n, off, off_out); CANARY(); }
#endif

/* ======================================================================================================= */
#ifdef INST_readValue
/* NOT REGISTERED as an instance: see unit.cpp / props/C13.json "not_covered". */
#define IS_TOKCHAR(c) (IS_DIGIT(c) || (c) == '+' || (c) == '-' || (c) == '.' || (c) == 'e' || (c) == 'E')
#define V_CAS ((v_c0 == '+' || v_c0 == '-') ? v_c1 : v_c0)            /* the character behind the optional sign */
/* *tl_out is the wrapper's witness for the token length T: pos[0..T) is the token, *end_out == pos[T] the character behind it.
 * TOKEN LENGTH BOUND: the ghost g_w < TOKCAP is the position of some character that cannot belong to a number, i.e. the token
 * is shorter than TOKCAP characters.  (The copy loop `*t++ = *pos` writes through a pointer it advances; under a loop contract
 * every such write becomes a case split over all objects and does not fit in memory, so that loop is unwound completely,
 * TOKCAP+1 times.  Longer tokens - in particular those that overflow tmp - are outside this instance.) */
/* out[0] = offset of pos on return, out[1] = T, out[2] = pos[T];  g_rec[0] = number of atof calls, g_rec[1] = arg[g_k], g_rec[2] = arg[g_tl]
 * (few assigns targets: every write through a pointer is checked against each of them) */
double w_readValue(char* line, int n, int off, int* out)
__CPROVER_requires(LINE_OK(line, n, off) && HEAD4(line, off) && __CPROVER_is_fresh(out, 3 * sizeof(int)))
__CPROVER_requires(IS_VALUE(v_c0))                                        /* every call site checks LPFisValue(pos) first */
__CPROVER_requires(0 <= g_w && g_w < TOKCAP && g_w <= g_len - off && v_w == line[off + g_w] && !IS_TOKCHAR(v_w))
__CPROVER_requires(GHOST_K(line, off) && g_k < g_len - off && 0 <= g_tl && g_tl <= g_len - off)
__CPROVER_requires(g_rec[0] == 0)
__CPROVER_assigns(gp_line, __CPROVER_object_whole(out), __CPROVER_object_whole(g_rec), v_ret)
/* pos ends inside the line, behind the token and one optional blank */
__CPROVER_ensures(1 <= out[1] && off + out[1] <= g_len && out[2] == line[off + out[1]])
__CPROVER_ensures(out[0] == off + out[1] + (IS_SPACE(out[2]) ? 1 : 0) && out[0] <= g_len)
/* the token consists of number characters only and is not followed by a digit */
__CPROVER_ensures(g_k < out[1] ==> IS_TOKCHAR(v_k))
__CPROVER_ensures(!IS_DIGIT(out[2]))
/* atof is called at most once; if it is, it is handed exactly the token, NUL-terminated, and its result is returned */
__CPROVER_ensures(g_rec[0] <= 1)
__CPROVER_ensures((g_rec[0] == 1 && g_tl == out[1]) ==> (g_rec[2] == 0 && (g_k < g_tl ==> g_rec[1] == v_k)))
__CPROVER_ensures(g_rec[0] == 1 ==> (__CPROVER_return_value == v_ret || (__CPROVER_return_value != __CPROVER_return_value && v_ret != v_ret)))
/* atof is called iff the mantissa has a digit; in particular whenever a digit follows the optional sign.  Otherwise ("+", "-",
 * ".", "-e5", ...) the value is the sign: +-1 */
__CPROVER_ensures(IS_DIGIT(V_CAS) ==> g_rec[0] == 1)
__CPROVER_ensures(g_rec[0] == 0 ==> __CPROVER_return_value == (v_c0 == '-' ? -1.0 : 1.0))
__CPROVER_ensures(((out[1] == 1 || (out[1] == 2 && (v_c0 == '+' || v_c0 == '-'))) && !IS_DIGIT(V_CAS)) ==> g_rec[0] == 0)
;
void h_readValue(void) { char* line; int n, off; int* out; havoc_ghosts(); g_rec[1] = nondet_int(); g_rec[2] = nondet_int(); w_readValue(line, n, off, out); CANARY(); }
#endif

/* ======================================================================================================= */
#ifdef INST_readColName
/* *tl_out is the wrapper's witness for the name length T: pos[0..T) is the name, *end_out == pos[T] the character behind it.
 * No precondition on *pos: the BINARIES/INTEGERS sections call LPFreadColName without checking LPFisColName(pos). */
int w_readColName(char* line, int n, int off, int have_empty, int* off_out, int* tl_out, int* end_out)
__CPROVER_requires(LINE_OK(line, n, off) && FRESH_OUT(off_out) && FRESH_OUT(tl_out) && FRESH_OUT(end_out))
__CPROVER_requires(GHOST_K(line, off) && 0 <= g_tl && g_tl <= g_len - off)
__CPROVER_requires(g_calls == 0 && g_added == 0 && g_cadded == 0 && 0 <= g_num && g_num < 1000000000)
__CPROVER_assigns(gp_line, gpp_pos, gp_arg, *off_out, *tl_out, *end_out, g_calls, v_arg_k, v_arg_end, v_arg_0, v_nret, g_added, g_add_same, g_cadded)
/* pos ends inside the line, behind the name and one optional blank */
__CPROVER_ensures(0 <= *tl_out && off + *tl_out <= g_len && *end_out == line[off + *tl_out])
__CPROVER_ensures(*off_out == off + *tl_out + (IS_SPACE(*end_out) ? 1 : 0) && *off_out <= g_len)
/* the name is the maximal prefix free of delimiters */
__CPROVER_ensures(g_k < *tl_out ==> (!IS_NAMEDELIM(v_k) && v_k != 0))
__CPROVER_ensures(IS_NAMEDELIM(*end_out) || *end_out == 0)
/* the name set is asked exactly once, for exactly that name */
__CPROVER_ensures(g_calls == 1)
__CPROVER_ensures(g_tl == *tl_out ==> (v_arg_end == 0 && (g_k < g_tl ==> v_arg_k == v_k)))
/* known name: its index; unknown name: registered (name set and column set in step) iff an empty column was supplied, else -1 */
__CPROVER_ensures(__CPROVER_return_value == (v_nret >= 0 ? v_nret : (have_empty ? g_num : -1)))
__CPROVER_ensures(g_added == ((v_nret < 0 && have_empty) ? 1 : 0) && g_cadded == g_added && (g_added == 1 ==> g_add_same))
;
void h_readColName(void) { char* line; int n, off, have_empty; int* off_out; int* tl_out; int* end_out; havoc_ghosts(); w_readColName(line, n, off, have_empty, off_out, tl_out, end_out); CANARY(); }
#endif

/* ======================================================================================================= */
#ifdef INST_hasRowName
int w_hasRowName(char* line, int n, int off, int have_names, int* off_out)
__CPROVER_requires(LINE_OK(line, n, off) && FRESH_OUT(off_out))
__CPROVER_requires(GHOST_K(line, off))
__CPROVER_requires(g_added == 0)
__CPROVER_assigns(gp_line, gpp_pos, *off_out, g_added, g_add_same, v_arg_0, g_scan_end)
__CPROVER_ensures(POS_IN_LINE(off, *off_out))
/* pos untouched: false is returned, and the text up to its terminator (found at g_scan_end) contains no colon */
__CPROVER_ensures(*off_out == off ==> __CPROVER_return_value == 0)
__CPROVER_ensures(*off_out == off ==> (off <= g_scan_end && g_scan_end <= g_len && line[g_scan_end] == 0))
__CPROVER_ensures((*off_out == off && g_k < g_scan_end - off) ==> (v_k != ':' && v_k != 0))
/* otherwise pos is just behind the FIRST colon, and there is no terminator in front of it */
__CPROVER_ensures(*off_out != off ==> (line[*off_out - 1] == ':' && (g_k < *off_out - 1 - off ==> (v_k != ':' && v_k != 0))))
/* a name is registered iff true is returned and a name set was supplied; it does not start with a blank */
__CPROVER_ensures(g_added == ((__CPROVER_return_value != 0 && have_names) ? 1 : 0))
__CPROVER_ensures(g_added == 1 ==> v_arg_0 != ' ')
;
void h_hasRowName(void) { char* line; int n, off, have_names; int* off_out; havoc_ghosts(); w_hasRowName(line, n, off, have_names, off_out); CANARY(); }
#endif
