#!/usr/bin/env python3
"""Generates unit.json for lpf_helpers (the loop invariants share many textual pieces).  Run by hand after edits:
   python3 units/lpf_helpers/gen_unit_json.py
unit.json is the file the runner reads; this script is only a convenience for the unit's author."""
import json, os

HPP = "src/soplex/spxlpbase_real.hpp"

def sl(name, sig, must=None):
    d = {"as": name + ".inc", "file": HPP, "sig": sig}
    if must:
        d["must_contain"] = must
    return d

S_isSpace = sl("LPFisSpace", r"static\s+inline\s+bool\s+LPFisSpace\s*\(\s*int\s+c\s*\)")
S_isValue = sl("LPFisValue", r"static\s+inline\s+bool\s+LPFisValue\s*\(\s*const\s+char\*\s+s\s*\)")
S_isSense = sl("LPFisSense", r"static\s+inline\s+bool\s+LPFisSense\s*\(\s*const\s+char\*\s+s\s*\)")
COMMON = [S_isSpace, S_isValue, S_isSense]

# ---- invariant building blocks (C expressions over ghost globals and body locals) -------------------
DIG = lambda c: "('0'<=(%s) && (%s)<='9')" % (c, c)
TOK = lambda c: "(%s || (%s)=='+' || (%s)=='-' || (%s)=='.' || (%s)=='e' || (%s)=='E')" % (DIG(c), c, c, c, c, c)
# pointer-typed loop variables are havoc'd to arbitrary pointers: the invariant must pin the OBJECT (same_object) and talk about
# offsets through __CPROVER_POINTER_OFFSET (a pointer difference on the havoc'd pointer would itself be checked and fail)
# (__CPROVER_POINTER_OFFSET is mistyped in the loop-contract side file: integer casts of same-object pointers instead)
OFF = lambda p, base="gp_line": "((long)(%s) - (long)(%s))" % (p, base)
S_OFF = OFF("s")
POS_OFF = OFF("*gpp_pos")
S_IN = "__CPROVER_same_object(s, gp_line)"
POS_IN = "__CPROVER_same_object(*gpp_pos, gp_line)"

def scan_inv():
    """invariants of the three digit-scanning loops of LPFreadValue"""
    return [
        S_IN,
        "g_off <= %s && %s <= g_len" % (S_OFF, S_OFF),
        "%s == g_off" % POS_OFF,
        "(gp_line[g_off]=='+' || gp_line[g_off]=='-') ==> %s >= g_off + 1" % S_OFF,
        "(%s > g_off) ==> %s" % (S_OFF, TOK("s[-1]")),
        "(g_off + g_k < %s) ==> %s" % (S_OFF, TOK("v_k")),
        "(!has_digits && g_off + g_k < %s) ==> !%s" % (S_OFF, DIG("v_k")),
    ]

readValue = {
    "name": "readValue",
    "function": "LPFreadValue<R>(char*& pos, SPxOut* spxout)  [spxlpbase_real.hpp]",
    "defines": {"INST_readValue": ""},
    "harness": "h_readValue", "enforce": "w_readValue",
    "slices": COMMON + [sl("LPFreadValue", r"template\s*<class\s+R>\s*static\s+R\s+LPFreadValue\s*\(\s*char\*&\s+pos\s*,\s*SPxOut\*\s+spxout\s*\)",
                           ["atof\\(tmp\\)", "char\\s+tmp\\[SOPLEX_LPF_MAX_LINE_LEN\\]"])],
    "loops": [
        {"function": "LPFreadValue", "loop": 0, "locals": ["s", "has_digits"], "invariants": scan_inv(),
         "assigns": ["s", "has_digits"], "decreases": "g_len - %s" % S_OFF},
        {"function": "LPFreadValue", "loop": 1, "locals": ["s", "has_digits"], "invariants": scan_inv(),
         "assigns": ["s", "has_digits"], "decreases": "g_len - %s" % S_OFF},
        {"function": "LPFreadValue", "loop": 2, "locals": ["s", "has_digits", "has_emptyexponent"], "invariants": scan_inv(),
         "assigns": ["s", "has_emptyexponent"], "decreases": "g_len - %s" % S_OFF},
        {"function": "LPFreadValue", "loop": 3, "locals": ["s", "t", "tmp"],
         "invariants": [
             POS_IN, "__CPROVER_same_object(t, tmp)",
             "g_off <= %s && %s <= %s" % (POS_OFF, POS_OFF, S_OFF),
             "%s == %s - g_off" % (OFF("t", "tmp"), POS_OFF),
             "(g_k < %s) ==> tmp[g_k] == v_k" % OFF("t", "tmp"),
         ],
         "assigns": ["t", "*gpp_pos", "__CPROVER_object_whole(tmp)"], "decreases": "%s - %s" % (S_OFF, POS_OFF)},
    ],
    "min_obligations": 100,
    "tier": "thorough",
    "mutants": [],
}

unit = {
    "property": ["C13", "C12"],
    "desc": "LP-format reader helpers (spxlpbase_real.hpp): real bodies on a symbolic NUL-terminated line that may be longer than SOPLEX_LPF_MAX_LINE_LEN",
    "rmode": "double (IEEE, bit-precise); atof is a ghost-recording stub with unconstrained result",
    "defines": {"CAP": "9000"}, "defines_small": {"CAP": "40"},
    "flags": ["--bounds-check", "--pointer-check", "--signed-overflow-check", "--conversion-check"],
    "timeout_s": 280,
    "constants": [
        {"name": "SOPLEX_LPF_MAX_LINE_LEN", "file": HPP, "regex": r"#define\s+SOPLEX_LPF_MAX_LINE_LEN\s+(\d+)"},
    ],
    "trusted": [],
    "instances": [readValue],
}
json.dump(unit, open(os.path.join(os.path.dirname(os.path.abspath(__file__)), "unit.json"), "w"), indent=1)
