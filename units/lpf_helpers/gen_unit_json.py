#!/usr/bin/env python3
"""Generates unit.json for lpf_helpers (the loop invariants share many textual pieces, and there is one
LPFhasKeyword instance per keyword literal).  Run by hand after edits:  python3 units/lpf_helpers/gen_unit_json.py
unit.json is the file the runner reads; this script is only a convenience for the unit's author."""
import json
import os
import re

HPP = "src/soplex/spxlpbase_real.hpp"
CAP = 9000            # > SOPLEX_LPF_MAX_LINE_LEN (8192)


def sl(name, sig, must=None):
    d = {"as": name + ".inc", "file": HPP, "sig": sig}
    if must:
        d["must_contain"] = must
    return d


S_isSpace = sl("LPFisSpace", r"static\s+inline\s+bool\s+LPFisSpace\s*\(\s*int\s+c\s*\)")
S_isValue = sl("LPFisValue", r"static\s+inline\s+bool\s+LPFisValue\s*\(\s*const\s+char\*\s+s\s*\)")
S_isSense = sl("LPFisSense", r"static\s+inline\s+bool\s+LPFisSense\s*\(\s*const\s+char\*\s+s\s*\)")
COMMON = [S_isSpace, S_isValue, S_isSense]
S_isColName = sl("LPFisColName", r"static\s+inline\s+bool\s+LPFisColName\s*\(\s*const\s+char\*\s+s\s*\)", [r"strchr\("])
S_isInfinity = sl("LPFisInfinity", r"static\s+inline\s+bool\s+LPFisInfinity\s*\(\s*const\s+char\*\s+s\s*\)")
S_isFree = sl("LPFisFree", r"static\s+inline\s+bool\s+LPFisFree\s*\(\s*const\s+char\*\s+s\s*\)")
S_readSense = sl("LPFreadSense", r"static\s+inline\s+int\s+LPFreadSense\s*\(\s*char\*&\s+pos\s*\)")
S_hasKeyword = sl("LPFhasKeyword", r"static\s+inline\s+bool\s+LPFhasKeyword\s*\(\s*char\*&\s+pos\s*,\s*const\s+char\*\s+keyword\s*\)")
S_hasRowName = sl("LPFhasRowName", r"static\s+inline\s+bool\s+LPFhasRowName\s*\(\s*char\*&\s+pos\s*,\s*NameSet\*\s+rownames\s*\)",
                  [r"strchr\(pos,\s*':'\)", r"std::vector<char>\s+namebuf", r"rownames->add\(name\)"])
S_readInfinity = sl("LPFreadInfinity", r"template\s*<class\s+R>\s*static\s+R\s+LPFreadInfinity\s*\(\s*char\*&\s+pos\s*\)",
                    [r"LPFhasKeyword\(\+\+pos,\s*\"inf\[inity\]\"\)"])
S_readValue = sl("LPFreadValue", r"template\s*<class\s+R>\s*static\s+R\s+LPFreadValue\s*\(\s*char\*&\s+pos\s*,\s*SPxOut\*\s+spxout\s*\)",
                 [r"atof\(tmp\.data\(\)\)"])
S_readColName = sl("LPFreadColName",
                   r"template\s*<class\s+R>\s*static\s+int\s+LPFreadColName\s*\(\s*char\*&\s+pos\s*,\s*NameSet\*\s+colnames\s*,\s*LPColSetBase<R>&\s+colset\s*,"
                   r"\s*const\s+LPColBase<R>\*\s+emptycol\s*,\s*SPxOut\*\s+spxout\s*\)",
                   [r"std::vector<char>\s+namebuf", r"colnames->number\(name\)", r"colnames->add\(name\)", r"colset\.add\(\*emptycol\)"])

RAT = "src/soplex/spxlpbase_rational.hpp"
S_readColName_rat = {"as": "LPFreadColName_rat.inc", "file": RAT,
                     "sig": r"static\s+int\s+LPFreadColName\s*\(\s*char\*&\s+pos\s*,\s*NameSet\*\s+colnames\s*,\s*LPColSetBase<Rational>&\s+colset\s*,"
                            r"\s*const\s+LPColBase<Rational>\*\s+emptycol\s*,\s*SPxOut\*\s+spxout\s*\)",
                     "must_contain": [r"std::vector<char>\s+namebuf"]}
S_readInfinity_rat = {"as": "LPFreadInfinity_rat.inc", "file": RAT, "sig": r"static\s+Rational\s+LPFreadInfinity\s*\(\s*char\*&\s+pos\s*\)",
                      "must_contain": [r"LPFhasKeyword\(\+\+pos,\s*\"inf\[inity\]\"\)"]}

# ---- invariant building blocks (C expressions over ghost globals and body locals) ---------------------------------
# Pointer-typed loop variables are havoc'd to ARBITRARY pointers by the loop-contract instrumentation: the invariant must pin
# the object (__CPROVER_same_object) and talk about offsets through integer casts (a pointer difference on the havoc'd pointer
# would itself be checked and fail; __CPROVER_POINTER_OFFSET is mistyped in the loop-contract side file).
OFF = lambda p, base="gp_line": "((long)(%s) - (long)(%s))" % (p, base)
IN = lambda p, base="gp_line": "__CPROVER_same_object(%s, %s)" % (p, base)
S_OFF = OFF("s")
POS_OFF = OFF("*gpp_pos")
DIG = lambda c: "('0'<=(%s) && (%s)<='9')" % (c, c)
TOK = lambda c: "(%s || (%s)=='+' || (%s)=='-' || (%s)=='.' || (%s)=='e' || (%s)=='E')" % (DIG(c), c, c, c, c, c)
DELIM = lambda c: "((%s)=='+' || (%s)=='-' || (%s)=='.' || (%s)=='<' || (%s)=='>' || (%s)=='=' || (%s)==' ')" % ((c,) * 7)


def scan_inv(loop):
    """invariants of the three digit-scanning loops of LPFreadValue (s walks the line, pos stays; g_w bounds the token)"""
    inv = [
        IN("s"),
        "g_off <= %s && %s <= g_off + g_w" % (S_OFF, S_OFF),
        "(v_c0=='+' || v_c0=='-') ==> %s >= g_off + 1" % S_OFF,
        "(%s > g_off) ==> s[-1] > ' '" % S_OFF,          # the last token character is no white space (one dereference only)
        "(g_off + g_k < %s) ==> %s" % (S_OFF, TOK("v_k")),
    ]
    cas = "((v_c0=='+' || v_c0=='-') ? v_c1 : v_c0)"
    if loop == 0:
        inv.append("!has_digits ==> %s == g_off + ((v_c0=='+' || v_c0=='-') ? 1 : 0)" % S_OFF)
    else:
        inv.append("%s ==> has_digits" % DIG(cas))
    if loop == 1:
        inv.append("!has_digits ==> %s <= g_off + 2" % S_OFF)      # sign and dot at most
    return inv


STRCHR_LIT_UNWIND = [{"function": "strchr", "loop": 0}]

instances = []


def pred(name, fn, slices, mutants, extra_defs=None, unwind=None):
    d = {"name": name, "function": fn + "  [spxlpbase_real.hpp]", "defines": {"INST_" + name: ""},
         "harness": "h_" + name, "enforce": "w_" + name, "slices": COMMON + slices, "min_obligations": 10, "tier": "quick",
         "mutants": mutants}
    if extra_defs:
        d["defines"].update(extra_defs)
    if unwind:
        d["unwind"] = unwind
        d["unwind_loops"] = STRCHR_LIT_UNWIND
    instances.append(d)


pred("isValue", "LPFisValue(const char* s)", [],
     [{"name": "nine", "slice": "LPFisValue.inc", "find": "(*s <= '9')", "replace": "(*s < '9')"}])
pred("isSense", "LPFisSense(const char* s)", [],
     [{"name": "dup", "slice": "LPFisSense.inc", "find": "(*s == '>')", "replace": "(*s == '<')"}])
pred("isColName", "LPFisColName(const char* s)", [S_isColName],
     [{"name": "nul_is_name", "slice": "LPFisColName.inc", "find": "return false;", "replace": "return true;"},
      {"name": "upper", "slice": "LPFisColName.inc", "find": "(*s <= 'Z')", "replace": "(*s < 'Z')"}],
     {"STRCHR_LIT": ""})
pred("isInfinity", "LPFisInfinity(const char* s)", [S_isInfinity],
     [{"name": "index", "slice": "LPFisInfinity.inc", "find": "tolower(s[3]) == 'f'", "replace": "tolower(s[4]) == 'f'"},
      {"name": "noshortcircuit", "slice": "LPFisInfinity.inc", "find": "&& (tolower(s[2]) == 'n')", "replace": "& (tolower(s[2]) == 'n')"}])
pred("isFree", "LPFisFree(const char* s)", [S_isFree],
     [{"name": "index", "slice": "LPFisFree.inc", "find": "tolower(s[3]) == 'e'", "replace": "tolower(s[2]) == 'e'"},
      {"name": "noshortcircuit", "slice": "LPFisFree.inc", "find": "&& (tolower(s[3]) == 'e')", "replace": "& (tolower(s[5]) == 'e')"}])

instances.append({
    "name": "readSense", "function": "LPFreadSense(char*& pos)  [spxlpbase_real.hpp]", "defines": {"INST_readSense": ""},
    "harness": "h_readSense", "enforce": "w_readSense", "slices": COMMON + [S_readSense], "min_obligations": 30, "tier": "quick",
    "mutants": [{"name": "keep_first", "slice": "LPFreadSense.inc", "find": "sense = *pos++;\n   else", "replace": "pos++;\n   else"},
                {"name": "skip_twice", "slice": "LPFreadSense.inc", "find": "if(LPFisSpace(*pos))\n      pos++;", "replace": "if(LPFisSpace(*pos))\n      pos += 2;"}],
})

# ---- LPFhasKeyword: one instance per keyword literal at a call site ----------------------------------------------------
KEYWORDS = [  # (instance suffix, literal, call-site pos expression)
    ("max", "max[imize]", "pos"), ("min", "min[imize]", "pos"),
    ("subject_to", "s[ubject][   ]t[o]", "pos"), ("such_that", "s[uch][    ]t[hat]", "pos"), ("st", "s[.][    ]t[.]", "pos"),
    ("lazy", "lazy con[straints]", "pos"), ("bounds", "bound[s]", "pos"), ("binary", "bin[ary]", "pos"), ("binaries", "bin[aries]", "pos"),
    ("generals", "gen[erals]", "pos"), ("integers", "int[egers]", "pos"), ("end", "end", "pos"), ("inf", "inf[inity]", "++pos"),
]
KW_QUICK = {"end", "max", "subject_to", "inf"}          # representative subset in the quick tier, the rest thorough
kw_alt = "|".join(re.escape(k[1]) for k in KEYWORDS)


def kw_structure(lit):
    """bracket pairs and, for every index i of the literal (and i == len): whether it lies strictly inside a [..] section
    (behind the '[' up to and including the ']'), the number of mandatory / of all non-bracket characters in front of it"""
    pairs, inside, mand, alln = [], [], [], []
    m = a = 0
    lb = None
    for i, c in enumerate(lit + "\0"):
        inside.append(lb is not None)
        mand.append(m)
        alln.append(a)
        if c == "[":
            lb = i
        elif c == "]":
            pairs.append((lb, i))
            lb = None
        elif c != "\0":
            a += 1
            if lb is None:
                m += 1
    return pairs, inside, mand, alln


def kw_loops(lit):
    """Loop contracts of LPFhasKeyword for one constant keyword.  i indexes the keyword, k the text at pos.
    CBMC numbers the loops: 0 = `while(tolower(pos[k]) == keyword[i] ...)`, 1 = `while(keyword[i] != ']')`, 2 = the outer for."""
    L = len(lit)
    pairs, inside, mand, alln = kw_structure(lit)
    first = "(v_c0 == '%s' || v_c0 == '%s')" % (lit[0], lit[0].upper())
    common = ["0 <= k && k <= g_len - g_off", "*gpp_pos == gp_line + g_off", "(i >= 1) ==> %s" % first]
    # outer loop head: i is outside the optional sections; k lies between the mandatory and the total number of characters in front of i
    heads = [h for h in range(L + 1) if not inside[h]]
    outer = " || ".join("(i == %d && %d <= k && k <= %d)" % (h, mand[h], alln[h]) for h in heads)
    # inside section j (lb < i <= rb): k and i advance together in loop 0; only i advances in loop 1
    # (the section is pinned through the value of i on entry to the loop: a disjunction over the sections alone would let the
    #  havoc'd i jump into another section)
    E = "__CPROVER_loop_entry(i)"
    sec0 = " || ".join("(%s == %d && %d < i && i <= %d && %d <= k - (i - %d) && k - (i - %d) <= %d)" % (E, lb + 1, lb, rb, mand[lb], lb + 1, lb + 1, alln[lb]) for lb, rb in pairs)
    sec1 = " || ".join("(%d < %s && %s <= i && i <= %d && %d <= k && k - (i - %d) <= %d)" % (lb, E, E, rb, mand[lb], lb + 1, alln[lb]) for lb, rb in pairs)
    return [
        {"function": "LPFhasKeyword", "loop": 0, "locals": ["i", "k"], "invariants": common + [sec0], "assigns": ["i", "k"], "decreases": "%d - i" % L},
        {"function": "LPFhasKeyword", "loop": 1, "locals": ["i", "k"], "invariants": common + [sec1], "assigns": ["i"], "decreases": "%d - i" % L},
        {"function": "LPFhasKeyword", "loop": 2, "locals": ["i", "k"], "invariants": common + [outer], "assigns": ["i", "k"], "decreases": "%d - i" % L},
    ]


for suffix, lit, posx in KEYWORDS:
    kmin = len(re.sub(r"\[[^\]]*\]", "", lit))
    kmax = len(lit.replace("[", "").replace("]", ""))
    inst = {
        "name": "hasKeyword_" + suffix,
        "function": "LPFhasKeyword(char*& pos, const char* keyword) with keyword = \"%s\"  [spxlpbase_real.hpp]" % lit,
        "defines": {"INST_hasKeyword": "", "KW_MIN": str(kmin), "KW_MAX": str(kmax), "KW_FIRST": "'%s'" % lit[0]},
        "harness": "h_hasKeyword", "enforce": "w_hasKeyword",
        "slices": COMMON + [S_hasKeyword],
        "extracts": [{"as": "keyword.inc", "file": HPP, "regex": r"LPFhasKeyword\(%s,\s*(\"%s\")\)" % (re.escape(posx), re.escape(lit)), "group": 1}],
        "min_obligations": 100, "tier": "quick" if suffix in KW_QUICK else "thorough",
        "mutants": [
            {"name": "no_word_end", "slice": "LPFhasKeyword.inc", "find": "if(keyword[i] == '\\0' && (", "replace": "if(keyword[i] == '\\0' || ("},
            {"name": "advance", "slice": "LPFhasKeyword.inc", "find": "pos += k;", "replace": "pos += k + 1;"},
        ],
    }
    if "[" in lit:
        # the old defect: without this conjunct a ']' in the text is matched against the closing bracket of the keyword
        inst["mutants"].append({"name": "old_bracket_overrun", "slice": "LPFhasKeyword.inc", "find": "(keyword[i] != ']') && ", "replace": ""})
        # loop contracts generated from the structure of the constant keyword (positions of its [..] sections)
        inst["loops"] = kw_loops(lit)
    else:
        # no optional section: the two inner loops are never entered and the outer one runs at most len(keyword) times: complete unwinding
        inst["unwind"] = len(lit) + 3
        inst["unwind_loops"] = [{"function": "LPFhasKeyword", "loop": 0}, {"function": "LPFhasKeyword", "loop": 1}, {"function": "LPFhasKeyword", "loop": 2}]
    instances.append(inst)

CONSTS_RAT = [
    {"name": "SOPLEX_LPF_MAX_LINE_LEN", "file": RAT, "regex": r"#define\s+SOPLEX_LPF_MAX_LINE_LEN\s+(\d+)"},
    {"name": "SOPLEX_DEFAULT_INFINITY", "file": "src/soplex/spxdefines.h", "regex": r"typedef\s+double\s+Real;.*?#define\s+SOPLEX_DEFAULT_INFINITY\s+([0-9.eE+-]+)\s*\n"},
]


def read_infinity(rat):
    sfx = "_rat" if rat else ""
    d = {
        "name": "readInfinity" + sfx,
        "function": ("LPFreadInfinity(char*& pos) -> Rational  [spxlpbase_rational.hpp]" if rat else "LPFreadInfinity<R>(char*& pos)  [spxlpbase_real.hpp]"),
        "defines": {"INST_readInfinity": ""},
        "harness": "h_readInfinity", "enforce": "w_readInfinity", "replace": ["LPFhasKeyword"],
        "slices": COMMON + [S_readInfinity_rat if rat else S_readInfinity], "min_obligations": 30, "tier": "quick",
        "mutants": [{"name": "sign", "slice": "LPFreadInfinity%s.inc" % sfx, "find": "(*pos == '-') ? -1", "replace": "(*pos == '+') ? -1"},
                    {"name": "no_advance", "slice": "LPFreadInfinity%s.inc" % sfx, "find": "LPFhasKeyword(++pos,", "replace": "LPFhasKeyword(pos,"}],
    }
    if rat:
        d["defines"]["RAT_TWIN"] = ""
        d["constants"] = CONSTS_RAT
        d["rmode"] = "Rational modelled as a double wrapper (constructed from +-1 and from `infinity`, one product)"
    return d


instances.append(read_infinity(False))
instances.append(read_infinity(True))

# ---- LPFreadValue -------------------------------------------------------------------------------------------------------
TOKCAP = 16


def read_value(name, tokcap, extra_defs, tier, desc_extra):
    return {
        "name": name,
        "function": "LPFreadValue<R>(char*& pos, SPxOut* spxout)  [spxlpbase_real.hpp]" + desc_extra,
        "defines": dict({"INST_readValue": "", "TOKCAP": str(tokcap)}, **extra_defs),
        "harness": "h_readValue", "enforce": "w_readValue",
        "slices": COMMON + [S_readValue],
        "loops": [
            {"function": "LPFreadValue", "loop": 0, "locals": ["s", "has_digits"], "invariants": scan_inv(0),
             "assigns": ["s", "has_digits"], "decreases": "g_len - %s" % S_OFF},
            {"function": "LPFreadValue", "loop": 1, "locals": ["s", "has_digits"], "invariants": scan_inv(1),
             "assigns": ["s", "has_digits"], "decreases": "g_len - %s" % S_OFF},
            {"function": "LPFreadValue", "loop": 2, "locals": ["s", "has_digits", "has_emptyexponent"], "invariants": scan_inv(2),
             "assigns": ["s", "has_emptyexponent"], "decreases": "g_len - %s" % S_OFF},
        ],
        # The copy loop `for(t = tmp; pos != s; pos++) *t++ = *pos;` WRITES through a pointer it advances; a loop contract would havoc
        # that pointer and every write through it becomes a case split over all objects (does not fit in memory).  It runs once per
        # token character and the token is shorter than TOKCAP (precondition, ghost witness g_w), so it is unwound completely
        # (with unwinding assertion).
        "unwind": tokcap + 1,
        "unwind_loops": [{"function": "LPFreadValue", "loop": 3}],
        "min_obligations": 100,
        "tier": tier,
        "mutants": [
            {"name": "no_terminator", "slice": "LPFreadValue.inc", "find": "*t = '\\0';", "replace": "*t = '0';"},
            {"name": "sign", "slice": "LPFreadValue.inc", "find": "value = (*pos == '-') ? -1.0 : 1.0;", "replace": "value = (*pos == '+') ? -1.0 : 1.0;"},
            {"name": "blank", "slice": "LPFreadValue.inc", "find": "if(LPFisSpace(*pos))\n      pos++;", "replace": "pos++;"},
            {"name": "drop_char", "slice": "LPFreadValue.inc", "find": "for(t = tmp; pos != s; pos++)", "replace": "for(t = tmp, pos++; pos != s; pos++)"},
        ],
    }


# NOT REGISTERED (kept for the record, see "not under contract" in props/C13.json): neither variant can be discharged within the
# time/memory budget.  The copy loop writes through a pointer it advances; under a loop contract the havoc'd pointer makes every
# write a case split over all objects (> 40 GB), and complete unwinding of four consecutive pointer-walking loops gives SAT
# instances that do not finish in 10 minutes even for tokens shorter than 6 characters.
# instances.append(read_value("readValue", TOKCAP, {}, "quick", " for tokens shorter than %d characters" % TOKCAP))
# instances.append(read_value("readValue_scaled", 24, {"SCALED_MAXLEN": "16"}, "thorough", " SCALED: SOPLEX_LPF_MAX_LINE_LEN set to 16"))

# ---- LPFreadColName -----------------------------------------------------------------------------------------------------
def read_colname(rat):
    sfx = "_rat" if rat else ""
    d = {
    "name": "readColName",
    "function": "LPFreadColName<R>(char*& pos, NameSet* colnames, LPColSetBase<R>& colset, const LPColBase<R>* emptycol, SPxOut* spxout)  [spxlpbase_real.hpp]",
    "defines": {"INST_readColName": "", "STRCHR_LIT": ""},
    "harness": "h_readColName", "enforce": "w_readColName",
    "slices": COMMON + [S_readColName],
    "loops": [
        {"function": "LPFreadColName", "loop": 0, "locals": ["s"],
         "invariants": [
             IN("s"),
             "g_off <= %s && %s <= g_len" % (S_OFF, S_OFF),
             "(%s > g_off) ==> (s[-1] != ' ' && s[-1] != 0)" % S_OFF,
             "(g_off + g_k < %s) ==> (!%s && v_k != 0)" % (S_OFF, DELIM("v_k")),
         ],
         "assigns": ["s"], "decreases": "g_len - %s" % S_OFF},
        {"function": "LPFreadColName", "loop": 1, "locals": ["s", "i", "name"],
         "invariants": [
             IN("*gpp_pos"),
             "g_off <= %s && %s <= %s" % (POS_OFF, POS_OFF, S_OFF),
             "i == %s - g_off" % POS_OFF,
             "(g_k < i) ==> name[g_k] == v_k",
         ],
         "assigns": ["i", "*gpp_pos", "__CPROVER_object_whole(name)"], "decreases": "%s - %s" % (S_OFF, POS_OFF)},
    ],
    "min_obligations": 100,
    "tier": "quick",
    "mutants": [
        {"name": "no_terminator", "slice": "LPFreadColName.inc", "find": "name[i] = '\\0';", "replace": "name[i] = '0';"},
        {"name": "unknown_added", "slice": "LPFreadColName.inc", "find": "if(emptycol == nullptr)", "replace": "if(emptycol != nullptr)"},
        {"name": "index", "slice": "LPFreadColName.inc", "find": "colidx = colnames->num();", "replace": "colidx = colnames->num() - 1;"},
        {"name": "old_stack_buffer", "slice": "LPFreadColName.inc", "regex": True,
         "find": r"std::vector<char>\s+namebuf\(size_t\(s - pos\) \+ 1\);\s*char\*\s+name = namebuf\.data\(\);", "replace": "char name[SOPLEX_LPF_MAX_LINE_LEN];"},
        {"name": "one_byte_short", "slice": "LPFreadColName.inc", "find": "namebuf(size_t(s - pos) + 1)", "replace": "namebuf(size_t(s - pos))"},
    ],
}
    d["name"] += sfx
    d["flags"] = ["--bounds-check", "--pointer-check", "--signed-overflow-check", "--conversion-check", "--no-malloc-may-fail", "--sat-solver", "cadical"]
    d["timeout_s"] = 600       # the instance itself needs ~30 s; the old_stack_buffer mutant (several solver rounds) needs 200-400 s
    if rat:
        d["function"] = "LPFreadColName(char*& pos, NameSet* colnames, LPColSetBase<Rational>& colset, const LPColBase<Rational>* emptycol, SPxOut* spxout)  [spxlpbase_rational.hpp]"
        d["defines"]["RAT_TWIN"] = ""
        d["constants"] = CONSTS_RAT
        d["slices"] = COMMON + [S_readColName_rat]
        for m in d["mutants"]:
            m["slice"] = "LPFreadColName_rat.inc"
    return d


instances.append(read_colname(False))
instances.append(read_colname(True))

# ---- LPFhasRowName ------------------------------------------------------------------------------------------------------
P_OFF = OFF("p")
instances.append({
    "name": "hasRowName",
    "function": "LPFhasRowName(char*& pos, NameSet* rownames)  [spxlpbase_real.hpp]",
    "defines": {"INST_hasRowName": "", "STRCHR_LINE": ""},
    "harness": "h_hasRowName", "enforce": "w_hasRowName",
    "slices": COMMON + [S_hasRowName],
    "loops": [
        {"function": "strchr", "loop": 0, "locals": ["p", "chr"],
         "invariants": [
             IN("p"),
             "g_off <= %s && %s <= g_len" % (P_OFF, P_OFF),
             "(g_off + g_k < %s) ==> (v_k != (char)chr && v_k != 0)" % P_OFF,
         ],
         "assigns": ["p"], "decreases": "g_len - %s" % P_OFF},
        {"function": "LPFhasRowName", "loop": 0, "locals": ["end", "dcolpos"],
         "invariants": ["-1 <= end && end <= dcolpos - 1"],
         "assigns": ["end"], "decreases": "end + 1"},
        {"function": "LPFhasRowName", "loop": 1, "locals": ["end", "srt"],
         "invariants": ["-1 <= srt && srt <= end - 1", "gp_line[g_off + srt + 1] != ' '"],
         "assigns": ["srt"], "decreases": "srt + 1"},
        {"function": "LPFhasRowName", "loop": 2, "locals": ["end", "srt", "i", "k", "name"],
         "invariants": ["srt <= i && i <= end + 1", "k == i - srt", "(k > 0) ==> name[0] == gp_line[g_off + srt]"],
         "assigns": ["i", "k", "__CPROVER_object_whole(name)"], "decreases": "end + 1 - i"},
    ],
    "min_obligations": 100,
    "tier": "quick",
    "mutants": [
        {"name": "behind_colon", "slice": "LPFhasRowName.inc", "find": "pos = &(pos[dcolpos + 1]);\n\n   return true;", "replace": "pos = &(pos[dcolpos + 2]);\n\n   return true;"},
        {"name": "blank_name", "slice": "LPFhasRowName.inc", "find": "// go back to the non-space character\n   srt++;", "replace": "// go back to the non-space character\n   srt += 0;"},
        {"name": "old_stack_buffer", "slice": "LPFhasRowName.inc", "regex": True,
         "find": r"std::vector<char>\s+namebuf\(size_t\(end - srt\) \+ 2\);\s*char\*\s+name = namebuf\.data\(\);", "replace": "char name[SOPLEX_LPF_MAX_LINE_LEN];"},
        {"name": "one_byte_short", "slice": "LPFhasRowName.inc", "find": "namebuf(size_t(end - srt) + 2)", "replace": "namebuf(size_t(end - srt) + 1)"},
        {"name": "underflow", "slice": "LPFhasRowName.inc", "find": "for(end = dcolpos - 1; end >= 0; end--)", "replace": "for(end = dcolpos - 1; end >= -1; end--)"},
    ],
})

kw_absent = r"LPFhasKeyword\(\s*(?:\+\+)?pos\s*,\s*\"(?!(?:%s)\")" % kw_alt

unit = {
    "property": ["C13"],
    "desc": "LP-format reader helpers (spxlpbase_real.hpp and the twins in spxlpbase_rational.hpp): real bodies on a symbolic NUL-terminated line that may be longer than SOPLEX_LPF_MAX_LINE_LEN; token-sized scratch buffers",
    "rmode": "double (IEEE, bit-precise) for LPFreadInfinity; the other helpers handle characters and ints only",
    "defines": {"CAP": str(CAP)},
    "replay": {"cpp": "replay.cpp", "extra_src": ["LIB"], "asan": True},
    # --no-malloc-may-fail: the std::vector stub allocates with malloc; a failing allocation is std::bad_alloc in the real code, not a NULL buffer
    "flags": ["--bounds-check", "--pointer-check", "--signed-overflow-check", "--conversion-check", "--no-malloc-may-fail"],
    "timeout_s": 280,
    "instrument_flags": ["--no-malloc-may-fail"],      # the malloc model is linked in by goto-instrument --dfcc, so the option is needed there as well
    "constants": [
        {"name": "SOPLEX_LPF_MAX_LINE_LEN", "file": HPP, "regex": r"#define\s+SOPLEX_LPF_MAX_LINE_LEN\s+(\d+)"},
        {"name": "SOPLEX_DEFAULT_INFINITY", "file": "src/soplex/spxdefines.h", "regex": r"typedef\s+double\s+Real;.*?#define\s+SOPLEX_DEFAULT_INFINITY\s+([0-9.eE+-]+)\s*\n"},
    ],
    "conformance": [
        {"file": HPP, "regex": kw_absent, "absent": True,
         "why": "every keyword literal handed to LPFhasKeyword in spxlpbase_real.hpp has its own hasKeyword_* instance"},
        {"file": "src/soplex/spxlpbase_rational.hpp", "regex": kw_absent, "absent": True,
         "why": "the rational reader hands LPFhasKeyword the same keyword literals"},
        {"file": "src/soplex/nameset.h", "regex": r"int\s+number\(const\s+char\*\s+str\)\s+const", "why": "NameSet stub: number(const char*) const"},
        {"file": "src/soplex/nameset.h", "regex": r"void\s+add\(const\s+char\*\s+str\);", "why": "NameSet stub: add(const char*)"},
        {"file": "src/soplex/nameset.h", "regex": r"int\s+num\(\)\s+const", "why": "NameSet stub: num() const"},
        {"file": "src/soplex/nameset.h", "regex": r"int\s+number\(const\s+char\*\s+str\)\s+const\s*\{.*?else\s+return\s+-1;\s*\}", "why": "NameSet::number returns -1 for unknown names"},
        {"file": "src/soplex/lpcolsetbase.h", "regex": r"void\s+add\(const\s+LPColBase<R>&\s+pcol\)", "why": "LPColSetBase stub: add(const LPColBase<R>&)"},
        {"file": "src/soplex/spxdefines.cpp", "regex": r"const\s+Real\s+infinity\s*=\s*SOPLEX_DEFAULT_INFINITY;", "why": "infinity is SOPLEX_DEFAULT_INFINITY"},
    ],
    "trusted": [
        "C library models in unit.cpp: tolower (glibc table domain -128..255 asserted, \"C\" locale mapping), strchr (first occurrence or NULL)",
        "NameSet::number/num/add and LPColSetBase::add are ghost-recording stubs: they record the bytes they are handed at the ghost indices and return unconstrained values (NameSet::number assumed to return -1..num()-1, its documented range)",
        "logging dropped: SPX_MSG_WARNING expands to nothing, SPxOut::debug is an empty stub; assert() compiled out (NDEBUG semantics)",
        "std::vector<char> stub: vector(n) is a malloc object of exactly n bytes with unconstrained contents (the real one is zero-filled), data() its address, no destructor; allocation failure (std::bad_alloc in the real code) is not modelled (--no-malloc-may-fail)",
        "line buffer capped at CAP=%d bytes (> SOPLEX_LPF_MAX_LINE_LEN); loop contracts are inductive, the cap bounds the object size only" % CAP,
        "complete unwinding (with unwinding assertions) instead of a loop contract: LPFhasKeyword for the bracket-free keyword \"end\" (bounded by the length of the literal); the keywords with optional sections carry loop contracts generated from the literal's structure; strchr on string literals is written out loop-free for literals of up to 24 characters (asserted)",
        "LPFreadInfinity is proved against the contract of its callee LPFhasKeyword (pos stays inside the line and does not move backwards), which the hasKeyword_inf instance proves for the literal \"inf[inity]\"",
        "R = double; `infinity` is SOPLEX_DEFAULT_INFINITY extracted from spxdefines.h",
    ],
    "instances": instances,
}
json.dump(unit, open(os.path.join(os.path.dirname(os.path.abspath(__file__)), "unit.json"), "w"), indent=1)
print("%d instances" % len(instances))
