/* Native replay for the lpf_helpers unit: runs the REAL static helpers of soplex/spxlpbase_real.hpp (reached through
 * soplex/spxlpbase.h) on a line built from the counterexample, in an exactly sized heap buffer, under AddressSanitizer.
 *
 * The proof obligations that fail for the copy loops are inductive (loop contracts), so the verifier's trace fixes the
 * sizes (n, len, off) but not every byte of the token.  The driver therefore takes len/off from the counterexample and
 * fills the token with the instance's canonical character ('x' for a column name, 'r' + ':' for a row name); a keyword
 * instance gets the shortest text that matches the keyword including its LAST optional section, followed by ']'.
 * A sanitizer report (or exit code 1) = the real code violates the obligation. */
#include <replay_util.h>
#include <cstring>
#include <string>
#include "soplex/spxlpbase.h"

using namespace soplex;

/* the text that matches every mandatory character and the last optional section of `kw` completely, then ']' */
static std::string keywordProbe(const std::string& kw)
{
   std::string out;
   size_t lastOpen = kw.rfind('[');
   bool inside = false;

   for(size_t i = 0; i < kw.size(); i++)
   {
      if(kw[i] == '[')
         inside = true;
      else if(kw[i] == ']')
         inside = false;
      else if(!inside || i > lastOpen)
         out += kw[i];
   }

   return out + "]";
}

int main(int argc, char** argv)
{
   if(argc < 3)
      return 2;

   ReplayIn in(argv[1]);
   std::string inst = argv[2];
   long long len = in.geti("len", 9000), off = in.geti("off", 0);

   if(len < 0 || off < 0 || off > len || len > 100000000)
      return 2;

   std::string text;

   if(inst == "readColName" || inst == "readColName_rat")
      text = std::string((size_t)(len - off), 'x');
   else if(inst == "hasRowName")
      text = (len - off >= 1) ? std::string((size_t)(len - off - 1), 'r') + ":" : std::string();
   else if(inst.compare(0, 11, "hasKeyword_") == 0)
   {
      static const char* kws[][2] =
      {
         {"max", "max[imize]"}, {"min", "min[imize]"}, {"subject_to", "s[ubject][   ]t[o]"}, {"such_that", "s[uch][    ]t[hat]"},
         {"st", "s[.][    ]t[.]"}, {"lazy", "lazy con[straints]"}, {"bounds", "bound[s]"}, {"binary", "bin[ary]"},
         {"binaries", "bin[aries]"}, {"generals", "gen[erals]"}, {"integers", "int[egers]"}, {"end", "end"}, {"inf", "inf[inity]"}
      };
      std::string kw;

      for(auto& k : kws)
         if(inst.substr(11) == k[0])
            kw = k[1];

      if(kw.empty())
         return 2;

      text = keywordProbe(kw);
      std::cout << "LPFhasKeyword(\"" << text << "\", \"" << kw << "\")" << std::endl;
      char* line = new char[text.size() + 1];      /* exactly strlen+1 bytes */
      std::memcpy(line, text.c_str(), text.size() + 1);
      char* pos = line;
      char* kwbuf = new char[kw.size() + 1];       /* the keyword in an exactly sized heap buffer as well */
      std::memcpy(kwbuf, kw.c_str(), kw.size() + 1);
      bool r = LPFhasKeyword(pos, kwbuf);
      std::cout << "returned " << r << ", pos advanced by " << (pos - line) << std::endl;

      if(pos < line || pos > line + text.size())
         REPLAY_FAIL("pos left the line");

      delete[] line;
      delete[] kwbuf;
      REPLAY_OK();
   }
   else
   {
      std::cout << "no native replay for instance " << inst << std::endl;
      return 0;
   }

   size_t total = (size_t)off + text.size();
   char* line = new char[total + 1];               /* exactly strlen+1 bytes: ASan sees any access outside */
   std::memset(line, ' ', (size_t)off);
   std::memcpy(line + off, text.c_str(), text.size() + 1);
   char* pos = line + off;

   if(inst == "readColName")
   {
      std::cout << "LPFreadColName on a name of " << text.size() << " characters" << std::endl;
      NameSet names;
      LPColSetBase<double> colset;
      LPColBase<double> emptycol;
      int idx = LPFreadColName<double>(pos, &names, colset, in.geti("have_empty", 1) ? &emptycol : nullptr, nullptr);
      std::cout << "returned " << idx << ", pos advanced by " << (pos - line - off) << std::endl;
   }
   else if(inst == "readColName_rat")
   {
      std::cout << "LPFreadColName (spxlpbase_rational.hpp) on a name of " << text.size() << " characters" << std::endl;
      NameSet names;
      LPColSetBase<Rational> colset;
      LPColBase<Rational> emptycol;
      int idx = LPFreadColName(pos, &names, colset, in.geti("have_empty", 1) ? &emptycol : nullptr, nullptr);
      std::cout << "returned " << idx << ", pos advanced by " << (pos - line - off) << std::endl;
   }
   else
   {
      std::cout << "LPFhasRowName on a row name of " << (text.empty() ? 0 : text.size() - 1) << " characters" << std::endl;
      NameSet names;
      bool r = LPFhasRowName(pos, in.geti("have_names", 1) ? &names : nullptr);
      std::cout << "returned " << r << ", pos advanced by " << (pos - line - off) << std::endl;
   }

   if(pos < line || pos > line + total)
      REPLAY_FAIL("pos left the line");

   delete[] line;
   REPLAY_OK();
}
