/* C16 interrupt chain: ghost call ledger shared by unit.cpp (C++) and contract.c (C).
 * Every stubbed callee is a recorder: it bumps the counter of its kind, remembers its position in the call sequence and its
 * (boolean / enum) argument.  Callees that take the `volatile bool* interrupt` additionally remember the pointer they were
 * handed and count every call whose pointer is NOT the one the function under contract received (k_bad). */
#ifndef IC_GHOST_H
#define IC_GHOST_H
#ifdef __cplusplus
extern "C" {
#endif
enum ic_kind
{
   K_none = 0,
   /* links of the chain (take the interrupt pointer) */
   K_OPTIMIZE,        /* SoPlexBase::_optimize(interrupt)                          */
   K_OPTRAT,          /* SoPlexBase::_optimizeRational(interrupt)                  */
   K_PREPROC,         /* SoPlexBase::_preprocessAndSolveReal(bool, interrupt)      */
   K_SOLVELP,         /* SoPlexBase::_solveRealLPAndRecordStatistics(interrupt)    */
   K_BSOLVELP,        /* SoPlexBase::_solveBoostedRealLPAndRecordStatistics(interrupt) */
   K_SOLVE,           /* _solver.solve(interrupt, polish)                          */
   K_BSOLVE,          /* _boostedSolver.solve(interrupt, polish)                   */
   /* other recorded callees */
   K_CLEARSTAT, K_INVALSOL, K_SYNCRAT, K_SETBOOSTED,
   K_TSTART, K_TSTOP, K_SCALE, K_UNSCALELP, K_INVALBASIS, K_BASISMETRIC,
   K_ENABLESIMP, K_DISABLESIMP, K_SIMPLIFY, K_EVALSOL, K_LOADLP, K_SETBASIS, K_SETVALUE, K_TOGGLEVALUE, K_OBJOFF,
   K_SETITER, K_SETTIME, K_BSETITER, K_BSETTIME, K_LUCLEAR, K_OTHER,
   NKIND
};
extern const void* g_interrupt;        /* the interrupt pointer the function under contract received (set by the wrapper) */
extern int         g_nev;              /* number of recorded calls                                                        */
extern int         k_cnt[NKIND];       /* calls per kind                                                                  */
extern int         k_seq[NKIND];       /* position (1, 2, ..) of the LAST call of that kind                               */
extern int         k_arg[NKIND];       /* scalar argument of the LAST call of that kind                                   */
extern int         k_bad[NKIND];       /* calls of that kind whose interrupt argument differed from g_interrupt           */
extern const void* k_ptr[NKIND];       /* interrupt argument of the LAST call of that kind                                */
extern const void* k_this[NKIND];      /* object the LAST call of that kind was made on                                   */
extern int         g_threw;            /* the solve stub "threw" (arbitrary)                                              */
extern int         g_exc_is_spx;       /* .. an SPxException (else: something only catch(...) takes)                      */
extern int         g_pending;          /* an exception is in flight                                                       */
extern int         g_status_out;       /* _status as left behind by the last callee that may solve                        */
extern int         g_simp_result;      /* what _simplifier->simplify() returned (or OKAY when there is no simplifier)     */
#ifdef __cplusplus
}
#endif
#endif
