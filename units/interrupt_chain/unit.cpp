/* C16, interrupt chain: the caller's `volatile bool* interrupt` must reach the simplex loop.
 *   SoPlexBase<R>::optimize                        (src/soplex.hpp)            -> _optimize / _optimizeRational
 *   SoPlexBase<R>::_optimize                       (src/soplex/solvereal.hpp)  -> _preprocessAndSolveReal
 *   SoPlexBase<R>::_preprocessAndSolveReal         (src/soplex/solvereal.hpp)  -> _solveRealLPAndRecordStatistics
 *   SoPlexBase<R>::_solveRealLPAndRecordStatistics (src/soplex.hpp)            -> _solver.solve
 *   SoPlexBase<R>::_solveBoostedRealLPAndRecordStatistics (src/soplex.hpp)     -> _boostedSolver.solve
 * Each body is #included WHOLE and verbatim (slice of the current tree) as `body_*()` of ONE host struct, at R = BP = double.
 * The host carries every member of SoPlexBase the bodies touch (and a good many more, so that a changed body still compiles)
 * under its real name; every callee - including the five chain functions themselves under their real names and with the real
 * DEFAULT ARGUMENTS (conformance-checked) - is a recorder, see ic_ghost.h.  Nothing numerical is modelled: all values the
 * bodies read are arbitrary, all callees that may solve leave arbitrary state behind. */
#include "verif.h"
#include "constants.h"
#include "ic_ghost.h"
typedef double R;
typedef double Real;
typedef double BP;
typedef unsigned int uint32_t;
/* spxdefines.cpp: `const Real infinity = SOPLEX_DEFAULT_INFINITY;` (value extracted into constants.h); only used as a default argument */
static const Real infinity = VERIF_SOPLEX_INFINITY;
#define SOPLEX_HYPERPRICINGTHRESHOLD VERIF_HYPERPRICINGTHRESHOLD

#define SPX_MSG_INFO1(...)
#define SPX_MSG_INFO2(...)
#define SPX_MSG_INFO3(...)
#define SPX_MSG_WARNING(...)
#define SPX_MSG_ERROR(...)
#define SPX_MSG_DEBUG(...)
#define SPX_DEBUG(...)

/* ---- recorders ------------------------------------------------------------------------------------------------------- */
static inline void kev(int kind, int arg = 0, const void* obj = 0)
{
   g_nev = g_nev + 1;
   k_cnt[kind] = k_cnt[kind] + 1; k_seq[kind] = g_nev; k_arg[kind] = arg; k_this[kind] = obj;
}
/* a callee that takes the interrupt pointer */
static inline void kevp(int kind, volatile bool* interrupt, int arg = 0, const void* obj = 0)
{
   kev(kind, arg, obj);
   k_ptr[kind] = (const void*)interrupt;
   if((const void*)interrupt != g_interrupt)
      k_bad[kind] = k_bad[kind] + 1;
}

/* ---- exceptions: CBMC's C++ front end has none (README 13, 17).
 *   try { S; } catch(const SPxException& E) { H1 } catch(...) { H2 }
 * is compiled as  { S; } if(verif_catch(false)) { H1 } if(verif_catch(true)) { H2 }  where the solve stub - the ONLY statement
 * of the try block (model_depends_on) - decides arbitrarily whether it threw and whether what it threw is an SPxException;
 * the first handler that matches consumes the exception.  g_pending != 0 at the end = an exception escaped. */
struct SPxException { const char* what() const { return ""; } };
static inline bool verif_catch(bool catch_all)
{
   if(!g_pending) return false;
   if(catch_all || g_exc_is_spx) { g_pending = 0; return true; }
   return false;
}
#define try
#define catch(decl) if(verif_catch(sizeof(#decl) == sizeof("...")))

/* ---- names-only templates serving the qualified names used by the bodies (enumerations extracted from the tree) ------- */
template <class T> struct SPxSimplifier
{
#include "SimplifierResult.inc"
};
template <class T> struct SPxSolverBase
{
#include "SolverStatus.inc"
#include "VarStatus.inc"
#include "SolverType.inc"
#include "SolverRep.inc"
#include "SolverPricing.inc"
#include "SolutionPolish.inc"
};
template <class T> struct SPxBasisBase
{
#include "SPxStatus.inc"
};
template <class T> struct SoPlexBase
{
#include "BoolParam.inc"
#include "IntParam.inc"
#include "RealParam.inc"
#include "IntValues.inc"
};
typedef SPxSolverBase<R>::Status Status_t;

/* ---- stub classes ---------------------------------------------------------------------------------------------------- */
struct SettingsStub
{
   bool _boolParamValues[SoPlexBase<R>::BOOLPARAM_COUNT];
   int _intParamValues[SoPlexBase<R>::INTPARAM_COUNT];
   Real _realParamValues[SoPlexBase<R>::REALPARAM_COUNT];
   /* real: `static struct RealParam { .. Real lower[REALPARAM_COUNT]; Real upper[..]; .. } realParam;` (and intParam, boolParam) */
   struct RP { Real defaultValue[SoPlexBase<R>::REALPARAM_COUNT]; Real lower[SoPlexBase<R>::REALPARAM_COUNT]; Real upper[SoPlexBase<R>::REALPARAM_COUNT]; } realParam;
   struct IP { int defaultValue[SoPlexBase<R>::INTPARAM_COUNT]; int lower[SoPlexBase<R>::INTPARAM_COUNT]; int upper[SoPlexBase<R>::INTPARAM_COUNT]; } intParam;
};

struct Timer
{
   Real t; int id;
   void start() { kev(K_TSTART, id, this); }
   Real stop() { kev(K_TSTOP, id, this); return t; }
   Real time() const { return t; }
   void reset() { kev(K_OTHER); }
};

struct StatStub
{
   Timer* readingTime; Timer* solvingTime; Timer* preprocessingTime; Timer* simplexTime; Timer* syncTime; Timer* transformTime;
   Timer* rationalTime; Timer* initialPrecisionTime; Timer* extendedPrecisionTime; Timer* reconstructionTime; Timer* boostingStepTime;
   Real multTimeSparse, multTimeFull, multTimeColwise, multTimeUnsetup;
   int multSparseCalls, multFullCalls, multColwiseCalls, multUnsetupCalls;
   Real luFactorizationTimeReal, luSolveTimeReal, luFactorizationTimeRational, luSolveTimeRational, fpTime;
   int iterations, iterationsPrimal, iterationsFromBasis, iterationsPolish, iterationsFP, boundflips;
   int boostedIterations, boostedIterationsPrimal, boostedIterationsFromBasis, boostedIterationsPolish, boostedBoundflips;
   int luFactorizationsReal, luSolvesReal, luFactorizationsRational, rationalReconstructions;
   int refinements, stallRefinements, pivotRefinements, feasRefinements, unbdRefinements;
   int precBoosts, stallPrecBoosts, pivotPrecBoosts, feasPrecBoosts, unbdPrecBoosts;
   int degenPivotsPrimal, degenPivotsDual, degenPivotCandPrimal, degenPivotCandDual;
   R sumDualDegen, sumPrimalDegen, totalBoundViol, totalRowViol, maxBoundViol, maxRowViol;
   R finalBasisCondition;
   void clearSolvingData() { kev(K_CLEARSTAT, 0, this); }
   void clearAllData() { kev(K_OTHER); }
};

struct TolStub
{
   Real s_floating_point_feastol, s_floating_point_opttol, s_epsilon;
   Real floatingPointFeastol() { return s_floating_point_feastol; }
   Real floatingPointOpttol() { return s_floating_point_opttol; }
   void setFloatingPointFeastol(Real ftol) { s_floating_point_feastol = ftol; }
   void setFloatingPointOpttol(Real otol) { s_floating_point_opttol = otol; }
   Real epsilon() { return s_epsilon; }
};

/* an LP (the real SPxLPBase<R>): only "is it scaled" and identity matter to the bodies.  NOT a class template: the front end
 * cannot resolve the explicit destructor call `_realLP->~SPxLPBase<R>()` on a template-id (nor on a typedef name), see below. */
struct LPStub
{
   bool _isScaled;
   ~LPStub() {}                         /* non-virtual, empty: _preprocessAndSolveReal calls the destructor explicitly */
   bool isScaled() const { return _isScaled; }
   void setScalingInfo(bool scaled) { _isScaled = scaled; }
};
typedef LPStub LP_t;

struct RandomStub { uint32_t seed; uint32_t getSeed() const { return seed; } };
struct BasisStub
{
   int st;
   SPxBasisBase<R>::SPxStatus status() const { return (SPxBasisBase<R>::SPxStatus)st; }
};
struct StatArr
{
   int thesize; int tag;
   void reSize(int newsize) { thesize = newsize; }
   int size() const { return thesize; }
   int* get_ptr() { return &tag; }
   const int* get_const_ptr() const { return &tag; }
};

/* SPxSolverBase<R> object (`_solver`, `_boostedSolver`): every getter answers arbitrarily, every setter is recorded.
 * `which` = 0 for _solver, 1 for _boostedSolver. */
struct SolverStub : LPStub
{
   int which;
   int nr, nc;
   int theRep_, theType_;
   bool termValueEnabled;
   Real eps, maxTime_, now;
   RandomStub random;
   BasisStub bas;
   Timer* multTimeSparse; Timer* multTimeFull; Timer* multTimeColwise; Timer* multTimeUnsetup;
   int multSparseCalls, multFullCalls, multColwiseCalls, multUnsetupCalls;
   TolStub* tol;

   /* THE next link of the last two instances.  Real: virtual Status solve(volatile bool* interrupt = nullptr, bool polish = true) */
   Status_t solve(volatile bool* interrupt = nullptr, bool polish = true)
   {
      kevp(which ? K_BSOLVE : K_SOLVE, interrupt, polish, this);
      g_threw = nondet_bool(); g_exc_is_spx = nondet_bool(); g_pending = g_threw;
      return (Status_t)nondet_int();
   }
   void setTerminationIter(int iteration = -1) { kev(which ? K_BSETITER : K_SETITER, iteration, this); }
   void setTerminationTime(Real time = infinity) { kev(which ? K_BSETTIME : K_SETTIME, 0, this); }
   void setTerminationValue(R value = R(infinity)) { kev(K_SETVALUE, 0, this); }
   bool isTerminationValueEnabled() const { return termValueEnabled; }
   void toggleTerminationValue(bool enable) { kev(K_TOGGLEVALUE, enable, this); termValueEnabled = enable; }
   void setSolvingForBoosted(bool value) { kev(K_SETBOOSTED, value, this); }
   void changeObjOffset(const R& o) { kev(K_OBJOFF, 0, this); }
   void invalidateBasis() { kev(K_INVALBASIS, 0, this); }
   void unscaleLPandReloadBasis() { kev(K_UNSCALELP, 0, this); _isScaled = false; }
   R getBasisMetric(int type) { kev(K_BASISMETRIC, type, this); return nondet_double(); }
   void loadLP(const LP_t& LP, bool initSlackBasis = true) { kev(K_LOADLP, initSlackBasis, this); _isScaled = LP._isScaled; }
   void setBasis(const int* rows, const int* cols) { kev(K_SETBASIS, 0, this); }
   Status_t getBasis(int* rows, int* cols, const int rowsSize = -1, const int colsSize = -1) const { return (Status_t)nondet_int(); }
   const BasisStub& basis() const { return *(BasisStub*)&bas; }
   void setBasisStatus(SPxBasisBase<R>::SPxStatus stat) { kev(K_OTHER); }
   SPxBasisBase<R>::SPxStatus getBasisStatus() const { return (SPxBasisBase<R>::SPxStatus)bas.st; }
   Status_t status() const { return (Status_t)nondet_int(); }
   /* type invariant (trusted): dimensions are non-negative and below INT_MAX (the bodies compute nRows() + 1, nRows() + nCols()) */
   int nRows() const { __CPROVER_assume(0 <= nr && nr < 0x3fffffff); return nr; }
   int nCols() const { __CPROVER_assume(0 <= nc && nc < 0x3fffffff); return nc; }
   int dim() const { return nr; }
   R epsilon() const { return eps; }
   R shift() const { return nondet_double(); }
   R objValue() { return nondet_double(); }
   TolStub* tolerances() const { return tol; }
   Real getMaxTime() { return maxTime_; }
   Real time() const { return now; }
   Real cumulativeTime() const { return now; }
   int getMaxIters() { return nondet_int(); }
   bool isTimeLimitReached(const bool forceCheck = false) { return nondet_bool(); }
   SPxSolverBase<R>::Representation rep() const { return (SPxSolverBase<R>::Representation)theRep_; }
   SPxSolverBase<R>::Type type() const { return (SPxSolverBase<R>::Type)theType_; }
   void setRep(SPxSolverBase<R>::Representation p_rep) { kev(K_OTHER); theRep_ = (int)p_rep; }
   void setType(SPxSolverBase<R>::Type tp) { kev(K_OTHER); theType_ = (int)tp; }
   void setPricing(SPxSolverBase<R>::Pricing pr) { kev(K_OTHER); }
   void setSolutionPolishing(SPxSolverBase<R>::SolutionPolish _polishObj) { kev(K_OTHER); }
   void setSparsePricingFactor(R fac) { kev(K_OTHER); }
   void hyperPricing(bool h) { kev(K_OTHER); }
   void setNonzeroFactor(R f) { kev(K_OTHER); }
   void setFillFactor(R f) { kev(K_OTHER); }
   void setMemFactor(R f) { kev(K_OTHER); }
   void forceRecompNonbasicValue() { kev(K_OTHER); }
   void clearUpdateVecs() { kev(K_OTHER); }
   void reLoad() { kev(K_OTHER); }
   void init() { kev(K_OTHER); }
   int iterations() const { return nondet_int(); }
   int primalIterations() { return nondet_int(); }
   int dualIterations() { return nondet_int(); }
   int polishIterations() { return nondet_int(); }
   int boundFlips() const { return nondet_int(); }
   int dualDegeneratePivots() { return nondet_int(); }
   int primalDegeneratePivots() { return nondet_int(); }
   R sumDualDegeneracy() { return nondet_double(); }
   R sumPrimalDegeneracy() { return nondet_double(); }
};

struct SimplifierStub
{
   /* real: virtual Result simplify(LP_t& lp, Real remainingTime, bool keepbounds = false, uint32_t seed = 0) */
   SPxSimplifier<R>::Result simplify(LP_t& lp, Real remainingTime, bool keepbounds = false, uint32_t seed = 0)
   {
      kev(K_SIMPLIFY, keepbounds, this);
      g_simp_result = nondet_int();
      return (SPxSimplifier<R>::Result)g_simp_result;
   }
   R getObjoffset() const { return nondet_double(); }
   bool isUnsimplified() const { return nondet_bool(); }
   SPxSimplifier<R>::Result result() const { return (SPxSimplifier<R>::Result)nondet_int(); }
};
struct ScalerStub
{
   /* real: virtual void scale(LP_t& lp, bool persistent = true) */
   void scale(LP_t& lp, bool persistent = true) { kev(K_SCALE, persistent, this); lp._isScaled = nondet_bool(); }
   void unscale(LP_t& lp) { kev(K_OTHER); lp._isScaled = false; }
};
struct SolStub
{
   bool _isPrimalFeasible, _isDualFeasible, _hasPrimalRay, _hasDualFarkas;
   void invalidate() { kev(K_OTHER); _isPrimalFeasible = false; _isDualFeasible = false; _hasPrimalRay = false; _hasDualFarkas = false; }
   bool isPrimalFeasible() const { return _isPrimalFeasible; }
   bool isDualFeasible() const { return _isDualFeasible; }
};
struct SLUStub
{
   Real getFactorTime() const { return nondet_double(); }
   Real getSolveTime() const { return nondet_double(); }
   int getFactorCount() const { return nondet_int(); }
   int getSolveCount() const { return nondet_int(); }
   void resetCounters() { kev(K_OTHER); }
   void clear() { kev(K_OTHER); }
};
struct RatLUStub { void clear() { kev(K_LUCLEAR, 0, this); } };
struct SPxOutStub { int verbosity; };

/* allocation, placement new and explicit destructor call in _preprocessAndSolveReal (none of them exists under goto-cc / dfcc):
 *   spx_alloc(_realLP)                           -> _realLP = the spare LP object of the environment (distinct from &_solver)
 *   _realLP = new(_realLP) SPxLPBase<R>(_solver) -> _realLP = verif_pnew(_realLP, _solver): copies the LP part of _solver into *_realLP
 *   _realLP->~SPxLPBase<R>()                     -> _realLP->~LPStub()
 *   spx_free(_realLP)                            -> _realLP = nullptr (as the real spx_free does)
 * The two statements naming SPxLPBase<R> are rewritten by the preprocessor while the slice is included: `new(p)` becomes the
 * copy call followed by `(void)`, and `SPxLPBase` becomes `LPStub(), VerifNothing`, so that the leftovers read
 * `(void) LPStub(), VerifNothing<R>(_solver);` and `_realLP->~LPStub(), VerifNothing<R>();` (model_depends_on keeps the text). */
template <class T> struct VerifNothing { VerifNothing() {} VerifNothing(const LPStub&) {} };
static inline LP_t* verif_pnew(LP_t* p, const LP_t& src) { p->_isScaled = src._isScaled; return p; }

/* ---- the host ---------------------------------------------------------------------------------------------------------- */
struct Host : SoPlexBase<R>
{
   StatStub* _statistics;
   SettingsStub* _currentSettings;
   TolStub* _tolerances;
   SPxOutStub spxout;
   SolverStub _solver;
   SolverStub _boostedSolver;
   SLUStub _slufactor;
   RatLUStub _rationalLUSolver;
   LP_t* _realLP;
   SimplifierStub* _simplifier;
   ScalerStub* _scaler;
   bool _isRealLPLoaded, _isRealLPScaled, _applyPolishing, _hasBasis, _hasSolReal, _hasSolRational;
   bool _isBoostedStartingFromSlack, _hasOldBasis, _switchedToBoosted;
   Status_t _status;
   int _lastSolveMode, _optimizeCalls, _unscaleCalls;
   SolStub _solReal;
   StatArr _basisStatusRows, _basisStatusCols;
   /* verification-only members */
   LP_t* verif_spare_lp; SimplifierStub* verif_simp; ScalerStub* verif_scal;
   int verif_nrows, verif_ncols;

   TolStub* tolerances() const { return _tolerances; }
   bool boolParam(const BoolParam param) const
   {
#include "boolParam.inc"
   }
   int intParam(const IntParam param) const
   {
#include "intParam.inc"
   }
   Real realParam(const RealParam param) const
   {
#include "realParam.inc"
   }
   Status_t status() const
   {
#include "status.inc"
   }
   int numRows() const { return verif_nrows; }
   int numCols() const { return verif_ncols; }
   int numRowsRational() const { return verif_nrows; }
   int numColsRational() const { return verif_ncols; }
   bool hasBasis() const { return _hasBasis; }
   bool _isConsistent() const { return true; }
   bool areLPsInSync(const bool checkVecVals = true, const bool checkMatVals = false, const bool quiet = false) const { return nondet_bool(); }
   void printShortStatistics(int) { kev(K_OTHER); }
   void _checkBasisScaling() { kev(K_OTHER); }
   void _checkScaling(LP_t* origLP) const { kev(K_OTHER); }
   bool _reapplyPersistentScaling() const { return nondet_bool(); }
   bool _isSolveStopped(bool& stoppedTime, bool& stoppedIter) const { stoppedTime = nondet_bool(); stoppedIter = nondet_bool(); return stoppedTime || stoppedIter; }
   void clearBasis() { kev(K_OTHER); _hasBasis = false; }

   /* a callee that may run a complete solve: everything a solve rewrites is arbitrary afterwards */
   void havoc()
   {
      _status = (Status_t)nondet_int(); g_status_out = (int)_status;
      _hasBasis = nondet_bool(); _applyPolishing = nondet_bool(); _isRealLPLoaded = nondet_bool(); _isRealLPScaled = nondet_bool();
      _hasSolReal = nondet_bool(); _hasSolRational = nondet_bool();
   }
   void _invalidateSolution() { kev(K_INVALSOL, 0, this); _hasSolReal = false; _hasSolRational = false; }
   void _syncLPRational(bool time = true) { kev(K_SYNCRAT, time, this); }
   void _syncLPReal(bool time = true) { kev(K_OTHER); }
   /* the chain, under the real names and with the real default arguments (conformance-checked against src/soplex.h) */
   Status_t optimize(volatile bool* interrupt = nullptr) { kevp(K_OTHER, interrupt); havoc(); return _status; }
   void _optimize(volatile bool* interrupt = nullptr) { kevp(K_OPTIMIZE, interrupt, 0, this); havoc(); }
   void _optimizeRational(volatile bool* interrupt = nullptr) { kevp(K_OPTRAT, interrupt, 0, this); havoc(); }
   void _preprocessAndSolveReal(bool applyPreprocessing, volatile bool* interrupt = nullptr) { kevp(K_PREPROC, interrupt, applyPreprocessing, this); havoc(); }
   void _solveRealLPAndRecordStatistics(volatile bool* interrupt = nullptr) { kevp(K_SOLVELP, interrupt, 0, this); havoc(); }
   void _solveBoostedRealLPAndRecordStatistics(volatile bool* interrupt = nullptr) { kevp(K_BSOLVELP, interrupt, 0, this); havoc(); }
   /* neighbours of the chain */
   void _evaluateSolutionReal(SPxSimplifier<R>::Result simplificationStatus) { kev(K_EVALSOL, (int)simplificationStatus, this); havoc(); }
   void _resolveWithoutPreprocessing(SPxSimplifier<R>::Result simplificationStatus) { kev(K_OTHER); havoc(); }
   void _storeSolutionReal(bool verify = true) { kev(K_OTHER); havoc(); }
   void _storeSolutionRealFromPresol() { kev(K_OTHER); havoc(); }
   void _verifySolutionReal() { kev(K_OTHER); havoc(); }
   void _verifyObjLimitReal() { kev(K_OTHER); havoc(); }
   void _loadRealLP(bool initBasis) { kev(K_OTHER); _isRealLPLoaded = true; _realLP = &_solver; }
   /* real bodies pick SPxMainSM / the configured scaler or nullptr according to SIMPLIFIER / SCALER: arbitrary here */
   void _enableSimplifierAndScaler()
   {
      kev(K_ENABLESIMP, 0, this);
      _simplifier = nondet_bool() ? verif_simp : (SimplifierStub*)nullptr;
      _scaler = nondet_bool() ? verif_scal : (ScalerStub*)nullptr;
   }
   void _disableSimplifierAndScaler()
   {
      kev(K_DISABLESIMP, 0, this);
      _simplifier = nullptr;
      _scaler = nondet_bool() ? verif_scal : (ScalerStub*)nullptr;
   }

#ifdef INST_OPTIMIZE
   SPxSolverBase<R>::Status body_optimize(volatile bool* interrupt)
   {
#include "optimize.inc"
   }
#endif
#ifdef INST_OPT
   void body__optimize(volatile bool* interrupt)
   {
#include "_optimize.inc"
   }
#endif
#ifdef INST_PRE
   void body__preprocessAndSolveReal(bool applySimplifier, volatile bool* interrupt)
   {
#define spx_alloc(p) ((p) = verif_spare_lp)
#define spx_free(p) ((p) = nullptr)
#define new(p) verif_pnew(p, _solver); (void)
#define SPxLPBase LPStub(), VerifNothing
#include "_preprocessAndSolveReal.inc"
#undef SPxLPBase
#undef new
#undef spx_free
#undef spx_alloc
   }
#endif
#ifdef INST_SOLVELP
   void body__solveRealLP(volatile bool* interrupt)
   {
#include "_solveRealLPAndRecordStatistics.inc"
   }
#endif
#ifdef INST_BSOLVELP
   void body__solveBoostedRealLP(volatile bool* interrupt)
   {
#include "_solveBoostedRealLPAndRecordStatistics.inc"
   }
#endif
};

/* ---- environment: automatic objects only, everything not set below is arbitrary --------------------------------------- */
struct Env
{
   SettingsStub set; StatStub st; Timer tm[20]; TolStub tol; LP_t otherlp; LP_t sparelp; SimplifierStub simp; ScalerStub scal;
   Host h;
   void wire(int haveSimplifier, int haveScaler)
   {
      st.readingTime = &tm[0]; st.solvingTime = &tm[1]; st.preprocessingTime = &tm[2]; st.simplexTime = &tm[3]; st.syncTime = &tm[4];
      st.transformTime = &tm[5]; st.rationalTime = &tm[6]; st.initialPrecisionTime = &tm[7]; st.extendedPrecisionTime = &tm[8];
      st.reconstructionTime = &tm[9]; st.boostingStepTime = &tm[10];
      tm[1].id = 1; tm[2].id = 2; tm[3].id = 3;
      h._statistics = &st; h._currentSettings = &set; h._tolerances = &tol;
      h._solver.which = 0; h._boostedSolver.which = 1;
      h._solver.tol = &tol; h._boostedSolver.tol = &tol;
      h._solver.multTimeSparse = &tm[11]; h._solver.multTimeFull = &tm[12]; h._solver.multTimeColwise = &tm[13]; h._solver.multTimeUnsetup = &tm[14];
      h._boostedSolver.multTimeSparse = &tm[15]; h._boostedSolver.multTimeFull = &tm[16]; h._boostedSolver.multTimeColwise = &tm[17];
      h._boostedSolver.multTimeUnsetup = &tm[18];
      h.verif_spare_lp = &sparelp; h.verif_simp = &simp; h.verif_scal = &scal;
      h._simplifier = haveSimplifier ? &simp : (SimplifierStub*)nullptr;
      h._scaler = haveScaler ? &scal : (ScalerStub*)nullptr;
      /* type invariant of SoPlexBase: the real LP is loaded <=> _realLP == &_solver */
      h._realLP = h._isRealLPLoaded ? (LP_t*)&h._solver : &otherlp;
   }
};

#define PARAM_INT(p, v) e.set._intParamValues[SoPlexBase<R>::p] = (v)
#define PARAM_REAL(p, v) e.set._realParamValues[SoPlexBase<R>::p] = (v)
#define PARAM_BOOL(p, v) e.set._boolParamValues[SoPlexBase<R>::p] = ((v) != 0)

#ifdef INST_OPTIMIZE
extern "C" int w_optimize(unsigned char* interrupt, int solvemode, int syncmode, double feastol, double opttol, int haveSimplifier, int haveScaler)
{
   VIN("solvemode", solvemode); VIN("syncmode", syncmode); VIN("feastol", feastol); VIN("opttol", opttol);
   Env e;
   e.wire(haveSimplifier, haveScaler);
   PARAM_INT(SOLVEMODE, solvemode); PARAM_INT(SYNCMODE, syncmode); PARAM_REAL(FEASTOL, feastol); PARAM_REAL(OPTTOL, opttol);
   g_interrupt = interrupt;
   return (int)e.h.body_optimize((volatile bool*)interrupt);
}
#endif

#ifdef INST_OPT
extern "C" void w__optimize(unsigned char* interrupt, int hasBasis, double objlo, double objup, double infty, int persistent,
                            int haveSimplifier, int haveScaler, int optimizeCalls, int unscaleCalls, int* lastSolveMode)
{
   VIN("hasBasis", hasBasis); VIN("objlo", objlo); VIN("objup", objup); VIN("infty", infty); VIN("persistent", persistent);
   Env e;
   e.wire(haveSimplifier, haveScaler);
   PARAM_REAL(OBJLIMIT_LOWER, objlo); PARAM_REAL(OBJLIMIT_UPPER, objup); PARAM_REAL(INFTY, infty); PARAM_BOOL(PERSISTENTSCALING, persistent);
   e.h._hasBasis = hasBasis != 0; e.h._optimizeCalls = optimizeCalls; e.h._unscaleCalls = unscaleCalls;
   g_interrupt = interrupt;
   e.h.body__optimize((volatile bool*)interrupt);
   *lastSolveMode = e.h._lastSolveMode;
}
#endif

#ifdef INST_PRE
extern "C" void w__preprocessAndSolveReal(unsigned char* interrupt, int applySimplifier, int haveSimplifier, int haveScaler)
{
   VIN("applySimplifier", applySimplifier); VIN("haveSimplifier", haveSimplifier); VIN("haveScaler", haveScaler);
   Env e;
   e.wire(haveSimplifier, haveScaler);
   g_interrupt = interrupt;
   g_simp_result = (int)SPxSimplifier<R>::OKAY;
   e.h.body__preprocessAndSolveReal(applySimplifier != 0, (volatile bool*)interrupt);
}
#endif

#if defined(INST_SOLVELP) || defined(INST_BSOLVELP)
extern "C" void w__solveLP(unsigned char* interrupt, int* status, int haveSimplifier, int haveScaler)
{
   VIN("status", *status);
   Env e;
   e.wire(haveSimplifier, haveScaler);
   e.h._status = (Status_t)(*status);
   g_interrupt = interrupt;
#ifdef INST_SOLVELP
   e.h.body__solveRealLP((volatile bool*)interrupt);
#else
   e.h.body__solveBoostedRealLP((volatile bool*)interrupt);
#endif
   *status = (int)e.h._status;
}
#endif
