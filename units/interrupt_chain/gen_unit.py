#!/usr/bin/env python3
"""Writes unit.json for units/interrupt_chain (a script because slices / extracts / mutants repeat per instance)."""
import json
import os

HPP = "src/soplex.hpp"
H = "src/soplex.h"
SR = "src/soplex/solvereal.hpp"
SOLVER_H = "src/soplex/spxsolver.h"

extracts = [
    {"as": "SimplifierResult.inc", "file": "src/soplex/spxsimplifier.h", "regex": r"enum Result\s*\{.*?\};"},
    {"as": "SolverStatus.inc", "file": SOLVER_H, "regex": r"enum Status\s*\{\s*ERROR.*?\};"},
    {"as": "VarStatus.inc", "file": SOLVER_H, "regex": r"enum VarStatus\s*\{.*?\};"},
    {"as": "SolverType.inc", "file": SOLVER_H, "regex": r"enum Type\s*\{.*?\};"},
    {"as": "SolverRep.inc", "file": SOLVER_H, "regex": r"enum Representation\s*\{.*?\};"},
    {"as": "SolverPricing.inc", "file": SOLVER_H, "regex": r"enum Pricing\s*\{.*?\};"},
    {"as": "SolutionPolish.inc", "file": SOLVER_H, "regex": r"enum SolutionPolish\s*\{.*?\};"},
    {"as": "SPxStatus.inc", "file": "src/soplex/spxbasis.h", "regex": r"enum SPxStatus\s*\{.*?\};"},
    {"as": "BoolParam.inc", "file": H, "regex": r"typedef enum\s*\{(?:(?!typedef enum).)*?\}\s*BoolParam;"},
    {"as": "IntParam.inc", "file": H, "regex": r"typedef enum\s*\{(?:(?!typedef enum).)*?\}\s*IntParam;"},
    {"as": "RealParam.inc", "file": H, "regex": r"typedef enum\s*\{(?:(?!typedef enum).)*?\}\s*RealParam;"},
    # all anonymous `values for parameter X` enums between IntParam and RealParam (OBJSENSE .. SOLUTION_POLISHING)
    {"as": "IntValues.inc", "file": H,
     "regex": r"/// values for parameter OBJSENSE\s*enum\s*\{.*?/// values for parameter SOLUTION_POLISHING\s*enum\s*\{.*?\};"},
]

constants = [
    {"name": "VERIF_SOPLEX_INFINITY", "file": "src/soplex/spxdefines.h",
     "regex": r"typedef\s+double\s+Real;.*?#define\s+SOPLEX_DEFAULT_INFINITY\s+([0-9.eE+]+)\s"},
    {"name": "VERIF_HYPERPRICINGTHRESHOLD", "file": SOLVER_H, "regex": r"#define\s+SOPLEX_HYPERPRICINGTHRESHOLD\s+(\d+)\s"},
]

common = [
    {"as": "boolParam.inc", "file": HPP, "sig": r"bool\s+SoPlexBase<R>::boolParam\s*\(\s*const\s+BoolParam\s+param\s*\)\s*const"},
    {"as": "intParam.inc", "file": HPP, "sig": r"int\s+SoPlexBase<R>::intParam\s*\(\s*const\s+IntParam\s+param\s*\)\s*const"},
    {"as": "realParam.inc", "file": HPP, "sig": r"Real\s+SoPlexBase<R>::realParam\s*\(\s*const\s+RealParam\s+param\s*\)\s*const"},
    {"as": "status.inc", "file": HPP, "sig": r"typename\s+SPxSolverBase<R>::Status\s+SoPlexBase<R>::status\s*\(\s*\)\s*const"},
]


def conf(file, regex, why, absent=False):
    d = {"file": file, "regex": regex, "why": why}
    if absent:
        d["absent"] = True
    return d


VB = r"volatile\s+bool\*\s*interrupt\s*=\s*nullptr"
conformance = [
    # the chain: stub recorders have the real parameter lists INCLUDING the default arguments
    conf(H, r"typename\s+SPxSolverBase<R>::Status\s+optimize\(" + VB + r"\);", "optimize: default argument nullptr"),
    conf(H, r"void\s+_optimize\(" + VB + r"\);", "stub _optimize: same default argument"),
    conf(H, r"void\s+_optimizeRational\(" + VB + r"\);", "stub _optimizeRational: same default argument"),
    conf(H, r"void\s+_preprocessAndSolveReal\(bool\s+applyPreprocessing,\s*" + VB + r"\);", "stub _preprocessAndSolveReal: same parameter order and default argument"),
    conf(H, r"void\s+_solveRealLPAndRecordStatistics\(" + VB + r"\);", "stub _solveRealLPAndRecordStatistics: same default argument"),
    conf(H, r"void\s+_solveBoostedRealLPAndRecordStatistics\(" + VB + r"\);", "stub _solveBoostedRealLPAndRecordStatistics: same default argument"),
    conf(SOLVER_H, r"virtual\s+Status\s+solve\(" + VB + r",\s*bool\s+polish\s*=\s*true\);", "stub SPxSolverBase::solve: same parameter order and default arguments"),
    # members
    conf(H, r"SPxSolverBase<R>\s+_solver;", "_solver held by value"),
    conf(H, r"SPxSolverBase<BP>\s+_boostedSolver;", "_boostedSolver held by value"),
    conf(H, r"using\s+BP\s*=\s*double;", "BP = double is one of the configured boosted precisions (the one without MPFR/boost)"),
    conf(H, r"SPxLPBase<R>\*\s*_realLP;\s*SPxSimplifier<R>\*\s*_simplifier;\s*SPxScaler<R>\*\s*_scaler;", "pointer members tested against nullptr / &_solver"),
    conf(H, r"Statistics\*\s*_statistics;", "host member"),
    conf(H, r"Settings\*\s*_currentSettings;", "host member"),
    conf(H, r"std::shared_ptr<Tolerances>\s+_tolerances;", "host member (stub: plain pointer)"),
    conf(H, r"bool\s+_isRealLPLoaded;", "host member"),
    conf(H, r"bool\s+_isRealLPScaled;\s*bool\s+_applyPolishing;", "host members"),
    conf(H, r"typename\s+SPxSolverBase<R>::Status\s+_status;\s*int\s+_lastSolveMode;", "host members"),
    conf(H, r"bool\s+_hasBasis;\s*bool\s+_hasSolReal;\s*bool\s+_hasSolRational;", "host members"),
    conf(H, r"int\s+_optimizeCalls;\s*int\s+_unscaleCalls;", "host members"),
    conf(H, r"bool\s+_boolParamValues\[SoPlexBase<R>::BOOLPARAM_COUNT\];", "SettingsStub"),
    conf(H, r"int\s+_intParamValues\[SoPlexBase<R>::INTPARAM_COUNT\];", "SettingsStub"),
    conf(H, r"Real\s+_realParamValues\[SoPlexBase<R>::REALPARAM_COUNT\];", "SettingsStub"),
    # neighbours
    conf(H, r"void\s+_evaluateSolutionReal\(typename\s+SPxSimplifier<R>::Result\s+simplificationStatus\);", "stub signature"),
    conf(H, r"void\s+_enableSimplifierAndScaler\(\);", "stub signature"),
    conf(H, r"void\s+_disableSimplifierAndScaler\(\);", "stub signature"),
    conf(H, r"void\s+_invalidateSolution\(\);", "stub signature"),
    conf(H, r"void\s+_syncLPRational\(bool\s+time\s*=\s*true\);", "stub signature"),
    conf(H, r"bool\s+_reapplyPersistentScaling\(\)\s*const;", "stub signature"),
    conf(SOLVER_H, r"virtual\s+void\s+setTerminationTime\(Real\s+time\s*=\s*infinity\);", "stub signature"),
    conf(SOLVER_H, r"virtual\s+void\s+setTerminationIter\(int\s+iteration\s*=\s*-1\);", "stub signature"),
    conf(SOLVER_H, r"virtual\s+void\s+setTerminationValue\(R\s+value\s*=\s*R\(infinity\)\);", "stub signature"),
    conf(SOLVER_H, r"virtual\s+void\s+loadLP\(const\s+SPxLPBase<R>&\s*LP,\s*bool\s+initSlackBasis\s*=\s*true\);", "stub signature"),
    conf(SOLVER_H, r"void\s+setSolvingForBoosted\(bool\s+value\)", "stub signature"),
    conf("src/soplex/spxscaler.h", r"virtual\s+void\s+scale\(SPxLPBase<R>&\s*lp,\s*bool\s+persistent\s*=\s*true\)\s*=\s*0;", "ScalerStub::scale"),
    conf("src/soplex/spxsimplifier.h", r"virtual\s+Result\s+simplify\(SPxLPBase<R>&\s*lp,\s*Real\s+remainingTime,\s*bool\s+keepbounds\s*=\s*false,\s*uint32_t\s+seed\s*=\s*0\)\s*=\s*0;", "SimplifierStub::simplify"),
    conf("src/soplex/spxalloc.h", r"inline\s+void\s+spx_free\(T&\s*p\)\s*\{[^}]*free\(p\);\s*p\s*=\s*nullptr;", "spx_free(p) leaves p == nullptr (macro model)"),
    conf("src/soplex/statistics.h", r"Timer\*\s*solvingTime;[^;]*\s*Timer\*\s*preprocessingTime;[^;]*\s*Timer\*\s*simplexTime;", "StatStub timers"),
    conf("src/soplex/spxdefines.cpp", r"const\s+Real\s+infinity\s*=\s*SOPLEX_DEFAULT_INFINITY;", "infinity (default argument only)"),
]

trusted = [
    "every callee of the functions under contract is a ghost-recording stub on ONE host struct (count, position, scalar argument, interrupt pointer per kind); the five chain functions are also stubbed under their real names with the real default arguments (`volatile bool* interrupt = nullptr`), conformance-checked against src/soplex.h / spxsolver.h on every run",
    "callees that may solve (_optimize, _optimizeRational, _preprocessAndSolveReal, _solveRealLPAndRecordStatistics, _evaluateSolutionReal, ...) leave ARBITRARY values in _status, _hasBasis, _applyPolishing, _isRealLPLoaded, _isRealLPScaled, _hasSolReal, _hasSolRational; all getters of _solver / _boostedSolver / _slufactor / the simplifier answer arbitrarily; all parameter values not named in a contract are arbitrary",
    "_enableSimplifierAndScaler / _disableSimplifierAndScaler: stubs set _simplifier / _scaler to arbitrary null / non-null (disable: _simplifier = nullptr)",
    "try { _solver.solve(interrupt); } catch(const SPxException& E) {H1} catch(...) {H2} is compiled as `{ solve; } if(pending && isSPx) {H1} if(pending) {H2}`: the solve stub decides arbitrarily whether it threw and what (CBMC's C++ front end has no exceptions); exact because the call is the only statement of the try block (model_depends_on, checked on every run)",
    "_preprocessAndSolveReal: spx_alloc(p) = `p = spare LP object`, `_realLP = new(_realLP) SPxLPBase<R>(_solver)` = copy of _solver's LP part into *_realLP, `_realLP->~SPxLPBase<R>()` = (empty) destructor of the LP stub, spx_free(p) = `p = nullptr` - preprocessor rewrites of these two statements (goto-cc has no placement new and cannot resolve a destructor call on a template-id), guarded by model_depends_on; the LP stub carries only the is-scaled flag; type invariant _isRealLPLoaded <=> _realLP == &_solver set up at entry (not needed by the interrupt clauses)",
    "Tolerances, Timer, Statistics, SLUFactor, Random are field/recorder stubs; R = BP = double (BP = double is the real configuration without MPFR/boost)",
    "_optimize: the call counters _optimizeCalls / _unscaleCalls are in [0, INT_MAX) at entry; _solve*RealLPAndRecordStatistics: signed-overflow obligations on the statistics accumulation (`_statistics->iterations += _solver.iterations()` with arbitrary addends) are switched off",
    "type invariant assumed in the stub accessors: 0 <= _solver.nRows(), nCols() < 2^30 (the bodies compute nCols() + 1 and nRows() + nCols())",
    "SPX_MSG_* logging compiled out; assert() compiled out (NDEBUG semantics); SOPLEX_DEBUG / ENABLE_ADDITIONAL_CHECKS blocks not compiled (as in the release build)",
]

PTR_MUT_NOTE = "dropped argument falls back to the declared default nullptr"


def link_mutants(slice_as, call_re_tail, calls):
    """calls: list of (label, find, dropped, null, other) textual one-token faults on the call of the next link"""
    out = []
    for label, find, dropped, null, other in calls:
        out.append({"name": "arg_dropped" + label, "slice": slice_as, "find": find, "replace": dropped})
        out.append({"name": "nullptr_passed" + label, "slice": slice_as, "find": find, "replace": null})
        out.append({"name": "other_pointer" + label, "slice": slice_as, "find": find, "replace": other})
        # only wrong for a caller who passes no flag: shows that the interrupt == nullptr case is part of the proof
        out.append({"name": "invented_flag_when_null" + label, "slice": slice_as, "find": find,
                    "replace": other.replace("&", "interrupt ? interrupt : &")})
    return out


instances = []


def inst(name, function, define, harness, enforce, slices, mutants, min_obl, extra=None):
    d = {"name": name, "function": function, "defines": {define: ""}, "harness": harness, "enforce": enforce,
         "slices": common + slices, "min_obligations": min_obl, "tier": "quick", "mutants": mutants}
    if extra:
        d.update(extra)
    instances.append(d)


# 1 ---------------------------------------------------------------------------------------------------------------------
inst("optimize",
     "SoPlexBase<R>::optimize(volatile bool* interrupt)  [src/soplex.hpp] (whole body)",
     "INST_OPTIMIZE", "h_optimize", "w_optimize",
     [{"as": "optimize.inc", "file": HPP,
       "sig": r"typename\s+SPxSolverBase<R>::Status\s+SoPlexBase<R>::optimize\s*\(\s*volatile\s+bool\*\s*interrupt\s*\)",
       "must_contain": [r"_optimize\(interrupt\);", r"_optimizeRational\(interrupt\);"]}],
     link_mutants("optimize.inc", "", [
         ("_real", "_optimize(interrupt);", "_optimize();", "_optimize(nullptr);", "_optimize(&_hasBasis);"),
         ("_rational_onlyreal", "_syncLPRational();\n      _optimizeRational(interrupt);", "_syncLPRational();\n      _optimizeRational();",
          "_syncLPRational();\n      _optimizeRational(nullptr);", "_syncLPRational();\n      _optimizeRational(&_hasBasis);"),
     ]) + [
         {"name": "real_mode_solved_exactly", "slice": "optimize.inc",
          "find": "intParam(SoPlexBase<R>::SOLVEMODE) == SOLVEMODE_REAL", "replace": "intParam(SoPlexBase<R>::SOLVEMODE) == SOLVEMODE_RATIONAL"},
         {"name": "sync_skipped", "slice": "optimize.inc", "find": "_syncLPRational();", "replace": ";"},
         {"name": "solved_twice", "slice": "optimize.inc", "find": "_optimize(interrupt);", "replace": "_optimize(interrupt); _optimize(interrupt);"},
     ],
     40)

# 2 ---------------------------------------------------------------------------------------------------------------------
inst("_optimize",
     "SoPlexBase<R>::_optimize(volatile bool* interrupt)  [src/soplex/solvereal.hpp] (whole body)",
     "INST_OPT", "h__optimize", "w__optimize",
     [{"as": "_optimize.inc", "file": SR,
       "sig": r"void\s+SoPlexBase<R>::_optimize\s*\(\s*volatile\s+bool\*\s*interrupt\s*\)",
       "must_contain": [r"_preprocessAndSolveReal\(true,\s*interrupt\);", r"_preprocessAndSolveReal\(false,\s*interrupt\);"]}],
     link_mutants("_optimize.inc", "", [
         ("_nopreproc", "_preprocessAndSolveReal(false, interrupt);", "_preprocessAndSolveReal(false);",
          "_preprocessAndSolveReal(false, nullptr);", "_preprocessAndSolveReal(false, &_hasBasis);"),
         ("_preproc", "_preprocessAndSolveReal(true, interrupt);", "_preprocessAndSolveReal(true);",
          "_preprocessAndSolveReal(true, nullptr);", "_preprocessAndSolveReal(true, &_isRealLPScaled);"),
     ]) + [
         {"name": "preprocessing_despite_basis", "slice": "_optimize.inc", "find": "if(!_hasBasis && realParam", "replace": "if(realParam"},
         {"name": "not_solved", "slice": "_optimize.inc", "find": "_preprocessAndSolveReal(false, interrupt);", "replace": ";"},
     ],
     40)

# 3 ---------------------------------------------------------------------------------------------------------------------
inst("_preprocessAndSolveReal",
     "SoPlexBase<R>::_preprocessAndSolveReal(bool applySimplifier, volatile bool* interrupt)  [src/soplex/solvereal.hpp] (whole body)",
     "INST_PRE", "h__preprocessAndSolveReal", "w__preprocessAndSolveReal",
     [{"as": "_preprocessAndSolveReal.inc", "file": SR,
       "sig": r"void\s+SoPlexBase<R>::_preprocessAndSolveReal\s*\(\s*bool\s+applySimplifier\s*,\s*volatile\s+bool\*\s*interrupt\s*\)",
       "must_contain": [r"_solveRealLPAndRecordStatistics\(interrupt\);"],
       "model_depends_on": [r"_realLP\s*=\s*new\(_realLP\)\s*SPxLPBase<R>\(_solver\);", r"_realLP->~SPxLPBase<R>\(\);"]}],
     link_mutants("_preprocessAndSolveReal.inc", "", [
         ("", "_solveRealLPAndRecordStatistics(interrupt);", "_solveRealLPAndRecordStatistics();",
          "_solveRealLPAndRecordStatistics(nullptr);", "_solveRealLPAndRecordStatistics(&_applyPolishing);"),
     ]) + [
         {"name": "solved_although_simplifier_decided", "slice": "_preprocessAndSolveReal.inc",
          "find": "if(simplificationStatus == SPxSimplifier<R>::OKAY)", "replace": "if(simplificationStatus != SPxSimplifier<R>::INFEASIBLE)"},
         {"name": "simplifier_switch_swapped", "slice": "_preprocessAndSolveReal.inc",
          "find": "if(applySimplifier)", "replace": "if(!applySimplifier)"},
     ],
     60)

# 4, 5 ------------------------------------------------------------------------------------------------------------------
for nm, fn, define, solver in (
        ("_solveRealLPAndRecordStatistics", "_solveRealLPAndRecordStatistics", "INST_SOLVELP", "_solver"),
        ("_solveBoostedRealLPAndRecordStatistics", "_solveBoostedRealLPAndRecordStatistics", "INST_BSOLVELP", "_boostedSolver")):
    other = "_boostedSolver" if solver == "_solver" else "_solver"
    inst(nm,
         "SoPlexBase<R>::%s(volatile bool* interrupt)  [src/soplex.hpp] (whole body)" % fn,
         define, "h__solveLP", "w__solveLP",
         [{"as": fn + ".inc", "file": HPP,
           "sig": r"void\s+SoPlexBase<R>::%s\s*\(\s*volatile\s+bool\*\s*interrupt\s*\)" % fn,
           "must_contain": [solver + r"\.solve\(interrupt\);"],
           "model_depends_on": [r"try\s*\{\s*%s\.solve\([^;{}]*\);\s*\}\s*catch" % solver.replace("_", "_")]}],
         link_mutants(fn + ".inc", "", [
             ("", solver + ".solve(interrupt);", solver + ".solve();", solver + ".solve(nullptr);", solver + ".solve(&_hadBasis);"),
         ]) + [
             {"name": "wrong_solver_object", "slice": fn + ".inc", "find": solver + ".solve(interrupt);", "replace": other + ".solve(interrupt);"},
             {"name": "limit_set_after_solve", "slice": fn + ".inc", "find": solver + ".solve(interrupt);",
              "replace": solver + ".solve(interrupt); " + solver + ".setTerminationIter(-1);"},
             {"name": "exception_status_lost", "slice": fn + ".inc", "regex": True,
              "find": r"(catch\(\.\.\.\)\s*\{[^}]*?)_status = SPxSolverBase<R>::ERROR;", "replace": r"\1;"},
         ],
         60,
         # the tail of the body adds arbitrary per-solve counts to the statistics: int wrap-around there is not this unit's subject
         {"flags": ["--bounds-check", "--pointer-check", "--no-signed-overflow-check"]})

unit = {
    "property": ["C16"],
    "desc": "interrupt chain: optimize -> _optimize -> _preprocessAndSolveReal -> _solveRealLPAndRecordStatistics -> _solver.solve "
            "(and the boosted twin): every link hands exactly the caller's `volatile bool* interrupt` to the next one; whole bodies, "
            "all callees ghost-recording stubs with the real default arguments",
    "rmode": "no arithmetic: call ledger (R = double where a value is read)",
    "flags": ["--bounds-check", "--pointer-check"],
    "timeout_s": 120,
    "extracts": extracts,
    "constants": constants,
    "conformance": conformance,
    "trusted": trusted,
    "instances": instances,
}

with open(os.path.join(os.path.dirname(os.path.abspath(__file__)), "unit.json"), "w") as f:
    json.dump(unit, f, indent=1)
    f.write("\n")
print("unit.json written: %d instances, %d mutants" % (len(instances), sum(len(i["mutants"]) for i in instances)))
