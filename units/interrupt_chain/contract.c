/* C16 "a solve stopped by ... the interrupt flag returns the corresponding abort status": the flag can only stop the simplex
 * loop if the caller's pointer arrives there.  One contract per link of
 *    optimize -> _optimize -> _preprocessAndSolveReal -> _solveRealLPAndRecordStatistics -> _solver.solve
 * Top-level clause of every link (from the property): ON EVERY PATH, every call of the next link carries EXACTLY the pointer
 * this function received - for a null pointer and for an arbitrary valid one (k_bad == 0, last recorded pointer == interrupt);
 * plus how often / under which visible condition the next link is called and what is called around it. */
#include "verif_c.h"
#include "ic_ghost.h"
/* enumerations extracted verbatim from the tree (anonymous enums / typedef enums are valid C) */
#include "IntParam.inc"
#include "IntValues.inc"
/* SPxSolverBase::Status -> ST_<name>, SPxSimplifier::Result -> SIMP_<name> (names prefixed, values the tree's) */
#define HAVE_SolverStatus
#define HAVE_SimplifierResult
#include "solve_enums_c.h"

const void* g_interrupt;
int         g_nev;
int         k_cnt[NKIND];
int         k_seq[NKIND];
int         k_arg[NKIND];
int         k_bad[NKIND];
const void* k_ptr[NKIND];
const void* k_this[NKIND];
int         g_threw, g_exc_is_spx, g_pending, g_status_out, g_simp_result;

void verif_throw(void) {}

#define LEDGER g_interrupt, g_nev, __CPROVER_object_whole(k_cnt), __CPROVER_object_whole(k_seq), __CPROVER_object_whole(k_arg), \
   __CPROVER_object_whole(k_bad), __CPROVER_object_whole(k_ptr), __CPROVER_object_whole(k_this), \
   g_threw, g_exc_is_spx, g_pending, g_status_out, g_simp_result

/* the whole ledger starts at zero (C globals; the harness does not touch them) */
#define Z(K) (k_cnt[K] == 0 && k_bad[K] == 0 && k_seq[K] == 0)
#define CHAIN_ZERO (g_nev == 0 \
   && Z(K_OPTIMIZE) \
   && Z(K_OPTRAT) \
   && Z(K_PREPROC) \
   && Z(K_SOLVELP) \
   && Z(K_BSOLVELP) \
   && Z(K_SOLVE) \
   && Z(K_BSOLVE) \
   && Z(K_CLEARSTAT) \
   && Z(K_INVALSOL) \
   && Z(K_SYNCRAT) \
   && Z(K_SETBOOSTED) \
   && Z(K_TSTART) \
   && Z(K_TSTOP) \
   && Z(K_SCALE) \
   && Z(K_UNSCALELP) \
   && Z(K_INVALBASIS) \
   && Z(K_BASISMETRIC) \
   && Z(K_ENABLESIMP) \
   && Z(K_DISABLESIMP) \
   && Z(K_SIMPLIFY) \
   && Z(K_EVALSOL) \
   && Z(K_LOADLP) \
   && Z(K_SETBASIS) \
   && Z(K_SETVALUE) \
   && Z(K_TOGGLEVALUE) \
   && Z(K_OBJOFF) \
   && Z(K_SETITER) \
   && Z(K_SETTIME) \
   && Z(K_BSETITER) \
   && Z(K_BSETTIME) \
   && Z(K_LUCLEAR) \
   && Z(K_OTHER))
#define PTR_OK __CPROVER_requires(interrupt == NULL || __CPROVER_is_fresh(interrupt, 1))
/* the link `K` was called exactly once, with the caller's pointer */
#define ONCE_WITH_PTR(K) (k_cnt[K] == 1 && k_bad[K] == 0 && k_ptr[K] == (const void*)interrupt)
/* no call of link `K` at all */
#define NEVER(K) (k_cnt[K] == 0)
#define BEFORE(A, B) (k_seq[A] < k_seq[B])

/* ===================================================================================================================== */
#ifdef INST_OPTIMIZE
int w_optimize(unsigned char* interrupt, int solvemode, int syncmode, double feastol, double opttol, int haveSimplifier, int haveScaler)
PTR_OK
__CPROVER_requires(CHAIN_ZERO)
__CPROVER_assigns(LEDGER)
/* exactly one of the two drivers runs, exactly once, with the caller's pointer; nothing further down the chain is called directly */
__CPROVER_ensures(k_cnt[K_OPTIMIZE] + k_cnt[K_OPTRAT] == 1)
__CPROVER_ensures(k_cnt[K_OPTIMIZE] == 1 ==> ONCE_WITH_PTR(K_OPTIMIZE))
__CPROVER_ensures(k_cnt[K_OPTRAT] == 1 ==> ONCE_WITH_PTR(K_OPTRAT))
__CPROVER_ensures(k_bad[K_OPTIMIZE] == 0 && k_bad[K_OPTRAT] == 0)
__CPROVER_ensures(NEVER(K_PREPROC) && NEVER(K_SOLVELP) && NEVER(K_BSOLVELP) && NEVER(K_SOLVE) && NEVER(K_BSOLVE))
/* which one: SOLVEMODE_REAL -> floating-point driver, SOLVEMODE_RATIONAL -> exact driver, SOLVEMODE_AUTO -> either (tolerances) */
__CPROVER_ensures(solvemode == SOLVEMODE_REAL ==> k_cnt[K_OPTIMIZE] == 1)
__CPROVER_ensures((solvemode != SOLVEMODE_REAL && solvemode != SOLVEMODE_AUTO) ==> k_cnt[K_OPTRAT] == 1)
/* around it: statistics cleared and solution invalidated first; the rational LP is synchronised first iff SYNCMODE_ONLYREAL;
 * the floating-point driver runs with the solver told it is not solving for the boosted solver */
__CPROVER_ensures(k_cnt[K_CLEARSTAT] == 1 && k_cnt[K_INVALSOL] == 1)
__CPROVER_ensures(k_cnt[K_OPTIMIZE] == 1 ==> (BEFORE(K_CLEARSTAT, K_OPTIMIZE) && BEFORE(K_INVALSOL, K_OPTIMIZE)))
__CPROVER_ensures(k_cnt[K_OPTRAT] == 1 ==> (BEFORE(K_CLEARSTAT, K_OPTRAT) && BEFORE(K_INVALSOL, K_OPTRAT)))
__CPROVER_ensures(k_cnt[K_OPTRAT] == 1 ==> k_cnt[K_SYNCRAT] == (syncmode == SYNCMODE_ONLYREAL ? 1 : 0))
__CPROVER_ensures(k_cnt[K_SYNCRAT] == 1 ==> (k_cnt[K_OPTRAT] == 1 && BEFORE(K_SYNCRAT, K_OPTRAT)))
__CPROVER_ensures(k_cnt[K_OPTIMIZE] == 1 ==> (k_cnt[K_SETBOOSTED] == 1 && k_arg[K_SETBOOSTED] == 0 && BEFORE(K_SETBOOSTED, K_OPTIMIZE) && k_cnt[K_SYNCRAT] == 0))
/* the status handed back is the one the driver left behind */
__CPROVER_ensures(__CPROVER_return_value == g_status_out)
;
void h_optimize(void)
{
   unsigned char* interrupt;
   int solvemode, syncmode, haveSimplifier, haveScaler;
   double feastol, opttol;
   w_optimize(interrupt, solvemode, syncmode, feastol, opttol, haveSimplifier, haveScaler);
   CANARY();
}
#endif

/* ===================================================================================================================== */
#ifdef INST_OPT
void w__optimize(unsigned char* interrupt, int hasBasis, double objlo, double objup, double infty, int persistent,
                 int haveSimplifier, int haveScaler, int optimizeCalls, int unscaleCalls, int* lastSolveMode)
PTR_OK
/* call counters of the SoPlex object: non-negative and not about to wrap */
__CPROVER_requires(0 <= optimizeCalls && optimizeCalls < 2147483647 && 0 <= unscaleCalls && unscaleCalls < 2147483647)
__CPROVER_requires(__CPROVER_is_fresh(lastSolveMode, sizeof(int)))
__CPROVER_requires(hasBasis == 0 || hasBasis == 1)
__CPROVER_requires(CHAIN_ZERO)
__CPROVER_assigns(LEDGER, *lastSolveMode)
/* the preprocessing driver runs exactly once, with the caller's pointer */
__CPROVER_ensures(ONCE_WITH_PTR(K_PREPROC))
__CPROVER_ensures(NEVER(K_OPTIMIZE) && NEVER(K_OPTRAT) && NEVER(K_SOLVELP) && NEVER(K_BSOLVELP) && NEVER(K_SOLVE) && NEVER(K_BSOLVE))
/* with preprocessing iff there is no starting basis and no objective limit is set */
__CPROVER_ensures(k_arg[K_PREPROC] == ((!hasBasis && objlo == -infty && objup == infty) ? 1 : 0))
/* inside the solving-time bracket (timer id 1 = solvingTime), and the solve mode is remembered */
__CPROVER_ensures(k_cnt[K_TSTART] == 1 && k_arg[K_TSTART] == 1 && BEFORE(K_TSTART, K_PREPROC))
__CPROVER_ensures(k_cnt[K_TSTOP] == 1 && k_arg[K_TSTOP] == 1 && BEFORE(K_PREPROC, K_TSTOP))
__CPROVER_ensures(*lastSolveMode == SOLVEMODE_REAL)
;
void h__optimize(void)
{
   unsigned char* interrupt;
   int hasBasis, persistent, haveSimplifier, haveScaler, optimizeCalls, unscaleCalls;
   double objlo, objup, infty;
   int* lastSolveMode;
   w__optimize(interrupt, hasBasis, objlo, objup, infty, persistent, haveSimplifier, haveScaler, optimizeCalls, unscaleCalls, lastSolveMode);
   CANARY();
}
#endif

/* ===================================================================================================================== */
#ifdef INST_PRE
void w__preprocessAndSolveReal(unsigned char* interrupt, int applySimplifier, int haveSimplifier, int haveScaler)
PTR_OK
__CPROVER_requires(applySimplifier == 0 || applySimplifier == 1)
__CPROVER_requires(CHAIN_ZERO)
__CPROVER_assigns(LEDGER)
/* the simplex driver runs at most once, and whenever it runs it gets the caller's pointer */
__CPROVER_ensures(k_cnt[K_SOLVELP] <= 1 && k_bad[K_SOLVELP] == 0)
__CPROVER_ensures(k_cnt[K_SOLVELP] == 1 ==> ONCE_WITH_PTR(K_SOLVELP))
__CPROVER_ensures(NEVER(K_OPTIMIZE) && NEVER(K_OPTRAT) && NEVER(K_PREPROC) && NEVER(K_BSOLVELP) && NEVER(K_SOLVE) && NEVER(K_BSOLVE))
/* it runs unless the simplifier already decided the problem (g_simp_result: what simplify() answered, OKAY without simplifier) */
__CPROVER_ensures(k_cnt[K_SIMPLIFY] <= 1)
__CPROVER_ensures(k_cnt[K_SOLVELP] == (g_simp_result == SIMP_OKAY ? 1 : 0))
/* simplifier / scaler switched on or off as asked; preprocessing time bracket (timer id 2) closed before the simplex runs */
__CPROVER_ensures(k_cnt[K_ENABLESIMP] == applySimplifier && k_cnt[K_DISABLESIMP] == 1 - applySimplifier)
__CPROVER_ensures(k_cnt[K_SIMPLIFY] == 1 ==> (applySimplifier == 1 && BEFORE(K_ENABLESIMP, K_SIMPLIFY)))
__CPROVER_ensures(k_cnt[K_TSTART] == 1 && k_arg[K_TSTART] == 2 && k_cnt[K_TSTOP] == 1 && k_arg[K_TSTOP] == 2)
__CPROVER_ensures(k_cnt[K_SOLVELP] == 1 ==> BEFORE(K_TSTOP, K_SOLVELP))
/* the result is evaluated exactly once, afterwards, with the simplifier's verdict */
__CPROVER_ensures(k_cnt[K_EVALSOL] == 1 && k_arg[K_EVALSOL] == g_simp_result && k_seq[K_EVALSOL] == g_nev)
;
void h__preprocessAndSolveReal(void)
{
   unsigned char* interrupt;
   int applySimplifier, haveSimplifier, haveScaler;
   w__preprocessAndSolveReal(interrupt, applySimplifier, haveSimplifier, haveScaler);
   CANARY();
}
#endif

/* ===================================================================================================================== */
#if defined(INST_SOLVELP) || defined(INST_BSOLVELP)
#ifdef INST_SOLVELP
#define KS K_SOLVE
#define KS_OTHER K_BSOLVE
#define KI K_SETITER
#define KT K_SETTIME
#else
#define KS K_BSOLVE
#define KS_OTHER K_SOLVE
#define KI K_BSETITER
#define KT K_BSETTIME
#endif
void w__solveLP(unsigned char* interrupt, int* status, int haveSimplifier, int haveScaler)
PTR_OK
__CPROVER_requires(__CPROVER_is_fresh(status, sizeof(int)))
__CPROVER_requires(CHAIN_ZERO)
__CPROVER_requires(g_pending == 0 && g_threw == 0)
__CPROVER_assigns(LEDGER, *status)
/* the simplex of THIS solver object runs exactly once, with the caller's pointer (and with polishing left at its default) */
__CPROVER_ensures(ONCE_WITH_PTR(KS) && k_arg[KS] == 1)
__CPROVER_ensures(NEVER(KS_OTHER) && NEVER(K_OPTIMIZE) && NEVER(K_OPTRAT) && NEVER(K_PREPROC) && NEVER(K_SOLVELP) && NEVER(K_BSOLVELP))
/* iteration and time limit are handed to that solver before it runs (what is handed over: units evalsol, spxterm) */
__CPROVER_ensures(k_cnt[KI] == 1 && BEFORE(KI, KS) && k_cnt[KT] == 1 && BEFORE(KT, KS))
/* inside the simplex-time bracket (timer id 3) */
__CPROVER_ensures(k_cnt[K_TSTART] == 1 && k_arg[K_TSTART] == 3 && BEFORE(K_TSTART, KS))
__CPROVER_ensures(k_cnt[K_TSTOP] == 1 && k_arg[K_TSTOP] == 3 && BEFORE(KS, K_TSTOP))
/* no exception escapes; an exception turns the status into ERROR, otherwise this function leaves _status alone */
__CPROVER_ensures(g_pending == 0)
__CPROVER_ensures(g_threw ==> *status == ST_ERROR)
__CPROVER_ensures(!g_threw ==> *status == __CPROVER_old(*status))
;
void h__solveLP(void)
{
   unsigned char* interrupt;
   int* status;
   int haveSimplifier, haveScaler;
   w__solveLP(interrupt, status, haveSimplifier, haveScaler);
   CANARY();
}
#endif
