/* C01 verification net: contracts.  R = double (CBMC's bit-precise IEEE model).
 * "For all columns/rows" is stated at the ghost index g_k (havoc'd by the harness, constrained only by 0<=g_k<n).
 * The specification is the property text: on success, every bound / row side is violated by at most maxviol, every
 * dual multiplier / reduced cost has the sign its basis status and the objective sense demand up to maxviol. */
#include "verif_c.h"
#ifndef CAP
#define CAP 16
#endif
typedef double R;
/* enumerations extracted verbatim from the tree (C-compatible text) */
#include "VarStatus.inc"
#include "ObjSense.inc"

R* gp_max; R* gp_sum; R* gp_scratch; int g_scratch_n, g_scratch_used;
int g_k, g_n; int v_st, g_sense; R* gp_a; R* gp_b; R* gp_x; R v_dlo, v_dup;
int g_cpa_calls, g_cpa_unscaled, g_cpa_args_ok, g_sync_calls;
#define SUMFACT
#define NOTNAN(x) ((x) == (x))
#define FINITE(x) (NOTNAN(x) && (x) != (1.0 / 0.0) && (x) != -(1.0 / 0.0))

#ifdef INST_VIOL
/* which test decides success */
#if defined(KIND_BOUND) || defined(KIND_ROW)
#define SUCCESS ((hasSolReal && realFeas) || (hasSolRational && ratFeas))     /* isPrimalFeasible() */
#else
#define SUCCESS (hasBasis != 0)
#endif
/* the value the check is about at the ghost index */
#ifdef KIND_ROW
#define VAL scratch[g_k]     /* activity[g_k] as produced by computePrimalActivity (stub: arbitrary, not NaN) */
#else
#define VAL x[g_k]
#endif

/* sign table for duals (rows) and reduced costs (columns), derived from LP duality, not from the code:
 *   min c'x, lhs <= Ax <= rhs, l <= x <= u, r = c - A'y.
 *   minimisation: nonbasic at lower => r >= 0, at upper => r <= 0, fixed => any, basic/free(zero) => r == 0;
 *   the row multiplier y_i is the reduced cost of the slack s_i = a_i x in [lhs_i, rhs_i]: same table.
 *   maximisation: all inequalities reversed.  "within tolerance": the forbidden sign is bounded by maxviol. */
#define LO_OK(v, m) ((v) >= -(m))     /* may not be more negative than -maxviol */
#define UP_OK(v, m) ((v) <= (m))      /* may not be more positive than +maxviol */
#define SIGN_OK(st, sense, v, m) ( \
   (st) == FIXED ? 1 : \
   (st) == ON_LOWER ? ((sense) == OBJSENSE_MINIMIZE ? LO_OK(v, m) : UP_OK(v, m)) : \
   (st) == ON_UPPER ? ((sense) == OBJSENSE_MINIMIZE ? UP_OK(v, m) : LO_OK(v, m)) : \
   (LO_OK(v, m) && UP_OK(v, m)))

int w_viol(R* a, R* b, R* x, R* scratch, const int* st_solver, const int* st_stored, int n,
           int hasSolReal, int realFeas, int hasSolRational, int ratFeas,
           int hasBasis, int isRealLPLoaded, int objsense, R* maxviol, R* sumviol)
__CPROVER_requires(0 < n && n <= CAP && g_n == n)
__CPROVER_requires(__CPROVER_is_fresh(a, n * sizeof(R)) && __CPROVER_is_fresh(b, n * sizeof(R)))
__CPROVER_requires(__CPROVER_is_fresh(x, n * sizeof(R)) && __CPROVER_is_fresh(scratch, n * sizeof(R)))
__CPROVER_requires(__CPROVER_is_fresh(st_solver, n * sizeof(int)) && __CPROVER_is_fresh(st_stored, n * sizeof(int)))
__CPROVER_requires(__CPROVER_is_fresh(maxviol, sizeof(R)) && __CPROVER_is_fresh(sumviol, sizeof(R)))
__CPROVER_requires(objsense == OBJSENSE_MINIMIZE || objsense == OBJSENSE_MAXIMIZE)
__CPROVER_requires(0 <= g_k && g_k < n && g_sense == objsense)
__CPROVER_requires(v_st == (isRealLPLoaded ? st_solver[g_k] : st_stored[g_k]))
/* what the code assumes about its floating-point inputs: bounds/sides may be +-inf but not NaN, solution values are
   finite (inf - inf would be NaN and every comparison with NaN is false) */
__CPROVER_requires(NOTNAN(a[g_k]) && NOTNAN(b[g_k]) && FINITE(x[g_k]))
__CPROVER_assigns(gp_max, gp_sum, gp_scratch, g_scratch_n, g_scratch_used, g_cpa_calls, g_cpa_unscaled, g_cpa_args_ok, g_sync_calls, gp_a, gp_b, gp_x, v_dlo, v_dup)
__CPROVER_assigns(__CPROVER_object_whole(scratch))          /* the function's own local vector */
__CPROVER_assigns(SUCCESS: *maxviol, *sumviol)                /* frame: on failure nothing is written */
__CPROVER_ensures((__CPROVER_return_value != 0) == (SUCCESS))
__CPROVER_ensures(__CPROVER_return_value ==> (*maxviol >= 0.0 SUMFACT))
#if defined(KIND_BOUND) || defined(KIND_ROW)
/* v_dlo, v_dup are set by the wrapper to exactly these two differences (second clause), so that the first clause reads
   lower[g] - x[g] <= maxviol && x[g] - upper[g] <= maxviol */
__CPROVER_ensures(__CPROVER_return_value ==> (v_dlo <= *maxviol && v_dup <= *maxviol))
__CPROVER_ensures(__CPROVER_return_value ==> (v_dlo == a[g_k] - VAL && v_dup == VAL - b[g_k]))
#else
__CPROVER_ensures(__CPROVER_return_value ==> SIGN_OK(v_st, objsense, x[g_k], *maxviol))
#endif
#ifdef KIND_ROW
/* the activity is the one computed for the stored primal vector, in the unscaled space */
__CPROVER_ensures(__CPROVER_return_value ==> (g_cpa_calls == 1 && g_cpa_unscaled == 1 && g_cpa_args_ok == 1))
#endif
__CPROVER_ensures(__CPROVER_return_value ==> g_sync_calls == 1)
;

void h_viol(void)
{
   R* a; R* b; R* x; R* scratch; const int* st_solver; const int* st_stored; int n;
   int hasSolReal, realFeas, hasSolRational, ratFeas, hasBasis, isRealLPLoaded, objsense; R* maxviol; R* sumviol;
   g_k = nondet_int(); g_n = nondet_int(); v_st = nondet_int(); g_sense = nondet_int();
   w_viol(a, b, x, scratch, st_solver, st_stored, n, hasSolReal, realFeas, hasSolRational, ratFeas,
          hasBasis, isRealLPLoaded, objsense, maxviol, sumviol);
   CANARY();
}
#endif
