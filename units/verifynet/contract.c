/* C01 verification net: contracts.  R = double (CBMC's bit-precise IEEE model).
 * "For all columns/rows" is stated at the ghost index g_k (havoc'd by the harness, constrained only by 0<=g_k<n).
 * The specification is the property text: on success, every bound / row side is violated by at most maxviol, every
 * dual multiplier / reduced cost has the sign its basis status and the objective sense demand up to maxviol. */
#include "verif_c.h"
#ifndef CAP
#define CAP 16
#endif
typedef double R;
/* enumerations extracted verbatim from the tree (C-compatible text) */
#include "VarStatus.inc"
#include "ObjSense.inc"

R* gp_max; R* gp_sum; R* gp_scratch; int g_scratch_n, g_scratch_used;
int g_k, g_n; int v_st, g_sense;
/* enumerator values for the loop invariants (the loop-contract side file cannot name C enumerators) */
int K_FIXED, K_ON_LOWER, K_ON_UPPER, K_MINIMIZE; R v_dlo, v_dup, v_x;
int g_cpa_calls, g_cpa_unscaled, g_cpa_args_ok, g_sync_calls;
#ifdef WITH_SUMFACT
#define SUMFACT && *sumviol >= *maxviol     /* the running sum dominates the maximum (IEEE addition is monotone) */
#else
#define SUMFACT
#endif
#ifdef R_IS_UF
/* stubs/real_uf.h: binary +,- of R are uninterpreted functions (a generalisation of IEEE +,-) */
double __CPROVER_uninterpreted_fsub(double, double);
#define FSUB(a, b) __CPROVER_uninterpreted_fsub(a, b)
#else
#define FSUB(a, b) ((a) - (b))
#endif
#define NOTNAN(x) ((x) == (x))
#define FINITE(x) (NOTNAN(x) && (x) != (1.0 / 0.0) && (x) != -(1.0 / 0.0))

/* What every caller may rely on about the out-parameters of a violation getter (proved on the real bodies in the
 * INST_VIOL instances, used as the callee contract of _verifySolutionReal): the maximum is >= 0, hence not NaN. */
#define VIOL_OUT_POST(ret, maxviol, sumviol) ((ret) ==> (*(maxviol) >= 0.0))

#ifdef INST_VIOL
/* which test decides success */
#if defined(KIND_BOUND) || defined(KIND_ROW)
#define SUCCESS ((hasSolReal && realFeas) || (hasSolRational && ratFeas))     /* isPrimalFeasible() */
#else
#define SUCCESS (hasBasis != 0)
#endif
/* the value the check is about at the ghost index */
#ifdef KIND_ROW
#define VAL scratch[g_k]     /* activity[g_k] as produced by computePrimalActivity (stub: arbitrary, not NaN) */
#else
#define VAL x[g_k]
#endif

/* sign table for duals (rows) and reduced costs (columns), derived from LP duality, not from the code:
 *   min c'x, lhs <= Ax <= rhs, l <= x <= u, r = c - A'y.
 *   minimisation: nonbasic at lower => r >= 0, at upper => r <= 0, fixed => any, basic/free(zero) => r == 0;
 *   the row multiplier y_i is the reduced cost of the slack s_i = a_i x in [lhs_i, rhs_i]: same table.
 *   maximisation: all inequalities reversed.  "within tolerance": the forbidden sign is bounded by maxviol. */
#define LO_OK(v, m) ((v) >= -(m))     /* may not be more negative than -maxviol */
#define UP_OK(v, m) ((v) <= (m))      /* may not be more positive than +maxviol */
#define SIGN_OK(st, sense, v, m) ( \
   (st) == FIXED ? 1 : \
   (st) == ON_LOWER ? ((sense) == OBJSENSE_MINIMIZE ? LO_OK(v, m) : UP_OK(v, m)) : \
   (st) == ON_UPPER ? ((sense) == OBJSENSE_MINIMIZE ? UP_OK(v, m) : LO_OK(v, m)) : \
   (LO_OK(v, m) && UP_OK(v, m)))

int w_viol(R* a, R* b, R* x, R* scratch, const int* st_solver, const int* st_stored, int n,
           int hasSolReal, int realFeas, int hasSolRational, int ratFeas,
           int hasBasis, int isRealLPLoaded, int objsense, R* maxviol, R* sumviol)
__CPROVER_requires(0 < n && n <= CAP && g_n == n)
__CPROVER_requires(__CPROVER_is_fresh(a, n * sizeof(R)) && __CPROVER_is_fresh(b, n * sizeof(R)))
__CPROVER_requires(__CPROVER_is_fresh(x, n * sizeof(R)) && __CPROVER_is_fresh(scratch, n * sizeof(R)))
__CPROVER_requires(__CPROVER_is_fresh(st_solver, n * sizeof(int)) && __CPROVER_is_fresh(st_stored, n * sizeof(int)))
__CPROVER_requires(__CPROVER_is_fresh(maxviol, sizeof(R)) && __CPROVER_is_fresh(sumviol, sizeof(R)))
__CPROVER_requires(objsense == OBJSENSE_MINIMIZE || objsense == OBJSENSE_MAXIMIZE)
__CPROVER_requires(0 <= g_k && g_k < n && g_sense == objsense)
__CPROVER_requires(v_st == (isRealLPLoaded ? st_solver[g_k] : st_stored[g_k]))
/* what the code assumes about its floating-point inputs (every comparison with NaN is false, so a NaN violation
   would go unnoticed): the two differences are not NaN - for IEEE subtraction that is the case whenever the
   bounds/sides are not NaN (they may be +-inf) and the solution value is finite; multipliers are not NaN */
#if defined(KIND_BOUND)
__CPROVER_requires(NOTNAN(FSUB(a[g_k], x[g_k])) && NOTNAN(FSUB(x[g_k], b[g_k])))
#elif defined(KIND_ROW)
/* same condition on the activity, supplied by the computePrimalActivity stub (it produces the activity) */
#else
__CPROVER_requires(NOTNAN(x[g_k]))
#endif
__CPROVER_assigns(gp_max, gp_sum, gp_scratch, g_scratch_n, g_scratch_used, g_cpa_calls, g_cpa_unscaled, g_cpa_args_ok, g_sync_calls, v_dlo, v_dup, v_x)
__CPROVER_assigns(__CPROVER_object_whole(scratch))          /* the function's own local vector */
__CPROVER_assigns(SUCCESS: *maxviol, *sumviol)                /* frame: on failure nothing is written */
__CPROVER_ensures((__CPROVER_return_value != 0) == (SUCCESS))
__CPROVER_ensures(VIOL_OUT_POST(__CPROVER_return_value, maxviol, sumviol))
__CPROVER_ensures(__CPROVER_return_value ==> (1 SUMFACT))
#if defined(KIND_BOUND) || defined(KIND_ROW)
/* v_dlo, v_dup are set by the wrapper to exactly these two differences (second clause), so that the first clause reads
   lower[g] - x[g] <= maxviol && x[g] - upper[g] <= maxviol */
__CPROVER_ensures(__CPROVER_return_value ==> (v_dlo <= *maxviol && v_dup <= *maxviol))
__CPROVER_ensures(__CPROVER_return_value ==> (v_dlo == FSUB(a[g_k], VAL) && v_dup == FSUB(VAL, b[g_k])))
#else
__CPROVER_ensures(__CPROVER_return_value ==> SIGN_OK(v_st, objsense, x[g_k], *maxviol))
__CPROVER_ensures(v_x == x[g_k])     /* ghost copy used by the loop invariant */
#endif
#ifdef KIND_ROW
/* the activity is the one computed for the stored primal vector, in the unscaled space */
__CPROVER_ensures(__CPROVER_return_value ==> (g_cpa_calls == 1 && g_cpa_unscaled == 1 && g_cpa_args_ok == 1))
#endif
__CPROVER_ensures(__CPROVER_return_value ==> g_sync_calls == 1)
;

void h_viol(void)
{
   R* a; R* b; R* x; R* scratch; const int* st_solver; const int* st_stored; int n;
   int hasSolReal, realFeas, hasSolRational, ratFeas, hasBasis, isRealLPLoaded, objsense; R* maxviol; R* sumviol;
   g_k = nondet_int(); g_n = nondet_int(); v_st = nondet_int(); g_sense = nondet_int();
   K_FIXED = FIXED; K_ON_LOWER = ON_LOWER; K_ON_UPPER = ON_UPPER; K_MINIMIZE = OBJSENSE_MINIMIZE;
   w_viol(a, b, x, scratch, st_solver, st_stored, n, hasSolReal, realFeas, hasSolRational, ratFeas,
          hasBasis, isRealLPLoaded, objsense, maxviol, sumviol);
   CANARY();
}
#endif

#ifdef INST_VERIFY
#include <limits.h>
/* ---- callee contracts: the four getters as seen by _verifySolutionReal --------------------------------------
 * g_ok_X  : whether getter X succeeds in the current state (isPrimalFeasible() resp. hasBasis()), arbitrary;
 * on failure nothing is written (conditional frame, as proved); on success VIOL_OUT_POST holds;
 * g_out_X : ghost copy of the maximum it returned; g_calls_X: number of calls. */
int g_ok_bound, g_ok_row, g_ok_dual, g_ok_redcost;
R g_out_bound, g_out_row, g_out_dual, g_out_redcost;
int g_calls_bound, g_calls_row, g_calls_dual, g_calls_redcost;
int g_resolve_calls, g_resolve_arg, g_unscale_before_resolve, g_scaledflag_at_resolve, g_unscaleLP_calls;
#define GETTER(NAME, X) \
int NAME(double* maxviol, double* sumviol) \
__CPROVER_requires(__CPROVER_w_ok(maxviol, sizeof(double)) && __CPROVER_w_ok(sumviol, sizeof(double))) \
__CPROVER_assigns(g_out_##X, g_calls_##X) \
__CPROVER_assigns(g_ok_##X: *maxviol, *sumviol) \
__CPROVER_ensures((__CPROVER_return_value != 0) == (g_ok_##X != 0)) \
__CPROVER_ensures(VIOL_OUT_POST(__CPROVER_return_value, maxviol, sumviol)) \
__CPROVER_ensures(g_out_##X == *maxviol && g_calls_##X == __CPROVER_old(g_calls_##X) + 1) \
;
GETTER(c_getBoundViolation, bound)
GETTER(c_getRowViolation, row)
GETTER(c_getDualViolation, dual)
GETTER(c_getRedCostViolation, redcost)

/* the maximum _verifySolutionReal compares: what the getter returned, or the initial 0 if it failed */
#define MEAS(X) (g_ok_##X ? g_out_##X : 0.0)
#define VIOLATED (MEAS(bound) >= feastol || MEAS(row) >= feastol || MEAS(dual) >= opttol || MEAS(redcost) >= opttol)

void w_verify(double feastol, double opttol, int* isRealLPScaled, int* unscaleCalls)
__CPROVER_requires(__CPROVER_is_fresh(isRealLPScaled, sizeof(int)) && __CPROVER_is_fresh(unscaleCalls, sizeof(int)))
__CPROVER_requires((*isRealLPScaled == 0 || *isRealLPScaled == 1) && 0 <= *unscaleCalls && *unscaleCalls < INT_MAX)
/* tolerances are not NaN (a NaN tolerance makes every comparison false and switches the net off; C15's concern) */
__CPROVER_requires(NOTNAN(feastol) && NOTNAN(opttol))
__CPROVER_requires(g_calls_bound == 0 && g_calls_row == 0 && g_calls_dual == 0 && g_calls_redcost == 0)
__CPROVER_assigns(*isRealLPScaled, *unscaleCalls, g_out_bound, g_out_row, g_out_dual, g_out_redcost,
                  g_calls_bound, g_calls_row, g_calls_dual, g_calls_redcost,
                  g_resolve_calls, g_resolve_arg, g_unscale_before_resolve, g_scaledflag_at_resolve, g_unscaleLP_calls)
/* every getter is consulted exactly once */
__CPROVER_ensures(g_calls_bound == 1 && g_calls_row == 1 && g_calls_dual == 1 && g_calls_redcost == 1)
/* PROPERTY LINK: returning without a re-solve means every maximum that was measured is strictly below its tolerance
   (feasibility tolerance for bounds and rows, optimality tolerance for duals and reduced costs) */
__CPROVER_ensures(g_resolve_calls == 0 ==> ((g_ok_bound ==> g_out_bound < feastol) && (g_ok_row ==> g_out_row < feastol)
                                           && (g_ok_dual ==> g_out_dual < opttol) && (g_ok_redcost ==> g_out_redcost < opttol)))
/* exact control flow: one re-solve iff some maximum reaches its tolerance; never more than one */
__CPROVER_ensures((g_resolve_calls == 1) == (VIOLATED) && (g_resolve_calls == 0 || g_resolve_calls == 1))
/* the re-solve runs without presolving, on an unscaled LP: a persistently scaled LP is unscaled first, exactly once */
__CPROVER_ensures(g_resolve_calls == 1 ==> (g_resolve_arg == 0 && g_scaledflag_at_resolve == 0 && *isRealLPScaled == 0
                  && g_unscaleLP_calls == __CPROVER_old(*isRealLPScaled) && g_unscale_before_resolve == g_unscaleLP_calls
                  && *unscaleCalls == __CPROVER_old(*unscaleCalls) + __CPROVER_old(*isRealLPScaled)))
__CPROVER_ensures(g_resolve_calls == 0 ==> (g_unscaleLP_calls == 0 && *isRealLPScaled == __CPROVER_old(*isRealLPScaled)
                  && *unscaleCalls == __CPROVER_old(*unscaleCalls)))
;
void h_verify(void)
{
   double feastol, opttol; int* isRealLPScaled; int* unscaleCalls;
   g_ok_bound = nondet_int(); g_ok_row = nondet_int(); g_ok_dual = nondet_int(); g_ok_redcost = nondet_int();
   g_calls_bound = 0; g_calls_row = 0; g_calls_dual = 0; g_calls_redcost = 0;
   w_verify(feastol, opttol, isRealLPScaled, unscaleCalls);
   CANARY();
}
#endif

#ifdef INST_UNSCALE
int g_cnt[7]; int g_lp_ok[7]; int g_vec[7]; const void* gp_lp; const void* gp_sol[7];
/* every one of primal / slacks / dual / reduced costs is unscaled exactly once, with the LP of the call and with its
 * own vector; the ray / the Farkas proof exactly when present */
#define ONCE(k) (g_cnt[k] == 1 && g_lp_ok[k] == 1 && g_vec[k] == (k))
void w_unscale(int hasPrimalRay, int hasDualFarkas, int persistent)
__CPROVER_assigns(__CPROVER_object_whole(g_cnt), __CPROVER_object_whole(g_lp_ok), __CPROVER_object_whole(g_vec), gp_lp, __CPROVER_object_whole(gp_sol))
__CPROVER_ensures(ONCE(1) && ONCE(2) && ONCE(3) && ONCE(4))
__CPROVER_ensures(hasPrimalRay ? ONCE(5) : g_cnt[5] == 0)
__CPROVER_ensures(hasDualFarkas ? ONCE(6) : g_cnt[6] == 0)
;
void h_unscale(void)
{
   int hasPrimalRay, hasDualFarkas, persistent;
   w_unscale(hasPrimalRay, hasDualFarkas, persistent);
   CANARY();
}
#endif

#ifdef INST_OBJVAL
#define Status SolverStatus_c
#include "SolverStatus.inc"
#undef Status
/* status -> value table of objValueReal(): +-infinity parameter by sense for UNBOUNDED / INFEASIBLE, the stored
 * objective if any solution exists (after synchronising the real solution), 0 otherwise */
double w_objval(int status, double infty, int objsense, int hasSolReal, int hasSolRational, double objVal)
__CPROVER_requires(objsense == OBJSENSE_MINIMIZE || objsense == OBJSENSE_MAXIMIZE)
__CPROVER_requires(NOTNAN(infty) && NOTNAN(objVal))
__CPROVER_assigns(g_sync_calls)
__CPROVER_ensures(status == UNBOUNDED ==> __CPROVER_return_value == (objsense == OBJSENSE_MAXIMIZE ? infty : -infty))
__CPROVER_ensures(status == INFEASIBLE ==> __CPROVER_return_value == (objsense == OBJSENSE_MAXIMIZE ? -infty : infty))
__CPROVER_ensures((status != UNBOUNDED && status != INFEASIBLE && (hasSolReal || hasSolRational)) ==> (__CPROVER_return_value == objVal && g_sync_calls == 1))
__CPROVER_ensures((status != UNBOUNDED && status != INFEASIBLE && !hasSolReal && !hasSolRational) ==> __CPROVER_return_value == 0.0)
;
void h_objval(void)
{
   int status, objsense, hasSolReal, hasSolRational; double infty, objVal;
   w_objval(status, infty, objsense, hasSolReal, hasSolRational, objVal);
   CANARY();
}
#endif

#ifdef INST_PRESOLOBJ
/* _storeSolutionRealFromPresol(), objective region: with zero columns the stored objective is exactly the objective
 * offset (the corner case that pins the offset term of "objective = c'x + offset"); for n > 0 only memory safety and
 * termination are claimed (floating-point dot product). */
double w_presolobj(double offset, int n, double* primal, double* obj)
__CPROVER_requires(0 <= n && n <= CAP && g_n == n && NOTNAN(offset))
__CPROVER_requires(__CPROVER_is_fresh(primal, CAP * sizeof(double)) && __CPROVER_is_fresh(obj, CAP * sizeof(double)))
__CPROVER_assigns()
__CPROVER_ensures(n == 0 ==> __CPROVER_return_value == offset)
;
void h_presolobj(void)
{
   double offset; int n; double* primal; double* obj;
   g_n = nondet_int();
   w_presolobj(offset, n, primal, obj);
   CANARY();
}
#endif
