/* C01: the verification net of SoPlexBase<R> (src/soplex.hpp, src/soplex/solvereal.hpp) at R = double.
 * Function bodies are #included verbatim from slices cut out of the current tree; the host H declares the
 * data members the bodies touch under their real names (conformance-checked against soplex.h).  Enumerations
 * (VarStatus, IntParam, RealParam, OBJSENSE_*) are extracted from the tree, never re-typed. */
#include "verif.h"
typedef double R;
typedef double Real;

/* VectorBase<R> v(n): the real class allocates n elements.  Allocation is modelled by a caller-supplied fresh
 * scratch buffer (gp_scratch, exactly g_scratch_n elements); the constructor asserts the requested dimension. */
extern "C" { extern R* gp_scratch; extern int g_scratch_n; extern int g_scratch_used; }
#define VectorBase VectorBaseRaw
#include "containers.h"
#undef VectorBase
template <class T> struct VectorBase : VectorBaseRaw<T>
{
   VectorBase() {}
   VectorBase(int n)
   {
      __CPROVER_assert(n == g_scratch_n && g_scratch_used == 0, "VectorBase(n): one scratch vector of the announced dimension");
      g_scratch_used = 1;
      this->val = gp_scratch; this->dimen = n;
   }
};

#define SPX_MSG_INFO1(...)
#define SPX_MSG_INFO2(...)
#define SPX_MSG_INFO3(...)

/* names-only templates serving the qualified names used by the bodies */
template <class T> struct SPxSolverBase
{
#include "VarStatus.inc"
#include "SolverStatus.inc"
};
template <class T> struct SoPlexBase
{
#include "IntParam.inc"
#include "RealParam.inc"
#include "ObjSense.inc"
};
typedef SPxSolverBase<R>::VarStatus VarStatus;

/* DataArray<VarStatus> over an int array (wrapper parameters must be pointers to scalars) */
struct StatusArray
{
   const int* data; int thesize;
   int size() const { return thesize; }
   VarStatus operator[](int n) const { __CPROVER_assert(0 <= n && n < thesize, "DataArray index in bounds"); return (VarStatus)data[n]; }
};

extern "C" {
   extern int g_k; extern int g_cpa_calls, g_cpa_unscaled, g_cpa_args_ok, g_sync_calls;
   extern R* gp_max; extern R* gp_sum; extern R* gp_a; extern R* gp_b; extern R* gp_x; extern R v_dlo, v_dup;
}

/* SPxLPBase<R>: only what the violation getters read.  lowerUnscaled(i) etc. are accessors of the LP "as the
 * user entered it" (the real ones undo the scaling through the scaler, C09); the contracts are relative to them. */
struct LPStub
{
   VectorBase<R> low, up, left, right;
   int nc, nr;
   int nCols() const { return nc; }
   int nRows() const { return nr; }
   R lowerUnscaled(int i) const { return low[i]; }
   R upperUnscaled(int i) const { return up[i]; }
   R lhsUnscaled(int i) const { return left[i]; }
   R rhsUnscaled(int i) const { return right[i]; }
   /* matrix-vector product A*primal: stubbed as an arbitrary non-NaN result; the row contract is relative to it */
   void computePrimalActivity(const VectorBase<R>& primal, VectorBase<R>& activity, const bool unscaled) const
   {
      g_cpa_calls++;
      g_cpa_unscaled = unscaled;
      g_cpa_args_ok = (primal.val == primal_expected && activity.dimen == nr);
      R a = nondet_double();
      __CPROVER_assume(a == a);      /* activity is not NaN (listed in "trusted") */
      if(0 <= g_k && g_k < activity.dimen) { activity.val[g_k] = a; v_dlo = left.val[g_k] - a; v_dup = a - right.val[g_k]; }
   }
   const R* primal_expected;
};

struct SolverStub
{
   StatusArray rstat, cstat;
   VarStatus getBasisRowStatus(int row) const { return rstat[row]; }
   VarStatus getBasisColStatus(int col) const { return cstat[col]; }
};

struct SolStub
{
   VectorBase<R> _primal, _slacks, _dual, _redCost;
   R _objVal;
   bool _isPrimalFeasible;
   bool isPrimalFeasible() const { return _isPrimalFeasible; }
};
struct SolRationalStub
{
   bool _isPrimalFeasible;
   bool isPrimalFeasible() const { return _isPrimalFeasible; }
};
struct SettingsStub
{
   int _intParamValues[SoPlexBase<R>::INTPARAM_COUNT];
   Real _realParamValues[SoPlexBase<R>::REALPARAM_COUNT];
};

struct SoPlexHost : SoPlexBase<R>
{
   SettingsStub* _currentSettings;
   SolverStub _solver;
   LPStub* _realLP;
   bool _isRealLPLoaded;
   StatusArray _basisStatusRows, _basisStatusCols;
   SolStub _solReal;
   SolRationalStub _solRational;
   bool _hasBasis, _hasSolReal, _hasSolRational;

   /* copies the rational solution into _solReal when only that one exists; the contracts speak about _solReal as
    * it is after this call (no-op stub, call recorded) */
   void _syncRealSolution() { g_sync_calls++; }
   /* only reachable in the no-basis branch of basisColStatus(), which the getters exclude by their first test */
   R lowerReal(int) const { __CPROVER_assert(0, "slack-basis branch of basisColStatus unreachable"); return 0; }
   R upperReal(int) const { __CPROVER_assert(0, "slack-basis branch of basisColStatus unreachable"); return 0; }

   int intParam(const IntParam param) const
   {
#include "intParam.inc"
   }
   Real realParam(const RealParam param) const
   {
#include "realParam.inc"
   }
   bool hasBasis() const
   {
#include "hasBasis.inc"
   }
   int numCols() const
   {
#include "numCols.inc"
   }
   int numRows() const
   {
#include "numRows.inc"
   }
   bool isPrimalFeasible() const
   {
#include "isPrimalFeasible.inc"
   }
   VarStatus basisRowStatus(int row) const
   {
#include "basisRowStatus.inc"
   }
   VarStatus basisColStatus(int col) const
   {
#include "basisColStatus.inc"
   }
};

#ifdef INST_VIOL
struct H : SoPlexHost
{
   R* maxviol_; R* sumviol_;
   bool body()
   {
      R& maxviol = *maxviol_;
      R& sumviol = *sumviol_;
#include SLICE
   }
};

/* One wrapper for the four getters; unused arrays are simply not read by the body.
 *  a,b   : lower/upper (bounds) or lhs/rhs (rows)
 *  x     : _solReal._primal (bounds, rows), _solReal._dual (duals), _solReal._redCost (reduced costs)
 *  scratch: storage handed out by `VectorBase<R> activity(numRows())`
 *  st_solver / st_stored: basis statuses as answered by _solver / as stored in _basisStatus{Rows,Cols} */
extern "C" int w_viol(R* a, R* b, R* x, R* scratch, const int* st_solver, const int* st_stored, int n,
                      int hasSolReal, int realFeas, int hasSolRational, int ratFeas,
                      int hasBasis, int isRealLPLoaded, int objsense, R* maxviol, R* sumviol)
{
   VIN("n", n); VIN("objsense", objsense); VIN("isRealLPLoaded", isRealLPLoaded);
   LPStub lp; SettingsStub set; H h;
   lp.nc = n; lp.nr = n;
   lp.low.val = a; lp.low.dimen = n; lp.up.val = b; lp.up.dimen = n;
   lp.left.val = a; lp.left.dimen = n; lp.right.val = b; lp.right.dimen = n;
   lp.primal_expected = x;
   set._intParamValues[SoPlexBase<R>::OBJSENSE] = objsense;
   h._currentSettings = &set; h._realLP = &lp;
   h._solver.rstat.data = st_solver; h._solver.rstat.thesize = n; h._solver.cstat.data = st_solver; h._solver.cstat.thesize = n;
   h._basisStatusRows.data = st_stored; h._basisStatusRows.thesize = n; h._basisStatusCols.data = st_stored; h._basisStatusCols.thesize = n;
   h._isRealLPLoaded = isRealLPLoaded != 0;
   h._solReal._primal.val = x; h._solReal._primal.dimen = n;
   h._solReal._dual.val = x; h._solReal._dual.dimen = n;
   h._solReal._redCost.val = x; h._solReal._redCost.dimen = n;
   h._solReal._isPrimalFeasible = realFeas != 0; h._solRational._isPrimalFeasible = ratFeas != 0;
   h._hasSolReal = hasSolReal != 0; h._hasSolRational = hasSolRational != 0; h._hasBasis = hasBasis != 0;
   h.maxviol_ = maxviol; h.sumviol_ = sumviol;
   gp_max = maxviol; gp_sum = sumviol; gp_a = a; gp_b = b; gp_x = x; gp_scratch = scratch; g_scratch_n = n; g_scratch_used = 0;
   g_cpa_calls = 0; g_sync_calls = 0;
#ifdef KIND_BOUND
   /* ghost copies of the two differences the contract speaks about (bit-exact; see contract.c) */
   if(0 <= g_k && g_k < n) { v_dlo = a[g_k] - x[g_k]; v_dup = x[g_k] - b[g_k]; }
#endif
   return h.body() ? 1 : 0;
}
#endif
