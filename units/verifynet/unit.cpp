/* C01: the verification net of SoPlexBase<R> (src/soplex.hpp, src/soplex/solvereal.hpp) at R = double.
 * Function bodies are #included verbatim from slices cut out of the current tree; the host H declares the
 * data members the bodies touch under their real names (conformance-checked against soplex.h).  Enumerations
 * (VarStatus, IntParam, RealParam, OBJSENSE_*) are extracted from the tree, never re-typed. */
#include "verif.h"
#ifdef R_IS_UF
#include "real_uf.h"      /* double with uninterpreted binary +,- (see header): getBoundViolation, getRowViolation */
typedef RealUF R;
static inline double dval(const R& r) { return r.v; }
#else
typedef double R;          /* CBMC's bit-precise IEEE double */
static inline double dval(const R& r) { return r; }
#endif
typedef double Real;

/* VectorBase<R> v(n): the real class allocates n elements.  Allocation is modelled by a caller-supplied fresh
 * scratch buffer (gp_scratch, exactly g_scratch_n elements); the constructor asserts the requested dimension. */
extern "C" { extern double* gp_scratch; extern int g_scratch_n; extern int g_scratch_used; }
#define VectorBase VectorBaseRaw
#include "containers.h"
#undef VectorBase
template <class T> struct VectorBase : VectorBaseRaw<T>
{
   VectorBase() {}
   VectorBase(int n)
   {
      __CPROVER_assert(n == g_scratch_n && g_scratch_used == 0, "VectorBase(n): one scratch vector of the announced dimension");
      g_scratch_used = 1;
      this->val = (T*)gp_scratch; this->dimen = n;
   }
};

#define SPX_MSG_INFO1(...)
#define SPX_MSG_INFO2(...)
#define SPX_MSG_INFO3(...)

/* names-only templates serving the qualified names used by the bodies */
template <class T> struct SPxSolverBase
{
#include "VarStatus.inc"
#include "SolverStatus.inc"
};
template <class T> struct SoPlexBase
{
#include "IntParam.inc"
#include "RealParam.inc"
#include "ObjSense.inc"
};
typedef SPxSolverBase<R>::VarStatus VarStatus;

/* DataArray<VarStatus> over an int array (wrapper parameters must be pointers to scalars) */
struct StatusArray
{
   const int* data; int thesize;
   int size() const { return thesize; }
   VarStatus operator[](int n) const { __CPROVER_assert(0 <= n && n < thesize, "DataArray index in bounds"); return (VarStatus)data[n]; }
};

extern "C" {
   extern int g_k; extern int g_cpa_calls, g_cpa_unscaled, g_cpa_args_ok, g_sync_calls;
   extern double* gp_max; extern double* gp_sum; extern double v_dlo, v_dup, v_x;
}

/* SPxLPBase<R>: only what the violation getters read.  lowerUnscaled(i) etc. are accessors of the LP "as the
 * user entered it" (the real ones undo the scaling through the scaler, C09); the contracts are relative to them. */
struct LPStub
{
   VectorBase<R> low, up, left, right;
   int nc, nr;
   int nCols() const { return nc; }
   int nRows() const { return nr; }
   R lowerUnscaled(int i) const { return low[i]; }
   R upperUnscaled(int i) const { return up[i]; }
   R lhsUnscaled(int i) const { return left[i]; }
   R rhsUnscaled(int i) const { return right[i]; }
   /* matrix-vector product A*primal: stubbed as an arbitrary non-NaN result; the row contract is relative to it */
   void computePrimalActivity(const VectorBase<R>& primal, VectorBase<R>& activity, const bool unscaled) const
   {
      g_cpa_calls++;
      g_cpa_unscaled = unscaled;
      g_cpa_args_ok = (primal.val == primal_expected && activity.dimen == nr);
      double nd = nondet_double(); R a; a = nd;
      if(0 <= g_k && g_k < activity.dimen)
      {
         activity.val[g_k] = a; v_dlo = dval(left.val[g_k] - a); v_dup = dval(a - right.val[g_k]);
         /* lhs - activity and activity - rhs are not NaN (IEEE: sides not NaN, activity finite); listed in "trusted" */
         __CPROVER_assume(v_dlo == v_dlo && v_dup == v_dup);
      }
   }
   const R* primal_expected;
};

/* Tolerances: the two getters are the real bodies (spxdefines.cpp) over the real member names */
struct TolStub
{
   Real s_floating_point_feastol, s_floating_point_opttol;
   Real floatingPointFeastol()
   {
#include "floatingPointFeastol.inc"
   }
   Real floatingPointOpttol()
   {
#include "floatingPointOpttol.inc"
   }
};
extern "C" { extern int g_unscaleLP_calls; }
struct SolverStub
{
   StatusArray rstat, cstat;
   TolStub* tol;
   TolStub* tolerances() const { return tol; }       /* real: const std::shared_ptr<Tolerances>& */
   void unscaleLPandReloadBasis() { g_unscaleLP_calls++; }
   VarStatus getBasisRowStatus(int row) const { return rstat[row]; }
   VarStatus getBasisColStatus(int col) const { return cstat[col]; }
};

struct SolStub
{
   VectorBase<R> _primal, _slacks, _primalRay, _dual, _redCost, _dualFarkas;
   R _objVal;
   bool _isPrimalFeasible, _hasPrimalRay, _hasDualFarkas;
   bool isPrimalFeasible() const { return _isPrimalFeasible; }
   bool hasPrimalRay() const { return _hasPrimalRay; }
   bool hasDualFarkas() const { return _hasDualFarkas; }
};
struct SolRationalStub
{
   bool _isPrimalFeasible;
   bool isPrimalFeasible() const { return _isPrimalFeasible; }
};
struct SettingsStub
{
   int _intParamValues[SoPlexBase<R>::INTPARAM_COUNT];
   Real _realParamValues[SoPlexBase<R>::REALPARAM_COUNT];
};

struct SoPlexHost : SoPlexBase<R>
{
   SettingsStub* _currentSettings;
   SolverStub _solver;
   LPStub* _realLP;
   bool _isRealLPLoaded;
   StatusArray _basisStatusRows, _basisStatusCols;
   SolStub _solReal;
   SolRationalStub _solRational;
   bool _hasBasis, _hasSolReal, _hasSolRational;
   bool _isRealLPScaled;
   int _unscaleCalls;
   SPxSolverBase<R>::Status _status;

   /* copies the rational solution into _solReal when only that one exists; the contracts speak about _solReal as
    * it is after this call (no-op stub, call recorded) */
   void _syncRealSolution() { g_sync_calls++; }
   /* only reachable in the no-basis branch of basisColStatus(), which the getters exclude by their first test */
   R lowerReal(int) const { __CPROVER_assert(0, "slack-basis branch of basisColStatus unreachable"); return 0; }
   R upperReal(int) const { __CPROVER_assert(0, "slack-basis branch of basisColStatus unreachable"); return 0; }

   int intParam(const IntParam param) const
   {
#include "intParam.inc"
   }
   Real realParam(const RealParam param) const
   {
#include "realParam.inc"
   }
   bool hasBasis() const
   {
#include "hasBasis.inc"
   }
   bool hasSol() const
   {
#include "hasSol.inc"
   }
   SPxSolverBase<R>::Status status() const
   {
#include "status.inc"
   }
   int numCols() const
   {
#include "numCols.inc"
   }
   int numRows() const
   {
#include "numRows.inc"
   }
   bool isPrimalFeasible() const
   {
#include "isPrimalFeasible.inc"
   }
   VarStatus basisRowStatus(int row) const
   {
#include "basisRowStatus.inc"
   }
   VarStatus basisColStatus(int col) const
   {
#include "basisColStatus.inc"
   }
};

#ifdef INST_VIOL
struct H : SoPlexHost
{
   R* maxviol_; R* sumviol_;
   bool body()
   {
      R& maxviol = *maxviol_;
      R& sumviol = *sumviol_;
#include SLICE
   }
};

/* One wrapper for the four getters; unused arrays are simply not read by the body.
 *  a,b   : lower/upper (bounds) or lhs/rhs (rows)
 *  x     : _solReal._primal (bounds, rows), _solReal._dual (duals), _solReal._redCost (reduced costs)
 *  scratch: storage handed out by `VectorBase<R> activity(numRows())`
 *  st_solver / st_stored: basis statuses as answered by _solver / as stored in _basisStatus{Rows,Cols} */
extern "C" int w_viol(double* a_, double* b_, double* x_, double* scratch, const int* st_solver, const int* st_stored, int n,
                      int hasSolReal, int realFeas, int hasSolRational, int ratFeas,
                      int hasBasis, int isRealLPLoaded, int objsense, double* maxviol, double* sumviol)
{
   R* a = (R*)a_; R* b = (R*)b_; R* x = (R*)x_;
   VIN("n", n); VIN("objsense", objsense); VIN("isRealLPLoaded", isRealLPLoaded);
   LPStub lp; SettingsStub set; H h;
   lp.nc = n; lp.nr = n;
   lp.low.val = a; lp.low.dimen = n; lp.up.val = b; lp.up.dimen = n;
   lp.left.val = a; lp.left.dimen = n; lp.right.val = b; lp.right.dimen = n;
   lp.primal_expected = x;
   set._intParamValues[SoPlexBase<R>::OBJSENSE] = objsense;
   h._currentSettings = &set; h._realLP = &lp;
   h._solver.rstat.data = st_solver; h._solver.rstat.thesize = n; h._solver.cstat.data = st_solver; h._solver.cstat.thesize = n;
   h._basisStatusRows.data = st_stored; h._basisStatusRows.thesize = n; h._basisStatusCols.data = st_stored; h._basisStatusCols.thesize = n;
   h._isRealLPLoaded = isRealLPLoaded != 0;
   h._solReal._primal.val = x; h._solReal._primal.dimen = n;
   h._solReal._dual.val = x; h._solReal._dual.dimen = n;
   h._solReal._redCost.val = x; h._solReal._redCost.dimen = n;
   h._solReal._isPrimalFeasible = realFeas != 0; h._solRational._isPrimalFeasible = ratFeas != 0;
   h._hasSolReal = hasSolReal != 0; h._hasSolRational = hasSolRational != 0; h._hasBasis = hasBasis != 0;
   h.maxviol_ = (R*)maxviol; h.sumviol_ = (R*)sumviol;
   gp_max = maxviol; gp_sum = sumviol; gp_scratch = scratch; g_scratch_n = n; g_scratch_used = 0;
   g_cpa_calls = 0; g_sync_calls = 0;
   if(0 <= g_k && g_k < n) v_x = dval(x[g_k]);
#ifdef KIND_BOUND
   /* ghost copies of the two differences the contract speaks about (bit-exact; see contract.c) */
   if(0 <= g_k && g_k < n) { v_dlo = dval(a[g_k] - x[g_k]); v_dup = dval(x[g_k] - b[g_k]); }
#endif
   return h.body() ? 1 : 0;
}
#endif

#ifdef INST_VERIFY
/* The four getters are replaced by their contracts (contract.c: c_get*Violation, the out-parameter part of the
 * contract proved on the real bodies in the INST_VIOL instances, plus ghost copies of what they returned). */
extern "C" {
   int c_getBoundViolation(double* maxviol, double* sumviol);
   int c_getRowViolation(double* maxviol, double* sumviol);
   int c_getDualViolation(double* maxviol, double* sumviol);
   int c_getRedCostViolation(double* maxviol, double* sumviol);
   extern int g_resolve_calls, g_resolve_arg, g_unscale_before_resolve, g_scaledflag_at_resolve;
}
struct H : SoPlexHost
{
   bool getBoundViolation(R& maxviol, R& sumviol) { return c_getBoundViolation(&maxviol, &sumviol) != 0; }
   bool getRowViolation(R& maxviol, R& sumviol) { return c_getRowViolation(&maxviol, &sumviol) != 0; }
   bool getDualViolation(R& maxviol, R& sumviol) { return c_getDualViolation(&maxviol, &sumviol) != 0; }
   bool getRedCostViolation(R& maxviol, R& sumviol) { return c_getRedCostViolation(&maxviol, &sumviol) != 0; }
   /* the re-solve: recorded, not executed */
   void _preprocessAndSolveReal(bool applyPreprocessing)
   {
      g_resolve_calls++; g_resolve_arg = applyPreprocessing;
      g_unscale_before_resolve = g_unscaleLP_calls; g_scaledflag_at_resolve = _isRealLPScaled;
   }
   void body()
   {
#include "_verifySolutionReal.inc"
   }
};
extern "C" void w_verify(double feastol, double opttol, int* isRealLPScaled, int* unscaleCalls)
{
   VIN("feastol", feastol); VIN("opttol", opttol); VIN("isRealLPScaled", *isRealLPScaled);
   TolStub tol; H h;
   tol.s_floating_point_feastol = feastol; tol.s_floating_point_opttol = opttol;
   h._solver.tol = &tol;
   h._isRealLPScaled = *isRealLPScaled != 0; h._unscaleCalls = *unscaleCalls; h._hasSolReal = true;
   g_resolve_calls = 0; g_unscaleLP_calls = 0;
   h.body();
   *isRealLPScaled = h._isRealLPScaled; *unscaleCalls = h._unscaleCalls;
}
#endif

#ifdef INST_UNSCALE
/* SPxScaler<R>: ghost-recording stubs.  Each records how often it ran, whether it was handed the LP of the call and
 * which member of _solReal it was given (1 primal, 2 slacks, 3 dual, 4 redCost, 5 primalRay, 6 dualFarkas). */
extern "C" { extern int g_cnt[7]; extern int g_lp_ok[7]; extern int g_vec[7]; extern const void* gp_lp; extern const void* gp_sol[7]; }
struct ScalerStub
{
   void rec(int which, const LPStub& lp, VectorBase<R>& v) const
   {
      g_cnt[which]++; g_lp_ok[which] = ((const void*)&lp == gp_lp);
      g_vec[which] = (const void*)&v == gp_sol[1] ? 1 : (const void*)&v == gp_sol[2] ? 2 : (const void*)&v == gp_sol[3] ? 3 :
                     (const void*)&v == gp_sol[4] ? 4 : (const void*)&v == gp_sol[5] ? 5 : (const void*)&v == gp_sol[6] ? 6 : 0;
   }
   void unscalePrimal(const LPStub& lp, VectorBase<R>& x) const { rec(1, lp, x); }
   void unscaleSlacks(const LPStub& lp, VectorBase<R>& s) const { rec(2, lp, s); }
   void unscaleDual(const LPStub& lp, VectorBase<R>& pi) const { rec(3, lp, pi); }
   void unscaleRedCost(const LPStub& lp, VectorBase<R>& r) const { rec(4, lp, r); }
   void unscalePrimalray(const LPStub& lp, VectorBase<R>& ray) const { rec(5, lp, ray); }
   void unscaleDualray(const LPStub& lp, VectorBase<R>& ray) const { rec(6, lp, ray); }
};
struct H : SoPlexHost
{
   ScalerStub* _scaler;
   LPStub* LP_; bool persistent;
   void body()
   {
      LPStub& LP = *LP_;
#include "_unscaleSolutionReal.inc"
   }
};
extern "C" void w_unscale(int hasPrimalRay, int hasDualFarkas, int persistent)
{
   LPStub lp, other; ScalerStub sc; H h;
   h._scaler = &sc; h._realLP = &other; h.LP_ = &lp; h.persistent = persistent != 0;
   h._solReal._hasPrimalRay = hasPrimalRay != 0; h._solReal._hasDualFarkas = hasDualFarkas != 0;
   gp_lp = &lp;
   gp_sol[1] = &h._solReal._primal; gp_sol[2] = &h._solReal._slacks; gp_sol[3] = &h._solReal._dual;
   gp_sol[4] = &h._solReal._redCost; gp_sol[5] = &h._solReal._primalRay; gp_sol[6] = &h._solReal._dualFarkas;
#define Z(k) g_cnt[k] = 0; g_lp_ok[k] = 0; g_vec[k] = 0;
   Z(1) Z(2) Z(3) Z(4) Z(5) Z(6)
#undef Z
   h.body();
}
#endif

#ifdef INST_OBJVAL
struct H : SoPlexHost
{
   R body()
   {
#include "objValueReal.inc"
   }
};
extern "C" double w_objval(int status, double infty, int objsense, int hasSolReal, int hasSolRational, double objVal)
{
   SettingsStub set; H h;
   set._intParamValues[SoPlexBase<R>::OBJSENSE] = objsense;
   set._realParamValues[SoPlexBase<R>::INFTY] = infty;
   h._currentSettings = &set;
   h._status = (SPxSolverBase<R>::Status)status;
   h._hasSolReal = hasSolReal != 0; h._hasSolRational = hasSolRational != 0;
   h._solReal._objVal = objVal;
   g_sync_calls = 0;
   return h.body();
}
#endif

#ifdef INST_PRESOLOBJ
/* StableSum<double> (stablesum.h): the two data members and the constructor are replicated (conformance-checked), the
 * two operators are the real bodies */
template <class T> struct StableSum;
template <> struct StableSum<double>
{
   double sum; double c;
   StableSum() { sum = 0; c = 0; }                 /* as the real default constructor: sum(0), c(0) */
   StableSum(double init) { sum = init; c = 0; }
   void operator+=(double input)
   {
#include "StableSum_add.inc"
   }
   operator double() const
   {
#include "StableSum_double.inc"
   }
};
extern "C" { extern int g_n; }
struct H : SoPlexHost
{
   VectorBase<R> objvec;
   R objReal(int i) const { return objvec[i]; }
   /* the region of _storeSolutionRealFromPresol() that computes the objective value, verbatim */
   void body()
   {
#include "presol_objective.inc"
   }
};
extern "C" double w_presolobj(double offset, int n, double* primal, double* obj)
{
   LPStub lp; SettingsStub set; H h;
   lp.nc = n; lp.nr = 0;
   set._realParamValues[SoPlexBase<R>::OBJ_OFFSET] = offset;
   h._currentSettings = &set; h._realLP = &lp;
   h._solReal._primal.val = primal; h._solReal._primal.dimen = n;
   h.objvec.val = obj; h.objvec.dimen = n;
   h.body();
   return h._solReal._objVal;
}
#endif
