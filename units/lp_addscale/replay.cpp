/* Native replay for lp_addscale: REAL SPxLPBase<double>::addRow / addCol with scale == true on a scaled LP, where the new
 * vector may refer to columns/rows that do not exist yet.  Compiled with -DNDEBUG under ASan so that an out-of-bounds read
 * of the scale-exponent array is reported as such (with assertions on, DataArray::operator[] aborts instead). */
#include "replay_util.h"
#define protected public
#define private public
#include "soplex.h"
#undef protected
#undef private
#include <cmath>
using namespace soplex;

int main(int argc, char** argv)
{
   if(argc < 3) return 2;
   ReplayIn in(argv[1]);
   std::string inst = argv[2];
   bool newrow = inst == "doAddRow";
   int nr = (int)in.geti("nr", 1), nc = (int)in.geti("nc", 1), nsize = (int)in.geti("nsize", 1);
   if(nr < 0 || nc < 0 || nr > 16 || nc > 16 || nsize < 1 || nsize > 8) return 2;
   std::vector<int> nidxs = in.getarr("nidxs", nsize, 0);
   int E = 0;
   SPxLPBase<double> lp;
   lp.setTolerances(std::make_shared<Tolerances>());
   DSVectorBase<double> empty;
   for(int i = 0; i < nr; i++) lp.addRow(LPRowBase<double>(-double(infinity), empty, double(infinity)));
   for(int i = 0; i < nc; i++) lp.addCol(LPColBase<double>(0.0, empty, double(infinity), 0.0));
   for(int i = 0; i < nr; i++) lp.LPRowSetBase<double>::scaleExp[i] = 2;
   for(int i = 0; i < nc; i++) lp.LPColSetBase<double>::scaleExp[i] = -3;
   SPxEquiliSC<double> sc;
   std::shared_ptr<Tolerances> tol = std::make_shared<Tolerances>();
   sc.setTolerances(tol);
   lp.lp_scaler = &sc;
   lp.setScalingInfo(true);
   DSVectorBase<double> v(nsize);
   int maxidx = -1;
   for(int k = 0; k < nsize; k++)
   {
      int idx = nidxs[k];
      if(idx < 0 || idx > 16) return 2;
      bool dup = false;
      for(int q = 0; q < v.size(); q++) dup = dup || v.index(q) == idx;
      if(dup) continue;
      v.add(idx, 4.0);
      if(idx > maxidx) maxidx = idx;
   }
   std::cout << (newrow ? "addRow" : "addCol") << "(scale=true) on a scaled " << nr << "x" << nc << " LP, new vector refers to index " << maxidx << std::endl;
   if(newrow) lp.addRow(LPRowBase<double>(-1.0, v, 1.0), true);
   else lp.addCol(LPColBase<double>(1.0, v, 8.0, 0.0), true);
   /* every entry must read back unscaled as entered */
   int own = newrow ? nr : nc;
   for(int q = 0; q < v.size(); q++)
   {
      double back = newrow ? sc.getCoefUnscaled(lp, own, v.index(q)) : sc.getCoefUnscaled(lp, v.index(q), own);
      if(back != 4.0) REPLAY_FAIL("entry with index " << v.index(q) << " entered as 4 reads back unscaled as " << back);
   }
   (void)E;
   REPLAY_OK();
}
