/* SPxScaler<R>::computeScaleExp(const SVectorBase<R>& vec, const DataArray<int>& oldScaleExp) const (spxscaler.hpp), R = double
 * with the arithmetic helpers uninterpreted: memory safety for ANY non-negative indices (the vector of a row/column being
 * added may refer to columns/rows that do not exist yet), result = 0 for an all-zero vector. */
#include "verif.h"
#include "containers.h"
typedef double R;
extern "C" { extern int g_n, g_frexp; }
static inline R spxLdexp(R x, int e) { return nondet_double(); }
static inline R spxAbs(R x) { R r = nondet_double(); __CPROVER_assume(r >= 0.0); return r; }
template <class A, class B, class C> static inline bool GT(A a, B b, C eps) { return nondet_bool(); }
static inline R spxFrexp(R x, int* e) { *e = g_frexp; return nondet_double(); }
struct Tol { R epsilon() const { return 1e-16; } };
struct H
{
   const SVectorBase<R>* vec_; const DataArray<int>* old_; Tol tol;
   const Tol* tolerances() const { return (Tol*)&tol; }
   int body() const
   {
      const SVectorBase<R>& vec = *vec_;
      const DataArray<int>& oldScaleExp = *old_;
#include "computeScaleExp.inc"
   }
};
extern "C" int w_cse(R* vals, int* idxs, int n, int* oldexp, int nold)
{
   SVectorBase<R> v; v.vals = vals; v.idxs = idxs; v.used = n; v.cap = n; v.bound = 2147483647;   /* no bound on the indices */
   DataArray<int> d; d.data = oldexp; d.thesize = nold;
   H h; h.vec_ = &v; h.old_ = &d;
   return h.body();
}
