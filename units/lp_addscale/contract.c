#include "verif_c.h"
#ifndef CAP
#define CAP 5
#endif
#ifndef MATW
#define MATW 2
#endif
#define INF (1LL << 40)
#define FIN (1LL << 30)
#define EXP_MAX (1 << 20)
typedef long long R;
#define FINITE(x) (-FIN <= (x) && (x) <= FIN)
#define EOK(e) (-EXP_MAX <= (e) && (e) <= EXP_MAX)
int g_cnt, g_target, rec_vec, rec_idx, g_E, g_g, g_added_own, g_added_cross; R rec_val;
int *gp_ncross, *gp_crossexp, *gp_crossexp_size; R *gp_nvals, *gp_x1, *gp_x2, *gp_x3; void* gp_view;
/* ghosts: position g of the new vector, its index / value; a ghost cross index h; old dimensions */
int g_idx, g_nsize, g_nown0, g_ncross0, g_cap, g_h, g_crossexp_g; R g_val, g_expect;

#ifdef NEWROW
#define NOWN (*nr)
#define NCROSS (*nc)
#define OWNEXP rowexp
#define CROSSEXP colexp
#else
#define NOWN (*nc)
#define NCROSS (*nr)
#define OWNEXP colexp
#define CROSSEXP rowexp
#endif

void w_add(R* left, R* right, R* robj, R* low, R* up, R* obj, int* rowexp, int* colexp, int cap, int* nr, int* nc,
           R* nvals, int* nidxs, int nsize, R a, R b, R o, _Bool scale)
__CPROVER_requires(2 <= cap && cap <= CAP && g_cap == cap && __CPROVER_is_fresh(nr, sizeof(int)) && __CPROVER_is_fresh(nc, sizeof(int)))
__CPROVER_requires(0 <= *nr && *nr < cap && 0 <= *nc && *nc < cap && scale && 0 < nsize && nsize <= MATW)
__CPROVER_requires(__CPROVER_is_fresh(left, cap * sizeof(R)) && __CPROVER_is_fresh(right, cap * sizeof(R)) && __CPROVER_is_fresh(robj, cap * sizeof(R)))
__CPROVER_requires(__CPROVER_is_fresh(low, cap * sizeof(R)) && __CPROVER_is_fresh(up, cap * sizeof(R)) && __CPROVER_is_fresh(obj, cap * sizeof(R)))
__CPROVER_requires(__CPROVER_is_fresh(rowexp, cap * sizeof(int)) && __CPROVER_is_fresh(colexp, cap * sizeof(int)))
__CPROVER_requires(__CPROVER_is_fresh(nvals, nsize * sizeof(R)) && __CPROVER_is_fresh(nidxs, nsize * sizeof(int)))
/* the new vector may refer to cross vectors that do not exist yet ("create new columns/rows if required"), up to the capacity */
__CPROVER_requires(g_nsize == nsize && g_nown0 == NOWN && g_ncross0 == NCROSS && 0 <= g_g && g_g < nsize && g_target == nsize - 1 - g_g)
__CPROVER_requires(g_idx == nidxs[g_g] && 0 <= g_idx && g_idx < cap && g_val == nvals[g_g] && FINITE(g_val) && EOK(g_E))
__CPROVER_requires(g_crossexp_g == (g_idx < NCROSS ? CROSSEXP[g_idx] : 0) && EOK(g_crossexp_g) && g_expect == g_val + g_E + g_crossexp_g)
__CPROVER_requires(0 <= g_h && g_h < cap)
#ifdef NEWROW
__CPROVER_requires((FINITE(a) || a == -INF) && (FINITE(b) || b == INF) && FINITE(o))
#else
__CPROVER_requires((FINITE(a) || a == INF) && (FINITE(b) || b == -INF) && FINITE(o))
#endif
__CPROVER_requires(g_cnt == 0)
__CPROVER_assigns(g_cnt, rec_vec, rec_idx, rec_val, g_added_own, g_added_cross, gp_ncross, gp_crossexp, gp_crossexp_size, gp_nvals, gp_x1, gp_x2, gp_x3, gp_view, *nr, *nc)
__CPROVER_assigns(__CPROVER_object_whole(left), __CPROVER_object_whole(right), __CPROVER_object_whole(robj), __CPROVER_object_whole(low), __CPROVER_object_whole(up), __CPROVER_object_whole(obj))
__CPROVER_assigns(__CPROVER_object_whole(rowexp), __CPROVER_object_whole(colexp), __CPROVER_object_whole(nvals))
/* one new own vector; its exponent is the one computeScaleExp chose; its sides/bounds and objective are scaled with it */
__CPROVER_ensures(NOWN == g_nown0 + 1 && OWNEXP[g_nown0] == g_E && g_added_own == 1)
#ifdef NEWROW
__CPROVER_ensures(left[g_nown0] == (FINITE(a) ? a + g_E : a) && right[g_nown0] == (FINITE(b) ? b + g_E : b) && robj[g_nown0] == o + g_E)
#else
__CPROVER_ensures(up[g_nown0] == (FINITE(a) ? a - g_E : a) && low[g_nown0] == (FINITE(b) ? b - g_E : b) && obj[g_nown0] == o + g_E)
#endif
/* every nonzero is stored in the own vector and handed to the cross vector scaled by own + cross exponent; new cross vectors get exponent 0 */
__CPROVER_ensures(nvals[g_g] == g_expect && g_cnt == nsize && rec_vec == g_idx && rec_idx == g_nown0 && rec_val == g_expect)
__CPROVER_ensures(NCROSS >= g_ncross0 && NCROSS > g_idx && g_added_cross == NCROSS - g_ncross0)
__CPROVER_ensures((g_ncross0 <= g_h && g_h < NCROSS) ==> CROSSEXP[g_h] == 0)
;
static void havoc(void)
{
   g_cnt = nondet_int(); g_target = nondet_int(); g_E = nondet_int(); g_g = nondet_int(); g_idx = nondet_int(); g_nsize = nondet_int();
   g_nown0 = nondet_int(); g_ncross0 = nondet_int(); g_cap = nondet_int(); g_h = nondet_int(); g_crossexp_g = nondet_int(); g_val = nondet_ll(); g_expect = nondet_ll();
}
void h_add(void)
{
   R *left, *right, *robj, *low, *up, *obj, *nvals; int *rowexp, *colexp, *nr, *nc, *nidxs; int cap, nsize; R a, b, o; _Bool scale;
   havoc();
   w_add(left, right, robj, low, up, obj, rowexp, colexp, cap, nr, nc, nvals, nidxs, nsize, a, b, o, scale);
   CANARY();
}
