#include "verif_c.h"
#ifndef CAP
#define CAP 6
#endif
int g_n, g_frexp;
int w_cse(double* vals, int* idxs, int n, int* oldexp, int nold)
__CPROVER_requires(0 < n && n <= CAP && 0 < nold && nold <= CAP && g_n == n && -2000 <= g_frexp && g_frexp <= 2000)
__CPROVER_requires(__CPROVER_is_fresh(vals, n * sizeof(double)) && __CPROVER_is_fresh(idxs, n * sizeof(int)) && __CPROVER_is_fresh(oldexp, nold * sizeof(int)))
__CPROVER_assigns()
__CPROVER_ensures(__CPROVER_return_value == 0 || __CPROVER_return_value == g_frexp - 1)
;
void h_cse(void) { double* vals; int* idxs; int* oldexp; int n, nold; g_n = nondet_int(); g_frexp = nondet_int(); w_cse(vals, idxs, n, oldexp, nold); CANARY(); }
