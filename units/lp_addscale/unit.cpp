/* C09: "data added ... while persistent scaling is active is stored consistently with the existing scale factors".
 * Real bodies of SPxLPBase<R>::doAddRow(const LPRowBase<R>&, bool scale) and ::doAddCol(const LPColBase<R>&, bool scale)
 * (spxlpbase.h) at R = ledger.  NEWROW selects doAddRow; the mirrored build (no NEWROW) is doAddCol: "own" = the set the new
 * vector is added to, "cross" = the other set (new cross vectors are created when the new vector refers to them).
 * computeScaleExp is a stub that returns an arbitrary bounded exponent E; that its real body accepts a vector referring to
 * not yet existing cross vectors (no out-of-bounds read of the exponent array) is proved in instance computeScaleExp. */
#include "verif.h"
#include "ledger.h"
#define DATAARRAY_READ_INVARIANT(v) __CPROVER_assume(-EXP_MAX <= (v) && (v) <= EXP_MAX)
#include "containers.h"
#ifndef MATW
#define MATW 2
#endif

extern "C" {
extern int g_cnt, g_target, rec_vec, rec_idx, g_E, g_g, g_added_own, g_added_cross;
extern R rec_val;
extern int *gp_ncross, *gp_crossexp, *gp_crossexp_size; extern R *gp_nvals, *gp_x1, *gp_x2, *gp_x3; extern void* gp_view;
}
enum SPxSense { MAXIMIZE = 1, MINIMIZE = -1 };

struct SVec : SVectorBase<R> {};
#define SVectorBase SVecT
template <class T> struct SVecT : SVec {};

/* all dimension-dependent state lives here; both bases reach it through `d` only (README point 16) */
struct LPShared
{
   int nr, nc;
   VectorBase<R> low, up, obj, left, right, robj;
   DataArray<int>* rowExpArr; DataArray<int>* colExpArr;
   SVecT<R>* newvec;      /* the vector being added: the view of the new row/column aliases it */
};

template <class T> struct LPColBase { T up, low, object; SVecT<T>* vec; };
template <class T> struct LPRowBase { T left, right, object; SVecT<T>* vec; };

static inline void grow_rows(LPShared* d, R l, R r, R o)
{
   __CPROVER_assert(d->nr < d->left.dimen, "row capacity");
   d->left.val[d->nr] = l; d->right.val[d->nr] = r; d->robj.val[d->nr] = o;
   d->rowExpArr->data[d->nr] = 0; d->nr++; d->rowExpArr->thesize = d->nr;    /* real add(): scaleExp.reSize(num()); new exponent 0 */
}
static inline void grow_cols(LPShared* d, R u, R l, R o)
{
   __CPROVER_assert(d->nc < d->low.dimen, "column capacity");
   d->up.val[d->nc] = u; d->low.val[d->nc] = l; d->obj.val[d->nc] = o;
   d->colExpArr->data[d->nc] = 0; d->nc++; d->colExpArr->thesize = d->nc;
}

template <class T> struct LPRowSetBase
{
   LPShared* d; DataArray<int> scaleExp;
   void add(const LPRowBase<T>& row)
   {
#ifdef NEWROW
      grow_rows(d, row.left, row.right, row.object);
#else
      grow_rows(d, -infinity, infinity, 0);      /* `LPRowBase<R> empty;` : free row */
#endif
   }
   void add2(int i, int n, const int idx[], const T val[]) { if(g_cnt == g_target) { rec_vec = i; rec_idx = idx[0]; rec_val = val[0]; } g_cnt++; }
};
template <class T> struct LPColSetBase
{
   LPShared* d; DataArray<int> scaleExp;
   void add(const LPColBase<T>& col)
   {
#ifdef NEWROW
      grow_cols(d, infinity, 0, 0);              /* `LPColBase<R> empty;` : x >= 0, no objective */
#else
      grow_cols(d, col.up, col.low, col.object);
#endif
   }
   void add2(int i, int n, const int idx[], const T val[]) { if(g_cnt == g_target) { rec_vec = i; rec_idx = idx[0]; rec_val = val[0]; } g_cnt++; }
   T& maxObj_w(int i) { return d->obj[i]; }
};

struct LP;
struct Scaler { int computeScaleExp(const SVecT<R>& vec, const DataArray<int>& oldScaleExp) const; };

struct LP : LPRowSetBase<R>, LPColSetBase<R>
{
   LPShared sh; Scaler* lp_scaler; SPxSense thesense; SVecT<R>* viewp;
   int nRows() const { return sh.nr; }
   int nCols() const { return sh.nc; }
   const R& rhs(int i) const { return sh.right[i]; }
   const R& lhs(int i) const { return sh.left[i]; }
   const R& upper(int i) const { return sh.up[i]; }
   const R& lower(int i) const { return sh.low[i]; }
   R& rhs_w(int i) { return sh.right[i]; }
   R& lhs_w(int i) { return sh.left[i]; }
   R& upper_w(int i) { return sh.up[i]; }
   R& lower_w(int i) { return sh.low[i]; }
   R& maxRowObj_w(int i) { return sh.robj[i]; }
   R& maxObj_w(int i) { return sh.obj[i]; }
   /* the view of the vector just added: same nonzeros as the argument (add() copies them) */
   SVecT<R>& rowVector_w(int i) { __CPROVER_assert(0 <= i && i < sh.nr, "row number in bounds"); return *viewp; }
   SVecT<R>& colVector_w(int i) { __CPROVER_assert(0 <= i && i < sh.nc, "column number in bounds"); return *viewp; }
   void addedRows(int n) {
#ifdef NEWROW
      g_added_own = n;
#else
      g_added_cross = n;
#endif
   }
   void addedCols(int n) {
#ifdef NEWROW
      g_added_cross = n;
#else
      g_added_own = n;
#endif
   }
};

int Scaler::computeScaleExp(const SVecT<R>& vec, const DataArray<int>& oldScaleExp) const
{
   /* no precondition on the indices: the real body tolerates indices beyond the exponent array (instance computeScaleExp) */
   return g_E;
}

struct H : LP
{
   bool scale;
#ifdef NEWROW
   const LPRowBase<R>* arg_;
#else
   const LPColBase<R>* arg_;
#endif
   void body()
   {
#ifdef NEWROW
      const LPRowBase<R>& row = *arg_;
#else
      const LPColBase<R>& col = *arg_;
#endif
#include ADDSLICE
   }
};

/* own*: dense data of the set the vector is added to; cross*: of the other set.  a, b, o: the new vector's two bounds/sides and objective */
extern "C" void w_add(R* left, R* right, R* robj, R* low, R* up, R* obj, int* rowexp, int* colexp, int cap, int* nr, int* nc,
                      R* nvals, int* nidxs, int nsize, R a, R b, R o, bool scale)
{
   VIN("nr", *nr); VIN("nc", *nc); VIN("cap", cap); VIN("nsize", nsize); VIN_ARR8("nidxs", nidxs, nsize); VIN_ARR8("nvals", nvals, nsize);
   VIN_ARR8("rowexp", rowexp, *nr); VIN_ARR8("colexp", colexp, *nc); VIN("a", a); VIN("b", b); VIN("E", g_E);
   H h; Scaler sc;
   h.LPRowSetBase<R>::d = &h.sh; h.LPColSetBase<R>::d = &h.sh; h.lp_scaler = &sc; h.thesense = MAXIMIZE;
   h.sh.nr = *nr; h.sh.nc = *nc;
   h.sh.left.val = left; h.sh.left.dimen = cap; h.sh.right.val = right; h.sh.right.dimen = cap; h.sh.robj.val = robj; h.sh.robj.dimen = cap;
   h.sh.low.val = low; h.sh.low.dimen = cap; h.sh.up.val = up; h.sh.up.dimen = cap; h.sh.obj.val = obj; h.sh.obj.dimen = cap;
   h.LPRowSetBase<R>::scaleExp.data = rowexp; h.LPRowSetBase<R>::scaleExp.thesize = *nr;
   h.LPColSetBase<R>::scaleExp.data = colexp; h.LPColSetBase<R>::scaleExp.thesize = *nc;
   h.sh.rowExpArr = &h.LPRowSetBase<R>::scaleExp; h.sh.colExpArr = &h.LPColSetBase<R>::scaleExp;
   SVecT<R> nvec; nvec.vals = nvals; nvec.idxs = nidxs; nvec.used = nsize; nvec.cap = nsize; nvec.bound = cap;
   h.viewp = &nvec; h.sh.newvec = &nvec;
#ifdef NEWROW
   LPRowBase<R> nw; nw.left = a; nw.right = b; nw.object = o; nw.vec = &nvec;
   gp_ncross = &h.sh.nc; gp_crossexp = colexp; gp_crossexp_size = &h.LPColSetBase<R>::scaleExp.thesize; gp_x1 = up; gp_x2 = low; gp_x3 = obj;
#else
   LPColBase<R> nw; nw.up = a; nw.low = b; nw.object = o; nw.vec = &nvec;
   gp_ncross = &h.sh.nr; gp_crossexp = rowexp; gp_crossexp_size = &h.LPRowSetBase<R>::scaleExp.thesize; gp_x1 = left; gp_x2 = right; gp_x3 = robj;
#endif
   gp_nvals = nvals; gp_view = &nvec;
   h.arg_ = &nw; h.scale = scale;
   h.body();
   *nr = h.sh.nr; *nc = h.sh.nc;
}
