/* Contracts for NameSet (C19: "name lookup returns the index the name was registered under and fails for removed names").
 *
 * C view.  DataSet<int> `set` (model, see unit.cpp): sdata[c] = DATA of cell c = offset of the name into the arena,
 * snumof[c] = number of the element in cell c (< 0: free), skeyidx[g] = cell of element number g, *smax, *ssize, *snum.
 * Arena: mem (block of exactly MEMCAP bytes, memmax == MEMCAP), *memused.  Hash table `hashtab` (model): entry e is in
 * use iff hused[e]; its key is the string at mem + hoff[e], its info the DataKey of cell e (hinfo_ok[e]); *hmused.
 * Names are real NUL-terminated strings of at most SLEN-1 = 1 character (strlen / strcmp / the copy loop are unwound).
 *
 * REPRESENTATION INVARIANT  NS = S & K & U & A & H & D:
 *   S      0 <= num <= size <= max, size <= CAP, 0 <= memused <= memmax, hashtab.m_used == num
 *   K(g), U(c)   key <-> number bijection of the DataSet (as in unit dataset)
 *   A(c)   a live cell c holds an offset off >= 0 such that the arena has a NUL-terminated string at off that ends before memused
 *   H(c)   live cells and used hash entries correspond one to one: the hash table has an entry with info = key of cell c iff c
 *          is live, and then its name pointer is &mem[sdata[c]]  (the model keeps that entry at index c, see unit.cpp)
 *   D(c,d) two different live cells hold different strings
 * The models scan all cells/entries, so NS is supplied at every cell below CAP (rep.h); postconditions are stated at
 * havoc'd ghost cells (= for all cells), and black-box: the wrappers look a SECOND, arbitrary name str2 up before and
 * after the operation. */
#include "verif_c.h"
#include "constants.h"
#ifndef CAP
#define CAP 4
#endif
#include "rep.h"
#define SLEN 2
#define MEMCAP 8

int g_g, g_c, g_d, g_x, g_n0, g_s0, g_m0, v_off, v_cell, v_num;
static void havoc_ghosts(void)
{
   g_g = nondet_int(); g_c = nondet_int(); g_d = nondet_int(); g_x = nondet_int(); g_n0 = nondet_int(); g_s0 = nondet_int();
   g_m0 = nondet_int(); v_off = nondet_int(); v_cell = nondet_int(); v_num = nondet_int();
}

typedef const int* cip;
typedef const char* ccp;
/* length of the string at m + off if it is terminated within SLEN characters and before lim; else -1 */
static int sl(ccp m, int lim, int off)
{
   if(off < 0) return -1;
   if(off + 0 >= lim) return -1; if(m[off + 0] == 0) return 0;
   if(off + 1 >= lim) return -1; if(m[off + 1] == 0) return 1;
   return -1;
}
static int streq(ccp a, int la, int oa, ccp b, int lb, int ob)
{
   int n = sl(a, la, oa);
   if(n < 0 || n != sl(b, lb, ob)) return 0;
   if(n >= 1 && a[oa] != b[ob]) return 0;
   return 1;
}
static int live(cip snumof, int ssize, int c) { return 0 <= c && c < ssize && snumof[c] >= 0; }
static int k_at(cip snumof, cip skeyidx, int ssize, int snum, int g)
{
   if(!(0 <= g && g < snum)) return 1;
   int c = skeyidx[g];
   return 0 <= c && c < ssize && snumof[c] == g;
}
static int u_at(cip snumof, cip skeyidx, int ssize, int snum, int c)
{
   if(!live(snumof, ssize, c)) return 1;
   return snumof[c] < snum && skeyidx[snumof[c]] == c;
}
static int a_at(cip sdata, cip snumof, int ssize, ccp mem, int memused, int c)
{
   if(!live(snumof, ssize, c)) return 1;
   return sl(mem, memused, sdata[c]) >= 0;
}
/* H at cell / entry c (the model keeps the entry whose info is the key of cell c at index c; hinfo_ok[c]: its info is that key) */
static int h_at(cip sdata, cip snumof, int ssize, cip hoff, cip hinfo_ok, cip hused, int c)
{
   if(!(0 <= c && c < CAP)) return 1;
   if(!(0 <= hoff[c] && hoff[c] < MEMCAP)) return 0;
   if(!live(snumof, ssize, c)) return !hused[c];
   return hused[c] && hinfo_ok[c] && hoff[c] == sdata[c];
}
static int d_at(cip sdata, cip snumof, int ssize, ccp mem, int memused, int c, int d)
{
   if(c == d || !live(snumof, ssize, c) || !live(snumof, ssize, d)) return 1;
   return !streq(mem, memused, sdata[c], mem, memused, sdata[d]);
}
/* cell c holds the string str */
static int holds(cip sdata, cip snumof, int ssize, ccp mem, int memused, int c, ccp str)
{
   return live(snumof, ssize, c) && streq(mem, memused, sdata[c], str, SLEN, 0);
}

#define NSPARAMS int* sdata, int* snumof, int* skeyidx, int* smax, int* ssize, int* snum, char* mem, int memmax, int* memused, \
   int* hoff, int* hinfo_ok, int* hused, int* hmused
#define NSPASS sdata, snumof, skeyidx, smax, ssize, snum, mem, memmax, memused, hoff, hinfo_ok, hused, hmused
#define I(n) __CPROVER_is_fresh(n, CAP * sizeof(int))
#define OUT(p) __CPROVER_is_fresh(p, sizeof(int))
#define FRESH_NS (I(sdata) && I(snumof) && I(skeyidx) && I(hoff) && I(hinfo_ok) && I(hused) && OUT(smax) && OUT(ssize) && OUT(snum) \
   && OUT(memused) && OUT(hmused) && __CPROVER_is_fresh(mem, MEMCAP) && memmax == MEMCAP)
#define STR_OK(s) (__CPROVER_is_fresh(s, SLEN) && sl(s, SLEN, 0) >= 0)
#define S_OK (0 <= *snum && *snum <= *ssize && *ssize <= *smax && *ssize <= CAP && 0 <= *memused && *memused <= memmax && *hmused == *snum)
#define K_AT(g)  k_at(snumof, skeyidx, *ssize, *snum, g)
#define U_AT(c)  u_at(snumof, skeyidx, *ssize, *snum, c)
#define A_AT(c)  a_at(sdata, snumof, *ssize, mem, *memused, c)
#define H_AT(c)  h_at(sdata, snumof, *ssize, hoff, hinfo_ok, hused, c)
#define D_AT(c, d) d_at(sdata, snumof, *ssize, mem, *memused, c, d)
#define D_ROW(c) REP_ALLB(D_AT, c)
#define NS_ALL (S_OK && REP_ALL(K_AT) && REP_ALL(U_AT) && REP_ALL(A_AT) && REP_ALL(H_AT) && REP_ALL(D_ROW))
/* NS at the ghost cells */
#define NS_GHOSTS (S_OK && K_AT(g_g) && U_AT(g_c) && A_AT(g_c) && D_AT(g_c, g_d) && H_AT(g_c))
#define HOLDS(c, s) holds(sdata, snumof, *ssize, mem, *memused, c, s)
/* ghost g_x = the number of the name str, or -1 if no cell holds it */
#define NOT_STR(c) (!HOLDS(c, str))
#define GX_DEF (g_x == -1 ? REP_ALL(NOT_STR) : (0 <= g_x && g_x < *snum && HOLDS(skeyidx[g_x < 0 ? 0 : g_x], str)))
#define ASSIGNS_NS __CPROVER_object_whole(sdata), __CPROVER_object_whole(snumof), __CPROVER_object_whole(skeyidx), \
   __CPROVER_object_whole(hoff), __CPROVER_object_whole(hinfo_ok), __CPROVER_object_whole(hused), *smax, *ssize, *snum, *memused, *hmused, \
   __CPROVER_object_whole(mem)

/* ---------------------------------------------------------------------------------------------------------------- */
#ifdef INST_lookup
/* number(str) / has(str) / key(str) / operator[]: if element number g_x has the name str then number(str) == g_x, has(str),
 * key(str) is its key and (*this)[g_x] is the stored copy of str; if no element has the name: -1, !has, an invalid key. */
void w_lookup(NSPARAMS, const char* str, int* out_num, int* out_has, int* out_keyidx, int* out_off)
__CPROVER_requires(FRESH_NS && STR_OK(str) && OUT(out_num) && OUT(out_has) && OUT(out_keyidx) && OUT(out_off))
__CPROVER_requires(NS_ALL && GX_DEF)
__CPROVER_requires(g_n0 == *snum && (g_x < 0 || (v_cell == skeyidx[g_x] && v_off == sdata[skeyidx[g_x]])))
__CPROVER_assigns(ASSIGNS_NS, *out_num, *out_has, *out_keyidx, *out_off)
__CPROVER_ensures(*out_num == g_x && *out_has == (g_x >= 0))
__CPROVER_ensures(g_x < 0 ? (*out_keyidx == -1 && *out_off == -1) : (*out_keyidx == v_cell && *out_off == v_off))
__CPROVER_ensures(*snum == g_n0 && NS_GHOSTS)
;
void h_lookup(void)
{
   int* sdata; int* snumof; int* skeyidx; int* smax; int* ssize; int* snum; char* mem; int memmax; int* memused;
   int* hoff; int* hinfo_ok; int* hused; int* hmused; const char* str; int* o1; int* o2; int* o3; int* o4;
   havoc_ghosts();
   w_lookup(NSPASS, str, o1, o2, o3, o4);
   CANARY();
}
#endif

/* ---------------------------------------------------------------------------------------------------------------- */
#ifdef INST_add
/* add(key, str) / add(str) with room in the arena (memSize() + strlen(str) < memMax(); memPack / memRemax not reached; the
 * growth of the key set through NameSet::reMax IS covered).
 *   str already present (number g_x): nothing changes.   Otherwise: num() grows by one; the new name gets number old num()
 *   and a key naming a cell no live key named; the stored name equals str and sits at offset old memSize(); memSize() grows
 *   by strlen(str) + 1; every other cell keeps its number and its offset, the arena below old memSize() is untouched
 *   (so every other name keeps its number and its text).  NS holds again - hence (instance lookup) number(str) finds the
 *   new number and every other name is found under its old number.
 *   LOOKUPS == 1 (thorough tier) states the last sentence black-box: number(str) == the new number, and for a second,
 *   arbitrary name str2: number(str2) is the same before and after. */
#define NEWCELL (skeyidx[g_n0])
void w_add(NSPARAMS, const char* str, const char* str2, int usekey, int* out_keyidx, int* out_num, int* out2_before, int* out2_after)
__CPROVER_requires(FRESH_NS && STR_OK(str) && STR_OK(str2) && OUT(out_keyidx) && OUT(out_num) && OUT(out2_before) && OUT(out2_after))
__CPROVER_requires(NS_ALL && GX_DEF && 1 <= *smax && *smax <= CAP && *ssize < CAP && usekey == USEKEY)
__CPROVER_requires(!(*memused + sl(str, SLEN, 0) >= memmax))
__CPROVER_requires(g_n0 == *snum && g_s0 == *ssize && g_m0 == *memused)
__CPROVER_requires(live(snumof, *ssize, g_c) ? (v_off == sdata[g_c] && v_num == snumof[g_c]) : v_num == -1)
__CPROVER_requires(0 <= g_d && g_d < *memused && v_cell == mem[g_d])
__CPROVER_assigns(ASSIGNS_NS, *out_keyidx, *out_num, *out2_before, *out2_after)
__CPROVER_ensures(g_x < 0 || (*snum == g_n0 && *ssize == g_s0 && *memused == g_m0))
__CPROVER_ensures(g_x >= 0 || (*snum == g_n0 + 1 && (!usekey || *out_keyidx == NEWCELL) && sdata[NEWCELL] == g_m0
   && *memused == g_m0 + sl(str, SLEN, 0) + 1 && streq(mem, *memused, g_m0, str, SLEN, 0)
   && (NEWCELL == g_s0 ? *ssize == g_s0 + 1 : (*ssize == g_s0 && 0 <= NEWCELL && NEWCELL < g_s0))))
__CPROVER_ensures(!(0 <= g_c && g_c < g_s0 && v_num >= 0) || ((g_x >= 0 || g_c != NEWCELL) && sdata[g_c] == v_off && snumof[g_c] == v_num))
__CPROVER_ensures(mem[g_d] == v_cell)
#if LOOKUPS
__CPROVER_ensures(*out_num == (g_x >= 0 ? g_x : g_n0))
__CPROVER_ensures(streq(str2, SLEN, 0, str, SLEN, 0) ? *out2_after == *out_num : *out2_after == *out2_before)
#endif
__CPROVER_ensures(NS_GHOSTS)
;
void h_add(void)
{
   int* sdata; int* snumof; int* skeyidx; int* smax; int* ssize; int* snum; char* mem; int memmax; int* memused;
   int* hoff; int* hinfo_ok; int* hused; int* hmused; const char* str; const char* str2; int usekey;
   int* o1; int* o2; int* o3; int* o4;
   havoc_ghosts();
   w_add(NSPASS, str, str2, usekey, o1, o2, o3, o4);
   CANARY();
}
#endif

/* ---------------------------------------------------------------------------------------------------------------- */
#ifdef INST_remove
/* remove(const char* str) [how == 0] and remove(int pnum) -> remove(const DataKey&) [how == 1, 0 <= pnum < num() documented].
 * r = the number that is removed (how == 0: the number g_x of str, nothing if str is absent; how == 1: pnum).
 *   num() drops by one; the removed name is no longer found (number() == -1); the name that had the LAST number gets number
 *   r, every other name keeps its number (DataSet's documented renumbering) - stated black-box for the two arbitrary names
 *   str and str2:  number'(s) == REN(number(s));  every surviving cell keeps its offset; the arena is untouched; NS holds again. */
#define RNUM (how == 0 ? g_x : pnum)
#define REN(x) ((x) < 0 || RNUM < 0 ? (x) : (x) == RNUM ? -1 : (x) == g_n0 - 1 ? RNUM : (x))
void w_remove(NSPARAMS, const char* str, const char* str2, int how, int pnum, int* out_after, int* out2_before, int* out2_after)
__CPROVER_requires(FRESH_NS && STR_OK(str) && STR_OK(str2) && OUT(out_after) && OUT(out2_before) && OUT(out2_after))
__CPROVER_requires(NS_ALL && GX_DEF && how == HOW && (how == 0 || (0 <= pnum && pnum < *snum)))
__CPROVER_requires(g_n0 == *snum && g_s0 == *ssize && g_m0 == *memused)
__CPROVER_requires(live(snumof, *ssize, g_c) ? (v_off == sdata[g_c] && v_num == snumof[g_c]) : v_num == -1)
__CPROVER_assigns(ASSIGNS_NS, *out_after, *out2_before, *out2_after)
__CPROVER_ensures(*snum == (RNUM < 0 ? g_n0 : g_n0 - 1) && *ssize <= g_s0 && *memused == g_m0)
__CPROVER_ensures(*out_after == REN(g_x) && *out2_after == REN(*out2_before))
__CPROVER_ensures(!(0 <= g_c && g_c < g_s0 && v_num >= 0) || (v_num == RNUM ? !live(snumof, *ssize, g_c)
   : (live(snumof, *ssize, g_c) && sdata[g_c] == v_off && snumof[g_c] == REN(v_num))))
__CPROVER_ensures(NS_GHOSTS)
;
void h_remove(void)
{
   int* sdata; int* snumof; int* skeyidx; int* smax; int* ssize; int* snum; char* mem; int memmax; int* memused;
   int* hoff; int* hinfo_ok; int* hused; int* hmused; const char* str; const char* str2; int how, pnum;
   int* o1; int* o2; int* o3;
   havoc_ghosts();
   w_remove(NSPASS, str, str2, how, pnum, o1, o2, o3);
   CANARY();
}
#endif
