# Generator of units/nameset/unit.json.  Run: python3 gen_unit.py
import json, os
H="src/soplex/nameset.h"; C="src/soplex/nameset.cpp"
def sl(as_, f, sig, **kw):
    d={"as":as_,"file":f,"sig":sig}; d.update(kw); return d
slices=[
 sl("NameSet_atNum.inc",H,r"const\s+char\*\s+operator\[\]\s*\(\s*int\s+pnum\s*\)\s*const"),
 sl("NameSet_atKey.inc",H,r"const\s+char\*\s+operator\[\]\s*\(\s*const\s+DataKey&\s*pkey\s*\)\s*const"),
 sl("NameSet_num.inc",H,r"int\s+num\s*\(\s*\)\s*const"),
 sl("NameSet_max.inc",H,r"int\s+max\s*\(\s*\)\s*const"),
 sl("NameSet_size.inc",H,r"int\s+size\s*\(\s*\)\s*const"),
 sl("NameSet_memMax.inc",H,r"int\s+memMax\s*\(\s*\)\s*const"),
 sl("NameSet_memSize.inc",H,r"int\s+memSize\s*\(\s*\)\s*const"),
 sl("NameSet_keyNum.inc",H,r"DataKey\s+key\s*\(\s*int\s+pnum\s*\)\s*const"),
 sl("NameSet_keyStr.inc",H,r"DataKey\s+key\s*\(\s*const\s+char\*\s*str\s*\)\s*const"),
 sl("NameSet_numberKey.inc",H,r"int\s+number\s*\(\s*const\s+DataKey&\s*pkey\s*\)\s*const"),
 sl("NameSet_numberStr.inc",H,r"int\s+number\s*\(\s*const\s+char\*\s*str\s*\)\s*const"),
 sl("NameSet_hasNum.inc",H,r"bool\s+has\s*\(\s*int\s+pnum\s*\)\s*const"),
 sl("NameSet_hasStr.inc",H,r"bool\s+has\s*\(\s*const\s+char\*\s*str\s*\)\s*const"),
 sl("NameSet_hasKey.inc",H,r"bool\s+has\s*\(\s*const\s+DataKey&\s*pkey\s*\)\s*const"),
 sl("NameSet_removeNum.inc",H,r"void\s+remove\s*\(\s*int\s+pnum\s*\)"),
 sl("NameSet_addKey.inc",C,r"void\s+NameSet::add\s*\(\s*DataKey&\s*p_key\s*,\s*const\s+char\*\s*str\s*\)",
    model_depends_on=[r'spxSnprintf\(tmp, [^,;]+, "%s", str\)']),
 sl("NameSet_add.inc",C,r"void\s+NameSet::add\s*\(\s*const\s+char\*\s*str\s*\)"),
 sl("NameSet_removeStr.inc",C,r"void\s+NameSet::remove\s*\(\s*const\s+char\*\s*str\s*\)"),
 sl("NameSet_removeKey.inc",C,r"void\s+NameSet::remove\s*\(\s*const\s+DataKey&\s*p_key\s*\)"),
 sl("NameSet_reMax.inc",C,r"void\s+NameSet::reMax\s*\(\s*int\s+newmax\s*\)"),
]
u={
 "property":["C19"],
 "desc":"NameSet: add / remove(name) / remove(number) / number(name) / has / key / operator[] - real bodies from nameset.cpp / nameset.h, real classes Name and DataKey, real C strings; DataSet<int> and DataHashTable<Name,DataKey> are contract-level models",
 "rmode":"int / char (names are real NUL-terminated strings of at most 1 character)",
 "defines":{"CAP":"4"}, "defines_thorough":{"CAP":"4"}, "defines_small":{"CAP":"2"},
 "flags":["--bounds-check","--pointer-check","--signed-overflow-check"],
 "timeout_s":300,
 "slices":slices,
 "extracts":[{"as":"DataKey.inc","file":"src/soplex/datakey.h","regex":r"class DataKey\s*\{.*?\n\};"},
             {"as":"NameSet_Name.inc","file":H,"regex":r"class Name\s*\{.*?\n   \};"}],
 "constants":[{"name":"SOPLEX_HASHTABLE_FILLFACTOR","file":"src/soplex/datahashtable.h","regex":r"#define\s+SOPLEX_HASHTABLE_FILLFACTOR\s+([0-9.]+)"},
              {"name":"SPX_MAXSTRLEN","file":"src/soplex/spxdefines.h","regex":r"#define\s+SPX_MAXSTRLEN\s+(\d+)"}],
 "conformance":[
  {"file":H,"regex":r"DataSet\s*<\s*int\s*>\s*set;[^;]*?\n\s*char\*\s+mem;[^;]*?\n\s*int\s+memmax;[^;]*?\n\s*int\s+memused;.*?DataHashTable\s*<\s*Name\s*,\s*DataKey\s*>\s*hashtab;",
   "why":"NameSetHost replicates set, mem, memmax, memused, hashtab"},
  {"file":"src/soplex/spxdefines.h","regex":r"n = vsnprintf\(t, len, s, ap\);.*?if\(n < 0 \|\| \(size_t\) n >= len\).*?t\[len - 1\] = '\\0';",
   "why":"spxSnprintf is vsnprintf with forced termination at len - 1 (the stub models the \"%s\" case)"},
  {"file":H,"regex":r"friend int operator==\(const Name& n1, const Name& n2\)\s*\{\s*return \(strcmp\(n1\.name, n2\.name\) == 0\);","why":"the hash table model compares keys with strcmp, as Name::operator== does"},
  {"file":C,"regex":r"void NameSet::reMax\(int newmax\)\s*\{\s*hashtab\.reMax\(newmax\);\s*set\.reMax\(newmax\);","why":"the growth path goes through DataHashTable::reMax and DataSet::reMax (both modelled as content-preserving)"},
 ],
 "trusted":[
  "NameSetHost replicates NameSet's data members (conformance-checked); every NameSet member-function body is the real one; classes Name (strcmp-based operator==) and DataKey are the real class texts; strlen / strcmp are straight-line models exact for strings shorter than 2 characters (a longer string is a failed obligation)",
  "DataSet<int> is replaced by a straight-line MODEL of the contracts proved in unit dataset (create: a cell no live key names gets the next number; remove(key): the last element moves into the gap, size() may shrink; number/has/key/operator[]; reMax keeps everything [unit dataset_copy]); each documented precondition (num() < max(), valid key / number) is an obligation at the call",
  "DataHashTable<Name, DataKey> is replaced by a straight-line MODEL of the contracts proved in unit datahashtable (a finite map: has/get find the unique entry whose key compares equal; add(h, info) requires !has(h) - an obligation at the call - and takes an entry that was not in use; remove releases the entry; all other entries untouched; growth keeps the content - DataHashTable::reMax itself is not under contract)",
  "spxSnprintf(t, len, \"%s\", s) is a bounded copy loop with forced termination (model of vsnprintf \"%s\" + spxSnprintf's truncation branch; the stub honours len; the model is only valid for the format \"%s\", which the slice must contain)",
  "scope: at most CAP = 4 cells / hash entries, names of at most 1 character (257 different names), arena of exactly 8 bytes; NS is supplied at every cell by explicit conjunction (stubs/rep.h); string loops unwound completely: exhaustive up to these caps, not inductive",
  "add(): proved for max() <= CAP and size() < CAP (room in the model arrays) and when the arena has room (memSize() + strlen(str) < memMax()): memPack / memRemax are not under contract; the growth of the key set (NameSet::reMax) is on the proved path",
  "ghost entry map ent[] and ghost number g_x are specification-only; assert() compiled out (NDEBUG semantics)",
 ],
 "instances":[]
}
SN={"function":"spxSnprintf.*","loop":0}
def inst(name, fn, mutants, **kw):
    d={"name":name,"function":fn,"defines":{"INST_"+name:""},"harness":"h_"+name,"enforce":"w_"+name,
       "unwind":3,"unwind_loops":[SN],"mutants":mutants,"min_obligations":40}
    d.update(kw); u["instances"].append(d)
inst("lookup","NameSet::number(const char*) / has(const char*) / key(const char*) / operator[](int)",
  [{"name":"number_of_key","slice":"NameSet_numberStr.inc","find":"return number(*hashtab.get(nam));","replace":"return hashtab.get(nam)->idx;"},
   {"name":"absent","slice":"NameSet_numberStr.inc","find":"return -1;","replace":"return 0;"},
   {"name":"at","slice":"NameSet_atNum.inc","find":"&mem[set[pnum]]","replace":"&mem[pnum]"}])
M_ADD=[{"name":"offset","slice":"NameSet_addKey.inc","find":"*(set.create(p_key)) = idx;","replace":"*(set.create(p_key)) = memused;"},
   {"name":"no_nul","slice":"NameSet_addKey.inc","find":"memused  += int(strlen(str)) + 1;","replace":"memused  += int(strlen(str));"},
   {"name":"hash_extern","slice":"NameSet_addKey.inc","find":"Name memname(tmp);","replace":"Name memname(str);"},
   {"name":"dup","slice":"NameSet_addKey.inc","find":"if(!hashtab.has(nstr))","replace":"if(true)"},
   {"name":"room","slice":"NameSet_addKey.inc","find":"if(size() + 1 > max() * SOPLEX_HASHTABLE_FILLFACTOR)","replace":"if(size() + 1 > max() * 2)"}]
inst("add","NameSet::add(DataKey& p_key, const char* str) [+ NameSet::reMax]",M_ADD,defines={"INST_add":"","USEKEY":"1","LOOKUPS":"0"})
inst("add_nokey","NameSet::add(const char* str)",[{"name":"other_name","slice":"NameSet_add.inc","find":"add(k, str);","replace":"add(k, \"\");"}],
  defines={"INST_add":"","USEKEY":"0","LOOKUPS":"0"},harness="h_add",enforce="w_add")
inst("add_lookup","NameSet::add(DataKey& p_key, const char* str) then number(str); number(str2) before and after",
  [{"name":"hash_key","slice":"NameSet_addKey.inc","find":"hashtab.add(memname, p_key);","replace":"hashtab.add(memname, DataKey());"}],
  defines={"INST_add":"","USEKEY":"1","LOOKUPS":"1"},harness="h_add",enforce="w_add",tier="thorough")
inst("remove_name","NameSet::remove(const char* str) then number(str), number(str2)",
  [{"name":"set_only","slice":"NameSet_removeStr.inc","find":"hashtab.remove(nam);","replace":";"},
   {"name":"hash_only","slice":"NameSet_removeStr.inc","find":"set.remove(*hkey);","replace":";"}],
  defines={"INST_remove":"","HOW":"0"}, harness="h_remove", enforce="w_remove")
inst("remove_num","NameSet::remove(int pnum) -> remove(const DataKey& p_key) then number(str), number(str2)",
  [{"name":"wrong_name","slice":"NameSet_removeKey.inc","find":"hashtab.remove(Name(&mem[set[p_key]]));","replace":"hashtab.remove(Name(&mem[set[0]]));"},
   {"name":"wrong_key","slice":"NameSet_removeNum.inc","find":"remove(key(pnum));","replace":"remove(key(num() - 1));"}],
  defines={"INST_remove":"","HOW":"1"}, harness="h_remove", enforce="w_remove")
EXPECTED_S={'lookup': 18, 'add': 20, 'add_nokey': 17, 'add_lookup': 60, 'remove_name': 22, 'remove_num': 31}
THOROUGH_ONLY=[]
for _i in u["instances"]:
    if _i["name"] in EXPECTED_S: _i["expected_s"]=EXPECTED_S[_i["name"]]
    if _i["name"] in THOROUGH_ONLY: _i["tier"]="thorough"
json.dump(u, open(os.path.join(os.path.dirname(os.path.abspath(__file__)), "unit.json"), "w"), indent=1)
