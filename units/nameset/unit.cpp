/* C19: NameSet (src/soplex/nameset.h / nameset.cpp) at the level of its composition: a DataSet<int> of offsets into a
 * char arena + a DataHashTable<Name, DataKey>.  Real bodies: add(DataKey&, const char*), add(const char*), remove(const
 * char*), remove(const DataKey&), remove(int), number(const char*), number(const DataKey&), has(const char*), has(int),
 * key(const char*), key(int), operator[](int), operator[](const DataKey&), num/max/size/memMax/memSize, reMax; class Name
 * (with its strcmp-based operator==) and class DataKey are the real class texts.  Names are REAL C strings (capped length).
 * The two component containers are CONTRACT-LEVEL MODELS (straight-line code, rep.h) of what units dataset and
 * datahashtable prove about the real ones; every documented precondition of a callee is an obligation at the call. */
#include "verif.h"
#include "constants.h"
#include "rep.h"

typedef double Real;
/* strcmp / strlen for strings of fewer than SLEN = 2 characters (straight-line; a longer string is a failed obligation) */
#define SLEN 2
static int strcmp(const char* a, const char* b)
{
   if(a[0] != b[0]) return (unsigned char)a[0] < (unsigned char)b[0] ? -1 : 1;
   if(a[0] == '\0') return 0;
   if(a[1] != b[1]) return (unsigned char)a[1] < (unsigned char)b[1] ? -1 : 1;
   __CPROVER_assert(a[1] == '\0', "strcmp model: strings shorter than SLEN");
   return 0;
}
static size_t strlen(const char* a)
{
   if(a[0] == '\0') return 0;
   __CPROVER_assert(a[1] == '\0', "strlen model: strings shorter than SLEN");
   return 1;
}
namespace std { struct ostream { ostream& operator<<(const char*) { return *this; } }; }
extern "C" void verif_throw(void) { __CPROVER_assert(0, "no exception"); }

#include "DataKey.inc"

/* spxSnprintf(t, len, "%s", s): bounded copy with forced termination (vsnprintf "%s" + the truncation branch of
 * spxSnprintf); the format string is required to be "%s" (model_depends_on) */
static int spxSnprintf(char* t, size_t len, const char* fmt, const char* s)
{
   size_t i = 0;
   for(; s[i] != '\0' && i + 1 < len; ++i)
      t[i] = s[i];
   t[i] = '\0';
   return (int)i;
}

/* DataSet<int>: model of the contracts proved in unit dataset (K/U bijection key <-> number, dense numbering, create
 * hands out a cell no live key names and the next number, remove(key) moves the last element into the gap) */
struct DataSetModel
{
   int     data[CAP];
   int     numof[CAP];        /* theitem[c].info: number of the element in cell c, < 0 if the cell is free */
   DataKey thekey[CAP];
   int themax, thesize, thenum;
   int num() const { return thenum; }
   int max() const { return themax; }
   int size() const { return thesize; }
   bool has(int n) const { return n >= 0 && n < thenum; }
   bool has(const DataKey& k) const
   {
      __CPROVER_assert(0 <= k.idx && k.idx < thesize, "DataSet::has(key): 0 <= key.idx < size()");
      return numof[k.idx] >= 0;
   }
   DataKey key(int n) const
   {
      __CPROVER_assert(0 <= n && n < thenum, "DataSet::key(n): 0 <= n < num()");
      return thekey[n];
   }
   int number(const DataKey& k) const
   {
      __CPROVER_assert(0 <= k.idx && k.idx < thesize, "DataSet::number(key): 0 <= key.idx < size() (else it throws)");
      return numof[k.idx];
   }
   int& operator[](int n)
   {
      __CPROVER_assert(0 <= n && n < thenum, "DataSet::operator[](n): 0 <= n < num()");
      return data[thekey[n].idx];
   }
   const int& operator[](int n) const
   {
      __CPROVER_assert(0 <= n && n < thenum, "DataSet::operator[](n): 0 <= n < num()");
      return data[thekey[n].idx];
   }
   const int& operator[](const DataKey& k) const
   {
      __CPROVER_assert(0 <= k.idx && k.idx < thesize, "DataSet::operator[](key): 0 <= key.idx < size()");
      return data[k.idx];
   }
   int* create(DataKey& newkey)
   {
      __CPROVER_assert(thenum < themax, "DataSet::create: num() < max()");
      int c = nondet_int();
      __CPROVER_assume(0 <= c && c <= thesize && c < CAP && (c == thesize || numof[c] < 0));
      if(c == thesize)
         thesize++;
      newkey.idx = c;
      thekey[thenum] = newkey;
      numof[c] = thenum;
      ++thenum;
      return &data[c];
   }
   void remove(const DataKey& removekey)
   {
      int n = number(removekey);
      if(!has(n))
         return;
      int c = thekey[n].idx;
      numof[c] = -1;
      int ns = nondet_int();        /* size() shrinks to just above the highest cell still in use, or stays */
      __CPROVER_assume(0 <= ns && ns <= thesize);
#define DEADTOP(i) __CPROVER_assume(!((i) >= ns && (i) < thesize) || numof[i] < 0);
      REP_DO(DEADTOP)
      thesize = ns;
      --thenum;
      if(n != thenum)
      {
         thekey[n] = thekey[thenum];
         numof[thekey[n].idx] = n;
      }
   }
   void reMax(int newmax) { themax = (newmax < thesize) ? thesize : newmax; }
};

struct NameSetHost
{
#include "NameSet_Name.inc"

   /* DataHashTable<Name, DataKey>: model of the contracts proved in unit datahashtable - a finite map; has/get find the
    * unique entry whose key compares equal to h; add(h, info) requires !has(h) (obligation) and uses an entry that was
    * not in use; remove(h) releases the entry of h; all other entries are untouched.  Growth (DataHashTable::reMax)
    * keeps the content.  WHERE an entry is stored is irrelevant to every caller, so the model stores the entry with info
    * = key k at index k.idx; that no second name is registered for a key is an obligation at add. */
   struct HashTabModel
   {
      const char* name[CAP];
      DataKey     info[CAP];
      int         used[CAP];
      int         m_used;
      int find(const Name& h) const
      {
/* key equality is Name::operator== = (strcmp(n1.name, n2.name) == 0) (conformance-checked).  Written out because goto-cc
 * does not find an in-class friend operator and silently compares the two structs bitwise instead. */
#define FIND(e) if(used[e] && strcmp(name[e], h.name) == 0) return (e);
         REP_DO(FIND)
         return -1;
      }
      bool has(const Name& h) const { return find(h) >= 0; }
      const DataKey* get(const Name& h) const
      {
         int e = find(h);
         if(e < 0)
            return 0;
         return (DataKey*)&info[e];      /* goto-cc drops the const of the return type */
      }
      void add(const Name& h, const DataKey& inf)
      {
         __CPROVER_assert(!has(h), "DataHashTable::add(h, info): !has(h)");
         int e = inf.idx;
         __CPROVER_assert(0 <= e && e < CAP && !used[e], "hash table model: the key is valid and no other name is registered for it");
         used[e] = 1;
         name[e] = h.name;
         info[e] = inf;
         m_used++;
      }
      void remove(const Name& h)
      {
         int e = find(h);
         if(e < 0)
            return;
         used[e] = 0;
         m_used--;
      }
      void reMax(int newSize = -1, int newHashSize = 0) {}
   };

   DataSetModel set;
   char* mem;
   int memmax;
   int memused;
   HashTabModel hashtab;
   Real factor;
   Real memFactor;

   const char* operator[](int pnum) const
   {
#include "NameSet_atNum.inc"
   }
   const char* operator[](const DataKey& pkey) const
   {
#include "NameSet_atKey.inc"
   }
   int num() const
   {
#include "NameSet_num.inc"
   }
   int max() const
   {
#include "NameSet_max.inc"
   }
   int size() const
   {
#include "NameSet_size.inc"
   }
   int memMax() const
   {
#include "NameSet_memMax.inc"
   }
   int memSize() const
   {
#include "NameSet_memSize.inc"
   }
   DataKey key(int pnum) const
   {
#include "NameSet_keyNum.inc"
   }
   DataKey key(const char* str) const
   {
#include "NameSet_keyStr.inc"
   }
   int number(const DataKey& pkey) const
   {
#include "NameSet_numberKey.inc"
   }
   int number(const char* str) const
   {
#include "NameSet_numberStr.inc"
   }
   bool has(int pnum) const
   {
#include "NameSet_hasNum.inc"
   }
   bool has(const char* str) const
   {
#include "NameSet_hasStr.inc"
   }
   bool has(const DataKey& pkey) const
   {
#include "NameSet_hasKey.inc"
   }
   void reMax(int newmax = 0)
   {
#include "NameSet_reMax.inc"
   }
   /* arena growth / garbage collection are excluded by the precondition of instance add (enough room in the arena) */
   void memPack()
   {
      __CPROVER_assert(0, "add(): the arena has room under the instance's precondition (memPack not reached)");
      __CPROVER_assume(0);
   }
   void memRemax(int newmax = 0)
   {
      __CPROVER_assert(0, "add(): the arena has room under the instance's precondition (memRemax not reached)");
      __CPROVER_assume(0);
   }
   void add(DataKey& p_key, const char* str)
   {
#include "NameSet_addKey.inc"
   }
   void add(const char* str)
   {
#include "NameSet_add.inc"
   }
   void remove(const DataKey& p_key)
   {
#include "NameSet_removeKey.inc"
   }
   void remove(int pnum)
   {
#include "NameSet_removeNum.inc"
   }
   void remove(const char* str)
   {
#include "NameSet_removeStr.inc"
   }
};
const char NameSetHost::Name::deflt = '\0';

#define CPIN(i)  s.set.data[i] = sdata[i]; s.set.numof[i] = snumof[i]; s.set.thekey[i].info = 0; s.set.thekey[i].idx = skeyidx[i]; \
   s.hashtab.name[i] = mem + hoff[i]; s.hashtab.info[i].info = 0; s.hashtab.info[i].idx = (i); s.hashtab.used[i] = hused[i]
#define CPOUT(i) sdata[i] = s.set.data[i]; snumof[i] = s.set.numof[i]; skeyidx[i] = s.set.thekey[i].idx; \
   hoff[i] = (int)(s.hashtab.name[i] - mem); hused[i] = s.hashtab.used[i]; hinfo_ok[i] = (!s.hashtab.used[i] || s.hashtab.info[i].idx == (i))
#define MKNS(s) NameSetHost s; REP_DO(CPIN) s.set.themax = *smax; s.set.thesize = *ssize; s.set.thenum = *snum; s.mem = mem; \
   s.memmax = memmax; s.memused = *memused; s.hashtab.m_used = *hmused; s.factor = 2.0; s.memFactor = 2.0
#define PUTNS(s) REP_DO(CPOUT) *smax = s.set.themax; *ssize = s.set.thesize; *snum = s.set.thenum; *memused = s.memused; *hmused = s.hashtab.m_used
#define NSARGS int* sdata, int* snumof, int* skeyidx, int* smax, int* ssize, int* snum, char* mem, int memmax, int* memused, \
   int* hoff, int* hinfo_ok, int* hused, int* hmused

#ifdef INST_lookup
extern "C" void w_lookup(NSARGS, const char* str, int* out_num, int* out_has, int* out_keyidx, int* out_off)
{
   MKNS(s);
   *out_num = s.number(str);
   *out_has = s.has(str);
   *out_keyidx = s.key(str).idx;
   *out_off = *out_num >= 0 ? (int)(s[*out_num] - mem) : -1;
   PUTNS(s);
}
#endif

#ifdef INST_add
/* LOOKUPS == 0: add only;  LOOKUPS == 1: number(str2) before, add, number(str), number(str2) after */
extern "C" void w_add(NSARGS, const char* str, const char* str2, int usekey, int* out_keyidx, int* out_num, int* out2_before, int* out2_after)
{
   MKNS(s);
#if LOOKUPS
   *out2_before = s.number(str2);
#endif
   DataKey k;
   if(usekey)
   {
      s.add(k, str);
      *out_keyidx = k.idx;
   }
   else
   {
      s.add(str);
      *out_keyidx = -1;
   }
#if LOOKUPS
   *out_num = s.number(str);
   *out2_after = s.number(str2);
#endif
   PUTNS(s);
}
#endif

#ifdef INST_remove
/* how == 0: remove(const char*), how == 1: remove(int pnum) [-> remove(const DataKey&)] */
extern "C" void w_remove(NSARGS, const char* str, const char* str2, int how, int pnum, int* out_after, int* out2_before, int* out2_after)
{
   MKNS(s);
   *out2_before = s.number(str2);
   if(how == 0)
      s.remove(str);
   else
      s.remove(pnum);
   *out_after = s.number(str);
   *out2_after = s.number(str2);
   PUTNS(s);
}
#endif
