/* C11 (assembly link): the rational basis matrix handed to the rational LU solver is the matrix the basis indices name.
 * Real bodies of SoPlexBase<R>::_computeBasisInverseRational (solverational.hpp) and computeBasisInverseRational,
 * getBasisIndRational (soplex.hpp).  The LU solver, the column file and the unit vectors are identity-carrying stubs: the
 * contract is about WHICH vector object is placed in WHICH position, exactly (pointer identity), and about when the
 * factorization is (re)built. */
#include "verif.h"
/* type invariant of a basis index array: every entry names a column (>= 0) or a row (-1-row) of the LP */
#define DATAARRAY_READ_INVARIANT(v) __CPROVER_assume(-g_nrows <= (v) && (v) < g_ncols)
extern "C" { extern int g_nrows, g_ncols; }
#include "containers.h"
#ifndef CAPD
#define CAPD 6
#endif
#define SPX_MSG_INFO1(a, b)
#define SPX_MSG_INFO2(a, b)
typedef double R;

extern "C" {
extern int g_status_after_load, g_load_calls, g_load_dim, g_clear_calls, g_getind_calls, g_cbir_calls, g_tl_calls, g_nrows, g_ncols, g_hasbasis;
extern const void* g_load_ptr; extern const void* g_loaded_at_g; extern int g_k; extern int* gp_bindarg;
extern double g_tl_arg; extern const void** gp_matrix; extern const void* g_expect;
}

struct SVectorRational { int tag; };

struct SLinSolverRational
{
#include "Status.inc"
};

struct LUStub
{
   int st;
   SLinSolverRational::Status status() const { return (SLinSolverRational::Status)st; }
   void clear() { g_clear_calls++; st = SLinSolverRational::UNLOADED; }
   void setTimeLimit(double t) { g_tl_calls++; g_tl_arg = t; }
   /* load: records the matrix pointer, the dimension and the vector placed at the ghost position */
   void load(void* mv, int dim) { const void** m = (const void**)mv; g_load_calls++; g_load_ptr = m; g_load_dim = dim; if(0 <= g_k && g_k < dim) g_loaded_at_g = m[g_k]; st = g_status_after_load; }
   double getFactorTime() const { return 0.0; }
   int getFactorCount() const { return 1; }
   void resetCounters() {}
   int dim() const { return g_load_dim; }
};

/* Array<T>: the storage is a buffer owned by the wrapper (gp_matrix) so that the loop invariant can name its cells */
template <class T> struct Array
{
   void* data_; int sz;
   Array(int n) { sz = n; data_ = (void*)gp_matrix; }
   T& operator[](int n) { __CPROVER_assert(0 <= n && n < sz, "Array index in bounds"); return ((T*)data_)[n]; }
   void* get_ptr() { return data_; }   /* void*: the front end drops the const inside `const X**` return types */
};

struct Timer { double time() const { return 0.0; } };
struct Statistics { Timer* solvingTime; double luFactorizationTimeRational; int luFactorizationsRational; };

template <class T> struct SoPlexNames
{
#include "RealParam.inc"
};

struct Host : SoPlexNames<R>
{
   LUStub _rationalLUSolver;
   DataArray<int> _rationalLUSolverBind; int bindcap;
   SVectorRational* cols; SVectorRational* units;
   Statistics* _statistics; double p_timelimit, p_infty; void* spxout;
   int numRowsRational() const { return g_nrows; }
   int numColsRational() const { return g_ncols; }
   bool hasBasis() const { return g_hasbasis != 0; }
   const SVectorRational& colVectorRational(int i) const { __CPROVER_assert(0 <= i && i < g_ncols, "column number in bounds"); return cols[i]; }
   const SVectorRational* _unitVectorRational(int i) const { __CPROVER_assert(0 <= i && i < g_nrows, "unit vector number in bounds"); return &units[i]; }
   double realParam(int p) const { return p == TIMELIMIT ? p_timelimit : p_infty; }
   void getBasisInd(int* bind) { g_getind_calls++; gp_bindarg = bind; }
};
#define SoPlexBase SoPlexNames

/* DataArray::reSize on the stub: capacity is fixed by the wrapper */
static inline void bind_resize(DataArray<int>& a, int n, int cap) { __CPROVER_assert(0 <= n && n <= cap, "bind capacity"); a.thesize = n; }

#ifdef INST_assemble
struct H : Host
{
   void body()
   {
#include "cbir.inc"
   }
};
extern "C" void w_assemble(int* bind, int nrows, int ncols, int st, double timelimit, double infty)
{
   SVectorRational cols[CAPD], units[CAPD]; Timer tm; Statistics stat; stat.solvingTime = &tm; stat.luFactorizationTimeRational = 0; stat.luFactorizationsRational = 0;
   H h; h._rationalLUSolver.st = st; h._rationalLUSolverBind.data = bind; h._rationalLUSolverBind.thesize = nrows; h._rationalLUSolverBind.themax = nrows; h.bindcap = nrows;
   h.cols = cols; h.units = units; h._statistics = &stat; h.p_timelimit = timelimit; h.p_infty = infty; h.spxout = 0;
   g_nrows = nrows; g_ncols = ncols;
   const void* mbuf[CAPD]; gp_matrix = mbuf;
   /* expected object for the ghost position, by identity */
   g_expect = bind[g_k] >= 0 ? (const void*)&cols[bind[g_k]] : (const void*)&units[-1 - bind[g_k]];
   h.body();
   __CPROVER_assert(g_loaded_at_g == g_expect, "matrix position g holds LP column bind[g], or the unit vector of row -1-bind[g]");
}
#endif

#ifdef INST_solves
/* try/catch is not supported by the front end: `try { A } catch(const SPxException& E) { B }` is compiled as
 * `if(1) { A } else for(const SPxException& E = verif_exc(); 0;) { B }`, i.e. the stub solves never throw */
struct SPxException { const char* what() const { return ""; } };
static SPxException g_exc_obj;
static inline const SPxException& verif_exc() { return g_exc_obj; }
#define try if(1)
#define catch(x) else for(x = verif_exc(); 0;)
struct SSVectorRational { int dim; void reDim(int n) { dim = n; } };
extern "C" { extern int g_solve_left, g_solve_right, g_redim; extern const void* g_solve_arg; extern const void* g_solve_out; extern int g_status_after_compute; }
struct LUStub2 : LUStub
{
   void solveLeft(SSVectorRational& x, const SVectorRational& b) { g_solve_left++; g_solve_arg = &b; g_solve_out = &x; g_redim = x.dim; }
   void solveRight(SSVectorRational& x, const SVectorRational& b) { g_solve_right++; g_solve_arg = &b; g_solve_out = &x; g_redim = x.dim; }
};
struct H : Host
{
   LUStub2 _rationalLUSolver;   /* hides Host::_rationalLUSolver: same interface plus the solves */
   bool computeBasisInverseRational() { g_cbir_calls++; _rationalLUSolver.st = g_status_after_compute; return g_status_after_compute == SLinSolverRational::OK; }
   bool getBasisInverseRowRational(const int r, SSVectorRational& vec)
   {
#include "invrow.inc"
   }
   bool getBasisInverseColRational(const int c, SSVectorRational& vec)
   {
#include "invcol.inc"
   }
   bool getBasisInverseTimesVecRational(const SVectorRational& rhs, SSVectorRational& sol)
   {
#include "invvec.inc"
   }
};
extern "C" int w_solves(int which, int nrows, int st, int k)
{
   SVectorRational units[CAPD], rhs; SSVectorRational out; out.dim = -1;
   H h; h._rationalLUSolver.st = st; h.units = units; g_nrows = nrows;
   int ret;
   const void* expect;
   if(which == 0) { ret = h.getBasisInverseRowRational(k, out); expect = &units[k]; }
   else if(which == 1) { ret = h.getBasisInverseColRational(k, out); expect = &units[k]; }
   else { ret = h.getBasisInverseTimesVecRational(rhs, out); expect = &rhs; }
   if(ret)
      __CPROVER_assert(g_solve_arg == expect && g_solve_out == &out, "the solve is applied to the k-th unit vector (resp. the caller's right-hand side) and writes the caller's vector");
   return ret;
}
#endif

#ifdef INST_compute
struct H : Host
{
   void _computeBasisInverseRational() { g_cbir_calls++; __CPROVER_assert(_rationalLUSolverBind.thesize == g_nrows && g_getind_calls == 1 && gp_bindarg == _rationalLUSolverBind.data, "basis indices refreshed (size numRows, filled by getBasisInd) before the matrix is assembled"); _rationalLUSolver.st = g_status_after_load; }
   bool computeBasisInverseRational()
   {
#include "compute.inc"
   }
   bool getBasisIndRational(DataArray<int>& bind)
   {
#include "getind.inc"
   }
};
extern "C" int w_compute(int* bindmem, int nrows, int st, int hasbasis)
{
   H h; h._rationalLUSolver.st = st; h._rationalLUSolverBind.data = bindmem; h._rationalLUSolverBind.thesize = 0; h._rationalLUSolverBind.themax = CAPD; h.bindcap = CAPD;
   g_nrows = nrows; g_hasbasis = hasbasis;
   return h.computeBasisInverseRational() ? 1 : 0;
}
#endif
