/* C11 (assembly link): the rational basis matrix handed to the rational LU solver is the matrix the basis indices name.
 * Real bodies of SoPlexBase<R>::_computeBasisInverseRational (solverational.hpp) and computeBasisInverseRational,
 * getBasisIndRational (soplex.hpp).  The LU solver, the column file and the unit vectors are identity-carrying stubs: the
 * contract is about WHICH vector object is placed in WHICH position, exactly (pointer identity), and about when the
 * factorization is (re)built. */
#include "verif.h"
/* type invariant of a basis index array: every entry names a column (>= 0) or a row (-1-row) of the LP */
#define DATAARRAY_READ_INVARIANT(v) __CPROVER_assume(-g_nrows <= (v) && (v) < g_ncols)
extern "C" { extern int g_nrows, g_ncols; }
#include "containers.h"
#ifndef CAPD
#define CAPD 6
#endif
#define SPX_MSG_INFO1(a, b)
#define SPX_MSG_INFO2(a, b)
typedef double R;

extern "C" {
extern int g_status_after_load, g_load_calls, g_load_dim, g_clear_calls, g_getind_calls, g_cbir_calls, g_tl_calls, g_nrows, g_ncols, g_hasbasis;
extern const void* g_load_ptr; extern const void* g_loaded_at_g; extern int g_k; extern int* gp_bindarg;
extern double g_tl_arg; extern const void** gp_matrix; extern const void* g_expect;
}

struct SVectorRational { int tag; };

struct SLinSolverRational
{
#include "Status.inc"
};

struct LUStub
{
   int st;
   SLinSolverRational::Status status() const { return (SLinSolverRational::Status)st; }
   void clear() { g_clear_calls++; st = SLinSolverRational::UNLOADED; }
   void setTimeLimit(double t) { g_tl_calls++; g_tl_arg = t; }
   /* load: records the matrix pointer, the dimension and the vector placed at the ghost position */
   void load(void* mv, int dim) { const void** m = (const void**)mv; g_load_calls++; g_load_ptr = m; g_load_dim = dim; if(0 <= g_k && g_k < dim) g_loaded_at_g = m[g_k]; st = g_status_after_load; }
   double getFactorTime() const { return 0.0; }
   int getFactorCount() const { return 1; }
   void resetCounters() {}
   int dim() const { return g_load_dim; }
};

/* Array<T>: the storage is a buffer owned by the wrapper (gp_matrix) so that the loop invariant can name its cells */
template <class T> struct Array
{
   void* data_; int sz;
   Array(int n) { sz = n; data_ = (void*)gp_matrix; }
   T& operator[](int n) { __CPROVER_assert(0 <= n && n < sz, "Array index in bounds"); return ((T*)data_)[n]; }
   void* get_ptr() { return data_; }   /* void*: the front end drops the const inside `const X**` return types */
};

struct Timer { double time() const { return 0.0; } };
struct Statistics { Timer* solvingTime; double luFactorizationTimeRational; int luFactorizationsRational; };

template <class T> struct SoPlexNames
{
#include "RealParam.inc"
};

struct Host : SoPlexNames<R>
{
   LUStub _rationalLUSolver;
   DataArray<int> _rationalLUSolverBind; int bindcap;
   SVectorRational* cols; SVectorRational* units;
   Statistics* _statistics; double p_timelimit, p_infty; void* spxout;
   int numRowsRational() const { return g_nrows; }
   int numColsRational() const { return g_ncols; }
   bool hasBasis() const { return g_hasbasis != 0; }
   const SVectorRational& colVectorRational(int i) const { __CPROVER_assert(0 <= i && i < g_ncols, "column number in bounds"); return cols[i]; }
   const SVectorRational* _unitVectorRational(int i) const { __CPROVER_assert(0 <= i && i < g_nrows, "unit vector number in bounds"); return &units[i]; }
   double realParam(int p) const { return p == TIMELIMIT ? p_timelimit : p_infty; }
   void getBasisInd(int* bind) { g_getind_calls++; gp_bindarg = bind; }
};
#define SoPlexBase SoPlexNames

/* DataArray::reSize on the stub: capacity is fixed by the wrapper */
static inline void bind_resize(DataArray<int>& a, int n, int cap) { __CPROVER_assert(0 <= n && n <= cap, "bind capacity"); a.thesize = n; }

#ifdef INST_assemble
struct H : Host
{
   void body()
   {
#include "cbir.inc"
   }
};
extern "C" void w_assemble(int* bind, int nrows, int ncols, int st, double timelimit, double infty)
{
   SVectorRational cols[CAPD], units[CAPD]; Timer tm; Statistics stat; stat.solvingTime = &tm; stat.luFactorizationTimeRational = 0; stat.luFactorizationsRational = 0;
   H h; h._rationalLUSolver.st = st; h._rationalLUSolverBind.data = bind; h._rationalLUSolverBind.thesize = nrows; h._rationalLUSolverBind.themax = nrows; h.bindcap = nrows;
   h.cols = cols; h.units = units; h._statistics = &stat; h.p_timelimit = timelimit; h.p_infty = infty; h.spxout = 0;
   g_nrows = nrows; g_ncols = ncols;
   const void* mbuf[CAPD]; gp_matrix = mbuf;
   /* expected object for the ghost position, by identity */
   g_expect = bind[g_k] >= 0 ? (const void*)&cols[bind[g_k]] : (const void*)&units[-1 - bind[g_k]];
   h.body();
   __CPROVER_assert(g_loaded_at_g == g_expect, "matrix position g holds LP column bind[g], or the unit vector of row -1-bind[g]");
}
#endif

#ifdef INST_compute
struct H : Host
{
   void _computeBasisInverseRational() { g_cbir_calls++; __CPROVER_assert(_rationalLUSolverBind.thesize == g_nrows && g_getind_calls == 1 && gp_bindarg == _rationalLUSolverBind.data, "basis indices refreshed (size numRows, filled by getBasisInd) before the matrix is assembled"); _rationalLUSolver.st = g_status_after_load; }
   bool computeBasisInverseRational()
   {
#include "compute.inc"
   }
   bool getBasisIndRational(DataArray<int>& bind)
   {
#include "getind.inc"
   }
};
extern "C" int w_compute(int* bindmem, int nrows, int st, int hasbasis)
{
   H h; h._rationalLUSolver.st = st; h._rationalLUSolverBind.data = bindmem; h._rationalLUSolverBind.thesize = 0; h._rationalLUSolverBind.themax = CAPD; h.bindcap = CAPD;
   g_nrows = nrows; g_hasbasis = hasbasis;
   return h.computeBasisInverseRational() ? 1 : 0;
}
#endif
