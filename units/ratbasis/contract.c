#include "verif_c.h"
#ifndef CAPD
#define CAPD 6
#endif
int g_status_after_load, g_load_calls, g_load_dim, g_clear_calls, g_getind_calls, g_cbir_calls, g_tl_calls, g_nrows, g_ncols, g_hasbasis;
const void* g_load_ptr; const void* g_loaded_at_g; int g_k; int* gp_bindarg; double g_tl_arg; const void** gp_matrix; const void* g_expect;
/* SLinSolverRational::Status values come from the tree (constants.h) */
#include "constants.h"
static void havoc(void) { g_status_after_load = nondet_int(); g_load_calls = 0; g_clear_calls = 0; g_getind_calls = 0; g_cbir_calls = 0; g_tl_calls = 0; g_k = nondet_int(); g_load_dim = nondet_int(); }

#ifdef INST_assemble
void w_assemble(int* bind, int nrows, int ncols, int st, double timelimit, double infty)
__CPROVER_requires(0 < nrows && nrows <= CAPD && 0 < ncols && ncols <= CAPD && __CPROVER_is_fresh(bind, nrows * sizeof(int)))
__CPROVER_requires(0 <= g_k && g_k < nrows && -nrows <= bind[g_k] && bind[g_k] < ncols)   /* type invariant of a basis index */
__CPROVER_requires((st == ST_UNLOADED || st == ST_TIME) && g_load_calls == 0 && g_tl_calls == 0 && timelimit == timelimit && infty == infty)
__CPROVER_assigns(g_load_calls, g_load_ptr, g_load_dim, g_loaded_at_g, g_tl_calls, g_tl_arg, g_nrows, g_ncols, gp_matrix, g_expect)
__CPROVER_ensures(g_load_calls == 1 && g_load_dim == nrows)     /* loaded exactly once, with dimension numRows */
__CPROVER_ensures(g_tl_calls == 1 && (timelimit < infty || g_tl_arg == -1.0))   /* no limit <=> -1 */
;
void h_assemble(void) { int* bind; int nrows, ncols, st; double tl, inf; havoc(); w_assemble(bind, nrows, ncols, st, tl, inf); CANARY(); }
#endif

#ifdef INST_solves
int g_solve_left, g_solve_right, g_redim, g_status_after_compute; const void* g_solve_arg; const void* g_solve_out;
/* rows of the inverse = LEFT solve with the r-th unit vector, columns and B^-1 v = RIGHT solve; a stale or failed factorization
 * is never used: exactly one rebuild attempt, and no solve unless the solver status is OK */
int w_solves(int which, int nrows, int st, int k)
__CPROVER_requires(0 <= which && which <= 2 && 0 < nrows && nrows <= CAPD && 0 <= k && k < nrows)
__CPROVER_requires(g_solve_left == 0 && g_solve_right == 0 && g_cbir_calls == 0)
__CPROVER_assigns(g_solve_left, g_solve_right, g_redim, g_solve_arg, g_solve_out, g_cbir_calls, g_nrows)
__CPROVER_ensures(g_cbir_calls == (st != ST_OK))
__CPROVER_ensures(__CPROVER_return_value == (st == ST_OK || g_status_after_compute == ST_OK))
__CPROVER_ensures(!__CPROVER_return_value ==> (g_solve_left == 0 && g_solve_right == 0))
__CPROVER_ensures(__CPROVER_return_value ==> (g_redim == nrows && g_solve_left == (which == 0) && g_solve_right == (which != 0)))
;
void h_solves(void) { int which, nrows, st, k; havoc(); g_solve_left = 0; g_solve_right = 0; g_status_after_compute = nondet_int(); w_solves(which, nrows, st, k); CANARY(); }
#endif

#ifdef INST_compute
/* computeBasisInverseRational: no basis => cache cleared, false; stale/absent factorization => indices refreshed from the
 * solver's basis and matrix rebuilt exactly once; an OK factorization is reused untouched; true iff the solver ends up OK */
int w_compute(int* bindmem, int nrows, int st, int hasbasis)
__CPROVER_requires(0 < nrows && nrows <= CAPD && __CPROVER_is_fresh(bindmem, CAPD * sizeof(int)))
__CPROVER_requires((st == ST_OK || st == ST_INSTABLE || st == ST_SINGULAR || st == ST_UNLOADED || st == ST_ERROR || st == ST_TIME))
__CPROVER_requires(g_clear_calls == 0 && g_getind_calls == 0 && g_cbir_calls == 0)
__CPROVER_assigns(g_clear_calls, g_getind_calls, g_cbir_calls, gp_bindarg, g_nrows, g_hasbasis)
__CPROVER_ensures(!hasbasis ==> (__CPROVER_return_value == 0 && g_clear_calls == 1 && g_cbir_calls == 0))
__CPROVER_ensures((hasbasis && (st == ST_UNLOADED || st == ST_TIME)) ==> (g_cbir_calls == 1 && g_getind_calls == 1 && __CPROVER_return_value == (g_status_after_load == ST_OK)))
__CPROVER_ensures((hasbasis && st != ST_UNLOADED && st != ST_TIME) ==> (g_cbir_calls == 0 && g_getind_calls == 0 && g_clear_calls == 0 && __CPROVER_return_value == (st == ST_OK)))
;
void h_compute(void) { int* m; int nrows, st, hb; havoc(); w_compute(m, nrows, st, hb); CANARY(); }
#endif
