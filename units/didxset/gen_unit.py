import json, os
IH="src/soplex/idxset.h"; IC="src/soplex/idxset.cpp"; DH="src/soplex/didxset.h"; DC="src/soplex/didxset.cpp"
slices=[
 {"as":"IdxSet_size.inc","file":IH,"sig":r"int\s+size\s*\(\s*\)\s*const"},
 {"as":"IdxSet_max.inc","file":IH,"sig":r"int\s+max\s*\(\s*\)\s*const"},
 {"as":"IdxSet_addIdx.inc","file":IH,"sig":r"void\s+addIdx\s*\(\s*int\s+i\s*\)"},
 {"as":"IdxSet_add1.inc","file":IH,"sig":r"void\s+add\s*\(\s*int\s+n\s*\)"},
 {"as":"IdxSet_add.inc","file":IC,"sig":r"void\s+IdxSet::add\s*\(\s*int\s+n\s*,\s*const\s+int\s+i\[\]\s*\)"},
 {"as":"DIdxSet_setMax.inc","file":DC,"sig":r"void\s+DIdxSet::setMax\s*\(\s*int\s+newmax\s*\)","must_contain":[r"spx_realloc\(idx, len\)"]},
 {"as":"DIdxSet_add1.inc","file":DH,"sig":r"void\s+add\s*\(\s*int\s+n\s*\)"},
 {"as":"DIdxSet_add.inc","file":DH,"sig":r"void\s+add\s*\(\s*int\s+n\s*,\s*const\s+int\*\s*i\s*\)"},
 {"as":"DIdxSet_addIdx.inc","file":DH,"sig":r"void\s+addIdx\s*\(\s*int\s+i\s*\)"},
]
u={"property":["C19"],
 "desc":"DIdxSet: addIdx / add(n) / add(n, i[]) / setMax - growth through spx_realloc; real bodies from didxset.h / didxset.cpp on the real IdxSet bodies",
 "rmode":"int","defines":{"CAP":"8"},"defines_thorough":{"CAP":"8"},"defines_small":{"CAP":"4"},
 "flags":["--bounds-check","--pointer-check","--signed-overflow-check","--object-bits","7"],"timeout_s":300,
 "harness":"h_op","enforce":"w_op","slices":slices,
 "unwind":10,"unwind_loops":[{"function":"verif_realloc","loop":0},{"function":r"IdxSet::add\(this,.*\)","loop":0}],
 "conformance":[
  {"file":IH,"regex":r"protected:[^}]*?int\s+num;[^;]*?\n\s*int\s+len;[^;]*?\n\s*int\*\s+idx;[^;]*?\n\s*bool\s+freeArray;","why":"stub base IdxSet replicates exactly these four data members"},
  {"file":DH,"regex":r"class DIdxSet : public IdxSet","why":"DIdxSet derives from IdxSet (single inheritance) and adds no data member"},
  {"file":"src/soplex/spxalloc.h","regex":r"pp = reinterpret_cast<T>\(realloc\(p, sizeof\(\*p\) \* \(unsigned int\) n\)\);","why":"spx_realloc is realloc(p, n * sizeof(*p))"}],
 "trusted":[
  "stub base class IdxSet replicates the four data members (conformance-checked); all member bodies (IdxSet and DIdxSet) are the real ones",
  "spx_realloc: the real one minus the out-of-memory exception; realloc = malloc of the new size + copy of the common prefix + free of the old block (CBMC's library model with an explicit int copy loop); malloc/free are CBMC's library models",
  "max() <= CAP = 8 before the call, arguments n <= CAP; functional instances use constant-size blocks and prove the full postcondition; the `_mem` twin uses blocks of exactly the requested size and proves memory safety, frame and `the block has max() ints` only; loops (copy loops of add(n, i[]) and of the realloc model) unwound completely with --unwinding-assertions",
  "cbmc runs with --object-bits 7 (at most 128 objects; more is an error, not a miss); assert() compiled out (NDEBUG semantics)"],
 "instances":[]}
def inst(name, fn, op, mutants, **kw):
    d={"name":name,"function":fn,"defines":{"OP":str(op)},"mutants":mutants,"min_obligations":30}; d.update(kw); u["instances"].append(d)
inst("addIdx","DIdxSet::addIdx(int i) [+ setMax, spx_realloc, IdxSet::addIdx]",0,
  [{"name":"no_grow","slice":"DIdxSet_addIdx.inc","find":"if(max() <= size())","replace":"if(max() < size())"},
   {"name":"lose","slice":"DIdxSet_setMax.inc","find":"len = (newmax < size()) ? size() : newmax;","replace":"len = newmax; num = 0;"}])
inst("add_n","DIdxSet::add(int n) [+ setMax]",1,
  [{"name":"grow_short","slice":"DIdxSet_add1.inc","find":"setMax(size() + n);","replace":"setMax(size() + n - 1);"}])
inst("add_arr","DIdxSet::add(int n, const int* i) [+ setMax, IdxSet::add(n, i[])]",2,
  [{"name":"grow_short","slice":"DIdxSet_add.inc","find":"setMax(size() + n);","replace":"setMax(size() + n - 1);"},
   {"name":"shifted","slice":"IdxSet_add.inc","find":"idx[size() + j] = i[j];","replace":"idx[size() + j] = i[n - 1 - j];"}])
inst("setMax","DIdxSet::setMax(int newmax)",3,
  [{"name":"clamp","slice":"DIdxSet_setMax.inc","find":"len = (newmax < size()) ? size() : newmax;","replace":"len = newmax;"},
   {"name":"min1","slice":"DIdxSet_setMax.inc","find":"len = (len < 1) ? 1 : len;","replace":"len = (len < 0) ? 1 : len;"}])
inst("addIdx_mem","DIdxSet::addIdx(int i)  [memory safety, blocks of exactly the requested size]",0,
  [{"name":"no_grow","slice":"DIdxSet_addIdx.inc","find":"if(max() <= size())","replace":"if(max() < size())"}],defines={"OP":"0","EXACT_ALLOC":""})
inst("add_arr_mem","DIdxSet::add(int n, const int* i)  [memory safety, blocks of exactly the requested size]",2,
  [{"name":"grow_short","slice":"DIdxSet_add.inc","find":"setMax(size() + n);","replace":"setMax(size() + n - 1);"}],defines={"OP":"2","EXACT_ALLOC":""})
EXPECTED_S={'addIdx': 3, 'add_n': 5, 'add_arr': 10, 'setMax': 4, 'addIdx_mem': 4, 'add_arr_mem': 14}
THOROUGH_ONLY=[]
for _i in u["instances"]:
    if _i["name"] in EXPECTED_S: _i["expected_s"]=EXPECTED_S[_i["name"]]
    if _i["name"] in THOROUGH_ONLY: _i["tier"]="thorough"
json.dump(u, open(os.path.join(os.path.dirname(os.path.abspath(__file__)), "unit.json"), "w"), indent=1)
