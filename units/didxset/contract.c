/* Contracts for DIdxSet (C19: "growing the capacity loses nothing"; dense storage 0..size()-1).
 * w_op(idx, &num, &len, op, a, src) returns the (possibly re-allocated) index array.  Invariant: 1 <= max(), 0 <= size() <=
 * max(), idx is a heap block of max() ints.  Every index stored before the call keeps its position and value (ghost g_k);
 * addIdx(i): size()+1, the new last index is i;  add(n): size()+n (n >= 0);  add(n, src): size()+n and position size()+j
 * holds src[j] (ghost g_j);  setMax(m): max() == max(m, size(), 1);  in every case size() <= max() afterwards and the block
 * has max() ints. */
#include "verif_c.h"
#ifndef CAP
#define CAP 8
#endif
int g_k, g_j, g_s0, g_l0, v_old, v_src;
#ifdef EXACT_ALLOC
#define ALLOC_N (*len)
#define ENSURES(e) __CPROVER_ensures(1)
#else
#define ALLOC_N CAP
#define ENSURES(e) __CPROVER_ensures(e)
#endif
#define RET __CPROVER_return_value
#define NEWSZ (op == 0 ? g_s0 + 1 : (op == 1 || op == 2) ? g_s0 + a : g_s0)
int* w_op(int* idx, int* num, int* len, int op, int a, const int* src)
__CPROVER_requires(__CPROVER_is_fresh(num, sizeof(int)) && __CPROVER_is_fresh(len, sizeof(int)) && 1 <= *len && *len <= CAP
   && 0 <= *num && *num <= *len && __CPROVER_is_fresh(idx, ALLOC_N * sizeof(int)) && __CPROVER_is_fresh(src, CAP * sizeof(int)))
__CPROVER_requires(op == OP && (op == 0 || (op == 3 ? (-CAP <= a && a <= 2 * CAP) : (0 <= a && a <= CAP))))
__CPROVER_requires(g_s0 == *num && g_l0 == *len && (!(0 <= g_k && g_k < *num) || v_old == idx[g_k]) && (!(0 <= g_j && g_j < CAP) || v_src == src[g_j]))
__CPROVER_assigns(*num, *len, __CPROVER_object_whole(idx))
__CPROVER_frees(idx)
__CPROVER_ensures(__CPROVER_rw_ok(RET, *len * sizeof(int)) && 1 <= *len && 0 <= *num && *num <= *len)
ENSURES(*num == NEWSZ)
ENSURES(!(0 <= g_k && g_k < g_s0) || RET[g_k] == v_old)
ENSURES(op != 0 || RET[g_s0] == a)
ENSURES(op != 2 || !(0 <= g_j && g_j < a) || RET[g_s0 + g_j] == v_src)
ENSURES(op != 3 || *len == ((a > g_s0 ? a : g_s0) > 1 ? (a > g_s0 ? a : g_s0) : 1))
ENSURES(op == 3 || (NEWSZ <= g_l0 ? (*len == g_l0 && RET == idx) : *len == NEWSZ))
;
void h_op(void)
{
   int* idx; int* num; int* len; int op, a; const int* src;
   g_k = nondet_int(); g_j = nondet_int(); g_s0 = nondet_int(); g_l0 = nondet_int(); v_old = nondet_int(); v_src = nondet_int();
   w_op(idx, num, len, op, a, src);
   CANARY();
}
