/* C19: DIdxSet (src/soplex/didxset.h / didxset.cpp): addIdx(int), add(int n), add(int n, const int* i), setMax(int) - the
 * growing front end of IdxSet.  Real bodies; the base class is the stub `IdxSet` with the four real data members
 * (conformance-checked) and the real bodies of size / max / addIdx / add(int) / add(int, const int[]).
 * spx_realloc: the real one minus the out-of-memory exception; realloc = malloc + copy of the common prefix + free. */
#include "verif.h"

extern "C" {
void* malloc(size_t);
void free(void*);
/* functional instances allocate a constant-size block >= the request (small SAT encoding); the `_mem` twin (EXACT_ALLOC)
 * allocates exactly the requested size */
#ifdef EXACT_ALLOC
#define VERIF_NEWSIZE(n) (n)
#else
#define VERIF_NEWSIZE(n) ((2 * CAP + 2) * sizeof(int))
#endif
void* verif_realloc(void* p, size_t n)
{
   __CPROVER_assert(n % sizeof(int) == 0 && 0 < n, "realloc model: whole ints");
   int* q = (int*)malloc(VERIF_NEWSIZE(n));
   __CPROVER_assume(q != 0);
   size_t old = __CPROVER_OBJECT_SIZE(p);
   size_t m = (old < n ? old : n) / sizeof(int);
   for(size_t i = 0; i < m; ++i)
      q[i] = ((const int*)p)[i];
   free(p);
   return q;
}
}
#define realloc(p, n) verif_realloc((p), (n))
template <class PT> inline void spx_realloc(PT& p, int n)
{
   PT pp;
   if(n == 0) n = 1;
   pp = (PT)(realloc(p, sizeof(*p) * (unsigned int) n));
   __CPROVER_assume(pp != 0);         /* the real one throws SPxMemoryException */
   p = pp;
}

struct IdxSet
{
   int  num;
   int  len;
   int* idx;
   bool freeArray;
   int size() const
   {
#include "IdxSet_size.inc"
   }
   int max() const
   {
#include "IdxSet_max.inc"
   }
   void addIdx(int i)
   {
#include "IdxSet_addIdx.inc"
   }
   void add(int n)
   {
#include "IdxSet_add1.inc"
   }
   void add(int n, const int i[])
   {
#include "IdxSet_add.inc"
   }
};

struct DIdxSet : IdxSet
{
   void setMax(int newmax = 1)
   {
#include "DIdxSet_setMax.inc"
   }
   void add(int n)
   {
#include "DIdxSet_add1.inc"
   }
   void add(int n, const int* i)
   {
#include "DIdxSet_add.inc"
   }
   void addIdx(int i)
   {
#include "DIdxSet_addIdx.inc"
   }
};

/* op 0: addIdx(a);  1: add(a);  2: add(a, src);  3: setMax(a) */
extern "C" int* w_op(int* idx, int* num, int* len, int op, int a, const int* src)
{
   VIN("num", *num); VIN("len", *len); VIN("op", op); VIN("a", a);
   DIdxSet s; s.num = *num; s.len = *len; s.idx = idx; s.freeArray = true;
   if(op == 0) s.addIdx(a);
   else if(op == 1) s.add(a);
   else if(op == 2) s.add(a, src);
   else s.setMax(a);
   *num = s.num; *len = s.len;
   return s.idx;
}
