/* C09: SPxScaler<R>::applyScaling and ::unscale (spxscaler.hpp), real bodies at R = ledger over the flat
 * two-copy matrix stub of stubs/scaler_lp.h.  Nested loops: 4 loop contracts. */
#include "verif.h"
#include "scaler_lp.h"

extern "C" {
extern R *gp_rowvals, *gp_colvals, *gp_lhs, *gp_rhs, *gp_rowobj, *gp_low, *gp_up, *gp_obj;
extern int *gp_rowsize, *gp_colsize;
extern void *gp_rv, *gp_cv; extern bool* gp_isScaled;
}

struct H
{
   SPxLPBase<R>* lp_;
   DataArray<int>* m_activeColscaleExp;
   DataArray<int>* m_activeRowscaleExp;
   void body()
   {
      SPxLPBase<R>& lp = *lp_;
#include SLICE
   }
};

extern "C" void w_mat(R* rowvals, int* rowidxs, int* rowsize, R* colvals, int* colidxs, int* colsize,
                      R* lhs, R* rhs, R* rowobj, R* low, R* up, R* obj, int* rowexp, int* colexp, int nr, int nc, bool* isScaled)
{
   SPxLPBase<R> lp;
   lp._isScaled = *isScaled; lp.nr = nr; lp.nc = nc;
   lp.LPColSetBase<R>::scaleExp.data = colexp; lp.LPColSetBase<R>::scaleExp.thesize = nc;
   lp.LPRowSetBase<R>::scaleExp.data = rowexp; lp.LPRowSetBase<R>::scaleExp.thesize = nr;
   lp.bind();
   lp.sh.low.val = low; lp.sh.low.dimen = nc; lp.sh.up.val = up; lp.sh.up.dimen = nc; lp.sh.obj.val = obj; lp.sh.obj.dimen = nc;
   lp.sh.left.val = lhs; lp.sh.left.dimen = nr; lp.sh.right.val = rhs; lp.sh.right.dimen = nr; lp.sh.robj.val = rowobj; lp.sh.robj.dimen = nr;
   lp.rowvals = rowvals; lp.rowidxs = rowidxs; lp.rowsize = rowsize;
   lp.colvals = colvals; lp.colidxs = colidxs; lp.colsize = colsize;
   gp_rowvals = rowvals; gp_colvals = colvals; gp_lhs = lhs; gp_rhs = rhs; gp_rowobj = rowobj;
   gp_low = low; gp_up = up; gp_obj = obj; gp_rowsize = rowsize; gp_colsize = colsize;
   SVectorBase<R> rview, cview; lp.rvp = &rview; lp.cvp = &cview;
   gp_rv = &rview; gp_cv = &cview; gp_isScaled = &lp._isScaled;
   H h; h.lp_ = &lp; h.m_activeColscaleExp = &lp.LPColSetBase<R>::scaleExp; h.m_activeRowscaleExp = &lp.LPRowSetBase<R>::scaleExp;
   h.body();
   *isScaled = lp._isScaled;
}
