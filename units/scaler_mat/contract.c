/* applyScaling (SGN=+1) / unscale (SGN=-1), ledger domain, ghost row cell (g_i,g_j), ghost column cell (g_c,g_d):
 *   matrix entry (row i, col k): += SGN*(rowexp[i]+colexp[k]) in BOTH copies;  lhs/rhs: += SGN*rowexp (finite side only);
 *   row objective += SGN*rowexp;  objective += SGN*colexp;  lower/upper -= SGN*colexp (finite only). */
#include "verif_c.h"
#ifndef CAP
#define CAP 4
#endif
#ifndef MATW
#define MATW 3
#endif
#define INF (1LL << 40)
#define FIN (1LL << 30)
#define EXP_MAX (1 << 20)
typedef long long R;
#define LEDGER_OK(x) ((x) == INF || (x) == -INF || (-FIN <= (x) && (x) <= FIN))
#define FINITE(x) (-FIN <= (x) && (x) <= FIN)
#define ISINF(x) ((x) == INF || (x) == -INF)
#define LD(x, e) (ISINF(x) ? (x) : (x) + (e))
#define EOK(e) (-EXP_MAX <= (e) && (e) <= EXP_MAX)

R *gp_rowvals, *gp_colvals, *gp_lhs, *gp_rhs, *gp_rowobj, *gp_low, *gp_up, *gp_obj;
int *gp_rowsize, *gp_colsize; void *gp_rv, *gp_cv; _Bool* gp_isScaled;
/* ghost constants */
int g_nr, g_nc, g_i, g_j, g_c, g_d, g_rcell, g_ccell, g_rs, g_cs;
R o_rv, n_rv, o_cv, n_cv, o_lhs, n_lhs, o_rhs, n_rhs, o_robj, n_robj, o_low, n_low, o_up, n_up, o_obj, n_obj;

void w_mat(R* rowvals, int* rowidxs, int* rowsize, R* colvals, int* colidxs, int* colsize,
           R* lhs, R* rhs, R* rowobj, R* low, R* up, R* obj, int* rowexp, int* colexp, int nr, int nc, _Bool* isScaled)
__CPROVER_requires(0 < nr && nr <= CAP && 0 < nc && nc <= CAP && g_nr == nr && g_nc == nc)
__CPROVER_requires(__CPROVER_is_fresh(rowvals, nr * MATW * sizeof(R)) && __CPROVER_is_fresh(rowidxs, nr * MATW * sizeof(int)) && __CPROVER_is_fresh(rowsize, nr * sizeof(int)))
__CPROVER_requires(__CPROVER_is_fresh(colvals, nc * MATW * sizeof(R)) && __CPROVER_is_fresh(colidxs, nc * MATW * sizeof(int)) && __CPROVER_is_fresh(colsize, nc * sizeof(int)))
__CPROVER_requires(__CPROVER_is_fresh(lhs, nr * sizeof(R)) && __CPROVER_is_fresh(rhs, nr * sizeof(R)) && __CPROVER_is_fresh(rowobj, nr * sizeof(R)))
__CPROVER_requires(__CPROVER_is_fresh(low, nc * sizeof(R)) && __CPROVER_is_fresh(up, nc * sizeof(R)) && __CPROVER_is_fresh(obj, nc * sizeof(R)))
__CPROVER_requires(__CPROVER_is_fresh(rowexp, nr * sizeof(int)) && __CPROVER_is_fresh(colexp, nc * sizeof(int)) && __CPROVER_is_fresh(isScaled, sizeof(_Bool)))
/* ghost row cell and ghost column cell, with the values the contract predicts for them */
__CPROVER_requires(0 <= g_i && g_i < nr && 0 <= g_j && g_j < MATW && g_rcell == g_i * MATW + g_j && g_rs == rowsize[g_i] && 0 <= g_rs && g_rs <= MATW)
__CPROVER_requires(0 <= g_c && g_c < nc && 0 <= g_d && g_d < MATW && g_ccell == g_c * MATW + g_d && g_cs == colsize[g_c] && 0 <= g_cs && g_cs <= MATW)
__CPROVER_requires(0 <= rowidxs[g_rcell] && rowidxs[g_rcell] < nc && 0 <= colidxs[g_ccell] && colidxs[g_ccell] < nr)
__CPROVER_requires(EOK(rowexp[g_i]) && EOK(colexp[g_c]) && EOK(colexp[rowidxs[g_rcell]]) && EOK(rowexp[colidxs[g_ccell]]))
__CPROVER_requires(o_rv == rowvals[g_rcell] && FINITE(o_rv) && n_rv == (g_j < g_rs ? LD(o_rv, (SGN) * (rowexp[g_i] + colexp[rowidxs[g_rcell]])) : o_rv))
__CPROVER_requires(o_cv == colvals[g_ccell] && FINITE(o_cv) && n_cv == (g_d < g_cs ? LD(o_cv, (SGN) * (colexp[g_c] + rowexp[colidxs[g_ccell]])) : o_cv))
__CPROVER_requires(o_lhs == lhs[g_i] && (FINITE(o_lhs) || o_lhs == -INF) && n_lhs == LD(o_lhs, (SGN) * rowexp[g_i]))
__CPROVER_requires(o_rhs == rhs[g_i] && (FINITE(o_rhs) || o_rhs == INF) && n_rhs == LD(o_rhs, (SGN) * rowexp[g_i]))
__CPROVER_requires(o_robj == rowobj[g_i] && FINITE(o_robj) && n_robj == LD(o_robj, (SGN) * rowexp[g_i]))
__CPROVER_requires(o_low == low[g_c] && (FINITE(o_low) || o_low == -INF) && n_low == LD(o_low, -(SGN) * colexp[g_c]))
__CPROVER_requires(o_up == up[g_c] && (FINITE(o_up) || o_up == INF) && n_up == LD(o_up, -(SGN) * colexp[g_c]))
__CPROVER_requires(o_obj == obj[g_c] && FINITE(o_obj) && n_obj == LD(o_obj, (SGN) * colexp[g_c]))
__CPROVER_assigns(gp_rowvals, gp_colvals, gp_lhs, gp_rhs, gp_rowobj, gp_low, gp_up, gp_obj, gp_rowsize, gp_colsize, gp_rv, gp_cv, gp_isScaled)
__CPROVER_assigns(*isScaled, __CPROVER_object_whole(rowvals), __CPROVER_object_whole(colvals), __CPROVER_object_whole(lhs), __CPROVER_object_whole(rhs))
__CPROVER_assigns(__CPROVER_object_whole(rowobj), __CPROVER_object_whole(low), __CPROVER_object_whole(up), __CPROVER_object_whole(obj))
__CPROVER_ensures(rowvals[g_rcell] == n_rv && colvals[g_ccell] == n_cv)
__CPROVER_ensures(lhs[g_i] == n_lhs && rhs[g_i] == n_rhs && rowobj[g_i] == n_robj)
__CPROVER_ensures(low[g_c] == n_low && up[g_c] == n_up && obj[g_c] == n_obj)
__CPROVER_ensures(*isScaled == ((SGN) > 0))
;

static void havoc(void)
{
   g_nr = nondet_int(); g_nc = nondet_int(); g_i = nondet_int(); g_j = nondet_int(); g_c = nondet_int(); g_d = nondet_int();
   g_rcell = nondet_int(); g_ccell = nondet_int(); g_rs = nondet_int(); g_cs = nondet_int();
   o_rv = nondet_ll(); n_rv = nondet_ll(); o_cv = nondet_ll(); n_cv = nondet_ll(); o_lhs = nondet_ll(); n_lhs = nondet_ll();
   o_rhs = nondet_ll(); n_rhs = nondet_ll(); o_robj = nondet_ll(); n_robj = nondet_ll(); o_low = nondet_ll(); n_low = nondet_ll();
   o_up = nondet_ll(); n_up = nondet_ll(); o_obj = nondet_ll(); n_obj = nondet_ll();
}
void h_mat(void)
{
   R *rowvals, *colvals, *lhs, *rhs, *rowobj, *low, *up, *obj; int *rowidxs, *rowsize, *colidxs, *colsize, *rowexp, *colexp; int nr, nc; _Bool* isScaled;
   havoc();
   w_mat(rowvals, rowidxs, rowsize, colvals, colidxs, colsize, lhs, rhs, rowobj, low, up, obj, rowexp, colexp, nr, nc, isScaled);
   CANARY();
}
