#!/usr/bin/env python3
"""Generates units/unsimplify/unit.json (run by hand after editing; unit.json is what the runner reads; nothing here is
read at check time).  The loop invariants are not preprocessed, so the written-out sums over the DIM status entries
(#BASIC, 'no entry UNDEFINED', 'copied so far') are produced here."""
import json
import os

HERE = os.path.dirname(os.path.abspath(__file__))
DIM = 6
VSARG = r"typename\s+SPxSolverBase<R>::VarStatus"
HPP = "src/soplex/spxmainsm.hpp"
HDR = "src/soplex/spxmainsm.h"


def same(a, b):
    return "(%s==%s || (%s!=%s && %s!=%s))" % (a, b, a, a, b, b)


def cnt(p, n):
    return "(" + " + ".join("((%d < %s && %s[%d] == gE_BASIC) ? 1 : 0)" % (c, n, p, c) for c in range(DIM)) + ")"


def alldef(p, n):
    return "(" + " && ".join("(%d >= %s || %s[%d] == gE_UP || %s[%d] == gE_LO || %s[%d] == gE_FX || %s[%d] == gE_ZE || %s[%d] == gE_BASIC)"
                             % (c, n, p, c, p, c, p, c, p, c, p, c) for c in range(DIM)) + ")"


def copied(dst, src, upto):
    return ["(%d >= %s || %s[%d] == %s[%d])" % (c, upto, dst, c, src, c) for c in range(DIM)]


BODY = r"H::body\(this\)"
CBODY = r"H::body\(\$constthis\)"

COMMON_CONF = [
    {"file": "src/soplex/spxdefines.h", "regex": r"inline\s+Real\s+spxAbs\(Real\s+a\)\s*\{\s*return\s+fabs\(a\);", "why": "spxAbs stub is fabs"},
    {"file": "src/soplex/spxdefines.hpp", "regex": r"inline\s+bool\s+isZero\(R\s+a,\s*T\s+eps\)\s*\{\s*return\s+spxAbs\(a\)\s*<=\s*eps;",
     "why": "isZero stub is the real body |a| <= eps"},
    {"file": HPP, "regex": r"#ifndef\s+NDEBUG\s*\n#define\s+SOPLEX_CHECK_BASIS_DIM\s*\n#endif",
     "why": "SOPLEX_CHECK_BASIS_DIM blocks exist only in non-NDEBUG builds (proofs are for NDEBUG)"},
    {"file": HDR,
     "regex": r"VectorBase<R>\s+m_prim;[^\n]*\n\s*VectorBase<R>\s+m_slack;[^\n]*\n\s*VectorBase<R>\s+m_dual;[^\n]*\n\s*VectorBase<R>\s+m_redCost;[^\n]*\n"
              r"\s*DataArray<typename SPxSolverBase<R>::VarStatus>\s+m_cBasisStat;[^\n]*\n\s*DataArray<typename SPxSolverBase<R>::VarStatus>\s+m_rBasisStat;[^\n]*\n"
              r"\s*DataArray<int>\s+m_cIdx;[^\n]*\n\s*DataArray<int>\s+m_rIdx;[^\n]*\n\s*Array<std::shared_ptr<PostStep>>\s*m_hist;",
     "why": "host struct H replicates these data members of SPxMainSM<R> with the container models"},
    {"file": HDR, "regex": r"bool\s+m_postsolved;[^\n]*\n\s*DataArray<int>\s+m_stat;[^\n]*\n\s*typename SPxLPBase<R>::SPxSense\s+m_thesense;[^\n]*\n\s*bool\s+m_keepbounds;[^\n]*\n\s*int\s+m_addedcols;",
     "why": "host struct H: m_postsolved, m_thesense, m_keepbounds, m_addedcols"},
]
US_CONF = COMMON_CONF + [
    {"file": HDR, "regex": r"R\s+epsZero\(\)\s+const\s*\{\s*return\s+this->tolerances\(\)->epsilon\(\);", "why": "epsZero() only reads the tolerances object (modelled as an arbitrary double)"},
    {"file": HDR,
     "regex": r"virtual\s+void\s+execute\(\s*VectorBase<R>&\s*x,[^\n]*\n\s*VectorBase<R>&\s*y,[^\n]*\n\s*VectorBase<R>&\s*s,[^\n]*\n\s*VectorBase<R>&\s*r,[^\n]*\n"
              r"\s*DataArray<typename SPxSolverBase<R>::VarStatus>&\s*cBasis,[^\n]*\n\s*DataArray<typename SPxSolverBase<R>::VarStatus>&\s*rBasis,[^\n]*\n\s*bool\s+isOptimal\s*\)\s*const\s*=\s*0;",
     "why": "PostStep::execute(x, y, s, r, cBasis, rBasis, isOptimal) const: parameter order of the step stub"},
    {"file": HPP,
     "regex": r"for\(int i = lp\.nRows\(\) - 1; i >= 0; --i\)\s*\{\s*if\(lp\.maxRowObj\(i\) != 0\.0\)\s*\{\s*std::shared_ptr<PostStep> ptr\(new RowObjPS\(lp, i, lp\.nCols\(\), this->_tolerances\)\);"
              r"\s*m_hist\.append\(ptr\);\s*lp\.addCol\(lp\.rowObj\(i\), -lp\.rhs\(i\), UnitVectorBase<R>\(i\), -lp\.lhs\(i\)\);\s*lp\.changeRange\(i, R\(0\.0\), R\(0\.0\)\);\s*lp\.changeRowObj\(i, R\(0\.0\)\);\s*m_addedcols\+\+;",
     "why": "handleRowObjectives(): the t-th recorded step is the RowObjPS of slack column nCols + t; m_addedcols counts them"},
    {"file": HPP, "regex": r"m_thesense = lp\.spxSense\(\);", "why": "m_thesense is the sense of the LP handed to simplify()"},
    {"file": HPP,
     "regex": r"m_hist\.reSize\(0\);\s*m_postsolved = false;",
     "why": "simplify() starts with an empty history"},
    {"file": HPP,
     "regex": r"m_addedcols = 0;\s*handleRowObjectives\(lp\);\s*m_prim\.reDim\(lp\.nCols\(\)\);\s*m_slack\.reDim\(lp\.nRows\(\)\);\s*m_dual\.reDim\(lp\.nRows\(\)\);\s*m_redCost\.reDim\(lp\.nCols\(\)\);"
              r"\s*m_cBasisStat\.reSize\(lp\.nCols\(\)\);\s*m_rBasisStat\.reSize\(lp\.nRows\(\)\);\s*m_cIdx\.reSize\(lp\.nCols\(\)\);\s*m_rIdx\.reSize\(lp\.nRows\(\)\);",
     "why": "the RowObjPS steps are the FIRST steps of the history and the member vectors get the dimensions of the LP after handleRowObjectives()"},
    {"file": HDR, "regex": r"m_obj\(lp\.spxSense\(\) == SPxLPBase<R>::MINIMIZE \? lp\.obj\(_j\) : -lp\.obj\(_j\)\)",
     "why": "the steps store min-form objectives (c' = -c for MAXIMIZE), hence y' = -y, r' = -r inside the replay"},
    {"file": "src/soplex/array.h", "regex": r"void\s+reSize\(int\s+newsize\)\s*\{\s*data\.resize\(newsize\);\s*\}", "why": "Array::reSize model (shrink = drop the tail)"},
    {"file": "src/soplex/array.h", "regex": r"void\s+clear\(\)\s*\{\s*data\.clear\(\);\s*\}", "why": "Array::clear model"},
    {"file": "src/soplex/vectorbase.h", "regex": r"void\s+reDim\(int\s+newdim,\s*const\s+bool\s+setZero\s*=\s*true\)\s*\{\s*if\(setZero\s*&&\s*newdim\s*>\s*dim\(\)\)", "why": "VectorBase::reDim model (stubs/vector_redim.h): shrinking = val.resize(newdim)"},
    {"file": "src/soplex/dataarray.h", "regex": r"void\s+reSize\(int\s+newsize\)\s*\{\s*assert\(memFactor >= 1\);\s*if\(newsize > themax\)\s*reMax\(int\(memFactor \* newsize\), newsize\);\s*else if\(newsize < 0\)\s*thesize = 0;\s*else\s*thesize = newsize;",
     "why": "DataArray::reSize model of stubs/containers.h (within capacity: thesize = newsize)"},
]

US_SIG = (r"void\s+SPxMainSM<R>::unsimplify\s*\(\s*const\s+VectorBase<R>&\s*x\s*,\s*const\s+VectorBase<R>&\s*y\s*,\s*const\s+VectorBase<R>&\s*s\s*,"
          r"\s*const\s+VectorBase<R>&\s*r\s*,\s*const\s+%s\s+rows\[\]\s*,\s*const\s+%s\s+cols\[\]\s*,\s*bool\s+isOptimal\s*\)" % (VSARG, VSARG))
GB_SIG = (r"virtual\s+void\s+getBasis\s*\(\s*%s\s+rows\[\]\s*,\s*%s\s+cols\[\]\s*,\s*const\s+int\s+rowsSize\s*=\s*-1\s*,\s*const\s+int\s+colsSize\s*=\s*-1\s*\)\s*const"
          % (VSARG, VSARG))

ARRS = ["__CPROVER_object_whole(gp_prim)", "__CPROVER_object_whole(gp_dual)", "__CPROVER_object_whole(gp_slack)",
        "__CPROVER_object_whole(gp_rc)", "__CPROVER_object_whole(gp_cst)", "__CPROVER_object_whole(gp_rst)"]

us_loops = [
    # loop 0: columns of the reduced LP -> m_prim, m_redCost, m_cBasisStat
    {"function": BODY, "loop": 0, "locals": [["j", "1::1::j"]],
     "invariants": ["0 <= j && j <= g_nCred",
                    "g_kc >= j || (%s && %s)" % (same("gp_prim[g_kc]", "w_prim"), same("gp_rc[g_kc]", "w_rc")),
                    "g_kc < j || (%s && %s && gp_cst[g_kc] == v_cs)" % (same("gp_prim[g_kc]", "v_prim"), same("gp_rc[g_kc]", "v_rc"))]
                   + copied("gp_cst", "gp_cols", "j"),
     "assigns": ["j", "__CPROVER_object_whole(gp_prim)", "__CPROVER_object_whole(gp_rc)", "__CPROVER_object_whole(gp_cst)"],
     "decreases": "g_nCred - j"},
    # loop 1: rows of the reduced LP -> m_dual, m_slack, m_rBasisStat
    {"function": BODY, "loop": 1, "locals": [["i", "1::2::i"]],
     "invariants": ["0 <= i && i <= g_nRred",
                    "g_kr >= i || (%s && %s)" % (same("gp_dual[g_kr]", "w_dual"), same("gp_slack[g_kr]", "w_slack")),
                    "g_kr < i || (%s && %s && gp_rst[g_kr] == v_rs)" % (same("gp_dual[g_kr]", "v_dual"), same("gp_slack[g_kr]", "v_slack"))]
                   + copied("gp_rst", "gp_rows", "i"),
     "assigns": ["i", "__CPROVER_object_whole(gp_dual)", "__CPROVER_object_whole(gp_slack)", "__CPROVER_object_whole(gp_rst)"],
     "decreases": "g_nRred - i"},
    # loop 2: the history, replayed backwards.  Ghost running dimensions g_curR/g_curC (updated by the step stubs);
    # the summation invariant: #BASIC inside the current dimensions == current number of rows
    {"function": BODY, "loop": 2, "locals": [["k", "1::3::k"]],
     "invariants": ["-1 <= k && k < g_hn0 && *gp_hn == k + 1 && g_expect == k && g_steps == g_hn0 - 1 - k",
                    "g_nRred <= g_curR && g_curR <= g_nRorig && g_nCred <= g_curC && g_curC <= g_nCfull",
                    "k >= g_added || (g_curR == g_nRorig && g_curC == g_nCfull)",
                    "%s + %s == g_curR" % (cnt("gp_cst", "g_curC"), cnt("gp_rst", "g_curR")),
                    "g_def == 0 || (%s && %s)" % (alldef("gp_cst", "g_curC"), alldef("gp_rst", "g_curR"))]
                   # slack column c = nCorig + t is non-basic once its RowObjPS step t has run (t > k)
                   + ["(%d < g_nCorig || %d >= g_nCfull || %d - g_nCorig <= k || gp_cst[%d] != gE_BASIC)" % (c, c, c, c) for c in range(DIM)]
                   + ["k != g_hn0 - 1 || (%s && %s && %s && %s)" % (same("gp_prim[g_kc]", "w_prim"), same("gp_rc[g_kc]", "w_rc"),
                                                                 same("gp_dual[g_kr]", "w_dual"), same("gp_slack[g_kr]", "w_slack")),
                      "k != g_hn0 - 1 || (gp_cst[g_kc] == (g_kc < g_nCred ? gp_cols[g_kc] : v_cs) && gp_rst[g_kr] == (g_kr < g_nRred ? gp_rows[g_kr] : v_rs))",
                      "k >= g_hn0 - 1 || (%s && %s && %s && %s)" % (same("gp_prim[g_kc]", "sn_prim"), same("gp_rc[g_kc]", "sn_rc"),
                                                                  same("gp_dual[g_kr]", "sn_dual"), same("gp_slack[g_kr]", "sn_slack"))],
     "assigns": ["k", "*gp_hn", "*gp_hid", "g_expect", "g_steps", "g_curR", "g_curC", "g_thrown", "sn_prim", "sn_rc", "sn_dual", "sn_slack"] + ARRS,
     "decreases": "k + 1"},
    # loops 3, 4: MAXIMIZE: negate r and y back, every entry
    {"function": BODY, "loop": 3, "locals": [["j", "1::4::1::j"]],
     "invariants": ["0 <= j && j <= g_nCfull",
                    "g_kc >= j || %s" % same("gp_rc[g_kc]", "-(g_hn0 > 0 ? sn_rc : w_rc)"),
                    "g_kc < j || %s" % same("gp_rc[g_kc]", "(g_hn0 > 0 ? sn_rc : w_rc)")],
     "assigns": ["j", "__CPROVER_object_whole(gp_rc)"], "decreases": "g_nCfull - j"},
    {"function": BODY, "loop": 4, "locals": [["i", "1::4::2::i"]],
     "invariants": ["0 <= i && i <= g_nRorig",
                    "g_kr >= i || %s" % same("gp_dual[g_kr]", "-(g_hn0 > 0 ? sn_dual : w_dual)"),
                    "g_kr < i || %s" % same("gp_dual[g_kr]", "(g_hn0 > 0 ? sn_dual : w_dual)")],
     "assigns": ["i", "__CPROVER_object_whole(gp_dual)"], "decreases": "g_nRorig - i"},
]


def mut(name, sl, find, replace, regex=False):
    m = {"name": name, "slice": sl, "find": find, "replace": replace}
    if regex:
        m["regex"] = True
    return m


US = "unsimplify.inc"
us_mutants = [
    mut("forward_replay", US, "for(int k = m_hist.size() - 1; k >= 0; --k)", "for(int k = 0; k < m_hist.size(); ++k)"),
    mut("skip_step0", US, "for(int k = m_hist.size() - 1; k >= 0; --k)", "for(int k = m_hist.size() - 1; k >= 1; --k)"),
    mut("skip_last_step", US, "for(int k = m_hist.size() - 1; k >= 0; --k)", "for(int k = m_hist.size() - 2; k >= 0; --k)"),
    mut("wrong_status_array", US, "m_cBasisStat[j] = cols[j];", "m_cBasisStat[j] = rows[j];"),
    mut("wrong_index", US, "m_rBasisStat[i] = rows[i];", "m_rBasisStat[i] = rows[0];"),
    mut("dual_flip_dropped", US, r"\(m_thesense == SPxLPBase<R>::MAXIMIZE \? -y\[i\] :\s*y\[i\]\)", "y[i]", regex=True),
    mut("redcost_flip_inverted", US, r"\(m_thesense == SPxLPBase<R>::MAXIMIZE \? -r\[j\] :\s*r\[j\]\)", "(m_thesense == SPxLPBase<R>::MINIMIZE ? -r[j] : r[j])", regex=True),
    mut("flip_back_dropped", US, "m_dual[i] = -m_dual[i];", "m_dual[i] = m_dual[i];"),
    mut("swapped_args", US, "execute(m_prim, m_dual, m_slack, m_redCost,", "execute(m_prim, m_slack, m_dual, m_redCost,"),
    mut("swapped_status_args", US, "m_cBasisStat, m_rBasisStat, isOptimal);", "m_rBasisStat, m_cBasisStat, isOptimal);"),
    mut("isoptimal_const", US, "m_rBasisStat, isOptimal);", "m_rBasisStat, true);"),
    mut("exception_swallowed", US, 'throw SPxInternalCodeException("XMAISM00 Exception thrown during unsimply().");', ";"),
    mut("slack_cols_not_cut", US, "m_cBasisStat.reSize(m_cBasisStat.size() - m_addedcols);", ";"),
    mut("cut_off_by_one", US, "m_prim.reDim(m_prim.dim() - m_addedcols);", "m_prim.reDim(m_prim.dim() - m_addedcols + 1);"),
    mut("not_postsolved", US, "m_postsolved = true;", "m_postsolved = false;"),
    mut("zero_test_dropped", US, "m_slack[i] = isZero(s[i], this->epsZero()) ? 0.0 : s[i];", "m_slack[i] = s[i];"),
]

gb_loops = [
    {"function": CBODY, "loop": 0, "locals": ["i"],
     "invariants": ["0 <= i && i <= g_nRorig", "g_kr >= i || g_kr >= g_nRorig || gp_rows[g_kr] == v_in_r"],
     "assigns": ["i", "__CPROVER_object_upto(gp_rows, g_nRorig * sizeof(int))"], "decreases": "g_nRorig - i"},
    {"function": CBODY, "loop": 1, "locals": ["j"],
     "invariants": ["0 <= j && j <= g_nCfull", "g_kc >= j || g_kc >= g_nCfull || gp_cols[g_kc] == v_in_c"],
     "assigns": ["j", "__CPROVER_object_upto(gp_cols, g_nCfull * sizeof(int))"], "decreases": "g_nCfull - j"},
]
GB = "getBasis.inc"
gb_mutants = [
    mut("wrong_array_rows", GB, "rows[i] = m_rBasisStat[i];", "rows[i] = m_cBasisStat[i];"),
    mut("wrong_array_cols", GB, "cols[j] = m_cBasisStat[j];", "cols[j] = m_rBasisStat[j];"),
    mut("wrong_index", GB, "cols[j] = m_cBasisStat[j];", "cols[j] = m_cBasisStat[0];"),
    mut("off_by_one", GB, "i < m_rBasisStat.size()", "i < m_rBasisStat.size() + 1"),
    mut("rows_cols_swapped", GB, "rows[i] = m_rBasisStat[i];", "cols[i] = m_rBasisStat[i];"),
]

SIMP = "src/soplex/spxsimplifier.h"


def acc_slice(name, ret):
    return {"as": name + ".inc", "file": HDR, "sig": r"virtual\s+%s\s+%s\s*\(\s*\)" % (ret, name), "must_contain": []}


acc_slices = [acc_slice("unsimplifiedPrimal", r"const\s+VectorBase<R>&"), acc_slice("unsimplifiedDual", r"const\s+VectorBase<R>&"),
              acc_slice("unsimplifiedSlacks", r"const\s+VectorBase<R>&"), acc_slice("unsimplifiedRedCost", r"const\s+VectorBase<R>&"),
              {"as": "getBasisRowStatus.inc", "file": HDR, "sig": r"virtual\s+%s\s+getBasisRowStatus\s*\(\s*int\s+i\s*\)\s*const" % VSARG, "must_contain": []},
              {"as": "getBasisColStatus.inc", "file": HDR, "sig": r"virtual\s+%s\s+getBasisColStatus\s*\(\s*int\s+j\s*\)\s*const" % VSARG, "must_contain": []},
              {"as": "isUnsimplified.inc", "file": HDR, "sig": r"virtual\s+bool\s+isUnsimplified\s*\(\s*\)\s*const", "must_contain": []}]
acc_mutants = [
    mut("primal_is_dual", "unsimplifiedPrimal.inc", "return m_prim;", "return m_dual;"),
    mut("dual_is_slack", "unsimplifiedDual.inc", "return m_dual;", "return m_slack;"),
    mut("slack_is_dual", "unsimplifiedSlacks.inc", "return m_slack;", "return m_dual;"),
    mut("redcost_is_primal", "unsimplifiedRedCost.inc", "return m_redCost;", "return m_prim;"),
    mut("row_status_from_cols", "getBasisRowStatus.inc", "return m_rBasisStat[i];", "return m_cBasisStat[i];"),
    mut("col_status_wrong_index", "getBasisColStatus.inc", "return m_cBasisStat[j];", "return m_cBasisStat[0];"),
    mut("unsimplified_negated", "isUnsimplified.inc", "return m_postsolved;", "return !m_postsolved;"),
]
obj_slices = [
    {"as": "getObjoffset.inc", "file": SIMP, "sig": r"virtual\s+R\s+getObjoffset\s*\(\s*\)\s*const", "must_contain": []},
    {"as": "addObjoffset.inc", "file": SIMP, "sig": r"virtual\s+void\s+addObjoffset\s*\(\s*const\s+R\s+val\s*\)", "must_contain": []},
    {"as": "simplify_reset.inc", "file": HPP, "region_start": r"this->m_objoffset = 0\.0;\s*m_cutoffbound", "region_end": r"SPX_MSG_INFO2\(", "must_contain": []},
]
obj_mutants = [
    mut("add_subtracts", "addObjoffset.inc", "m_objoffset += val;", "m_objoffset -= val;"),
    mut("add_overwrites", "addObjoffset.inc", "m_objoffset += val;", "m_objoffset = val;"),
    mut("reset_dropped", "simplify_reset.inc", "this->m_objoffset = 0.0;", ";"),
    mut("result_not_okay", "simplify_reset.inc", r"m_result\s*=\s*this->OKAY;", "m_result = this->VANISHED;", regex=True),
    mut("history_kept", "simplify_reset.inc", r"if\(m_hist\.size\(\) > 0\)\s*\{\s*m_hist\.clear\(\);\s*\}\s*m_hist\.reSize\(0\);", ";", regex=True),
    mut("postsolved_kept", "simplify_reset.inc", "m_postsolved = false;", "m_postsolved = true;"),
]
OBJ_CONF = [
    {"file": SIMP, "regex": r"R\s+m_objoffset;", "why": "m_objoffset is a plain R member of SPxSimplifier<R>"},
    {"file": HPP, "regex": r"m_thesense = lp\.spxSense\(\);[^}]*?this->m_objoffset = 0\.0;", "why": "the reset region is the prologue of SPxMainSM<R>::simplify"},
    {"file": HDR, "regex": r"simplifier\.addObjoffset\(m_val \* lp\.obj\(m_j\)\);", "why": "FixVariablePS records its objective contribution through addObjoffset"},
    {"file": "src/soplex/spxdefines.cpp", "regex": r"const\s+Real\s+infinity\s*=\s*SOPLEX_DEFAULT_INFINITY;", "why": "`infinity` is SOPLEX_DEFAULT_INFINITY"},
    {"file": "src/soplex/array.h", "regex": r"void\s+reSize\(int\s+newsize\)\s*\{\s*data\.resize\(newsize\);\s*\}", "why": "Array::reSize model"},
    {"file": "src/soplex/array.h", "regex": r"void\s+clear\(\)\s*\{\s*data\.clear\(\);\s*\}", "why": "Array::clear model"},
]


unit = {
    "property": ["C08", "C04"],
    "desc": "SPxMainSM<R>::unsimplify (copy of the reduced solution, reverse replay of the postsolve history with the per-step "
            "#BASIC deltas summed to '#BASIC == #rows of the original LP', sign handling for MAXIMIZE, cut of the slack columns, "
            "m_postsolved) and SPxMainSM<R>::getBasis; real bodies at R = double, postsolve steps as contract stubs",
    "rmode": "double (IEEE, bit-precise); only copies, negations and the comparison |v| <= eps occur",
    "defines": {"DIM": str(DIM)},
    "flags": ["--bounds-check", "--pointer-check", "--signed-overflow-check"],
    "timeout_s": 600, "mem_gb": 8,
    "constants": [{"name": "SOPLEX_DEFAULT_INFINITY", "file": "src/soplex/spxdefines.h", "regex": r"#define\s+SOPLEX_DEFAULT_INFINITY\s+([0-9.e+]+)\s*\n"}],
    "extracts": [
        {"as": "Result.inc", "file": "src/soplex/spxsimplifier.h", "regex": r"enum Result\s*\{\s*OKAY\s*=\s*0,.*?\};"},
        {"as": "VarStatus.inc", "file": "src/soplex/spxsolver.h",
         "regex": r"enum VarStatus\s*\{\s*ON_UPPER,[^}]*?ON_LOWER,[^}]*?FIXED,[^}]*?ZERO,[^}]*?BASIC,[^}]*?UNDEFINED[^}]*?\};"},
        {"as": "SPxSense.inc", "file": "src/soplex/spxlpbase.h", "regex": r"enum SPxSense\s*\{\s*MAXIMIZE\s*=\s*1,\s*MINIMIZE\s*=\s*-1\s*\};"},
    ],
    "trusted": [
        "STEP STUB (unit.cpp PostStep::execute): a postsolve step is an arbitrary writer of the six arrays that re-inserts dR >= 0 rows and dC >= 0 columns "
        "into the current LP and changes the number of BASIC entries inside the current dimensions by exactly dR, leaves no status UNDEFINED if none was, "
        "or throws SPxException - this is clause (a)/(c)/(d) of the 16 contracts proved in units/postsolve (TightenBoundsPS: its proved delta is {0,+1}; the +1 case is excluded here, see props not_covered)",
        "the first m_addedcols steps of the history are the RowObjPS steps of handleRowObjectives(), step t owning slack column nCorig + t (conformance-checked); "
        "they keep the count, leave their column non-basic and write no other column status (units/postsolve RowObj contract)",
        "completeness of the recorded history: after the last non-RowObj step has been undone the current dimensions are those of the LP after handleRowObjectives() "
        "(every removeRow/removeCol of the presolver is paired with a recorded step; not proved here)",
        "host struct H replicates the data members of SPxMainSM<R> that the bodies touch (conformance-checked) with VectorBase (+reDim, stubs/vector_redim.h: shrinking only, asserted), "
        "DataArray (stubs/containers.h, reSize within capacity asserted) and a store-less model of Array<std::shared_ptr<PostStep>> (size, operator[] with bounds assertion, reSize shrinking only, clear)",
        "try/catch: `catch(const SPxException&)` is `if(g_thrown)` with g_thrown set by a throwing step stub; `throw X` ends the path (no postcondition promised for a throwing unsimplify)",
        "isZero/spxAbs are their real one-line bodies (conformance-checked); epsZero() is an arbitrary double",
        "assert(), SPX_MSG_INFO1, SPxOut::debug compiled out; NDEBUG semantics (no SOPLEX_CHECK_BASIS_DIM block)",
        "vectors capped at DIM = %d entries (typed harness arrays; all loop proofs are inductive - any history length, any iteration count; the cap bounds object sizes and the written-out #BASIC sums)" % DIM,
        "instance objoffset: R = double with an uninterpreted binary + (stubs/real_uf.h), so 'adds val' is one congruence step; the reset region of simplify() is cut by two text anchors "
        "(`this->m_objoffset = 0.0;` ... `SPX_MSG_INFO2(`); accessors: index in range is the caller's duty (the bodies only assert m_postsolved)",
        "copy/frame clauses compare doubles with ==, extended by NaN==NaN (sign of zero and NaN payload not distinguished)",
    ],
    "instances": [
        {"name": "unsimplify",
         "function": "SPxMainSM<R>::unsimplify(const VectorBase<R>& x, y, s, r, const VarStatus rows[], const VarStatus cols[], bool isOptimal)",
         "defines": {"INST_unsimplify": ""}, "harness": "h_unsimplify", "enforce": "w_unsimplify",
         "slices": [{"as": US, "file": HPP, "sig": US_SIG,
                     "must_contain": [r"for\(int k = m_hist\.size\(\) - 1; k >= 0; --k\)", r"m_postsolved = true;"]}],
         "conformance": US_CONF, "loops": us_loops, "mutants": us_mutants, "min_obligations": 150, "tier": "quick", "expected_s": 60},
        {"name": "getBasis",
         "function": "SPxMainSM<R>::getBasis(VarStatus rows[], VarStatus cols[], const int rowsSize, const int colsSize) const",
         "defines": {"INST_getBasis": ""}, "harness": "h_getBasis", "enforce": "w_getBasis",
         "slices": [{"as": GB, "file": HDR, "sig": GB_SIG, "must_contain": []}],
         "conformance": COMMON_CONF, "loops": gb_loops, "mutants": gb_mutants, "min_obligations": 20, "tier": "quick", "expected_s": 5},
        {"name": "accessors",
         "function": "SPxMainSM<R>::unsimplifiedPrimal/Dual/Slacks/RedCost(), getBasisRowStatus(i), getBasisColStatus(j), isUnsimplified()",
         "defines": {"INST_accessors": ""}, "harness": "h_accessors", "enforce": "w_accessors",
         "slices": acc_slices, "conformance": COMMON_CONF, "mutants": acc_mutants, "min_obligations": 10, "tier": "quick", "expected_s": 3},
        {"name": "objoffset",
         "function": "SPxSimplifier<R>::getObjoffset(), addObjoffset(val); reset prologue of SPxMainSM<R>::simplify (m_objoffset, m_hist, m_postsolved, m_result, counters)",
         "rmode": "double with uninterpreted binary + (stubs/real_uf.h: a generalisation of the IEEE addition)",
         "defines": {"INST_objoffset": ""}, "harness": "h_objoffset", "enforce": "w_objoffset",
         "slices": obj_slices, "conformance": OBJ_CONF, "mutants": obj_mutants, "min_obligations": 5, "tier": "quick", "expected_s": 3},
    ],
}

json.dump(unit, open(os.path.join(HERE, "unit.json"), "w"), indent=1)
print("wrote unit.json: %d instances" % len(unit["instances"]))
