/* C08 / C04, unit `unsimplify`: contracts of SPxMainSM<R>::unsimplify, SPxMainSM<R>::getBasis, the
 * unsimplified*() accessors and the objective-offset bookkeeping.
 *
 * Model of the data (as in units/postsolve): m_prim, m_redCost, m_cBasisStat have nCfull entries (columns of the
 * LP after handleRowObjectives() = nCorig original columns + m_addedcols slack columns), m_dual, m_slack,
 * m_rBasisStat have nRorig entries; the reduced LP (nCred x nRred) occupies a prefix.  m_hist has hist_n steps;
 * the first m_addedcols of them are the RowObjPS steps of handleRowObjectives().
 *
 * What is proved of unsimplify (for every history length, every step behaviour allowed by the per-step contract):
 *  (a) the reduced solution/basis is copied to positions 0..nCred-1 / 0..nRred-1 (NOT through m_cIdx/m_rIdx: the steps
 *      undo the index shifts), values with |v| <= epsZero() replaced by 0, y and r negated iff m_thesense == MAXIMIZE
 *      (the steps store min-form objectives: c' = -c, hence y' = -y, r' = -r);
 *  (b) entries beyond the reduced prefix are left as they are (the code initialises nothing);
 *  (c) the history is replayed in reverse order, every step exactly once, with the member vectors as arguments
 *      (obligations inside the step stub), and the per-step deltas sum up:
 *      #BASIC(reduced basis) == nRred  ==>  #BASIC(m_cBasisStat[0..nCorig)) + #BASIC(m_rBasisStat) == nRorig;
 *      no status UNDEFINED at the end if none was in the reduced basis;
 *  (d) afterwards y and r are negated back for MAXIMIZE (all entries), the m_addedcols slack columns are cut off
 *      m_prim, m_redCost, m_cBasisStat, m_cIdx, m_hist is empty and m_postsolved is true. */
#include "verif_c.h"
#include "VarStatus.inc"          /* enum VarStatus { ON_UPPER, ON_LOWER, FIXED, ZERO, BASIC, UNDEFINED }; verbatim */
#include "SPxSense.inc"           /* enum SPxSense { MAXIMIZE = 1, MINIMIZE = -1 }; verbatim */
#ifndef DIM
#define DIM 6
#endif

int g_kc, g_kr, g_hn0, g_expect, g_curR, g_curC, g_added, g_nCorig, g_nRorig, g_nCfull, g_nCred, g_nRred;
int g_thrown, g_isopt, g_def, g_steps, g_max;
int gE_BASIC, gE_UP, gE_LO, gE_FX, gE_ZE;      /* enumerator values for loop invariants (not preprocessed) */
int g_o_postsolved, g_o_primdim, g_o_rcdim, g_o_dualdim, g_o_slackdim, g_o_csize, g_o_rsize, g_o_cidxsize, g_o_ridxsize, g_o_hist;
double sn_prim, sn_rc, sn_dual, sn_slack;      /* values left at the ghost column/row by the last executed step */
double w_prim, w_rc, w_dual, w_slack;          /* values the copy loops must leave at the ghost column/row */
double v_prim, v_rc, v_dual, v_slack; int v_cs, v_rs, v_ci, v_ri;
double* gp_prim; double* gp_dual; double* gp_slack; double* gp_rc;
int* gp_cst; int* gp_rst; int* gp_cols; int* gp_rows; int* gp_hn; int* gp_hid;
void verif_throw(void) {}

static void havoc_ghosts(void)
{
   g_kc = nondet_int(); g_kr = nondet_int(); g_hn0 = nondet_int(); g_expect = nondet_int(); g_curR = nondet_int();
   g_curC = nondet_int(); g_added = nondet_int(); g_nCorig = nondet_int(); g_nRorig = nondet_int(); g_nCfull = nondet_int();
   g_nCred = nondet_int(); g_nRred = nondet_int(); g_thrown = nondet_int(); g_isopt = nondet_int(); g_def = nondet_int();
   g_steps = nondet_int(); g_max = nondet_int();
   sn_prim = nondet_double(); sn_rc = nondet_double(); sn_dual = nondet_double(); sn_slack = nondet_double();
   w_prim = nondet_double(); w_rc = nondet_double(); w_dual = nondet_double(); w_slack = nondet_double();
   v_prim = nondet_double(); v_rc = nondet_double(); v_dual = nondet_double(); v_slack = nondet_double();
   v_cs = nondet_int(); v_rs = nondet_int(); v_ci = nondet_int(); v_ri = nondet_int();
   gE_BASIC = BASIC; gE_UP = ON_UPPER; gE_LO = ON_LOWER; gE_FX = FIXED; gE_ZE = ZERO;
}

/* equality of doubles that also accepts NaN == NaN (a copied NaN stays a NaN); +0 == -0 */
#define SAME(a, b) ((a) == (b) || ((a) != (a) && (b) != (b)))
#define DEFINED(e) ((e) == ON_UPPER || (e) == ON_LOWER || (e) == FIXED || (e) == ZERO || (e) == BASIC)
#define W(a) __CPROVER_object_whole(a)
#define ARR_OK(p, T) __CPROVER_rw_ok(p, DIM * sizeof(T))
#define T8(M, p, n) (M(p, n, 0) + M(p, n, 1) + M(p, n, 2) + M(p, n, 3) + M(p, n, 4) + M(p, n, 5) + M(p, n, 6) + M(p, n, 7))
#define CNT1(p, n, c) (((c) < DIM && (c) < (n) && (p)[(c) < DIM ? (c) : 0] == BASIC) ? 1 : 0)
#define UND1(p, n, c) (((c) < DIM && (c) < (n) && !DEFINED((p)[(c) < DIM ? (c) : 0])) ? 1 : 0)
#define CNT(p, n) T8(CNT1, p, n)            /* number of BASIC entries among p[0..n), written out (DIM <= 8) */
#define ALLDEF(p, n) (T8(UND1, p, n) == 0)
#define ABS(a) ((a) < 0 ? -(a) : (a))
#define ISZERO(a, eps) (ABS(a) <= (eps))    /* spxdefines.hpp isZero: |a| <= eps */

/* ------------------------------------------------------------------------------------------- */
#ifdef INST_unsimplify
void w_unsimplify(double* x, double* y, double* s, double* r, int* rows, int* cols, int nCred, int nRred, int isOptimal,
                  double* prim, double* dual, double* slack, double* rc, int* cst, int* rst, int* cidx, int* ridx,
                  int nCfull, int nRorig, int hist_n, int sense, int addedcols, double eps)
/* shapes: the reduced LP is not larger than the LP after handleRowObjectives() (asserted by the code) */
__CPROVER_requires(0 <= nCred && nCred <= nCfull && 0 < nCfull && nCfull <= DIM && 0 <= nRred && nRred <= nRorig && 0 < nRorig && nRorig <= DIM)
__CPROVER_requires(ARR_OK(x, double) && ARR_OK(y, double) && ARR_OK(s, double) && ARR_OK(r, double) && ARR_OK(rows, int) && ARR_OK(cols, int))
__CPROVER_requires(ARR_OK(prim, double) && ARR_OK(dual, double) && ARR_OK(slack, double) && ARR_OK(rc, double)
                   && ARR_OK(cst, int) && ARR_OK(rst, int) && ARR_OK(cidx, int) && ARR_OK(ridx, int))
/* the first m_addedcols steps are the RowObjPS steps; the slack columns are the last m_addedcols columns */
__CPROVER_requires(0 <= addedcols && addedcols <= nCfull && addedcols <= hist_n && hist_n < 0x7fffffff)
__CPROVER_requires(hist_n == addedcols ==> (nRred == nRorig && nCred == nCfull))      /* nothing was removed if no reduction step was recorded */
__CPROVER_requires(sense == MAXIMIZE || sense == MINIMIZE)
/* ghost bookkeeping */
__CPROVER_requires(g_nCred == nCred && g_nRred == nRred && g_nCfull == nCfull && g_nRorig == nRorig && g_nCorig == nCfull - addedcols
                   && g_added == addedcols && g_hn0 == hist_n && g_expect == hist_n - 1 && g_steps == 0 && g_curR == nRred && g_curC == nCred
                   && g_isopt == (isOptimal != 0) && g_max == (sense == MAXIMIZE))
/* PROVIDED the reduced basis has as many BASIC entries as the reduced LP has rows */
__CPROVER_requires(CNT(cols, nCred) + CNT(rows, nRred) == nRred)
__CPROVER_requires(g_def == ((ALLDEF(cols, nCred) && ALLDEF(rows, nRred)) ? 1 : 0))
/* ghost column / row: old values and the values the copy must produce there */
__CPROVER_requires(0 <= g_kc && g_kc < nCfull && SAME(v_prim, prim[g_kc]) && SAME(v_rc, rc[g_kc]) && v_cs == cst[g_kc] && v_ci == cidx[g_kc])
__CPROVER_requires(0 <= g_kr && g_kr < nRorig && SAME(v_dual, dual[g_kr]) && SAME(v_slack, slack[g_kr]) && v_rs == rst[g_kr] && v_ri == ridx[g_kr])
__CPROVER_requires(g_kc < nCred ? (SAME(w_prim, (ISZERO(x[g_kc], eps) ? 0.0 : x[g_kc]))
                                   && SAME(w_rc, (ISZERO(r[g_kc], eps) ? 0.0 : (sense == MAXIMIZE ? -r[g_kc] : r[g_kc]))))
                                : (SAME(w_prim, v_prim) && SAME(w_rc, v_rc)))
__CPROVER_requires(g_kr < nRred ? (SAME(w_slack, (ISZERO(s[g_kr], eps) ? 0.0 : s[g_kr]))
                                   && SAME(w_dual, (ISZERO(y[g_kr], eps) ? 0.0 : (sense == MAXIMIZE ? -y[g_kr] : y[g_kr]))))
                                : (SAME(w_slack, v_slack) && SAME(w_dual, v_dual)))
__CPROVER_assigns(W(prim), W(dual), W(slack), W(rc), W(cst), W(rst))
__CPROVER_assigns(g_expect, g_steps, g_curR, g_curC, g_thrown, sn_prim, sn_rc, sn_dual, sn_slack)
__CPROVER_assigns(gp_prim, gp_dual, gp_slack, gp_rc, gp_cst, gp_rst, gp_cols, gp_rows, gp_hn, gp_hid)
__CPROVER_assigns(g_o_postsolved, g_o_primdim, g_o_rcdim, g_o_dualdim, g_o_slackdim, g_o_csize, g_o_rsize, g_o_cidxsize, g_o_ridxsize, g_o_hist)
/* (c) every step ran exactly once, in reverse order (the order itself is an obligation inside the step stub) */
__CPROVER_ensures(g_expect == -1 && g_steps == hist_n)
/* (c) the summation: one basic variable per row of the ORIGINAL LP (C04), slack columns cut off */
__CPROVER_ensures(CNT(cst, nCfull - addedcols) + CNT(rst, nRorig) == nRorig)
__CPROVER_ensures(g_def ==> (ALLDEF(cst, nCfull - addedcols) && ALLDEF(rst, nRorig)))
/* (d) final bookkeeping */
__CPROVER_ensures(g_o_postsolved == 1 && g_o_hist == 0)
__CPROVER_ensures(g_o_primdim == nCfull - addedcols && g_o_rcdim == nCfull - addedcols && g_o_csize == nCfull - addedcols
                  && g_o_cidxsize == nCfull - addedcols && g_o_dualdim == nRorig && g_o_slackdim == nRorig && g_o_rsize == nRorig && g_o_ridxsize == nRorig)
/* (a), (b) with an empty history: exactly the copy (y, r negated twice for MAXIMIZE = unchanged sign) */
__CPROVER_ensures(hist_n == 0 ==> (SAME(prim[g_kc], (g_kc < nCred ? (ISZERO(x[g_kc], eps) ? 0.0 : x[g_kc]) : v_prim))
                                  && SAME(slack[g_kr], (g_kr < nRred ? (ISZERO(s[g_kr], eps) ? 0.0 : s[g_kr]) : v_slack))))
__CPROVER_ensures((hist_n == 0 && g_kc < nCred) ==> SAME(rc[g_kc], (ISZERO(r[g_kc], eps) ? 0.0 : r[g_kc])))
__CPROVER_ensures((hist_n == 0 && g_kr < nRred) ==> SAME(dual[g_kr], (ISZERO(y[g_kr], eps) ? 0.0 : y[g_kr])))
__CPROVER_ensures((hist_n == 0 && g_kc >= nCred) ==> SAME(rc[g_kc], (sense == MAXIMIZE ? -v_rc : v_rc)))
__CPROVER_ensures((hist_n == 0 && g_kr >= nRred) ==> SAME(dual[g_kr], (sense == MAXIMIZE ? -v_dual : v_dual)))
__CPROVER_ensures(hist_n == 0 ==> (cst[g_kc] == (g_kc < nCred ? cols[g_kc] : v_cs) && rst[g_kr] == (g_kr < nRred ? rows[g_kr] : v_rs)))
/* (d) after the last step (step 0): x, s as the step left them; y, r negated back iff MAXIMIZE, at EVERY position */
__CPROVER_ensures(hist_n > 0 ==> (SAME(prim[g_kc], sn_prim) && SAME(slack[g_kr], sn_slack)
                                 && SAME(rc[g_kc], (sense == MAXIMIZE ? -sn_rc : sn_rc)) && SAME(dual[g_kr], (sense == MAXIMIZE ? -sn_dual : sn_dual))))
/* the index maps are not written (only m_cIdx's size is cut) */
__CPROVER_ensures(cidx[g_kc] == v_ci && ridx[g_kr] == v_ri)
;
void h_unsimplify(void)
{
   double x[DIM]; double y[DIM]; double s[DIM]; double r[DIM]; int rows[DIM]; int cols[DIM];
   double prim[DIM]; double dual[DIM]; double slack[DIM]; double rc[DIM]; int cst[DIM]; int rst[DIM]; int cidx[DIM]; int ridx[DIM];
   int nCred, nRred, isOptimal, nCfull, nRorig, hist_n, sense, addedcols; double eps;
   havoc_ghosts();
   w_unsimplify(x, y, s, r, rows, cols, nCred, nRred, isOptimal, prim, dual, slack, rc, cst, rst, cidx, ridx,
                nCfull, nRorig, hist_n, sense, addedcols, eps);
   CANARY();
}
#endif

/* ------------------------------------------------------------------------------------------- */
#ifdef INST_getBasis
/* getBasis(rows, cols, rowsSize, colsSize): copies exactly m_rBasisStat / m_cBasisStat; precondition = the two asserts of the
 * body (a size of -1 means "not given"); every write lands inside [0, size) of the caller's array. */
int v_in_c, v_in_r, v_out_c, v_out_r;
void w_getBasis(int* rows, int* cols, int rowsSize, int colsSize, int* cst, int* rst, int nC, int nR)
__CPROVER_requires(0 <= nC && nC <= DIM && 0 <= nR && nR <= DIM)
__CPROVER_requires((rowsSize < 0 || rowsSize >= nR) && (colsSize < 0 || colsSize >= nC) && rowsSize <= DIM && colsSize <= DIM)
__CPROVER_requires(__CPROVER_is_fresh(rows, (rowsSize < 0 ? nR : rowsSize) * sizeof(int)) && __CPROVER_is_fresh(cols, (colsSize < 0 ? nC : colsSize) * sizeof(int)))
__CPROVER_requires(__CPROVER_is_fresh(cst, nC * sizeof(int)) && __CPROVER_is_fresh(rst, nR * sizeof(int)))
__CPROVER_requires(0 <= g_kc && (g_kc < nC ==> v_in_c == cst[g_kc]) && (g_kc >= nC && g_kc < colsSize ==> v_out_c == cols[g_kc]))
__CPROVER_requires(0 <= g_kr && (g_kr < nR ==> v_in_r == rst[g_kr]) && (g_kr >= nR && g_kr < rowsSize ==> v_out_r == rows[g_kr]))
__CPROVER_requires(g_nCfull == nC && g_nRorig == nR)
__CPROVER_assigns(__CPROVER_object_upto(rows, nR * sizeof(int)), __CPROVER_object_upto(cols, nC * sizeof(int)))
__CPROVER_assigns(gp_cols, gp_rows, gp_cst, gp_rst)
__CPROVER_ensures(g_kc < nC ==> (cols[g_kc] == v_in_c && cst[g_kc] == v_in_c))
__CPROVER_ensures(g_kr < nR ==> (rows[g_kr] == v_in_r && rst[g_kr] == v_in_r))
__CPROVER_ensures((g_kc >= nC && g_kc < colsSize) ==> cols[g_kc] == v_out_c)       /* the tail of a larger caller array is untouched */
__CPROVER_ensures((g_kr >= nR && g_kr < rowsSize) ==> rows[g_kr] == v_out_r)
;
void h_getBasis(void)
{
   int* rows; int* cols; int* cst; int* rst; int rowsSize, colsSize, nC, nR;
   havoc_ghosts(); v_in_c = nondet_int(); v_in_r = nondet_int(); v_out_c = nondet_int(); v_out_r = nondet_int();
   w_getBasis(rows, cols, rowsSize, colsSize, cst, rst, nC, nR);
   CANARY();
}
#endif

/* ------------------------------------------------------------------------------------------- */
#ifdef INST_accessors
/* unsimplifiedPrimal/Dual/Slacks/RedCost return references to m_prim/m_dual/m_slack/m_redCost; getBasisRowStatus(i) /
 * getBasisColStatus(j) read m_rBasisStat[i] / m_cBasisStat[j] (index in range = caller's duty); isUnsimplified() == m_postsolved */
int g_o_p, g_o_d, g_o_s, g_o_r, g_o_rs, g_o_cs, g_o_u;
void w_accessors(int* cst, int* rst, int nC, int nR, int i, int j, int postsolved)
__CPROVER_requires(0 < nC && nC <= DIM && 0 < nR && nR <= DIM && 0 <= i && i < nR && 0 <= j && j < nC)
__CPROVER_requires(__CPROVER_is_fresh(cst, nC * sizeof(int)) && __CPROVER_is_fresh(rst, nR * sizeof(int)))
__CPROVER_assigns(g_o_p, g_o_d, g_o_s, g_o_r, g_o_rs, g_o_cs, g_o_u)
__CPROVER_ensures(g_o_p == 1 && g_o_d == 1 && g_o_s == 1 && g_o_r == 1)
__CPROVER_ensures(g_o_rs == rst[i] && g_o_cs == cst[j] && g_o_u == (postsolved != 0))
;
void h_accessors(void)
{
   int* cst; int* rst; int nC, nR, i, j, postsolved;
   havoc_ghosts();
   w_accessors(cst, rst, nC, nR, i, j, postsolved);
   CANARY();
}
#endif

/* ------------------------------------------------------------------------------------------- */
#ifdef INST_objoffset
/* objective-offset bookkeeping: getObjoffset() returns m_objoffset, addObjoffset(val) adds val (one addition, left uninterpreted), the
 * prologue of simplify() resets it to 0 together with the history, m_postsolved, m_result and the statistics counters */
double g_o_get, g_o_add, g_o_reset; int g_o_result, g_o_cnt;
double __CPROVER_uninterpreted_fadd(double, double);   /* stubs/real_uf.h: the + of R is an uninterpreted function (generalises IEEE +) */
void w_objoffset(double off, double val, int hist_n, int postsolved, int result)
__CPROVER_requires(0 <= hist_n && 0 <= result && result <= 4)
__CPROVER_assigns(g_o_get, g_o_add, g_o_reset, g_o_postsolved, g_o_hist, g_o_result, g_o_cnt)
__CPROVER_ensures(SAME(g_o_get, off) && SAME(g_o_add, __CPROVER_uninterpreted_fadd(off, val)))
__CPROVER_ensures(g_o_reset == 0.0 && g_o_postsolved == 0 && g_o_hist == 0 && g_o_result == 0 /* OKAY */ && g_o_cnt == 1)
;
void h_objoffset(void)
{
   double off, val; int hist_n, postsolved, result;
   havoc_ghosts();
   w_objoffset(off, val, hist_n, postsolved, result);
   CANARY();
}
#endif
