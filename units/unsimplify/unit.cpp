/* C08/C04 unit `unsimplify`: SPxMainSM<R>::unsimplify (history replay), SPxMainSM<R>::getBasis, the
 * unsimplified*() accessors and the objective-offset bookkeeping, R = double (CBMC's exact IEEE model).
 * Every body() below is the verbatim slice of the real function.  The postsolve steps stored in m_hist are
 * STUBS: PostStep::execute applies an arbitrary change that satisfies the per-step contract proved in
 * units/postsolve (see the comment at PostStep::execute). */
#include "verif.h"
#ifndef NDEBUG
#define NDEBUG 1                  /* proofs are for the NDEBUG build: assert() and SOPLEX_CHECK_BASIS_DIM blocks dropped */
#endif
#ifdef INST_objoffset
#include "real_uf.h"              /* R = double with uninterpreted binary + (a generalisation, see the header): the one addition of addObjoffset */
typedef RealUF R;
#else
typedef double R;
#endif
#include "vector_redim.h"
#define VectorBase VectorRD       /* see stubs/vector_redim.h */
#ifndef DIM
#define DIM 6
#endif

/* names-only templates for the qualified names SPxSolverBase<R>::BASIC / SPxLPBase<R>::MAXIMIZE; the
 * enumerations are the verbatim texts of spxsolver.h / spxlpbase.h */
template <class T> struct SPxSolverBase
{
#include "VarStatus.inc"
};
typedef SPxSolverBase<R>::VarStatus VarStatus;
template <class T> struct SPxLPBase
{
#include "SPxSense.inc"
};
typedef SPxLPBase<R>::SPxSense SPxSense;

struct SPxOut { static void verif_debug_sink() {} };
#define debug(...) verif_debug_sink()
#define SPX_MSG_INFO1(...)
#define SPX_MSG_ERROR(...)

/* spxdefines.h / spxdefines.hpp: real one-line bodies (conformance-checked) */
#ifndef INST_objoffset
inline R spxAbs(R a) { return a < 0 ? -a : a; }
inline bool isZero(R a, R eps) { return spxAbs(a) <= eps; }
#endif

extern "C" {
extern int g_kc, g_kr, g_hn0, g_expect, g_curR, g_curC, g_added, g_nCorig, g_nRorig, g_nCfull, g_nCred, g_nRred;
extern int g_thrown, g_isopt, g_def, g_steps;
extern int g_o_postsolved, g_o_primdim, g_o_rcdim, g_o_dualdim, g_o_slackdim, g_o_csize, g_o_rsize, g_o_cidxsize, g_o_ridxsize, g_o_hist;
extern double sn_prim, sn_rc, sn_dual, sn_slack;
extern double* gp_prim; extern double* gp_dual; extern double* gp_slack; extern double* gp_rc;
extern int* gp_cst; extern int* gp_rst; extern int* gp_cols; extern int* gp_rows; extern int* gp_hn; extern int* gp_hid;
}

/* `throw X(...)` inside a slice becomes `(void) X(...)`; a path that throws ends there (no postcondition is promised
 * for it).  try/catch: `try` vanishes, `catch(const SPxException& ex)` becomes `if(g_thrown)`, g_thrown being set by the
 * step stub that models a throwing execute() - see PostStep::execute. */
struct SPxInternalCodeException { SPxInternalCodeException(const char*) { __CPROVER_assume(0); } };
struct SPxException { SPxException(const char*) { __CPROVER_assume(0); } };
#define throw (void)
#define try
#define catch(decl) if(g_thrown)

#define BAS(e) ((e) == SPxSolverBase<R>::BASIC ? 1 : 0)
#define DEF(e) ((e) == SPxSolverBase<R>::ON_UPPER || (e) == SPxSolverBase<R>::ON_LOWER || (e) == SPxSolverBase<R>::FIXED \
                || (e) == SPxSolverBase<R>::ZERO || (e) == SPxSolverBase<R>::BASIC)
#define T8(M, p, n) (M(p, n, 0) + M(p, n, 1) + M(p, n, 2) + M(p, n, 3) + M(p, n, 4) + M(p, n, 5) + M(p, n, 6) + M(p, n, 7))
#define CNT1(p, n, c) (((c) < DIM && (c) < (n) && (p)[(c) < DIM ? (c) : 0] == SPxSolverBase<R>::BASIC) ? 1 : 0)
#define UND1(p, n, c) (((c) < DIM && (c) < (n) && !DEF((p)[(c) < DIM ? (c) : 0])) ? 1 : 0)
#define CNT(p, n) T8(CNT1, p, n)          /* number of BASIC entries among p[0..n) */
#define ALLDEF(p, n) (T8(UND1, p, n) == 0)  /* no entry of p[0..n) is UNDEFINED / garbage */
/* the step stub overwrites whole arrays with arbitrary values */
#define HAVOC_D(p) __CPROVER_havoc_object(p);
#define HAVOC_I(p) __CPROVER_havoc_object(p);

/* ------------------------------------------------------------------------------------------- */
#ifdef INST_unsimplify
/* Stub of SPxMainSM<R>::PostStep.  `id` = position of the step in m_hist.
 *
 * execute() = "the step with number id runs": OBLIGATIONS (what unsimplify must guarantee to every step)
 *   - it runs when exactly the steps id+1.. have been undone (reverse order, every step once): id == g_expect;
 *   - it receives the member vectors m_prim, m_dual, m_slack, m_redCost, m_cBasisStat, m_rBasisStat in this order,
 *     with their full dimensions, and unsimplify's isOptimal.
 * EFFECT (what units/postsolve proves for every real step, C08 clause (a); the only thing assumed of a step):
 *   the step re-inserts dR >= 0 rows and dC >= 0 columns of its own choosing into the current LP (ghost dimensions
 *   g_curR, g_curC), writes the six arrays arbitrarily, and the number of BASIC entries inside the (new) current
 *   dimensions has changed by exactly dR; if no status was UNDEFINED before, none is after.
 *   The first m_addedcols steps of the history are the RowObjPS steps recorded by handleRowObjectives() (step t owns
 *   slack column nCorig + t): they run last, on the full-dimension LP, keep the count, leave their own column
 *   non-basic and do not touch any other column status (units/postsolve, RowObj contract).
 *   The recorded history is complete: once the last non-RowObj step (id == m_addedcols) has run, the current
 *   dimensions are those of the LP after handleRowObjectives().
 *   A step may throw SPxException (g_thrown): then the arrays are arbitrary and nothing else is known. */
struct PostStep
{
   int id;
   const char* getName() const { return "stub"; }
   void execute(VectorBase<R>& x, VectorBase<R>& y, VectorBase<R>& s, VectorBase<R>& r,
                DataArray<VarStatus>& cStatus, DataArray<VarStatus>& rStatus, bool isOptimal) const
   {
      __CPROVER_assert(id == g_expect, "history replayed in REVERSE order, every step exactly once (step k runs when exactly the steps > k have been undone)");
      __CPROVER_assert(x.val == gp_prim && y.val == gp_dual && s.val == gp_slack && r.val == gp_rc
                       && (int*)cStatus.data == gp_cst && (int*)rStatus.data == gp_rst,
                       "execute() receives m_prim, m_dual, m_slack, m_redCost, m_cBasisStat, m_rBasisStat in this order");
      __CPROVER_assert(x.dimen == g_nCfull && r.dimen == g_nCfull && cStatus.thesize == g_nCfull
                       && y.dimen == g_nRorig && s.dimen == g_nRorig && rStatus.thesize == g_nRorig,
                       "the vectors handed to a step have the dimensions of the LP after handleRowObjectives()");
      __CPROVER_assert(isOptimal == (g_isopt != 0), "isOptimal is passed through to every step");
      g_expect = g_expect - 1;
      g_steps = g_steps + 1;
      g_thrown = nondet_bool() ? 1 : 0;
      VarStatus* cst = cStatus.data; VarStatus* rst = rStatus.data;
      if(g_thrown)
      {
         HAVOC_D(x.val) HAVOC_D(y.val) HAVOC_D(s.val) HAVOC_D(r.val) HAVOC_I(gp_cst) HAVOC_I(gp_rst)
         return;
      }
      const int c0 = CNT(cst, g_curC) + CNT(rst, g_curR);
      const bool d0 = ALLDEF(cst, g_curC) && ALLDEF(rst, g_curR);
      int dR = 0;
      if(id < g_added)
      {
         /* RowObjPS of slack column m_j = nCorig + id and some row m_i: assigns s, cStatus[m_j], rStatus[m_i] */
         const int m_j = g_nCorig + id;
         int m_i = nondet_int();
         __CPROVER_assume(0 <= m_i && m_i < g_nRorig);
         HAVOC_D(s.val)
         cst[m_j] = (VarStatus)nondet_int();
         rst[m_i] = (VarStatus)nondet_int();
         __CPROVER_assume(cst[m_j] != SPxSolverBase<R>::BASIC);
      }
      else
      {
         int dC = nondet_int();
         dR = nondet_int();
         __CPROVER_assume(0 <= dR && dR <= g_nRorig - g_curR && 0 <= dC && dC <= g_nCfull - g_curC);
         HAVOC_D(x.val) HAVOC_D(y.val) HAVOC_D(s.val) HAVOC_D(r.val) HAVOC_I(gp_cst) HAVOC_I(gp_rst)
         g_curR = g_curR + dR; g_curC = g_curC + dC;
         __CPROVER_assume(id != g_added || (g_curR == g_nRorig && g_curC == g_nCfull));
      }
      __CPROVER_assume(CNT(cst, g_curC) + CNT(rst, g_curR) == c0 + dR);
      __CPROVER_assume(!d0 || (ALLDEF(cst, g_curC) && ALLDEF(rst, g_curR)));
      /* ghost snapshot of the values this step leaves at the ghost column / row */
      sn_prim = x.val[g_kc]; sn_rc = r.val[g_kc]; sn_dual = y.val[g_kr]; sn_slack = s.val[g_kr];
   }
};
/* stub of Array<std::shared_ptr<PostStep>>: std::shared_ptr<PostStep> is modelled as a plain PostStep* (the front end has
 * no overloaded operator->); no backing store (any length): element n is the handle of step n */
struct HistArray
{
   int thesize; PostStep cur;
   int size() const { return thesize; }
   PostStep* operator[](int n)
   {
      __CPROVER_assert(0 <= n && n < thesize, "Array index in bounds");
      cur.id = n;
      return &cur;
   }
   void reSize(int newsize)
   {
      __CPROVER_assert(0 <= newsize && newsize <= thesize, "Array::reSize model: shrinking only (growing would append null steps)");
      thesize = newsize;
   }
   void clear() { thesize = 0; }
};

struct H
{
   /* data members of SPxMainSM<R> (spxmainsm.h) and of SPxSimplifier<R> a plausibly changed body would read */
   VectorBase<R> m_prim; VectorBase<R> m_slack; VectorBase<R> m_dual; VectorBase<R> m_redCost;
   DataArray<VarStatus> m_cBasisStat; DataArray<VarStatus> m_rBasisStat;
   DataArray<int> m_cIdx; DataArray<int> m_rIdx;
   HistArray m_hist;
   bool m_postsolved; SPxSense m_thesense; bool m_keepbounds; int m_addedcols; int m_result;
   R m_cutoffbound; R m_pseudoobj; R m_objoffset; R tol_eps; R tol_feas; R tol_opt;
   int m_remRows; int m_remCols; int m_remNzos; int m_chgBnds; int m_chgLRhs; int m_keptBnds; int m_keptLRhs;
   R epsZero() const { return tol_eps; }
   R feastol() const { return tol_feas; }
   R opttol() const { return tol_opt; }
   /* parameters of unsimplify as members (README point 1, 2) */
   const VectorBase<R>* x_; const VectorBase<R>* y_; const VectorBase<R>* s_; const VectorBase<R>* r_;
   const VarStatus* rows; const VarStatus* cols; bool isOptimal;
   void body()
   {
      const VectorBase<R>& x = *x_; const VectorBase<R>& y = *y_; const VectorBase<R>& s = *s_; const VectorBase<R>& r = *r_;
#include "unsimplify.inc"
   }
};

extern "C" void w_unsimplify(double* x, double* y, double* s, double* r, int* rows, int* cols, int nCred, int nRred, int isOptimal,
                             double* prim, double* dual, double* slack, double* rc, int* cst, int* rst, int* cidx, int* ridx,
                             int nCfull, int nRorig, int hist_n, int sense, int addedcols, double eps)
{
   VIN("nCred", nCred); VIN("nRred", nRred); VIN("nCfull", nCfull); VIN("nRorig", nRorig); VIN("hist_n", hist_n);
   VIN("sense", sense); VIN("addedcols", addedcols); VIN("eps", eps); VIN("isOptimal", isOptimal);
   VIN_ARR8("x", x, nCred) VIN_ARR8("r", r, nCred) VIN_ARR8("y", y, nRred) VIN_ARR8("s", s, nRred)
   VIN_ARR8("cols", cols, nCred) VIN_ARR8("rows", rows, nRred)
   VectorBase<R> vx; vx.val = x; vx.dimen = nCred; VectorBase<R> vr; vr.val = r; vr.dimen = nCred;
   VectorBase<R> vy; vy.val = y; vy.dimen = nRred; VectorBase<R> vs; vs.val = s; vs.dimen = nRred;
   H h;
   h.x_ = &vx; h.y_ = &vy; h.s_ = &vs; h.r_ = &vr; h.rows = (VarStatus*)rows; h.cols = (VarStatus*)cols;
   h.isOptimal = (isOptimal != 0);
   h.m_prim.val = prim; h.m_prim.dimen = nCfull; h.m_redCost.val = rc; h.m_redCost.dimen = nCfull;
   h.m_dual.val = dual; h.m_dual.dimen = nRorig; h.m_slack.val = slack; h.m_slack.dimen = nRorig;
   h.m_cBasisStat.data = (VarStatus*)cst; h.m_cBasisStat.thesize = nCfull; h.m_cBasisStat.themax = DIM;
   h.m_rBasisStat.data = (VarStatus*)rst; h.m_rBasisStat.thesize = nRorig; h.m_rBasisStat.themax = DIM;
   h.m_cIdx.data = cidx; h.m_cIdx.thesize = nCfull; h.m_cIdx.themax = DIM;
   h.m_rIdx.data = ridx; h.m_rIdx.thesize = nRorig; h.m_rIdx.themax = DIM;
   h.m_hist.thesize = hist_n; h.m_hist.cur.id = -1;
   h.m_postsolved = false; h.m_thesense = (SPxSense)sense; h.m_keepbounds = nondet_bool(); h.m_addedcols = addedcols;
   h.m_result = nondet_int(); h.m_cutoffbound = nondet_double(); h.m_pseudoobj = nondet_double(); h.m_objoffset = nondet_double();
   h.tol_eps = eps; h.tol_feas = nondet_double(); h.tol_opt = nondet_double();
   gp_prim = prim; gp_dual = dual; gp_slack = slack; gp_rc = rc; gp_cst = cst; gp_rst = rst; gp_cols = cols; gp_rows = rows;
   gp_hn = &h.m_hist.thesize; gp_hid = &h.m_hist.cur.id;
   h.body();
   g_o_postsolved = h.m_postsolved ? 1 : 0; g_o_hist = h.m_hist.thesize;
   g_o_primdim = h.m_prim.dimen; g_o_rcdim = h.m_redCost.dimen; g_o_dualdim = h.m_dual.dimen; g_o_slackdim = h.m_slack.dimen;
   g_o_csize = h.m_cBasisStat.thesize; g_o_rsize = h.m_rBasisStat.thesize; g_o_cidxsize = h.m_cIdx.thesize; g_o_ridxsize = h.m_rIdx.thesize;
}
#endif

/* ------------------------------------------------------------------------------------------- */
#ifdef INST_getBasis
struct H
{
   DataArray<VarStatus> m_cBasisStat; DataArray<VarStatus> m_rBasisStat; bool m_postsolved;
   VectorBase<R> m_prim; VectorBase<R> m_slack; VectorBase<R> m_dual; VectorBase<R> m_redCost;
   DataArray<int> m_cIdx; DataArray<int> m_rIdx; int m_addedcols;
   VarStatus* rows; VarStatus* cols; int rowsSize; int colsSize;
   void body() const
   {
#include "getBasis.inc"
   }
};
extern "C" void w_getBasis(int* rows, int* cols, int rowsSize, int colsSize, int* cst, int* rst, int nC, int nR)
{
   VIN("nC", nC); VIN("nR", nR); VIN("rowsSize", rowsSize); VIN("colsSize", colsSize);
   H h;
   h.m_cBasisStat.data = (VarStatus*)cst; h.m_cBasisStat.thesize = nC; h.m_cBasisStat.themax = nC;
   h.m_rBasisStat.data = (VarStatus*)rst; h.m_rBasisStat.thesize = nR; h.m_rBasisStat.themax = nR;
   h.m_postsolved = true; h.m_addedcols = 0;
   h.m_prim.val = 0; h.m_prim.dimen = 0; h.m_slack.val = 0; h.m_slack.dimen = 0; h.m_dual.val = 0; h.m_dual.dimen = 0;
   h.m_redCost.val = 0; h.m_redCost.dimen = 0; h.m_cIdx.data = 0; h.m_cIdx.thesize = 0; h.m_rIdx.data = 0; h.m_rIdx.thesize = 0;
   h.rows = (VarStatus*)rows; h.cols = (VarStatus*)cols; h.rowsSize = rowsSize; h.colsSize = colsSize;
   gp_cols = cols; gp_rows = rows; gp_cst = cst; gp_rst = rst;
   h.body();
}
#endif

/* ------------------------------------------------------------------------------------------- */
#ifdef INST_accessors
extern "C" { extern int g_o_p, g_o_d, g_o_s, g_o_r, g_o_rs, g_o_cs, g_o_u; }
struct H
{
   VectorBase<R> m_prim; VectorBase<R> m_slack; VectorBase<R> m_dual; VectorBase<R> m_redCost;
   DataArray<VarStatus> m_cBasisStat; DataArray<VarStatus> m_rBasisStat; DataArray<int> m_cIdx; DataArray<int> m_rIdx;
   bool m_postsolved; int m_addedcols;
   const VectorBase<R>& bodyP()
   {
#include "unsimplifiedPrimal.inc"
   }
   const VectorBase<R>& bodyD()
   {
#include "unsimplifiedDual.inc"
   }
   const VectorBase<R>& bodyS()
   {
#include "unsimplifiedSlacks.inc"
   }
   const VectorBase<R>& bodyR()
   {
#include "unsimplifiedRedCost.inc"
   }
   VarStatus bodyRS(int i) const
   {
#include "getBasisRowStatus.inc"
   }
   VarStatus bodyCS(int j) const
   {
#include "getBasisColStatus.inc"
   }
   bool bodyU() const
   {
#include "isUnsimplified.inc"
   }
};
extern "C" void w_accessors(int* cst, int* rst, int nC, int nR, int i, int j, int postsolved)
{
   VIN("nC", nC); VIN("nR", nR); VIN("i", i); VIN("j", j); VIN("postsolved", postsolved);
   H h;
   h.m_cBasisStat.data = (VarStatus*)cst; h.m_cBasisStat.thesize = nC; h.m_cBasisStat.themax = nC;
   h.m_rBasisStat.data = (VarStatus*)rst; h.m_rBasisStat.thesize = nR; h.m_rBasisStat.themax = nR;
   h.m_prim.val = 0; h.m_prim.dimen = nC; h.m_redCost.val = 0; h.m_redCost.dimen = nC;
   h.m_dual.val = 0; h.m_dual.dimen = nR; h.m_slack.val = 0; h.m_slack.dimen = nR;
   h.m_cIdx.data = 0; h.m_cIdx.thesize = 0; h.m_rIdx.data = 0; h.m_rIdx.thesize = 0; h.m_addedcols = 0;
   h.m_postsolved = (postsolved != 0);
   g_o_p = (&h.bodyP() == &h.m_prim) ? 1 : 0;
   g_o_d = (&h.bodyD() == &h.m_dual) ? 1 : 0;
   g_o_s = (&h.bodyS() == &h.m_slack) ? 1 : 0;
   g_o_r = (&h.bodyR() == &h.m_redCost) ? 1 : 0;
   g_o_rs = (int)h.bodyRS(i);
   g_o_cs = (int)h.bodyCS(j);
   g_o_u = h.bodyU() ? 1 : 0;
}
#endif

/* ------------------------------------------------------------------------------------------- */
#ifdef INST_objoffset
#include "constants.h"            /* SOPLEX_DEFAULT_INFINITY, extracted from spxdefines.h on every run */
#define infinity SOPLEX_DEFAULT_INFINITY
extern "C" { extern double g_o_get, g_o_add, g_o_reset; extern int g_o_postsolved, g_o_hist, g_o_result, g_o_cnt; }
struct PostStep { int id; };
struct HistArray
{
   int thesize; PostStep cur;
   int size() const { return thesize; }
   void reSize(int newsize) { __CPROVER_assert(0 <= newsize && newsize <= thesize, "Array::reSize model: shrinking only"); thesize = newsize; }
   void clear() { thesize = 0; }
};
struct H
{
#include "Result.inc"
   R m_objoffset; R m_cutoffbound; R m_pseudoobj; R m_minReduction;
   int m_remRows; int m_remCols; int m_remNzos; int m_chgBnds; int m_chgLRhs; int m_keptBnds; int m_keptLRhs;
   Result m_result; HistArray m_hist; bool m_postsolved; SPxSense m_thesense; bool m_keepbounds; int m_addedcols;
   R bodyGet() const
   {
#include "getObjoffset.inc"
   }
   void bodyAdd(const R val)
   {
#include "addObjoffset.inc"
   }
   void bodyReset()
   {
#include "simplify_reset.inc"
   }
};
extern "C" void w_objoffset(double off, double val, int hist_n, int postsolved, int result)
{
   VIN("off", off); VIN("val", val); VIN("hist_n", hist_n);
   H h;
   h.m_objoffset = off; h.m_cutoffbound = nondet_double(); h.m_pseudoobj = nondet_double(); h.m_minReduction = nondet_double();
   h.m_remRows = nondet_int(); h.m_remCols = nondet_int(); h.m_remNzos = nondet_int(); h.m_chgBnds = nondet_int();
   h.m_chgLRhs = nondet_int(); h.m_keptBnds = nondet_int(); h.m_keptLRhs = nondet_int();
   h.m_result = (H::Result)result; h.m_hist.thesize = hist_n; h.m_hist.cur.id = 0; h.m_postsolved = (postsolved != 0);
   h.m_thesense = SPxLPBase<R>::MAXIMIZE; h.m_keepbounds = false; h.m_addedcols = nondet_int();
   g_o_get = h.bodyGet().v;
   h.bodyAdd(R(val));
   g_o_add = h.m_objoffset.v;
   h.bodyReset();
   g_o_reset = h.m_objoffset.v; g_o_postsolved = h.m_postsolved ? 1 : 0; g_o_hist = h.m_hist.thesize; g_o_result = (int)h.m_result;
   g_o_cnt = (h.m_remRows == 0 && h.m_remCols == 0 && h.m_remNzos == 0 && h.m_chgBnds == 0 && h.m_chgLRhs == 0 && h.m_keptBnds == 0 && h.m_keptLRhs == 0) ? 1 : 0;
}
#endif
