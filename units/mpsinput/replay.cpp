/* Native replay for the MPSInput unit: runs the REAL soplex::MPSInput::readLine().
 * The counterexample of the termination obligation (mutant old_defect_spins_at_eof / the tree before 5b543b9) is "the stream is at end of file when the comment-skipping
 * loop asks for the next line" - i.e. a truncated MPS file.  The driver calls readLine() on such a stream under a
 * watchdog; if the call has not returned after 5 seconds of CPU time the real code violates termination. */
#include <replay_util.h>
#include <soplex/spxdefines.h>
#include <soplex/mpsinput.h>
#include <csignal>
#include <sstream>
#include <unistd.h>

static void on_alarm(int)
{
   const char msg[] = "REPLAY: real code violates: MPSInput::readLine() does not return at end of file (still spinning after 5 s)\n";
   ssize_t r = write(1, msg, sizeof(msg) - 1);
   (void)r;
   _exit(1);
}

int main(int argc, char** argv)
{
   if(argc < 3) return 2;
   std::string inst = argv[2];
   signal(SIGALRM, on_alarm);
   /* a truncated file: section header and one row, no ENDATA */
   std::istringstream file("NAME trunc\nROWS\n N obj\n");
   soplex::MPSInput mps(file);
   alarm(5);
   int calls = 0;

   while(mps.readLine())
   {
      calls++;
      std::cout << "readLine() #" << calls << " returned true: f0=" << (mps.field0() ? mps.field0() : "nil")
                << " f1=" << (mps.field1() ? mps.field1() : "nil") << std::endl;

      if(calls > 10)
         REPLAY_FAIL("readLine() keeps returning true after the end of the file");
   }

   alarm(0);
   REPLAY_OK();
}
