/* C13: MPSInput::readLine() with its static helpers clear_from() / patch_field() (src/soplex/mpsinput.cpp).
 * Bodies are #included verbatim.  The host replicates the data members readLine() touches (conformance-checked
 * against mpsinput.h); MPSInput itself has a virtual destructor and a std::istream& member, so the real class is
 * not instantiated (README pitfall 3).  Environment:
 *   - m_input: stream stub.  getline(buf, n) delivers ANY n-1 bytes (NUL bytes included) followed by a terminator
 *     somewhere in buf[0..n-1], and any combination of good()/eof(); once the ghost line budget is used up it
 *     behaves as libstdc++ does at end of file: stores an empty string, good() == false, eof() == true, for ever.
 *   - strlen / strtok / strcmp / isdigit: small C models (see below).
 *   - SPxOut::debug: no-op. */
#include "verif.h"
#include "constants.h"

#define PATCH_CHAR    V_PATCH_CHAR
#define BLANK         V_BLANK

extern "C" {
   extern int g_remaining, g_consumed, g_calls, g_good, g_eof, g_fail;        /* stream state */
   extern char* gp_save;                                     /* strtok's hidden state */
   extern char* gp_host; extern int* gp_lineno; extern char* gp_buf;
   extern const char** gp_f1; extern const char** gp_f2; extern const char** gp_f3; extern const char** gp_f4; extern const char** gp_f5; extern bool* gp_isint;
   int nondet_int(void);
}

struct SPxOut { static void debug(const void*, const char*, ...) {} };

/* ---- C library models ------------------------------------------------------------------------------------- */
/* strlen / strtok are only ever applied to (suffixes of) m_buf.  A literal transcription with `while(*s ...) s++`
 * makes CBMC's symbolic execution carry 256-deep nested pointer expressions from call to call (measured: symex
 * alone > 5 min).  The models therefore compute "the first position >= from with property P" declaratively:
 *   1. ASSERT that a terminator exists at or behind `from` inside the buffer (so the position exists, P(NUL) holds
 *      for all three P used),
 *   2. choose k nondeterministically, assume P(buf[k]) and !P(buf[j]) for every j in [from, k).
 * Both steps quantify over the CONSTANT range 0..MAX_LINE_LEN-1 (expanded by CBMC into 256 conjuncts/disjuncts;
 * constant-range quantifiers are handled exactly by the SAT back end).  The result is exactly the value the ISO C
 * function computes. */
extern "C" int first_pos(int from, int kind);    /* defined in contract.c (quantifiers are C-only syntax) */
static inline size_t strlen(const char* s)
{
   __CPROVER_assert(__CPROVER_same_object(s, gp_buf), "strlen model: argument points into m_buf");
   int from = (int)(s - gp_buf);
   return (size_t)(first_pos(from, 2) - from);
}
static inline int isdigit(int c) { return '0' <= c && c <= '9'; }

/* strcmp(token, "literal"): loop-free, reads a[i] only while strcmp would (literals of the slice are <= 10 chars) */
#define CMP_STEP(i) if((unsigned char)a[i] != (unsigned char)b[i]) return ((unsigned char)a[i] < (unsigned char)b[i]) ? -1 : 1; \
   if(a[i] == '\0') return 0;
static inline int strcmp(const char* a, const char* b)
{
   CMP_STEP(0) CMP_STEP(1) CMP_STEP(2) CMP_STEP(3) CMP_STEP(4) CMP_STEP(5) CMP_STEP(6) CMP_STEP(7) CMP_STEP(8) CMP_STEP(9) CMP_STEP(10)
   __CPROVER_assert(0, "strcmp model: literal longer than 10 characters");
   return 0;
}

/* strtok(s, " ") as in ISO C 7.24.5.8 for the one-character delimiter set the slice uses */
static inline char* strtok(char* s, const char* delim)
{
   __CPROVER_assert(delim[0] == ' ' && delim[1] == '\0', "strtok model: delimiter set is \" \"");
   if(s == nullptr)
      s = gp_save;
   if(s == nullptr)
      return nullptr;
   __CPROVER_assert(__CPROVER_same_object(s, gp_buf), "strtok model: argument points into m_buf");
   int a = first_pos((int)(s - gp_buf), 0);          /* skip leading delimiters */
   if(gp_buf[a] == '\0')
   {
      gp_save = nullptr;
      return nullptr;
   }
   int e = first_pos(a, 1);                           /* end of the token */
   if(gp_buf[e] == '\0')
      gp_save = nullptr;
   else
   {
      gp_buf[e] = '\0';
      gp_save = gp_buf + e + 1;
   }
   return gp_buf + a;
}

/* ---- stream stub ------------------------------------------------------------------------------------------ */
struct IStreamStub
{
   IStreamStub& getline(char* b, size_t n)
   {
      __CPROVER_assert(n == MAX_LINE_LEN, "getline is given sizeof(m_buf)");
      g_calls = (int)((unsigned)g_calls + 1u);
      if(g_remaining <= 0)
      {
         b[0] = '\0'; g_good = 0; g_eof = 1; g_fail = 1;   /* end of file: nothing extracted, eofbit|failbit, sticky */
         return *this;
      }
      g_remaining--; g_consumed++;
      __CPROVER_havoc_slice(b, MAX_LINE_LEN);
      int k = nondet_int();
      __CPROVER_assume(0 <= k && k <= MAX_LINE_LEN - 1);
      b[k] = '\0';
      g_eof = nondet_int() != 0; g_fail = nondet_int() != 0;   /* normal line / last line without newline / overlong line / bad stream */
      g_good = !g_eof && !g_fail && nondet_int() != 0;          /* (badbit also clears good()) */
      return *this;
   }
   bool good() const { return g_good != 0; }
   bool eof() const { return g_eof != 0; }
   bool fail() const { return g_fail != 0; }
};

/* ---- the static helpers, verbatim bodies ------------------------------------------------------------------ */
/* C linkage only so that the CBMC loop ids carry no parameter list (needed for --unwindset) */
extern "C" {
static void clear_from(char* buf, int pos)
{
#include "clear_from.inc"
}
static void patch_field(char* buf, int beg, int end)
{
#include "patch_field.inc"
}
}

/* ---- host: the data members of MPSInput that readLine() uses, same names and types ------------------------- */
struct MPSHost
{
#include "Section.inc"
   Section         m_section;
   IStreamStub     m_input;
   int             m_lineno;
   char            m_buf[MAX_LINE_LEN];
   const char*     m_f0;
   const char*     m_f1;
   const char*     m_f2;
   const char*     m_f3;
   const char*     m_f4;
   const char*     m_f5;
   bool            m_is_integer;
   bool            m_is_new_format;
};

struct H : MPSHost
{
   bool body()
   {
#include "readLine.inc"
   }
};

/* per field i: off[i] = offset of m_f<i> into m_buf (-1 = NULL, -2 = points outside m_buf), c0[i] = its first
 * character.  first_pos(off, 2) ASSERTS that a terminator follows inside m_buf (the "NUL-terminated suffix" claim)
 * and returns its position.  Loop-free on purpose (every statement of the wrapper is instrumented by dfcc). */
#define FIELD_OUT(i, f) \
   if((f) == nullptr) { off[i] = -1; end[i] = -1; c0[i] = '\0'; } \
   else if(!__CPROVER_same_object((f), h.m_buf)) { off[i] = -2; end[i] = -1; c0[i] = '\0'; } \
   else { off[i] = (int)((f) - h.m_buf); { int o_ = off[i]; int e_ = first_pos(o_, 2); end[i] = e_; } /* temporaries: goto-instrument 6.11 crashes on the direct form */ c0[i] = *(f); }
extern "C" int w_readline(int section, int lineno, int is_integer, int is_new_format, int* off, int* end, char* c0,
                          int* lineno_out)
{
   H h;
   h.m_section = (MPSHost::Section)section; h.m_lineno = lineno; h.m_is_integer = is_integer != 0; h.m_is_new_format = is_new_format != 0;
   h.m_f0 = h.m_f1 = h.m_f2 = h.m_f3 = h.m_f4 = h.m_f5 = nullptr;
   h.m_buf[0] = '\0';
   gp_host = (char*)&h; gp_lineno = &h.m_lineno; gp_buf = h.m_buf; gp_save = nullptr;
   gp_f1 = &h.m_f1; gp_f2 = &h.m_f2; gp_f3 = &h.m_f3; gp_f4 = &h.m_f4; gp_f5 = &h.m_f5; gp_isint = &h.m_is_integer;
   bool r = h.body();
   if(r)
   {
      FIELD_OUT(0, h.m_f0) FIELD_OUT(1, h.m_f1) FIELD_OUT(2, h.m_f2) FIELD_OUT(3, h.m_f3) FIELD_OUT(4, h.m_f4) FIELD_OUT(5, h.m_f5)
   }
   *lineno_out = h.m_lineno;
   return r ? 1 : 0;
}
