/* C13: MPSInput::readLine() with its static helpers clear_from() / patch_field() (src/soplex/mpsinput.cpp).
 * Bodies are #included verbatim.  The host replicates the data members readLine() touches (conformance-checked
 * against mpsinput.h); MPSInput itself has a virtual destructor and a std::istream& member, so the real class is
 * not instantiated (README pitfall 3).  Environment:
 *   - m_input: stream stub.  getline(buf, n) delivers ANY n-1 bytes (NUL bytes included) followed by a terminator
 *     somewhere in buf[0..n-1], and any combination of good()/eof(); once the ghost line budget is used up it
 *     behaves as libstdc++ does at end of file: stores an empty string, good() == false, eof() == true, for ever.
 *   - strlen / strtok / strcmp / isdigit: small C models (see below).
 *   - SPxOut::debug: no-op. */
#include "verif.h"
#include "constants.h"
#ifdef CAP            /* quick tier only: a shorter line buffer (must exceed 80, the fixed MPS line width) */
#undef MAX_LINE_LEN
#define MAX_LINE_LEN (CAP)
#endif

#define PATCH_CHAR    V_PATCH_CHAR
#define BLANK         V_BLANK

extern "C" {
   extern int g_st[10];                                        /* stream state + scratch, see contract.c */
   extern int g_i;                                           /* ghost field index of the contract */
   extern char* gp_save;                                     /* strtok's hidden state */
   extern char* gp_host; extern int* gp_lineno; extern char* gp_buf;
   extern const char** gp_f0; extern const char** gp_f1; extern const char** gp_f2; extern const char** gp_f3; extern const char** gp_f4; extern const char** gp_f5; extern bool* gp_isint;
   int nondet_int(void);
}

/* all int ghosts live in ONE array so that loop/function write sets have one entry for them (the cost of dfcc's
 * per-write check grows with the number of entries) */
#define g_remaining g_st[0]
#define g_consumed g_st[1]
#define g_calls g_st[2]
#define g_good g_st[3]
#define g_eof g_st[4]
#define g_fail g_st[5]
#define g_sc_from g_st[6]
#define g_sc_k g_st[7]
#define g_sc_e g_st[8]
#define g_T g_st[9]

struct SPxOut { static void debug(const void*, const char*, ...) {} };

/* ---- C library models ------------------------------------------------------------------------------------- */
/* strlen / strtok are only ever applied to (suffixes of) m_buf.  A literal transcription with `while(*s ...) s++`
 * makes CBMC's symbolic execution carry 256-deep nested pointer expressions from call to call (measured: symex
 * alone > 5 min), and an exact declarative model (first position with property P, pinned down by quantifiers)
 * gives SAT queries of > 5 min.  The models (contract.c) therefore OVER-approximate: they pick SOME position with
 * the property between the argument and a ghost terminator witness - every behaviour of the ISO C function is
 * included.  They keep their scratch values in ghost globals, not locals (every local is a dfcc-tracked object). */
extern "C" {
   size_t verif_strlen(const char* s);
   char* verif_strtok(char* s, const char* delim);
   int verif_first_nul(int from);
}
/* thin C++ shims: the C++ front end converts the arguments (nullptr!) to the parameter types here; calling the C
 * functions directly from the slice crashes goto-instrument 6.11's inliner on the nullptr_t argument */
static inline size_t strlen(const char* s) { return verif_strlen(s); }
static inline char* strtok(char* s, const char* delim) { return verif_strtok(s, delim); }
static inline int isdigit(int c) { return '0' <= c && c <= '9'; }

/* strcmp(token, "literal"): loop-free, reads a[i] only while strcmp would (literals of the slice are <= 10 chars) */
#define CMP_STEP(i) if((unsigned char)a[i] != (unsigned char)b[i]) return ((unsigned char)a[i] < (unsigned char)b[i]) ? -1 : 1; \
   if(a[i] == '\0') return 0;
static inline int strcmp(const char* a, const char* b)
{
   CMP_STEP(0) CMP_STEP(1) CMP_STEP(2) CMP_STEP(3) CMP_STEP(4) CMP_STEP(5) CMP_STEP(6) CMP_STEP(7) CMP_STEP(8) CMP_STEP(9) CMP_STEP(10)
   __CPROVER_assert(0, "strcmp model: literal longer than 10 characters");
   return 0;
}

/* ---- stream stub ------------------------------------------------------------------------------------------ */
/* getline() returns the stream state by value (a reference return followed by .fail() crashes goto-instrument 6.11's inliner) */
struct StreamState
{
   int unused;
   bool good() const { return g_good != 0; }
   bool eof() const { return g_eof != 0; }
   bool fail() const { return g_fail != 0; }
};
struct IStreamStub
{
   StreamState getline(char* b, size_t n)
   {
      __CPROVER_assert(n == MAX_LINE_LEN, "getline is given sizeof(m_buf)");
      g_calls = (int)((unsigned)g_calls + 1u);
      if(g_remaining <= 0)
      {
         b[0] = '\0'; g_T = 0; g_good = 0; g_eof = 1; g_fail = 1;   /* end of file: nothing extracted, eofbit|failbit, sticky */
         { StreamState st; st.unused = 0; return st; }
      }
      g_remaining--; g_consumed++;
      __CPROVER_havoc_slice(b, MAX_LINE_LEN);
      g_sc_k = nondet_int();
      __CPROVER_assume(0 <= g_sc_k && g_sc_k <= MAX_LINE_LEN - 1);
      b[g_sc_k] = '\0';
      g_T = g_sc_k;                                        /* terminator witness, see contract.c */
      g_eof = nondet_int() != 0; g_fail = nondet_int() != 0;   /* normal line / last line without newline / overlong line / bad stream */
      g_good = !g_eof && !g_fail && nondet_int() != 0;          /* (badbit also clears good()) */
      { StreamState st; st.unused = 0; return st; }
   }
   bool good() const { return g_good != 0; }
   bool eof() const { return g_eof != 0; }
   bool fail() const { return g_fail != 0; }
};

/* ---- the static helpers, verbatim bodies ------------------------------------------------------------------ */
/* C linkage (and external, the real ones are static) so that they can carry CBMC function contracts, which are
 * declared in contract.c: instances clear_from / patch_field prove the contracts on the real bodies, instance
 * readLine uses the contracts at the call sites (modular: replace-call-with-contract; the bodies are compiled
 * there as well - goto-instrument 6.11 crashes on body-less callees - but every call to them is replaced). */
extern "C" {
#ifdef INST_clear_from
void clear_from(char* buf, int pos)
{
#include "clear_from.inc"
}
#endif
#ifdef INST_patch_field
void patch_field(char* buf, int beg, int end)
{
#include "patch_field.inc"
}
#endif
}

/* ---- host: the data members of MPSInput that readLine() uses, same names and types ------------------------- */
struct MPSHost
{
#include "Section.inc"
   Section         m_section;
   IStreamStub     m_input;
   int             m_lineno;
   char            m_buf[MAX_LINE_LEN];
   const char*     m_f0;
   const char*     m_f1;
   const char*     m_f2;
   const char*     m_f3;
   const char*     m_f4;
   const char*     m_f5;
   bool            m_is_integer;
   bool            m_is_new_format;
};

#ifdef INST_readLine
struct H : MPSHost
{
   bool body()
   {
#include "readLine.inc"
   }
};

/* off[i] = offset of m_f<i> into m_buf (-1 = NULL, -2 = points outside m_buf).  For the ghost field index g_i of
 * the contract: *end_i = position of the first terminator at or behind field g_i (verif_first_nul ASSERTS that one
 * exists inside m_buf: the "NUL-terminated suffix" claim), *end_prev the same for field g_i - 1, *c0 = first
 * character of field g_i.  Loop-free and with few locals on purpose (every local is a dfcc-tracked object). */
#define FIELD_OFF(f) ((f) == nullptr ? -1 : (__CPROVER_same_object((f), h.m_buf) ? (int)((f) - h.m_buf) : -2))
extern "C" int w_readline(int section, int lineno, int is_integer, int is_new_format, int* off, int* end_i, int* end_prev,
                          char* c0, int* lineno_out)
{
   VIN("section", section); VIN("lineno", lineno); VIN("lines_left", g_remaining);
   H h;
   h.m_section = (MPSHost::Section)section; h.m_lineno = lineno; h.m_is_integer = is_integer != 0; h.m_is_new_format = is_new_format != 0;
   h.m_f0 = h.m_f1 = h.m_f2 = h.m_f3 = h.m_f4 = h.m_f5 = nullptr;
   h.m_buf[0] = '\0';
   gp_host = (char*)&h; gp_lineno = &h.m_lineno; gp_buf = h.m_buf; gp_save = nullptr;
   gp_f0 = &h.m_f0; gp_f1 = &h.m_f1; gp_f2 = &h.m_f2; gp_f3 = &h.m_f3; gp_f4 = &h.m_f4; gp_f5 = &h.m_f5; gp_isint = &h.m_is_integer;
   bool r = h.body();
   off[0] = FIELD_OFF(h.m_f0); off[1] = FIELD_OFF(h.m_f1); off[2] = FIELD_OFF(h.m_f2);
   off[3] = FIELD_OFF(h.m_f3); off[4] = FIELD_OFF(h.m_f4); off[5] = FIELD_OFF(h.m_f5);
   *end_i = -1; *end_prev = -1; *c0 = '\0';
   int o_, e_;                                      /* temporaries: goto-instrument 6.11 crashes on f(a[i]) / *p = f() */
   if(r && off[g_i] >= 0)
   {
      o_ = off[g_i]; e_ = verif_first_nul(o_); *end_i = e_;
      *c0 = h.m_buf[o_];
   }
   if(r && g_i >= 1 && off[g_i - 1] >= 0)
   {
      o_ = off[g_i - 1]; e_ = verif_first_nul(o_); *end_prev = e_;
   }
   *lineno_out = h.m_lineno;
   return r ? 1 : 0;
}
#endif
