/* Contract for MPSInput::readLine() (C13): for any sequence of input lines of any content
 *  - every access is inside m_buf (CBMC bounds/pointer checks on the real body and on the C library models),
 *  - on return true every field pointer m_f0..m_f5 is NULL or points into m_buf and a string terminator follows
 *    inside m_buf (a NUL-terminated suffix), the fields are in increasing order,
 *  - m_lineno advanced by exactly the number of getline() calls (modulo 2^32: see unit.json, overflow not checked),
 *  - it returns false only after getline() reported failure (end of file, overlong line, bad stream),
 *  - the comment-skipping loop terminates: its variant is the number of lines left in the stream. */
#include "verif_c.h"
#include "constants.h"
#ifdef CAP            /* quick tier only: a shorter line buffer (must exceed 80, the fixed MPS line width) */
#undef MAX_LINE_LEN
#define MAX_LINE_LEN (CAP)
#endif

int g_st[10];
/* all int ghosts live in ONE array so that loop/function write sets have one entry for them (the cost of dfcc's
 * per-write check grows with the number of entries) */
#define g_remaining g_st[0]
#define g_consumed g_st[1]
#define g_calls g_st[2]
#define g_good g_st[3]
#define g_eof g_st[4]
#define g_fail g_st[5]
#define g_sc_from g_st[6]
#define g_sc_k g_st[7]
#define g_sc_e g_st[8]
#define g_T g_st[9]
char* gp_host; int* gp_lineno;
const char** gp_f0; const char** gp_f1; const char** gp_f2; const char** gp_f3; const char** gp_f4; const char** gp_f5; _Bool* gp_isint;
int g_lineno0, g_total;
int g_maxlen;                              /* == MAX_LINE_LEN, for the loop contracts (loops.json sees no macros) */
int g_i;                                   /* ghost field index: "for every field i" */

/* ---- strlen / strtok models on m_buf (see the comment in unit.cpp) -------------------------------------------
 * g_T is a ghost "terminator witness": a position with m_buf[g_T] == NUL at or behind every position the models are
 * asked about.  getline() sets it, strlen() moves it to the NUL it returns, strtok(s != NULL, ..) re-establishes it
 * (after clear_from / the loop havocs) by ASSERTING that a terminator exists at or behind s inside m_buf (constant
 * range quantifier) and picking one.
 * PICK_POS(kind): g_sc_k := SOME position in [g_sc_from, g_T] with P_kind(m_buf[.]); kind 0: not a blank,
 * 1: blank or NUL, 2: NUL.  The ISO C functions take the FIRST such position, which lies in that range because
 * P_kind(NUL) holds - so the models admit every real behaviour and more (sound for a safety proof; the extra
 * behaviours only make the obligations harder).  The assertion in PICK_POS is the memory-safety claim
 * "the argument is a NUL-terminated string inside m_buf". */
#define P_KIND(kind, c) ((kind) == 0 ? ((c) != ' ') : ((kind) == 1 ? ((c) == ' ' || (c) == '\0') : ((c) == '\0')))
char* gp_buf; char* gp_save;
#define PICK_POS(kind) \
   __CPROVER_assert(0 <= g_sc_from && g_sc_from <= g_T && g_T < MAX_LINE_LEN && gp_buf[g_T] == '\0', \
                    "string argument is NUL-terminated inside m_buf"); \
   g_sc_k = nondet_int(); \
   __CPROVER_assume(g_sc_from <= g_sc_k && g_sc_k <= g_T); \
   __CPROVER_assume(P_KIND(kind, gp_buf[g_sc_k]));

int verif_first_nul(int from)
{
   g_sc_from = from;
   PICK_POS(2)
   return g_sc_k;
}
size_t verif_strlen(const char* s)
{
   __CPROVER_assert(__CPROVER_same_object(s, gp_buf), "strlen model: argument points into m_buf");
   g_sc_from = (int)(s - gp_buf);
   PICK_POS(2)
   g_T = g_sc_k;
   return (size_t)(g_sc_k - g_sc_from);
}
/* strtok(s, " ") as in ISO C 7.24.5.8 for the one-character delimiter set the slice uses */
char* verif_strtok(char* s, const char* delim)
{
   __CPROVER_assert(delim[0] == ' ' && delim[1] == '\0', "strtok model: delimiter set is \" \"");
   if(s == NULL)
      s = gp_save;
   else
   {
      /* a new string: (re-)establish the terminator witness */
      __CPROVER_assert(__CPROVER_same_object(s, gp_buf) && 0 <= s - gp_buf && s - gp_buf < MAX_LINE_LEN, "strtok model: argument points into m_buf");
      __CPROVER_assert(__CPROVER_exists { int j; (0 <= j && j < MAX_LINE_LEN) && (j >= s - gp_buf && gp_buf[j] == '\0') },
                       "string argument is NUL-terminated inside m_buf");
      g_T = nondet_int();
      __CPROVER_assume(s - gp_buf <= g_T && g_T < MAX_LINE_LEN && gp_buf[g_T] == '\0');
   }
   if(s == NULL)
      return NULL;
   __CPROVER_assert(__CPROVER_same_object(s, gp_buf), "strtok model: argument points into m_buf");
   g_sc_from = (int)(s - gp_buf);
   PICK_POS(0)                                    /* skip leading delimiters */
   if(gp_buf[g_sc_k] == '\0')
   {
      gp_save = NULL;
      return NULL;
   }
   g_sc_from = g_sc_k;
   g_sc_e = g_sc_k;                                /* start of the token */
   PICK_POS(1)                                    /* end of the token */
   if(gp_buf[g_sc_k] == '\0')
      gp_save = NULL;
   else
   {
      gp_buf[g_sc_k] = '\0';
      gp_save = gp_buf + g_sc_k + 1;
   }
   return gp_buf + g_sc_e;
}

char nondet_char(void);
#define BIG (1 << 29)
#define N_SECTIONS 9                       /* NAME .. ENDATA; the enum text is conformance-checked */

/* ---- contracts of the two static helpers (proved on the real bodies by instances clear_from / patch_field, used at
 * the call sites by instance readLine).  A contract that is used for call replacement cannot have ghost-index
 * preconditions (the caller would have to establish them), so these state memory safety, the frame and the
 * terminator only - which is all readLine's proof needs. */
void clear_from(char* buf, int pos)
__CPROVER_requires(0 <= pos && pos <= 80 && __CPROVER_is_fresh(buf, 81))
__CPROVER_assigns(__CPROVER_object_upto(buf, 81))                                /* writes buf[pos..80] only inside buf[0..80] */
__CPROVER_ensures(buf[80] == '\0')                                              /* the line is cut/padded to 80 columns */
__CPROVER_ensures(pos < 80 ==> buf[79] == V_BLANK)
;
void patch_field(char* buf, int beg, int end)
__CPROVER_requires(0 <= beg && beg <= end && end <= 47 && __CPROVER_is_fresh(buf, 48))
__CPROVER_assigns(__CPROVER_object_upto(buf, 48))                                /* writes inside buf[0..47] only */
__CPROVER_ensures(1)
;
#if defined(INST_clear_from) && !defined(INST_readLine)
void h_clear_from(void) { char* buf; int pos; clear_from(buf, pos); CANARY(); }
#endif
#if defined(INST_patch_field) && !defined(INST_readLine)
void h_patch_field(void) { char* buf; int beg, end; patch_field(buf, beg, end); CANARY(); }
#endif

#ifdef INST_readLine
int w_readline(int section, int lineno, int is_integer, int is_new_format, int* off, int* end_i, int* end_prev, char* c0, int* lineno_out)
__CPROVER_requires(0 <= section && section <= N_SECTIONS - 1)
__CPROVER_requires(0 <= lineno && lineno <= BIG && g_lineno0 == lineno)
__CPROVER_requires(0 <= g_remaining && g_remaining <= BIG && g_total == g_remaining && g_consumed == 0 && g_calls == 0)
__CPROVER_requires(__CPROVER_is_fresh(off, 6 * sizeof(int)) && __CPROVER_is_fresh(end_i, sizeof(int)) && __CPROVER_is_fresh(end_prev, sizeof(int)))
__CPROVER_requires(__CPROVER_is_fresh(c0, 1) && __CPROVER_is_fresh(lineno_out, sizeof(int)))
__CPROVER_requires(0 <= g_i && g_i < 6 && g_maxlen == MAX_LINE_LEN)
__CPROVER_assigns(__CPROVER_object_whole(g_st), gp_save, gp_host, gp_lineno, gp_buf, gp_f0, gp_f1, gp_f2, gp_f3, gp_f4, gp_f5, gp_isint,
                  __CPROVER_object_whole(off), *end_i, *end_prev, *c0, *lineno_out)
/* every field g_i: NULL, or inside the buffer with a terminator behind it inside the buffer (the terminator's
 * existence is the assertion inside verif_first_nul(), its position is *end_i) */
__CPROVER_ensures(__CPROVER_return_value ==> (off[g_i] == -1 || (0 <= off[g_i] && off[g_i] < *end_i && *end_i <= MAX_LINE_LEN - 1)))
/* fields are handed out left to right: a later field is never set without the earlier one (f0 and f2.. are
 * alternatives), and a field starts behind the terminator of its predecessor */
__CPROVER_ensures((__CPROVER_return_value && g_i >= 2 && off[g_i] >= 0) ==> off[g_i - 1] >= 0)
__CPROVER_ensures((__CPROVER_return_value && g_i >= 1 && off[g_i] >= 0 && off[g_i - 1] >= 0) ==> off[g_i - 1] < off[g_i])
__CPROVER_ensures((__CPROVER_return_value && off[0] >= 0) ==> (off[2] == -1 && off[3] == -1 && off[4] == -1 && off[5] == -1))
/* a field is never empty and never starts with a blank */
__CPROVER_ensures((__CPROVER_return_value && off[g_i] >= 0) ==> (*c0 != '\0' && *c0 != ' '))
/* line counter == number of getline() calls; false only after a stream failure */
/* (a failed read returns before the line counter is advanced) */
__CPROVER_ensures(*lineno_out == g_lineno0 + g_calls - (__CPROVER_return_value ? 0 : 1) && g_consumed + g_remaining == g_total)
__CPROVER_ensures(!__CPROVER_return_value ==> g_fail)
;

void h_readline(void)
{
   int section, lineno, is_integer, is_new_format; int* off; int* end_i; int* end_prev; char* c0; int* lineno_out;
   g_remaining = nondet_int(); g_consumed = nondet_int(); g_calls = nondet_int(); g_good = nondet_int(); g_eof = nondet_int(); g_fail = nondet_int();
   g_lineno0 = nondet_int(); g_total = nondet_int(); g_i = nondet_int(); g_maxlen = nondet_int();
   w_readline(section, lineno, is_integer, is_new_format, off, end_i, end_prev, c0, lineno_out);
   CANARY();
}
#endif
