/* C20: the complete, unmodified text of /repo/src/soplex_interface.cpp (region slice, cut on every run).
 * Its #include "soplex.h" / <iostream> resolve to the recording stubs in this directory; its
 * #include "soplex_interface.h" resolves to a verbatim copy of the real header (unit.json "extracts"). */
#include "soplex_interface.inc"
