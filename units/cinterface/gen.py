#!/usr/bin/env python3
"""C20 generator: writes unit.json and contract.c of units/cinterface from ONE table.

    python3 units/cinterface/gen.py          # regenerate (run after editing the table)

Nothing here is read at check time; the runner uses the generated unit.json / contract.c.  The C
declarations the contracts are attached to are copied from the REAL /repo/src/soplex_interface.h at
generation time, and contract.c #includes the verbatim header copy at check time, so that a drifting
signature is a compile error (machinery, exit 2), never a wrong verdict.
"""
import json
import os
import re
import sys

HERE = os.path.dirname(os.path.abspath(__file__))
REPO = os.environ.get("VERIF_REPO", "/repo")
SRC = "src/soplex_interface.cpp"
INC = "soplex_interface.inc"

hdr = open(os.path.join(REPO, "src/soplex_interface.h")).read()
cpp = open(os.path.join(REPO, SRC)).read()

# ------------------------------------------------------------------------------------------------
# declarations from the real header
DECL = {}
for m in re.finditer(r"^([A-Za-z_][\w \*]*?)\b(SoPlex_\w+)\s*\(([^)]*)\)\s*;", hdr, re.M):
    ret, name, params = m.group(1).strip(), m.group(2), " ".join(m.group(3).split())
    ps = []
    for p in [x.strip() for x in params.split(",") if x.strip()]:
        pm = re.match(r"^(.*?)(\w+)$", p)
        ps.append((pm.group(1).strip(), pm.group(2)))
    DECL[name] = (ret, ps)


def sig_regex(name):
    ret, ps = DECL[name]
    r = re.escape(ret).replace(r"\ ", r"\s+") + r"\s+" + name + r"\s*\(\s*"
    r += r"\s*,\s*".join(re.escape(t).replace(r"\ ", r"\s+") + r"\s*" + n for t, n in ps)
    return r + r"\s*\)"


# ------------------------------------------------------------------------------------------------
# contract vocabulary
def SAME_D(a, b):
    return "SAME_D(%s, %s)" % (a, b)


class Call:
    """one expected entry of the call ledger"""

    def __init__(self, cid, ai=(), ad=(), ap=()):
        self.cid, self.ai, self.ad, self.ap = cid, list(ai), list(ad), list(ap)

    def ensures(self, c, handle="soplex"):
        out = ["CALL(%d, CID_%s, %s)" % (c, self.cid, handle)]
        for j, e in enumerate(self.ai):
            if e is not None:
                out.append("g_ai[%d][%d] == (long)(%s)" % (c, j, e))
        for j, e in enumerate(self.ad):
            if e is not None:
                out.append(SAME_D("g_ad[%d][%d]" % (c, j), e))
        for j, e in enumerate(self.ap):
            if e is not None:
                out.append("g_ap[%d][%d] == (const void*)(%s)" % (c, j, e))
        return out


SPECS = []


def spec(name, calls, ret=None, req=(), assigns=(), ens=(), mutants=(), loop=None, dsv=False, tier="quick",
         note=None, floor=50, handle="soplex", frees=(), unwind=None):
    SPECS.append(dict(name=name, calls=list(calls), ret=ret, req=list(req), assigns=list(assigns), ens=list(ens),
                      mutants=list(mutants), loop=loop, dsv=dsv, tier=tier, note=note, floor=floor, handle=handle,
                      frees=list(frees), unwind=unwind))


def mut(name, find, replace, regex=False):
    """A textual one-token fault in the sliced file.  Plain `find` strings must be unique in the file;
    regex ones are anchored at the function's name and must reach the target within that function."""
    if regex:
        ms = list(re.finditer(find, cpp, re.S))
        assert len(ms) >= 1, ("mutant regex does not match", name, find)
    else:
        assert cpp.count(find) == 1, ("mutant text not unique", name, find, cpp.count(find))
    d = {"name": name, "slice": INC, "find": find, "replace": replace}
    if regex:
        d["regex"] = True
    return d


def in_fn(fn, text):
    """regex: `text` (literal) at its first occurrence after the definition of fn"""
    return r"(\b%s\(void\* soplex.*?)%s" % (fn, re.escape(text))


def anchored(name, fn, text, repl):
    rx = in_fn(fn, text)
    m = re.search(rx, cpp, re.S)
    assert m, (fn, text)
    # the match must not run into the next function
    assert "\nvoid " not in m.group(1)[5:] and "\nint " not in m.group(1)[5:] and "\nchar" not in m.group(1)[5:], (fn, text)
    return mut(name, rx, r"\g<1>" + repl.replace("\\", "\\\\"), regex=True)


# ------------------------------------------------------------------------------------------------
# 0. create / free: `new SoPlex()` / `delete so` (operator new / delete are CBMC's __new / __delete hooks, contract.c)
spec("SoPlex_create", [Call("ctor")], handle="__CPROVER_return_value",
     ens=["__CPROVER_return_value != (void*)0 && __CPROVER_is_fresh(__CPROVER_return_value, 1)"],
     mutants=[mut("returns_null", "   return so;\n}\n\n/** frees", "   return 0;\n}\n\n/** frees")])
# (CBMC's C++ front end lowers `delete so` to __delete(so) WITHOUT the destructor call, so the ledger stays empty:
#  only "the handle is deallocated, nothing else happens" is checked)
spec("SoPlex_free", [],
     req=["__CPROVER_is_fresh(soplex, 1)"], frees=["soplex"],
     ens=["__CPROVER_was_freed(soplex)"],
     mutants=[mut("delete_dropped", "   delete so;", "   (void)so;")])

# ------------------------------------------------------------------------------------------------
# A. scalar pass-through functions (no loops, no arrays touched by the wrapper)
spec("SoPlex_readInstanceFile", [Call("readFile", ap=["filename", "0", "0", "0"])], ret="(g_ret_i[0] != 0)",
     mutants=[mut("other_reader", "return so->readFile(filename);", "return so->readBasisFile(filename);")])
spec("SoPlex_readBasisFile", [Call("readBasisFile", ap=["filename", "0", "0"])], ret="(g_ret_i[0] != 0)",
     mutants=[mut("other_reader", "return so->readBasisFile(filename);", "return so->readFile(filename);")])
spec("SoPlex_readSettingsFile", [Call("loadSettingsFile", ap=["filename"])], ret="(g_ret_i[0] != 0)",
     mutants=[mut("other_reader", "return so->loadSettingsFile(filename);", "return so->readFile(filename);")])
spec("SoPlex_clearLPReal", [Call("clearLPReal")],
     mutants=[mut("call_dropped", "so->clearLPReal();", "(void)so;")])
spec("SoPlex_numRows", [Call("numRows")], ret="g_ret_i[0]",
     mutants=[mut("cols_for_rows", "return so->numRows();", "return so->numCols();")])
spec("SoPlex_numCols", [Call("numCols")], ret="g_ret_i[0]",
     mutants=[mut("rows_for_cols", "return so->numCols();", "return so->numRows();")])
spec("SoPlex_setRational",
     [Call("setIntParam", ai=["READMODE", "READMODE_RATIONAL", "1"]),
      Call("setIntParam", ai=["SOLVEMODE", "SOLVEMODE_RATIONAL", "1"]),
      Call("setIntParam", ai=["CHECKMODE", "CHECKMODE_RATIONAL", "1"]),
      Call("setIntParam", ai=["SYNCMODE", "SYNCMODE_AUTO", "1"]),
      Call("setRealParam", ai=["FEASTOL", "1"], ad=["0.0"]),
      Call("setRealParam", ai=["OPTTOL", "1"], ad=["0.0"])],
     mutants=[mut("solvemode_real", "SoPlex::SOLVEMODE, SoPlex::SOLVEMODE_RATIONAL", "SoPlex::SOLVEMODE, SoPlex::SOLVEMODE_REAL"),
              mut("syncmode_manual", "SoPlex::SYNCMODE, SoPlex::SYNCMODE_AUTO", "SoPlex::SYNCMODE, SoPlex::SYNCMODE_MANUAL"),
              mut("opttol_twice_feastol", "so->setRealParam(SoPlex::OPTTOL, 0.0);", "so->setRealParam(SoPlex::FEASTOL, 0.0);")])
spec("SoPlex_setBoolParam", [Call("setBoolParam", ai=["paramcode", "(paramvalue != 0)", "1"])],
     mutants=[mut("code_value_swapped", "so->setBoolParam((SoPlex::BoolParam)paramcode, paramvalue);",
                  "so->setBoolParam((SoPlex::BoolParam)paramvalue, paramcode);")])
spec("SoPlex_setIntParam", [Call("setIntParam", ai=["paramcode", "paramvalue", "1"])],
     mutants=[mut("code_value_swapped", "so->setIntParam((SoPlex::IntParam)paramcode, paramvalue);",
                  "so->setIntParam((SoPlex::IntParam)paramvalue, paramcode);")])
spec("SoPlex_setRealParam", [Call("setRealParam", ai=["paramcode", "1"], ad=["paramvalue"])],
     mutants=[mut("value_negated", "so->setRealParam((SoPlex::RealParam)paramcode, paramvalue);",
                  "so->setRealParam((SoPlex::RealParam)paramcode, -paramvalue);")])
spec("SoPlex_getIntParam", [Call("intParam", ai=["paramcode"])], ret="g_ret_i[0]",
     mutants=[mut("code_off_by_one", "return so->intParam((SoPlex::IntParam)paramcode);",
                  "return so->intParam((SoPlex::IntParam)(paramcode + 1));")])
spec("SoPlex_removeColReal", [Call("removeColReal", ai=["colidx"])],
     mutants=[mut("row_for_col", "so->removeColReal(colidx);", "so->removeRowReal(colidx);")])
spec("SoPlex_removeRowReal", [Call("removeRowReal", ai=["rowidx"])],
     mutants=[mut("col_for_row", "so->removeRowReal(rowidx);", "so->removeColReal(rowidx);")])
spec("SoPlex_getPrimalReal", [Call("getPrimalReal", ai=["dim"], ap=["primal"])],
     mutants=[mut("dual_for_primal", "so->getPrimalReal(primal, dim);", "so->getDualReal(primal, dim);")])
spec("SoPlex_getDualReal", [Call("getDualReal", ai=["dim"], ap=["dual"])],
     mutants=[mut("length_plus_one", "so->getDualReal(dual, dim);", "so->getDualReal(dual, dim + 1);")])
spec("SoPlex_getRedCostReal", [Call("getRedCostReal", ai=["dim"], ap=["rc"])],
     mutants=[mut("length_plus_one", "so->getRedCostReal(rc, dim);", "so->getRedCostReal(rc, dim + 1);")])
spec("SoPlex_optimize", [Call("optimize", ap=["0"])], ret="g_ret_i[0]",
     mutants=[mut("status_for_optimize", "return so->optimize();", "return so->status();"),
              mut("status_to_bool", "return so->optimize();", "return so->optimize() != 0;")])
spec("SoPlex_getStatus", [Call("status")], ret="g_ret_i[0]",
     mutants=[mut("status_negated", "return so->status();", "return -so->status();")])
spec("SoPlex_getSolvingTime", [Call("solveTime")], ret=("D", "g_ret_d[0]"),
     mutants=[mut("objective_for_time", "return so->solveTime();", "return so->objValueReal();")])
spec("SoPlex_getNumIterations", [Call("numIterations")], ret="g_ret_i[0]",
     mutants=[mut("cols_for_iterations", "return so->numIterations();", "return so->numCols();")])
spec("SoPlex_changeRowLhsReal", [Call("changeLhsReal_i", ai=["rowidx"], ad=["lhs"])],
     mutants=[mut("rhs_for_lhs", "so->changeLhsReal(rowidx, lhs);", "so->changeRhsReal(rowidx, lhs);")])
spec("SoPlex_changeRowRhsReal", [Call("changeRhsReal_i", ai=["rowidx"], ad=["rhs"])],
     mutants=[mut("lhs_for_rhs", "so->changeRhsReal(rowidx, rhs);", "so->changeLhsReal(rowidx, rhs);")])
spec("SoPlex_changeRowRangeReal", [Call("changeRangeReal_i", ai=["rowidx"], ad=["lhs", "rhs"])],
     mutants=[mut("lhs_rhs_swapped", "so->changeRangeReal(rowidx, lhs, rhs);", "so->changeRangeReal(rowidx, rhs, lhs);")])
spec("SoPlex_writeFileReal", [Call("writeFile", ai=["1", "0"], ap=["filename", "0", "0", "0"])],
     mutants=[mut("read_for_write", "so->writeFile(filename);", "so->readFile(filename);")])
spec("SoPlex_objValueReal", [Call("objValueReal")], ret=("D", "g_ret_d[0]"),
     mutants=[mut("time_for_objective", "return so->objValueReal();", "return so->solveTime();")])
spec("SoPlex_changeVarBoundsReal", [Call("changeBoundsReal_i", ai=["colidx"], ad=["lb", "ub"])],
     mutants=[mut("lb_ub_swapped", "so->changeBoundsReal(colidx, lb, ub);", "so->changeBoundsReal(colidx, ub, lb);")])
spec("SoPlex_changeVarBoundsRational",
     [Call("changeBoundsRational_i", ai=["colidx", "lbnum", "lbdenom", "ubnum", "ubdenom"])],
     mutants=[mut("lower_upper_swapped", "so->changeBoundsRational(colidx, lower, upper);", "so->changeBoundsRational(colidx, upper, lower);"),
              anchored("num_den_swapped", "SoPlex_changeVarBoundsRational", "Rational upper(ubnum, ubdenom);", "Rational upper(ubdenom, ubnum);")])
spec("SoPlex_changeVarLowerReal", [Call("changeLowerReal_i", ai=["colidx"], ad=["lb"])],
     mutants=[mut("upper_for_lower", "so->changeLowerReal(colidx, lb);", "so->changeUpperReal(colidx, lb);")])
spec("SoPlex_changeVarUpperReal", [Call("changeUpperReal_i", ai=["colidx"], ad=["ub"])],
     mutants=[mut("lower_for_upper", "so->changeUpperReal(colidx, ub);", "so->changeLowerReal(colidx, ub);")])
spec("SoPlex_basisRowStatus", [Call("basisRowStatus", ai=["rowidx"])], ret="g_ret_i[0]",
     mutants=[mut("col_for_row", "return so->basisRowStatus(rowidx);", "return so->basisColStatus(rowidx);")])
spec("SoPlex_basisColStatus", [Call("basisColStatus", ai=["colidx"])], ret="g_ret_i[0]",
     mutants=[mut("row_for_col", "return so->basisColStatus(colidx);", "return so->basisRowStatus(colidx);")])
spec("SoPlex_getRowBoundsReal", [Call("lhsReal_i", ai=["i"]), Call("rhsReal_i", ai=["i"])],
     req=["__CPROVER_is_fresh(lb, sizeof(double)) && __CPROVER_is_fresh(ub, sizeof(double))"],
     assigns=["*lb", "*ub"],
     ens=[SAME_D("*lb", "g_ret_d[0]"), SAME_D("*ub", "g_ret_d[1]")],
     mutants=[mut("rhs_into_lb", "*lb = so->lhsReal(i);", "*lb = so->rhsReal(i);"),
              mut("ub_of_next_row", "*ub = so->rhsReal(i);", "*ub = so->rhsReal(i + 1);")])
spec("SoPlex_getRowBoundsRational",
     [Call("lhsRational_i", ai=["i"]), Call("lhsRational_i", ai=["i"]), Call("rhsRational_i", ai=["i"]), Call("rhsRational_i", ai=["i"])],
     req=["__CPROVER_is_fresh(lbnum, sizeof(long)) && __CPROVER_is_fresh(lbdenom, sizeof(long))",
          "__CPROVER_is_fresh(ubnum, sizeof(long)) && __CPROVER_is_fresh(ubdenom, sizeof(long))"],
     assigns=["*lbnum", "*lbdenom", "*ubnum", "*ubdenom"],
     ens=["*lbnum == g_ret_num[0] && *lbdenom == g_ret_den[1] && *ubnum == g_ret_num[2] && *ubdenom == g_ret_den[3]"],
     mutants=[mut("numerator_into_denominator", "*lbdenom = (long int) denominator(so->lhsRational(i));", "*lbdenom = (long int) numerator(so->lhsRational(i));"),
              mut("lhs_into_ub", "*ubnum = (long int) numerator(so->rhsRational(i));", "*ubnum = (long int) numerator(so->lhsRational(i));")])

# ------------------------------------------------------------------------------------------------
# B. dense input arrays -> VectorBase (no loop in the wrapper; the VectorBase(int, R*) constructor reads)
GK = "0 <= g_k && (g_k < dim || dim == 0)"


def dense_in(name, cid, arrays, mutants):
    req = ["0 <= dim && dim <= CAP", GK]
    for a in arrays:
        req.append("__CPROVER_is_fresh(%s, dim * sizeof(double))" % a)
    call = Call(cid, ai=["dim"] * len(arrays), ap=list(arrays))
    ens = ["g_k < dim ==> " + SAME_D("g_ad[0][%d]" % j, "%s[g_k]" % a) for j, a in enumerate(arrays)]
    spec(name, [call], req=req, ens=ens, mutants=mutants, floor=140)


dense_in("SoPlex_changeObjReal", "changeObjReal_vec", ["obj"],
         [mut("reads_one_more", "Vector objective(dim, obj);", "Vector objective(dim + 1, obj);"),
          mut("lhs_for_obj", "so->changeObjReal(objective);", "so->changeLhsReal(objective);")])
dense_in("SoPlex_changeLhsReal", "changeLhsReal_vec", ["lhs"],
         [mut("rhs_for_lhs", "so->changeLhsReal(lhsvec);", "so->changeRhsReal(lhsvec);")])
dense_in("SoPlex_changeRhsReal", "changeRhsReal_vec", ["rhs"],
         [mut("lhs_for_rhs", "so->changeRhsReal(rhsvec);", "so->changeLhsReal(rhsvec);")])
dense_in("SoPlex_changeRangeReal", "changeRangeReal_vec", ["lhs", "rhs"],
         [mut("lhs_rhs_swapped", "so->changeRangeReal(lhsvec, rhsvec);", "so->changeRangeReal(rhsvec, lhsvec);")])
dense_in("SoPlex_changeBoundsReal", "changeBoundsReal_vec", ["lb", "ub"],
         [mut("lb_ub_swapped", "so->changeBoundsReal(lbvec, ubvec);", "so->changeBoundsReal(ubvec, lbvec);"),
          anchored("ub_from_lb_array", "SoPlex_changeBoundsReal", "Vector ubvec(dim, ub);", "Vector ubvec(dim, lb);")])
dense_in("SoPlex_changeLowerReal", "changeLowerReal_vec", ["lb"],
         [mut("upper_for_lower", "so->changeLowerReal(lbvec);", "so->changeUpperReal(lbvec);")])
dense_in("SoPlex_changeUpperReal", "changeUpperReal_vec", ["ub"],
         [mut("lower_for_upper", "so->changeUpperReal(ubvec);", "so->changeLowerReal(ubvec);"),
          anchored("reads_one_less", "SoPlex_changeUpperReal", "Vector ubvec(dim, ub);", "Vector ubvec(dim - 1, ub);")])

# ------------------------------------------------------------------------------------------------
# C. dense array -> DSVector -> LPCol / LPRow  (loop: "entry g is added iff entries[g] != 0, with that value, in order")
# vector summary as recorded by CifVecSummary::record: ctor, n, first, last, sorted, hits (ints) then kval


def vec_ens(base_i, N, nz_g, val_ens):
    b = base_i
    return ["VEC_CTOR(%d) == 1" % b,                                                 # exactly one DSVector object existed
            "VEC_SORTED(%d) == 1" % b,                                               # indices strictly increasing
            "VEC_N(%d) == 0 || (0 <= VEC_FIRST(%d) && VEC_LAST(%d) < %s)" % (b, b, b, N),   # all of them within [0, size)
            "0 <= VEC_N(%d) && VEC_N(%d) <= %s" % (b, b, N),
            "g_k < %s ==> VEC_HITS(%d) == ((%s) ? 1 : 0)" % (N, b, nz_g),              # index g_k present (once) iff nonzero
            "(g_k < %s && (%s)) ==> (%s)" % (N, nz_g, val_ens)]                       # ... with exactly that value


def add_loop(fn, N, nz_g, val_inv, val_assigns, extra_locals):
    return {"function": fn, "loop": 0, "locals": ["i", N] + extra_locals,
            "invariants": ["0 <= i && i <= %s" % N,
                           "0 <= g_dsv_n && g_dsv_n <= i",
                           "g_dsv_sorted == 1",
                           "g_dsv_n == 0 || (0 <= g_dsv_first && g_dsv_last < i)",
                           "g_dsv_hits == ((g_k < i && (%s)) ? 1 : 0)" % nz_g,
                           "(g_k < i && (%s)) ==> (%s)" % (nz_g, val_inv)],
            "assigns": ["i", "g_dsv_n", "g_dsv_first", "g_dsv_last", "g_dsv_sorted", "g_dsv_hits"] + val_assigns,
            "decreases": "%s - i" % N}


def SAME_D_raw(a, b):
    return "(%s == %s || (%s != %s && %s != %s))" % (a, b, a, a, b, b)


# --- Real column: LPCol(objval, col, ub, lb): doubles [object, up, low, kval]
N, X = "colsize", "colentries"
spec("SoPlex_addColReal", [Call("addColReal", ad=["objval", "ub", "lb"])], dsv=True, floor=480,
     req=["0 <= %s && %s <= CAP && __CPROVER_is_fresh(%s, %s * sizeof(double))" % (N, N, X, N), "0 <= g_k && (g_k < %s || %s == 0)" % (N, N)],
     ens=["g_dsv_cap == nnonzeros"] + vec_ens(0, N, "%s[g_k] != 0.0" % X, SAME_D("g_ad[0][3]", "%s[g_k]" % X)),
     loop=add_loop("SoPlex_addColReal", N, "%s[g_k] != 0.0" % X, SAME_D_raw("g_dsv_kval", "%s[g_k]" % X), ["g_dsv_kval"], [X]),
     mutants=[mut("lb_ub_swapped", "so->addColReal(LPCol(objval, col, ub, lb));", "so->addColReal(LPCol(objval, col, lb, ub));"),
              anchored("reads_one_more", "SoPlex_addColReal", "i < colsize;", "i <= colsize;"),
              mut("zero_test_dropped", "if(colentries[i] != 0.0)\n", "\n"),
              mut("index_shifted", "col.add(i, colentries[i]);", "col.add(i + 1, colentries[i]);")])
# --- Real row: LPRow(lb, row, ub): doubles [left, right, kval]
N, X = "rowsize", "rowentries"
spec("SoPlex_addRowReal", [Call("addRowReal", ad=["lb", "ub"])], dsv=True, floor=480,
     req=["0 <= %s && %s <= CAP && __CPROVER_is_fresh(%s, %s * sizeof(double))" % (N, N, X, N), "0 <= g_k && (g_k < %s || %s == 0)" % (N, N)],
     ens=["g_dsv_cap == nnonzeros"] + vec_ens(0, N, "%s[g_k] != 0.0" % X, SAME_D("g_ad[0][2]", "%s[g_k]" % X)),
     loop=add_loop("SoPlex_addRowReal", N, "%s[g_k] != 0.0" % X, SAME_D_raw("g_dsv_kval", "%s[g_k]" % X), ["g_dsv_kval"], [X]),
     mutants=[mut("lhs_rhs_swapped", "so->addRowReal(LPRow(lb, row, ub));", "so->addRowReal(LPRow(ub, row, lb));"),
              anchored("reads_one_more", "SoPlex_addRowReal", "i < rowsize;", "i <= rowsize;"),
              mut("zero_test_dropped", "if(rowentries[i] != 0.0)\n", "\n"),
              mut("value_of_first", "row.add(i, rowentries[i]);", "row.add(i, rowentries[0]);")])
# --- Rational column: ints [obj.num, obj.den, up.num, up.den, low.num, low.den, summary(6), kval.num, kval.den]
N, XN, XD = "colsize", "colnums", "coldenoms"
spec("SoPlex_addColRational",
     [Call("addColRational", ai=["objvalnum", "objvaldenom", "ubnum", "ubdenom", "lbnum", "lbdenom"])], dsv=True, floor=480,
     req=["0 <= %s && %s <= CAP && __CPROVER_is_fresh(%s, %s * sizeof(long)) && __CPROVER_is_fresh(%s, %s * sizeof(long))" % (N, N, XN, N, XD, N),
          "0 <= g_k && (g_k < %s || %s == 0)" % (N, N)],
     ens=["g_dsv_cap == nnonzeros"] + vec_ens(6, N, "%s[g_k] != 0" % XN, "g_ai[0][12] == %s[g_k] && g_ai[0][13] == %s[g_k]" % (XN, XD)),
     loop=add_loop("SoPlex_addColRational", N, "%s[g_k] != 0" % XN, "g_dsv_knum == %s[g_k] && g_dsv_kden == %s[g_k]" % (XN, XD),
                   ["g_dsv_knum", "g_dsv_kden"], [XN, XD]),
     mutants=[mut("lower_upper_swapped", "so->addColRational(LPColRational(objval, col, upper, lower));", "so->addColRational(LPColRational(objval, col, lower, upper));"),
              mut("entry_num_den_swapped", "Rational colentry(colnums[i], coldenoms[i]);", "Rational colentry(coldenoms[i], colnums[i]);"),
              mut("objective_num_den_swapped", "Rational objval(objvalnum, objvaldenom);", "Rational objval(objvaldenom, objvalnum);"),
              anchored("reads_one_more", "SoPlex_addColRational", "i < colsize;", "i <= colsize;"),
              mut("zero_test_dropped", "if(colnums[i] != 0)\n", "\n"),
              anchored("lower_num_den_swapped", "SoPlex_addColRational", "Rational lower(lbnum, lbdenom);", "Rational lower(lbdenom, lbnum);")])
# --- Rational row: ints [left.num, left.den, right.num, right.den, summary(6), kval.num, kval.den]
N, XN, XD = "rowsize", "rownums", "rowdenoms"
spec("SoPlex_addRowRational",
     [Call("addRowRational", ai=["lbnum", "lbdenom", "ubnum", "ubdenom"])], dsv=True, floor=480,
     req=["0 <= %s && %s <= CAP && __CPROVER_is_fresh(%s, %s * sizeof(long)) && __CPROVER_is_fresh(%s, %s * sizeof(long))" % (N, N, XN, N, XD, N),
          "0 <= g_k && (g_k < %s || %s == 0)" % (N, N)],
     ens=["g_dsv_cap == nnonzeros"] + vec_ens(4, N, "%s[g_k] != 0" % XN, "g_ai[0][10] == %s[g_k] && g_ai[0][11] == %s[g_k]" % (XN, XD)),
     loop=add_loop("SoPlex_addRowRational", N, "%s[g_k] != 0" % XN, "g_dsv_knum == %s[g_k] && g_dsv_kden == %s[g_k]" % (XN, XD),
                   ["g_dsv_knum", "g_dsv_kden"], [XN, XD]),
     mutants=[mut("lhs_rhs_swapped", "so->addRowRational(LPRowRational(lower, row, upper));", "so->addRowRational(LPRowRational(upper, row, lower));"),
              mut("entry_num_den_swapped", "Rational rowentry(rownums[i], rowdenoms[i]);", "Rational rowentry(rowdenoms[i], rownums[i]);"),
              anchored("reads_one_more", "SoPlex_addRowRational", "i < rowsize;", "i <= rowsize;"),
              mut("zero_test_dropped", "if(rownums[i] != 0)\n", "\n"),
              anchored("upper_num_den_swapped", "SoPlex_addRowRational", "Rational upper(ubnum, ubdenom);", "Rational upper(ubdenom, ubnum);")])

# ------------------------------------------------------------------------------------------------
# D. numerator/denominator arrays -> new Rational[dim] -> VectorRational  (loop fills the heap array)


def rat_vec(name, cid, nums, dens, arr, entry, mutants):
    fresh = "__CPROVER_is_fresh(%s, dim * sizeof(long)) && __CPROVER_is_fresh(%s, dim * sizeof(long))" % (nums, dens)
    spec(name, [Call(cid, ai=["dim"])], floor=300,
         req=["0 <= dim && dim <= CAP && " + fresh, GK],
         ens=["g_k < dim ==> (g_ai[0][1] == %s[g_k] && g_ai[0][2] == %s[g_k])" % (nums, dens),
              "g_ap[0][0] != (const void*)%s && g_ap[0][0] != (const void*)%s" % (nums, dens)],
         loop={"function": name, "loop": 0, "locals": ["i", "dim", nums, dens, arr],
               "invariants": ["0 <= i && i <= dim",
                              "g_k < i ==> (((long*)%s)[2 * g_k] == %s[g_k] && ((long*)%s)[2 * g_k + 1] == %s[g_k])" % (arr, nums, arr, dens)],
               "assigns": ["i", "__CPROVER_object_whole(%s)" % arr], "decreases": "dim - i"},
         mutants=mutants)


rat_vec("SoPlex_changeObjRational", "changeObjRational_vec", "objnums", "objdenoms", "objrational", "objentry",
        [mut("num_den_swapped", "Rational objentry(objnums[i], objdenoms[i]);", "Rational objentry(objdenoms[i], objnums[i]);"),
         anchored("writes_one_more", "SoPlex_changeObjRational", "i < dim;", "i <= dim;"),
         mut("entry_shifted", "objrational[i] = objentry;", "objrational[0] = objentry;")])
rat_vec("SoPlex_changeLhsRational", "changeLhsRational_vec", "lhsnums", "lhsdenoms", "lhsrational", "lhsentry",
        [mut("num_den_swapped", "Rational lhsentry(lhsnums[i], lhsdenoms[i]);", "Rational lhsentry(lhsdenoms[i], lhsnums[i]);"),
         mut("rhs_for_lhs", "so->changeLhsRational(lhs);", "so->changeRhsRational(lhs);")])
rat_vec("SoPlex_changeRhsRational", "changeRhsRational_vec", "rhsnums", "rhsdenoms", "rhsrational", "rhsentry",
        [mut("num_den_swapped", "Rational rhsentry(rhsnums[i], rhsdenoms[i]);", "Rational rhsentry(rhsdenoms[i], rhsnums[i]);"),
         mut("lhs_for_rhs", "so->changeRhsRational(rhs);", "so->changeLhsRational(rhs);"),
         mut("shorter_vector", "VectorRational rhs(dim, rhsrational);", "VectorRational rhs(dim - 1, rhsrational);")])

# ------------------------------------------------------------------------------------------------
# E. dense getters: C++ getter fills a VectorBase(dim); loop copies it to the caller's array within [0, dim)


def dense_out(name, cid, out, vec, mutants):
    spec(name, [Call(cid, ai=["dim"])], floor=180,
         req=["0 <= dim && dim <= CAP && __CPROVER_is_fresh(%s, dim * sizeof(double))" % out, GK],
         assigns=["__CPROVER_object_whole(%s)" % out],
         ens=["g_k < dim ==> " + SAME_D("%s[g_k]" % out, "g_get_kval")],
         loop={"function": name, "loop": 0, "locals": ["i", "dim", out],
               "invariants": ["0 <= i && i <= dim", "g_k < i ==> " + SAME_D_raw("%s[g_k]" % out, "g_get_kval")],
               "assigns": ["i", "__CPROVER_object_whole(%s)" % out], "decreases": "dim - i"},
         mutants=mutants)


dense_out("SoPlex_getLowerReal", "getLowerReal", "lb", "lbvec",
          [mut("always_first", "lb[i] = lbvec[i];", "lb[i] = lbvec[0];"),
           mut("upper_for_lower", "so->getLowerReal(lbvec);", "so->getUpperReal(lbvec);"),
           anchored("writes_one_more", "SoPlex_getLowerReal", "i < dim;", "i <= dim;")])
dense_out("SoPlex_getUpperReal", "getUpperReal", "ub", "ubvec",
          [mut("into_first", "ub[i] = ubvec[i];", "ub[0] = ubvec[i];"),
           mut("lower_for_upper", "so->getUpperReal(ubvec);", "so->getLowerReal(ubvec);")])
dense_out("SoPlex_getObjReal", "getObjReal", "obj", "objvec",
          [mut("always_first", "obj[i] = objvec[i];", "obj[i] = objvec[0];"),
           anchored("writes_one_more", "SoPlex_getObjReal", "i < dim;", "i <= dim;")])

# ------------------------------------------------------------------------------------------------
# F. row getters: the caller gives no length; the arrays must hold the row's nonzeros and nothing beyond is written
GKS = "0 <= g_get_size && g_get_size <= CAP && 0 <= g_k && (g_k < g_get_size || g_get_size == 0)"
spec("SoPlex_getRowVectorReal", [Call("getRowVectorReal", ai=["i"])], dsv=True, floor=280,
     req=[GKS, "__CPROVER_is_fresh(nnonzeros, sizeof(int))",
          "__CPROVER_is_fresh(indices, g_get_size * sizeof(long)) && __CPROVER_is_fresh(coefs, g_get_size * sizeof(double))"],
     assigns=["*nnonzeros", "__CPROVER_object_whole(indices)", "__CPROVER_object_whole(coefs)"],
     ens=["*nnonzeros == g_get_size",
          "g_k < g_get_size ==> (indices[g_k] == g_get_kidx && %s)" % SAME_D("coefs[g_k]", "g_get_kval")],
     loop={"function": "SoPlex_getRowVectorReal", "loop": 0, "locals": ["j", "nnonzeros", "indices", "coefs"],
           "invariants": ["*nnonzeros == g_get_size", "0 <= j && j <= g_get_size",
                          "g_k < j ==> (indices[g_k] == g_get_kidx && %s)" % SAME_D_raw("coefs[g_k]", "g_get_kval")],
           "assigns": ["j", "__CPROVER_object_whole(indices)", "__CPROVER_object_whole(coefs)"], "decreases": "g_get_size - j"},
     mutants=[mut("value_of_first", "coefs[j] = row.value(j);", "coefs[j] = row.value(0);"),
              anchored("writes_one_more", "SoPlex_getRowVectorReal", "j < *nnonzeros;", "j <= *nnonzeros;"),
              anchored("index_into_first", "SoPlex_getRowVectorReal", "indices[j] = row.index(j);", "indices[0] = row.index(j);")])
spec("SoPlex_getRowVectorRational", [Call("getRowRational", ai=["i"])], floor=300, tier="quick",
     note="EXPECTED TO FAIL on the unchanged tree: `SVectorRational row; row = lprow.rowVector();` assigns into a default-constructed "
          "SVectorBase (no memory): assert(max() >= sv.size()) fires / NULL write for every non-empty row (svectorbase.h operator=)",
     req=[GKS, "__CPROVER_is_fresh(nnonzeros, sizeof(int))",
          "__CPROVER_is_fresh(indices, g_get_size * sizeof(long)) && __CPROVER_is_fresh(coefsnum, g_get_size * sizeof(long)) && __CPROVER_is_fresh(coefsdenom, g_get_size * sizeof(long))"],
     assigns=["*nnonzeros", "__CPROVER_object_whole(indices)", "__CPROVER_object_whole(coefsnum)", "__CPROVER_object_whole(coefsdenom)"],
     ens=["*nnonzeros == g_get_size",
          "g_k < g_get_size ==> (indices[g_k] == g_get_kidx && coefsnum[g_k] == g_get_knum && coefsdenom[g_k] == g_get_kden)"],
     loop={"function": "SoPlex_getRowVectorRational", "loop": 0, "locals": ["j", "nnonzeros", "indices", "coefsnum", "coefsdenom"],
           "invariants": ["*nnonzeros == g_get_size", "0 <= j && j <= g_get_size",
                          "g_k < j ==> (indices[g_k] == g_get_kidx && coefsnum[g_k] == g_get_knum && coefsdenom[g_k] == g_get_kden)"],
           "assigns": ["j", "__CPROVER_object_whole(indices)", "__CPROVER_object_whole(coefsnum)", "__CPROVER_object_whole(coefsdenom)"],
           "decreases": "g_get_size - j"},
     mutants=[mut("numerator_into_denominator", "coefsdenom[j] = (long int) denominator(row.value(j));", "coefsdenom[j] = (long int) numerator(row.value(j));")])

# ------------------------------------------------------------------------------------------------
# G. string result: the returned buffer holds the text of objValueRational().str() including its terminator
STR_WF = "0 <= g_str_len && g_str_len <= CIF_STR && g_str_val[g_str_len] == 0 && " + " && ".join(
    "(g_str_len <= %d || g_str_val[%d] != 0)" % (j, j) for j in range(6))
spec("SoPlex_objValueRationalString", [Call("objValueRational")], floor=150, tier="quick", unwind=8,
     note="EXPECTED TO FAIL on the unchanged tree: stringlength is computed from the still EMPTY objstring (strlen(\"\") + 1 == 1) "
          "before objstring is assigned, so a 1-byte buffer holding the first character without terminator is returned",
     req=[STR_WF, "0 <= g_k && g_k <= g_str_len"],
     assigns=["g_str_num", "g_str_den"],
     ens=["g_str_num == g_ret_num[0] && g_str_den == g_ret_den[0]",
          "__CPROVER_return_value[g_k] == g_str_val[g_k]"],
     mutants=[mut("terminator_not_counted", "stringlength = strlen(objstring.c_str()) + 1;\n   value = new", "stringlength = strlen(objstring.c_str());\n   value = new"), mut("length_before_assignment", "objstring = so->objValueRational().str();\n   stringlength = strlen(objstring.c_str()) + 1;", "stringlength = strlen(objstring.c_str()) + 1;\n   objstring = so->objValueRational().str();")])

# not covered (see props/C20.json): SoPlex_getPrimalRationalString, SoPlex_objValueRationalString
NOT_COVERED = ["SoPlex_getPrimalRationalString"]
missing = set(DECL) - {s["name"] for s in SPECS} - set(NOT_COVERED)
assert not missing, missing

# The runner insists on an entry for every loop of the translation unit.  Each instance carries the loop
# contract of ITS function; the loops of the other functions of the file are unreachable from its harness and
# are listed under "unwind_loops" without an "unwind" bound (census only: nothing is unwound).
LOOP_FUNCS = sorted(set(re.findall(r"^\w[\w \*]*?\b(SoPlex_\w+)\([^)]*\)\s*\{(?:(?!\n\}).)*?\bfor\(", cpp, re.M | re.S)))

# ------------------------------------------------------------------------------------------------
# conformance of the stubs with the real headers


def ws(s):
    """literal text -> regex tolerant to white space changes"""
    out = []
    for tok in re.findall(r"\w+|\s+|[^\w\s]", s):
        if tok.isspace():
            continue
        out.append(re.escape(tok))
    r = ""
    for a, b in zip(out, out[1:] + [""]):
        r += a
        if re.match(r"\w", a[-1]) and b and re.match(r"\w", b[0]):
            r += r"\s+"
        else:
            r += r"\s*"
    return r


SOPLEX_DECLS = """
bool readFile(const char* filename, NameSet* rowNames = nullptr, NameSet* colNames = nullptr, DIdxSet* intVars = nullptr);
bool writeFile(const char* filename, const NameSet* rowNames = nullptr, const NameSet* colNames = nullptr, const DIdxSet* intvars = nullptr, const bool unscale = true, const bool writeZeroObjective = false) const;
bool readBasisFile(const char* filename, const NameSet* rowNames = nullptr, const NameSet* colNames = nullptr);
bool loadSettingsFile(const char* filename);
void clearLPReal();
int numRows() const;
int numCols() const;
int numIterations() const;
Real solveTime() const;
R objValueReal();
Rational objValueRational();
bool setBoolParam(const BoolParam param, const bool value, const bool init = true);
bool setIntParam(const IntParam param, const int value, const bool init = true);
bool setRealParam(const RealParam param, const Real value, const bool init = true);
int intParam(const IntParam param) const;
typename SPxSolverBase<R>::Status optimize(volatile bool* interrupt = nullptr);
typename SPxSolverBase<R>::Status status() const;
typename SPxSolverBase<R>::VarStatus basisRowStatus(int row) const;
typename SPxSolverBase<R>::VarStatus basisColStatus(int col) const;
void addColReal(const LPColBase<R>& lpcol);
void addColRational(const LPColRational& lpcol);
void addRowReal(const LPRowBase<R>& lprow);
void addRowRational(const LPRowRational& lprow);
void removeColReal(int i);
void removeRowReal(int i);
bool getPrimalReal(R* p_vector, int size);
bool getDualReal(R* p_vector, int dim);
bool getRedCostReal(R* vector, int dim);
bool getPrimalRational(VectorRational& vector);
void changeObjReal(const VectorBase<R>& obj);
void changeObjRational(const VectorRational& obj);
void changeLhsReal(const VectorBase<R>& lhs);
void changeLhsReal(int i, const R& lhs);
void changeLhsRational(const VectorRational& lhs);
void changeRhsReal(const VectorBase<R>& rhs);
void changeRhsReal(int i, const R& rhs);
void changeRhsRational(const VectorRational& rhs);
void changeRangeReal(const VectorBase<R>& lhs, const VectorBase<R>& rhs);
void changeRangeReal(int i, const R& lhs, const R& rhs);
void changeLowerReal(const VectorBase<R>& lower);
void changeLowerReal(int i, const R& lower);
void changeUpperReal(const VectorBase<R>& upper);
void changeUpperReal(int i, const R& upper);
void changeBoundsReal(const VectorBase<R>& lower, const VectorBase<R>& upper);
void changeBoundsReal(int i, const R& lower, const R& upper);
void changeBoundsRational(int i, const Rational& lower, const Rational& upper);
void getLowerReal(VectorBase<R>& lower) const;
void getUpperReal(VectorBase<R>& upper) const;
void getObjReal(VectorBase<R>& obj) const;
void getRowVectorReal(int i, DSVectorBase<R>& row) const;
void getRowRational(int i, LPRowRational& lprow) const;
R lhsReal(int i) const;
R rhsReal(int i) const;
const Rational& lhsRational(int i) const;
const Rational& rhsRational(int i) const;
typedef SoPlexBase<Real> SoPlex;
SoPlexBase();
virtual ~SoPlexBase();
"""
CONF = []
for line in SOPLEX_DECLS.strip().splitlines():
    CONF.append({"file": "src/soplex.h", "regex": ws(line), "why": "stub SoPlex member replicates: " + line.strip()})
OTHER = [
    ("src/soplex/lpcolbase.h", "LPColBase(const R& p_obj, const SVectorBase<R>& p_vector, const R& p_upper, const R& p_lower) : up(p_upper), low(p_lower), object(p_obj), vec(p_vector)",
     "LPCol constructor parameter order (objective, vector, UPPER, LOWER) and which member each initialises"),
    ("src/soplex/lprowbase.h", "LPRowBase(const R& p_lhs, const SVectorBase<R>& p_rowVector, const R& p_rhs, const R& p_obj = 0) : left(p_lhs), right(p_rhs), object(p_obj), vec(p_rowVector)",
     "LPRow constructor parameter order (lhs, vector, rhs) and which member each initialises"),
    ("src/soplex/lprowbase.h", "explicit LPRowBase(int defDim = 0)", "LPRow default constructor"),
    ("src/soplex/lprowbase.h", "const SVectorBase<R>& rowVector() const", "LPRow::rowVector hands out a reference to the stored vector"),
    ("src/soplex/vectorbase.h", "VectorBase(int dimen, R* p_val) { val.assign(p_val, p_val + dimen); }", "VectorBase(dim, ptr) copies exactly ptr[0..dim)"),
    ("src/soplex/vectorbase.h", "explicit VectorBase(int p_dimen)", "VectorBase(dim)"),
    ("src/soplex/vectorbase.h", "R& operator[](int n)", "VectorBase element access"),
    ("src/soplex/dsvectorbase.h", "explicit DSVectorBase(int n = 8)", "DSVector(capacity hint)"),
    ("src/soplex/dsvectorbase.h", "void add(int i, const R& v) { makeMem(1); SVectorBase<R>::add(i, v); }", "DSVector::add(index, value) appends one nonzero"),
    ("src/soplex/dsvectorbase.h", "class DSVectorBase : public SVectorBase<R>", "DSVector is-a SVector"),
    ("src/soplex/svectorbase.h", "explicit SVectorBase(int n = 0, Nonzero<R>* p_mem = nullptr) { setMem(n, p_mem); }", "default SVectorBase owns no memory"),
    ("src/soplex/svectorbase.h", "SVectorBase<R>& operator=(const SVectorBase<R>& sv) { if(this != &sv) { assert(max() >= sv.size());",
     "SVectorBase assignment needs room in the destination (assert only) - the stub makes it an obligation"),
    ("src/soplex/svectorbase.h", "int size() const", "SVectorBase::size"),
    ("src/soplex/svectorbase.h", "R& value(int n)", "SVectorBase::value"),
    ("src/soplex/svectorbase.h", "int& index(int n)", "SVectorBase::index"),
    ("src/soplex/dsvector.h", "typedef DSVectorBase< Real > DSVector;", "typedef"),
    ("src/soplex/dsvector.h", "typedef DSVectorBase< Rational > DSVectorRational;", "typedef"),
    ("src/soplex/svector.h", "typedef SVectorBase< Rational > SVectorRational;", "typedef"),
    ("src/soplex/vector.h", "typedef VectorBase< Real > Vector;", "typedef"),
    ("src/soplex/vector.h", "typedef VectorBase< Rational > VectorRational;", "typedef"),
    ("src/soplex/lpcol.h", "typedef LPColBase< Real > LPCol;", "typedef"),
    ("src/soplex/lpcol.h", "typedef LPColBase< Rational > LPColRational;", "typedef"),
    ("src/soplex/lprow.h", "typedef LPRowBase< Real > LPRow;", "typedef"),
    ("src/soplex/lprow.h", "typedef LPRowBase< Rational > LPRowRational;", "typedef"),
    ("src/soplex/spxdefines.h", "typedef double Real;", "Real is double in the default configuration"),
    ("src/soplex_interface.h", "0 -> column is set to its upper bound * 1 -> column is set to its lower bound * 2 -> column is fixed to its identical bounds * 3 -> column is free and fixed to zero * 4 -> column is basic * 5 -> nothing known about basis status",
     "the status codes documented for the C caller ..."),
    ("src/soplex/rational.h", "using Rational = number<gmp_rational, et_off>;", "Rational is boost's gmp_rational number: Rational(long, long) is num/den"),
]
for f, text, why in OTHER:
    CONF.append({"file": f, "regex": ws(text), "why": why})
CONF.append({"file": "src/soplex/spxsolver.h",
             "regex": r"enum VarStatus\s*\{\s*ON_UPPER,[^,{}]*ON_LOWER,[^,{}]*FIXED,[^,{}]*ZERO,[^,{}]*BASIC,[^,{}]*UNDEFINED\b[^,{}]*\}",
             "why": "... are the VarStatus enumerators in this order (ON_UPPER=0 .. UNDEFINED=5), no explicit values"})
for c in CONF:
    txt = open(os.path.join(REPO, c["file"]), errors="replace").read()
    assert re.search(c["regex"], txt, re.S), ("conformance regex does not match today", c["file"], c["why"])

# ------------------------------------------------------------------------------------------------
# unit.json
file_slice = {"as": INC, "file": SRC, "region_start": r"\A", "region_end": r"\Z"}
assert set(LOOP_FUNCS) == {s["name"] for s in SPECS if s["loop"]} | {"SoPlex_getPrimalRationalString"}, LOOP_FUNCS

unit = {
    "property": ["C20"],
    "desc": "C interface: src/soplex_interface.cpp compiled WHOLE and UNMODIFIED against recording stubs of soplex.h; "
            "one contract per extern \"C\" function on its real signature (generated by gen.py - do not edit by hand)",
    "scope_bounded": False,   # unwind_loops entries are for the loop census / constant-bounded library loops only
    "rmode": "double (IEEE, bit-precise; values are only copied and compared with 0) / Rational = (num, den) pair of longs",
    "cpp": ["unit.cpp"],
    "c": ["contract.c"],
    "harness": "h_main",
    "defines": {"CAP": "16"},
    "defines_thorough": {"CAP": "64"},
    "defines_small": {"CAP": "3"},
    "flags": ["--bounds-check", "--pointer-check"],
    "timeout_s": 300,
    "slices": [file_slice],
    "extracts": [
        {"as": "soplex_interface.h", "file": "src/soplex_interface.h", "regex": r"\A.*\Z"},
        {"as": "SoPlex_ParamEnums.inc", "file": "src/soplex.h", "regex": r"/// boolean parameters\s*typedef enum.*?\}\s*RealParam;"},
        {"as": "SPxSolver_VarStatus.inc", "file": "src/soplex/spxsolver.h", "regex": r"enum VarStatus\s*\{.*?\};"},
        {"as": "SPxSolver_Status.inc", "file": "src/soplex/spxsolver.h", "regex": r"enum Status\s*\{.*?\};"},
    ],
    "conformance": CONF,
    "replay": {"cpp": "replay.cpp", "extra_src": [SRC], "asan": True,
               "libs": [os.path.join(REPO, "_build/lib/libsoplex.a"), "-lgmp", "-lmpfr", "-lz"]},
    "trusted": [
        "soplex.h / <iostream> are replaced by the recording stubs in units/cinterface: every SoPlexBase<Real> member the interface calls only records (call id, object, arguments) and returns a ghost value; what the C++ members DO is not covered",
        "stub signatures (parameter order, defaults, result types), LPCol/LPRow constructor parameter->member mapping, VectorBase(int, R*) copying ptr[0..dim), typedefs: conformance-checked by regex against the real headers on every run",
        "SoPlex is a plain class here (real: typedef SoPlexBase<Real> SoPlex, conformance-checked); SPxSolverBase<R>::Status / VarStatus and the parameter enumerations are cut verbatim from spxsolver.h / soplex.h on every run",
        "Rational is modelled as the (long, long) pair it was constructed from; boost's number<gmp_rational>(long, long) == num/den and numerator()/denominator() are trusted; the (long int) cast of a boost Integer that does not fit is not modelled",
        "lhsRational(i)/rhsRational(i) return by value in the stub (real: const Rational&)",
        "vectors are summarised at one ghost index g_k (proof holds for every g_k): VectorBase keeps dimension, source pointer and element g_k; DSVectorBase::add keeps count, first/last index, strict monotonicity and the add at index g_k; SVectorBase keeps size, capacity and the nonzero at position g_k",
        "stub accessors turn the real classes' assert()s into obligations: VectorBase::operator[] / SVectorBase::index,value range, SVectorBase::operator= capacity",
        "rows handed out by getRowVectorReal/getRowRational: g_get_size nonzeros (0..CAP), no explicit zero among them (SVectorBase::operator= would drop those)",
        "operator new[] is CBMC's __new_array hook defined in contract.c as a plain allocation that never fails (real: throws std::bad_alloc)",
        "configuration: SOPLEX_WITH_BOOST defined, Real = double",
        "array lengths capped at CAP elements (inductive loop proofs; the cap bounds object size only)",
        "whole-file compilation: the loops of the functions other than the one under contract are unreachable from the harness; they appear under unwind_loops only for the runner's loop census (no unwinding takes place, every reachable loop has a loop contract)",
        "SoPlex_create / SoPlex_free: operator new / delete are CBMC's __new / __delete hooks (plain allocation / free, defined in contract.c); the front end emits the constructor call of `new SoPlex()` but NOT the destructor call of `delete so`, so SoPlex_free is only checked to deallocate the handle",
        "std::string is modelled as the NUL-terminated text it points to (default \"\"; copy/assign share the text); Rational::str() returns a ghost text of at most CIF_STR=6 characters; strlen/strncpy are CBMC's library versions, unwound completely (instance objValueRationalString only)",
        "the handle passed by the C caller is never dereferenced by the stubs, so no validity of `soplex` is assumed",
    ],
    "instances": [],
}
for s in SPECS:
    short = s["name"][len("SoPlex_"):]
    ret, ps = DECL[s["name"]]
    inst = {
        "name": short,
        "function": "%s %s(%s)" % (ret, s["name"], ", ".join("%s %s" % p for p in ps)),
        "defines": {"INST_" + short: ""},
        "enforce": s["name"],
        "tier": s["tier"],
        "min_obligations": s["floor"],
        "mutants": s["mutants"],
    }
    # the signature regex pins the definition in the sliced file (drift => exit 2)
    inst["slices"] = [file_slice, {"as": "sig_" + short + ".inc", "file": SRC, "sig": sig_regex(s["name"])}]
    inst["loops"] = [s["loop"]] if s["loop"] else []
    inst["unwind_loops"] = [{"function": f, "loop": 0} for f in LOOP_FUNCS if f != s["name"]]
    if s["note"]:
        inst["note"] = s["note"]
    if s["unwind"]:
        inst["unwind"] = s["unwind"]   # library strlen/strncpy loops over the CIF_STR-bounded ghost text
    unit["instances"].append(inst)
json.dump(unit, open(os.path.join(HERE, "unit.json"), "w"), indent=1)

# ------------------------------------------------------------------------------------------------
# contract.c
C = []
C.append("""/* GENERATED by gen.py - do not edit.  C20: one contract per function of the C interface, attached to
 * the REAL declaration from soplex_interface.h (the header copy below is cut from /repo on every run).
 * Ghost ledger: see cif_ghost.h.  Universal statements use the ghost index g_k havoc'd by the harness. */
#include "verif_c.h"
#include <stdlib.h>
#include "cif_ghost.h"
#include "soplex_interface.h"
/* BoolParam / IntParam / RealParam and the parameter value enumerators, verbatim from soplex.h */
#include "SoPlex_ParamEnums.inc"
#ifndef CAP
#define CAP 16
#endif

int g_ncalls; int g_cid[CIF_NC]; const void* g_this[CIF_NC];
long g_ai[CIF_NC][CIF_NI]; double g_ad[CIF_NC][CIF_ND]; const void* g_ap[CIF_NC][CIF_NP];
int g_ret_i[CIF_NC]; double g_ret_d[CIF_NC]; long g_ret_num[CIF_NC]; long g_ret_den[CIF_NC];
int g_k;
int g_dsv_ctor, g_dsv_cap, g_dsv_n, g_dsv_first, g_dsv_last, g_dsv_sorted, g_dsv_hits; double g_dsv_kval; long g_dsv_knum, g_dsv_kden;
int g_get_size, g_get_kidx; double g_get_kval; long g_get_knum, g_get_kden;
int g_misuse;
char g_str_empty[1]; char g_str_val[CIF_STR + 1]; int g_str_len; long g_str_num, g_str_den;

static void havoc_ghosts(void)
{
   __CPROVER_havoc_object(g_cid); __CPROVER_havoc_object(g_this); __CPROVER_havoc_object(g_ai);
   __CPROVER_havoc_object(g_ad); __CPROVER_havoc_object(g_ap);
   __CPROVER_havoc_object(g_ret_i); __CPROVER_havoc_object(g_ret_d); __CPROVER_havoc_object(g_ret_num); __CPROVER_havoc_object(g_ret_den);
   g_k = nondet_int(); g_ncalls = 0; g_misuse = 0; g_dsv_ctor = 0;
   g_dsv_cap = nondet_int(); g_dsv_n = nondet_int(); g_dsv_first = nondet_int(); g_dsv_last = nondet_int();
   g_dsv_sorted = nondet_int(); g_dsv_hits = nondet_int();
   g_dsv_kval = nondet_double(); g_dsv_knum = nondet_ll(); g_dsv_kden = nondet_ll();
   __CPROVER_havoc_object(g_str_val); g_str_len = nondet_int(); g_str_num = nondet_ll(); g_str_den = nondet_ll();
   g_get_size = nondet_int(); g_get_kidx = nondet_int(); g_get_kval = nondet_double(); g_get_knum = nondet_ll(); g_get_kden = nondet_ll();
}

/* operator new / new[] / delete: CBMC's C++ front end lowers `new T`, `new T[n]`, `delete p` to these hooks
 * (constructor / destructor calls are emitted by the front end); plain allocation that never fails */
void* __new(__CPROVER_size_t size)
{
   return __CPROVER_allocate(size, 0);
}
void* __new_array(__CPROVER_size_t count, __CPROVER_size_t size)
{
   return __CPROVER_allocate(count * size, 0);
}
void __delete(void* ptr)
{
   free(ptr);
}

/* same double, bit pattern up to the sign of zero; NaN equals NaN */
#define SAME_D(a, b) ((a) == (b) || ((a) != (a) && (b) != (b)))
#define LEDGER g_ncalls, g_misuse, __CPROVER_object_whole(g_cid), __CPROVER_object_whole(g_this), \\
   __CPROVER_object_whole(g_ai), __CPROVER_object_whole(g_ad), __CPROVER_object_whole(g_ap)
#define DSV g_dsv_ctor, g_dsv_cap, g_dsv_n, g_dsv_first, g_dsv_last, g_dsv_sorted, g_dsv_hits, g_dsv_kval, g_dsv_knum, g_dsv_kden
#define START (g_ncalls == 0 && g_misuse == 0 && g_dsv_ctor == 0)
/* summary of the sparse vector inside the LPCol/LPRow handed to call 0 (CifVecSummary::record, starting at
 * integer slot b): DSVector objects constructed, add() calls, first / last index added, "every add had a
 * strictly larger index than the one before", adds with index g_k; the value added at g_k follows */
#define VEC_CTOR(b) g_ai[0][(b) + 0]
#define VEC_N(b) g_ai[0][(b) + 1]
#define VEC_FIRST(b) g_ai[0][(b) + 2]
#define VEC_LAST(b) g_ai[0][(b) + 3]
#define VEC_SORTED(b) g_ai[0][(b) + 4]
#define VEC_HITS(b) g_ai[0][(b) + 5]
/* ledger entry c is a call of member `id` on the object the C caller passed as handle */
#define CALL(c, id, handle) (g_cid[c] == (id) && g_this[c] == (const void*)(handle))
""")
for s in SPECS:
    short = s["name"][len("SoPlex_"):]
    ret, ps = DECL[s["name"]]
    C.append("#ifdef INST_%s" % short)
    if s["note"]:
        C.append("/* %s */" % s["note"])
    C.append("%s %s(%s)" % (ret, s["name"], ", ".join("%s %s" % p for p in ps)))
    C.append("__CPROVER_requires(START)")
    for r in s["req"]:
        C.append("__CPROVER_requires(%s)" % r)
    asg = ["LEDGER"] + (["DSV"] if s["dsv"] else []) + s["assigns"]
    C.append("__CPROVER_assigns(%s)" % ", ".join(asg))
    if s["frees"]:
        C.append("__CPROVER_frees(%s)" % ", ".join(s["frees"]))
    C.append("__CPROVER_ensures(g_ncalls == %d && g_misuse == 0)" % len(s["calls"]))
    for c, call in enumerate(s["calls"]):
        for e in call.ensures(c, s["handle"]):
            C.append("__CPROVER_ensures(%s)" % e)
    for e in s["ens"]:
        C.append("__CPROVER_ensures(%s)" % e)
    if s["ret"] is not None:
        if isinstance(s["ret"], tuple):
            C.append("__CPROVER_ensures(%s)" % SAME_D("__CPROVER_return_value", s["ret"][1]))
        else:
            C.append("__CPROVER_ensures(__CPROVER_return_value == %s)" % s["ret"])
    C.append(";")
    C.append("void h_main(void)\n{")
    for t, n in ps:
        C.append("   %s %s;" % (t, n))
    C.append("   havoc_ghosts();")
    C.append("   __CPROVER_input(\"g_k\", g_k); __CPROVER_input(\"g_get_size\", g_get_size); __CPROVER_input(\"g_str_len\", g_str_len);")
    C.append("   %s(%s);" % (s["name"], ", ".join(n for _, n in ps)))
    C.append("   CANARY();\n}")
    C.append("#endif\n")
open(os.path.join(HERE, "contract.c"), "w").write("\n".join(C))
print("%d instances, %d mutants, %d loops, %d conformance checks" % (
    len(SPECS), sum(len(s["mutants"]) for s in SPECS), len(LOOP_FUNCS), len(CONF)))
