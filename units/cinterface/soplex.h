/* C20: SHADOW of /repo/src/soplex.h for the proof of src/soplex_interface.cpp.
 *
 * soplex_interface.cpp is compiled whole and unmodified (region slice of the complete file); its
 * `#include "soplex.h"` resolves to this file.  Every class the C interface touches is replaced by a
 * recording stub: a member of SoPlexBase<R> does nothing but write "I was called, on this object, with
 * these arguments" into the C ghost ledger of cif_ghost.h and return a ghost result.  The contracts in
 * contract.c then say, per C function, which ledger the call must leave behind.
 *
 * Signatures (parameter order, defaults, result types) replicate the real declarations and are
 * conformance-checked by regex against the real headers on every run (unit.json "conformance").
 * No virtual functions, no destructors, no heap use, no statics in the stubs. */
#ifndef CIF_STUB_SOPLEX_H
#define CIF_STUB_SOPLEX_H

#include "verif.h"
#include "cif_ghost.h"

/* configuration under proof: SoPlex built with Boost (the rational functions exist); the real macro comes
 * from the generated soplex/config.h */
#define SOPLEX_WITH_BOOST

extern "C" {
size_t strlen(const char* s);
char* strncpy(char* dst, const char* src, size_t n);
}

/* std::string is only used by the two *String functions.  Model: a std::string IS the NUL-terminated text it
 * points to (default: ""); copying / assigning shares the text.  append() is declared only
 * (SoPlex_getPrimalRationalString is not covered). */
namespace std
{
class string
{
public:
   const char* p;
   string()
   {
      p = g_str_empty;
   }
   string(const string& s)
   {
      p = s.p;
   }
   string& operator=(const string& s)
   {
      p = s.p;
      return *this;
   }
   string& append(const string& s);
   string& append(const char* s);
   const char* c_str() const
   {
      return p;
   }
};
}

namespace soplex
{
typedef double Real;
class NameSet;
class DIdxSet;

/* ---------------------------------------------------------------------------------------------
 * Rational: the pair it was constructed from.  Real type: boost number<gmp_rational>, whose
 * (long, long) constructor yields num/den exactly (trusted; conformance: rational.h typedef). */
class Rational
{
public:
   long num;
   long den;
   Rational() {}
   Rational(int v) : num(v), den(1) {}
   Rational(long n, long d) : num(n), den(d) {}
   /* the decimal text of this rational: the ghost text g_str_val; which rational it was asked of is recorded */
   std::string str() const
   {
      std::string r;
      r.p = g_str_val;
      g_str_num = num;
      g_str_den = den;
      return r;
   }
};
/* real: `inline Integer numerator(const Rational& r)`; the interface casts the result to long int */
inline long numerator(const Rational& r)
{
   return r.num;
}
inline long denominator(const Rational& r)
{
   return r.den;
}

/* helpers: store a value of type R into / load it from the ledger */
inline void cif_arg(int c, int& ni, int& nd, const double& v)
{
   g_ad[c][nd++] = v;
}
inline void cif_arg(int c, int& ni, int& nd, const Rational& v)
{
   g_ai[c][ni++] = v.num;
   g_ai[c][ni++] = v.den;
}
inline void cif_dsv_put(const double& v)
{
   g_dsv_kval = v;
}
inline void cif_dsv_put(const Rational& v)
{
   g_dsv_knum = v.num;
   g_dsv_kden = v.den;
}
inline void cif_dsv_get(double& v)
{
   v = g_dsv_kval;
}
inline void cif_dsv_get(Rational& v)
{
   v.num = g_dsv_knum;
   v.den = g_dsv_kden;
}
inline void cif_get_get(double& v)
{
   v = g_get_kval;
}
inline void cif_get_get(Rational& v)
{
   v.num = g_get_knum;
   v.den = g_get_kden;
}
inline int cif_rec(int id, const void* obj)
{
   int c = g_ncalls < CIF_NC ? g_ncalls : CIF_NC - 1;

   if(g_ncalls >= CIF_NC)
      g_misuse = 1;

   g_ncalls++;
   g_cid[c] = id;
   g_this[c] = obj;
   return c;
}

/* ---------------------------------------------------------------------------------------------
 * VectorBase<R>: dimension, where it was copied from, and its element at the ghost index g_k.
 * Real: VectorBase(int dimen, R* p_val) { val.assign(p_val, p_val + dimen); } reads p_val[0..dimen). */
template <class R>
class VectorBase
{
public:
   int dm;
   const void* src;
   int filled;   /* call id of the getter that filled it, 0 if none */
   R kval;
   R junk;

   VectorBase(int dimen, R* p_val)
   {
      dm = dimen;
      src = p_val;
      filled = 0;

      if(0 <= g_k && g_k < dimen)
         kval = p_val[g_k];
   }
   explicit VectorBase(int p_dimen)
   {
      dm = p_dimen;
      src = 0;
      filled = 0;
   }
   int dim() const
   {
      return dm;
   }
   R& operator[](int n)
   {
      __CPROVER_assert(0 <= n && n < dm, "VectorBase::operator[]: index within dimension");

      if(n == g_k)
         return kval;

      return junk;
   }
   const R& operator[](int n) const
   {
      __CPROVER_assert(0 <= n && n < dm, "VectorBase::operator[]: index within dimension");

      if(n == g_k)
         return kval;

      return junk;
   }
};

/* ---------------------------------------------------------------------------------------------
 * SVectorBase<R>: number of nonzeros, capacity, and the nonzero at position g_k.
 * The real class checks index ranges and `max() >= sv.size()` on assignment only under assert();
 * the stub turns them into obligations. */
template <class R>
class SVectorBase
{
public:
   int sz;
   int mx;
   int kidx;
   int junkidx;
   R kval;
   R junk;

   explicit SVectorBase(int n = 0, void* p_mem = 0)
   {
      sz = 0;
      mx = n;
   }
   int size() const
   {
      return sz;
   }
   int max() const
   {
      return mx;
   }
   int& index(int n)
   {
      __CPROVER_assert(0 <= n && n < sz, "SVectorBase::index: position within size");

      if(n == g_k)
         return kidx;

      return junkidx;
   }
   R& value(int n)
   {
      __CPROVER_assert(0 <= n && n < sz, "SVectorBase::value: position within size");

      if(n == g_k)
         return kval;

      return junk;
   }
   int index(int n) const
   {
      __CPROVER_assert(0 <= n && n < sz, "SVectorBase::index: position within size");

      if(n == g_k)
         return kidx;

      return junkidx;
   }
   const R& value(int n) const
   {
      __CPROVER_assert(0 <= n && n < sz, "SVectorBase::value: position within size");

      if(n == g_k)
         return *(R*)&kval;

      return *(R*)&junk;
   }
   /* real: copies sv.size() nonzeros into m_elem, which must have room: assert(max() >= sv.size()) */
   SVectorBase<R>& operator=(const SVectorBase<R>& sv)
   {
      if(this != &sv)
      {
         __CPROVER_assert(mx >= sv.sz, "SVectorBase::operator=: destination has memory for sv.size() nonzeros");
         sz = sv.sz;
         kidx = sv.kidx;
         kval = sv.kval;
      }

      return *this;
   }
};

/* ---------------------------------------------------------------------------------------------
 * DSVectorBase<R>: grows on demand; add(i, v) is summarised in the g_dsv_* ghosts. */
template <class R>
class DSVectorBase : public SVectorBase<R>
{
public:
   explicit DSVectorBase(int n = 8)
   {
      this->sz = 0;
      this->mx = n;
      g_dsv_ctor++;
      g_dsv_cap = n;
      g_dsv_n = 0;
      g_dsv_sorted = 1;
      g_dsv_hits = 0;
   }
   void add(int i, const R& v)
   {
      if(g_dsv_n == 0)
         g_dsv_first = i;
      else if(i <= g_dsv_last)
         g_dsv_sorted = 0;

      g_dsv_last = i;

      if(i == g_k)
      {
         g_dsv_hits++;
         cif_dsv_put(v);
      }

      g_dsv_n++;   /* (size() of a vector under construction is not maintained: the interface never asks) */
   }
};

/* summary of the sparse vector an LPCol / LPRow was constructed from */
template <class R>
struct CifVecSummary
{
   int ctor, n, first, last, sorted, hits;
   R kval;
   void snapshot()
   {
      ctor = g_dsv_ctor;
      n = g_dsv_n;
      first = g_dsv_first;
      last = g_dsv_last;
      sorted = g_dsv_sorted;
      hits = g_dsv_hits;
      cif_dsv_get(kval);
   }
   void record(int c, int& ni, int& nd) const
   {
      g_ai[c][ni++] = ctor;
      g_ai[c][ni++] = n;
      g_ai[c][ni++] = first;
      g_ai[c][ni++] = last;
      g_ai[c][ni++] = sorted;
      g_ai[c][ni++] = hits;
      cif_arg(c, ni, nd, kval);
   }
};

/* ---------------------------------------------------------------------------------------------
 * LPColBase<R>(obj, vector, upper, lower) / LPRowBase<R>(lhs, rowVector, rhs, obj = 0):
 * parameter order conformance-checked against lpcolbase.h / lprowbase.h. */
template <class R>
class LPColBase
{
public:
   R up;
   R low;
   R object;
   CifVecSummary<R> vec;

   LPColBase(const R& p_obj, const SVectorBase<R>& p_vector, const R& p_upper, const R& p_lower)
      : up(p_upper), low(p_lower), object(p_obj)
   {
      vec.snapshot();
   }
};

template <class R>
class LPRowBase
{
public:
   R left;
   R right;
   R object;
   CifVecSummary<R> vec;
   SVectorBase<R> rvec;   /* what rowVector() hands out; filled by SoPlexBase::getRowRational */

   explicit LPRowBase(int defDim = 0)
   {
   }
   LPRowBase(const R& p_lhs, const SVectorBase<R>& p_rowVector, const R& p_rhs, const R& p_obj = 0)
      : left(p_lhs), right(p_rhs), object(p_obj)
   {
      vec.snapshot();
   }
   const SVectorBase<R>& rowVector() const
   {
      return *(SVectorBase<R>*)&rvec;
   }
};

typedef VectorBase<Real> Vector;
typedef VectorBase<Rational> VectorRational;
typedef SVectorBase<Rational> SVectorRational;
typedef DSVectorBase<Real> DSVector;
typedef DSVectorBase<Rational> DSVectorRational;
typedef LPColBase<Real> LPCol;
typedef LPColBase<Rational> LPColRational;
typedef LPRowBase<Real> LPRow;
typedef LPRowBase<Rational> LPRowRational;

/* ---------------------------------------------------------------------------------------------
 * SPxSolverBase<Real> (non-template here: CBMC's front end does not resolve `typedef-name::enumerator`
 * through a template instantiation): only the two enumerations the interface hands through, cut verbatim from
 * spxsolver.h on every run. */
class SPxSolverReal
{
public:
#include "SPxSolver_VarStatus.inc"
#include "SPxSolver_Status.inc"
};

/* ---------------------------------------------------------------------------------------------
 * SoPlex = SoPlexBase<Real> (real: `typedef SoPlexBase<Real> SoPlex;`, conformance-checked; a plain class
 * here because the interface writes `SoPlex::READMODE`, which CBMC's front end cannot resolve through a
 * typedef of a template instantiation): every member the C interface calls, as a recorder.  No data members: the handle the
 * C caller passes is never dereferenced. */
class SoPlex
{
public:
   typedef Real R;
   /* BoolParam, IntParam, the anonymous value enumerations and RealParam, cut verbatim from soplex.h */
#include "SoPlex_ParamEnums.inc"

   /* real: `SoPlexBase();` and `virtual ~SoPlexBase();` - recorded like every other member (the stub destructor
    * is NOT virtual: CBMC's front end recurses on virtual destructors) */
   SoPlex()
   {
      cif_rec(CID_ctor, this);
   }
   ~SoPlex()
   {
      cif_rec(CID_dtor, this);
   }

   bool readFile(const char* filename, NameSet* rowNames = 0, NameSet* colNames = 0, DIdxSet* intVars = 0)
   {
      int c = cif_rec(CID_readFile, this);
      g_ap[c][0] = filename;
      g_ap[c][1] = rowNames;
      g_ap[c][2] = colNames;
      g_ap[c][3] = intVars;
      return g_ret_i[c] != 0;
   }
   bool readBasisFile(const char* filename, const NameSet* rowNames = 0, const NameSet* colNames = 0)
   {
      int c = cif_rec(CID_readBasisFile, this);
      g_ap[c][0] = filename;
      g_ap[c][1] = rowNames;
      g_ap[c][2] = colNames;
      return g_ret_i[c] != 0;
   }
   bool loadSettingsFile(const char* filename)
   {
      int c = cif_rec(CID_loadSettingsFile, this);
      g_ap[c][0] = filename;
      return g_ret_i[c] != 0;
   }
   bool writeFile(const char* filename, const NameSet* rowNames = 0, const NameSet* colNames = 0,
                  const DIdxSet* intvars = 0, const bool unscale = true, const bool writeZeroObjective = false) const
   {
      int c = cif_rec(CID_writeFile, this);
      g_ap[c][0] = filename;
      g_ap[c][1] = rowNames;
      g_ap[c][2] = colNames;
      g_ap[c][3] = intvars;
      g_ai[c][0] = unscale;
      g_ai[c][1] = writeZeroObjective;
      return g_ret_i[c] != 0;
   }
   void clearLPReal()
   {
      cif_rec(CID_clearLPReal, this);
   }
   int numRows() const
   {
      int c = cif_rec(CID_numRows, this);
      return g_ret_i[c];
   }
   int numCols() const
   {
      int c = cif_rec(CID_numCols, this);
      return g_ret_i[c];
   }
   int numIterations() const
   {
      int c = cif_rec(CID_numIterations, this);
      return g_ret_i[c];
   }
   Real solveTime() const
   {
      int c = cif_rec(CID_solveTime, this);
      return g_ret_d[c];
   }
   R objValueReal()
   {
      int c = cif_rec(CID_objValueReal, this);
      return g_ret_d[c];
   }
   Rational objValueRational()
   {
      int c = cif_rec(CID_objValueRational, this);
      return Rational(g_ret_num[c], g_ret_den[c]);
   }

   /* parameters */
   bool setBoolParam(const BoolParam param, const bool value, const bool init = true)
   {
      int c = cif_rec(CID_setBoolParam, this);
      g_ai[c][0] = param;
      g_ai[c][1] = value;
      g_ai[c][2] = init;
      return g_ret_i[c] != 0;
   }
   bool setIntParam(const IntParam param, const int value, const bool init = true)
   {
      int c = cif_rec(CID_setIntParam, this);
      g_ai[c][0] = param;
      g_ai[c][1] = value;
      g_ai[c][2] = init;
      return g_ret_i[c] != 0;
   }
   bool setRealParam(const RealParam param, const Real value, const bool init = true)
   {
      int c = cif_rec(CID_setRealParam, this);
      g_ai[c][0] = param;
      g_ad[c][0] = value;
      g_ai[c][1] = init;
      return g_ret_i[c] != 0;
   }
   int intParam(const IntParam param) const
   {
      int c = cif_rec(CID_intParam, this);
      g_ai[c][0] = param;
      return g_ret_i[c];
   }

   /* solving and status */
   SPxSolverReal::Status optimize(volatile bool* interrupt = 0)
   {
      int c = cif_rec(CID_optimize, this);
      g_ap[c][0] = (const void*)interrupt;
      return (SPxSolverReal::Status)g_ret_i[c];
   }
   SPxSolverReal::Status status() const
   {
      int c = cif_rec(CID_status, this);
      return (SPxSolverReal::Status)g_ret_i[c];
   }
   SPxSolverReal::VarStatus basisRowStatus(int row) const
   {
      int c = cif_rec(CID_basisRowStatus, this);
      g_ai[c][0] = row;
      return (SPxSolverReal::VarStatus)g_ret_i[c];
   }
   SPxSolverReal::VarStatus basisColStatus(int col) const
   {
      int c = cif_rec(CID_basisColStatus, this);
      g_ai[c][0] = col;
      return (SPxSolverReal::VarStatus)g_ret_i[c];
   }

   /* adding and removing */
   void addColReal(const LPColBase<R>& lpcol)
   {
      int c = cif_rec(CID_addColReal, this);
      int ni = 0, nd = 0;
      cif_arg(c, ni, nd, lpcol.object);
      cif_arg(c, ni, nd, lpcol.up);
      cif_arg(c, ni, nd, lpcol.low);
      lpcol.vec.record(c, ni, nd);
   }
   void addColRational(const LPColRational& lpcol)
   {
      int c = cif_rec(CID_addColRational, this);
      int ni = 0, nd = 0;
      cif_arg(c, ni, nd, lpcol.object);
      cif_arg(c, ni, nd, lpcol.up);
      cif_arg(c, ni, nd, lpcol.low);
      lpcol.vec.record(c, ni, nd);
   }
   void addRowReal(const LPRowBase<R>& lprow)
   {
      int c = cif_rec(CID_addRowReal, this);
      int ni = 0, nd = 0;
      cif_arg(c, ni, nd, lprow.left);
      cif_arg(c, ni, nd, lprow.right);
      lprow.vec.record(c, ni, nd);
   }
   void addRowRational(const LPRowRational& lprow)
   {
      int c = cif_rec(CID_addRowRational, this);
      int ni = 0, nd = 0;
      cif_arg(c, ni, nd, lprow.left);
      cif_arg(c, ni, nd, lprow.right);
      lprow.vec.record(c, ni, nd);
   }
   void removeColReal(int i)
   {
      int c = cif_rec(CID_removeColReal, this);
      g_ai[c][0] = i;
   }
   void removeRowReal(int i)
   {
      int c = cif_rec(CID_removeRowReal, this);
      g_ai[c][0] = i;
   }

   /* pointer + length getters (pass-through) */
   bool getPrimalReal(R* p_vector, int size)
   {
      int c = cif_rec(CID_getPrimalReal, this);
      g_ap[c][0] = p_vector;
      g_ai[c][0] = size;
      return g_ret_i[c] != 0;
   }
   bool getDualReal(R* p_vector, int dim)
   {
      int c = cif_rec(CID_getDualReal, this);
      g_ap[c][0] = p_vector;
      g_ai[c][0] = dim;
      return g_ret_i[c] != 0;
   }
   bool getRedCostReal(R* vector, int dim)
   {
      int c = cif_rec(CID_getRedCostReal, this);
      g_ap[c][0] = vector;
      g_ai[c][0] = dim;
      return g_ret_i[c] != 0;
   }
   bool getPrimalRational(VectorRational& vector)
   {
      int c = cif_rec(CID_getPrimalRational, this);
      g_ai[c][0] = vector.dm;
      vector.filled = CID_getPrimalRational;
      cif_get_get(vector.kval);
      return g_ret_i[c] != 0;
   }

   /* dense vector modifiers: dimension, source array and element g_k of the vector handed over */
#define CIF_VEC1(name, T, p)                                   \
   void name(const VectorBase<T>& p)                           \
   {                                                           \
      int c = cif_rec(CID_##name##_vec, this);                 \
      int ni = 0, nd = 0;                                      \
      g_ai[c][ni++] = p.dm;                                    \
      g_ap[c][0] = p.src;                                      \
      cif_arg(c, ni, nd, p.kval);                              \
   }
#define CIF_VEC2(name, T, p, q)                                \
   void name(const VectorBase<T>& p, const VectorBase<T>& q)   \
   {                                                           \
      int c = cif_rec(CID_##name##_vec, this);                 \
      int ni = 0, nd = 0;                                      \
      g_ai[c][ni++] = p.dm;                                    \
      g_ai[c][ni++] = q.dm;                                    \
      g_ap[c][0] = p.src;                                      \
      g_ap[c][1] = q.src;                                      \
      cif_arg(c, ni, nd, p.kval);                              \
      cif_arg(c, ni, nd, q.kval);                              \
   }
#define CIF_IDX1(name, T, p)                                   \
   void name(int i, const T& p)                                \
   {                                                           \
      int c = cif_rec(CID_##name##_i, this);                   \
      int ni = 0, nd = 0;                                      \
      g_ai[c][ni++] = i;                                       \
      cif_arg(c, ni, nd, p);                                   \
   }
#define CIF_IDX2(name, T, p, q)                                \
   void name(int i, const T& p, const T& q)                    \
   {                                                           \
      int c = cif_rec(CID_##name##_i, this);                   \
      int ni = 0, nd = 0;                                      \
      g_ai[c][ni++] = i;                                       \
      cif_arg(c, ni, nd, p);                                   \
      cif_arg(c, ni, nd, q);                                   \
   }
   CIF_VEC1(changeObjReal, R, obj)
   CIF_VEC1(changeObjRational, Rational, obj)
   CIF_VEC1(changeLhsReal, R, lhs)
   CIF_IDX1(changeLhsReal, R, lhs)
   CIF_VEC1(changeLhsRational, Rational, lhs)
   CIF_VEC1(changeRhsReal, R, rhs)
   CIF_IDX1(changeRhsReal, R, rhs)
   CIF_VEC1(changeRhsRational, Rational, rhs)
   CIF_VEC2(changeRangeReal, R, lhs, rhs)
   CIF_IDX2(changeRangeReal, R, lhs, rhs)
   CIF_VEC1(changeLowerReal, R, lower)
   CIF_IDX1(changeLowerReal, R, lower)
   CIF_VEC1(changeUpperReal, R, upper)
   CIF_IDX1(changeUpperReal, R, upper)
   CIF_VEC2(changeBoundsReal, R, lower, upper)
   CIF_IDX2(changeBoundsReal, R, lower, upper)
   CIF_IDX2(changeBoundsRational, Rational, lower, upper)

   /* dense vector getters: fill the caller's VectorBase with "the getter's result" (element g_k = g_get_kval) */
#define CIF_GETVEC(name, p)                                    \
   void name(VectorBase<R>& p) const                           \
   {                                                           \
      int c = cif_rec(CID_##name, this);                       \
      g_ai[c][0] = p.dm;                                       \
      p.filled = CID_##name;                                   \
      cif_get_get(p.kval);                                     \
   }
   CIF_GETVEC(getLowerReal, lower)
   CIF_GETVEC(getUpperReal, upper)
   CIF_GETVEC(getObjReal, obj)

   /* the solver-internal (possibly scaled) vectors: exist in the real class, hand out values that are NOT the
    * getter's result (g_ret_d of the call slot), so a C function that reads them instead of calling the getter
    * is decided by its contract rather than rejected by the front end */
#define CIF_INTERNALVEC(name)                                  \
   const VectorBase<R>& name() const                           \
   {                                                           \
      static VectorBase<R> iv(0);                              \
      int c = cif_rec(CID_internalVector, this);               \
      iv.dm = g_ret_i[c];                                      \
      iv.kval = g_ret_d[c];                                    \
      return iv;                                               \
   }
   CIF_INTERNALVEC(lowerRealInternal)
   CIF_INTERNALVEC(upperRealInternal)
   CIF_INTERNALVEC(lhsRealInternal)
   CIF_INTERNALVEC(rhsRealInternal)
   CIF_INTERNALVEC(maxObjRealInternal)

   /* row getters */
   void getRowVectorReal(int i, DSVectorBase<R>& row) const
   {
      int c = cif_rec(CID_getRowVectorReal, this);
      g_ai[c][0] = i;
      row.sz = g_get_size;
      row.kidx = g_get_kidx;
      cif_get_get(row.kval);
   }
   void getRowRational(int i, LPRowRational& lprow) const
   {
      int c = cif_rec(CID_getRowRational, this);
      g_ai[c][0] = i;
      lprow.rvec.sz = g_get_size;
      lprow.rvec.mx = g_get_size;
      lprow.rvec.kidx = g_get_kidx;
      cif_get_get(lprow.rvec.kval);
   }
   R lhsReal(int i) const
   {
      int c = cif_rec(CID_lhsReal_i, this);
      g_ai[c][0] = i;
      return g_ret_d[c];
   }
   R rhsReal(int i) const
   {
      int c = cif_rec(CID_rhsReal_i, this);
      g_ai[c][0] = i;
      return g_ret_d[c];
   }
   /* real: `const Rational& lhsRational(int i) const`; the stub returns by value (no object to refer to) */
   Rational lhsRational(int i) const
   {
      int c = cif_rec(CID_lhsRational_i, this);
      g_ai[c][0] = i;
      return Rational(g_ret_num[c], g_ret_den[c]);
   }
   Rational rhsRational(int i) const
   {
      int c = cif_rec(CID_rhsRational_i, this);
      g_ai[c][0] = i;
      return Rational(g_ret_num[c], g_ret_den[c]);
   }
};

} // namespace soplex
#endif
