/* Native replay for the C-interface unit (C20): runs the REAL soplex_interface.cpp (compiled from the current
 * tree, linked against the built SoPlex library) on the situation of a counterexample.
 * NOTE: real headers are included with <> so that this directory's recording stubs are never picked up. */
#include <replay_util.h>
#include <soplex.h>
#include <soplex_interface.h>
#include <csignal>
#include <cstring>
#include <unistd.h>

static void on_abort(int)
{
   const char msg[] = "REPLAY: real code violates: assertion failed / abort inside the C interface call\n";
   ssize_t r = write(1, msg, sizeof(msg) - 1);
   (void)r;
   _exit(1);
}

/* min x0 s.t. one row  sum_j (j+1)/(j+2) x_j >= 1,  x0 in [v, v+1]: optimal value v, exactly */
static void* build(int nrowentries, long vnum, long vden)
{
   void* s = SoPlex_create();
   SoPlex_setRational(s);
   SoPlex_setIntParam(s, soplex::SoPlex::OBJSENSE, soplex::SoPlex::OBJSENSE_MINIMIZE);
   SoPlex_setIntParam(s, soplex::SoPlex::VERBOSITY, 0);
   /* (the presolver copies an uninitialised VarStatus in FixVariablePS::execute, which UBSan flags; not our subject) */
   SoPlex_setIntParam(s, soplex::SoPlex::SIMPLIFIER, soplex::SoPlex::SIMPLIFIER_OFF);
   long none = 0, one = 1;

   for(int j = 0; j < nrowentries; j++)
      SoPlex_addColRational(s, &none, &one, 0, 0, j == 0 ? 1 : 0, 1, vnum, vden, vnum + vden, vden);

   std::vector<long> nums(nrowentries), dens(nrowentries);

   for(int j = 0; j < nrowentries; j++)
   {
      nums[j] = j + 1;
      dens[j] = j + 2;
   }

   SoPlex_addRowRational(s, nums.data(), dens.data(), nrowentries, nrowentries, 0, 1, 1000000000L, 1);
   return s;
}

int main(int argc, char** argv)
{
   if(argc < 3) return 2;
   ReplayIn in(argv[1]);
   std::string inst = argv[2];
   signal(SIGABRT, on_abort);

   if(inst == "getRowVectorRational")
   {
      int n = (int)in.geti("g_get_size", 1);
      if(n < 1) n = 1;
      if(n > 64) n = 64;
      void* s = build(n, 1, 1);
      std::vector<long> idx(n, -1), cn(n, 0), cd(n, 0);
      int nnz = -1;
      std::cout << "SoPlex_getRowVectorRational on a row with " << n << " nonzeros" << std::endl;
      SoPlex_getRowVectorRational(s, 0, &nnz, idx.data(), cn.data(), cd.data());
      if(nnz != n) REPLAY_FAIL("nnonzeros " << nnz << " != " << n);
      for(int j = 0; j < n; j++)
         if(idx[j] != j || cn[j] != j + 1 || cd[j] != j + 2) REPLAY_FAIL("entry " << j << ": index " << idx[j] << " value " << cn[j] << "/" << cd[j]);
      SoPlex_free(s);
   }
   else if(inst == "objValueRationalString")
   {
      int len = (int)in.geti("g_str_len", 3);
      if(len < 2) len = 2;
      if(len > 9) len = 9;
      long v = 1;
      for(int j = 1; j < len; j++) v = v * 10 + (j % 10);   /* an integer with `len` digits */
      void* s = build(1, v, 1);
      SoPlex_optimize(s);
      std::string expect = ((soplex::SoPlex*)s)->objValueRational().str();
      std::cout << "SoPlex_objValueRationalString, C++ value \"" << expect << "\"" << std::endl;
      char* got = SoPlex_objValueRationalString(s);
      /* ASan reports the read past the 1-byte buffer; without ASan compare what is there */
      if(std::strlen(got) != expect.size() || expect != got) REPLAY_FAIL("returned \"" << got << "\" expected \"" << expect << "\"");
      delete[] got;
      SoPlex_free(s);
   }
   else
   {
      std::cout << "no native replay for instance " << inst << std::endl;
      return 0;
   }
   REPLAY_OK();
}
