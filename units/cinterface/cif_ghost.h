/* C20: ghost state shared by the stub soplex.h (C++) and contract.c (C).
 * Every stubbed C++ entry point RECORDS that it was called, on which object, with which arguments.
 * All of it lives in C globals so that contracts and loop invariants can name it. */
#ifndef CIF_GHOST_H
#define CIF_GHOST_H
#ifdef __cplusplus
extern "C" {
#endif

#define CIF_NC 8   /* call records kept (SoPlex_setRational makes 6 calls, no function makes more) */
#define CIF_NI 14  /* integer-like arguments per call (ints, bools, enum codes, num/den longs, vector summaries) */
#define CIF_ND 4   /* floating-point arguments per call */
#define CIF_NP 4   /* pointer arguments per call */

/* call ids: one per stubbed SoPlexBase member (overloads get their own id) */
enum cif_call
{
   CID_none = 0, CID_ctor, CID_dtor,
   CID_readFile, CID_readBasisFile, CID_loadSettingsFile, CID_clearLPReal, CID_numRows, CID_numCols,
   CID_setBoolParam, CID_setIntParam, CID_setRealParam, CID_intParam,
   CID_addColReal, CID_removeColReal, CID_addColRational, CID_addRowReal, CID_removeRowReal, CID_addRowRational,
   CID_getPrimalReal, CID_getPrimalRational, CID_getDualReal, CID_getRedCostReal,
   CID_optimize, CID_status, CID_solveTime, CID_numIterations,
   CID_changeObjReal_vec, CID_changeObjRational_vec,
   CID_changeLhsReal_vec, CID_changeLhsReal_i, CID_changeLhsRational_vec,
   CID_changeRhsReal_vec, CID_changeRhsReal_i, CID_changeRhsRational_vec,
   CID_changeRangeReal_vec, CID_changeRangeReal_i,
   CID_writeFile, CID_objValueReal, CID_objValueRational,
   CID_changeBoundsReal_vec, CID_changeBoundsReal_i, CID_changeBoundsRational_i,
   CID_changeLowerReal_vec, CID_changeLowerReal_i, CID_getLowerReal, CID_getObjReal,
   CID_changeUpperReal_vec, CID_changeUpperReal_i, CID_getUpperReal,
   CID_basisRowStatus, CID_basisColStatus, CID_getRowVectorReal, CID_getRowRational,
   CID_lhsReal_i, CID_rhsReal_i, CID_lhsRational_i, CID_rhsRational_i,
   CID_internalVector   /* lowerRealInternal() & co.: solver-internal data, never the documented result */
};

/* --- the call ledger ---------------------------------------------------------------------- */
extern int         g_ncalls;                 /* number of SoPlexBase member calls made so far        */
extern int         g_cid[CIF_NC];            /* which member                                         */
extern const void* g_this[CIF_NC];           /* on which object                                      */
extern long        g_ai[CIF_NC][CIF_NI];     /* integer-like arguments in parameter order            */
extern double      g_ad[CIF_NC][CIF_ND];     /* floating-point arguments in parameter order          */
extern const void* g_ap[CIF_NC][CIF_NP];     /* pointer arguments in parameter order                 */

/* --- what the stubbed C++ members return (havoc'd by the harness, one per call slot) ------- */
extern int    g_ret_i[CIF_NC];               /* int / bool / enumerator results                      */
extern double g_ret_d[CIF_NC];               /* Real results                                         */
extern long   g_ret_num[CIF_NC];             /* Rational results                                     */
extern long   g_ret_den[CIF_NC];

/* --- ghost index: "for all k" ------------------------------------------------------------- */
extern int g_k;

/* --- the dynamic sparse vector being filled (one DSVectorBase object per C function) ------- */
extern int    g_dsv_ctor;    /* DSVectorBase objects constructed                                     */
extern int    g_dsv_cap;     /* constructor argument of the last one                                 */
extern int    g_dsv_n;       /* add(i, v) calls so far                                               */
extern int    g_dsv_first;   /* index of the first add                                               */
extern int    g_dsv_last;    /* index of the latest add                                              */
extern int    g_dsv_sorted;  /* 1 while every add had a strictly larger index than the one before    */
extern int    g_dsv_hits;    /* adds with index == g_k                                               */
extern double g_dsv_kval;    /* value of the latest add with index == g_k (Real vector)              */
extern long   g_dsv_knum;    /* ... numerator / denominator (Rational vector)                        */
extern long   g_dsv_kden;

/* --- what the vector-valued C++ getters deliver (havoc'd by the harness) ------------------- */
extern int    g_get_size;    /* number of nonzeros of the row the getter hands out                   */
extern int    g_get_kidx;    /* index(g_k) of that row                                               */
extern double g_get_kval;    /* value(g_k) of that row / element g_k of a dense result vector        */
extern long   g_get_knum;    /* ... as Rational                                                      */
extern long   g_get_kden;

/* --- std::string as far as SoPlex_objValueRationalString needs it ---------------------------- */
#define CIF_STR 6                        /* longest text Rational::str() hands out in the model       */
extern char g_str_empty[1];              /* the text of a default-constructed std::string: ""         */
extern char g_str_val[CIF_STR + 1];      /* the text Rational::str() returns (havoc'd, NUL-terminated) */
extern int  g_str_len;                   /* its length                                                */
extern long g_str_num, g_str_den;        /* the Rational str() was called on                          */

/* --- stub-side assertions that fired are obligations; this flag only records API misuse ----- */
extern int g_misuse;

#ifdef __cplusplus
}
#endif
#endif
