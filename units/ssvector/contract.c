/* Contracts for SSVectorBase<R> (C19, second sentence).  State: val[0..dim) (dense values), idx[0..num) (index list),
 * setup flag, zero tolerance eps (a ring element).  Dense view = val[g].
 *   INV_W ("is setup", as documented in ssvectorbase.h: "it is only guaranteed that at least every non-zero is in the
 *          IdxSet"): listed indices are in [0, dim) and pairwise different, and every g with val[g] != 0 is listed;
 *   INV_S = INV_W and every listed entry is non-zero (what setup() establishes: the list is EXACTLY the nonzeros, each once).
 * Invariants are stated for ALL cells (expansion over the capped dimension), values at a havoc'd ghost index g_k.
 * TRUNC(v) = v if v != 0 and |v| > eps, else 0;  |.| = spxAbs is uninterpreted (shared with the code). */
#include "verif_c.h"
#ifndef CAP
#define CAP 6
#endif
#include "rep.h"
#include "constants.h"
int g_adj, g_k, g_p, v_g, g_in, g_q, v_iq, g_n0, g_s0, g_bsize, v_exp, v_idxa; long long v_cellb; int g_r;
#include "sparse_alg_c.h"
#define MK __CPROVER_uninterpreted_embed(SOPLEX_VECTOR_MARKER)
#define BIG(v) (ABS(v) > eps)
#define TRUNC(v) (((v) != 0 && BIG(v)) ? (v) : 0)
#define TRUNC2(v) (BIG(v) ? (v) : 0)

#define P_IDXRANGE(k) (!((k) < *num) || (0 <= idx[k] && idx[k] < dim))
#define PAIR_I(i, j)  (!((i) < (j) && (j) < *num) || idx[i] != idx[j])
#define ROW_I(i)      REP_ALLB(PAIR_I, i)
#define P_SUPER(k)    (!((k) < dim) || val[k] == 0 || IIN(idx, *num, k))
#define P_EXACT(k)    (!((k) < *num) || val[idx[k]] != 0)
/* one contract clause per cell (see sparse_alg_c.h); PRE_W / PRE_S: condition (pre-state) under which INV_W / the exactness
 * part of INV_S is REQUIRED, POST_W / POST_S: condition under which it is ENSURED */
#define RQ_RANGE(k) (!(PRE_W) || P_IDXRANGE(k))
#define RQ_ROW(k)   (!(PRE_W) || ROW_I(k))
#define RQ_SUPER(k) (!(PRE_W) || P_SUPER(k))
#define RQ_EXACT(k) (!(PRE_S) || P_EXACT(k))
#define EN_RANGE(k) (!(POST_W) || P_IDXRANGE(k))
#define EN_ROW(k)   (!(POST_W) || ROW_I(k))
#define EN_SUPER(k) (!(POST_W) || P_SUPER(k))
#define EN_EXACT(k) (!(POST_S) || P_EXACT(k))
#define REQUIRES_INV REQ_EACH(RQ_RANGE) REQ_EACH(RQ_ROW) REQ_EACH(RQ_SUPER) REQ_EACH(RQ_EXACT)
#define ENSURES_INV  ENS_EACH(EN_RANGE) ENS_EACH(EN_ROW) ENS_EACH(EN_SUPER) ENS_EACH(EN_EXACT)
/* the sparse operand b: indices in [0, dim), pairwise different; g_k occurs exactly at position g_p (or nowhere: -1) */
#define P_BIDX(k)   (!((k) < *bused) || (0 <= IDX(b, k) && IDX(b, k) < dim))
#define P_BOCC(k)   (!((k) < *bused) || ((IDX(b, k) == g_k) == ((k) == g_p)))
#define PAIR_B(i, j) (!((i) < (j) && (j) < *bused) || IDX(b, i) != IDX(b, j))
#define ROW_B(i) REP_ALLB(PAIR_B, i)
#define REQUIRES_B_OK REQ_EACH(P_BIDX) REQ_EACH(ROW_B) __CPROVER_requires(-1 <= g_p && g_p < *bused) REQ_EACH(P_BOCC)
#define P_ZERO_OUTSIDE_B(k) (!((k) < dim) || val[k] == 0 || SIN(b, *bused, k))
#define BG1(k, dummy) ((((k) < g_bsize) && BIG(VAL(b, k))) ? 1 : 0)
#define B_NBIG CELLS(+, BG1, 0)
#define ABS_AXIOM (ABS(0) == 0 && eps >= 0)   /* |0| = 0 <= eps: an entry with |x| > eps is not 0 */

void w_ss(int* val, int dim, int* idx, int len, int* num, int* setup, int eps, int op, int a, int xv, long long* b, int bmax, int* bused)
__CPROVER_requires(1 <= dim && dim <= len && len <= CAP && __CPROVER_is_fresh(val, CAP * sizeof(int)) && __CPROVER_is_fresh(idx, CAP * sizeof(int)))
__CPROVER_requires(__CPROVER_is_fresh(num, sizeof(int)) && 0 <= *num && *num <= len && __CPROVER_is_fresh(setup, sizeof(int)) && (*setup == 0 || *setup == 1))
__CPROVER_requires(__CPROVER_is_fresh(bused, sizeof(int)) && SVWF(b, bmax, *bused))
__CPROVER_requires(g_n0 == *num && g_s0 == *setup && g_bsize == *bused)
__CPROVER_requires(0 <= g_k && g_k < dim && v_g == val[g_k] && g_in == (IIN(idx, *num, g_k) ? 1 : 0))
__CPROVER_requires((!(0 <= g_q && g_q < *num) || v_iq == idx[g_q]) && (!(0 <= g_r && g_r < *bused) || v_cellb == b[g_r]))
#if OP == 0
/* setup(): not setup -> tiny entries are zeroed, the index list becomes exactly the nonzero positions, each once (INV_S);
 * already setup -> nothing changes */
#define PRE_W (*setup)
#define PRE_S 0
#define POST_VAL (g_s0 ? v_g : TRUNC(v_g))
#define POST_SETUP 1
#define POST_W 1
#define POST_S (!g_s0)
#define POST_MORE 1
#elif OP == 1
/* unSetup(): only the flag changes */
#define PRE_W 0
#define PRE_S 0
#define POST_VAL v_g
#define POST_SETUP 0
#define POST_W 0
#define POST_S 0
#define POST_MORE (*num == g_n0 && (!(0 <= g_q && g_q < g_n0) || idx[g_q] == v_iq))
#elif OP == 2
/* clear(): the zero vector, setup, empty index list */
#define PRE_W (*setup)
#define PRE_S 0
#define POST_VAL 0
#define POST_SETUP 1
#define POST_W 1
#define POST_S 1
#define POST_MORE (*num == 0)
#elif OP == 3
/* setValue(i, x): val[i] = x; a setup vector stays setup (INV_W) */
__CPROVER_requires(0 <= a && a < dim)
#define PRE_W (*setup)
#define PRE_S 0
#ifdef NOT_TINY
/* restricted twin: x is 0, or |x| > eps, or i is already listed (see unit.json: the unrestricted instance FAILS) */
#define EXTRA_REQ (ABS_AXIOM && (!*setup || xv == 0 || BIG(xv) || IIN(idx, *num, a)))
#else
#define EXTRA_REQ ABS_AXIOM
#endif
#define POST_VAL (g_k == a ? xv : v_g)
#define POST_SETUP g_s0
#define POST_W g_s0
#define POST_S 0
/* a setup vector: x == 0 unlists i (the list stays tight); not setup: the list is untouched */
#define POST_MORE (g_s0 ? (xv != 0 || !IIN(idx, *num, a)) : (*num == g_n0 && (!(0 <= g_q && g_q < g_n0) || idx[g_q] == v_iq)))
#elif OP == 4
/* add(i, x): no nonzero with index i exists (asserted by the real code): i is appended to the list, val[i] = x */
__CPROVER_requires(0 <= a && a < dim && *setup == 1)
#define PRE_W 1
#define PRE_S 0
#define EXTRA_REQ (val[a] == 0 && !IIN(idx, *num, a))
#define POST_VAL (g_k == a ? xv : v_g)
#define POST_SETUP 1
#define POST_W 1
#define POST_S 0
#define POST_MORE (*num == g_n0 + 1 && idx[g_n0] == a && (!(0 <= g_q && g_q < g_n0) || idx[g_q] == v_iq))
#elif OP == 5
/* clearIdx(i): val[i] = 0; in a setup vector i is no longer listed */
__CPROVER_requires(0 <= a && a < dim)
#define PRE_W (*setup)
#define PRE_S 0
#define POST_VAL (g_k == a ? 0 : v_g)
#define POST_SETUP g_s0
#define POST_W g_s0
#define POST_S 0
#define POST_MORE (g_s0 ? !IIN(idx, *num, a) : (*num == g_n0 && (!(0 <= g_q && g_q < g_n0) || idx[g_q] == v_iq)))
#elif OP == 6
/* clearNum(n): the n-th listed entry is set to 0 and leaves the list */
__CPROVER_requires(*setup == 1 && 0 <= a && a < *num && v_idxa == idx[a])
#define PRE_W 1
#define PRE_S 0
#define POST_VAL (g_k == v_idxa ? 0 : v_g)
#define POST_SETUP 1
#define POST_W 1
#define POST_S 0
#define POST_MORE (*num == g_n0 - 1 && !IIN(idx, *num, v_idxa))
#elif OP == 7
/* *this *= x (setup asserted by the real code): every listed entry is multiplied once; the unlisted ones are 0 (INV_W),
 * where the dense product is 0 as well (ring axiom 0 * x = 0) */
__CPROVER_requires(*setup == 1)
#define PRE_W 1
#define PRE_S 0
#define POST_VAL (g_in ? MUL(v_g, xv) : v_g)
#define POST_SETUP 1
#define POST_W 1
#define POST_S 0
#define POST_MORE (*num == g_n0 && (!(0 <= g_q && g_q < g_n0) || idx[g_q] == v_iq))
#elif OP == 8
/* multAdd(x, vec): val[g] + x * vec[g], truncated to 0 when the result is tiny (setup case); a setup vector stays EXACTLY
 * setup (INV_S).  Setup case needs: INV_S before (see unit.json for the weaker INV_W), |MARKER| <= eps (see unit.json).
 * Entries that vec does not store keep their value, EXCEPT that listed tiny ones (|v| <= eps) are zeroed when g_adj. */
#ifdef BCAP
__CPROVER_requires(*bused <= BCAP)   /* small-operand twin for the quick tier */
#endif
REQUIRES_B_OK
#define PRE_W (*setup)
#ifdef WEAK_INV
#define PRE_S 0
#define EXTRA_REQ (!*setup || (ABS_AXIOM && !BIG(MK)))
#elif defined(ANY_EPS)
#define PRE_S (*setup)
#define EXTRA_REQ (!*setup || ABS_AXIOM)
#else
#define PRE_S (*setup)
#define EXTRA_REQ (!*setup || (ABS_AXIOM && !BIG(MK)))
#endif
/* g_adj: some stored entry j of vec hits a non-zero val[j] and the sum is tiny ("adjust" in the code): then the clean-up
 * loop re-examines EVERY listed entry and also zeroes (and unlists) tiny entries that vec does not touch */
#define ADJ1(k, dummy) (((k) < *bused) && val[IDX(b, k)] != 0 && !BIG(ADD(val[IDX(b, k)], MUL(xv, VAL(b, k)))))
__CPROVER_requires(g_adj == ((*setup && CELLS(||, ADJ1, 0)) ? 1 : 0))
__CPROVER_requires(v_exp == (g_p < 0 ? ((g_adj && !BIG(v_g)) ? 0 : v_g) : !*setup ? ADD(v_g, MUL(xv, VAL(b, g_p)))
                    : v_g != 0 ? TRUNC2(ADD(v_g, MUL(xv, VAL(b, g_p)))) : TRUNC2(MUL(xv, VAL(b, g_p)))))
#define POST_VAL v_exp
#define POST_SETUP g_s0
#define POST_W g_s0
#ifdef WEAK_INV
#define POST_S 0
#else
#define POST_S g_s0
#endif
#define POST_MORE 1
#elif OP == 9
/* assign(rhs) ("assigns only the elements of rhs"): on a vector that is 0 outside the support of rhs (e.g. after clear())
 * the result is rhs truncated, setup */
REQUIRES_B_OK
REQ_EACH(P_ZERO_OUTSIDE_B)
#define PRE_W 0
#define PRE_S 0
#define POST_VAL (g_p < 0 ? v_g : TRUNC2(VAL(b, g_p)))
#define POST_SETUP 1
#define POST_W 1
#define POST_S 0
#define POST_MORE (*num == B_NBIG)
#elif OP == 10
/* *this = rhs (sparse): clear() + assign(): the dense view of rhs, truncated; setup */
REQUIRES_B_OK
#define PRE_W (*setup)
#define PRE_S 0
#define POST_VAL (g_p < 0 ? 0 : TRUNC2(VAL(b, g_p)))
#define POST_SETUP 1
#define POST_W 1
#define POST_S 0
#define POST_MORE (*num == B_NBIG)
#elif OP == 11
/* SVectorBase<R>::operator=(const SSVectorBase<S>& sv) (sv setup, max() >= sv.size() asserted): the sparse copy has the
 * dense view of sv */
__CPROVER_requires(*setup == 1 && bmax >= *num)
#define PRE_W 1
#define PRE_S 1
#define POST_VAL v_g
#define POST_SETUP 1
#define POST_W 0
#define POST_S 0
#define POST_MORE (SDENSE(b, *bused, g_k) == v_g && *bused == g_n0 && *num == g_n0)
#endif
REQUIRES_INV
#ifdef EXTRA_REQ
__CPROVER_requires(EXTRA_REQ)
#endif
__CPROVER_assigns(*num, *setup, *bused, __CPROVER_object_whole(val), __CPROVER_object_whole(idx), __CPROVER_object_whole(b))
__CPROVER_ensures(val[g_k] == POST_VAL)
__CPROVER_ensures(*setup == POST_SETUP && 0 <= *num && *num <= len)
__CPROVER_ensures(POST_MORE)
ENSURES_INV
#if OP != 11
__CPROVER_ensures(*bused == g_bsize && (!(0 <= g_r && g_r < g_bsize) || b[g_r] == v_cellb))
#endif
;
void h_ss(void)
{
   int* val; int dim; int* idx; int len; int* num; int* setup; int eps, op, a, xv; long long* b; int bmax; int* bused;
   g_adj = nondet_int(); g_k = nondet_int(); g_p = nondet_int(); v_g = nondet_int(); g_in = nondet_int(); g_q = nondet_int(); v_iq = nondet_int();
   g_n0 = nondet_int(); g_s0 = nondet_int(); g_bsize = nondet_int(); v_exp = nondet_int(); v_idxa = nondet_int();
   v_cellb = nondet_ll(); g_r = nondet_int();
   w_ss(val, dim, idx, len, num, setup, eps, op, a, xv, b, bmax, bused);
   CANARY();
}
