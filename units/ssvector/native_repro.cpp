/* Native confirmation of the defects reported by units ssvector / dsvector (see unit.json notes).
 * g++ -std=c++14 -DNDEBUG -I/repo/src -I/repo/_build native_repro.cpp /repo/_build/lib/libsoplex.a -lgmp -lmpfr -lz -ltbb */
#include <iostream>
#include "soplex.h"
using namespace soplex;
int main1()
{
   // 1. DSVectorBase::add(const SVectorBase&): documented "Append nonzeros of sv"
   DSVector d(4); d.add(0, 1.0);
   DSVector sv(4); sv.add(1, 2.0);
   d.add(sv);
   std::cout << "DSVector::add(sv): size=" << d.size() << " d[0]=" << d[0] << " d[1]=" << d[1] << " (append would give size 2, d[0]=1)\n";
   // 2. SVectorBase::operator=(const SSVectorBase&) / DSVectorBase(const SSVectorBase&) / DSVectorBase::operator=(SSVectorBase)
   std::shared_ptr<Tolerances> tol = std::make_shared<Tolerances>();
   SSVector ss(4, tol); ss.setValue(1, 3.0); ss.setValue(3, 5.0);
   std::cout << "ss setup=" << ss.isSetup() << " size=" << ss.size() << "\n";
   DSVector d2(ss);
   std::cout << "DSVector(ss): size=" << d2.size() << " d2[1]=" << d2[1] << " d2[3]=" << d2[3] << " (expected size 2, 3, 5)\n";
   DSVector d3(8); d3.add(2, 7.0); d3 = ss;
   std::cout << "DSVector = ss: size=" << d3.size() << " d3[1]=" << d3[1] << " d3[3]=" << d3[3] << "\n";
   // 3. SSVectorBase::multAdd with epsilon 0 and exact cancellation
   std::shared_ptr<Tolerances> tol0 = std::make_shared<Tolerances>(); tol0->setEpsilon(0.0);
   SSVector s3(4, tol0); s3.setValue(2, 1.0);
   DSVector m(2); m.add(2, 1.0);
   s3.multAdd(-1.0, m);
   std::cout << "multAdd eps=0: s3[2]=" << s3[2] << " size=" << s3.size() << " (dense arithmetic: 0)\n";
   return 0;
}
int main2()
{
   std::shared_ptr<Tolerances> tol = std::make_shared<Tolerances>();
   // setValue with a tiny value on a setup vector
   SSVector s(4, tol);
   s.setValue(1, 1e-20);
   std::cout << "setValue(1,1e-20): isSetup=" << s.isSetup() << " size=" << s.size() << " s[1]=" << s[1] << "\n";
   s.clear();
   std::cout << "after clear(): size=" << s.size() << " s[1]=" << s[1] << " (zero vector expected)\n";
   // multAdd on a setup vector with a listed zero
   SSVector t(4, tol);
   t.add(2, 0.0);
   DSVector m(2); m.add(2, 1.0);
   t.multAdd(1.0, m);
   std::cout << "listed zero + multAdd: size=" << t.size() << " index(0)=" << t.index(0) << " index(1)=" << (t.size() > 1 ? t.index(1) : -1) << " t[2]=" << t[2] << "\n";
   t *= 2.0;
   std::cout << "after *= 2: t[2]=" << t[2] << " (expected 2)\n";
   return 0;
}
int main() { main1(); main2(); return 0; }
