/* Contract for SSVectorBase<R>::reDim(int newdim) (C19, second sentence: the semi-sparse vector keeps "the same values as
 * dense arithmetic", its index list has no duplicates and lists only existing positions).
 * w_ssrd(val, &dim, &vcap, idx, &len, &num, &setup, eps, newdim) returns the (re-allocated) index array.
 * Precondition (type invariant of the index list, setup or not): listed indices are in [0, dim()) and pairwise different
 * (a list with negative or duplicate entries can have more than capacity + 1 entries left, which setMax() then truncates:
 * its assert(newmax >= size()) documents the same requirement); a setup vector additionally lists every non-zero entry.
 * After reDim(newdim):
 *   - dim() == newdim; every listed index is < newdim (stated for ALL positions k < size());
 *   - an index is listed afterwards iff it was listed before and is < newdim (ghost index g_k): nothing below newdim is
 *     lost, nothing is invented; size() does not grow;
 *   - values at surviving positions are unchanged, new positions (growth) are 0;
 *   - max() == capacity of the value vector + 1 > dim(), the index block has max() ints;
 *   - listed indices are >= 0 and pairwise different; for a setup vector every non-zero entry is still listed (INV_W).
 * Scope: BOUNDED - dim(), newdim, size() <= CAP (6), the loop of reDim (and IdxSet / realloc / vector-growth loops) unwound
 * completely; "for all positions" = one clause per cell of the capped list. */
#include "verif_c.h"
#ifndef CAP
#define CAP 6
#endif
#include "rep.h"
int g_k, v_g, g_in, g_n0, g_s0, g_d0;
#include "sparse_alg_c.h"
#define RET __CPROVER_return_value
/* pre-state invariant of a setup vector (one clause per cell) */
#define RQ_RANGE(k) (!((k) < *num) || (0 <= idx[k] && idx[k] < *dim))
#define PAIR_I(i, j) (!((i) < (j) && (j) < *num) || idx[i] != idx[j])
#define RQ_ROW(i)   (REP_ALLB(PAIR_I, i))
#define RQ_SUPER(k) (!*setup || !((k) < *dim) || val[k] == 0 || IIN(idx, *num, k))
/* post-state */
#define EN_BELOW(k) (!((k) < *num) || RET[k] < newdim)
#define EN_RANGE(k) (!((k) < *num) || 0 <= RET[k])
#define PAIR_R(i, j) (!((i) < (j) && (j) < *num) || RET[i] != RET[j])
#define EN_ROW(i)   (REP_ALLB(PAIR_R, i))
#define EN_SUPER(k) (!g_s0 || !((k) < newdim) || val[k] == 0 || IIN(RET, *num, k))

int* w_ssrd(int* val, int* dim, int* vcap, int* idx, int* len, int* num, int* setup, int eps, int newdim)
__CPROVER_requires(__CPROVER_is_fresh(dim, sizeof(int)) && __CPROVER_is_fresh(vcap, sizeof(int)) && __CPROVER_is_fresh(len, sizeof(int))
   && __CPROVER_is_fresh(num, sizeof(int)) && __CPROVER_is_fresh(setup, sizeof(int)) && (*setup == 0 || *setup == 1))
__CPROVER_requires(0 <= *dim && *dim <= *vcap && *vcap <= CAP && *dim <= *len && 1 <= *len && *len <= CAP && 0 <= *num && *num <= *len)
__CPROVER_requires(__CPROVER_is_fresh(val, CAP * sizeof(int)) && __CPROVER_is_fresh(idx, CAP * sizeof(int)))
__CPROVER_requires(0 <= newdim && newdim <= CAP)
REQ_EACH(RQ_RANGE) REQ_EACH(RQ_ROW) REQ_EACH(RQ_SUPER)
__CPROVER_requires(g_n0 == *num && g_s0 == *setup && g_d0 == *dim)
__CPROVER_requires(0 <= g_k && g_k < CAP && v_g == val[g_k] && g_in == (IIN(idx, *num, g_k) ? 1 : 0))
__CPROVER_assigns(*dim, *vcap, *len, *num, *setup, __CPROVER_object_whole(val), __CPROVER_object_whole(idx))
__CPROVER_frees(idx)
__CPROVER_ensures(*dim == newdim && newdim <= *vcap && *vcap <= CAP && *len == *vcap + 1 && *setup == g_s0)
__CPROVER_ensures(0 <= *num && *num <= g_n0 && *num <= *len && __CPROVER_rw_ok(RET, *len * sizeof(int)))
ENS_EACH(EN_BELOW)
__CPROVER_ensures((IIN(RET, *num, g_k) ? 1 : 0) == ((g_in && g_k < newdim) ? 1 : 0))
__CPROVER_ensures(!(g_k < newdim) || val[g_k] == (g_k < g_d0 ? v_g : 0))
ENS_EACH(EN_RANGE) ENS_EACH(EN_ROW) ENS_EACH(EN_SUPER)
;
void h_ssrd(void)
{
   int* val; int* dim; int* vcap; int* idx; int* len; int* num; int* setup; int eps, newdim;
   g_k = nondet_int(); v_g = nondet_int(); g_in = nondet_int(); g_n0 = nondet_int(); g_s0 = nondet_int(); g_d0 = nondet_int();
   w_ssrd(val, dim, vcap, idx, len, num, setup, eps, newdim);
   CANARY();
}
