/* C19 (second sentence): SSVectorBase<R> (src/soplex/ssvectorbase.h, basevectors.h) - the semi-sparse vector: a dense value
 * array plus an index list that is meaningful while the vector "is setup".  Real bodies of setup, unSetup, clear, setValue,
 * add, clearIdx, clearNum, operator*=, multAdd(x, SVectorBase), assign(SVectorBase), operator=(SVectorBase) and of
 * SVectorBase<R>::operator=(const SSVectorBase&); real IdxSet / VectorBase / SVectorBase member bodies underneath
 * (stubs/sparse_alg.h).  The real class derives from VectorBase<R> AND (protected) IdxSet; here the two bases form one
 * single-inheritance chain IdxSet <- VectorBase<R> <- SSVec (README pitfall 16), which the qualified names in the sliced
 * bodies (`VectorBase<R>::val`, `IdxSet::add`, ..) resolve through unchanged.
 * R = Ring (uninterpreted + - * and spxAbs); the zero tolerance epsilon is a symbolic ring element. */
#define WANT_IDXSET
#define WANT_SV_BULK
#define WANT_VB_SPARSE
#ifdef INST_REDIM
#define WANT_VB_REDIM
#define VEC_BLOCK CAP
#endif
#include "sparse_alg.h"
#include "constants.h"

#ifdef INST_REDIM
/* spx_realloc: the real template minus the SPxMemoryException path; realloc = malloc(new size) + copy of the common prefix +
 * free(old block) (as in units didxset / dsvector); the new block has a constant size >= the request (small SAT encoding) */
extern "C" {
void* malloc(size_t);
void free(void*);
void* verif_realloc(void* p, size_t n)
{
   __CPROVER_assert(n % sizeof(int) == 0 && 0 < n && n <= (CAP + 2) * sizeof(int), "realloc model: whole ints, within the modelled block");
   int* q = (int*)malloc((CAP + 2) * sizeof(int));
   __CPROVER_assume(q != 0);
   size_t old = __CPROVER_OBJECT_SIZE(p);
   size_t m = (old < n ? old : n) / sizeof(int);
   for(size_t i = 0; i < m; ++i)
      q[i] = ((const int*)p)[i];
   free(p);
   return q;
}
}
#define realloc(p, n) verif_realloc((p), (n))
template <class PT> inline void spx_realloc(PT& p, int n)
{
   PT pp;
   if(n == 0) n = 1;
   pp = (PT)(realloc(p, sizeof(*p) * (unsigned int) n));
   __CPROVER_assume(pp != 0);         /* the real one throws SPxMemoryException */
   p = pp;
}
#endif

/* spxdefines.hpp: the real one-line bodies */
inline bool isZero(R a, R eps)
{
#include "isZero.inc"
}
inline bool isNotZero(R a, R eps)
{
#include "isNotZero.inc"
}

/* soplex::Tolerances: only epsilon() is used (real: `Real epsilon()` returning the member s_epsilon) */
struct Tolerances
{
   R s_epsilon;
   R epsilon() const { return s_epsilon; }
};

/* goto-cc synthesises the default constructors of a template chain only if each class is used once, base first (README 17) */
static inline void verif_force_ctors() { IdxSet a; VectorBase<R> b; SVectorBase<R> c; }

struct SSVec : VectorBase<R>
{
   typedef R S;
   typedef R T;
   bool setupStatus;
   Tolerances* _tolerances;          /* real: std::shared_ptr<Tolerances> */

   const Tolerances* tolerances() const { return _tolerances; }   /* real: assert(_tolerances != nullptr); return _tolerances; */
   bool isConsistent() const { return true; }                     /* only called inside assert() */
   bool isSetup() const
   {
#include "SS_isSetup.inc"
   }
   R getEpsilon() const
   {
#include "SS_getEpsilon.inc"
   }
   void unSetup()
   {
#include "SS_unSetup.inc"
   }
   int dim() const
   {
#include "SS_dim.inc"
   }
   void setup()
   {
#include "SS_setup.inc"
   }
   int index(int n) const
   {
#include "SS_index.inc"
   }
   R value(int n) const
   {
#include "SS_value.inc"
   }
   int pos(int i) const
   {
#include "SS_pos.inc"
   }
   int size() const
   {
#include "SS_size.inc"
   }
   void add(int i, R x)
   {
#include "SS_add.inc"
   }
   void clearNum(int n)
   {
#include "SS_clearNum.inc"
   }
   void setValue(int i, R x)
   {
#include "SS_setValue.inc"
   }
   void clearIdx(int i)
   {
#include "SS_clearIdx.inc"
   }
   R operator[](int i) const
   {
#include "SS_at.inc"
   }
   SSVec& operator*=(S x)
   {
#include "SS_scale.inc"
   }
   void clear()
   {
#include "SS_clear.inc"
   }
   SSVec& multAdd(S xx, const SVectorBase<T>& vec)
   {
#include "SS_multAdd.inc"
   }
   SSVec& assign(const SVectorBase<S>& rhs)
   {
#include "SS_assign.inc"
   }
   SSVec& operator=(const SVectorBase<S>& rhs)
   {
#include "SS_setSV.inc"
   }
#ifdef INST_REDIM
   void setMax(int newmax)
   {
#include "SS_setMax.inc"
   }
   void reDim(int newdim)
   {
#include "SS_reDim.inc"
   }
#endif
};

#ifdef INST_SV_FROM_SS
/* SVectorBase<R>::operator=(const SSVectorBase<S>& sv) as a member of a host derived from the SVectorBase stub */
struct SVFromSS : SVectorBase<R>
{
   typedef R S;
   SVFromSS& assignSS(const SSVec& sv)
   {
#include "SV_assignSS.inc"
   }
};
#endif

#ifdef INST_REDIM
/* reDim(newdim): returns the (re-allocated) index array; *dim, *vcap (capacity of the value vector), *len, *num are in/out */
extern "C" int* w_ssrd(int* val, int* dim, int* vcap, int* idx, int* len, int* num, int* setup, int eps, int newdim)
{
   VIN("dim", *dim); VIN("vcap", *vcap); VIN("len", *len); VIN("num", *num); VIN("setup", *setup); VIN("newdim", newdim);
   VIN_ARR8("idx", idx, *num);
   Tolerances tol; tol.s_epsilon.v = eps;
   SSVec s; s.val.p = (R*)val; s.val.n = *dim; s.val.cap = *vcap; s.idx = idx; s.len = *len; s.num = *num; s.freeArray = true;
   s.setupStatus = (*setup != 0); s._tolerances = &tol;
   s.reDim(newdim);
   *dim = s.val.n; *vcap = s.val.cap; *len = s.len; *num = s.num; *setup = s.setupStatus ? 1 : 0;
   return s.idx;
}
#else
/* op 0 setup  1 unSetup  2 clear  3 setValue(a, xv)  4 add(a, xv)  5 clearIdx(a)  6 clearNum(a)  7 *= xv
 *    8 multAdd(xv, b)  9 assign(b)  10 *this = b (sparse)  11 (sparse) out = *this */
extern "C" void w_ss(int* val, int dim, int* idx, int len, int* num, int* setup, int eps, int op, int a, int xv,
                     long long* b, int bmax, int* bused)
{
   VIN("dim", dim); VIN("len", len); VIN("num", *num); VIN("setup", *setup); VIN("eps", eps); VIN("a", a); VIN("xv", xv); VIN("bused", *bused);
   Tolerances tol; tol.s_epsilon.v = eps;
   SSVec s; s.val.p = (R*)val; s.val.n = dim; s.idx = idx; s.len = len; s.num = *num; s.freeArray = false;
   s.setupStatus = (*setup != 0); s._tolerances = &tol;
   R xr; xr.v = xv;
#ifdef INST_SV_FROM_SS
   SVFromSS sb;
#else
   SVectorBase<R> sb;
#endif
   sb.m_elem = (Nonzero<R>*)b; sb.memsize = bmax; sb.memused = *bused;
#if OP == 0
   s.setup();
#elif OP == 1
   s.unSetup();
#elif OP == 2
   s.clear();
#elif OP == 3
   s.setValue(a, xr);
#elif OP == 4
   s.add(a, xr);
#elif OP == 5
   s.clearIdx(a);
#elif OP == 6
   s.clearNum(a);
#elif OP == 7
   s *= xr;
#elif OP == 8
   s.multAdd(xr, sb);
#elif OP == 9
   s.assign(sb);
#elif OP == 10
   s = sb;
#elif OP == 11
   sb.assignSS(s);
#endif
   *num = s.num; *setup = s.setupStatus ? 1 : 0; *bused = sb.memused;
}
#endif
