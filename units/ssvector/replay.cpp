/* Native replay for unit ssvector, instance reDim: runs the REAL soplex::SSVectorBase<double>::reDim on the counterexample
 * (dimension, index list in the given order, newdim) and checks the contract's postconditions. */
#include "replay_util.h"
#include <memory>
#include "soplex/spxdefines.h"
#include "soplex/ssvector.h"

using namespace soplex;

int main(int argc, char** argv)
{
   if(argc < 3) return 2;
   ReplayIn in(argv[1]);
   std::string inst = argv[2];
   if(inst != "reDim")
   {
      std::cout << "no native replay for instance " << inst << std::endl;
      return 0;
   }
   int dim = (int)in.geti("dim", 4), num = (int)in.geti("num", 0), newdim = (int)in.geti("newdim", 0);
   if(dim < 1 || dim > 64 || num < 0 || num > dim || newdim < 0 || newdim > 64) return 2;
   std::vector<int> idx = in.getarr("idx", num, 0);
   std::vector<bool> listed(dim, false);
   for(int k = 0; k < num; k++)
   {
      if(idx[k] < 0 || idx[k] >= dim || listed[idx[k]]) return 2;      /* precondition: in range, pairwise different */
      listed[idx[k]] = true;
   }
   std::shared_ptr<Tolerances> tol = std::make_shared<Tolerances>();
   SSVector s(dim, tol);
   for(int k = 0; k < num; k++)
      s.add(idx[k], 1.0 + idx[k]);                                       /* appends the index: list order as in the trace */
   std::cout << "SSVector of dimension " << dim << ", index list [";
   for(int k = 0; k < num; k++) std::cout << (k ? "," : "") << s.index(k);
   std::cout << "], reDim(" << newdim << ")" << std::endl;
   s.reDim(newdim);
   if(s.dim() != newdim) REPLAY_FAIL("dim() = " << s.dim());
   if(s.size() > num) REPLAY_FAIL("size() grew to " << s.size());
   for(int k = 0; k < s.size(); k++)
      if(s.index(k) >= newdim || s.index(k) < 0)
         REPLAY_FAIL("position " << k << " of the index list holds " << s.index(k) << " >= newdim " << newdim);
   for(int g = 0; g < dim && g < newdim; g++)
   {
      if(listed[g] && s.pos(g) < 0) REPLAY_FAIL("index " << g << " < newdim was listed before and is lost");
      if(listed[g] && s[g] != 1.0 + g) REPLAY_FAIL("value at " << g << " changed");
   }
   REPLAY_OK();
}
