import json, os
F="src/soplex/idlist.h"
def sl(a,sig): return {"as":a,"file":F,"sig":sig}
slices=[sl("IdList_first.inc",r"T\*\s+first\s*\(\s*\)\s*const"), sl("IdList_last.inc",r"T\*\s+last\s*\(\s*\)\s*const"),
 sl("IdList_next.inc",r"T\*\s+next\s*\(\s*const\s+T\*\s*elem\s*\)\s*const"), sl("IdList_prev.inc",r"T\*\s+prev\s*\(\s*const\s+T\*\s*elem\s*\)\s*const"),
 sl("IdList_append.inc",r"void\s+append\s*\(\s*T\*\s*elem\s*\)"), sl("IdList_prepend.inc",r"void\s+prepend\s*\(\s*T\*\s*elem\s*\)"),
 sl("IdList_insert.inc",r"void\s+insert\s*\(\s*T\*\s*elem\s*,\s*T\*\s*after\s*\)"), sl("IdList_remove.inc",r"void\s+remove\s*\(\s*T\*\s*elem\s*\)"),
 sl("IdList_remove_next.inc",r"void\s+remove_next\s*\(\s*T\*\s*after\s*\)")]
u={"property":["C19"],"desc":"IdList<T>: first/last/next/prev, append, prepend, insert, remove, remove_next - real bodies from idlist.h",
 "rmode":"pointers (elements are nodes of an array; links as indices in the C view)",
 "defines":{"CAP":"4"},"defines_thorough":{"CAP":"6"},"defines_small":{"CAP":"2"},
 "flags":["--bounds-check","--pointer-check","--signed-overflow-check"],"timeout_s":300,
 "harness":"h_op","enforce":"w_op","slices":slices,
 "conformance":[
  {"file":"src/soplex/islist.h","regex":r"T\*\s+the_first;[^;]*?\n\s*T\*\s+the_last;","why":"IdListHost replicates the anchors the_first / the_last of the base class IsList<T>"},
  {"file":F,"regex":r"IdElement<T>\*\s+theprev;[^;]*?\n\s*IdElement<T>\*\s+thenext;","why":"Elem replicates the links theprev / thenext of IdElement<T>"},
  {"file":F,"regex":r"IdElement<T>\*&\s+next\(\)\s*\{\s*return thenext;\s*\}.*?IdElement<T>\*&\s+prev\(\)\s*\{\s*return theprev;\s*\}","why":"next() / prev() of IdElement<T> are reference accessors to the links"}],
 "trusted":[
  "IdListHost replicates the_first / the_last (IsList<T> base, conformance-checked); Elem replicates the two links and the reference accessors of IdElement<T> (conformance-checked); all IdList member bodies are the real ones; static_cast<T*>(this->the_first) is the identity (T = Elem)",
  "CAP = 4 (quick) / 6 (thorough) elements; the list invariant is supplied at every element by explicit conjunction (stubs/rep.h); the code is loop-free, the proofs do not depend on CAP",
  "documented preconditions: the element appended / prepended / inserted is not in the list, `after` and the element removed are (assert(find(after))); remove_next(after): after is not the last element",
  "ghost position array pos[] is specification-only; assert() compiled out (NDEBUG semantics)"],
 "instances":[]}
def inst(name, fn, op, mutants): u["instances"].append({"name":name,"function":fn,"defines":{"OP":str(op)},"mutants":mutants,"min_obligations":30})
inst("append","IdList<T>::append(T* elem), then next / prev",0,[{"name":"no_back_link","slice":"IdList_append.inc","find":"elem->prev() = last();","replace":"elem->prev() = first();"},
   {"name":"no_last","slice":"IdList_append.inc","find":"this->the_last = elem;","replace":";"}])
inst("prepend","IdList<T>::prepend(T* elem), then next / prev",1,[{"name":"no_back_link","slice":"IdList_prepend.inc","find":"first()->prev() = elem;","replace":";"}])
inst("insert","IdList<T>::insert(T* elem, T* after), then next / prev",2,[{"name":"no_back_link","slice":"IdList_insert.inc","find":"after->next() = elem->next()->prev() = elem;","replace":"after->next() = elem;"},
   {"name":"wrong_prev","slice":"IdList_insert.inc","find":"elem->prev() = after;","replace":"elem->prev() = after->prev();"}])
inst("remove","IdList<T>::remove(T* elem), then next / prev",3,[{"name":"no_back_link","slice":"IdList_remove.inc","find":"elem->next()->prev() = elem->prev();","replace":";"},
   {"name":"last","slice":"IdList_remove.inc","find":"this->the_last = elem->prev();","replace":"this->the_last = elem;"},
   {"name":"empty","slice":"IdList_remove.inc","find":"this->the_last = nullptr;","replace":";"}])
inst("remove_next","IdList<T>::remove_next(T* after), then next / prev",4,[{"name":"self","slice":"IdList_remove_next.inc","find":"remove(next(after));","replace":"remove(after);"}])
inst("queries","IdList<T>::next(const T*) / prev(const T*) / first() / last()",5,[{"name":"next_end","slice":"IdList_next.inc","find":"(elem == last())","replace":"(elem == first())"},
   {"name":"prev_end","slice":"IdList_prev.inc","find":"(elem == first())","replace":"(elem == last())"}])
EXPECTED_S={'append': 8, 'prepend': 8, 'insert': 9, 'remove': 9, 'remove_next': 10, 'queries': 8}
THOROUGH_ONLY=[]
for _i in u["instances"]:
    if _i["name"] in EXPECTED_S: _i["expected_s"]=EXPECTED_S[_i["name"]]
    if _i["name"] in THOROUGH_ONLY: _i["tier"]="thorough"
json.dump(u, open(os.path.join(os.path.dirname(os.path.abspath(__file__)), "unit.json"), "w"), indent=1)
