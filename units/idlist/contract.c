/* Contracts for IdList<T> (C19: the intrusive doubly linked list under the SVSet memory arena).
 * C view: CAP elements 0..CAP-1; nxt[i] / prv[i] = index of the element the link of i points to (-1 = null; a link that
 * the list does not define - prev of the first, next of the last, links of non-members - may hold anything);
 * *first / *last = index of the first / last element, -1 for the empty list.
 * LIST INVARIANT with the ghost position array pos[] (pos[i] = position of member i, -1 for a non-member), len = number of members:
 *   E     first == -1 <=> last == -1 <=> len == 0
 *   M(i)  non-member i: i is neither first nor last;  member i: 0 <= pos[i] < len;  pos[i] == 0 <=> i == first;  pos[i] == len-1 <=> i == last;
 *         pos[i] < len-1 => nxt[i] is a member at pos[i]+1;   pos[i] > 0 => prv[i] is a member at pos[i]-1
 *   I(i,j) two different members have different positions
 * Every contract requires the invariant at every element (rep.h) and ensures it at the ghost elements g_a, g_b with the
 * post-state position function given explicitly: the operation puts x directly after / before / removes x and keeps the
 * ORDER of all other members.  next(q) / prev(q) (asked after the operation for a ghost member q) return the member at the
 * neighbouring position, null at the ends.  Loop-free code: the proofs hold for any CAP; CAP only sizes the arrays. */
#include "verif_c.h"
#ifndef CAP
#define CAP 6
#endif
#include "rep.h"
int g_a, g_b, g_len;
typedef const int* cip;
static int el(int i) { return 0 <= i && i < CAP; }
/* position function of the post state: P2(i) */
static int p2(cip pos, int op, int x, int px, int len, int i)
{
   int p = pos[i];
   if(op == 0) return i == x ? len : p;                                   /* append */
   if(op == 1) return i == x ? 0 : (p < 0 ? -1 : p + 1);                   /* prepend */
   if(op == 2) return i == x ? px + 1 : (p > px ? p + 1 : p);             /* insert x after the member at position px */
   if(op == 3 || op == 4) return i == x ? -1 : (p > px ? p - 1 : p);     /* remove the member x at position px */
   return p;
}
static int m_at(cip nxt, cip prv, int first, int last, int len, int i, int pi, int pn, int pp)
{
   /* pi = position of i, pn = position of nxt[i] (or -2 if nxt[i] is no element), pp likewise for prv[i] */
   if(pi < 0) return pi == -1 && i != first && i != last;
   if(!(pi < len)) return 0;
   if((pi == 0) != (i == first)) return 0;
   if((pi == len - 1) != (i == last)) return 0;
   if(pi < len - 1 && pn != pi + 1) return 0;
   if(pi > 0 && pp != pi - 1) return 0;
   return 1;
}
#define POS(i)   (el(i) ? pos[i] : -2)
#define M_PRE(i) m_at(nxt, prv, *first, *last, g_len, i, pos[i], POS(nxt[i]), POS(prv[i]))
#define I_PRE(i, j) ((i) == (j) || pos[i] < 0 || pos[i] != pos[j])
#define I_ROW(i) REP_ALLB(I_PRE, i)
#define E_OK(f, l, n) (((f) == -1) == ((n) == 0) && ((l) == -1) == ((n) == 0) && (n) >= 0 && ((f) == -1 || el(f)) && ((l) == -1 || el(l)))
#define LINK_OK(i) (-1 <= nxt[i] && nxt[i] < CAP && -1 <= prv[i] && prv[i] < CAP)
#define INV_ALL (E_OK(*first, *last, g_len) && REP_ALL(LINK_OK) && REP_ALL(M_PRE) && REP_ALL(I_ROW))
/* the element operated on (remove_next: the successor of y) and its position */
#define XX  (op == 4 ? g_x : x)
#define PX  (op == 2 ? pos[y] : (op == 3 || op == 4) ? pos[XX] : -1)
#define LEN2 (op <= 2 ? g_len + 1 : op <= 4 ? g_len - 1 : g_len)
#define P2(i) (el(i) ? p2(pos, op, XX, g_px, g_len, i) : -2)
#define M_POST(i) m_at(nxt, prv, *first, *last, LEN2, i, P2(i), P2(nxt[i]), P2(prv[i]))
int g_x, g_px;
void w_op(int* nxt, int* prv, int* first, int* last, int op, int x, int y, int q, int* out_next, int* out_prev, const int* pos)
__CPROVER_requires(__CPROVER_is_fresh(nxt, CAP * sizeof(int)) && __CPROVER_is_fresh(prv, CAP * sizeof(int)) && __CPROVER_is_fresh(pos, CAP * sizeof(int))
   && __CPROVER_is_fresh(first, sizeof(int)) && __CPROVER_is_fresh(last, sizeof(int)) && __CPROVER_is_fresh(out_next, sizeof(int)) && __CPROVER_is_fresh(out_prev, sizeof(int)))
__CPROVER_requires(0 <= g_len && g_len <= CAP && op == OP && el(x) && el(y) && el(q) && el(g_a) && el(g_b))
__CPROVER_requires(INV_ALL)
/* append / prepend / insert: x is not a member (insert: y is);  remove: x is a member;  remove_next: y is a member that is not the last */
__CPROVER_requires(op > 2 || pos[x] == -1)
__CPROVER_requires(op != 2 || pos[y] >= 0)
__CPROVER_requires(op != 3 || pos[x] >= 0)
__CPROVER_requires(op != 4 || (pos[y] >= 0 && pos[y] < g_len - 1 && g_x == nxt[y]))
__CPROVER_requires(g_px == PX)
__CPROVER_assigns(__CPROVER_object_whole(nxt), __CPROVER_object_whole(prv), *first, *last, *out_next, *out_prev)
__CPROVER_ensures(E_OK(*first, *last, LEN2) && LINK_OK(g_a))
__CPROVER_ensures(M_POST(g_a))
__CPROVER_ensures(g_a == g_b || P2(g_a) < 0 || P2(g_a) != P2(g_b))
/* queries on the post state: for a member q, next(q) is the member at the next position (null for the last), prev(q) likewise */
__CPROVER_ensures(P2(q) < 0 || (P2(q) == LEN2 - 1 ? *out_next == -1 : (el(*out_next) && P2(*out_next) == P2(q) + 1)))
__CPROVER_ensures(P2(q) < 0 || (P2(q) == 0 ? *out_prev == -1 : (el(*out_prev) && P2(*out_prev) == P2(q) - 1)))
;
void h_op(void)
{
   int* nxt; int* prv; int* first; int* last; int op, x, y, q; int* o1; int* o2; const int* pos;
   g_a = nondet_int(); g_b = nondet_int(); g_len = nondet_int(); g_x = nondet_int(); g_px = nondet_int();
   w_op(nxt, prv, first, last, op, x, y, q, o1, o2, pos);
   CANARY();
}
