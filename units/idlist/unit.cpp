/* C19: IdList<T> (src/soplex/idlist.h): first / last / next / prev / append / prepend / insert / remove / remove_next.
 * Real bodies.  The host replicates the two list anchors the_first / the_last of IsList<T> (conformance-checked); T is the
 * element stub Elem with the two links theprev / thenext of IdElement<T> and its reference accessors next() / prev().
 * The wrapper builds CAP elements from index arrays (nxt[i], prv[i]: index of the linked element, -1 = null pointer) and
 * writes the links back as indices (straight-line, rep.h). */
#include "verif.h"
#include "rep.h"

struct Elem
{
   int   payload;
   Elem* theprev;
   Elem* thenext;
   Elem*& next() { return thenext; }
   Elem*  next() const { return thenext; }
   Elem*& prev() { return theprev; }
   Elem*  prev() const { return theprev; }
};
typedef Elem T;

struct IdListHost
{
   T* the_first;
   T* the_last;
   T* first() const
   {
#include "IdList_first.inc"
   }
   T* last() const
   {
#include "IdList_last.inc"
   }
   T* next(const T* elem) const
   {
#include "IdList_next.inc"
   }
   T* prev(const T* elem) const
   {
#include "IdList_prev.inc"
   }
   void append(T* elem)
   {
#include "IdList_append.inc"
   }
   void prepend(T* elem)
   {
#include "IdList_prepend.inc"
   }
   void insert(T* elem, T* after)
   {
#include "IdList_insert.inc"
   }
   void remove(T* elem)
   {
#include "IdList_remove.inc"
   }
   void remove_next(T* after)
   {
#include "IdList_remove_next.inc"
   }
};

#define PTR(i) ((i) >= 0 ? &e[i] : (Elem*)0)
#define IDX(p) ((p) ? (int)((p) - e) : -1)
#define CPIN(i)  e[i].payload = (i); e[i].thenext = PTR(nxt[i]); e[i].theprev = PTR(prv[i])
#define CPOUT(i) nxt[i] = IDX(e[i].thenext); prv[i] = IDX(e[i].theprev)

/* op 0: append(x)  1: prepend(x)  2: insert(x, y)  3: remove(x)  4: remove_next(y)  5: queries only */
extern "C" void w_op(int* nxt, int* prv, int* first, int* last, int op, int x, int y, int q, int* out_next, int* out_prev, const int* pos)
{
   VIN("op", op); VIN("x", x); VIN("y", y); VIN("first", *first); VIN("last", *last);
   Elem e[CAP];
   REP_DO(CPIN)
   IdListHost l; l.the_first = PTR(*first); l.the_last = PTR(*last);
   if(op == 0) l.append(&e[x]);
   else if(op == 1) l.prepend(&e[x]);
   else if(op == 2) l.insert(&e[x], &e[y]);
   else if(op == 3) l.remove(&e[x]);
   else if(op == 4) l.remove_next(&e[y]);
   *out_next = IDX(l.next(&e[q]));
   *out_prev = IDX(l.prev(&e[q]));
   *first = IDX(l.first()); *last = IDX(l.last());
   REP_DO(CPOUT)
}
