/* C04: the basis queries of the user-facing class SoPlexBase<R> (src/soplex.hpp), R = double:
 * basisRowStatus, basisColStatus, getBasis(rows[], cols[]), getBasisInd(bind) - all branches (no basis; basis stored
 * in _basisStatusRows/_basisStatusCols while the real LP is not loaded; real LP loaded in COLUMN / ROW representation).
 * Host = names-and-data replica of SoPlexBase (only the members the bodies touch); `_solver` is the stub solver of
 * stubs/basis_stubs.h whose status accessors are the real bodies. */
#include "verif.h"
extern "C" {
   extern int* gp_cntR; extern int* gp_cntC; extern const void* gp_arrR; extern const void* gp_arrC; extern int g_nr, g_nc, g_cnt_desc;
   extern int* gp_cr; extern int* gp_cc; extern int* gp_bind; extern int* gp_rows; extern int* gp_cols; extern int* gp_orow; extern int* gp_ocol; extern double* gp_low; extern double* gp_up;
   /* SPxSolverBase::getBasis under contract (proved in units/basis_solver, see stubs/basis_getBasis_contract.h) */
   int w_getBasis(int* row, int userow, int* col, int usecol, int* rowstat, int* colstat, int nr, int nc, int rep, int mstatus);
}
static inline void count_hook(const void* base, int n, int v);
#define ARRAY_READ_HOOK(data, n) count_hook((const void*)(data), (n), (int)(data)[n])
#define SOLVER_EXTRA_MEMBERS \
   /* SPxSolverBase::getBasis has loops and four parameters, so it cannot be inlined under loop contracts here: the \
      call is routed to the C symbol w_getBasis, which this unit REPLACES BY ITS CONTRACT */ \
   Status getBasis(VarStatus row[], VarStatus col[], const int rowsSize = -1, const int colsSize = -1) const \
   { \
      return (Status)w_getBasis((int*)row, row != 0, (int*)col, col != 0, (int*)this->thedesc.rowstat.data, \
                                (int*)this->thedesc.colstat.data, this->nRows(), this->nCols(), (int)theRep, (int)m_status); \
   }
#include "basis_stubs.h"
typedef SPxSolverBase<double>::VarStatus VS;

/* Ghost prefix-count witness, exactly as in units/basis_solver: the stored VarStatus arrays count `== BASIC`, the
 * solver's descriptor arrays count `>= 0` (dual status; this is what !isRowBasic()/!isColBasic() test in ROW
 * representation).  g_cnt_desc selects which pair of arrays is under count in the branch at hand. */
static inline void count_hook(const void* base, int n, int v)
{
   int b = (g_cnt_desc ? (v >= 0) : (v == (int)SPxSolverBase<double>::BASIC)) ? 1 : 0;
   /* type invariant of a DataArray<Desc::Status>: the stored value lies in the value range of the enumeration
      (enumerators -6..8, i.e. the 5-bit range [-16,15], C++ [dcl.enum]); the real isBasic() computes stat * rep() */
   if(g_cnt_desc && (base == gp_arrR || base == gp_arrC))
      __CPROVER_assume(-16 <= v && v <= 15);
   if(base == gp_arrR)
      __CPROVER_assume(0 <= gp_cntR[n] && gp_cntR[n] <= n && gp_cntR[n + 1] == gp_cntR[n] + b && gp_cntR[n + 1] <= gp_cntR[g_nr]);
   else if(base == gp_arrC)
      __CPROVER_assume(0 <= gp_cntC[n] && gp_cntC[n] <= n && gp_cntC[n + 1] == gp_cntC[n] + b && gp_cntC[n + 1] <= gp_cntC[g_nc]);
}

template <class T> struct SoPlexBase
{
   typedef T R;
#include "SoPlex_RealParam.inc"
   SPxSolverBase<T> _solver;
   SPxLPBase<T>* _realLP;
   bool _isRealLPLoaded;
   bool _hasBasis;
   DataArray<typename SPxSolverBase<T>::VarStatus> _basisStatusRows;
   DataArray<typename SPxSolverBase<T>::VarStatus> _basisStatusCols;
   Real _inftyParam;       /* stands for _currentSettings->_realParamValues[INFTY] */

   /* stub: the only parameter these bodies read is INFTY */
   Real realParam(const RealParam param) const { __CPROVER_assert(param == INFTY, "only INFTY is read"); return _inftyParam; }
   bool hasBasis() const
   {
#include "SoPlex_hasBasis.inc"
   }
   int numRows() const
   {
#include "SoPlex_numRows.inc"
   }
   int numCols() const
   {
#include "SoPlex_numCols.inc"
   }
   T lowerReal(int i) const
   {
#include "SoPlex_lowerReal.inc"
   }
   T upperReal(int i) const
   {
#include "SoPlex_upperReal.inc"
   }
   typename SPxSolverBase<R>::VarStatus basisRowStatus(int row) const
   {
#include "SoPlex_basisRowStatus.inc"
   }
   typename SPxSolverBase<R>::VarStatus basisColStatus(int col) const
   {
#include "SoPlex_basisColStatus.inc"
   }
};
static inline void soplex_force_ctor() { basis_stub_force_ctors(); SoPlexBase<double> x; }

/* common object construction.  loaded: _realLP IS the solver (SoPlexBase::_ensureRealLPLoaded / _loadRealLP keep
 * `_realLP == &_solver` while _isRealLPLoaded); otherwise a separate LP object of the same dimensions. */
template <class S>
static inline void soplex_stub_init(S& s, SPxLPBase<double>& lp, int hasBasis, int loaded, int rep, int* srows, int* scols,
                                    int* rowstat, int* colstat, int* idinfo, int* idnum,
                                    double* lower, double* upper, int nr, int nc, double inftyParam)
{
   basis_stub_init(s._solver, 0, 0, nr, lower, upper, nc, rowstat, colstat, rep);
   lp.left.val = 0; lp.left.dimen = nr; lp.right.val = 0; lp.right.dimen = nr; lp.low.val = lower; lp.low.dimen = nc; lp.up.val = upper; lp.up.dimen = nc;
   s._realLP = loaded ? (SPxLPBase<double>*)&s._solver : &lp;
   s._isRealLPLoaded = loaded != 0; s._hasBasis = hasBasis != 0;
   s._basisStatusRows.data = (VS*)srows; s._basisStatusRows.thesize = nr;
   s._basisStatusCols.data = (VS*)scols; s._basisStatusCols.thesize = nc;
   s._inftyParam = inftyParam;
   gp_rows = srows; gp_cols = scols; gp_low = lower; gp_up = upper;
}

#if defined(INST_basisRowStatus) || defined(INST_basisColStatus)
extern "C" int w_status(int idx, int hasBasis, int loaded, int rep, int* srows, int* scols, int* rowstat, int* colstat,
                        double* lower, double* upper, int nr, int nc, double inftyParam)
{
   VIN("idx", idx); VIN("hasBasis", hasBasis); VIN("loaded", loaded); VIN("rep", rep); VIN("nr", nr); VIN("nc", nc);
   soplex_force_ctor();
   SoPlexBase<double> s; SPxLPBase<double> lp;
   soplex_stub_init(s, lp, hasBasis, loaded, rep, srows, scols, rowstat, colstat, 0, 0, lower, upper, nr, nc, inftyParam);
   gp_arrR = 0; gp_arrC = 0;
#ifdef INST_basisRowStatus
   return (int)s.basisRowStatus(idx);
#else
   return (int)s.basisColStatus(idx);
#endif
}
#endif

#ifdef INST_getBasis
struct H : SoPlexBase<double>
{
   SPxSolverBase<double>::VarStatus* rows; SPxSolverBase<double>::VarStatus* cols;
   void body() const
   {
#include "SoPlex_getBasis.inc"
   }
};
extern "C" void w_SoPlex_getBasis(int* orow, int* ocol, int hasBasis, int loaded, int rep, int* srows, int* scols, int* rowstat, int* colstat,
                                  double* lower, double* upper, int nr, int nc, double inftyParam)
{
   VIN("hasBasis", hasBasis); VIN("loaded", loaded); VIN("rep", rep); VIN("nr", nr); VIN("nc", nc);
   soplex_force_ctor();
   H s; SPxLPBase<double> lp;
   soplex_stub_init(s, lp, hasBasis, loaded, rep, srows, scols, rowstat, colstat, 0, 0, lower, upper, nr, nc, inftyParam);
   gp_arrR = 0; gp_arrC = 0; gp_orow = orow; gp_ocol = ocol;
   s.rows = (VS*)orow; s.cols = (VS*)ocol;
   s.body();
}
#endif

#ifdef INST_getBasisInd
struct H : SoPlexBase<double>
{
   int* bind;
   void body() const
   {
#include "SoPlex_getBasisInd.inc"
   }
};
extern "C" void w_getBasisInd(int* bind, int hasBasis, int loaded, int rep, int* srows, int* scols, int* rowstat, int* colstat,
                              int* idinfo, int* idnum, int nr, int nc, int* cntR, int* cntC)
{
   VIN("hasBasis", hasBasis); VIN("loaded", loaded); VIN("rep", rep); VIN("nr", nr); VIN("nc", nc);
   VIN_ARR8("srows", srows, nr); VIN_ARR8("scols", scols, nc); VIN_ARR8("rowstat", rowstat, nr); VIN_ARR8("colstat", colstat, nc);
   VIN_ARR8("idinfo", idinfo, nr); VIN_ARR8("idnum", idnum, nr);
#ifdef FIX_BRANCH
   /* one instance per branch: the contract requires exactly these values; assigning them lets CBMC's constant
      propagation discard the other branches (the whole body is still compiled and every loop still has its contract) */
   hasBasis = FIX_HASBASIS; loaded = FIX_LOADED; rep = FIX_REP;
#endif
   soplex_force_ctor();
   H s; SPxLPBase<double> lp;
   soplex_stub_init(s, lp, hasBasis, loaded, rep, srows, scols, rowstat, colstat, idinfo, idnum, 0, 0, nr, nc, 0.0);
   s._solver.theBaseIdInfo = idinfo; s._solver.theBaseIdNum = idnum; s._solver.theBaseIdSize = nr;
   /* which arrays are under count: the stored VarStatus arrays, or (loaded) the solver's descriptor arrays */
   gp_cntR = cntR; gp_cntC = cntC; gp_arrR = loaded ? rowstat : srows; gp_arrC = loaded ? colstat : scols;
   gp_cr = loaded ? rowstat : srows; gp_cc = loaded ? colstat : scols;
   gp_bind = bind;
   s.bind = bind;
   s.body();
}
#endif
