"""Generator of unit.json (run: python3 gen_unit.py).  unit.json is the checked artefact; this script only keeps the
repetitive slice / conformance / loop-invariant tables in one place (shared part: units/basis_conv/gen_common.py)."""
import os, sys
sys.path.insert(0, os.path.join(os.path.dirname(os.path.abspath(__file__)), "..", "basis_conv"))
from gen_common import *
import json
SP = "src/soplex.hpp"
HBC = r"H::body\(\$constthis\)"
SOPLEX_SLICES = [
 S("SoPlex_hasBasis.inc", SP, r"bool\s+SoPlexBase<R>::hasBasis\s*\(\s*\)\s*const", [r"return\s+_hasBasis;"]),
 S("SoPlex_numRows.inc", SP, r"int\s+SoPlexBase<R>::numRows\s*\(\s*\)\s*const", [r"_realLP->nRows\(\)"]),
 S("SoPlex_numCols.inc", SP, r"int\s+SoPlexBase<R>::numCols\s*\(\s*\)\s*const", [r"_realLP->nCols\(\)"]),
 S("SoPlex_lowerReal.inc", SP, r"R\s+SoPlexBase<R>::lowerReal\s*\(\s*int\s+i\s*\)\s*const", [r"_realLP->lowerUnscaled\(i\)"]),
 S("SoPlex_upperReal.inc", SP, r"R\s+SoPlexBase<R>::upperReal\s*\(\s*int\s+i\s*\)\s*const", [r"_realLP->upperUnscaled\(i\)"]),
 S("SoPlex_basisRowStatus.inc", SP, r"SoPlexBase<R>::basisRowStatus\s*\(\s*int\s+row\s*\)\s*const", [r"_solver\.getBasisRowStatus\(row\)", r"_basisStatusRows\[row\]"]),
 S("SoPlex_basisColStatus.inc", SP, r"SoPlexBase<R>::basisColStatus\s*\(\s*int\s+col\s*\)\s*const", [r"_solver\.getBasisColStatus\(col\)", r"_basisStatusCols\[col\]"]),
]
S_getBasis = S("SoPlex_getBasis.inc", SP, r"void\s+SoPlexBase<R>::getBasis\s*\(\s*typename\s+SPxSolverBase<R>::VarStatus\s+rows\[\]\s*,\s*typename\s+SPxSolverBase<R>::VarStatus\s+cols\[\]\s*\)\s*const", [r"_solver\.getBasis\(rows,\s*cols\)"])
S_getBasisInd = S("SoPlex_getBasisInd.inc", SP, r"void\s+SoPlexBase<R>::getBasisInd\s*\(\s*int\*\s*bind\s*\)\s*const", [r"_solver\.rep\(\)\s*==\s*SPxSolverBase<R>::COLUMN", r"!_solver\.isRowBasic\(i\)"])
# ---- loop contracts (loop ordinals and scope hints as CBMC numbers them; a change => exit 2) ----
F = r"H::body\(\$constthis\)"
def L(n, locs, inv, assigns, dec):
    return {"function": F, "loop": n, "locals": locs, "invariants": inv, "assigns": assigns, "decreases": dec}
gb = [
 L(0, [["i", "1::1::1::i"]], ["-1 <= i && i < g_nr", "!(i < g_r && g_nr > 0) || gp_orow[g_r] == k_BASIC"], ["i", "__CPROVER_object_whole(gp_orow)"], "i + 1"),
 L(1, [["i", "1::1::2::i"]], ["-1 <= i && i < g_nc", "!(i < g_c && g_nc > 0) || gp_ocol[g_c] == v_slack_c"], ["i", "__CPROVER_object_whole(gp_ocol)"], "i + 1"),
 L(2, [["i", "1::3::1::i"]], ["-1 <= i && i < g_nr", "!(i < g_r && g_nr > 0) || gp_orow[g_r] == v_srow"], ["i", "__CPROVER_object_whole(gp_orow)"], "i + 1"),
 L(3, [["i", "1::3::2::i"]], ["-1 <= i && i < g_nc", "!(i < g_c && g_nc > 0) || gp_ocol[g_c] == v_scol"], ["i", "__CPROVER_object_whole(gp_ocol)"], "i + 1"),
]
# predicates over the arrays under count (gp_cr rows, gp_cc cols): stored VarStatus arrays count == BASIC, descriptor arrays >= 0
RB = lambda x: "(g_cnt_desc ? gp_cr[%s] >= 0 : gp_cr[%s] == k_BASIC)" % (x, x)
CB = lambda x: "(g_cnt_desc ? gp_cc[%s] >= 0 : gp_cc[%s] == k_BASIC)" % (x, x)
B = "gp_bind[g_p]"
NAMES = "(%s < 0 ? (%s >= -g_nr && %s) : (%s < g_nc && %s))" % (B, B, RB("-1 - " + B), B, CB(B))
CNTFACTS = "0 <= v_rank_r && 0 <= v_rank_c && 0 <= gp_cntR[g_nr] && gp_cntR[g_nr] <= g_nr && 0 <= gp_cntC[g_nc] && gp_cntC[g_nc] <= g_nc && gp_cntR[g_nr] + gp_cntC[g_nc] == g_nr"
def rows_loop(n, i, k):
    return L(n, [["i", i], ["k", k]],
      ["0 <= i && i <= g_nr", CNTFACTS,
       "0 <= gp_cntR[i] && gp_cntR[i] <= gp_cntR[g_nr]",
       "k == gp_cntR[i]",
       "!(g_p < k) || (%s < 0 && %s >= -i && %s)" % (B, B, RB("-1 - " + B)),
       "!(g_nr > 0 && g_r < i && %s) || (v_rank_r < k && gp_bind[v_rank_r] == -1 - g_r)" % RB("g_r")],
      ["i", "k", "__CPROVER_object_whole(gp_bind)"], "g_nr - i")
def cols_loop(n, j, k):
    return L(n, [["j", j], ["k", k]],
      ["0 <= j && j <= g_nc", CNTFACTS,
       "0 <= gp_cntC[j] && gp_cntC[j] <= gp_cntC[g_nc]",
       "k == gp_cntR[g_nr] + gp_cntC[j]",
       "!(g_p < k) || %s" % NAMES,
       "!(g_nr > 0 && %s) || (v_rank_r < k && gp_bind[v_rank_r] == -1 - g_r)" % RB("g_r"),
       "!(g_nc > 0 && g_c < j && %s) || (v_rank_c < k && gp_bind[v_rank_c] == g_c)" % CB("g_c")],
      ["j", "k", "__CPROVER_object_whole(gp_bind)"], "g_nc - j")
gbi = [
 L(0, [["i", "1::1::1::i"]], ["0 <= i && i <= g_nr", "!(g_p < i) || gp_bind[g_p] == -1 - g_p"], ["i", "__CPROVER_object_whole(gp_bind)"], "g_nr - i"),
 rows_loop(1, "1::2::1::i", "1::2::k"),
 cols_loop(2, "1::2::2::j", "1::2::k"),
 L(3, [["i", "1::3::1::i"]], ["0 <= i && i <= g_nr", "!(g_p < i) || gp_bind[g_p] == v_enc"], ["i", "__CPROVER_object_whole(gp_bind)"], "g_nr - i"),
 rows_loop(4, "1::4::1::i", "1::4::k"),
 cols_loop(5, "1::4::2::j", "1::4::k"),
]
LOOPCFG = {"getBasis": gb, "getBasisInd": gbi}
def inst(name, function, harness, enforce, slices, loops, mutants, minob=50, tier="quick", extra=None):
    d = {"name": name, "function": function, "defines": {"INST_" + name: ""}, "harness": harness, "enforce": enforce,
         "slices": COMMON_SLICES + SOPLEX_SLICES + slices, "loops": loops, "min_obligations": minob, "tier": tier, "mutants": mutants}
    if extra: d.update(extra)
    return d
insts = [
 inst("basisRowStatus", "SoPlexBase<R>::basisRowStatus(int) const", "h_status", "w_status", [], [], [
   {"name": "loaded_flag_inverted", "slice": "SoPlex_basisRowStatus.inc", "find": "else if(_isRealLPLoaded)", "replace": "else if(!_isRealLPLoaded)"},
   {"name": "row_from_col", "slice": "getBasisRowStatus.inc", "find": "rowStatus(row)", "replace": "colStatus(row)"},
   {"name": "off_by_one_range", "slice": "SoPlex_basisRowStatus.inc", "find": "row >= numRows()", "replace": "row >= numRows() + 1"},
 ], 150),
 inst("basisColStatus", "SoPlexBase<R>::basisColStatus(int) const", "h_status", "w_status", [], [], [
   {"name": "stored_rows_for_cols", "slice": "SoPlex_basisColStatus.inc", "find": "return _basisStatusCols[col];", "replace": "return _basisStatusRows[col];"},
   {"name": "slack_upper_first", "slice": "SoPlex_basisColStatus.inc", "find": "return SPxSolverBase<R>::ON_LOWER;", "replace": "return SPxSolverBase<R>::ON_UPPER;"},
   {"name": "out_of_range_basic", "slice": "SoPlex_basisColStatus.inc", "find": "return SPxSolverBase<R>::ZERO;\n   }\n   // if no basis", "replace": "return SPxSolverBase<R>::BASIC;\n   }\n   // if no basis"},
 ], 150),
 inst("getBasis", "SoPlexBase<R>::getBasis(VarStatus rows[], VarStatus cols[]) const", "h_SoPlex_getBasis", "w_SoPlex_getBasis",
      [S_getBasis], LOOPCFG["getBasis"], [
   {"name": "cols_from_rows", "slice": "SoPlex_getBasis.inc", "find": "cols[i] = _basisStatusCols[i];", "replace": "cols[i] = _basisStatusRows[i];"},
   {"name": "skip_row0", "slice": "SoPlex_getBasis.inc", "find": "for(int i = numRows() - 1; i >= 0; i--)\n         rows[i] = _basisStatusRows[i];", "replace": "for(int i = numRows() - 1; i > 0; i--)\n         rows[i] = _basisStatusRows[i];"},
   {"name": "solver_args_swapped", "slice": "SoPlex_getBasis.inc", "find": "_solver.getBasis(rows, cols)", "replace": "_solver.getBasis(cols, rows)"},
   {"name": "slack_rows_nonbasic", "slice": "SoPlex_getBasis.inc", "find": "rows[i] = SPxSolverBase<R>::BASIC;", "replace": "rows[i] = SPxSolverBase<R>::ZERO;"},
 ], 300, extra={"replace": ["w_getBasis"]}),
]
GBI_MUT = [
   {"name": "row_encoding", "slice": "SoPlex_getBasisInd.inc", "find": "if(_basisStatusRows[i] == SPxSolverBase<R>::BASIC)\n         {\n            bind[k] = -1 - i;", "replace": "if(_basisStatusRows[i] == SPxSolverBase<R>::BASIC)\n         {\n            bind[k] = - i;"},
   {"name": "col_test_nonbasic", "slice": "SoPlex_getBasisInd.inc", "find": "if(_basisStatusCols[j] == SPxSolverBase<R>::BASIC)", "replace": "if(_basisStatusCols[j] != SPxSolverBase<R>::BASIC)"},
   {"name": "gap", "slice": "SoPlex_getBasisInd.inc", "find": "bind[k] = j;\n            k++;\n         }\n      }\n\n      assert(k == numRows());\n   }\n   // if the real LP is loaded", "replace": "bind[k] = j;\n            k += 2;\n         }\n      }\n\n      assert(k == numRows());\n   }\n   // if the real LP is loaded"},
   {"name": "column_rep_swapped_encoding", "slice": "SoPlex_getBasisInd.inc", "find": "id.isSPxColId() ? _solver.number(id) : - 1 - _solver.number(id)", "replace": "id.isSPxRowId() ? _solver.number(id) : - 1 - _solver.number(id)"},
   {"name": "column_rep_skip_last", "slice": "SoPlex_getBasisInd.inc", "find": "for(int i = 0; i < numRows(); ++i)\n      {\n         SPxId id", "replace": "for(int i = 0; i < numRows() - 1; ++i)\n      {\n         SPxId id"},
   {"name": "row_rep_not_complemented", "slice": "SoPlex_getBasisInd.inc", "find": "if(!_solver.isRowBasic(i))", "replace": "if(_solver.isRowBasic(i))"},
   {"name": "row_rep_col_lost", "slice": "SoPlex_getBasisInd.inc", "find": "if(!_solver.isColBasic(j))\n         {\n            bind[k] = j;", "replace": "if(!_solver.isColBasic(j))\n         {\n            bind[k] = j + 1;"},
   {"name": "slack_encoding", "slice": "SoPlex_getBasisInd.inc", "find": "bind[i] = -1 - i;", "replace": "bind[i] = -i;"},
]
import re, copy
def gbi(name, what, hb, ld, rp, muts, minob, claim=None):
    loops = copy.deepcopy(LOOPCFG["getBasisInd"])
    # claim split: "pos" keeps the invariants about the ghost POSITION g_p, "rank" those about the ghost row/column g_r/g_c
    for lp in loops:
        if claim == "pos": lp["invariants"] = [x for x in lp["invariants"] if not re.search(r"\bg_r\b|\bg_c\b", x)]
        if claim == "rank": lp["invariants"] = [x for x in lp["invariants"] if not re.search(r"\bg_p\b", x)]
    d = inst(name, "SoPlexBase<R>::getBasisInd(int* bind) const [%s]" % what, "h_getBasisInd", "w_getBasisInd",
             [S_getBasisInd], loops, [m for m in GBI_MUT if m["name"] in muts], minob)
    d["defines"] = {"INST_getBasisInd": "", "FIX_BRANCH": "", "FIX_HASBASIS": str(hb), "FIX_LOADED": str(ld), "FIX_REP": "(%d)" % rp}
    if claim: d["defines"]["CLAIM_" + claim.upper()] = ""
    return d
insts += [
 gbi("getBasisInd_nobasis", "no basis available: slack basis", 0, 0, 1, ["slack_encoding"], 100),
 gbi("getBasisInd_stored_pos", "real LP not loaded, basis in _basisStatusRows/_basisStatusCols; claim: every position names a basic variable, writes in bounds", 1, 0, 1, ["row_encoding", "col_test_nonbasic", "gap"], 300, "pos"),
 gbi("getBasisInd_stored_rank", "real LP not loaded; claim: the basic variable of rank r sits at position r (no gaps, nothing lost)", 1, 0, 1, ["row_encoding", "col_test_nonbasic", "gap"], 300, "rank"),
 gbi("getBasisInd_column", "real LP loaded, COLUMN representation", 1, 1, 1, ["column_rep_swapped_encoding", "column_rep_skip_last"], 150),
 gbi("getBasisInd_row_pos", "real LP loaded, ROW representation; claim: every position names a basic variable, writes in bounds", 1, 1, -1, ["row_rep_not_complemented", "row_rep_col_lost"], 300, "pos"),
 gbi("getBasisInd_row_rank", "real LP loaded, ROW representation; claim: the basic variable of rank r sits at position r", 1, 1, -1, ["row_rep_not_complemented", "row_rep_col_lost"], 300, "rank"),
]

doc = {
 "property": ["C04"],
 "desc": "SoPlexBase::basisRowStatus / basisColStatus / getBasis / getBasisInd: the per-variable status queries, the array query and the basis-index query describe the same basic set (all branches: no basis, stored basis, loaded COLUMN, loaded ROW)",
 "rmode": "double (IEEE, bit-precise; only compared)",
 "defines": {"CAP": "8"}, "defines_thorough": {"CAP": "256"}, "defines_small": {"CAP": "3"},
 "flags": ["--bounds-check", "--pointer-check", "--signed-overflow-check"],
 "timeout_s": 300,
 "extracts": EXTRACTS + [{"as": "SoPlex_RealParam.inc", "file": "src/soplex.h", "regex": r"typedef enum\s*\{(?:(?!typedef).)*?\}\s*RealParam;"}],
 "constants": CONSTANTS,
 "conformance": CONFORMANCE + [
   {"file": "src/soplex.h", "regex": r"SPxSolverBase<R>\s+_solver;", "why": "host member _solver"},
   {"file": "src/soplex.h", "regex": r"SPxLPBase<R>\*\s*_realLP;", "why": "host member _realLP"},
   {"file": "src/soplex.h", "regex": r"bool\s+_isRealLPLoaded;", "why": "host member _isRealLPLoaded"},
   {"file": "src/soplex.h", "regex": r"bool\s+_hasBasis;", "why": "host member _hasBasis"},
   {"file": "src/soplex.h", "regex": r"DataArray<\s*typename\s+SPxSolverBase<R>::VarStatus\s*>\s*_basisStatusRows;\s*DataArray<\s*typename\s+SPxSolverBase<R>::VarStatus\s*>\s*_basisStatusCols;", "why": "host members _basisStatusRows/_basisStatusCols"},
   {"file": SP, "regex": r"Real\s+SoPlexBase<R>::realParam\(const RealParam param\)\s+const\s*\{[^}]*return\s+_currentSettings->_realParamValues\[param\];", "why": "realParam(p) reads the settings array (stub: one member for INFTY)"},
   {"file": "src/soplex/spxid.h", "regex": r"inline\s+bool\s+isSPxRowId\(\)\s+const\s*\{\s*return\s+info\s*<\s*0;\s*\}.*?inline\s+bool\s+isSPxColId\(\)\s+const\s*\{\s*return\s+info\s*>\s*0;", "why": "SPxId stub: info<0 row id, info>0 column id"},
   {"file": "src/soplex/spxlpbase.h", "regex": r"int\s+number\(const SPxId& id\)\s+const\s*\{\s*return\s*\(id\.type\(\)\s*==\s*SPxId::COL_ID\)\s*\?\s*LPColSetBase<R>::number\(id\)\s*:\s*LPRowSetBase<R>::number\(id\);", "why": "number(id) is the position of the named row/column (stub: carried by the id)"},
   {"file": BASIS_H, "regex": r"inline\s+SPxId\s+baseId\(int i\)\s+const\s*\{\s*return\s+theBaseId\[i\];", "why": "baseId(i) reads theBaseId[i]"},
   {"file": SOLVER_H, "regex": r"const\s+SPxBasisBase<R>&\s+basis\(\)\s+const\s*\{\s*return\s*\*this;", "why": "basis() is the solver's own basis sub-object"},
   {"file": "src/soplex/spxlpbase_real.hpp", "regex": r"R\s+SPxLPBase<R>::lowerUnscaled\(int i\)\s+const\s*\{[^}]*if\(_isScaled\)[^}]*else\s*return\s+LPColSetBase<R>::lower\(i\);", "why": "lowerUnscaled(i) == lower(i) for an unscaled LP"},
 ],
 "trusted": COMMON_TRUSTED + [
   "SoPlexBase host: names-and-data replica holding only _solver, _realLP, _isRealLPLoaded, _hasBasis, _basisStatusRows/_basisStatusCols and one Real standing for realParam(INFTY) (conformance-checked); hasBasis/numRows/numCols/lowerReal/upperReal are the real bodies",
   "while _isRealLPLoaded the wrapper sets _realLP = &_solver (as SoPlexBase::_loadRealLP does); otherwise _realLP is a separate LP of the same dimensions and _basisStatusRows/_basisStatusCols have numRows/numCols entries (asserted by the real code)",
   "SPxId stub carries (info, position); SPxLPBase::number(id) returns the carried position under the assumed type invariant that a basis id names an existing row/column; baseId(i) reads two parallel int arrays",
   "lowerUnscaled/upperUnscaled: LP not persistently scaled (only used for the slack basis reported when no basis is available)",
   "SoPlexBase::getBasis: the callee SPxSolverBase::getBasis is REPLACED BY ITS CONTRACT (stubs/basis_getBasis_contract.h, proved in units/basis_solver instance getBasis)",
   "getBasisInd, loaded ROW representation: assumed type invariant of DataArray<Desc::Status>: stored values lie in the value range [-16,15] of the enumeration (isBasic() multiplies the status by rep())",
   "getBasisInd is proved per branch (the wrapper fixes hasBasis/loaded/rep to the values the instance's precondition requires, so that constant propagation discards the other branches) and, for the two counting branches, per claim (position claim / rank claim) to keep each SAT query small; the sliced body is the same whole function in every instance",
   "GHOST PREFIX COUNTS (getBasisInd): as in units/basis_solver; the precondition `number of basic entries == numRows` of the stored basis / loaded descriptor is the C04 invariant established by isBasisValid / isDescValid / loadDesc and is ASSUMED here; without it the real code writes past bind[numRows-1]",
   "getBasisInd, loaded COLUMN representation: assumed basis invariant at the ghost position: baseId(g) names a row/column whose descriptor status is dual (>= 0) (established by SPxBasisBase::loadDesc, not covered)",
   "status arrays capped at CAP entries (inductive loop proofs; the cap bounds the object size only)",
 ],
 "instances": insts,
}
EXPECTED_S = {"getBasis": 40, "getBasisInd_stored_pos": 35, "getBasisInd_row_pos": 35, "getBasisInd_stored_rank": 30, "getBasisInd_row_rank": 30}
for i in insts:
    if i["name"] in EXPECTED_S: i["expected_s"] = EXPECTED_S[i["name"]]
dump(os.path.join(os.path.dirname(os.path.abspath(__file__)), "unit.json"), doc)
