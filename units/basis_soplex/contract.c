/* Contracts for SoPlexBase<R>::basisRowStatus / basisColStatus / getBasis / getBasisInd (C04): the three ways of reading
 * a basis describe the same basic set.  ROWQ / COLQ below are THE specification of the per-variable status queries;
 * getBasis (array query) is specified as "entry g equals ROWQ(g) / COLQ(g)" and getBasisInd as "every emitted index
 * names a variable whose status query says BASIC, written at positions 0..k-1 without gaps". */
#include "basis_spec_c.h"
int* gp_cntR; int* gp_cntC; const void* gp_arrR; const void* gp_arrC; int g_cnt_desc;
int* gp_bind; int* gp_rows; int* gp_cols; int* gp_orow; int* gp_ocol; double* gp_low; double* gp_up; int* gp_cr; int* gp_cc;
int g_p, v_enc, v_slack_c, v_srow, v_scol, k_BASIC, v_rank_r, v_rank_c;
static void havoc_ghosts(void)
{
   g_nr = nondet_int(); g_nc = nondet_int(); g_r = nondet_int(); g_c = nondet_int(); v_r = nondet_int(); v_c = nondet_int();
   v_exp_r = nondet_int(); v_exp_c = nondet_int(); g_valid_r = nondet_int(); g_valid_c = nondet_int();
   v_old_r = nondet_int(); v_old_c = nondet_int(); g_throw_allowed = nondet_int(); g_cnt_desc = nondet_int();
   g_p = nondet_int(); v_enc = nondet_int(); v_slack_c = nondet_int(); v_srow = nondet_int(); v_scol = nondet_int(); k_BASIC = nondet_int(); v_rank_r = nondet_int(); v_rank_c = nondet_int();
}
#define IN(i, n) (0 <= (i) && (i) < (n))
/* slack basis reported for columns when no basis is available (comment in soplex.hpp: "return slack basis") */
#define SLACKCOL(l, u, infty) ((l) > -(infty) ? ON_LOWER : (u) < (infty) ? ON_UPPER : ZERO)
/* the per-variable status queries */
#define ROWQ(i) ((!hasBasis || !IN(i, nr)) ? BASIC : loaded ? TOVAR(rowstat[i]) : srows[i])
#define COLQ(j) (!IN(j, nc) ? ZERO : !hasBasis ? SLACKCOL(lower[j], upper[j], inftyParam) : loaded ? TOVAR(colstat[j]) : scols[j])
#define STATE_REQ \
   (DIMS_OK(nr, nc) && REP_OK(rep) && FRESH_INTS(srows, nr) && FRESH_INTS(scols, nc) && FRESH_INTS(rowstat, nr) && FRESH_INTS(colstat, nc))

#if defined(INST_basisRowStatus) || defined(INST_basisColStatus)
#ifdef INST_basisRowStatus
#define QUERY(i) ROWQ(i)
#define LOADED_ENTRY(i) (hasBasis && loaded && IN(i, nr))
#define ENTRY(i) rowstat[i]
#else
#define QUERY(i) COLQ(i)
#define LOADED_ENTRY(i) (hasBasis && loaded && IN(i, nc))
#define ENTRY(i) colstat[i]
#endif
/* any int index (out of range: the status of a newly added row/column); a throw only for a loaded descriptor entry that
 * is no enumerator */
int w_status(int idx, int hasBasis, int loaded, int rep, int* srows, int* scols, int* rowstat, int* colstat,
             double* lower, double* upper, int nr, int nc, double inftyParam)
__CPROVER_requires(STATE_REQ && FRESH_DBLS(lower, nc) && FRESH_DBLS(upper, nc))
__CPROVER_requires(g_throw_allowed == (LOADED_ENTRY(idx) && !VALID_DESC(ENTRY(idx))))
__CPROVER_assigns(gp_rows, gp_cols, gp_low, gp_up, gp_arrR, gp_arrC)
__CPROVER_ensures(__CPROVER_return_value == QUERY(idx))
__CPROVER_ensures(LOADED_ENTRY(idx) ==> VALID_DESC(ENTRY(idx)))
;
void h_status(void)
{
   int idx, hasBasis, loaded, rep, nr, nc; int* srows; int* scols; int* rowstat; int* colstat; double* lower; double* upper; double inftyParam;
   havoc_ghosts();
   w_status(idx, hasBasis, loaded, rep, srows, scols, rowstat, colstat, lower, upper, nr, nc, inftyParam);
   CANARY();
}
#endif

#ifdef INST_getBasis
/* callee SPxSolverBase::getBasis: replaced by its contract (proved in units/basis_solver) */
#include "basis_getBasis_contract.h"
/* array query == per-variable query, for every row and column (ghost indices g_r, g_c); nothing but the two output
 * arrays is written */
void w_SoPlex_getBasis(int* orow, int* ocol, int hasBasis, int loaded, int rep, int* srows, int* scols, int* rowstat, int* colstat,
                       double* lower, double* upper, int nr, int nc, double inftyParam)
__CPROVER_requires(STATE_REQ && FRESH_DBLS(lower, nc) && FRESH_DBLS(upper, nc) && FRESH_INTS(orow, nr) && FRESH_INTS(ocol, nc))
__CPROVER_requires(GHOST_IN(g_r, nr) && GHOST_IN(g_c, nc))
/* the ghosts the callee's contract speaks about, instantiated at the same ghost indices */
__CPROVER_requires(v_r == rowstat[g_r] && v_c == colstat[g_c] && v_old_r == orow[g_r] && v_old_c == ocol[g_c])
__CPROVER_requires(v_exp_r == TOVAR(v_r) && v_exp_c == TOVAR(v_c) && g_valid_r == VALID_DESC(v_r) && g_valid_c == VALID_DESC(v_c))
__CPROVER_requires(g_throw_allowed == 1)
__CPROVER_requires(k_BASIC == BASIC && v_slack_c == SLACKCOL(lower[g_c], upper[g_c], inftyParam) && v_srow == srows[g_r] && v_scol == scols[g_c])
__CPROVER_assigns(gp_rows, gp_cols, gp_low, gp_up, gp_arrR, gp_arrC, gp_orow, gp_ocol, gp_row, gp_col)
__CPROVER_assigns(__CPROVER_object_whole(orow), __CPROVER_object_whole(ocol))
__CPROVER_ensures(nr > 0 ==> orow[g_r] == ROWQ(g_r))
__CPROVER_ensures(nc > 0 ==> ocol[g_c] == COLQ(g_c))
__CPROVER_ensures((hasBasis && loaded && nr > 0) ==> VALID_DESC(rowstat[g_r]))
__CPROVER_ensures((hasBasis && loaded && nc > 0) ==> VALID_DESC(colstat[g_c]))
;
void h_SoPlex_getBasis(void)
{
   int hasBasis, loaded, rep, nr, nc; int* orow; int* ocol; int* srows; int* scols; int* rowstat; int* colstat; double* lower; double* upper; double inftyParam;
   havoc_ghosts();
   w_SoPlex_getBasis(orow, ocol, hasBasis, loaded, rep, srows, scols, rowstat, colstat, lower, upper, nr, nc, inftyParam);
   CANARY();
}
#endif

#ifdef INST_getBasisInd
/* is row i / column j basic according to the status query?  (loaded: descriptor entry >= 0, which for the nine
 * enumerators is equivalent to basisStatusToVarStatus(entry) == BASIC - lemma asserted in the harness) */
#define ROWQ_BASIC(i) (!hasBasis ? 1 : loaded ? rowstat[i] >= 0 : srows[i] == BASIC)
#define COLQ_BASIC(j) (!hasBasis ? 0 : loaded ? colstat[j] >= 0 : scols[j] == BASIC)
/* b encodes a basic variable: >= 0 column b, < 0 row -1-b */
#define NAMES_BASIC(b) ((b) < 0 ? ((b) >= -nr && ROWQ_BASIC(-1 - (b))) : ((b) < nc && COLQ_BASIC(b)))
#define COUNTED (hasBasis && (!loaded || rep == -1))     /* the two branches that enumerate the status arrays */
#define COLUMN_LOADED (hasBasis && loaded && rep == 1)
void w_getBasisInd(int* bind, int hasBasis, int loaded, int rep, int* srows, int* scols, int* rowstat, int* colstat,
                   int* idinfo, int* idnum, int nr, int nc, int* cntR, int* cntC)
__CPROVER_requires(STATE_REQ && FRESH_INTS(bind, nr) && FRESH_INTS(idinfo, nr) && FRESH_INTS(idnum, nr) && FRESH_INTS(cntR, nr + 1) && FRESH_INTS(cntC, nc + 1))
#ifdef FIX_BRANCH
__CPROVER_requires(hasBasis == FIX_HASBASIS && (!hasBasis || (loaded == FIX_LOADED && (!loaded || rep == FIX_REP))))
#endif
__CPROVER_requires(g_cnt_desc == (loaded != 0) && k_BASIC == BASIC)
/* facts that hold for every prefix-count array */
__CPROVER_requires(cntR[0] == 0 && cntC[0] == 0 && 0 <= cntR[nr] && cntR[nr] <= nr && 0 <= cntC[nc] && cntC[nc] <= nc)
/* C04 invariant of an available basis: exactly one basic variable per row (established by isBasisValid / isDescValid /
 * loadDesc; see props/C04.json assumptions) */
__CPROVER_requires(COUNTED ==> cntR[nr] + cntC[nc] == nr)
/* basis invariant in COLUMN representation: the i-th basis vector is a row or column whose descriptor status is dual */
__CPROVER_requires(GHOST_IN(g_p, nr) && GHOST_IN(g_r, nr) && GHOST_IN(g_c, nc))
/* ... also at the ghost indices: 0 <= cnt[n] <= n; v_rank_r / v_rank_c = the position the ghost row / column must get */
__CPROVER_requires(0 <= cntR[g_r] && cntR[g_r] <= g_r && 0 <= cntC[g_c] && cntC[g_c] <= g_c)
__CPROVER_requires(v_rank_r == cntR[g_r] && v_rank_c == cntR[nr] + cntC[g_c])
__CPROVER_requires((COLUMN_LOADED && nr > 0) ==> (idinfo[g_p] > 0 ? (IN(idnum[g_p], nc) && colstat[idnum[g_p]] >= 0)
                                                  : (idinfo[g_p] < 0 && IN(idnum[g_p], nr) && rowstat[idnum[g_p]] >= 0)))
__CPROVER_requires(v_enc == (idinfo[g_p] > 0 ? idnum[g_p] : -1 - idnum[g_p]))
__CPROVER_requires(g_throw_allowed == 0)
__CPROVER_assigns(gp_rows, gp_cols, gp_low, gp_up, gp_arrR, gp_arrC, gp_cntR, gp_cntC, gp_bind, gp_cr, gp_cc, __CPROVER_object_whole(bind))
/* every position 0..numRows-1 is written with the index of a variable whose status query says BASIC */
#ifndef CLAIM_RANK
__CPROVER_ensures(nr > 0 ==> NAMES_BASIC(bind[g_p]))
#endif
__CPROVER_ensures((!hasBasis && nr > 0) ==> bind[g_p] == -1 - g_p)
__CPROVER_ensures((COLUMN_LOADED && nr > 0) ==> bind[g_p] == (idinfo[g_p] > 0 ? idnum[g_p] : -1 - idnum[g_p]))
/* no gaps, nothing lost: the basic row with r basic rows before it sits at position r; basic columns follow the rows */
#ifndef CLAIM_POS
__CPROVER_ensures((COUNTED && nr > 0 && ROWQ_BASIC(g_r)) ==> (IN(v_rank_r, nr) && v_rank_r == cntR[g_r] && bind[v_rank_r] == -1 - g_r))
__CPROVER_ensures((COUNTED && nc > 0 && COLQ_BASIC(g_c)) ==> (IN(v_rank_c, nr) && v_rank_c == cntR[nr] + cntC[g_c] && bind[v_rank_c] == g_c))
#endif
;
void h_getBasisInd(void)
{
   int hasBasis, loaded, rep, nr, nc; int* bind; int* srows; int* scols; int* rowstat; int* colstat; int* idinfo; int* idnum; int* cntR; int* cntC;
   int s = nondet_int();
   __CPROVER_assert(!VALID_DESC(s) || ((s >= 0) == (TOVAR(s) == BASIC)), "lemma: for the nine descriptor statuses, s >= 0 iff the status query says BASIC");
   havoc_ghosts();
   w_getBasisInd(bind, hasBasis, loaded, rep, srows, scols, rowstat, colstat, idinfo, idnum, nr, nc, cntR, cntC);
   CANARY();
}
#endif
