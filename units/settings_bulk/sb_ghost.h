/* C15 bulk operations: ghost state shared by unit.cpp (C++) and contract.c (C).
 * The bool arrays are bool in C++ and _Bool in C. */
#ifndef SB_GHOST_H
#define SB_GHOST_H
#ifdef __cplusplus
extern "C" {
#endif
#define SB_MAXP 40
#ifdef __cplusplus
typedef bool sb_bool;
#else
typedef _Bool sb_bool;
#endif
/* parameter counts of the real enumerations (set by the wrapper from BOOLPARAM_COUNT / INTPARAM_COUNT / REALPARAM_COUNT) */
extern int    g_nb, g_ni, g_nr;
/* the three value arrays of *_currentSettings (cur), of the argument / source (src), and the static default tables (def) */
extern sb_bool cur_b[SB_MAXP], src_b[SB_MAXP], def_b[SB_MAXP];
extern int    cur_i[SB_MAXP], src_i[SB_MAXP], def_i[SB_MAXP];
extern double cur_r[SB_MAXP], src_r[SB_MAXP], def_r[SB_MAXP];
/* ledger of the typed setter calls: per parameter index how often (saturating at 2), with which value and init flag */
extern int    g_total, g_bad, g_allok;
extern int    cnt_b[SB_MAXP], val_b[SB_MAXP], ini_b[SB_MAXP];
extern int    cnt_i[SB_MAXP], val_i[SB_MAXP], ini_i[SB_MAXP];
extern int    cnt_r[SB_MAXP], ini_r[SB_MAXP];
extern double val_r[SB_MAXP];
#ifdef __cplusplus
}
#endif
#endif
