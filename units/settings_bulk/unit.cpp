/* C15 "bulk operations": SoPlexBase<R>::resetSettings, SoPlexBase<R>::setSettings, Settings::operator= and the
 * Settings default constructor, cut verbatim from src/soplex.hpp (R = double).  The parameter enumerations are the
 * verbatim extract of src/soplex.h, so the loop bounds BOOLPARAM_COUNT / INTPARAM_COUNT / REALPARAM_COUNT are the real ones.
 * Stubbed: the three typed setters RECORD (index, value, init) and return an arbitrary verdict (their own behaviour is
 * the subject of unit params); class Settings is its three value arrays plus the three defaultValue tables. */
#include "verif.h"
#include "sb_ghost.h"
typedef double R;
typedef double Real;

template <class T> struct SoPlexBase
{
#include "ParamEnums.inc"
};

struct SettingsStub
{
   struct BoolTab { bool* defaultValue; } boolParam;
   struct IntTab { int* defaultValue; } intParam;
   struct RealTab { Real* defaultValue; } realParam;
   bool* _boolParamValues;
   int* _intParamValues;
   Real* _realParamValues;

   SettingsStub& operator=(const SettingsStub& settings)
   {
#include "SettingsAssign.inc"
   }
   void ctor_body()
   {
#include "SettingsCtor.inc"
   }
};

struct Host : SoPlexBase<R>
{
   SettingsStub* _currentSettings;
   bool _isConsistent() const { return true; }

   bool setBoolParam(const BoolParam param, const bool value, const bool init = false)
   {
      int p = (int)param;
      g_total++;
      if(p < 0 || p >= BOOLPARAM_COUNT || p >= SB_MAXP) { g_bad++; return false; }
      if(cnt_b[p] < 2) cnt_b[p]++; val_b[p] = value ? 1 : 0; ini_b[p] = init ? 1 : 0;
      bool ok = nondet_bool(); if(!ok) g_allok = 0;
      return ok;
   }
   bool setIntParam(const IntParam param, const int value, const bool init = false)
   {
      int p = (int)param;
      g_total++;
      if(p < 0 || p >= INTPARAM_COUNT || p >= SB_MAXP) { g_bad++; return false; }
      if(cnt_i[p] < 2) cnt_i[p]++; val_i[p] = value; ini_i[p] = init ? 1 : 0;
      bool ok = nondet_bool(); if(!ok) g_allok = 0;
      return ok;
   }
   bool setRealParam(const RealParam param, const Real value, const bool init = false)
   {
      int p = (int)param;
      g_total++;
      if(p < 0 || p >= REALPARAM_COUNT || p >= SB_MAXP) { g_bad++; return false; }
      if(cnt_r[p] < 2) cnt_r[p]++; val_r[p] = value; ini_r[p] = init ? 1 : 0;
      bool ok = nondet_bool(); if(!ok) g_allok = 0;
      return ok;
   }

   void resetSettings(const bool quiet, const bool init)
   {
#include "resetSettings.inc"
   }
   bool setSettings(const SettingsStub& newSettings, const bool init)
   {
#include "setSettings.inc"
   }
};

static inline void wire(SettingsStub& s, bool* b, int* i, double* r)
{
   s._boolParamValues = b; s._intParamValues = i; s._realParamValues = r;
   s.boolParam.defaultValue = def_b; s.intParam.defaultValue = def_i; s.realParam.defaultValue = def_r;
}
static inline void counts()
{
   g_nb = SoPlexBase<R>::BOOLPARAM_COUNT; g_ni = SoPlexBase<R>::INTPARAM_COUNT; g_nr = SoPlexBase<R>::REALPARAM_COUNT;
}

extern "C" void w_reset(int quiet, int init)
{
   VIN("init", init);
   SettingsStub cur; Host h;
   counts(); wire(cur, cur_b, cur_i, cur_r);
   h._currentSettings = &cur;
   h.resetSettings(quiet != 0, init != 0);
}
extern "C" int w_setSettings(int init)
{
   VIN("init", init);
   SettingsStub cur, src; Host h;
   counts(); wire(cur, cur_b, cur_i, cur_r); wire(src, src_b, src_i, src_r);
   h._currentSettings = &cur;
   return h.setSettings(src, init != 0) ? 1 : 0;
}
extern "C" int w_assign(void)
{
   SettingsStub cur, src;
   counts(); wire(cur, cur_b, cur_i, cur_r); wire(src, src_b, src_i, src_r);
   SettingsStub& r = (cur = src);
   return &r == &cur;
}
extern "C" void w_ctor(void)
{
   SettingsStub cur;
   counts(); wire(cur, cur_b, cur_i, cur_r);
   cur.ctor_body();
}
