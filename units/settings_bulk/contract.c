/* C15: "reset restores the documented defaults", "setSettings / Settings assignment has exactly the effect of the
 * corresponding typed setter calls": every parameter index of each of the three enumerations is visited exactly once,
 * with the value taken from the right table at the SAME index, and the init flag is handed through.
 * k is a ghost index chosen by the harness: the clauses hold for every k. */
#include "verif_c.h"
#include "sb_ghost.h"

int    g_nb, g_ni, g_nr;
sb_bool cur_b[SB_MAXP], src_b[SB_MAXP], def_b[SB_MAXP];
int    cur_i[SB_MAXP], src_i[SB_MAXP], def_i[SB_MAXP];
double cur_r[SB_MAXP], src_r[SB_MAXP], def_r[SB_MAXP];
int    g_total, g_bad, g_allok;
int    cnt_b[SB_MAXP], val_b[SB_MAXP], ini_b[SB_MAXP];
int    cnt_i[SB_MAXP], val_i[SB_MAXP], ini_i[SB_MAXP];
int    cnt_r[SB_MAXP], ini_r[SB_MAXP];
double val_r[SB_MAXP];
int    gk;                      /* ghost parameter index */
int    old_src_b, old_src_i; double old_src_r;   /* entry values at index gk */
int    old_cur_b, old_cur_i; double old_cur_r;

#define SAME_D(a, b) ((a) == (b) || ((a) != (a) && (b) != (b)))
#define LEDGER g_nb, g_ni, g_nr, g_total, g_bad, g_allok, \
   __CPROVER_object_whole(cnt_b), __CPROVER_object_whole(val_b), __CPROVER_object_whole(ini_b), \
   __CPROVER_object_whole(cnt_i), __CPROVER_object_whole(val_i), __CPROVER_object_whole(ini_i), \
   __CPROVER_object_whole(cnt_r), __CPROVER_object_whole(val_r), __CPROVER_object_whole(ini_r)
#define CUR __CPROVER_object_whole(cur_b), __CPROVER_object_whole(cur_i), __CPROVER_object_whole(cur_r)
#define COUNTS_OK (g_nb > 0 && g_nb <= SB_MAXP && g_ni > 0 && g_ni <= SB_MAXP && g_nr > 0 && g_nr <= SB_MAXP)
#define LEDGER_EMPTY (g_total == 0 && g_bad == 0 && g_allok == 1 && cnt_b[gk] == 0 && cnt_i[gk] == 0 && cnt_r[gk] == 0)
#define BOOLS01 1

/* resetSettings: one typed setter call per parameter with the documented default of THAT parameter; the setters are the
 * only writers (the frame has no CUR: the value arrays are not touched behind the setters' back) */
void w_reset(int quiet, int init)
__CPROVER_requires(0 <= gk && gk < SB_MAXP && LEDGER_EMPTY && BOOLS01)
__CPROVER_requires(init == 0 || init == 1)
__CPROVER_assigns(LEDGER)
__CPROVER_ensures(COUNTS_OK && g_bad == 0 && g_total == g_nb + g_ni + g_nr)
__CPROVER_ensures(gk < g_nb ==> (cnt_b[gk] == 1 && val_b[gk] == def_b[gk] && ini_b[gk] == init))
__CPROVER_ensures(gk < g_ni ==> (cnt_i[gk] == 1 && val_i[gk] == def_i[gk] && ini_i[gk] == init))
__CPROVER_ensures(gk < g_nr ==> (cnt_r[gk] == 1 && SAME_D(val_r[gk], def_r[gk]) && ini_r[gk] == init))
;

/* setSettings: the new values are stored, then every parameter is pushed through its typed setter with the NEW value;
 * the result is the conjunction of the setters' verdicts */
int w_setSettings(int init)
__CPROVER_requires(0 <= gk && gk < SB_MAXP && LEDGER_EMPTY && BOOLS01)
__CPROVER_requires(init == 0 || init == 1)
__CPROVER_requires(old_src_b == src_b[gk] && old_src_i == src_i[gk] && SAME_D(old_src_r, src_r[gk]))
__CPROVER_assigns(LEDGER, CUR)
__CPROVER_ensures(COUNTS_OK && g_bad == 0 && g_total == g_nb + g_ni + g_nr)
__CPROVER_ensures(__CPROVER_return_value == g_allok)
__CPROVER_ensures(gk < g_nb ==> (cnt_b[gk] == 1 && val_b[gk] == old_src_b && ini_b[gk] == init && cur_b[gk] == old_src_b))
__CPROVER_ensures(gk < g_ni ==> (cnt_i[gk] == 1 && val_i[gk] == old_src_i && ini_i[gk] == init && cur_i[gk] == old_src_i))
__CPROVER_ensures(gk < g_nr ==> (cnt_r[gk] == 1 && SAME_D(val_r[gk], old_src_r) && ini_r[gk] == init && SAME_D(cur_r[gk], old_src_r)))
;

/* Settings::operator=: all three value arrays are copied index by index, *this is returned, no setter runs */
int w_assign(void)
__CPROVER_requires(0 <= gk && gk < SB_MAXP && LEDGER_EMPTY && BOOLS01)
__CPROVER_requires(old_src_b == src_b[gk] && old_src_i == src_i[gk] && SAME_D(old_src_r, src_r[gk]))
__CPROVER_assigns(g_nb, g_ni, g_nr, CUR)
__CPROVER_ensures(COUNTS_OK && __CPROVER_return_value == 1)
__CPROVER_ensures(gk < g_nb ==> cur_b[gk] == old_src_b)
__CPROVER_ensures(gk < g_ni ==> cur_i[gk] == old_src_i)
__CPROVER_ensures(gk < g_nr ==> SAME_D(cur_r[gk], old_src_r))
__CPROVER_ensures(gk >= g_nb ==> cur_b[gk] == old_cur_b)
__CPROVER_ensures(gk >= g_ni ==> cur_i[gk] == old_cur_i)
__CPROVER_ensures(gk >= g_nr ==> SAME_D(cur_r[gk], old_cur_r))
;

/* Settings::Settings(): a fresh Settings object holds the documented defaults */
void w_ctor(void)
__CPROVER_requires(0 <= gk && gk < SB_MAXP && LEDGER_EMPTY && BOOLS01)
__CPROVER_assigns(g_nb, g_ni, g_nr, CUR)
__CPROVER_ensures(COUNTS_OK)
__CPROVER_ensures(gk < g_nb ==> cur_b[gk] == def_b[gk])
__CPROVER_ensures(gk < g_ni ==> cur_i[gk] == def_i[gk])
__CPROVER_ensures(gk < g_nr ==> SAME_D(cur_r[gk], def_r[gk]))
;

static void setup(void)
{
   __CPROVER_havoc_object(cur_b); __CPROVER_havoc_object(cur_i); __CPROVER_havoc_object(cur_r);
   __CPROVER_havoc_object(src_b); __CPROVER_havoc_object(src_i); __CPROVER_havoc_object(src_r);
   __CPROVER_havoc_object(def_b); __CPROVER_havoc_object(def_i); __CPROVER_havoc_object(def_r);
   gk = nondet_int();
   __CPROVER_assume(0 <= gk && gk < SB_MAXP);
   cur_b[gk] = nondet_bool(); src_b[gk] = nondet_bool(); def_b[gk] = nondet_bool();
   g_total = 0; g_bad = 0; g_allok = 1; cnt_b[gk] = 0; cnt_i[gk] = 0; cnt_r[gk] = 0;
   old_src_b = src_b[gk]; old_src_i = src_i[gk]; old_src_r = src_r[gk];
   old_cur_b = cur_b[gk]; old_cur_i = cur_i[gk]; old_cur_r = cur_r[gk];
   __CPROVER_input("gk", gk);
}
void h_reset(void) { int init = nondet_int(); __CPROVER_assume(init == 0 || init == 1); setup(); w_reset(nondet_int(), init); CANARY(); }
void h_setSettings(void) { int init = nondet_int(); __CPROVER_assume(init == 0 || init == 1); setup(); w_setSettings(init); CANARY(); }
void h_assign(void) { setup(); w_assign(); CANARY(); }
void h_ctor(void) { setup(); w_ctor(); CANARY(); }
