/* Contracts for the dense/sparse vector algebra (C19, second sentence).  "Dense view" of a sparse vector at index g:
 * the value stored for g, 0 if g is not stored (= SVectorBase::operator[]: first nonzero with that index).  Every
 * postcondition is stated at a havoc'd ghost index g_k (= for all indices).  Ring operations: ADD / SUB / MUL are the
 * uninterpreted functions the code itself calls (stubs/sparse_alg.h), so "equal to the dense arithmetic result" means:
 * the same term over the same data.  Entries NOT stored in the sparse operand keep their value, which is the dense
 * result under the ring axioms a + x*0 = a (not needed for stored entries). */
#include "verif_c.h"
#ifndef CAP
#define CAP 8
#endif
#include "rep.h"
#include "constants.h"
int* gp_val; long long* gp_elem;
int g_k, g_p, v_g, v_exp, g_q, g_r, g_size, g_bsize; long long v_cell, v_cellb;
#include "sparse_alg_c.h"

#ifdef VB_KIND
/* VectorBase<R> op= SVectorBase<R>.  Preconditions: stored indices are < dim() (asserted by the real code) and pairwise
 * different (SVector type invariant), here in the form "index g_k occurs exactly at position g_p, or nowhere (g_p == -1)". */
#define P_IDXOK(k) (!((k) < *memused) || (0 <= IDX(elem, k) && IDX(elem, k) < dim))
#define P_OCC(k)   (!((k) < *memused) || ((IDX(elem, k) == g_k) == ((k) == g_p)))
#if VB_KIND == 1      /* multAdd(x, vec):  val[g] + x * vec[g] */
#define EXPECT(old, c) ADD(old, MUL(xx, c))
#define ABSENT(old) (old)
#elif VB_KIND == 2    /* multSub(x, vec):  val[g] - x * vec[g] */
#define EXPECT(old, c) SUB(old, MUL(xx, c))
#define ABSENT(old) (old)
#elif VB_KIND == 3    /* operator+=(vec):  val[g] + vec[g] */
#define EXPECT(old, c) ADD(old, c)
#define ABSENT(old) (old)
#elif VB_KIND == 4    /* operator-=(vec):  val[g] - vec[g] */
#define EXPECT(old, c) SUB(old, c)
#define ABSENT(old) (old)
#elif VB_KIND == 5    /* assign(vec): the stored entries are copied, all others keep their value */
#define EXPECT(old, c) (c)
#define ABSENT(old) (old)
#elif VB_KIND == 6    /* operator=(vec): val[g] = vec[g] (0 where nothing is stored) */
#define EXPECT(old, c) (c)
#define ABSENT(old) 0
#endif
#if VB_KIND == 7
/* operator*(vec): StableSum<R> over i = size()-1 .. 0 of val[index(i)] * value(i): ps[size()] = 0,
 * ps[k] = ps[k+1] + val[idx[k]] * value[k]; result ps[0] */
#define P_PS(k) (!((k) < *memused) || ps[k] == ADD(ps[(k) + 1], MUL(val[IDX(elem, k)], VAL(elem, k))))
int w_vb(int* val, int dim, long long* elem, int memsize, int* memused, int xx, const int* ps)
__CPROVER_requires(DVWF(val, dim))
__CPROVER_requires(__CPROVER_is_fresh(memused, sizeof(int)) && SVWF(elem, memsize, *memused) && g_size == *memused)
REQ_EACH(P_IDXOK)
__CPROVER_requires(__CPROVER_is_fresh(ps, (CAP + 1) * sizeof(int)) && ps[*memused] == 0)
REQ_EACH(P_PS)
__CPROVER_requires(0 <= g_k && g_k < dim && v_g == val[g_k])
__CPROVER_assigns(gp_val, gp_elem, *memused)
__CPROVER_ensures(__CPROVER_return_value == ps[0] && *memused == g_size && val[g_k] == v_g)
;
#else
int w_vb(int* val, int dim, long long* elem, int memsize, int* memused, int xx, const int* ps)
__CPROVER_requires(DVWF(val, dim))
__CPROVER_requires(__CPROVER_is_fresh(memused, sizeof(int)) && SVWF(elem, memsize, *memused) && g_size == *memused)
REQ_EACH(P_IDXOK)
__CPROVER_requires(0 <= g_k && g_k < dim && v_g == val[g_k] && -1 <= g_p && g_p < *memused)
REQ_EACH(P_OCC)
__CPROVER_requires(v_exp == (g_p < 0 ? ABSENT(v_g) : EXPECT(v_g, VAL(elem, g_p))))
__CPROVER_requires(*memused == 0 || (0 <= g_q && g_q < *memused && v_cell == elem[g_q]))
__CPROVER_assigns(gp_val, gp_elem, *memused, __CPROVER_object_whole(val))
__CPROVER_ensures(val[g_k] == v_exp)
__CPROVER_ensures(*memused == g_size && (g_size == 0 || elem[g_q] == v_cell))
;
#endif
void h_vb(void)
{
   int* val; int dim; long long* elem; int memsize; int* memused; int xx; const int* ps;
   g_k = nondet_int(); g_p = nondet_int(); v_g = nondet_int(); v_exp = nondet_int(); g_q = nondet_int(); g_size = nondet_int();
   v_cell = nondet_ll();
   w_vb(val, dim, elem, memsize, memused, xx, ps);
   CANARY();
}
#endif

#ifdef SV_OP
#define P_BIDXOK(k) (!((k) < *bused) || (0 <= IDX(b, k) && IDX(b, k) < 2147483647))
#define P_BOCC(k)   (!((k) < *bused) || ((IDX(b, k) == g_k) == ((k) == g_p)))
#define PAIR_B(i, j) (!((i) < (j) && (j) < *bused) || IDX(b, i) != IDX(b, j))
#define ROW_B(i) REP_ALLB(PAIR_B, i)
int w_sv(long long* a, int amax, int* aused, long long* b, int bmax, int* bused, int* w, int dim, int xx, const int* ps)
__CPROVER_requires(__CPROVER_is_fresh(aused, sizeof(int)) && SVWF(a, amax, *aused) && g_size == *aused)
__CPROVER_requires(__CPROVER_is_fresh(bused, sizeof(int)) && SVWF(b, bmax, *bused) && g_bsize == *bused)
__CPROVER_requires(DVWF(w, dim))
#if SV_OP == 1
/* a *= x: every stored value is multiplied by x, indices and size stay */
__CPROVER_requires(0 <= g_q && g_q < *aused && v_cell == a[g_q])
__CPROVER_assigns(*aused, *bused, __CPROVER_object_whole(a))
__CPROVER_ensures(*aused == g_size && IDX(a, g_q) == HI32(v_cell) && VAL(a, g_q) == MUL(LO32(v_cell), xx))
#elif SV_OP == 2
/* a = b (different objects, max() >= b.size() asserted by the real code, indices of b pairwise different): the dense
 * views agree at every index; exactly the nonzeros of b are stored; b is unchanged */
__CPROVER_requires(amax >= *bused)
REQ_EACH(ROW_B)
__CPROVER_requires(-1 <= g_p && g_p < *bused && v_g == (g_p < 0 ? 0 : VAL(b, g_p)))
REQ_EACH(P_BOCC)
__CPROVER_requires(*bused == 0 || (0 <= g_r && g_r < *bused && v_cellb == b[g_r]))
__CPROVER_assigns(*aused, *bused, __CPROVER_object_whole(a))
__CPROVER_ensures(SDENSE(a, *aused, g_k) == v_g)
__CPROVER_ensures(*aused == SNNZ(b, g_bsize) && *bused == g_bsize && (g_bsize == 0 || b[g_r] == v_cellb))
__CPROVER_ensures(!(0 <= g_q && g_q < *aused) || VAL(a, g_q) != 0)
#elif SV_OP == 3
/* a = w (dense -> sparse): exactly the nonzeros of w are stored, each once: the dense view of a is w */
__CPROVER_requires(amax >= DNNZ(w, dim) && 0 <= g_k && g_k < dim && v_g == w[g_k])
__CPROVER_assigns(*aused, *bused, __CPROVER_object_whole(a))
__CPROVER_ensures(SDENSE(a, *aused, g_k) == v_g && w[g_k] == v_g)
__CPROVER_ensures(*aused == DNNZ(w, dim))
__CPROVER_ensures(!(0 <= g_q && g_q < *aused) || (VAL(a, g_q) != 0 && 0 <= IDX(a, g_q) && IDX(a, g_q) < dim))
__CPROVER_ensures(!(0 <= g_q && g_q < g_r && g_r < *aused) || IDX(a, g_q) != IDX(a, g_r))
#elif SV_OP == 4
/* a.add(b): the nonzeros of b are appended behind the old nonzeros (which stay in place); dense view (first match): an
 * index stored in a keeps a's value, any other index gets b's value */
__CPROVER_requires(*aused + *bused <= amax)
REQ_EACH(ROW_B)
__CPROVER_requires(v_g == (SIN(a, *aused, g_k) ? SDENSE(a, *aused, g_k) : SDENSE(b, *bused, g_k)))
__CPROVER_requires(*aused == 0 || (0 <= g_q && g_q < *aused && v_cell == a[g_q]))
__CPROVER_requires(*bused == 0 || (0 <= g_r && g_r < *bused && v_cellb == b[g_r]))
__CPROVER_assigns(*aused, *bused, __CPROVER_object_whole(a))
__CPROVER_ensures(SDENSE(a, *aused, g_k) == v_g)
__CPROVER_ensures(*aused == g_size + SNNZ(b, g_bsize) && (g_size == 0 || a[g_q] == v_cell))
__CPROVER_ensures(*bused == g_bsize && (g_bsize == 0 || b[g_r] == v_cellb))
#elif SV_OP == 5
/* a.sort(): increasing indices, the same nonzeros (every old cell is still there, size unchanged): dense view unchanged */
#define P_AOCC(k)   (!((k) < *aused) || ((IDX(a, k) == g_k) == ((k) == g_p)))
#define PAIR_A(i, j) (!((i) < (j) && (j) < *aused) || IDX(a, i) != IDX(a, j))
#define ROW_A(i) REP_ALLB(PAIR_A, i)
#define CEQ1(k, e, n, c) (((k) < (n)) && (e)[k] == (c))
REQ_EACH(ROW_A)
__CPROVER_requires(-1 <= g_p && g_p < *aused && v_g == (g_p < 0 ? 0 : VAL(a, g_p)))
REQ_EACH(P_AOCC)
__CPROVER_requires(*aused == 0 || (0 <= g_q && g_q < *aused && v_cell == a[g_q]))
__CPROVER_assigns(*aused, *bused, __CPROVER_object_whole(a))
__CPROVER_ensures(*aused == g_size && SDENSE(a, *aused, g_k) == v_g)
__CPROVER_ensures(!(0 <= g_r && g_r < *aused - 1) || IDX(a, g_r) < IDX(a, g_r + 1))
__CPROVER_ensures(g_size == 0 || CELLS(||, CEQ1, a, *aused, v_cell))
#elif SV_OP == 6
/* maxAbs(): max(0, max_k |value(k)|): an upper bound of every |value| that is attained (or 0) */
#define AEQ1(k, e, n, r) (((k) < (n)) && ABS(VAL(e, k)) == (r))
__CPROVER_requires(*aused == 0 || (0 <= g_q && g_q < *aused && v_cell == a[g_q]))
__CPROVER_assigns(*aused, *bused)
__CPROVER_ensures(*aused == g_size && (g_size == 0 || (a[g_q] == v_cell && __CPROVER_return_value >= ABS(LO32(v_cell)))))
__CPROVER_ensures(__CPROVER_return_value >= 0 && (__CPROVER_return_value == 0 || CELLS(||, AEQ1, a, g_size, __CPROVER_return_value)))
#elif SV_OP == 7
/* minAbs(): min(infinity, min_k |value(k)|) */
#define AEQ1(k, e, n, r) (((k) < (n)) && ABS(VAL(e, k)) == (r))
#define INFTY __CPROVER_uninterpreted_embed(SOPLEX_DEFAULT_INFINITY)
__CPROVER_requires(*aused == 0 || (0 <= g_q && g_q < *aused && v_cell == a[g_q]))
__CPROVER_assigns(*aused, *bused)
__CPROVER_ensures(*aused == g_size && (g_size == 0 || (a[g_q] == v_cell && __CPROVER_return_value <= ABS(LO32(v_cell)))))
__CPROVER_ensures(__CPROVER_return_value <= INFTY && (__CPROVER_return_value == INFTY || CELLS(||, AEQ1, a, g_size, __CPROVER_return_value)))
#elif SV_OP == 8
/* length2(): sum over k = 0 .. size()-1 of value(k) * value(k): ps[0] = 0, ps[k+1] = ps[k] + value[k] * value[k] */
#define P_PS2(k) (!((k) < *aused) || ps[(k) + 1] == ADD(ps[k], MUL(VAL(a, k), VAL(a, k))))
__CPROVER_requires(__CPROVER_is_fresh(ps, (CAP + 1) * sizeof(int)) && ps[0] == 0)
REQ_EACH(P_PS2)
__CPROVER_assigns(*aused, *bused)
__CPROVER_ensures(*aused == g_size && __CPROVER_return_value == ps[g_size])
#endif
;
void h_sv(void)
{
   long long* a; int amax; int* aused; long long* b; int bmax; int* bused; int* w; int dim; int xx; const int* ps;
   g_k = nondet_int(); g_p = nondet_int(); v_g = nondet_int(); g_q = nondet_int(); g_r = nondet_int(); g_size = nondet_int();
   g_bsize = nondet_int(); v_cell = nondet_ll(); v_cellb = nondet_ll();
   w_sv(a, amax, aused, b, bmax, bused, w, dim, xx, ps);
   CANARY();
}
#endif
