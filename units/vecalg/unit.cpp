/* C19 (second sentence): dense (+)= sparse algebra.  VectorBase<R>::multAdd / multSub / operator+= / operator-= / assign /
 * operator= / operator* with an SVectorBase<R> argument (src/soplex/basevectors.h) and SVectorBase<R>::operator*=(x),
 * operator=(SVectorBase), operator=(VectorBase), add(SVectorBase) (svectorbase.h, basevectors.h): real bodies, sliced on
 * every run; host classes, the abstract ring R and the std::vector stand-in are in stubs/sparse_alg.h.
 * C views: dense vector = int[dim] (carrier of Ring); sparse vector = one 64-bit cell per Nonzero<Ring> {val, idx}:
 * low half = val, high half = idx (as in unit svector). */
#define WANT_SV_BULK
#define WANT_SV_NORMS
#include "constants.h"
/* soplex::infinity (spxdefines.cpp: `const Real infinity = SOPLEX_DEFAULT_INFINITY;`, value cut from spxdefines.h each run) */
static const double infinity = SOPLEX_DEFAULT_INFINITY;
#include "sparse_alg.h"

extern "C" { extern int* gp_val; extern long long* gp_elem; }

#ifdef VB_SLICE
/* the body runs as a zero-argument member so that its loop can carry a loop contract (README 1) */
struct H : VectorBase<R>
{
   typedef R S;
   const R* x_; const SVectorBase<R>* vec_;
#ifdef VB_DOT
   R body() const
#else
   VectorBase<R>& body()
#endif
   {
#ifndef VB_DOT
      const R& x = *x_;
#endif
      const SVectorBase<R>& vec = *vec_;
#include VB_SLICE
   }
};
extern "C" int w_vb(int* val, int dim, long long* elem, int memsize, int* memused, int xx, const int* ps)
{
   VIN("dim", dim); VIN("memsize", memsize); VIN("memused", *memused); VIN("x", xx);
   SVectorBase<R> s; s.m_elem = (Nonzero<R>*)elem; s.memsize = memsize; s.memused = *memused;
   R xr; xr.v = xx;
   H h; h.val.p = (R*)val; h.val.n = dim; h.x_ = &xr; h.vec_ = &s;
   gp_val = val; gp_elem = elem;
   int ret = 0;
#ifdef VB_DOT
   { R r = h.body(); ret = r.v; }
#else
   h.body();
#endif
   *memused = s.memused;
   return ret;
}
#endif

#ifdef SV_OP
/* op 1: a *= x    2: a = b    3: a = w (dense)    4: a.add(b)    5: a.sort()    6: a.maxAbs()    7: a.minAbs()    8: a.length2() */
extern "C" int w_sv(long long* a, int amax, int* aused, long long* b, int bmax, int* bused, int* w, int dim, int xx, const int* ps)
{
   VIN("amax", amax); VIN("aused", *aused); VIN("bmax", bmax); VIN("bused", *bused); VIN("dim", dim); VIN("x", xx);
   SVectorBase<R> sa; sa.m_elem = (Nonzero<R>*)a; sa.memsize = amax; sa.memused = *aused;
   SVectorBase<R> sb; sb.m_elem = (Nonzero<R>*)b; sb.memsize = bmax; sb.memused = *bused;
   VectorBase<R> wv; wv.val.p = (R*)w; wv.val.n = dim;
   R xr; xr.v = xx;
   int ret = 0;
#if SV_OP == 1
   sa *= xr;
#elif SV_OP == 2
   sa = sb;
#elif SV_OP == 3
   sa = wv;
#elif SV_OP == 4
   sa.add(sb);
#elif SV_OP == 5
   sa.sort();
#elif SV_OP == 6
   { R r = sa.maxAbs(); ret = r.v; }
#elif SV_OP == 7
   { R r = sa.minAbs(); ret = r.v; }
#elif SV_OP == 8
   { R r = sa.length2(); ret = r.v; }
#endif
   *aused = sa.memused; *bused = sb.memused;
   return ret;
}
#endif
