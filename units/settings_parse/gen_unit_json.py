#!/usr/bin/env python3
"""generates /verif/units/settings_parse/unit.json (scratch helper; the json is the artefact)"""
import json
WS = "(*{L}==' '||*{L}=='\\t'||*{L}=='\\r')"
def scan(n, extra=None, locs=None, slack=False):
    # only the two blank-skipping loops that follow the `*line = '\\0'; line++;` of a token that ended at a
    # non-separator may start one byte behind the terminator (that byte exists only under SLACK)
    ub = "g_len + g_slack" if slack else "g_len"
    return {"function": "H::body\\(this\\)", "loop": n, "locals": (locs or []),
            "invariants": ["0 <= *gp_off && *gp_off <= %s" % ub] + (extra or []), "assigns": ["*gp_off"], "decreases": "%s - *gp_off" % ub}
GH = ["g_threw", "g_pnoff", "g_pvoff", "g_ncalls", "g_nsets", "g_set_kind", "g_set_param", "g_set_bval", "g_set_ival", "g_set_init",
      "g_set_ret", "g_spec_bval", "g_type_tag", "g_name_seed_ok", "g_toff", "g_noff", "g_voff", "g_set_rval", "g_set_uval"]
def ploop(n, count, tab, locs, scope):
    return {"function": "H::body\\(this\\)", "loop": n, "locals": [["param", "%d::1::param" % scope]] + locs,
            "invariants": ["0 <= param && param <= %s" % count, "g_nsets == 0", "g_threw == 0",
                           "(0 <= g_q && g_q < param) ==> %s[g_q] == 0" % tab],
            "assigns": ["param"] + locs + GH, "decreases": "%s - param" % count}
def clean(v, extra):
    # every byte of the token scanned so far is none of the characters the scan stops at
    bad = "v_g==' '||v_g=='\\t'||v_g=='\\r'||v_g=='\\n'||v_g=='#'||v_g==0" + ("||v_g=='%s'" % extra if extra else "")
    return "((long long)%s - (long long)gp_line <= g_k && g_k < *gp_off) ==> !(%s)" % (v, bad)
def after(v, strict):
    return "(long long)%s - (long long)gp_line %s *gp_off" % (v, "<" if strict else "<=")
def loops(order, fn):
    o = order
    l0 = ["(0 <= g_k && g_k < *gp_off) ==> (v_g==' '||v_g=='\\t'||v_g=='\\r')"] if fn == "line" else []
    return [
        scan(o[0], l0, ["success"]),
        scan(o[1], [after("paramTypeString", False), clean("paramTypeString", ":")], ["paramTypeString"]),
        scan(o[2], [after("paramTypeString", True)], ["paramTypeString"], True),
        scan(o[3], [after("paramTypeString", True)], ["paramTypeString"]),
        scan(o[4], [after("paramName", False), clean("paramName", "=")], ["paramName"]),
        scan(o[5], [after("paramName", True)], ["paramName"], True),
        scan(o[6], [after("paramName", True)], ["paramName"]),
        scan(o[7], [after("paramValueString", False), clean("paramValueString", "")], ["paramValueString"]),
        scan(o[8], [after("paramValueString", True)], ["paramValueString"]),
        ploop(o[9], "g_nbool", "gp_mb", ["success"], o[12]),
        ploop(o[10], "g_nint", "gp_mi", [], o[12]+1),
        ploop(o[11], "g_nreal", "gp_mr", [], o[12]+2),
    ]
SIG = {"line": "bool\\s+SoPlexBase<R>::_parseSettingsLine\\s*\\(\\s*char\\*\\s*line\\s*,\\s*const\\s+int\\s+lineNumber\\s*\\)",
       "string": "bool\\s+SoPlexBase<R>::parseSettingsString\\s*\\(\\s*char\\*\\s*string\\s*\\)"}
FN = {"line": "SoPlexBase<R>::_parseSettingsLine(char* line, const int lineNumber)", "string": "SoPlexBase<R>::parseSettingsString(char* string)"}
INC = {"line": "parseSettingsLine.inc", "string": "parseSettingsString_B.inc"}
MUST = ["try\\s*\\{\\s*value = std::stoi\\(paramValueString\\);\\s*\\}\\s*catch", "try\\s*\\{\\s*parseval = std::stoul\\(paramValueString\\);\\s*\\}\\s*catch", "strncmp\\(paramTypeString, \"bool\", 4\\)", "_currentSettings->boolParam\\.name\\[param\\]\\.c_str\\(\\)", "std::stoi\\(paramValueString\\)",
        "std::stod\\(paramValueString\\)", "setIntParam\\(\\(SoPlexBase<R>::IntParam\\)param, value, false\\)"]
SLICES = {
 "line": [{"as": "parseSettingsLine.inc", "file": "src/soplex.hpp", "sig": SIG["line"], "must_contain": MUST}],
 "string": [
   {"as": "parseSettingsString_sig.inc", "file": "src/soplex.hpp", "sig": SIG["string"],
    "must_contain": ["^\\s*assert\\(string != nullptr\\);", "char parseString\\[SPX_SET_MAX_LINE_LEN\\];\\s*spxSnprintf\\(parseString, SPX_SET_MAX_LINE_LEN - 1, \"%s\", string\\);\\s*char\\* line = parseString;\\s*// find the start of the parameter type"]},
   {"as": "parseSettingsString_A.inc", "file": "src/soplex.hpp", "region_start": "assert\\(string != nullptr\\);", "region_end": "char\\* line = parseString;",
    "must_contain": ["spxSnprintf\\(parseString, SPX_SET_MAX_LINE_LEN - 1, \"%s\", string\\);\\s*$"]},
   {"as": "parseSettingsString_B.inc", "file": "src/soplex.hpp", "region_start": "(?<=char\\* line = parseString;)\\s*// find the start of the parameter type", "region_end": "\\}\\s*/// writes settings file; returns true on success",
    "must_contain": MUST}]}
def muts(inc, kind):
    fn = "line" if inc == "parseSettingsLine.inc" else "string"
    STEP = "if\\(\\*line != '\\\\0'\\)\\s*\\{\\s*\\*line = '\\\\0';\\s*line\\+\\+;\\s*\\}"
    m = [
       # --- the defects fixed in /repo, re-seeded (reverse of each fix hunk) ---
       {"name": "old_defect_steps_over_terminator_type", "slice": inc, "regex": True, "find": "(// do not step over the end of the string\\s*)" + STEP + "(\\s*// search for the ':' char)", "replace": "\\1*line = '\\\\0'; line++;\\2"},
       {"name": "old_defect_steps_over_terminator_name", "slice": inc, "regex": True, "find": "(// do not step over the end of the string\\s*)" + STEP + "(\\s*// search for the '=' char)", "replace": "\\1*line = '\\\\0'; line++;\\2"},
       {"name": "old_defect_stoi_uncaught", "slice": inc, "regex": True, "find": "try\\s*\\{\\s*(value = std::stoi\\(paramValueString\\);)\\s*\\}\\s*catch\\(const std::exception&\\)\\s*\\{.*?return false;\\s*\\}", "replace": "\\1"},
       {"name": "old_defect_stod_uncaught", "slice": inc, "regex": True, "find": "try\\s*\\{\\s*(value = std::stod\\(paramValueString\\);)\\s*\\}\\s*catch\\(const std::exception&\\)\\s*\\{.*?return false;\\s*\\}", "replace": "\\1"},
       {"name": "old_defect_stoul_uncaught", "slice": inc, "regex": True, "find": "try\\s*\\{\\s*(parseval = std::stoul\\(paramValueString\\);)\\s*\\}\\s*catch\\(const std::exception&\\)\\s*\\{.*?return false;\\s*\\}", "replace": "\\1"},
       # --- seeded faults ---
       {"name": "bool_value_swapped", "slice": inc, "find": "success = setBoolParam((SoPlexBase<R>::BoolParam)param, true);", "replace": "success = setBoolParam((SoPlexBase<R>::BoolParam)param, false);"},
       {"name": "wrong_param", "slice": inc, "find": "if(setIntParam((SoPlexBase<R>::IntParam)param, value, false))", "replace": "if(setIntParam((SoPlexBase<R>::IntParam)(param + 1), value, false))"},
       {"name": "table_overrun", "slice": inc, "find": "if(param >= SoPlexBase<R>::REALPARAM_COUNT)", "replace": "if(param > SoPlexBase<R>::REALPARAM_COUNT)"},
       {"name": "setter_result_ignored", "slice": inc, "find": "if(setRealParam((SoPlexBase<R>::RealParam)param, value))", "replace": "if(setRealParam((SoPlexBase<R>::RealParam)param, value) || true)"},
       {"name": "writes_non_terminator", "slice": inc, "regex": True, "find": "(if\\(\\*line == '='\\)\\s*\\{\\s*)\\*line = '\\\\0';", "replace": "\\1*line = ' ';"},
       {"name": "value_end_not_terminated", "slice": inc, "regex": True, "find": "(// check, if the rest of the line is clean\\s*)\\*line = '\\\\0';", "replace": "\\1"},
       {"name": "name_prefix_match_real", "slice": inc, "regex": True, "find": "(_currentSettings->realParam\\.name\\[param\\]\\.c_str\\(\\),\\s*)SPX_SET_MAX_LINE_LEN", "replace": "\\1_currentSettings->realParam.name[param].size()"},
       {"name": "name_prefix_match_int", "slice": inc, "regex": True, "find": "(_currentSettings->intParam\\.name\\[param\\]\\.c_str\\(\\),\\s*)SPX_SET_MAX_LINE_LEN", "replace": "\\1_currentSettings->intParam.name[param].size()"},
    ]
    sel = {"line": None,
           "string": ["old_defect_steps_over_terminator_type", "old_defect_steps_over_terminator_name", "old_defect_stoi_uncaught", "old_defect_stod_uncaught",
                      "old_defect_stoul_uncaught", "table_overrun", "setter_result_ignored", "name_prefix_match_real"]}
    return [x for x in m if sel[fn] is None or x["name"] in sel[fn]]
def inst(fn, kind, order):
    d = {"INST_LINE" if fn == "line" else "INST_STRING": "", "SLACK": "0"}
    lo = loops(order, fn)
    i = {"name": "%s_%s" % (fn, kind), "function": FN[fn], "defines": d,
         "harness": "h_" + fn, "enforce": "w_" + fn,
         "slices": SLICES[fn],
         "loops": lo, "min_obligations": 2000, "expected_s": 90 if kind == "c15" else 240, "tier": "quick",
         "mutants": muts(INC[fn], kind)}
    return i
import sys
order_line = list(range(12)); order_string = list(range(12))
u = {
 "property": ["C13", "C15"],
 "desc": "settings parser: SoPlexBase<R>::_parseSettingsLine and parseSettingsString (real bodies from soplex.hpp) - memory safety on any NUL-terminated line, frame (only terminators written), dispatch to exactly one typed setter with the matching parameter and the parsed value",
 "rmode": "bytes and ints (no arithmetic abstraction); Real = double only passed through",
 "flags": ["--bounds-check", "--pointer-check", "--signed-overflow-check", "--sat-solver", "cadical"],
 "timeout_s": 600,
 "defines": {"CAP": "63"}, "defines_thorough": {"CAP": "95"}, "defines_small": {"CAP": "7"}, "small_unwind": 30,
 "constants": [
   {"name": "SPX_SET_MAX_LINE_LEN", "file": "src/soplex.hpp", "regex": "#define\\s+SPX_SET_MAX_LINE_LEN\\s+(\\d+)"},
   {"name": "SPX_SET_MAX_LINE_LEN_TREE", "file": "src/soplex.hpp", "regex": "#define\\s+SPX_SET_MAX_LINE_LEN\\s+(\\d+)"},
   {"name": "N_BOOLPARAM", "file": "src/soplex.h", "regex": "BOOLPARAM_COUNT\\s*=\\s*(\\d+)"},
   {"name": "N_INTPARAM", "file": "src/soplex.h", "regex": "INTPARAM_COUNT\\s*=\\s*(\\d+)"},
   {"name": "N_REALPARAM", "file": "src/soplex.h", "regex": "REALPARAM_COUNT\\s*=\\s*(\\d+)"}],
 "extracts": [
   {"as": "BoolParam.inc", "file": "src/soplex.h", "regex": "typedef enum\\s*\\{(?:(?!typedef enum).)*?BOOLPARAM_COUNT\\s*=\\s*\\d+\\s*\\}\\s*BoolParam;"},
   {"as": "IntParam.inc", "file": "src/soplex.h", "regex": "typedef enum\\s*\\{(?:(?!typedef enum).)*?INTPARAM_COUNT\\s*=\\s*\\d+\\s*\\}\\s*IntParam;"},
   {"as": "RealParam.inc", "file": "src/soplex.h", "regex": "typedef enum\\s*\\{(?:(?!typedef enum).)*?REALPARAM_COUNT\\s*=\\s*\\d+\\s*\\}\\s*RealParam;"}],
 "conformance": [
   {"file": "src/soplex.h", "regex": "bool\\s+setBoolParam\\s*\\(\\s*const\\s+BoolParam\\s+param\\s*,\\s*const\\s+bool\\s+value\\s*,\\s*const\\s+bool\\s+init\\s*=\\s*true\\s*\\)\\s*;", "why": "setter stub signature"},
   {"file": "src/soplex.h", "regex": "bool\\s+setIntParam\\s*\\(\\s*const\\s+IntParam\\s+param\\s*,\\s*const\\s+int\\s+value\\s*,\\s*const\\s+bool\\s+init\\s*=\\s*true\\s*\\)\\s*;", "why": "setter stub signature"},
   {"file": "src/soplex.h", "regex": "bool\\s+setRealParam\\s*\\(\\s*const\\s+RealParam\\s+param\\s*,\\s*const\\s+Real\\s+value\\s*,\\s*const\\s+bool\\s+init\\s*=\\s*true\\s*\\)\\s*;", "why": "setter stub signature"},
   {"file": "src/soplex.h", "regex": "void\\s+setRandomSeed\\s*\\(\\s*unsigned\\s+int\\s+seed\\s*\\)\\s*;", "why": "setter stub signature"},
   {"file": "src/soplex.h", "regex": "std::string\\s+name\\s*\\[\\s*SoPlexBase<R>::BOOLPARAM_COUNT\\s*\\]\\s*;", "why": "name tables are arrays of exactly <KIND>PARAM_COUNT strings (stub asserts the index bound)"},
   {"file": "src/soplex.h", "regex": "std::string\\s+name\\s*\\[\\s*SoPlexBase<R>::INTPARAM_COUNT\\s*\\]\\s*;", "why": "name table size"},
   {"file": "src/soplex.h", "regex": "std::string\\s+name\\s*\\[\\s*SoPlexBase<R>::REALPARAM_COUNT\\s*\\]\\s*;", "why": "name table size"},
   {"file": "src/soplex.hpp", "regex": "char\\s+line\\s*\\[\\s*SPX_SET_MAX_LINE_LEN\\s*\\]\\s*;.*?file\\.getline\\s*\\(\\s*line\\s*,\\s*sizeof\\s*\\(\\s*line\\s*\\)\\s*\\).*?_parseSettingsLine\\s*\\(\\s*line\\s*,\\s*lineNumber\\s*\\)", "why": "call site: the buffer handed to _parseSettingsLine is char[SPX_SET_MAX_LINE_LEN] filled by getline, i.e. any NUL-terminated string of up to SPX_SET_MAX_LINE_LEN-1 bytes, possibly reaching the end of the buffer"},
   {"file": "src/soplex/spxdefines.h", "regex": "inline\\s+int\\s+spxSnprintf\\s*\\(\\s*char\\*\\s+t\\s*,[^)]*?size_t\\s+len\\s*,[^)]*?const\\s+char\\*\\s+s\\s*,[^)]*?\\.\\.\\.", "why": "spxSnprintf(t, len, fmt, ...) stub"},
   {"file": "src/soplex.h", "regex": "SOPLEX_WITH_RATIONALPARAM", "why": "rational parameters are compiled out by default (RATIONALPARAM_COUNT = 0): the #ifdef block of the slice is not compiled"}],
 "trusted": [
   "host struct supplies the environment of the two bodies: parameter enums are extracted verbatim from soplex.h; setBoolParam/setIntParam/setRealParam/setRandomSeed are ghost-recording stubs returning a harness-chosen result (signatures conformance-checked)",
   "_currentSettings->xParam.name[i].c_str() is an opaque handle (index asserted < xPARAM_COUNT); strncmp(token, handle, SPX_SET_MAX_LINE_LEN) == 0 iff an ARBITRARY harness-chosen match table says so (covers every possible name table incl. duplicate names); the stub asserts the token is a C string inside the buffer",
   "strncmp/strncasecmp against string literals are loop-free executable models for n <= 12 reading exactly the bytes the C functions read (ASCII case folding)",
   "strtol(s, nullptr, 4|5), std::stoi, std::stod, std::stoul are stubs: they assert that s is a C string inside the buffer and return harness-chosen values; 'the parsed value' in the C15 clause is that return value. For bool it is: case-insensitive prefix true / exact t, or strtol(.,4)==1 => true; prefix false / exact f, or strtol(.,5)==0 => false",
   "std::stoi/stod/stoul may throw (std::invalid_argument / std::out_of_range) for any value token: exceptions are modelled by a flag (`#define try`, `#define catch(d) if(g_threw)`, the throwing stub sets g_threw and returns) - exact because the throwing call is the last statement of its try block (must_contain pins that); the contract demands: a throw => false is returned and no setter was called",
   "parseSettingsString: spxSnprintf stub fills the local copy with arbitrary bytes and a terminator within SPX_SET_MAX_LINE_LEN-2 (over-approximates every copy; relation of the copy to the source text is not modelled); bytes behind the terminator are arbitrary (stack garbage)",
   "the buffer is exactly sized: the terminator may sit in the last byte and the bytes behind it (stale bytes of a previous line) are arbitrary; nothing behind the terminator may be read (instances line_c15 / string_c15 now carry what *_exact and *_nothrow carried before the fixes 5bade9d / 2401557)",
   "NameRef::size() (used only by the prefix-match mutant) returns a length < SPX_SET_MAX_LINE_LEN; strncmp(token, name, n < SPX_SET_MAX_LINE_LEN) == 0 iff the token equals the name or, by a second arbitrary table, merely starts like it",
   "the scanning cursor `line` has the stub type LineCursor (offset into the ghost-known buffer; operations *line, line++, conversion to char*) instead of char*: in _parseSettingsLine it is the by-value parameter (bound in a prologue), in parseSettingsString the ONE declaration `char* line = parseString;` of the body is replaced by `LineCursor line(parseString);` (the body is sliced as two verbatim regions around it; must_contain pins the dropped text). Reason: CBMC cannot havoc a raw pointer loop variable efficiently; every access through the cursor is bounds/pointer-checked as gp_line[off]",
   "token_clean(): when a setter is reached, each of the three tokens is checked to end before any blank/newline/comment character (first NUL behind the token start chosen nondeterministically and pinned down by constant-range quantifiers, its existence asserted first)",
   "the line buffer is capped: quick tier 64 bytes, thorough tier 96 bytes (SPX_SET_MAX_LINE_LEN overridden by CAP+1; the loop proofs are inductive in the line length, the cap bounds the object size only). One run of line_c15 at the tree value 500 passed during development (176 s solver time before the token_clean obligations were added); it is too slow for the tiers",
   "SAT back end: cadical via --sat-solver (the evidence field 'backend' is a fixed string of the runner)",
   "SPX_MSG_* logging compiled out; assert() compiled out (NDEBUG semantics); lineNumber only feeds log messages"],
 "replay": {"cpp": "replay.cpp", "extra_src": [], "asan": True, "libs": ["/repo/_build/lib/libsoplex.a", "-lgmp", "-lmpfr", "-lz"]},
 "instances": []}
import os
orders = {"line": list(range(12)) + [8], "string": list(range(12)) + [8]}
for fn in ("line", "string"):
    for kind in ("c15",):
        u["instances"].append(inst(fn, kind, orders[fn]))
def fix(o):
    if isinstance(o, dict): return {k: fix(v) for k, v in o.items()}
    if isinstance(o, list): return [fix(v) for v in o]
    if isinstance(o, str): return o
    return o
u["instances"] = [dict(i, loops=fix(i["loops"])) for i in u["instances"]]
json.dump(u, open("/verif/units/settings_parse/unit.json", "w"), indent=1)
print("ok")
