/* C13 / C15: SoPlexBase<R>::_parseSettingsLine(char*, const int) and SoPlexBase<R>::parseSettingsString(char*)
 * (src/soplex.hpp).  The bodies are #included verbatim; the host supplies what they touch:
 *   - the parameter enumerations (extracted verbatim from soplex.h on every run),
 *   - _currentSettings->{bool,int,real}Param.name[i].c_str(): a name table whose entries are opaque NameRef
 *     handles (index-checked), compared by an overload of strncmp against a nondet match table,
 *   - setBoolParam / setIntParam / setRealParam / setRandomSeed: ghost-recording stubs,
 *   - strncmp / strncasecmp on string literals: loop-free executable models (n <= 12) that read exactly the
 *     bytes the C functions read, so CBMC's pointer checks apply to them,
 *   - strtol, std::stoi, std::stod, std::stoul: stubs returning harness-chosen values; the std:: ones may "throw"
 *     (flag model of try/catch, see below).
 * The scanning cursor `line` (a by-value char* parameter in _parseSettingsLine, a char* local in
 * parseSettingsString) is given the stub type LineCursor = (ghost buffer base, int offset) with exactly the
 * operations the bodies use (*line, line++, conversion to char*).  Reason: a loop contract must havoc the loop
 * variable, and CBMC dereferences a havoc'd RAW pointer by a case split over every object of the program
 * (measured: > 5 min for 4 of the 12 loops); havocking an int offset into a known buffer is cheap and says the
 * same thing.  Every access through the cursor is bounds/pointer-checked by CBMC as gp_line[off]. */
#include "verif.h"
#include "constants.h"
#ifdef CAP            /* quick tier / small-scope search only: a smaller line buffer (the loop proofs are inductive) */
#undef SPX_SET_MAX_LINE_LEN
#define SPX_SET_MAX_LINE_LEN (CAP + 1)
#endif

#define SPX_MSG_INFO1(spxout, x)
#define SPX_MSG_WARNING(spxout, x)
#define UINT_MAX 4294967295U
typedef double Real;
typedef double R;

extern "C" {
   /* ghosts, defined in contract.c */
   extern char* gp_line; extern int g_len;
   extern const unsigned char* gp_mb; extern const unsigned char* gp_mi; extern const unsigned char* gp_mr;
   extern int* gp_off;                                 /* alias of the cursor's offset, for the loop contracts */
   extern int g_ptoff, g_pnoff, g_pvoff;               /* offsets of the last type / name / value token handed to a stub */
   extern int g_ncalls, g_nsets, g_set_kind, g_set_param, g_set_bval, g_set_ival, g_set_init, g_set_ret;
   extern int g_spec_bval, g_type_tag, g_name_seed_ok, g_toff, g_noff, g_voff;
   extern double g_set_rval; extern unsigned int g_set_uval;
   extern int g_stoi_ret; extern double g_stod_ret; extern unsigned long g_stoul_ret; extern long g_strtol4, g_strtol5;
   extern int g_conv_ok, g_setter_ret, g_threw;
   extern const unsigned char* gp_mp;                  /* prefix-match table, see strncmp(token, NameRef, n) */
   extern int g_slack; extern int g_k; extern char v_g;
   void token_clean(int off);                          /* contract.c: the token at this offset is properly terminated */
}

/* ---- C string functions on literals: loop-free, read a[i] only while the C function would ---------------- */
#define CMP_STEP(i) if(n <= i) return 0; \
   if((unsigned char)FOLD(a[i]) != (unsigned char)FOLD(b[i])) return ((unsigned char)FOLD(a[i]) < (unsigned char)FOLD(b[i])) ? -1 : 1; \
   if(a[i] == '\0') return 0;
#define CMP_ALL CMP_STEP(0) CMP_STEP(1) CMP_STEP(2) CMP_STEP(3) CMP_STEP(4) CMP_STEP(5) CMP_STEP(6) CMP_STEP(7) \
   CMP_STEP(8) CMP_STEP(9) CMP_STEP(10) CMP_STEP(11)

static inline char verif_lower(char c) { return ('A' <= c && c <= 'Z') ? (char)(c - 'A' + 'a') : c; }

/* strncmp(token, "literal", n): n is 3, 4 or 11 in the slices (checked) */
static inline int strncmp(const char* a, const char* b, size_t n)
{
   __CPROVER_assert(n <= 12, "literal strncmp model covers n <= 12");
   g_ncalls = 1;
   if(n == 11) g_pnoff = (int)(a - gp_line); else g_ptoff = (int)(a - gp_line);
#define FOLD(c) (c)
   CMP_ALL
#undef FOLD
   return 0;
}

static inline int strncasecmp(const char* a, const char* b, size_t n)
{
   __CPROVER_assert(n <= 12, "literal strncasecmp model covers n <= 12");
   g_ncalls = 1;
   g_pvoff = (int)(a - gp_line);
#define FOLD(c) verif_lower(c)
   CMP_ALL
#undef FOLD
   return 0;
}

/* every conversion routine reads its argument as a C string: it must point into the NUL-terminated buffer */
#define CSTRING_ARG(p) __CPROVER_assert(gp_line <= (p) && (p) <= gp_line + g_len && gp_line[g_len] == '\0', \
                                        "argument is a NUL-terminated string inside the line buffer")

static inline long strtol(const char* s, char** end, int base)
{
   CSTRING_ARG(s);
   __CPROVER_assert(end == nullptr && (base == 4 || base == 5), "strtol stub: only the calls of the slice");
   g_ncalls = 1;
   g_pvoff = (int)(s - gp_line);
  
   return base == 4 ? g_strtol4 : g_strtol5;
}

/* std::stoi & co. throw std::invalid_argument / std::out_of_range when the text is not a number in range.  The
 * slices wrap each call in try { } catch(const std::exception&) { ...; return false; }.  Exceptions are modelled
 * with a flag: a throwing stub sets g_threw and returns, `try` is dropped and `catch(d)` becomes `if(g_threw)`.
 * This is exact as long as the throwing call is the LAST statement of its try block (must_contain pins that); code
 * that lets the "exception" pass (no handler) runs on with g_threw set, which the contract forbids. */
#define try
#define catch(decl) if(g_threw)
#define CONV_THROW(what) { g_threw = 1; }
namespace std
{
static inline int stoi(const char* s)
{
   CSTRING_ARG(s); g_ncalls = 1; g_pvoff = (int)(s - gp_line);
   if(!g_conv_ok) { CONV_THROW("std::stoi") return 0; }
   return g_stoi_ret;
}
static inline double stod(const char* s)
{
   CSTRING_ARG(s); g_ncalls = 1; g_pvoff = (int)(s - gp_line);
   if(!g_conv_ok) { CONV_THROW("std::stod") return 0; }
   return g_stod_ret;
}
static inline unsigned long stoul(const char* s)
{
   CSTRING_ARG(s); g_ncalls = 1; g_pvoff = (int)(s - gp_line);
   if(!g_conv_ok) { CONV_THROW("std::stoul") return 0; }
   return g_stoul_ret;
}
}

/* ---- parameter enumerations (verbatim from soplex.h) and the name tables ---------------------------------- */
template <class T> struct SoPlexBase
{
#include "BoolParam.inc"
#include "IntParam.inc"
#include "RealParam.inc"
};

struct NameRef
{
   int kind; int idx;
   NameRef c_str() const { return *this; }
   size_t size() const { return 3; }                  /* length of the registered name: only its being < SPX_SET_MAX_LINE_LEN matters */
   size_t length() const { return 3; }                /* std::string::length(), same */
};
template <int COUNT> struct NameTable
{
   int kind;
   NameRef operator[](int i) const
   {
      __CPROVER_assert(0 <= i && i < COUNT, "parameter name table index in bounds");
      NameRef r; r.kind = kind; r.idx = i; return r;
   }
};
/* strncmp(paramName, <table name>, n).  n == SPX_SET_MAX_LINE_LEN (longer than any line): the result is 0 iff the
 * token EQUALS table entry idx, as told by an arbitrary (harness-chosen) equality table.  Any smaller n compares a
 * prefix only: the result is 0 iff the token equals the entry or - second arbitrary table - merely starts like it.
 * The token must be a C string inside the buffer. */
static inline int strncmp(const char* a, NameRef b, size_t n)
{
   CSTRING_ARG(a);
   g_ncalls = 1;
   g_pnoff = (int)(a - gp_line);
   const unsigned char* m = b.kind == 0 ? gp_mb : (b.kind == 1 ? gp_mi : gp_mr);
   if(n >= SPX_SET_MAX_LINE_LEN)
      return m[b.idx] ? 0 : 1;
   return (m[b.idx] || gp_mp[b.idx]) ? 0 : 1;
}

struct Settings
{
   struct { NameTable<SoPlexBase<R>::BOOLPARAM_COUNT> name; } boolParam;
   struct { NameTable<SoPlexBase<R>::INTPARAM_COUNT> name; } intParam;
   struct { NameTable<SoPlexBase<R>::REALPARAM_COUNT> name; } realParam;
};

/* what the type token / value token mean, evaluated on the live buffer when a setter is reached */
static inline int spec_type(const char* t)
{
   if(t[0] == 'b' && t[1] == 'o' && t[2] == 'o' && t[3] == 'l') return 0;
   if(t[0] == 'i' && t[1] == 'n' && t[2] == 't') return 1;
   if(t[0] == 'r' && t[1] == 'e' && t[2] == 'a' && t[3] == 'l') return 2;
   if(t[0] == 'u' && t[1] == 'i' && t[2] == 'n' && t[3] == 't') return 3;
   return -1;
}
#define LC(c, x) (((c) | 0x20) == (x))
static inline int spec_bool(const char* v)
{
   if(LC(v[0], 't') && (v[1] == '\0' || (LC(v[1], 'r') && LC(v[2], 'u') && LC(v[3], 'e')))) return 1;
   if(g_strtol4 == 1) return 1;
   if(LC(v[0], 'f') && (v[1] == '\0' || (LC(v[1], 'a') && LC(v[2], 'l') && LC(v[3], 's') && LC(v[4], 'e')))) return 0;
   if(g_strtol5 == 0) return 0;
   return -1;
}
static inline int spec_seed_name(const char* s)
{
   return s[0] == 'r' && s[1] == 'a' && s[2] == 'n' && s[3] == 'd' && s[4] == 'o' && s[5] == 'm' && s[6] == '_'
          && s[7] == 's' && s[8] == 'e' && s[9] == 'e' && s[10] == 'd';
}

/* the scanning cursor: see the head comment */
struct LineCursor
{
   int off;
   LineCursor(char* p) { off = (int)(p - gp_line); gp_off = &off; }
   char& operator*() const { return gp_line[off]; }
   LineCursor operator++(int) { LineCursor old = *this; off = off + 1; return old; }
   operator char*() const { return gp_line + off; }
};

/* single one-level inheritance only (H : Host); the enumerations are reached through qualified names */
struct Host
{
   typedef SoPlexBase<R>::BoolParam BoolParam; typedef SoPlexBase<R>::IntParam IntParam; typedef SoPlexBase<R>::RealParam RealParam;
   Settings* _currentSettings;
   int spxout;

   void record(int kind, int param)
   {
      g_nsets++; g_set_kind = kind; g_set_param = param;
      g_toff = g_ptoff; g_noff = g_pnoff; g_voff = g_pvoff;
      g_type_tag = spec_type(gp_line + g_ptoff);
      token_clean(g_ptoff); token_clean(g_pnoff); token_clean(g_pvoff);   /* all three tokens are properly terminated strings */
   }
   bool setBoolParam(const BoolParam param, const bool value, const bool init = true)
   {
      record(0, (int)param); g_set_bval = value; g_set_init = init; g_spec_bval = spec_bool(gp_line + g_pvoff);
      g_set_ret = g_setter_ret; return g_setter_ret != 0;
   }
   bool setIntParam(const IntParam param, const int value, const bool init = true)
   {
      record(1, (int)param); g_set_ival = value; g_set_init = init;
      g_set_ret = g_setter_ret; return g_setter_ret != 0;
   }
   bool setRealParam(const RealParam param, const Real value, const bool init = true)
   {
      record(2, (int)param); g_set_rval = value; g_set_init = init;
      g_set_ret = g_setter_ret; return g_setter_ret != 0;
   }
   void setRandomSeed(unsigned int seed)
   {
      record(3, 0); g_set_uval = seed; g_name_seed_ok = spec_seed_name(gp_line + g_pnoff); g_set_ret = 1;
   }
};

#ifdef INST_LINE
struct H : Host
{
   char* line_; int lineNumber_;
   bool body()
   {
      LineCursor line(line_); const int lineNumber = lineNumber_;
#include "parseSettingsLine.inc"
   }
};
extern "C" int w_line(char* line, int lineNumber, const unsigned char* mb, const unsigned char* mi, const unsigned char* mr, const unsigned char* mp)
{
   VIN("len", g_len); VIN("bufsize", (int)__CPROVER_OBJECT_SIZE(line)); VIN_ARR8("line", line, (int)__CPROVER_OBJECT_SIZE(line));
   Settings st; st.boolParam.name.kind = 0; st.intParam.name.kind = 1; st.realParam.name.kind = 2;
   H h; h._currentSettings = &st; h.spxout = 0; h.line_ = line; h.lineNumber_ = lineNumber;
   gp_line = line; gp_mb = mb; gp_mi = mi; gp_mr = mr; gp_mp = mp;
   return h.body() ? 1 : 0;
}
#endif

#ifdef INST_STRING
/* spxSnprintf(parseString, SPX_SET_MAX_LINE_LEN - 1, "%s", string): the destination receives arbitrary bytes
 * and a terminator within its first len bytes (every possible copy, and more); the source must be a C string.
 * Bytes behind the terminator are whatever the stack held (arbitrary), unless g_slack asks for one NUL. */
extern "C" { extern const char* gp_src; extern int g_srclen; }
static inline int spxSnprintf(char* t, size_t len, const char* s, const char* arg)
{
   __CPROVER_assert(len == SPX_SET_MAX_LINE_LEN - 1, "copy limited to SPX_SET_MAX_LINE_LEN - 1");
   __CPROVER_assert(arg == gp_src && gp_src[g_srclen] == '\0', "source is the caller's NUL-terminated string");
   __CPROVER_havoc_slice(t, SPX_SET_MAX_LINE_LEN);
   __CPROVER_assert(0 <= g_len && g_len <= (int)len - 1 - g_slack, "terminator position chosen by the harness is one snprintf can produce");
   t[g_len] = '\0';
   if(g_slack) t[g_len + 1] = '\0';
   gp_line = t;
   v_g = t[g_k];                                      /* ghost snapshot: the copy's byte at the ghost index */
   return g_len;
}
/* strncpy(dest, src, n): a plausible replacement of the bounded snprintf copy.  ISO C: no terminator is written when the source
 * has n or more characters - stated as an obligation, so that an unterminated working copy is reported instead of modelled */
static inline char* strncpy(char* t, const char* arg, size_t n)
{
   __CPROVER_assert(arg == gp_src && gp_src[g_srclen] == '\0', "source is the caller's NUL-terminated string");
   __CPROVER_assert(n <= SPX_SET_MAX_LINE_LEN, "copy limited to the size of the working buffer");
   __CPROVER_assert((size_t)g_srclen < n, "strncpy terminates the working copy only if the source is shorter than the limit");
   __CPROVER_havoc_slice(t, SPX_SET_MAX_LINE_LEN);
   __CPROVER_assume(0 <= g_len && g_len <= (int)n - 1 - g_slack);
   t[g_len] = '\0';
   if(g_slack) t[g_len + 1] = '\0';
   gp_line = t;
   v_g = t[g_k];
   return t;
}
struct H : Host
{
   char* string_;
   bool body()
   {
      char* string = string_;
#include "parseSettingsString_A.inc"
      /* the one declaration of the body that is replaced: `char* line = parseString;` */
      LineCursor line(parseString);
#include "parseSettingsString_B.inc"
   }
};
extern "C" int w_string(char* string, const unsigned char* mb, const unsigned char* mi, const unsigned char* mr, const unsigned char* mp)
{
   Settings st; st.boolParam.name.kind = 0; st.intParam.name.kind = 1; st.realParam.name.kind = 2;
   H h; h._currentSettings = &st; h.spxout = 0; h.string_ = string;
   gp_src = string; gp_mb = mb; gp_mi = mi; gp_mr = mr; gp_mp = mp;
   return h.body() ? 1 : 0;
}
#endif
