/* Contracts for the settings-line parser (C13 safety/frame, C15 dispatch).
 * Universal statements use ghost indices g_k (buffer position) and g_q (parameter index) havoc'd by the harness. */
#include "verif_c.h"
#include "constants.h"
#ifdef CAP            /* quick tier / small-scope search only: a smaller line buffer (the loop proofs are inductive) */
#undef SPX_SET_MAX_LINE_LEN
#define SPX_SET_MAX_LINE_LEN (CAP + 1)
#endif

#define MAXLEN (SPX_SET_MAX_LINE_LEN - 1)     /* longest string getline() can put into char line[SPX_SET_MAX_LINE_LEN] */
#ifndef SLACK
#define SLACK 0                                /* readable NUL bytes behind the terminator (0 = exactly sized buffer) */
#endif
#define NTAB 64                                /* size of the match tables; the enum counts are checked to be <= NTAB */

#define IS_WS(c)    ((c) == ' ' || (c) == '\t' || (c) == '\r')
char* gp_line; int g_len; int g_k; char v_g; int g_q;
const unsigned char* gp_mb; const unsigned char* gp_mi; const unsigned char* gp_mr;
int* gp_off; int g_ptoff, g_pnoff, g_pvoff;
int g_ncalls, g_nsets, g_set_kind, g_set_param, g_set_bval, g_set_ival, g_set_init, g_set_ret;
int g_spec_bval, g_type_tag, g_name_seed_ok, g_toff, g_noff, g_voff;
double g_set_rval; unsigned int g_set_uval;
int g_stoi_ret; double g_stod_ret; unsigned long g_stoul_ret; long g_strtol4, g_strtol5;
int g_conv_ok, g_setter_ret, g_threw;
const unsigned char* gp_mp;
int g_slack;
int g_nbool, g_nint, g_nreal;                  /* the enum counts, for the loop invariants (loops.json sees no macros) */
_Static_assert(N_BOOLPARAM <= NTAB && N_INTPARAM <= NTAB && N_REALPARAM <= NTAB, "match tables too small");
const char* gp_src; int g_srclen;

/* Called by the comparison / conversion stubs with the offset of the token they are handed: the token must be a
 * C string inside the buffer that ends BEFORE any blank, line end or comment character, i.e. the parser terminated
 * it where the token ends.  e = position of the first NUL at or behind off (chosen nondeterministically and pinned
 * down with constant-range quantifiers; its existence is asserted first). */
#define IS_BREAK(c) (IS_WS(c) || (c) == '\n' || (c) == '#')
void token_clean(int off)
{
   __CPROVER_assert(0 <= off && off <= MAXLEN, "token pointer inside the line buffer");
   __CPROVER_assert(__CPROVER_exists { int j; (0 <= j && j <= MAXLEN) && (off <= j && gp_line[j] == '\0') }, "token is NUL-terminated inside the line buffer");
   int e = nondet_int();
   __CPROVER_assume(off <= e && e <= MAXLEN && gp_line[e] == '\0');
   __CPROVER_assume(__CPROVER_forall { int j; (0 <= j && j <= MAXLEN) ==> ((off <= j && j < e) ==> gp_line[j] != '\0') });
   /* "for every position of the token", stated at the ghost index g_k (loop invariants can only carry that form) */
   __CPROVER_assert((off <= g_k && g_k < e) ==> !IS_BREAK(gp_line[g_k]),
                    "token handed to a comparison/conversion routine contains no blank, line end or comment character");
}
unsigned long nondet_ul(void);
long nondet_l(void);
char nondet_c(void);

static void havoc_ghosts(void)
{
   g_len = nondet_int(); g_k = nondet_int(); v_g = nondet_c(); g_q = nondet_int();
   g_stoi_ret = nondet_int(); g_stod_ret = nondet_double(); g_stoul_ret = nondet_ul();
   g_strtol4 = nondet_l(); g_strtol5 = nondet_l();
   g_conv_ok = nondet_int(); g_setter_ret = nondet_int();
   g_srclen = nondet_int();
   g_slack = SLACK; g_nbool = N_BOOLPARAM; g_nint = N_INTPARAM; g_nreal = N_REALPARAM;
   /* recording ghosts start from a known state */
   g_ptoff = 0; g_pnoff = 0; g_pvoff = 0;
   g_threw = 0;
   g_ncalls = 0; g_nsets = 0; g_set_kind = -1; g_set_param = -1; g_set_bval = -1; g_set_ival = 0; g_set_init = -1; g_set_ret = -1;
   g_spec_bval = -2; g_type_tag = -2; g_name_seed_ok = 0; g_toff = -1; g_noff = -1; g_voff = -1; g_set_rval = 0.0; g_set_uval = 0;
}

#define IS_DELIM(c) (IS_WS(c) || (c) == '\n' || (c) == '#' || (c) == '\0' || (c) == ':' || (c) == '=')
#define TABLES_FRESH (__CPROVER_is_fresh(mb, NTAB) && __CPROVER_is_fresh(mi, NTAB) && __CPROVER_is_fresh(mr, NTAB) && __CPROVER_is_fresh(mp, NTAB))
#define GHOST_WRITES gp_line, gp_mb, gp_mi, gp_mr, gp_mp, g_threw, gp_off, g_ptoff, g_pnoff, g_pvoff, g_ncalls, g_nsets, g_set_kind, g_set_param, \
   g_set_bval, g_set_ival, g_set_init, g_set_ret, g_spec_bval, g_type_tag, g_name_seed_ok, g_toff, g_noff, g_voff, \
   g_set_rval, g_set_uval

#define RET __CPROVER_return_value
#define FIRST_MATCH(tab) ((tab)[g_set_param] != 0 && ((0 <= g_q && g_q < g_set_param) ==> (tab)[g_q] == 0))
#define SAME_DOUBLE(a, b) ((a) == (b) || ((a) != (a) && (b) != (b)))

/* C15 dispatch clauses shared by both functions (all in terms of what the stubs recorded) */
#define DISPATCH_ENSURES \
__CPROVER_ensures(g_threw ==> (!RET && g_nsets == 0))                                   /* a conversion that throws: handled, reported as failure, nothing set */ \
__CPROVER_ensures(g_nsets == 0 || g_nsets == 1)                                       /* at most one setter is ever called     */ \
__CPROVER_ensures(RET ==> (g_nsets == 0 ? g_ncalls == 0 : g_set_ret != 0))            /* true: blank/comment line, or the setter accepted */ \
__CPROVER_ensures(!RET ==> (g_nsets == 0 || g_set_ret == 0))                          /* false: nothing set, or the setter refused (no effect) */ \
__CPROVER_ensures(g_nsets == 1 ==> g_set_kind == g_type_tag)                          /* bool:/int:/real:/uint: selects the typed setter */ \
__CPROVER_ensures(g_nsets == 1 ==> (0 <= g_toff && g_toff < g_noff && g_noff < g_voff && g_voff < g_len)) /* tokens lie inside the string, in order */ \
__CPROVER_ensures((g_nsets == 1 && g_set_kind == 0) ==> (0 <= g_set_param && g_set_param < N_BOOLPARAM && FIRST_MATCH(mb))) \
__CPROVER_ensures((g_nsets == 1 && g_set_kind == 1) ==> (0 <= g_set_param && g_set_param < N_INTPARAM && FIRST_MATCH(mi))) \
__CPROVER_ensures((g_nsets == 1 && g_set_kind == 2) ==> (0 <= g_set_param && g_set_param < N_REALPARAM && FIRST_MATCH(mr))) \
__CPROVER_ensures((g_nsets == 1 && g_set_kind == 0) ==> (g_set_bval == g_spec_bval && g_spec_bval >= 0))   /* the parsed value */ \
__CPROVER_ensures((g_nsets == 1 && g_set_kind == 1) ==> (g_set_ival == g_stoi_ret && g_set_init == 0)) \
__CPROVER_ensures((g_nsets == 1 && g_set_kind == 2) ==> SAME_DOUBLE(g_set_rval, g_stod_ret)) \
__CPROVER_ensures((g_nsets == 1 && g_set_kind == 3) ==> (g_name_seed_ok && g_set_uval == (g_stoul_ret > 4294967295UL ? 4294967295U : (unsigned int)g_stoul_ret)))

#ifdef INST_LINE
/* _parseSettingsLine: any NUL-terminated content of the buffer loadSettingsFile() hands over */
int w_line(char* line, int lineNumber, const unsigned char* mb, const unsigned char* mi, const unsigned char* mr, const unsigned char* mp)
/* the call site: char line[SPX_SET_MAX_LINE_LEN] filled by getline(): a terminator at g_len <= SPX_SET_MAX_LINE_LEN-1,
 * arbitrary (stale) bytes behind it; with SLACK the byte behind the terminator exists and is NUL as well */
__CPROVER_requires(__CPROVER_is_fresh(line, MAXLEN + 1) && 0 <= g_len && g_len <= MAXLEN - SLACK && line[g_len] == '\0')
__CPROVER_requires(SLACK == 0 || line[g_len + SLACK] == '\0')
__CPROVER_requires(TABLES_FRESH)
__CPROVER_requires(0 <= g_k && g_k <= g_len && v_g == line[g_k])
__CPROVER_assigns(GHOST_WRITES, __CPROVER_object_whole(line))
/* C13: only string terminators are written, only over delimiter characters, only inside the string */
__CPROVER_ensures(line[g_k] == v_g || (line[g_k] == '\0' && IS_DELIM(v_g)))
__CPROVER_ensures(line[g_len] == '\0')
__CPROVER_ensures(g_nsets == 1 ==> (g_k < g_toff ==> IS_WS(v_g)))                     /* the type token is the first non-blank text */
DISPATCH_ENSURES
;
void h_line(void)
{
   char* line; int lineNumber; const unsigned char* mb; const unsigned char* mi; const unsigned char* mr; const unsigned char* mp;
   havoc_ghosts();
   w_line(line, lineNumber, mb, mi, mr, mp);
   CANARY();
}
#endif

#ifdef INST_STRING
/* parseSettingsString: the caller's string is only read (as a C string) and never written; the parse runs on a
 * local copy whose content (any bytes, terminator within the first SPX_SET_MAX_LINE_LEN - 1) is chosen by the
 * spxSnprintf stub. */
int w_string(char* string, const unsigned char* mb, const unsigned char* mi, const unsigned char* mr, const unsigned char* mp)
__CPROVER_requires(0 <= g_srclen && g_srclen <= 2 * SPX_SET_MAX_LINE_LEN && __CPROVER_is_fresh(string, g_srclen + 1) && string[g_srclen] == '\0')
__CPROVER_requires(0 <= g_len && g_len <= SPX_SET_MAX_LINE_LEN - 2 - SLACK && 0 <= g_k && g_k <= MAXLEN)
__CPROVER_requires(TABLES_FRESH)
__CPROVER_assigns(GHOST_WRITES, gp_src, v_g)
DISPATCH_ENSURES
;
void h_string(void)
{
   char* string; const unsigned char* mb; const unsigned char* mi; const unsigned char* mr; const unsigned char* mp;
   havoc_ghosts();
   w_string(string, mb, mi, mr, mp);
   CANARY();
}
#endif
