/* Native replay for the settings-parser unit: runs the REAL SoPlexBase<double>::_parseSettingsLine on the buffer of a
 * counterexample (exactly sized heap allocation, so AddressSanitizer sees any access behind it).
 *  - memory obligations: an ASan report = confirmed;
 *  - "tokens lie inside the string": a C string cannot mean different things depending on the bytes BEHIND its
 *    terminator, so the line is parsed twice on fresh solvers, once with the stale bytes of the counterexample and
 *    once with zeros behind the terminator; differing result / parameter values = confirmed;
 *  - *_nothrow: the counterexample's match table is abstract ("some name matches"), so the name token is replaced by
 *    a real parameter name of that type; an exception leaving the parser = confirmed. */
#include <replay_util.h>
#include <cstring>
#include <sstream>
#include <fstream>
#include <iostream>
#include <memory>
#include <string>
#include <vector>
#include <map>
#include <set>
#include <list>
#include <algorithm>
#include <stdexcept>
#include <typeinfo>
#define private public
#define protected public
#include <soplex.h>
#undef private
#undef protected

using namespace soplex;

static bool same_params(SoPlex& a, SoPlex& b, std::string& what)
{
   for(int i = 0; i < SoPlex::BOOLPARAM_COUNT; i++)
      if(a.boolParam((SoPlex::BoolParam)i) != b.boolParam((SoPlex::BoolParam)i))
      {
         what = "bool parameter <" + SoPlex::Settings::boolParam.name[i] + ">";
         return false;
      }

   for(int i = 0; i < SoPlex::INTPARAM_COUNT; i++)
      if(a.intParam((SoPlex::IntParam)i) != b.intParam((SoPlex::IntParam)i))
      {
         what = "int parameter <" + SoPlex::Settings::intParam.name[i] + ">";
         return false;
      }

   for(int i = 0; i < SoPlex::REALPARAM_COUNT; i++)
      if(a.realParam((SoPlex::RealParam)i) != b.realParam((SoPlex::RealParam)i))
      {
         what = "real parameter <" + SoPlex::Settings::realParam.name[i] + ">";
         return false;
      }

   return true;
}

static void show(const char* tag, const std::vector<char>& b)
{
   std::cout << tag << " [" << b.size() << " bytes]: ";

   for(char c : b)
   {
      if(c >= 32 && c < 127) std::cout << c;
      else std::cout << "\\x" << std::hex << (int)(unsigned char)c << std::dec;
   }

   std::cout << std::endl;
}

int main(int argc, char** argv)
{
   if(argc < 3) return 2;
   ReplayIn in(argv[1]);
   std::string inst = argv[2];

   if(inst.compare(0, 5, "line_") != 0)
   {
      std::cout << "no native replay for instance " << inst << " (parseSettingsString works on an uninitialised stack copy)" << std::endl;
      return 0;
   }

   int bufsize = (int)in.geti("bufsize", 0), len = (int)in.geti("len", -1);
   if(bufsize <= 0 || bufsize > 4096 || len < 0 || len >= bufsize) return 2;
   /* cells come as integers or as C character literals (' ', '\\r', ...); cells the trace does not mention are 'a' */
   std::vector<char> content(bufsize);
   for(int k = 0; k < bufsize; k++)
   {
      std::ostringstream key;
      key << "line[" << k << "]";
      content[k] = 'a';
      if(in.has(key.str()))
      {
         const std::string& v = in.kv.at(key.str());
         if(v.size() >= 3 && v[0] == '\'')
            content[k] = v[1] != '\\' ? v[1] : (v[2] == 'r' ? '\r' : v[2] == 'n' ? '\n' : v[2] == 't' ? '\t' : v[2] == '0' ? '\0' : v[2]);
         else
            content[k] = (char)std::atoi(v.c_str());
      }
   }
   content[len] = '\0';
   show("buffer", content);

   if(inst == "line_nothrow")
   {
      /* type token decides the table; take a real name of that type and the value token of the counterexample */
      std::string text(content.data());
      size_t c = text.find(':'), e = text.find('=');
      std::string type = text.substr(0, c == std::string::npos ? text.size() : c);
      std::string value = (e == std::string::npos) ? "x" : text.substr(e + 1);
      std::string name = type.compare(0, 4, "bool") == 0 ? SoPlex::Settings::boolParam.name[0]
                         : type.compare(0, 3, "int") == 0 ? SoPlex::Settings::intParam.name[SoPlex::ITERLIMIT]
                         : type.compare(0, 4, "real") == 0 ? SoPlex::Settings::realParam.name[0] : "random_seed";
      for(int attempt = 0; attempt < 2; attempt++)
      {
         std::string l = type + ":" + name + "=" + (attempt == 0 ? value : std::string("x"));
         std::vector<char> b(l.begin(), l.end());
         b.push_back('\0'); b.push_back('\0');
         show("line", b);
         SoPlex s;
         s.setIntParam(SoPlex::VERBOSITY, 0);
         try
         {
            (void)s._parseSettingsLine(b.data(), 1);
         }
         catch(const std::exception& x)
         {
            REPLAY_FAIL("exception '" << x.what() << "' (" << typeid(x).name() << ") leaves _parseSettingsLine");
         }
      }
      REPLAY_OK();
   }

   /* run 1: exactly the counterexample, exactly sized heap buffer */
   bool r1, r2;
   SoPlex s1, s2;
   s1.setIntParam(SoPlex::VERBOSITY, 0);
   s2.setIntParam(SoPlex::VERBOSITY, 0);
   {
      char* b = new char[bufsize];
      std::memcpy(b, content.data(), bufsize);
      r1 = s1._parseSettingsLine(b, 1);      /* ASan aborts here on an out-of-bounds access */
      delete[] b;
   }
   /* run 2: same string, zeros behind the terminator and one spare byte */
   {
      char* b = new char[bufsize + 1];
      std::memset(b, 0, bufsize + 1);
      std::memcpy(b, content.data(), len);
      r2 = s2._parseSettingsLine(b, 1);
      delete[] b;
   }
   std::string what;
   if(r1 == r2 && same_params(s1, s2, what) && inst == "line_exact")
   {
      /* The verifier's trace may start from a havoc'd loop state and then is not an execution.  Every content is
       * admitted by the contract, so run the canonical witness of the failed obligation as well: a line whose
       * first token ends exactly at the terminator in the last byte of an exactly sized buffer. */
      std::vector<char> w(bufsize, 'a');
      w[bufsize - 1] = '\0';
      show("canonical witness", w);
      char* b = new char[bufsize];
      std::memcpy(b, w.data(), bufsize);
      SoPlex s3;
      s3.setIntParam(SoPlex::VERBOSITY, 0);
      (void)s3._parseSettingsLine(b, 1);      /* ASan: read of b[bufsize] at soplex.hpp "search for the ':' char" loop */
      delete[] b;
   }
   if(r1 != r2)
      REPLAY_FAIL("result depends on the bytes behind the string terminator: " << r1 << " vs " << r2);
   if(!same_params(s1, s2, what))
      REPLAY_FAIL("bytes behind the string terminator were parsed: " << what << " differs");
   REPLAY_OK();
}
