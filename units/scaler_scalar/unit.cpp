/* C09: loop-free scalar getters/setters of SPxScaler (spxscaler.hpp) at R = ledger, real bodies with
 * their real signatures (loop-free => no zero-argument trick needed), plus round-trip lemmas that
 * compose two REAL bodies: XUnscaled(lp with X := scaleX(v)) == v. */
#include "verif.h"
#include "scaler_lp.h"

struct ScalerHost
{
   R upperUnscaled(const SPxLPBase<R>& lp, int i) const
   {
#include "upperUnscaled.inc"
   }
   R lowerUnscaled(const SPxLPBase<R>& lp, int i) const
   {
#include "lowerUnscaled.inc"
   }
   R maxObjUnscaled(const SPxLPBase<R>& lp, int i) const
   {
#include "maxObjUnscaled.inc"
   }
   R rhsUnscaled(const SPxLPBase<R>& lp, int i) const
   {
#include "rhsUnscaled.inc"
   }
   R lhsUnscaled(const SPxLPBase<R>& lp, int i) const
   {
#include "lhsUnscaled.inc"
   }
   R scaleObj(const SPxLPBase<R>& lp, int i, R origObj) const
   {
#include "scaleObj1.inc"
   }
   R scaleElement(const SPxLPBase<R>& lp, int row, int col, R val) const
   {
#include "scaleElement.inc"
   }
   R scaleLower(const SPxLPBase<R>& lp, int col, R lower) const
   {
#include "scaleLower.inc"
   }
   R scaleUpper(const SPxLPBase<R>& lp, int col, R upper) const
   {
#include "scaleUpper.inc"
   }
   R scaleLhs(const SPxLPBase<R>& lp, int row, R lhs) const
   {
#include "scaleLhs.inc"
   }
   R scaleRhs(const SPxLPBase<R>& lp, int row, R rhs) const
   {
#include "scaleRhs.inc"
   }
};

static void mk(SPxLPBase<R>& lp, R* vec, int* rowexp, int* colexp, int n)
{
   lp._isScaled = true; lp.nr = n; lp.nc = n;
   lp.LPColSetBase<R>::scaleExp.data = colexp; lp.LPColSetBase<R>::scaleExp.thesize = n;
   lp.LPRowSetBase<R>::scaleExp.data = rowexp; lp.LPRowSetBase<R>::scaleExp.thesize = n;
   lp.bind();
   lp.sh.low.val = vec; lp.sh.low.dimen = n; lp.sh.up.val = vec; lp.sh.up.dimen = n; lp.sh.obj.val = vec; lp.sh.obj.dimen = n;
   lp.sh.left.val = vec; lp.sh.left.dimen = n; lp.sh.right.val = vec; lp.sh.right.dimen = n; lp.sh.robj.val = vec; lp.sh.robj.dimen = n;
}

/* which: selects the function; the LP vector the getters read is `vec` for all of them */
extern "C" R w_get(int which, R* vec, int* rowexp, int* colexp, int n, int i)
{
   SPxLPBase<R> lp; mk(lp, vec, rowexp, colexp, n);
   ScalerHost s;
   switch(which)
   {
   case 0: return s.upperUnscaled(lp, i);
   case 1: return s.lowerUnscaled(lp, i);
   case 2: return s.maxObjUnscaled(lp, i);
   case 3: return s.rhsUnscaled(lp, i);
   default: return s.lhsUnscaled(lp, i);
   }
}

extern "C" R w_set(int which, R* vec, int* rowexp, int* colexp, int n, int row, int col, R val)
{
   SPxLPBase<R> lp; mk(lp, vec, rowexp, colexp, n);
   ScalerHost s;
   switch(which)
   {
   case 0: return s.scaleObj(lp, col, val);
   case 1: return s.scaleElement(lp, row, col, val);
   case 2: return s.scaleLower(lp, col, val);
   case 3: return s.scaleUpper(lp, col, val);
   case 4: return s.scaleLhs(lp, row, val);
   default: return s.scaleRhs(lp, row, val);
   }
}

/* round trip through two real bodies: store scaleX(v) into the LP vector, read it back with XUnscaled */
extern "C" R w_roundtrip(int which, R* vec, int* rowexp, int* colexp, int n, int i, R v)
{
   SPxLPBase<R> lp; mk(lp, vec, rowexp, colexp, n);
   ScalerHost s;
   switch(which)
   {
   case 0: vec[i] = s.scaleUpper(lp, i, v); return s.upperUnscaled(lp, i);
   case 1: vec[i] = s.scaleLower(lp, i, v); return s.lowerUnscaled(lp, i);
   case 2: vec[i] = s.scaleObj(lp, i, v);   return s.maxObjUnscaled(lp, i);
   case 3: vec[i] = s.scaleRhs(lp, i, v);   return s.rhsUnscaled(lp, i);
   default: vec[i] = s.scaleLhs(lp, i, v);  return s.lhsUnscaled(lp, i);
   }
}
