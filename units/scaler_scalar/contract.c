#include "verif_c.h"
#ifndef CAP
#define CAP 8
#endif
#define INF (1LL << 40)
#define FIN (1LL << 30)
#define EXP_MAX (1 << 20)
typedef long long R;
#define LEDGER_OK(x) ((x) == INF || (x) == -INF || (-FIN <= (x) && (x) <= FIN))
#define FINITE(x) (-FIN <= (x) && (x) <= FIN)
#define ISINF(x) ((x) == INF || (x) == -INF)
#define LD(x, e) (ISINF(x) ? (x) : (x) + (e))
#define EXPS_OK(n, rowexp, colexp, i) (-EXP_MAX <= rowexp[i] && rowexp[i] <= EXP_MAX && -EXP_MAX <= colexp[i] && colexp[i] <= EXP_MAX)
#define ARRS(n) (0 < n && n <= CAP && __CPROVER_is_fresh(vec, n * sizeof(R)) && __CPROVER_is_fresh(rowexp, n * sizeof(int)) && __CPROVER_is_fresh(colexp, n * sizeof(int)))

#ifdef INST_get
/* unscaled getters: bound/side/objective entry i shifted by the exponent that undoes applyScaling:
 * upper/lower: +colexp, maxObj: -colexp, rhs/lhs: -rowexp; infinite values are returned unchanged */
R w_get(int which, R* vec, int* rowexp, int* colexp, int n, int i)
__CPROVER_requires(ARRS(n) && 0 <= i && i < n && 0 <= which && which <= 4)
/* an entry is finite, or infinite on its own side: upper/rhs +inf, lower/lhs -inf; the objective is finite */
__CPROVER_requires(FINITE(vec[i]) || ((which == 0 || which == 3) && vec[i] == INF) || ((which == 1 || which == 4) && vec[i] == -INF))
__CPROVER_requires(EXPS_OK(n, rowexp, colexp, i))
__CPROVER_assigns()
__CPROVER_ensures(which == 0 ==> __CPROVER_return_value == LD(vec[i], colexp[i]))
__CPROVER_ensures(which == 1 ==> __CPROVER_return_value == LD(vec[i], colexp[i]))
__CPROVER_ensures(which == 2 ==> __CPROVER_return_value == LD(vec[i], -colexp[i]))
__CPROVER_ensures(which == 3 ==> __CPROVER_return_value == LD(vec[i], -rowexp[i]))
__CPROVER_ensures(which == 4 ==> __CPROVER_return_value == LD(vec[i], -rowexp[i]))
;
void h_get(void) { int which, n, i; R* vec; int* rowexp; int* colexp; w_get(which, vec, rowexp, colexp, n, i); CANARY(); }
#endif

#ifdef INST_set
/* scaling of new data consistently with the stored exponents: obj +colexp, element +(rowexp+colexp),
 * lower/upper -colexp, lhs/rhs +rowexp */
R w_set(int which, R* vec, int* rowexp, int* colexp, int n, int row, int col, R val)
__CPROVER_requires(ARRS(n) && 0 <= row && row < n && 0 <= col && col < n && 0 <= which && which <= 5)
/* the scalar scale* routines apply ldexp unconditionally: their callers must not pass infinite values (checked in the lp_scale unit) */
__CPROVER_requires(FINITE(val) && EXPS_OK(n, rowexp, colexp, row) && EXPS_OK(n, rowexp, colexp, col))
__CPROVER_assigns()
__CPROVER_ensures(which == 0 ==> __CPROVER_return_value == LD(val, colexp[col]))
__CPROVER_ensures(which == 1 ==> __CPROVER_return_value == LD(val, rowexp[row] + colexp[col]))
__CPROVER_ensures(which == 2 ==> __CPROVER_return_value == LD(val, -colexp[col]))
__CPROVER_ensures(which == 3 ==> __CPROVER_return_value == LD(val, -colexp[col]))
__CPROVER_ensures(which == 4 ==> __CPROVER_return_value == LD(val, rowexp[row]))
__CPROVER_ensures(which == 5 ==> __CPROVER_return_value == LD(val, rowexp[row]))
;
void h_set(void) { int which, n, row, col; R val; R* vec; int* rowexp; int* colexp; w_set(which, vec, rowexp, colexp, n, row, col, val); CANARY(); }
#endif

#ifdef INST_roundtrip
/* getXUnscaled(scaleX(v)) == v for every finite ledger value v (infinite values never reach scaleX: lp_scale unit) */
R w_roundtrip(int which, R* vec, int* rowexp, int* colexp, int n, int i, R v)
__CPROVER_requires(ARRS(n) && 0 <= i && i < n && 0 <= which && which <= 4)
__CPROVER_requires(FINITE(v) && EXPS_OK(n, rowexp, colexp, i))
__CPROVER_assigns(__CPROVER_object_whole(vec))
__CPROVER_ensures(__CPROVER_return_value == v)
;
void h_roundtrip(void) { int which, n, i; R v; R* vec; int* rowexp; int* colexp; w_roundtrip(which, vec, rowexp, colexp, n, i, v); CANARY(); }
#endif
