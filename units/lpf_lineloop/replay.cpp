/* Native replay for the lpf_lineloop unit: runs the REAL readLPF of the current tree (SPxLPBase<Real> for *_real instances,
 * SPxLPBase<Rational> for *_rat instances) under AddressSanitizer/UBSan on LP files whose objective line is longer than the
 * line buffers.
 *
 * The failing obligations of this unit are about the capacities of readLPF's LOCAL buffers (buf, tmp, line), which no caller can
 * set: the counterexample's numbers (buf_size, cap_tmp, ...) describe a loop state, not an input.  The driver therefore feeds
 * the reader the inputs that drive the real code through those states: one line of L characters for L around every multiple of
 * SOPLEX_LPF_MAX_LINE_LEN up to the counterexample's buf_size + 2 * SOPLEX_LPF_MAX_LINE_LEN, in three shapes (dense `+x1+x1..`
 * that survives the blank squeezing, a run of signs that is collapsed, leading blanks).
 * A sanitizer report (or exit code 1) = the real code violates the obligation. */
#include <replay_util.h>
#include <cstring>
#include <sstream>
#include <string>
#include "soplex/spxlpbase.h"

using namespace soplex;

#ifndef SOPLEX_LPF_MAX_LINE_LEN
#error "soplex/spxlpbase.h no longer defines SOPLEX_LPF_MAX_LINE_LEN"
#endif

static std::string longLine(int shape, long L)
{
   std::string s = " obj: ";

   if(shape == 0)
      while((long)s.size() + 3 <= L) s += "+x1";
   else if(shape == 1)
   {
      while((long)s.size() + 2 < L) s += ((s.size() & 1) ? "+" : "-");

      s += "x1";
   }
   else
   {
      s = std::string((size_t)(L > 10 ? L - 10 : 0), ' ');
      s += " obj: +x1";
   }

   return s;
}

template <class R>
static bool readOne(const std::string& text, int& ncols)
{
   SPxLPBase<R> lp;
   lp.setTolerances(std::make_shared<Tolerances>());
   SPxOut out;
   out.setVerbosity(SPxOut::ERROR);
   lp.setOutstream(out);
   std::istringstream is(text);
   bool ok = lp.readLPF(is, nullptr, nullptr, nullptr);      /* null name sets: readLPF creates and must release its own (LeakSanitizer) */
   ncols = lp.nCols();
   return ok;
}

int main(int argc, char** argv)
{
   if(argc < 3)
      return 2;

   ReplayIn in(argv[1]);
   std::string inst = argv[2];
   bool rat = inst.size() >= 4 && inst.compare(inst.size() - 4, 4, "_rat") == 0;
   const long LEN = SOPLEX_LPF_MAX_LINE_LEN;
   long long start = in.geti("buf_size", LEN);

   if(start < LEN || start > 64 * LEN)      /* the obligations are inductive; keep the native run small */
      start = LEN;

   long top = (long)start + 2 * LEN;
   int nfiles = 0;

   for(long base = LEN; base <= top; base += LEN)
      for(long d = -3; d <= 2; d++)
         for(int shape = 0; shape < 3; shape++)
         {
            long L = base + d;

            if(shape == 0 && (d < -1 || d > 1))     /* thousands of terms: the expensive shape, fewer lengths */
               continue;

            std::string text = "Maximize\n" + longLine(shape, L) + "\nSubject To\n c1: x1 <= 1\nEnd\n";
            int ncols = -1;
            bool ok = rat ? readOne<Rational>(text, ncols) : readOne<Real>(text, ncols);
            nfiles++;

            if(ok && ncols != 1)
               REPLAY_FAIL("line of " << L << " characters (shape " << shape << "): read succeeded with " << ncols << " columns instead of 1");
         }

   std::cout << nfiles << " files with one over-long line read by the real " << (rat ? "rational" : "real") << " readLPF" << std::endl;
   REPLAY_OK();
}
