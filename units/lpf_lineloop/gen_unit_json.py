#!/usr/bin/env python3
"""Writes unit.json of lpf_lineloop: the same four region instances for spxlpbase_real.hpp and spxlpbase_rational.hpp."""
import json
import os

HERE = os.path.dirname(os.path.abspath(__file__))
FILES = {"real": "src/soplex/spxlpbase_real.hpp", "rat": "src/soplex/spxlpbase_rational.hpp"}
FN = {"real": "SPxLPBase<R>::readLPF [spxlpbase_real.hpp]", "rat": "SPxLPBase<Rational>::readLPF [spxlpbase_rational.hpp]"}
HELPERS = [
    {"as": "LPFisSpace.inc", "file": FILES["real"], "sig": "static\\s+inline\\s+bool\\s+LPFisSpace\\s*\\(\\s*int\\s+c\\s*\\)"},
    {"as": "LPFisColName.inc", "file": FILES["real"],
     "sig": "static\\s+inline\\s+bool\\s+LPFisColName\\s*\\(\\s*const\\s+char\\*\\s+s\\s*\\)"},
]
A_END = "SPxOut::debug\\(spxout,\\s*\"DLPFRD08"


def region_a(f, start):
    return {"as": "regionA.inc", "file": f, "nth": 0, "region_start": start, "region_end": A_END,
            "must_contain": ["spx_realloc\\(buf, buf_size\\)", "spx_realloc\\(tmp, buf_size\\)", "spx_realloc\\(line, buf_size\\)"]}


A_MUTANTS = [
    # the seeded change R2-C13-R2e2: tmp grown inside the grow branch only, line never grown, block in front of lineno++ removed
    {"name": "seed_R2e2_line_never_grown", "slice": "regionA.inc", "regex": True,
     "find": "spx_realloc\\(buf, buf_size\\);(.*?)if\\(\\(size_t\\) buf_size > sizeof\\(tmp\\)\\)\\s*\\{[^}]*\\}",
     "replace": "spx_realloc(buf, buf_size); spx_realloc(tmp, buf_size);\\1"},
    {"name": "realloc_old_size", "slice": "regionA.inc", "regex": True,
     "find": "buf_size = buf_size \\+ SOPLEX_LPF_MAX_LINE_LEN;(.*?)spx_realloc\\(buf, buf_size\\);",
     "replace": "spx_realloc(buf, buf_size); buf_size = buf_size + SOPLEX_LPF_MAX_LINE_LEN;\\1"},
    {"name": "getline_len_plus_one", "slice": "regionA.inc", "find": "buf_size - buf_pos)", "replace": "buf_size - buf_pos + 1)"},
    # statement order swapped: buf_pos computed from the NEW size -> getline(buf + buf_size - 1, 1) stores nothing but a terminator
    {"name": "buf_pos_after_bump", "slice": "regionA.inc", "regex": True,
     "find": "buf_pos = buf_size - 1;([\\s\\S]*?)buf_size = buf_size \\+ SOPLEX_LPF_MAX_LINE_LEN;",
     "replace": "\\1buf_size = buf_size + SOPLEX_LPF_MAX_LINE_LEN; buf_pos = buf_size - 1;"},
    # the text before the repair: the limit tested after the addition (signed overflow at buf_size == INT_MAX - LEN + 1, and the test can never fire)
    {"name": "limit_tested_after_bump", "slice": "regionA.inc", "regex": True,
     "find": "if\\(buf_size > INT_MAX - SOPLEX_LPF_MAX_LINE_LEN\\)([\\s\\S]*?)buf_size = buf_size \\+ SOPLEX_LPF_MAX_LINE_LEN;",
     "replace": "buf_size = buf_size + SOPLEX_LPF_MAX_LINE_LEN; if(buf_size >= INT_MAX)\\1"},
    {"name": "buf_pos_past_size", "slice": "regionA.inc", "find": "buf_pos = buf_size - 1;", "replace": "buf_pos = buf_size + SOPLEX_LPF_MAX_LINE_LEN;"},
    {"name": "tmp_not_grown", "slice": "regionA.inc", "find": "spx_realloc(tmp, buf_size);", "replace": ""},
    {"name": "line_not_grown", "slice": "regionA.inc", "find": "spx_realloc(line, buf_size);", "replace": ""},
    {"name": "line_one_short", "slice": "regionA.inc", "find": "spx_realloc(line, buf_size);", "replace": "spx_realloc(line, buf_size - 1);"},
    {"name": "buf_realloc_dropped", "slice": "regionA.inc", "find": "spx_realloc(buf, buf_size);", "replace": ""},
    {"name": "scan_not_reset", "slice": "regionA.inc", "regex": True, "find": "\\bi\\s*=\\s*0;", "replace": ""},
]
STEP_ONLY = {"scan_not_reset"}   # (kept in both; listed for documentation)

B1_MUTANTS = [
    {"name": "terminator_one_behind", "slice": "regionB1.inc", "find": "tmp[k] = '\\0';", "replace": "tmp[k + 1] = '\\0';"},
    {"name": "no_terminator_test", "slice": "regionB1.inc", "find": "pos[i] != '\\0'", "replace": "i < buf_size"},
    {"name": "copy_twice", "slice": "regionB1.inc", "find": "tmp[k++] = pos[i];", "replace": "{ tmp[k++] = pos[i]; tmp[k++] = pos[i]; }"},
]
B2_MUTANTS = [
    {"name": "terminator_one_behind", "slice": "regionB2.inc", "find": "line[k] = '\\0';", "replace": "line[k + 1] = '\\0';"},
    {"name": "runs_past_terminator", "slice": "regionB2.inc", "find": "tmp[i] != '\\0'", "replace": "i < buf_size"},
    {"name": "sign_written_two_ahead", "slice": "regionB2.inc", "find": "tmp[i] = (tmp[i] == '-') ? '+' : '-';",
     "replace": "tmp[i + 1] = (tmp[i] == '-') ? '+' : '-';"},
]

A_LOOPS_UNWOUND = [{"function": "HostA::body\\(this\\)", "loop": 0}]

insts = []
for tag, f in FILES.items():
    common = {"constants": [{"name": "SOPLEX_LPF_MAX_LINE_LEN", "file": f, "regex": "#define\\s+SOPLEX_LPF_MAX_LINE_LEN\\s+(\\d+)"}]}
    insts.append(dict(common, name="readgrow_" + tag,
                      function=FN[tag] + ": region `buf_pos = 0; while(!p_input.getline(..)) {grow buf} .. realloc tmp/line; lineno++; i = 0; pos = buf;` from the main-loop invariant",
                      defines={"INST_readgrow": ""}, harness="h_readgrow", enforce="w_readgrow",
                      slices=[region_a(f, "buf_pos = 0;")], unwind_loops=A_LOOPS_UNWOUND, unwind=3,
                      min_obligations=60, tier="quick", mutants=[m for m in A_MUTANTS if m["name"] != "limit_tested_after_bump"]))
    insts.append(dict(common, name="growstep_" + tag,
                      function=FN[tag] + ": the same region entered at `while(!p_input.getline(..))` from ANY state satisfying the loop-head invariant (inductive step of the growth loop)",
                      defines={"INST_growstep": ""}, harness="h_readgrow", enforce="w_readgrow",
                      slices=[region_a(f, "while\\(!p_input\\.getline\\(")], unwind_loops=A_LOOPS_UNWOUND, unwind=3,
                      min_obligations=60, tier="quick",
                      mutants=[m for m in A_MUTANTS if m["name"] in ("realloc_old_size", "getline_len_plus_one", "buf_pos_after_bump", "buf_pos_past_size", "buf_realloc_dropped", "tmp_not_grown")]))
    # the same inductive step without the input assumption "no line of INT_MAX - LEN or more characters" (failed before the
    # repair of the line-length limit in /repo, see known_findings.json)
    insts.append(dict(common, name="growstep_" + tag + "_2g",
                      function=FN[tag] + ": growth loop, inductive step WITHOUT the assumption that lines are shorter than INT_MAX - SOPLEX_LPF_MAX_LINE_LEN characters",
                      defines={"INST_growstep": "", "NO_LINE_LIMIT": ""}, harness="h_readgrow", enforce="w_readgrow",
                      slices=[region_a(f, "while\\(!p_input\\.getline\\(")], unwind_loops=A_LOOPS_UNWOUND, unwind=3,
                      min_obligations=60, tier="quick",
                      mutants=[m for m in A_MUTANTS if m["name"] in ("buf_realloc_dropped", "limit_tested_after_bump")]))
    insts.append(dict(common, name="squeeze_" + tag,
                      function=FN[tag] + ": steps 4a/4b (skip leading blanks, copy pos -> tmp without blanks)",
                      defines={"INST_squeeze": ""}, harness="h_squeeze", enforce="w_squeeze",
                      slices=[{"as": "regionB1.inc", "file": f, "nth": 0,
                               "region_start": "while\\(LPFisSpace\\(pos\\[i\\]\\)\\)",
                               "region_end": "if\\(tmp\\[0\\] == '\\\\0'\\)",
                               "must_contain": ["tmp\\[k\\+\\+\\] = pos\\[i\\];", "tmp\\[k\\] = '\\\\0';"]}] + HELPERS,
                      loops=[
                          {"function": "HostB1::body\\(this\\)", "loop": 0, "locals": ["i"],
                           "invariants": ["0 <= i && i <= g_len - g_off"], "assigns": ["i"], "decreases": "g_len - g_off - i"},
                          {"function": "HostB1::body\\(this\\)", "loop": 1, "locals": ["i", "k", "tmp"],
                           "invariants": ["0 <= k && k <= i && i <= g_len - g_off"],
                           "assigns": ["i", "k", "__CPROVER_object_whole(tmp)"], "decreases": "g_len - g_off - i"}],
                      min_obligations=40, tier="quick", mutants=B1_MUTANTS))
    insts.append(dict(common, name="collapse_" + tag,
                      function=FN[tag] + ": step 6 (copy tmp -> line, collapsing runs of '+' and '-')",
                      defines={"INST_collapse": ""}, harness="h_collapse", enforce="w_collapse",
                      slices=[{"as": "regionB2.inc", "file": f, "nth": 0,
                               "region_start": "for\\(i = 0, k = 0; tmp\\[i\\] != '\\\\0'; i\\+\\+\\)",
                               "region_end": "pos = line;",
                               "must_contain": ["line\\[k\\+\\+\\] = tmp\\[i\\];", "line\\[k\\] = '\\\\0';"]}],
                      loops=[
                          {"function": "HostB2::body\\(this\\)", "loop": 0, "locals": ["i", "k", "tmp"],
                           "invariants": ["0 <= k && k <= i && i < g_len", "__CPROVER_loop_entry(i) <= i", "gp_tmp[g_len] == 0"],
                           "assigns": ["i", "__CPROVER_object_whole(tmp)"], "decreases": "g_len - i"},
                          {"function": "HostB2::body\\(this\\)", "loop": 1, "locals": ["i", "k", "tmp", "line"],
                           "invariants": ["0 <= k && k <= i && i <= g_len", "gp_tmp[g_len] == 0"],
                           "assigns": ["i", "k", "__CPROVER_object_whole(tmp)", "__CPROVER_object_whole(line)"], "decreases": "g_len - i"}],
                      min_obligations=40, tier="quick", mutants=B2_MUTANTS))

E_MUTANTS = [
    # the text before commit 4ac7050: the reader's own name sets were freed without running their destructor (leak of their arrays)
    {"name": "prefix_no_dtor_cnames", "slice": "epilogue.inc", "find": "cnames->~NameSet();", "replace": ""},
    {"name": "prefix_no_dtor_rnames", "slice": "epilogue.inc", "find": "rnames->~NameSet();", "replace": ""},
    {"name": "dtor_after_free", "slice": "epilogue.inc", "regex": True,
     "find": "cnames->~NameSet\\(\\);\\s*spx_free\\(cnames\\);", "replace": "spx_free(cnames); cnames->~NameSet();"},
    {"name": "frees_callers_rnames", "slice": "epilogue.inc", "find": "if(p_rnames == nullptr)", "replace": "if(rnames != nullptr)"},
    {"name": "tmp_not_freed", "slice": "epilogue.inc", "find": "spx_free(tmp);", "replace": "spx_free(buf);"},
    {"name": "returns_true", "slice": "epilogue.inc", "find": "return finished;", "replace": "return true;"},
]
for tag, f in FILES.items():
    insts.append({"name": "epilogue_" + tag,
                  "constants": [{"name": "SOPLEX_LPF_MAX_LINE_LEN", "file": f, "regex": "#define\\s+SOPLEX_LPF_MAX_LINE_LEN\\s+(\\d+)"}],
                  "function": FN[tag] + ": epilogue from `syntax_error:` to the end of the function (own name sets destroyed then freed, caller's sets untouched, buf/tmp/line freed once)",
                  "defines": {"INST_epilogue": ""}, "harness": "h_epilogue", "enforce": "w_epilogue",
                  "slices": [{"as": "epilogue.inc", "file": f, "nth": 0, "region_start": "syntax_error:", "region_end": "\\n\\}",
                              "must_contain": ["cnames->~NameSet\\(\\);", "rnames->~NameSet\\(\\);", "return finished;"]}],
                  "conformance": [
                      {"file": "src/soplex/nameset.h", "regex": "\\n\\s*~NameSet\\(\\);", "why": "NameSet has a (non-virtual) destructor"},
                      {"file": "src/soplex/spxalloc.h", "regex": "inline\\s+void\\s+spx_free\\(T&\\s+p\\)\\s*\\{\\s*assert\\(p != nullptr\\);\\s*free\\(p\\);\\s*p = nullptr;\\s*\\}",
                       "why": "spx_free stub: free(p); p = nullptr"},
                      {"file": "src/soplex/spxdefines.h", "regex": "#define\\s+SPX_MSG_ERROR\\(x\\)\\s*\\{[^\\n]*\\}\\s*\\n", "why": "SPX_MSG_ERROR is a braced block (the `else SPX_MSG_ERROR(..)` in front of `if(p_cnames == nullptr)` is a complete statement)"},
                      {"file": "src/soplex/spxdefines.h", "regex": "#define\\s+SPX_MSG_INFO2\\(spxout, x\\)\\s*\\{[^\\n]*\\}\\s*\\n", "why": "SPX_MSG_INFO2 is a braced block"},
                      {"file": f, "regex": "cnames = \\(p_cnames != nullptr\\) \\? p_cnames : |if\\(p_cnames\\)\\s*cnames = p_cnames;\\s*else",
                       "why": "cnames is the caller's set when one is given, else readLPF's own"},
                      {"file": f, "regex": "if\\(p_rnames\\)\\s*rnames = p_rnames;\\s*else",
                       "why": "rnames is the caller's set when one is given, else readLPF's own"},
                  ],
                  "min_obligations": 30, "tier": "quick", "mutants": E_MUTANTS})

unit = {
    "property": ["C13"],
    "desc": "readLPF line-buffer management (real and rational reader): growth of buf/tmp/line while a line is read, blank squeezing "
            "into tmp, sign collapsing into line - verbatim regions of the main loop on heap objects of exactly the requested, symbolic capacity",
    "scope_bounded": False,   # unwind 3 = the inductive step through the getline stub, not a size cap
    "rmode": "bytes and ints (no arithmetic abstraction)",
    "flags": ["--bounds-check", "--pointer-check", "--signed-overflow-check", "--conversion-check", "--no-malloc-may-fail", "--sat-solver", "cadical"],
    "instrument_flags": ["--no-malloc-may-fail"],
    "timeout_s": 280,
    "replay": {"cpp": "replay.cpp", "extra_src": ["LIB"], "asan": True},
    "conformance": [
        {"file": "src/soplex/spxalloc.h", "regex": "inline\\s+void\\s+spx_realloc\\(T&\\s+p,\\s+int\\s+n\\)\\s*\\{\\s*assert\\(n >= 0\\);.*?if\\(n == 0\\)\\s*n = 1;.*?realloc\\(p,\\s*sizeof\\(\\*p\\)\\s*\\*\\s*\\(unsigned int\\)\\s*n\\)",
         "why": "spx_realloc stub: n == 0 -> 1, sizeof(*p) * (unsigned int) n bytes, assert(n >= 0)"},
    ] + sum([[
        {"file": f, "regex": "int buf_size;\\s*int buf_pos;\\s*char\\* buf = nullptr;\\s*char\\* tmp = nullptr;\\s*char\\* line = nullptr;",
         "why": "host locals have the types of readLPF's locals"},
        {"file": f, "regex": "buf_size = SOPLEX_LPF_MAX_LINE_LEN;\\s*spx_alloc\\(buf, buf_size\\);\\s*spx_alloc\\(tmp, buf_size\\);\\s*spx_alloc\\(line, buf_size\\);",
         "why": "the main-loop invariant holds on entry: three allocations of buf_size = SOPLEX_LPF_MAX_LINE_LEN bytes"},
        {"file": f, "regex": "std::istream&\\s+p_input", "why": "p_input is a std::istream: getline(char*, streamsize), clear()"},
    ] for f in FILES.values()], []),
    "trusted": [
        "std::istream model: getline(s, n) stores k <= n-1 arbitrary bytes (NUL included; 'for every j' through a ghost index) and a terminator behind them and returns ANY verdict (covers: line fits; line does not fit = exactly n-1 characters stored, fail; end of file; stream turning bad); clear() has no effect on memory",
        "getline's precondition (n >= 2, [s, s+n) inside the CURRENT buf object) is ASSERTED at every call; it is the loop-head invariant of the growth loop. The loop is not abstracted by a loop contract (it frees and reallocates the object it writes to, which CBMC loop contracts cannot express): readgrow_* is the base case (from the main-loop invariant), growstep_* the inductive step (region entered at the `while` from ANY state with 0 <= buf_pos <= buf_size - 2, cap(buf) == buf_size); in both, two getline calls execute, the third is checked and cut, the loop is completely unwound (--unwind 3 with unwinding assertion)",
        "termination of the growth loop is NOT a proof obligation: every failed getline call that does not end the loop has stored n-1 >= 1 characters of a finite input (n >= 2 is asserted)",
        "INPUT ASSUMPTION: no line of INT_MAX - SOPLEX_LPF_MAX_LINE_LEN (2147475455) or more characters (assume in the getline model): for longer lines `buf_size + SOPLEX_LPF_MAX_LINE_LEN` overflows int",
        "spx_realloc stub: the real function minus the exception; NEW malloc object of exactly sizeof(char) * (unsigned) n bytes with ARBITRARY content (over-approximates the preserved prefix), old object freed; allocation failure (SPxMemoryException) not modelled; asserts n >= 0 and that the argument is one of the three live buffers",
        "strlen model (only ever applied to buf, asserted): asserts a terminator witness inside the current capacity, returns the distance to SOME terminator up to the witness (ISO C: the first) - over-approximation; strchr model for the <= 24 character literal in LPFisColName",
        "INT_MAX = 2147483647 (32-bit int); sizeof(tmp) = 8 (LP64 pointer); SPX_MSG_ERROR dropped; fewer than INT_MAX lines (lineno++)",
        "regions B: the code between region A and step 4a (comment removal, keyword and row-name helpers) is not part of this unit; it is ASSUMED to leave buf, tmp, line, buf_size and i == 0 untouched and pos inside [buf, buf + strlen(buf)] (unit lpf_helpers proves the latter for each helper separately); `if(tmp[0] == 0) continue;` between steps 4b and 6 is not part of a region",
        "epilogue_*: NameSet is a recorder stub (destructor counts calls per object and writes a member), spx_free = free(p); p = nullptr plus a recorder; the name sets and the three buffers are heap objects made by the wrapper; cnames/rnames are the caller's sets iff p_cnames/p_rnames are non-null (conformance-checked at the top of readLPF); leaks of anything allocated elsewhere in readLPF are outside this region",
        "host locals of readLPF are replicated (types conformance-checked); `break` out of the main loop is hosted by a switch, `goto syntax_error` by a label that sets a flag",
    ],
    "instances": insts,
}
json.dump(unit, open(os.path.join(HERE, "unit.json"), "w"), indent=1)
print("instances:", len(insts))
